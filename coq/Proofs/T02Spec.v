(* T02 (property C02, "single-caller behaviour matches a reference filesystem"): each filesystem call
   has, on the set of live entries of the index, the effect of the reference operation of T02Ns.v and
   returns the reference outcome; a failed call changes nothing.

   abs s      = the LIVE rows of the index projected to (name, attributes)         (T02Ns.v)
   spec_*     = the reference calls over ns = list (name * node), executable       (T02Ns.v)
   ns_eq      = equality of namespaces as finite maps (order of entries is irrelevant)

   State hypothesis [Good hr c s]:
     - [Inv hr c s], the C01 invariant (Proofs/C01Ops.v);
     - [sizes_ok]: every row stores the size a replay of its record would store: its PAX size record decodes to the
       stored size, or it has none and the size is below 10^40 (a metadata update or move re-derives the size from
       the PAX size record, which [keep_size] adds from the known size when missing: rows of a foreign archive);
     - [closed (abs s)]: the live entries form a tree.  Needed where the implementation looks at direct children
       (Remove's emptiness test, MkdirAll's early failure) or at a name prefix (RemoveAll, Rename) and the
       reference at the subtree.
   [Good] holds after Initialize "/" ([Good_init]) and is preserved by every call below (part of each theorem),
   so the theorems compose over histories ([T02_history]).

   Call hypotheses: plain configuration (no codec suffix), record size > 0, not read-only (the read-only case is
   Props/C02.v C02_readonly_refuses), header-block counts >= 1 ([hb_env], as [hb_ok] in C01Rows.v), cleaned absolute
   names ([good]); Remove / RemoveAll not of the root and Rename not onto the root (as [call_ok] in the C01 theorem);
   CreateFile: sizes are below 10^40 and the corner of T02Counter.v (2) is excluded (nothing is written to an existing
   EMPTY regular file: the call then does nothing, the reference stamps the modification time); every other CreateFile
   - on a new name, on a directory, on an existing regular file, with or without content - has the reference's outcome
   and effect: the flush of written content stamps the modification time (Fs.stamp_mtime) and keeps the owner of the
   entry, so there is no hypothesis on the process identity (T02Counter.v (1)); what the call does on an existing
   regular file, the corner included, is [T02_create_file_existing] / [T02_create_file_existing_empty].
   Every hypothesis that excludes a behaviour has a compiled example in T02Counter.v; the statements were tested
   with vm_compute on concrete states before they were proved (T02Test.v: 322 calls in each of 3 states), and
   T02Demo.v applies [T02_history] to a concrete history (the hypotheses are decidable there).
   Files: T02Ns (reference, abstraction), T02Db / T02Ops / T02Move (index and operations, exact), T02Reads (Stat,
   listing), T02Str (names as component lists), T02Closed (tree shape), T02Calls / T02Rename / T02MkdirAll /
   T02Create (the calls, for any state with a positive header-block queue), this file (statements for
   [step c (with_env s e) k], all call kinds at once, histories). *)
From Coq Require Import List NArith ZArith Bool Lia.
From Coq Require Import ZifyN ZifyBool.
Import ListNotations.
From STFS Require Import Str Db Tape Index Ops Fs Diff Norm TapeLemmas StrLemmas
  C01Str C01Db C01Inv C01Sim C01Tape C01Hdr C01Ops C01Ops2 C01Reads C01Fs C01Fs2 C01Rows
  T02Ns T02Db T02Ops T02Reads T02Str T02Closed T02Move T02Calls T02Rename T02MkdirAll T02Create.
Open Scope N_scope.

Record Good (hr : bool) (c : cfg) (s : sys) : Prop := {
  g_wf : Wf hr c s;
  g_closed : closed (abs s) }.

Definition hb_env (e : env) : Prop := forallb (fun x => 0 <? x) (ev_hb e) = true.

(* ---------- the state after Initialize "/" *)
Theorem Good_init c e : 0 < c_rs c -> c_readonly c = false -> hb_env e ->
  Good true c (fst (step c (with_env init_sys e) (CInitialize [slash]))).
Proof.
  intros Hrs Hro Hhb. pose proof (init_ok c Hrs Hro e Hhb) as [HI _].
  destruct (init_eq c Hrs Hro e Hhb) as (m & r0 & s1 & E & _ & _ & Er & Em). rewrite E in *. cbn [fst] in *.
  split; [split; [exact HI|]|].
  - cbn [db rows]. constructor; [|constructor]. rewrite Er, Em. reflexivity.
  - intros x v Hx p Gp Hb. exfalso. unfold abs, absp in Hx. cbn [db rows filter] in Hx.
    assert (Ename : r_name r0 = [slash]) by (rewrite Er, Em; reflexivity).
    destruct (live r0); cbn [map] in Hx; [|discriminate]. rewrite lookup_cons in Hx. cbn [fst] in Hx. rewrite Ename in Hx.
    destruct (eqb_str [slash] x) eqn:Ex; [|discriminate]. apply eqb_str_eq in Ex. subst x.
    rewrite (below_root_false p Gp) in Hb. discriminate.
Qed.

Section Spec.
Variable hr : bool.
Variable c : cfg.
Hypothesis HP : plain c.
Hypothesis Hrs : 0 < c_rs c.
Hypothesis Hro : c_readonly c = false.

Lemma Wf_env s e : Wf hr c s -> Wf hr c (with_env s e).
Proof. intros [A B]. split; [apply env_inv; exact A|exact B]. Qed.

Ltac start HG Hhb s e :=
  pose proof (Wf_env s e (g_wf _ _ _ HG)) as HW0; pose proof (g_closed _ _ _ HG) as Hcl0;
  pose proof (hbok_env c Hrs s e Hhb) as Hhb0;
  pose proof (names_good_abs hr c s (wf_inv hr c s (g_wf _ _ _ HG))) as Hng0.

(* ---------- one theorem per call kind: the outcome and the complete new namespace *)
Theorem T02_mkdir : forall s e n perm, Good hr c s -> hb_env e -> good n ->
  let '(s', o) := step c (with_env s e) (CMkdir n perm) in
  Good hr c s' /\ o = snd (spec_mkdir c (abs s) n perm (ev_now e)) /\
  ns_eq (abs s') (fst (spec_mkdir c (abs s) n perm (ev_now e))).
Proof.
  intros s e n perm HG Hhb G. start HG Hhb s e.
  destruct (T02_mkdir hr c HP Hrs Hro (with_env s e) n perm HW0 Hhb0 G) as (s' & E & HW' & _ & Eq).
  rewrite E. change (abs (with_env s e)) with (abs s) in *. change (clk (with_env s e)) with (ev_now e) in *.
  split; [split; [exact HW'|]|split; [reflexivity|exact Eq]].
  eapply closed_ns_eq; [apply ns_eq_sym; exact Eq|]. apply closed_mkdir; assumption.
Qed.

Theorem T02_mkdirall : forall s e n perm, Good hr c s -> hb_env e -> good n ->
  let '(s', o) := step c (with_env s e) (CMkdirAll n perm) in
  Good hr c s' /\ o = snd (spec_mkdirall c (abs s) n perm (ev_now e)) /\
  ns_eq (abs s') (fst (spec_mkdirall c (abs s) n perm (ev_now e))).
Proof.
  intros s e n perm HG Hhb G. start HG Hhb s e.
  destruct (T02_mkdirall hr c HP Hrs Hro (with_env s e) n perm HW0 Hcl0 Hhb0 G) as (s' & E & HW' & _ & Eq).
  rewrite E. change (abs (with_env s e)) with (abs s) in *. change (clk (with_env s e)) with (ev_now e) in *.
  split; [split; [exact HW'|]|split; [reflexivity|exact Eq]].
  eapply closed_ns_eq; [apply ns_eq_sym; exact Eq|]. apply closed_mkdirall; assumption.
Qed.

Theorem T02_remove : forall s e n, Good hr c s -> hb_env e -> good n -> n <> [slash] ->
  let '(s', o) := step c (with_env s e) (CRemove n) in
  Good hr c s' /\ o = snd (spec_remove (abs s) n) /\ ns_eq (abs s') (fst (spec_remove (abs s) n)).
Proof.
  intros s e n HG Hhb G Hn. start HG Hhb s e.
  destruct (T02_remove hr c HP Hrs Hro (with_env s e) n HW0 Hcl0 Hhb0 G Hn) as (s' & E & HW' & _ & Eq).
  rewrite E. change (abs (with_env s e)) with (abs s) in *.
  split; [split; [exact HW'|]|split; [reflexivity|exact Eq]].
  eapply closed_ns_eq; [apply ns_eq_sym; exact Eq|]. apply closed_remove; assumption.
Qed.

Theorem T02_remove_all : forall s e n, Good hr c s -> hb_env e -> good n -> n <> [slash] ->
  let '(s', o) := step c (with_env s e) (CRemoveAll n) in
  Good hr c s' /\ o = snd (spec_remove_all (abs s) n) /\ ns_eq (abs s') (fst (spec_remove_all (abs s) n)).
Proof.
  intros s e n HG Hhb G Hn. start HG Hhb s e.
  destruct (T02_remove_all hr c HP Hrs Hro (with_env s e) n HW0 Hcl0 Hhb0 G Hn) as (s' & E & HW' & _ & Eq).
  rewrite E. change (abs (with_env s e)) with (abs s) in *.
  split; [split; [exact HW'|]|split; [reflexivity|exact Eq]].
  eapply closed_ns_eq; [apply ns_eq_sym; exact Eq|]. apply closed_remove_all; assumption.
Qed.

Theorem T02_rename : forall s e old new, Good hr c s -> hb_env e -> good old -> good new -> new <> [slash] ->
  let '(s', o) := step c (with_env s e) (CRename old new) in
  Good hr c s' /\ o = snd (spec_rename (abs s) old new) /\ ns_eq (abs s') (fst (spec_rename (abs s) old new)).
Proof.
  intros s e old new HG Hhb Go Gn Hn. start HG Hhb s e.
  destruct (T02_rename hr c HP Hrs Hro (with_env s e) old new HW0 Hcl0 Hhb0 Go Gn Hn) as (s' & E & HW' & _ & Eq).
  rewrite E. change (abs (with_env s e)) with (abs s) in *.
  split; [split; [exact HW'|]|split; [reflexivity|exact Eq]].
  eapply closed_ns_eq; [apply ns_eq_sym; exact Eq|]. apply closed_rename; assumption.
Qed.

Theorem T02_chmod : forall s e n m, Good hr c s -> hb_env e -> good n ->
  let '(s', o) := step c (with_env s e) (CChmod n m) in
  Good hr c s' /\ o = snd (spec_chmod (abs s) n m) /\ ns_eq (abs s') (fst (spec_chmod (abs s) n m)).
Proof.
  intros s e n m HG Hhb G. start HG Hhb s e.
  destruct (T02_chmod hr c HP Hrs Hro (with_env s e) n m HW0 Hhb0 G) as (s' & E & HW' & _ & Eq).
  rewrite E. change (abs (with_env s e)) with (abs s) in *.
  split; [split; [exact HW'|]|split; [reflexivity|exact Eq]].
  eapply closed_ns_eq; [apply ns_eq_sym; exact Eq|]. apply closed_ch; [reflexivity|assumption].
Qed.

Theorem T02_chown : forall s e n u g, Good hr c s -> hb_env e -> good n ->
  let '(s', o) := step c (with_env s e) (CChown n u g) in
  Good hr c s' /\ o = snd (spec_chown (abs s) n u g) /\ ns_eq (abs s') (fst (spec_chown (abs s) n u g)).
Proof.
  intros s e n u g HG Hhb G. start HG Hhb s e.
  destruct (T02_chown hr c HP Hrs Hro (with_env s e) n u g HW0 Hhb0 G) as (s' & E & HW' & _ & Eq).
  rewrite E. change (abs (with_env s e)) with (abs s) in *.
  split; [split; [exact HW'|]|split; [reflexivity|exact Eq]].
  eapply closed_ns_eq; [apply ns_eq_sym; exact Eq|]. apply closed_ch; [reflexivity|assumption].
Qed.

Theorem T02_chtimes : forall s e n at_ mt, Good hr c s -> hb_env e -> good n ->
  let '(s', o) := step c (with_env s e) (CChtimes n at_ mt) in
  Good hr c s' /\ o = snd (spec_chtimes (abs s) n at_ mt) /\ ns_eq (abs s') (fst (spec_chtimes (abs s) n at_ mt)).
Proof.
  intros s e n at_ mt HG Hhb G. start HG Hhb s e.
  destruct (T02_chtimes hr c HP Hrs Hro (with_env s e) n at_ mt HW0 Hhb0 G) as (s' & E & HW' & _ & Eq).
  rewrite E. change (abs (with_env s e)) with (abs s) in *.
  split; [split; [exact HW'|]|split; [reflexivity|exact Eq]].
  eapply closed_ns_eq; [apply ns_eq_sym; exact Eq|]. apply closed_ch; [reflexivity|assumption].
Qed.

(* Create; Write d; Close, with or without content, by any process identity, on a new name, a directory or an existing
   regular file.  [create_pre]: sizes below 10^40, and the one corner of T02Counter.v (2) is excluded - NOTHING is
   written ([d = []]) to an existing EMPTY regular file: the handle is closed without a flush, no record is written,
   and the entry keeps its modification time, where the reference stamps it ([T02_create_file_existing]). *)
Definition create_pre (a : ns) (n : str) (d : content) : Prop :=
  clen d < 10 ^ 40 /\
  match lookup a n with
  | Some v => is_dir v = true \/ (n_size v =? 0) && no_content d = false
  | None => True
  end.

Theorem T02_create_file : forall s e n d, Good hr c s -> hb_env e -> good n -> create_pre (abs s) n d ->
  let '(s', o) := step c (with_env s e) (CCreateFile n d) in
  exists cid, Good hr c s' /\ o = snd (spec_create_file c (abs s) n (clen d) (ev_now e) cid) /\
    ns_eq (abs s') (fst (spec_create_file c (abs s) n (clen d) (ev_now e) cid)).
Proof.
  intros s e n d HG Hhb G (P1 & P2). start HG Hhb s e.
  destruct (T02_create_file hr c HP Hrs Hro (with_env s e) n d HW0 Hhb0 G P1 P2) as (s' & cid & E & HW' & _ & Eq).
  rewrite E. change (abs (with_env s e)) with (abs s) in *. change (clk (with_env s e)) with (ev_now e) in *.
  exists cid. split; [split; [exact HW'|]|split; [reflexivity|exact Eq]].
  eapply closed_ns_eq; [apply ns_eq_sym; exact Eq|]. apply closed_create_file; assumption.
Qed.

(* the implementation on an EXISTING regular file, the excluded corner included: Create; Write d; Close replaces content,
   size and content position, stamps the modification time and keeps mode, owner / group, access and change time
   ([flushed_node]); nothing happens when the file is empty and d is empty *)
Theorem T02_create_file_existing : forall s e n d v, Good hr c s -> hb_env e -> good n -> n <> [slash] -> clen d < 10 ^ 40 ->
  lookup (abs s) n = Some v -> is_dir v = false ->
  let '(s', o) := step c (with_env s e) (CCreateFile n d) in
  exists cid, Good hr c s' /\ o = OOk /\
    ns_eq (abs s') (if (n_size v =? 0) && no_content d
                    then abs s else ns_upd (abs s) n (flushed_node (clen d) (ev_now e) cid)).
Proof.
  intros s e n d v HG Hhb G Hn Hlen Hv Hnd. start HG Hhb s e.
  assert (Hpar : spec_parent (abs s) n = OOk).
  { unfold spec_parent. destruct (parent_below n G Hn) as (Hb & Gp).
    destruct (Hcl0 n v Hv (path_dir n) Gp Hb) as (pd & Hpd & Hdir). rewrite Hpd, Hdir. reflexivity. }
  destruct (T02_create_existing hr c HP Hrs Hro (with_env s e) n d v HW0 Hhb0 G Hlen Hv Hnd Hpar) as (s' & cid & E & HW' & _ & Eq).
  rewrite E. change (abs (with_env s e)) with (abs s) in *. change (clk (with_env s e)) with (ev_now e) in *.
  exists cid. split; [split; [exact HW'|]|split; [reflexivity|exact Eq]].
  eapply closed_ns_eq; [apply ns_eq_sym; exact Eq|].
  destruct ((n_size v =? 0) && no_content d); [exact Hcl0|].
  apply closed_upd; [|exact Hcl0]. intros v0 Hv0. rewrite Hv in Hv0. inversion Hv0; subst v0. rewrite Hnd. reflexivity.
Qed.

(* the same against the reference: the outcome is the reference's, and the namespace is the reference's - unless nothing
   is written to an empty file, where nothing changes at all (the reference stamps the modification time) *)
Theorem T02_create_file_existing_reference : forall s e n d v, Good hr c s -> hb_env e -> good n -> n <> [slash] -> clen d < 10 ^ 40 ->
  lookup (abs s) n = Some v -> is_dir v = false ->
  let '(s', o) := step c (with_env s e) (CCreateFile n d) in
  exists cid, Good hr c s' /\ o = snd (spec_create_file c (abs s) n (clen d) (ev_now e) cid) /\
    if (n_size v =? 0) && no_content d then ns_eq (abs s') (abs s)
    else ns_eq (abs s') (fst (spec_create_file c (abs s) n (clen d) (ev_now e) cid)).
Proof.
  intros s e n d v HG Hhb G Hn Hlen Hv Hnd.
  assert (Hpar : spec_parent (abs s) n = OOk).
  { unfold spec_parent. destruct (parent_below n G Hn) as (Hb & Gp).
    destruct (g_closed _ _ _ HG n v Hv (path_dir n) Gp Hb) as (pd & Hpd & Hdir). rewrite Hpd, Hdir. reflexivity. }
  pose proof (T02_create_file_existing s e n d v HG Hhb G Hn Hlen Hv Hnd) as K.
  destruct (step c (with_env s e) (CCreateFile n d)) as [s' o]. destruct K as (cid & HG' & Eo & Eq).
  exists cid. split; [exact HG'|]. unfold spec_create_file. rewrite Hpar, Hv, Hnd. cbn [fst snd]. split; [exact Eo|].
  destruct ((n_size v =? 0) && no_content d); exact Eq.
Qed.

(* the excluded corner on its own: Create; Close without a write on an existing empty regular file succeeds (as in the
   reference) and changes nothing; in the reference the entry's modification time becomes the clock's *)
Theorem T02_create_file_existing_empty : forall s e n v, Good hr c s -> hb_env e -> good n -> n <> [slash] ->
  lookup (abs s) n = Some v -> is_dir v = false -> n_size v = 0 ->
  let '(s', o) := step c (with_env s e) (CCreateFile n []) in
  Good hr c s' /\ ns_eq (abs s') (abs s) /\
  forall cid, o = snd (spec_create_file c (abs s) n 0 (ev_now e) cid) /\
    option_map n_mtime (lookup (fst (spec_create_file c (abs s) n 0 (ev_now e) cid)) n) = Some (ev_now e).
Proof.
  intros s e n v HG Hhb G Hn Hv Hnd Hsz.
  assert (Hpar : spec_parent (abs s) n = OOk).
  { unfold spec_parent. destruct (parent_below n G Hn) as (Hb & Gp).
    destruct (g_closed _ _ _ HG n v Hv (path_dir n) Gp Hb) as (pd & Hpd & Hdir). rewrite Hpd, Hdir. reflexivity. }
  pose proof (T02_create_file_existing s e n [] v HG Hhb G Hn ltac:(reflexivity) Hv Hnd) as K.
  destruct (step c (with_env s e) (CCreateFile n [])) as [s' o]. destruct K as (cid0 & HG' & Eo & Eq).
  rewrite Hsz in Eq. cbn [N.eqb no_content andb] in Eq.
  split; [exact HG'|]. split; [exact Eq|]. intro cid.
  unfold spec_create_file. rewrite Hpar, Hv, Hnd. cbn [fst snd]. split; [exact Eo|].
  rewrite lookup_ns_upd, eqb_str_refl, Hv. reflexivity.
Qed.

(* ---------- all call kinds at once, and histories *)
Definition spec_call (a : ns) (k : call) (now : Z) (cid : N * N) : option (ns * outc) :=
  match k with
  | CMkdir n perm => Some (spec_mkdir c a n perm now)
  | CMkdirAll n perm => Some (spec_mkdirall c a n perm now)
  | CRemove n => Some (spec_remove a n)
  | CRemoveAll n => Some (spec_remove_all a n)
  | CRename x y => Some (spec_rename a x y)
  | CChmod n m => Some (spec_chmod a n m)
  | CChown n u g => Some (spec_chown a n u g)
  | CChtimes n x y => Some (spec_chtimes a n x y)
  | CCreateFile n d => Some (spec_create_file c a n (clen d) now cid)
  | _ => None
  end.

Definition call_pre (a : ns) (k : call) : Prop :=
  match k with
  | CMkdir n _ | CMkdirAll n _ | CChmod n _ | CChown n _ _ | CChtimes n _ _ => good n
  | CRemove n | CRemoveAll n => good n /\ n <> [slash]
  | CRename x y => good x /\ good y /\ y <> [slash]
  | CCreateFile n d => good n /\ create_pre a n d
  | _ => False
  end.

Theorem T02_step : forall s e k, Good hr c s -> hb_env e -> call_pre (abs s) k ->
  let '(s', o) := step c (with_env s e) k in
  exists cid sp, spec_call (abs s) k (ev_now e) cid = Some sp /\
    Good hr c s' /\ o = snd sp /\ ns_eq (abs s') (fst sp).
Proof.
  intros s e k HG Hhb Hpre. destruct k; cbn [call_pre] in Hpre; try contradiction; cbn [spec_call].
  - pose proof (T02_mkdir s e n perm HG Hhb Hpre) as K. destruct (step c (with_env s e) (CMkdir n perm)) as [s' o].
    exists (0, 0). eexists. split; [reflexivity|exact K].
  - pose proof (T02_mkdirall s e n perm HG Hhb Hpre) as K. destruct (step c (with_env s e) (CMkdirAll n perm)) as [s' o].
    exists (0, 0). eexists. split; [reflexivity|exact K].
  - destruct Hpre as (G & Hn). pose proof (T02_remove s e n HG Hhb G Hn) as K. destruct (step c (with_env s e) (CRemove n)) as [s' o].
    exists (0, 0). eexists. split; [reflexivity|exact K].
  - destruct Hpre as (G & Hn). pose proof (T02_remove_all s e n HG Hhb G Hn) as K. destruct (step c (with_env s e) (CRemoveAll n)) as [s' o].
    exists (0, 0). eexists. split; [reflexivity|exact K].
  - destruct Hpre as (Ga & Gb & Hn). pose proof (T02_rename s e a b HG Hhb Ga Gb Hn) as K. destruct (step c (with_env s e) (CRename a b)) as [s' o].
    exists (0, 0). eexists. split; [reflexivity|exact K].
  - pose proof (T02_chmod s e n m HG Hhb Hpre) as K. destruct (step c (with_env s e) (CChmod n m)) as [s' o].
    exists (0, 0). eexists. split; [reflexivity|exact K].
  - pose proof (T02_chown s e n u g HG Hhb Hpre) as K. destruct (step c (with_env s e) (CChown n u g)) as [s' o].
    exists (0, 0). eexists. split; [reflexivity|exact K].
  - pose proof (T02_chtimes s e n a m HG Hhb Hpre) as K. destruct (step c (with_env s e) (CChtimes n a m)) as [s' o].
    exists (0, 0). eexists. split; [reflexivity|exact K].
  - destruct Hpre as (G & Hc). pose proof (T02_create_file s e n d HG Hhb G Hc) as K. destruct (step c (with_env s e) (CCreateFile n d)) as [s' o].
    destruct K as (cid & K). exists cid. eexists. split; [reflexivity|exact K].
Qed.

(* a history each of whose calls meets its precondition in the state in which it is issued *)
Fixpoint ok_run (s : sys) (r : list (call * env)) : Prop :=
  match r with
  | [] => True
  | (k, e) :: r' => hb_env e /\ call_pre (abs s) k /\ ok_run (fst (step c (with_env s e) k)) r'
  end.

(* every call of the history returns the reference outcome and has the reference effect *)
Fixpoint conforms (s : sys) (r : list (call * env)) : Prop :=
  match r with
  | [] => True
  | (k, e) :: r' =>
    let '(s', o) := step c (with_env s e) k in
    (exists cid sp, spec_call (abs s) k (ev_now e) cid = Some sp /\ o = snd sp /\ ns_eq (abs s') (fst sp)) /\
    conforms s' r'
  end.

Theorem T02_history : forall r s, Good hr c s -> ok_run s r -> conforms s r /\ Good hr c (final c s r).
Proof.
  induction r as [|[k e] r IH]; intros s HG Hok; cbn [ok_run conforms final] in *; [split; [exact I|exact HG]|].
  destruct Hok as (Hhb & Hpre & Hrest). pose proof (T02_step s e k HG Hhb Hpre) as K.
  destruct (step c (with_env s e) k) as [s' o]. cbn [fst] in *. destruct K as (cid & sp & E & HG' & Eo & Eq).
  destruct (IH s' HG' Hrest) as (A & B). split; [|exact B]. split; [|exact A].
  exists cid, sp. split; [exact E|]. split; assumption.
Qed.
End Spec.

Print Assumptions T02_step.
Print Assumptions T02_history.
Print Assumptions Good_init.
Print Assumptions T02_create_file_existing.
Print Assumptions T02_create_file_existing_reference.
Print Assumptions T02_create_file_existing_empty.
