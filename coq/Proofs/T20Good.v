(* T20 / Good: the twin of EVERY well-formed tree (sizes below 10^40, the bound of the T02 theorems) satisfies the state
   hypothesis [Good] of the T02 theorems (single-caller behaviour = reference filesystem), so [T02_history] applies to every
   history on the twin and, through the simulation, to the opened foreign archive: every call returns the reference outcome,
   started from the namespace of the tree.
   [sizes_ok] (Proofs/T02Db.v) asks of a row WITHOUT the record STFS.UncompressedSize only that its size is below 10^40
   (a foreign row: the size of its tape header); with the record, that it decodes to the stored size.  A metadata update
   or a move of a foreign non-empty member writes a content-less record to which [keep_size] adds the record from the
   known size, so the replay stores that size again (before the fix it stored 0: the former Proofs/T20Counter.v). *)
From Coq Require Import List NArith ZArith Bool Lia.
From Coq Require Import ZifyN ZifyBool.
Import ListNotations.
From STFS Require Import Str Db Tape Index Ops Fs Diff Norm C01Str C01Db C01Inv C01Sim C01Ops C01Fs2 C01Rows
  T02Ns T02Db T02Str T02Closed T02Calls T02Spec
  T13Path T17Tree T17Str T17Forest T17Rebuild T17View T19Rel T19Main T20Twin T20Inv T20Main T20Abs.
Open Scope N_scope.

(* ---------- association lists *)
Lemma lookup_in (a : ns) m v : T02Ns.lookup a m = Some v -> In (m, v) a.
Proof.
  unfold T02Ns.lookup. destruct (find (fun e => eqb_str (fst e) m) a) as [e|] eqn:E; [|discriminate].
  intro H. injection H as <-. apply find_some in E as [Hin He]. apply eqb_str_eq in He. subst m. destruct e. exact Hin.
Qed.

Lemma in_lookup (a : ns) m v : NoDup (map fst a) -> In (m, v) a -> T02Ns.lookup a m = Some v.
Proof.
  induction a as [|[n w] a IH]; intros Hnd Hin; [contradiction|]. rewrite lookup_cons. cbn [fst snd]. inversion Hnd as [|? ? Hnot Hnd']; subst.
  destruct Hin as [E|Hin].
  - injection E as -> ->. rewrite eqb_str_refl. reflexivity.
  - destruct (eqb_str n m) eqn:E; [|apply IH; assumption]. apply eqb_str_eq in E. subst n. exfalso. apply Hnot.
    apply in_map_iff. exists (m, v). split; [reflexivity|exact Hin].
Qed.

(* ---------- every proper prefix of a member's path is a directory member *)
Lemma snoc_two_nonempty {A} (ps t0 : list A) x : ps <> [] -> t0 <> [] -> ps ++ t0 <> [x].
Proof. intros H1 H2 E. destruct ps as [|a ps]; [contradiction|]. destruct ps; destruct t0; try contradiction; discriminate. Qed.

Lemma flatten_prefix n : forall pre i ps t0, In i (flatten pre n) -> i_path i = pre ++ ps ++ t0 -> ps <> [] -> t0 <> [] ->
  exists j, In j (flatten pre n) /\ i_path j = pre ++ ps /\ i_dir j = true.
Proof.
  induction n as [nm mt d|nm mt ks IH] using node_ind'; intros pre i ps t0 H E Hps Ht; cbn [flatten] in H.
  - destruct H as [<-|[]]. cbn [item_of i_path node_name] in E. apply app_inv_head in E. symmetry in E.
    exfalso. exact (snoc_two_nonempty ps t0 nm Hps Ht E).
  - destruct H as [<-|H].
    + cbn [item_of i_path node_name] in E. apply app_inv_head in E. symmetry in E. exfalso. exact (snoc_two_nonempty ps t0 nm Hps Ht E).
    + apply in_flat_map in H as (k & Hk & Hi). destruct (flatten_paths' k _ i Hi) as (r & Er).
      rewrite Er, <- app_assoc in E. apply app_inv_head in E. cbn [app] in E.
      destruct ps as [|p0 ps']; [contradiction|]. cbn [app] in E. injection E as E0 E. subst p0.
      destruct ps' as [|p1 ps''].
      * exists (item_of pre (Dir nm mt ks)). split; [cbn [flatten]; left; reflexivity|]. split; reflexivity.
      * rewrite Forall_forall in IH. destruct (IH k Hk (pre ++ [nm]) i (p1 :: ps'') t0 Hi) as (j & Hj & Ej & Dj).
        -- rewrite Er, <- E, <- app_assoc. reflexivity.
        -- discriminate.
        -- exact Ht.
        -- exists j. split; [cbn [flatten]; right; apply in_flat_map; exists k; split; assumption|].
           split; [rewrite Ej, <- app_assoc; reflexivity|exact Dj].
Qed.

Lemma items_prefix t i ps t0 : In i (items t) -> i_path i = ps ++ t0 -> t0 <> [] ->
  exists j, In j (items t) /\ i_path j = ps /\ i_dir j = true.
Proof.
  intros Hi E Ht. destruct ps as [|p0 ps'].
  - exists (top_item t). split; [left; reflexivity|split; reflexivity].
  - destruct Hi as [<-|Hi]; [cbn in E; discriminate|]. unfold flatten_forest in Hi. apply in_flat_map in Hi as (k & Hk & Hi).
    destruct (flatten_prefix k [] i (p0 :: ps') t0 Hi E ltac:(discriminate) Ht) as (j & Hj & Ej & Dj).
    exists j. split; [right; unfold flatten_forest; apply in_flat_map; exists k; split; assumption|]. split; assumption.
Qed.

(* ---------- the namespace of a well-formed tree is a tree *)
Lemma namespace_nodup c t : wf t -> NoDup (map fst (namespace_of c t)).
Proof.
  intro Hwf. unfold namespace_of. rewrite map_map. cbn [fst].
  assert (E : map (fun x : N * item => pth (i_path (snd x))) (istarts 0 (items t)) = map pth (map i_path (items t))).
  { rewrite <- (istarts_snd (items t) 0) at 2. rewrite !map_map. reflexivity. }
  rewrite E. apply NoDup_map_inj_in; [|apply items_nodup; exact Hwf].
  intros a b Ha Hb Eab. apply in_map_iff in Ha as (i & <- & Hi). apply in_map_iff in Hb as (j & <- & Hj).
  apply pth_inj; [exact (items_okc t i Hwf Hi)|exact (items_okc t j Hwf Hj)|exact Eab].
Qed.

Lemma namespace_closed c t : wf t -> closed (namespace_of c t).
Proof.
  intros Hwf m v Hl p Gp Hb. apply lookup_in in Hl. unfold namespace_of in Hl. apply in_map_iff in Hl as (x & Ex & Hx).
  injection Ex as Em Ev.
  assert (Hxi : In (snd x) (items t)) by (rewrite <- (istarts_snd (items t) 0); apply in_map; exact Hx).
  pose proof (items_okc t _ Hwf Hxi) as Hok.
  assert (Gm : good m) by (rewrite <- Em; apply good_pth; exact Hok).
  destruct (below_inv p m Gp Gm Hb) as (ps & t0 & Hps & Ht0 & Hne & -> & Em').
  rewrite <- Em in Em'. apply (P_inj _ _ Hok) in Em'; [|apply Forall_app; split; assumption].
  destruct (items_prefix t (snd x) ps t0 Hxi Em' Hne) as (j & Hj & Ej & Dj).
  assert (Hja : exists a, In (a, j) (istarts 0 (items t))).
  { rewrite <- (istarts_snd (items t) 0) in Hj. apply in_map_iff in Hj as ([a j'] & E & H). cbn in E. subst j'. exists a. exact H. }
  destruct Hja as (a & Ha). exists (ns_node (c_rs c) (a, j)). split.
  - apply in_lookup; [apply namespace_nodup; exact Hwf|]. unfold namespace_of. apply in_map_iff. exists (a, j). split; [|exact Ha].
    cbn [snd]. rewrite Ej. reflexivity.
  - unfold is_dir, ns_node. cbn [n_tf snd]. rewrite Dj. reflexivity.
Qed.

(* ---------- [Good] *)
(* the sizes of the regular members are below 10^40 (the size record is rendered with 40 digits at most) *)
Definition sizes_bounded (t : tree) : Prop := Forall (fun i => i_dir i = false -> clen (i_data i) < 10 ^ 40) (items t).

Theorem T20_twin_Good : forall c st t, plain c -> 0 < c_rs c -> wf_style st -> style_root st = [] -> wf t -> sizes_bounded t ->
  Good true c (twin c st t).
Proof.
  intros c st t HP Hrs Hs Hsr Hwf He. split; [split|].
  - apply T20_twin_Inv; assumption.
  - cbn [twin db rows]. unfold twin_rows, archive_rows, sizes_ok. apply Forall_forall. intros r Hr.
    apply in_map_iff in Hr as (r0 & <- & Hr0). apply in_map_iff in Hr0 as (x & <- & Hx).
    assert (Hxi : In (snd x) (items t)) by (rewrite <- (istarts_snd (items t) 0); apply in_map; exact Hx).
    unfold sizes_bounded in He. rewrite Forall_forall in He. specialize (He _ Hxi).
    unfold size_ok. change (r_pax (abs_row (srow st (c_rs c) x))) with (@nil (str * str)). cbn [pax_get].
    change (r_size (abs_row (srow st (c_rs c) x))) with (if i_dir (snd x) then 0 else clen (i_data (snd x))).
    destruct (i_dir (snd x)); [reflexivity|apply He; reflexivity].
  - rewrite (T20_twin_abs c st t Hs Hsr). apply namespace_closed. exact Hwf.
Qed.

(* ---------- the hypotheses of the simulation follow from the preconditions of the reference *)
Lemma call_pre_fs a k : call_pre a k -> fs_call k = true /\ call_ok k = true.
Proof.
  unfold call_ok. destruct k; cbn [call_pre fs_call rename_ok root_kept]; try contradiction.
  - intro G. split; [apply good_abs; exact G|reflexivity].
  - intro G. split; [apply good_abs; exact G|reflexivity].
  - intros (G & Hn). split; [apply good_abs; exact G|]. rewrite (path_clean_good n G). cbn [andb]. apply negb_true_iff. apply eqb_str_neq. exact Hn.
  - intros (G & Hn). split; [apply good_abs; exact G|]. rewrite (path_clean_good n G). cbn [andb]. apply negb_true_iff. apply eqb_str_neq. exact Hn.
  - intros (Ga & Gb & Hn). split; [rewrite (good_abs a0 Ga), (good_abs b Gb); reflexivity|]. rewrite (path_clean_good b Gb).
    rewrite andb_true_r. apply negb_true_iff. apply eqb_str_neq. exact Hn.
  - intro G. split; [apply good_abs; exact G|reflexivity].
  - intro G. split; [apply good_abs; exact G|reflexivity].
  - intro G. split; [apply good_abs; exact G|reflexivity].
  - intros (G & _). split; [apply good_abs; exact G|reflexivity].
Qed.

Lemma ok_run_hyps c : forall h s, ok_run c s h ->
  forallb (fun ke => fs_call (fst ke)) h = true /\ forallb (fun ke => call_ok (fst ke)) h = true /\ forallb hb_ok h = true.
Proof.
  induction h as [|[k e] h IH]; intros s H; cbn [ok_run forallb fst] in *; [repeat split|].
  destruct H as (Hb & Hp & Hr). destruct (call_pre_fs _ _ Hp) as (A & B). destruct (IH _ Hr) as (I1 & I2 & I3).
  rewrite A, B, I1, I2, I3. unfold hb_ok at 1. cbn [snd]. unfold hb_env in Hb. rewrite Hb. repeat split.
Qed.

(* ---------- the opened foreign archive against the reference filesystem started from the tree *)
Theorem T20_foreign_reference : forall c st t h, plain c -> 0 < c_rs c -> c_readonly c = false ->
  wf_style st -> style_root st = [] -> wf t -> sizes_bounded t ->
  let sr := opened c (archive_of st t) in
  let sa := twin c st t in
  ok_run c sa h ->                        (* every call meets the reference's precondition in the state it is issued in *)
  (* the reference starts from the tree *)
  abs sa = namespace_of c t /\
  (* on the twin every call returns the reference outcome and has the reference effect on the namespace ... *)
  conforms c sa h /\ Good true c (final c sa h) /\
  (* ... the archive's instance returns the same outcomes and shows the same tree, its namespace is the twin's with the
     names in the stored spelling *)
  map ob_out (run c sr h) = map ob_out (run c sa h) /\
  view c (final c sr h) = view c (final c sa h) /\
  abs (final c sr h) = map (fun e => (norm_name (fst e), snd e)) (abs (final c sa h)).
Proof.
  intros c st t h HP Hrs Hro Hs Hsr Hwf He sr sa Hok. split; [exact (T20_twin_abs c st t Hs Hsr)|].
  pose proof (T20_twin_Good c st t HP Hrs Hs Hsr Hwf He) as HG. fold sa in HG.
  destruct (T02_history true c HP Hrs Hro h sa HG Hok) as (A & B).
  destruct (ok_run_hyps c h sa Hok) as (H1 & H2 & H3).
  destruct (T20_foreign_continuation c st t h HP Hrs Hro Hs Hsr Hwf H1 H2 H3) as (C & _ & _ & _ & D & _ & HS & _).
  fold sr sa in C, D, HS. split; [exact A|]. split; [exact B|]. split; [exact C|]. split; [exact D|].
  apply T20_abs_rel. exact (proj1 (proj2 HS)).
Qed.

Print Assumptions T20_twin_Good.
Print Assumptions T20_foreign_reference.
