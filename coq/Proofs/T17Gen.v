(* T17 / Gen: the query and walk lemmas of T17View for ANY index whose rows are the members of a tree in an order
   that keeps the members of each directory in tree order (not only the order of the archive): this is the shape
   the index has after further filesystem calls append rows to a rebuilt foreign index. *)
From Coq Require Import List NArith ZArith Bool Lia.
From Coq Require Import ZifyN ZifyBool.
Import ListNotations.
From STFS Require Import Str Db Tape Index Ops Fs TapeLemmas StrLemmas C01Str C01Db C01Sim C01Tape T04Tape
  T13Path T13ListStr T13List T13View T17Tree T17Str T17Forest T17Db T17Rebuild T17View.
Open Scope N_scope.

Record GenIdx (c : cfg) (st : style) (t : tree) (L : list (N * item)) (p : pstate) : Prop := {
  g_okc : forall x, In x L -> Forall okc (i_path (snd x));
  g_nd : NoDup (map i_path (map snd L));
  g_top : exists a, In (a, top_item t) L;
  g_kids : forall q, map snd (filter (fun x => childb q (i_path (snd x))) L)
                     = filter (fun i => childb q (i_path i)) (items t);
  g_rows : rows p = map (srow st (c_rs c)) L;
  g_root : root p = style_root st }.

(* the data hypothesis: the row's position holds the member's content *)
Definition GenData (c : cfg) (st : style) (L : list (N * item)) (tape_ : tape) : Prop :=
  forall x, In x L -> i_dir (snd x) = false ->
    fetch_at c tape_ (r_rec (srow st (c_rs c) x)) (r_blk (srow st (c_rs c) x)) = Some (i_data (snd x)).

Lemma GenIdx_same c st t L p p' : GenIdx c st t L p -> rows p' = rows p -> root p' = root p -> GenIdx c st t L p'.
Proof. intros [A B C D E F] Hr Ht. split; try assumption; congruence. Qed.

Section Gen.
  Variables (c : cfg) (st : style) (t : tree) (L : list (N * item)).
  Hypothesis Hst : wf_style st.
  Hypothesis Hwf : wf t.

  Section WithP.
  Variable p : pstate.
  Hypothesis G : GenIdx c st t L p.

  Lemma gen_shape : forall x, In x L ->
    live (srow st (c_rs c) x) = true /\ r_link (srow st (c_rs c) x) = [] /\
    r_name (srow st (c_rs c) x) = join_slash (spc st x) /\ Forall okc (spc st x).
  Proof. apply srow_shape; [exact Hst|exact (g_okc _ _ _ _ _ G)]. Qed.

  Lemma gen_nodup : NoDup (map (spc st) L).
  Proof. apply spc_nodup. exact (g_nd _ _ _ _ _ G). Qed.

  Lemma gen_foreign : style_root st = [] -> Foreign p.
  Proof.
    intro E. split; [rewrite (g_root _ _ _ _ _ G); exact E|].
    apply (exists_exact_shape (srow st (c_rs c)) (spc st) L gen_shape); [exact (g_rows _ _ _ _ _ G)|].
    destruct (g_top _ _ _ _ _ G) as (a & Ha). exists (a, top_item t). split; [exact Ha|]. unfold spc. cbn. destruct st; try reflexivity.
    cbn in E. exfalso. destruct Hst as (K & _). exact (K E).
  Qed.

  Lemma gen_res_shown q : Forall okc q -> Res p (shown_path st q) (stored_comps st q).
  Proof. intro Hq. apply res_shown_gen; [exact Hst|exact (g_root _ _ _ _ _ G)|exact gen_foreign|exact Hq]. Qed.

  Lemma gen_res_stored q : Forall okc q -> Res p (stored_name st q) (stored_comps st q).
  Proof. intro Hq. apply res_stored_gen; [exact Hst|exact (g_root _ _ _ _ _ G)|exact gen_foreign|exact Hq]. Qed.

  Lemma gen_get_header name x : In x L -> Res p name (spc st x) ->
    exists p', get_header p name = (p', Ok (srow st (c_rs c) x)) /\ rows p' = rows p.
  Proof.
    intros Hx (p' & Hs & Hr). exists p'. unfold get_header. rewrite Hs.
    rewrite (find_shape (srow st (c_rs c)) (spc st) L gen_shape gen_nodup p' x); [split; [reflexivity|exact Hr]| |exact Hx].
    rewrite Hr. exact (g_rows _ _ _ _ _ G).
  Qed.

  Lemma gen_get_header_none name sc : Forall okc sc -> (forall x, In x L -> spc st x <> sc) -> Res p name sc ->
    exists p', get_header p name = (p', NoRows) /\ rows p' = rows p.
  Proof.
    intros Hsc Hno (p' & Hs & Hr). exists p'. unfold get_header. rewrite Hs.
    rewrite (find_shape_none (srow st (c_rs c)) (spc st) L gen_shape p' sc); [split; [reflexivity|exact Hr]| |exact Hsc|exact Hno].
    rewrite Hr. exact (g_rows _ _ _ _ _ G).
  Qed.

  Lemma gen_stat name x : In x L -> Res p name (spc st x) ->
    exists p', inv_stat p name false = (p', Ok (shdr st (snd x))) /\ rows p' = rows p.
  Proof.
    intros Hx R. destruct (gen_get_header name x Hx R) as (p' & Hg & Hr). exists p'.
    unfold inv_stat. rewrite Hg. cbv beta iota zeta.
    change (r_link (srow st (c_rs c) x)) with (@nil N). cbn [eqb_str negb]. rewrite hdr_of_srow. split; [reflexivity|exact Hr].
  Qed.

  Lemma gen_childb_stored q q' : childb (stored_comps st q) (stored_comps st q') = childb q q'.
  Proof. destruct st; cbn [stored_comps childb]; try reflexivity. rewrite eqb_str_refl. reflexivity. Qed.

  Lemma gen_list name q ks : Forall okc q -> Res p name (stored_comps st q) -> lookup q (t_kids t) = Some ks ->
    exists p', inv_list p name None = (p', Ok (map (fun k => shdr st (item_of q k)) ks)) /\ rows p' = rows p.
  Proof.
    intros Hq (p' & Hs & Hr) Hl. exists p'. split; [|exact Hr]. unfold inv_list.
    rewrite (gdc_shape (srow st (c_rs c)) (spc st) L gen_shape p name p' (stored_comps st q) Hs).
    - f_equal. f_equal. rewrite map_map.
      rewrite (map_ext _ (fun x => shdr st (snd x))) by (intro; apply hdr_of_srow).
      rewrite <- (map_map snd (shdr st)). unfold spc.
      rewrite (filter_ext _ (fun x => childb q (i_path (snd x)))) by (intro x; apply gen_childb_stored).
      rewrite (g_kids _ _ _ _ _ G q), (children_items t q ks Hwf Hl). rewrite map_map. reflexivity.
    - rewrite Hr. exact (g_rows _ _ _ _ _ G).
    - apply stored_okc; assumption.
    - intro E. destruct (g_top _ _ _ _ _ G) as (a & Ha). exists (a, top_item t). split; [exact Ha|].
      unfold spc. cbn [snd top_item i_path]. destruct st; cbn in *; try reflexivity. discriminate E.
  Qed.

  Lemma gen_child_in q ks k : lookup q (t_kids t) = Some ks -> In k ks -> exists a, In (a, item_of q k) L.
  Proof.
    intros Hl Hk. pose proof (g_kids _ _ _ _ _ G q) as C. rewrite (children_items t q ks Hwf Hl) in C.
    assert (K : In (item_of q k) (map (item_of q) ks)) by (apply in_map; exact Hk).
    rewrite <- C in K. apply in_map_iff in K as ([a j] & E & Hx). cbn in E. subst j.
    apply filter_In in Hx as [Hx _]. exists a. exact Hx.
  Qed.
  End WithP.

  Variable s : sys.
  Hypothesis G : GenIdx c st t L (db s).
  Hypothesis D : GenData c st L (tp s).

  Lemma gen_read x : In x L -> i_dir (snd x) = false ->
    snd (read_path c s (stored_name st (i_path (snd x)))) = Ok (i_data (snd x)).
  Proof.
    intros Hx Hd. unfold read_path.
    unfold stored_name. rewrite join_trim_slash by (apply stored_okc; [exact Hst|apply (g_okc _ _ _ _ _ G); exact Hx]).
    destruct (gen_get_header (db s) G (stored_name st (i_path (snd x))) x Hx (gen_res_stored (db s) G _ (g_okc _ _ _ _ _ G x Hx))) as (p' & Hg & _).
    unfold stored_name in Hg. rewrite Hg. cbv beta iota zeta. rewrite (D x Hx Hd). reflexivity.
  Qed.

  Lemma gen_entry x : In x L ->
    entry_of c s (shown_path st (i_path (snd x))) (shdr st (snd x)) = expected_entry st (snd x).
  Proof.
    intro Hx. unfold entry_of, expected_entry. destruct (i_dir (snd x)) eqn:Hd.
    - unfold shdr. rewrite Hd. reflexivity.
    - pose proof (gen_read x Hx Hd) as R. unfold shdr at 9. cbn [h_name]. unfold shdr. rewrite Hd. cbn [h_tf h_size h_mode h_uid h_gid h_mtime h_link].
      change (tf_regular TypeReg) with true. cbv iota.
      destruct (read_path c s (stored_name st (i_path (snd x)))) as [s' r]. cbn [snd] in R. rewrite R. reflexivity.
  Qed.

  Lemma gen_walk : forall f q ks, lookup q (t_kids t) = Some ks -> (depth_forest ks <= f)%nat ->
    walk f c s (shown_path st q) = map (expected_entry st) (flatten_forest q ks).
  Proof.
    induction f as [|f IH]; intros q ks Hl Hd.
    - apply depth_forest_zero in Hd. subst ks. reflexivity.
    - destruct (lookup_wf q _ _ (proj2 Hwf) Hl) as [[Hall Hndk] Hq].
      cbn [walk].
      destruct (gen_list (db s) G (shown_path st q) q ks Hq (gen_res_shown (db s) G q Hq) Hl) as (p' & E & _). rewrite E.
      rewrite flat_map_map. unfold flatten_forest. rewrite map_flat_map.
      apply flat_map_ext_in'. intros k Hk. rewrite Forall_forall in Hall. pose proof (Hall k Hk) as Wk.
      rewrite shown_child; [|exact Hst|exact Hq|exact (wf_node_okc k Wk)].
      destruct (gen_child_in (db s) G q ks k Hl Hk) as (a & Ha).
      pose proof (gen_entry (a, item_of q k) Ha) as Ee. cbn [snd item_of i_path] in Ee. rewrite Ee.
      destruct k as [nm mt d|nm mt kk].
      + reflexivity.
      + cbn [shdr h_tf item_of i_dir node_isdir]. change (TypeDir =? TypeDir) with true. cbv iota.
        cbn [flatten map node_name]. f_equal.
        rewrite (IH (q ++ [nm]) kk).
        * unfold flatten_forest. rewrite map_flat_map. reflexivity.
        * apply (lookup_snoc q _ ks nm mt kk (proj2 Hwf) Hl Hk).
        * pose proof (depth_forest_in ks _ Hk) as Dp. rewrite depth_dir in Dp. lia.
  Qed.

  Theorem gen_view : (depth_forest (t_kids t) <= 16)%nat ->
    view_at c s (view_base st) = expected_entries st t.
  Proof.
    intro Hd. unfold view_at, stat_s.
    assert (Eb : view_base st = shown_path st []) by (destruct st; reflexivity).
    destruct (g_top _ _ _ _ _ G) as (a & Ha).
    destruct (gen_stat (db s) G (view_base st) (a, top_item t) Ha) as (p' & Hs & _).
    { rewrite Eb. apply gen_res_shown; [exact G|constructor]. }
    rewrite Hs. cbn [snd]. unfold expected_entries, items. cbn [map].
    rewrite Eb. pose proof (gen_entry (a, top_item t) Ha) as Ee.
    change (entry_of c s (shown_path st []) (shdr st (top_item t)) = expected_entry st (top_item t)) in Ee.
    rewrite Ee. f_equal.
    change (h_tf (shdr st (top_item t)) =? TypeDir) with true. cbv iota.
    apply gen_walk; [reflexivity|exact Hd].
  Qed.
End Gen.

(* the opened archive is such an index *)
Lemma opened_GenIdx c st t p : wf_style st -> wf t -> Opened c st t p -> GenIdx c st t (istarts 0 (items t)) p.
Proof.
  intros Hs Hw [Hrows Hroot]. split.
  - intros x Hx. apply (L_okc t Hw x Hx).
  - rewrite istarts_snd. apply items_nodup. exact Hw.
  - apply L_in. left. reflexivity.
  - intros q. apply (filter_istarts (fun i => childb q (i_path i))).
  - exact Hrows.
  - exact Hroot.
Qed.

Lemma opened_GenData c st t : 0 < c_rs c -> wf t -> GenData c st (istarts 0 (items t)) (archive_of st t).
Proof.
  intros Hrs Hw x Hx Hd. unfold fetch_at.
  change (r_rec (srow st (c_rs c) x)) with (fst (pos_of (c_rs c) (fst x))).
  change (r_blk (srow st (c_rs c) x)) with (snd (pos_of (c_rs c) (fst x))).
  rewrite pos_of_roundtrip by exact Hrs. unfold archive_of. fold (tape_items st (items t)).
  rewrite (member_at_items st (items t) [TT] x); [|intros i Hi; apply (items_hb t i Hw Hi)|exact Hx].
  cbn [member_of_item m_data]. rewrite Hd. reflexivity.
Qed.
