(* T15 / Reach: the hypotheses [opened] and [has_live] of the view theorems hold in every state a WRITABLE instance reaches by a
   history of fs-level calls that keeps the root (the C01 invariant with the root row tracked), so the read-only theorems apply to
   a read-only instance opened over any tape the filesystem itself wrote (plain configuration, as in C01). *)
From Coq Require Import List NArith ZArith Bool Lia.
From Coq Require Import ZifyN ZifyBool.
Import ListNotations.
From STFS Require Import Str Db Tape Index Ops Fs Diff Norm TapeLemmas
  C01Str C01Db C01Inv C01Sim C01Tape C01Hdr C01Ops C01Ops2 C01Reads C01Fs C01Fs2 C01Rows.
From STFS Require Import T15Def T15Db T15Step T15Hist T15Ceq T15View T15Reads.
Open Scope N_scope.

Lemma LI_opened lv : LI true lv -> opened lv.
Proof. intro H. unfold opened. rewrite (p_open_lv lv H). reflexivity. Qed.

Lemma LI_has_live lv : LI true lv -> has_live lv.
Proof.
  intros [_ _ [_ _ Hh]]. destruct (Hh eq_refl) as (r0 & tl & E & _ & Hd). unfold has_live. rewrite E. cbn [filter].
  unfold live at 1. rewrite Hd. cbn. discriminate.
Qed.

Section Kept.
Variable c : cfg.
Hypothesis HP : plain c.
Hypothesis Hrs : 0 < c_rs c.
Hypothesis Hro : c_readonly c = false.

Lemma final_ok_kept r : forall s, OKs true c s ->
  forallb (fun ke => fs_call (fst ke)) r = true ->
  forallb (fun ke => call_ok (fst ke)) r = true ->
  forallb hb_ok r = true ->
  OKs true c (final c s r).
Proof.
  induction r as [|[k e] r IH]; intros s HO H1 H2 H3; cbn [final]; [exact HO|].
  cbn [forallb fst] in H1, H2, H3.
  apply andb_true_iff in H1 as [K1 H1]. apply andb_true_iff in H2 as [K2 H2]. apply andb_true_iff in H3 as [K3 H3].
  unfold call_ok in K2. apply andb_true_iff in K2 as [K2a K2b].
  assert (HO' : OKs true c (with_env s e)).
  { split; [eapply Inv_ext; [| |exact (proj1 HO)]; reflexivity|apply (hbok_env c Hrs); exact K3]. }
  destruct (step_ok true c HP Hrs Hro (with_env s e) k HO' K1 K2a (fun _ => K2b) (fun _ => eq_refl)) as (s' & o & E & A).
  rewrite E. cbn [fst]. apply IH; assumption.
Qed.
End Kept.

(* a state written by the filesystem: Initialize "/" on the empty system, then any fs-level calls that keep the root *)
Definition written (c : cfg) (s : sys) : Prop :=
  exists e r, forallb hb_ok ((CInitialize [slash], e) :: r) = true /\
              forallb (fun ke => call_ok (fst ke)) r = true /\
              forallb (fun ke => fs_call (fst ke)) r = true /\
              s = final c init_sys ((CInitialize [slash], e) :: r).

Theorem written_LI c s : 0 < c_rs c -> c_readonly c = false -> c_csuf c = [] -> c_esuf c = [] ->
  written c s -> LI true (db s).
Proof.
  intros Hrs Hro Hc He (e & r & Hb & Hok & Hfs & ->). cbn [final].
  cbn [forallb] in Hb. apply andb_true_iff in Hb as [Hb0 Hb].
  assert (HP : plain c) by (split; assumption).
  pose proof (init_ok c Hrs Hro e Hb0) as H0.
  pose proof (final_ok_kept c HP Hrs Hro r _ H0 Hfs Hok Hb) as [HI _].
  exact (iv_li true c _ HI).
Qed.

Theorem written_opened c s : 0 < c_rs c -> c_readonly c = false -> c_csuf c = [] -> c_esuf c = [] ->
  written c s -> opened (db s) /\ has_live (db s) /\ root (db s) = [slash].
Proof.
  intros Hrs Hro Hc He W. pose proof (written_LI c s Hrs Hro Hc He W) as HL.
  split; [apply LI_opened; exact HL|]. split; [apply LI_has_live; exact HL|apply HL].
Qed.

(* with the root "/" cached and live, a read-only instance returns the index state it was given, whatever the call *)
Lemma ro_db_fixed c' : ro c' -> forall h s, ro_hist h -> LI true (db s) -> db (final c' s h) = db s.
Proof.
  intros R h. induction h as [|[k e] h IH]; intros s RH HL; cbn [final]; [reflexivity|].
  inversion RH as [|x l C RH']; subst. cbn [fst] in C.
  assert (DB : db (fst (step c' (with_env s e) k)) = db s).
  { destruct (is_init k) eqn:I; [|destruct (T15Def.is_reopen k) eqn:P].
    - destruct k; try discriminate I. cbn [step].
      rewrite initialize_has_root by (apply has_live_has_root; apply LI_has_live; exact HL).
      cbn [fst set_db db with_env]. apply opened_get_root_path. apply LI_opened. exact HL.
    - destruct k; try discriminate P. cbn [step fst set_db db with_env]. apply p_open_lv. exact HL.
    - pose proof (T15_step_frame c' (with_env s e) k R C I P) as Fm.
      rewrite (frame_eq_root _ _ Fm); [reflexivity|]. cbn [db with_env]. rewrite (li_root true _ HL). discriminate. }
  rewrite <- DB. apply IH; [exact RH'|]. rewrite DB. exact HL.
Qed.



(* THE END-TO-END STATEMENT: a read-only instance (the same configuration with the switch set) over a state written by the
   filesystem, any history of calls (CInitialize and CReopen anywhere, every mutator, OpenFile with any flags + writes):
   tape and index state never change at all (the root is cached), mutators answer OPerm, the visible tree is the writable instance's *)
Theorem T15_ro_over_written c s h : 0 < c_rs c -> c_readonly c = false -> c_csuf c = [] -> c_esuf c = [] ->
  written c s -> ro_hist h ->
  let c' := set_ro c true in
  tp (final c' s h) = tp s /\ db (final c' s h) = db s /\
  Forall2 (ob_ok s) h (run c' s h) /\
  view c' (final c' s h) = view c s /\
  Forall (fun ob => ob_view ob = sort_entries (view c s)) (run c' s h).
Proof.
  intros Hrs Hro Hc He W RH c'. destruct (written_opened c s Hrs Hro Hc He W) as (O & L & Rt).
  assert (R : ro c') by reflexivity.
  destruct (T15_history c' R h s RH (or_intror L)) as (A & B & D).
  destruct (T15_view_history c' s h R RH O (or_intror L)) as (V & F).
  assert (E : view c' s = view c s) by apply T15_view_set_ro. rewrite E in V, F.
  split; [exact A|]. split; [|split; [exact D|split; [exact V|exact F]]].
  apply ro_db_fixed; [exact R|exact RH|]. apply (written_LI c s); assumption.
Qed.

Print Assumptions T15_ro_over_written.
