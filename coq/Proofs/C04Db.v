(* C04, part 1: which rows the index operations produce.  Everything is stated for an arbitrary
   predicate [P rec blk lkrec lkblk] on the four position columns of a row, so that the same lemmas
   serve the "positions designate records" invariant and the ordering invariant. *)
From Coq Require Import List NArith ZArith Bool Lia.
From Coq Require Import ZifyN ZifyBool.
Import ListNotations.
From STFS Require Import Str Db Tape Index.
Open Scope N_scope.

(* ---- operations that never touch the rows *)

Lemma sanitize_rows p n : rows (fst (sanitize p n)) = rows p.
Proof.
  unfold sanitize.
  destruct (is_root_name n || eqb_str n (root p)); [reflexivity|].
  destruct (eqb_str (root p) [] && is_abs n && negb (root_empty p)).
  - destruct (exists_exact p []); cbv beta iota zeta; [|reflexivity].
    repeat match goal with |- context [if ?b then _ else _] => destruct b end; reflexivity.
  - cbv beta iota zeta.
    repeat match goal with |- context [if ?b then _ else _] => destruct b end; reflexivity.
Qed.

Lemma get_root_path_rows p : rows (fst (get_root_path p)) = rows p.
Proof.
  unfold get_root_path. destruct (root p); [|reflexivity].
  destruct (min_depth_row (filter live (rows p)) None); reflexivity.
Qed.

Lemma p_open_rows l : rows (p_open l) = l.
Proof. unfold p_open. rewrite get_root_path_rows. reflexivity. Qed.

Lemma min_link_in l : forall best r, min_link l best = Some r -> In r l \/ best = Some r.
Proof.
  induction l as [|x t IH]; intros best r H; cbn in H; [right; exact H|].
  destruct best as [b|].
  - destruct (ltb_str (r_link x) (r_link b)).
    + apply IH in H. destruct H as [H|H]; [left; right; exact H|left; left; congruence].
    + apply IH in H. destruct H as [H|H]; [left; right; exact H|right; exact H].
  - apply IH in H. destruct H as [H|H]; [left; right; exact H|left; left; congruence].
Qed.

Lemma find_by_name_in p n r : find_by_name p n = Some r -> In r (rows p).
Proof.
  unfold find_by_name. intro H. apply min_link_in in H. destruct H as [H|H]; [|discriminate].
  apply filter_In in H. tauto.
Qed.

Lemma get_header_rows p n : rows (fst (get_header p n)) = rows p.
Proof.
  unfold get_header. pose proof (sanitize_rows p n) as H. destruct (sanitize p n) as [p1 x]; cbn in H.
  destruct (find_by_name p1 x); exact H.
Qed.

Lemma get_header_in p n p' r : get_header p n = (p', Ok r) -> In r (rows p).
Proof.
  unfold get_header. pose proof (sanitize_rows p n) as H. destruct (sanitize p n) as [p1 x]; cbn in H.
  destruct (find_by_name p1 x) eqn:E; intro K; inversion K; subst.
  rewrite <- H. eapply find_by_name_in; eassumption.
Qed.

Lemma get_header_by_linkname_rows p n : rows (fst (get_header_by_linkname p n)) = rows p.
Proof.
  unfold get_header_by_linkname. pose proof (sanitize_rows p n) as H. destruct (sanitize p n) as [p1 x]; cbn in H.
  destruct (filter _ (rows p1)); exact H.
Qed.

Lemma get_header_by_linkname_in p n p' r : get_header_by_linkname p n = (p', Ok r) -> In r (rows p).
Proof.
  unfold get_header_by_linkname. pose proof (sanitize_rows p n) as H. destruct (sanitize p n) as [p1 x]; cbn in H.
  destruct (filter _ (rows p1)) as [|y l] eqn:E; intro K; inversion K; subst.
  rewrite <- H. assert (I : In r (r :: l)) by (left; reflexivity). rewrite <- E in I. apply filter_In in I. tauto.
Qed.

Lemma get_children_rows p n : rows (fst (get_children p n)) = rows p.
Proof.
  unfold get_children. pose proof (sanitize_rows p n) as H. destruct (sanitize p n) as [p1 x]; cbn in H. exact H.
Qed.

Lemma get_children_in p n r : In r (snd (get_children p n)) -> In r (rows p).
Proof.
  unfold get_children. pose proof (sanitize_rows p n) as H. destruct (sanitize p n) as [p1 x]; cbn in H.
  cbn. intro I. apply filter_In in I. rewrite <- H. tauto.
Qed.

Lemma direct_fold_rows (links_raw : list row) : forall (p : pstate) (out : list row),
  rows (fst (fold_left (fun acc lr =>
        let '(p, out) := acc in
        let '(p, tr) := get_header p [] in
        match tr with
        | Ok t => (p, out ++ [set_link (set_name t (r_link lr)) []])
        | _ => (p, out ++ [set_link (set_name lr (r_link lr)) []])
        end) links_raw (p, out))) = rows p.
Proof.
  induction links_raw as [|lr l IH]; intros p out; cbn [fold_left]; [reflexivity|].
  pose proof (get_header_rows p []) as H. destruct (get_header p []) as [p1 tr]; cbn in H.
  destruct tr; rewrite IH; exact H.
Qed.

Lemma get_direct_children_rows p n lim : rows (fst (get_direct_children p n lim)) = rows p.
Proof.
  unfold get_direct_children. pose proof (sanitize_rows p n) as H. destruct (sanitize p n) as [p1 x]; cbn in H.
  destruct (if is_root_name x then min_slashes (filter live (rows p1)) else Some 0) as [rd|]; [|exact H].
  match goal with |- context [fold_left ?f ?l (p1, [])] =>
    pose proof (direct_fold_rows l p1 []) as K; destruct (fold_left f l (p1, [])) as [p2 links] end.
  cbn in K.
  destruct lim as [k|]; cbn.
  - match goal with |- context [if ?b then _ else _] => destruct b end; cbn; congruence.
  - congruence.
Qed.

(* ---- the four mutating operations, for an arbitrary predicate on the position columns *)

Section Generic.
Variable P : N -> N -> N -> N -> Prop.

Definition rowP (r : row) : Prop := P (r_rec r) (r_blk r) (r_lkrec r) (r_lkblk r).
Definition allP (l : list row) : Prop := forall r, In r l -> rowP r.

Lemma rowP_set_name r n : rowP (set_name r n) <-> rowP r.
Proof. reflexivity. Qed.

Lemma replace_row_in n l new t x : In x (replace_row n l new t) -> x = new \/ In x t.
Proof.
  induction t as [|r t IH]; cbn; [tauto|].
  destruct (key_eq n l r); cbn; intros [H|H]; auto. apply IH in H. tauto.
Qed.

Lemma allP_replace n l new t : allP t -> rowP new -> allP (replace_row n l new t).
Proof. intros A Hn x I. apply replace_row_in in I. destruct I as [->|I]; auto. Qed.

Lemma allP_app l1 l2 : allP l1 -> allP l2 -> allP (l1 ++ l2).
Proof. intros A B x I. apply in_app_or in I. destruct I; auto. Qed.

Lemma allP_filter f l : allP l -> allP (filter f l).
Proof. intros A x I. apply filter_In in I. apply A. tauto. Qed.

Lemma allP_nil : allP [].
Proof. intros x []. Qed.

Lemma upsert_P p r0 ini : allP (rows p) -> rowP r0 -> allP (rows (fst (upsert p r0 ini))).
Proof.
  intros A H0. unfold upsert.
  assert (K : forall p1 n, rows p1 = rows p ->
     allP (rows (fst (let r := set_name r0 n in
       if has_key (rows p1) n (r_link r) then (with_rows p1 (replace_row n (r_link r) r (rows p1)), Ok tt)
       else (with_rows p1 (rows p1 ++ [r]), Ok tt))))).
  { intros p1 n E. cbv zeta. destruct (has_key (rows p1) n (r_link (set_name r0 n))); cbn [fst with_rows rows]; rewrite E.
    - apply allP_replace; assumption.
    - apply allP_app; [assumption|]. intros x [<-|[]]. exact H0. }
  destruct ini.
  - apply K. reflexivity.
  - pose proof (sanitize_rows p (r_name r0)) as H. destruct (sanitize p (r_name r0)) as [p1 n]; cbn in H. apply K. exact H.
Qed.

Lemma update_meta_P p r0 : allP (rows p) -> rowP r0 -> allP (rows (fst (update_meta p r0))).
Proof.
  intros A H0. unfold update_meta.
  pose proof (sanitize_rows p (r_name r0)) as H. destruct (sanitize p (r_name r0)) as [p1 n]; cbn in H.
  cbn [fst with_rows rows]. rewrite H. apply allP_replace; assumption.
Qed.

Lemma move_rows_P p old new lkrec lkblk :
  (forall a b c d, P a b c d -> P a b lkrec lkblk) ->
  allP (rows p) -> allP (rows (fst (move_rows p old new lkrec lkblk))).
Proof.
  intros Hlk A. unfold move_rows.
  pose proof (sanitize_rows p new) as H1. destruct (sanitize p new) as [p1 new']; cbn in H1.
  pose proof (sanitize_rows p1 old) as H2. destruct (sanitize p1 old) as [p2 old']; cbn in H2.
  assert (A2 : allP (rows p2)) by (rewrite H2, H1; exact A).
  set (moved := filter (fun r => eqb_str (r_name r) old') (rows p2)).
  set (rows1 := if eqb_str new' old' then rows p2 else filter _ (rows p2)).
  assert (A1 : allP rows1).
  { unfold rows1. destruct (eqb_str new' old'); [exact A2|apply allP_filter; exact A2]. }
  cbv zeta. fold moved. fold rows1.
  match goal with |- context [if ?b then _ else _] => destruct b end; cbn [fst with_rows rows]; [exact A1|].
  intros x I. apply in_map_iff in I. destruct I as [y [E I]]. apply A1 in I.
  destruct (eqb_str (r_name y) old'); subst x; [|exact I].
  unfold rowP in *. cbn. eapply Hlk. exact I.
Qed.

Lemma delete_row_P p name lkrec lkblk :
  (forall a b c d, P a b c d -> P a b lkrec lkblk) ->
  allP (rows p) -> allP (rows (fst (delete_row p name lkrec lkblk))).
Proof.
  intros Hlk A. unfold delete_row.
  pose proof (sanitize_rows p name) as H1. destruct (sanitize p name) as [p1 n]; cbn in H1.
  destruct (find_by_name p1 n) as [r|] eqn:E; cbn [fst with_rows rows]; rewrite H1; [|exact A].
  apply allP_replace; [exact A|]. apply find_by_name_in in E. rewrite H1 in E. apply A in E.
  unfold rowP in *. cbn. eapply Hlk. exact E.
Qed.

(* ---- indexHeader at position (rec, blk) *)

Lemma lift_P {A} (x : pstate * res A) k :
  allP (rows (fst x)) -> (forall p a, allP (rows p) -> allP (rows (fst (k p a)))) -> allP (rows (fst (lift x k))).
Proof. intros H K. destruct x as [p [a| | |e]]; cbn in *; auto. Qed.

Lemma index_header_P c rec blk h0 ini p :
  P rec blk rec blk ->
  (forall a b c d, P a b c d -> P a b rec blk) ->
  allP (rows p) -> allP (rows (fst (index_header c rec blk h0 ini p))).
Proof.
  intros Hnew Hlk A. unfold index_header.
  destruct (match pax_get K_usize (h_pax h0) with
            | Some v => match undecimal v with Some n => Some n | None => None end
            | None => Some (h_size h0) end) as [sz|]; [|exact A].
  set (h := with_size_name h0 sz _). clearbody h. cbv zeta.
  destruct (negb _); [exact A|].
  destruct (eqb_str _ V_create).
  { apply upsert_P; [exact A|exact Hnew]. }
  destruct (eqb_str _ V_delete).
  { apply lift_P; [apply delete_row_P; assumption|]. intros; assumption. }
  destruct (eqb_str _ V_update); [|exact A].
  set (old_name := match pax_get K_replaces_name (h_pax h) with Some o => o | None => h_name h end). clearbody old_name.
  set (moves := match pax_get K_replaces_name (h_pax h) with Some _ => true | None => false end). clearbody moves.
  assert (Mv : forall p1, allP (rows p1) ->
     allP (rows (fst (if moves then move_rows p1 old_name (h_name h) rec blk else (p1, Ok tt))))).
  { intros p1 A1. destruct moves; [apply move_rows_P; assumption|exact A1]. }
  assert (CU : allP (rows (fst (lift (if moves then move_rows p old_name (h_name h) rec blk else (p, Ok tt))
                                     (fun p _ => update_meta p (row_of_hdr rec rec blk blk h)))))).
  { apply lift_P; [apply Mv; exact A|]. intros p1 _ A1. apply update_meta_P; [exact A1|exact Hnew]. }
  assert (MU : allP (rows (fst (
        match get_header p old_name with
        | (p, Ok o) => lift (if moves then move_rows p old_name (h_name h) rec blk else (p, Ok tt))
                            (fun p _ => update_meta p (row_of_hdr (r_rec o) rec (r_blk o) blk h))
        | (p, NoRows) => if moves then move_rows p old_name (h_name h) rec blk else (p, Ok tt)
        | (p, Unique) => (p, Unique)
        | (p, Fail e) => (p, Fail e)
        end)))).
  { pose proof (get_header_rows p old_name) as Hr. pose proof (get_header_in p old_name) as Hi.
    destruct (get_header p old_name) as [p1 [o| | |e]]; cbn in Hr.
    - apply lift_P; [apply Mv; rewrite Hr; exact A|]. intros p2 _ A2. apply update_meta_P; [exact A2|].
      specialize (Hi p1 o eq_refl). apply A in Hi. unfold rowP in *. cbn. eapply Hlk. exact Hi.
    - apply Mv. rewrite Hr. exact A.
    - cbn. rewrite Hr. exact A.
    - cbn. rewrite Hr. exact A. }
  destruct (pax_get K_replaces_content (h_pax h)) as [v|]; [|exact MU].
  destruct (eqb_str v V_true); [exact CU|exact MU].
Qed.

End Generic.
