(* T13 / paths: cleaned absolute names as component lists ([pth cs] = "/" ++ join cs), the parent of a
   name ([path_dir]) drops the last component, "strictly below" is "proper extension of the component list". *)
From Coq Require Import List NArith ZArith Bool Lia.
From Coq Require Import ZifyN ZifyBool.
Import ListNotations.
From STFS Require Import Str Db Norm C01Str.
Open Scope N_scope.

Definition pth (cs : list str) : str := slash :: join_slash cs.

Lemma good_pth cs : Forall okc cs -> good (pth cs).
Proof. intro H. exists cs. split; [exact H|reflexivity]. Qed.

Lemma good_inv n : good n -> exists cs, Forall okc cs /\ n = pth cs.
Proof. intro H. exact H. Qed.

Lemma pth_nil : pth [] = [slash].
Proof. reflexivity. Qed.

Lemma join_nonempty cs : cs <> [] -> Forall okc cs -> join_slash cs <> [].
Proof.
  intros Hn H. destruct cs as [|a r]; [contradiction|]. inversion H as [|? ? Ha _]; subst.
  destruct (join_head a r Ha) as (x & t & E & _). rewrite E. discriminate.
Qed.

Lemma pth_root_iff cs : Forall okc cs -> (pth cs = [slash] <-> cs = []).
Proof.
  intro H. split.
  - intro E. destruct cs as [|a r]; [reflexivity|]. exfalso.
    unfold pth in E. inversion E as [E']. apply (join_nonempty (a :: r)); [discriminate|exact H|exact E'].
  - intros ->. reflexivity.
Qed.

Lemma pth_inj cs ds : Forall okc cs -> Forall okc ds -> pth cs = pth ds -> cs = ds.
Proof.
  intros Hc Hd E. unfold pth in E. inversion E as [E']. clear E.
  destruct cs as [|a r].
  - destruct ds as [|b q]; [reflexivity|]. exfalso.
    apply (join_nonempty (b :: q)); [discriminate|exact Hd|symmetry; exact E'].
  - destruct ds as [|b q].
    + exfalso. apply (join_nonempty (a :: r)); [discriminate|exact Hc|exact E'].
    + rewrite <- (split_join (a :: r)); [|discriminate|apply okc_noslash; exact Hc].
      rewrite <- (split_join (b :: q)); [|discriminate|apply okc_noslash; exact Hd].
      rewrite E'. reflexivity.
Qed.

Lemma pth_snoc cs c : cs <> [] -> pth (cs ++ [c]) = pth cs ++ slash :: c.
Proof. intro H. unfold pth. rewrite join_app by (try assumption; discriminate). reflexivity. Qed.

Lemma pth_app cs ds : cs <> [] -> ds <> [] -> pth (cs ++ ds) = pth cs ++ slash :: join_slash ds.
Proof. intros H1 H2. unfold pth. rewrite join_app by assumption. reflexivity. Qed.

Lemma pth_single c : pth [c] = slash :: c.
Proof. reflexivity. Qed.

(* ---------- upto_last_slash *)
Lemma last_slash_aux_noslash c : forall i best, noslash c -> last_slash_aux c i best = best.
Proof.
  induction c as [|x c IH]; intros i best H; cbn [last_slash_aux]; [reflexivity|].
  destruct (x =? slash) eqn:E.
  - apply N.eqb_eq in E. subst. exfalso. apply H. left. reflexivity.
  - apply IH. intro K. apply H. right. exact K.
Qed.

Lemma last_slash_aux_app a c : forall i best, noslash c ->
  last_slash_aux (a ++ slash :: c) i best = (i + length a + 1)%nat.
Proof.
  induction a as [|x a IH]; intros i best H.
  - cbn [app last_slash_aux length]. rewrite N.eqb_refl. rewrite last_slash_aux_noslash by exact H. lia.
  - cbn [app last_slash_aux length]. rewrite IH by exact H. lia.
Qed.

Lemma upto_last_slash_app a c : noslash c -> upto_last_slash (a ++ slash :: c) = a ++ [slash].
Proof.
  intro H. unfold upto_last_slash. rewrite last_slash_aux_app by exact H.
  replace (0 + length a + 1)%nat with (length (a ++ [slash]) + 0)%nat by (rewrite app_length; cbn; lia).
  replace (a ++ slash :: c) with ((a ++ [slash]) ++ c) by (rewrite <- app_assoc; reflexivity).
  rewrite firstn_app_2. cbn. rewrite app_nil_r. reflexivity.
Qed.

Lemma after_last_slash_app a c : noslash c -> after_last_slash (a ++ slash :: c) = c.
Proof.
  intro H. unfold after_last_slash. rewrite last_slash_aux_app by exact H.
  replace (0 + length a + 1)%nat with (length (a ++ [slash]) + 0)%nat by (rewrite app_length; cbn; lia).
  replace (a ++ slash :: c) with ((a ++ [slash]) ++ c) by (rewrite <- app_assoc; reflexivity).
  rewrite skipn_app. rewrite skipn_all2 by lia. cbn [app].
  replace (length (a ++ [slash]) + 0 - length (a ++ [slash]))%nat with 0%nat by lia. reflexivity.
Qed.

(* ---------- the parent *)
Lemma path_clean_trailing cs : Forall okc cs -> path_clean (pth cs ++ [slash]) = pth cs.
Proof.
  intro H. destruct cs as [|a r]; [reflexivity|].
  unfold pth. cbn [app]. unfold path_clean. rewrite N.eqb_refl. f_equal.
  rewrite split_slash_cons_slash. rewrite split_slash_app.
  rewrite split_join; [|discriminate|apply okc_noslash; exact H].
  rewrite clean_comps_ok.
  - cbn [rev]. rewrite app_nil_l.
    replace (filter (fun c : str => negb (eqb_str c [])) ([] :: (a :: r) ++ split_slash []))
      with (filter (fun c : str => negb (eqb_str c [])) ((a :: r) ++ [[]])) by reflexivity.
    rewrite filter_app. rewrite (filter_nonempty_okc (a :: r) H). cbn [filter eqb_str negb].
    rewrite app_nil_r. reflexivity.
  - constructor; [right; reflexivity|]. apply Forall_app. split.
    + eapply Forall_impl; [|exact H]. intros; left; assumption.
    + constructor; [right; reflexivity|constructor].
Qed.

Lemma okc_ns c : okc c -> noslash c.
Proof. intros (_ & _ & _ & H). exact H. Qed.

Lemma path_dir_pth cs c : Forall okc cs -> okc c -> path_dir (pth (cs ++ [c])) = pth cs.
Proof.
  intros H Hc. unfold path_dir. destruct cs as [|a r].
  - cbn [app]. rewrite pth_single. change (slash :: c) with ([] ++ slash :: c).
    rewrite upto_last_slash_app by (apply okc_ns; exact Hc). reflexivity.
  - rewrite pth_snoc by discriminate. rewrite upto_last_slash_app by (apply okc_ns; exact Hc).
    apply path_clean_trailing. exact H.
Qed.

Lemma path_base_notrail x : x <> [] -> has_suffix [slash] x = false -> path_base x = after_last_slash x.
Proof.
  intros Hn Ht. rewrite has_suffix_slash in Ht. unfold path_base.
  destruct x as [|x0 xt]; [contradiction|].
  assert (Es : strip_trailing_slashes (rev (x0 :: xt)) = rev (x0 :: xt)).
  { destruct (rev (x0 :: xt)) as [|y t]; [reflexivity|]. cbn. rewrite N.eqb_sym. rewrite Ht. reflexivity. }
  rewrite Es, rev_involutive. reflexivity.
Qed.

Lemma path_base_pth cs c : Forall okc cs -> okc c -> path_base (pth (cs ++ [c])) = c.
Proof.
  intros H Hc.
  assert (F : Forall okc (cs ++ [c])) by (apply Forall_app; split; [exact H|constructor; [exact Hc|constructor]]).
  assert (G : good (pth (cs ++ [c]))) by (apply good_pth; exact F).
  assert (Hn : pth (cs ++ [c]) <> [slash]).
  { intro K. apply pth_root_iff in K; [destruct cs; discriminate|exact F]. }
  rewrite path_base_notrail; [|discriminate|apply good_no_trailing; assumption].
  destruct cs as [|a r].
  - cbn [app]. rewrite pth_single. change (slash :: c) with ([] ++ slash :: c).
    apply after_last_slash_app. apply okc_ns. exact Hc.
  - rewrite pth_snoc by discriminate. apply after_last_slash_app. apply okc_ns. exact Hc.
Qed.

(* a good non-root name has a last component *)
Lemma good_split n : good n -> n <> [slash] ->
  exists cs c, Forall okc cs /\ okc c /\ n = pth (cs ++ [c]).
Proof.
  intros (cs & H & ->) Hn.
  destruct (exists_last (l := cs)) as (cs' & c & E).
  { intro K. subst cs. apply Hn. reflexivity. }
  subst cs. apply Forall_app in H as [H1 H2]. inversion H2 as [|? ? Hc _]; subst.
  exists cs', c. split; [exact H1|]. split; [exact Hc|reflexivity].
Qed.

Lemma path_dir_good_parent n : good n -> n <> [slash] -> good (path_dir n).
Proof. intros G _. apply path_dir_good. apply good_abs. exact G. Qed.

(* ---------- strictly below *)
Definition under (a x : str) : Prop := has_prefix (a ++ [slash]) x = true.

Lemma under_pth xs cs : xs <> [] -> Forall okc xs -> Forall okc cs ->
  (under (pth xs) (pth cs) <-> exists rs, rs <> [] /\ cs = xs ++ rs).
Proof.
  intros Hn Hx Hc. unfold under. split.
  - intro H.
    assert (Hne : pth xs <> [slash]) by (intro K; apply pth_root_iff in K; [contradiction|exact Hx]).
    destruct (below_decompose (pth xs) (pth cs) (good_pth xs Hx) Hne (good_pth cs Hc) H)
      as (fcs & rcs & F1 & F2 & F3 & F4 & E1 & E2).
    change (slash :: join_slash fcs) with (pth fcs) in E1.
    change (slash :: join_slash (fcs ++ rcs)) with (pth (fcs ++ rcs)) in E2.
    apply pth_inj in E1; [|exact Hx|exact F3]. subst fcs.
    apply pth_inj in E2; [|exact Hc|apply Forall_app; split; assumption].
    exists rcs. split; assumption.
  - intros (rs & Hr & ->). rewrite pth_app by assumption.
    replace (pth xs ++ slash :: join_slash rs) with ((pth xs ++ [slash]) ++ join_slash rs)
      by (rewrite <- app_assoc; reflexivity).
    apply has_prefix_app'.
Qed.

Lemma under_ne a x : under a x -> x <> a.
Proof.
  unfold under. intros H E. subst x. apply has_prefix_length in H. rewrite app_length in H. cbn in H. lia.
Qed.

(* ---------- decidable prefix of component lists *)
Lemma str_eq_dec (a b : str) : {a = b} + {a <> b}.
Proof. apply list_eq_dec. apply N.eq_dec. Defined.

Lemma strs_eq_dec (a b : list str) : {a = b} + {a <> b}.
Proof. apply list_eq_dec. apply str_eq_dec. Defined.

Lemma prefix_dec (a : list str) : forall x, (exists rs, x = a ++ rs) \/ (forall rs, x <> a ++ rs).
Proof.
  induction a as [|c a IH]; intro x.
  - left. exists x. reflexivity.
  - destruct x as [|d x]; [right; intros rs K; discriminate|].
    destruct (str_eq_dec d c) as [->|Hne].
    + destruct (IH x) as [(rs & ->)|H].
      * left. exists rs. reflexivity.
      * right. intros rs K. inversion K. apply (H rs). assumption.
    + right. intros rs K. inversion K. contradiction.
Qed.

Lemma app_snoc_split {A} (xs rs cs : list A) (c : A) : xs ++ rs = cs ++ [c] ->
  (rs = [] /\ xs = cs ++ [c]) \/ (exists rs', rs = rs' ++ [c] /\ cs = xs ++ rs').
Proof.
  intro E. destruct rs as [|r0 rt].
  - left. rewrite app_nil_r in E. split; [reflexivity|exact E].
  - destruct (@exists_last _ (r0 :: rt)) as (rs' & c' & K); [discriminate|]. rewrite K in *.
    right. rewrite app_assoc in E. apply app_inj_tail in E as [E1 E2]. subst c'. exists rs'. split; [reflexivity|symmetry; exact E1].
Qed.
