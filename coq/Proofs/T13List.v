(* T13 / listing = children: on a well-formed tree with the cached root "/" and no link names,
   GetHeaderDirectChildren(d, all) returns exactly the live rows whose parent ([path_dir]) is d, the root row
   excluded, in index order, each once; a count-limited listing returns a prefix of it; the listing fails
   only for the root of an index without live rows. *)
From Coq Require Import List NArith ZArith Bool Lia.
From Coq Require Import ZifyN ZifyBool.
Import ListNotations.
From STFS Require Import Str Db Norm StrLemmas C01Str C01Db C01Reads T13Path T13Def T13ListStr.
Open Scope N_scope.

(* ---------- get_direct_children as two filters *)
Definition pfx (d : str) : str := if is_root_name d then [] else trim_suffix [slash] d ++ [slash].
Definition rdepth (p : pstate) (d : str) : option N :=
  if is_root_name d then min_slashes (filter live (rows p)) else Some 0.
Definition cutq (lim : option nat) (l : list row) : list row :=
  match lim with Some k => firstn (S (S k)) l | None => l end.
Definition cut (lim : option nat) (all : list row) : list row :=
  match lim with
  | None => all
  | Some k => if (length all <? S k)%nat || (length all =? 0)%nat then all else firstn (S k - 1) all
  end.

Lemma dq_names p prefix rd lim :
  direct_query p prefix false rd lim
  = match lim with Some k => firstn k (filter (selp prefix rd) (rows p)) | None => filter (selp prefix rd) (rows p) end.
Proof. reflexivity. Qed.

Lemma dq_links_nil p prefix rd lim : Forall (fun r => r_link r = []) (rows p) ->
  direct_query p prefix true rd lim = [].
Proof.
  intro H. unfold direct_query.
  match goal with |- context [filter ?f (rows p)] => assert (E : filter f (rows p) = []) end.
  { induction (rows p) as [|r t IH]; [reflexivity|]. inversion H as [|? ? Hr Ht]; subst.
    cbn [filter]. rewrite Hr. change (is_root_name []) with true. cbn [negb]. rewrite andb_false_r.
    apply IH. exact Ht. }
  rewrite E. destruct lim as [k|]; [apply firstn_nil|reflexivity].
Qed.

Lemma snd_if {A B} (c : bool) (a : A) (x y : B) :
  snd (if c then (a, Ok x) else (a, Ok y)) = Ok (if c then x else y).
Proof. destruct c; reflexivity. Qed.

Lemma gdc_form p d lim : idx_plain p -> good d ->
  snd (get_direct_children p d lim) =
  match rdepth p d with
  | None => Fail 1
  | Some rd => Ok (cut lim (filter (postf (pfx d) d) (cutq lim (filter (selp (pfx d) rd) (rows p)))))
  end.
Proof.
  intros [Hr Hk] G. unfold get_direct_children. rewrite (sanitize_live p d Hr G).
  fold (pfx d). fold (rdepth p d). destruct (rdepth p d) as [rd|]; [|reflexivity].
  rewrite dq_links_nil by exact Hk. cbn [fold_left]. rewrite app_nil_r. rewrite dq_names.
  destruct lim as [k|]; [|reflexivity].
  rewrite snd_if. reflexivity.
Qed.

(* ---------- the root row is live as soon as any row is, so the SQL root depth is 1 *)
Lemma root_live p : wf_tree p -> forall cs r, Forall okc cs -> In r (lrows p) -> r_name r = pth cs ->
  exists q, In q (lrows p) /\ r_name q = [slash].
Proof.
  intros (_ & Hpar & _) cs. induction cs as [|c cs IH] using rev_ind; intros r F Hin En.
  - exists r. split; [exact Hin|exact En].
  - apply Forall_app in F as [F Fc]. inversion Fc as [|? ? Hc _]; subst.
    destruct (Hpar r Hin) as (q & Hq & Eq & _).
    { rewrite En. intro K. apply pth_root_iff in K; [destruct cs; discriminate|].
      apply Forall_app. split; [exact F|constructor; [exact Hc|constructor]]. }
    rewrite En, path_dir_pth in Eq by assumption.
    apply (IH q F Hq Eq).
Qed.

Lemma wf_root_live p : wf_tree p -> lrows p <> [] -> exists q, In q (lrows p) /\ r_name q = [slash].
Proof.
  intros W Hn. destruct (lrows p) as [|r t] eqn:E; [contradiction|].
  assert (Hin : In r (lrows p)) by (rewrite E; left; reflexivity).
  destruct W as (W1 & W2 & W3). destruct (W3 r Hin) as (cs & F & En).
  rewrite <- E. apply (root_live p (conj W1 (conj W2 W3)) cs r F Hin En).
Qed.

Lemma fold_min_spec (t : list row) : forall m,
  let v := fold_left (fun m x => N.min m (slash_count (r_name x))) t m in
  v <= m /\ (forall x, In x t -> v <= slash_count (r_name x)) /\
  (1 <= m -> (forall x, In x t -> 1 <= slash_count (r_name x)) -> 1 <= v).
Proof.
  induction t as [|y t IH]; intro m; cbn [fold_left].
  - split; [lia|]. split; [intros x []|]. intros H _. exact H.
  - destruct (IH (N.min m (slash_count (r_name y)))) as (A & B & C). split; [lia|]. split.
    + intros x [->|Hx]; [lia|apply B; exact Hx].
    + intros Hm Hall. apply C.
      * pose proof (Hall y (or_introl eq_refl)). lia.
      * intros x Hx. apply Hall. right. exact Hx.
Qed.

Lemma min_slashes_one l : (forall r, In r l -> good (r_name r)) ->
  (exists q, In q l /\ r_name q = [slash]) -> min_slashes l = Some 1.
Proof.
  intros Hg (q & Hq & Eq). destruct l as [|r t]; [contradiction|]. cbn [min_slashes]. f_equal.
  destruct (fold_min_spec t (slash_count (r_name r))) as (A & B & C). cbv zeta in A, B, C.
  assert (L : 1 <= fold_left (fun m x => N.min m (slash_count (r_name x))) t (slash_count (r_name r))).
  { apply C.
    - apply slash_count_good. apply Hg. left. reflexivity.
    - intros x Hx. apply slash_count_good. apply Hg. right. exact Hx. }
  assert (U : fold_left (fun m x => N.min m (slash_count (r_name x))) t (slash_count (r_name r)) <= 1).
  { change 1 with (slash_count [slash]). rewrite <- Eq. destruct Hq as [->|Hq]; [exact A|apply B; exact Hq]. }
  lia.
Qed.

Lemma wf_rdepth_root p : wf_tree p -> lrows p <> [] -> min_slashes (lrows p) = Some 1.
Proof.
  intros W Hn. apply min_slashes_one.
  - destruct W as (_ & _ & W3). exact W3.
  - apply wf_root_live; assumption.
Qed.

(* ---------- list facts *)
Lemma filter_filter {A} (f g : A -> bool) l : filter f (filter g l) = filter (fun x => g x && f x) l.
Proof.
  induction l as [|x l IH]; cbn [filter]; [reflexivity|].
  destruct (g x); cbn [filter andb]; [destruct (f x)|]; rewrite IH; reflexivity.
Qed.

Lemma filter_firstn {A} (f : A -> bool) l : forall n,
  exists j, (j <= n)%nat /\ filter f (firstn n l) = firstn j (filter f l).
Proof.
  induction l as [|x l IH]; intro n.
  - exists 0%nat. rewrite firstn_nil. split; [lia|reflexivity].
  - destruct n as [|n]; [exists 0%nat; split; [lia|reflexivity]|].
    destruct (IH n) as (j & Hj & E). cbn [firstn filter]. destruct (f x).
    + exists (S j). split; [lia|]. cbn [firstn]. rewrite E. reflexivity.
    + exists j. split; [lia|exact E].
Qed.

Lemma NoDup_filter {A} (f : A -> bool) l : NoDup l -> NoDup (filter f l).
Proof.
  induction l as [|x l IH]; intro H; cbn [filter]; [constructor|].
  inversion H as [|? ? Hx Hl]; subst. destruct (f x); [|apply IH; exact Hl].
  constructor; [|apply IH; exact Hl]. intro K. apply filter_In in K as [K _]. contradiction.
Qed.

(* ---------- the theorems *)
Definition children (p : pstate) (d : str) : list row := filter (childp d) (rows p).

Lemma rows_pred p d rd : wf_tree p -> idx_plain p -> good d -> rdepth p d = Some rd ->
  forall r, In r (rows p) -> selp (pfx d) rd r && postf (pfx d) d r = childp d r.
Proof.
  intros W [Hr Hk] G Hrd r Hin.
  assert (Hlk : r_link r = []) by (rewrite Forall_forall in Hk; apply Hk; exact Hin).
  assert (Hg : live r = true -> good (r_name r)).
  { intro Hl. destruct W as (_ & _ & W3). apply W3. apply filter_In. split; assumption. }
  unfold rdepth, pfx in *. destruct (is_root_name d) eqn:Ed.
  - apply (good_is_root d G) in Ed. subst d.
    assert (Hn : lrows p <> []).
    { unfold lrows. destruct (filter live (rows p)); [discriminate|discriminate]. }
    fold (lrows p) in Hrd. rewrite (wf_rdepth_root p W Hn) in Hrd. inversion Hrd; subst rd.
    apply row_root; assumption.
  - assert (Hd : d <> [slash]) by (intro K; subst d; discriminate).
    inversion Hrd; subst rd. rewrite good_trim_slash by assumption.
    apply row_nonroot; assumption.
Qed.

(* the unlimited listing is the list of the live rows directly below d, in index order *)
Theorem T13_listing_exact : forall p d l, wf_tree p -> idx_plain p -> good d ->
  snd (get_direct_children p d None) = Ok l ->
  l = filter (fun r => live r && negb (eqb_str (r_name r) [slash]) && eqb_str (path_dir (r_name r)) d) (rows p).
Proof.
  intros p d l W I G H. rewrite (gdc_form p d None I G) in H.
  destruct (rdepth p d) as [rd|] eqn:Hrd; [|discriminate]. inversion H; subst l; clear H.
  cbn [cut cutq]. rewrite filter_filter. apply filter_ext_in'.
  intros r Hin. apply (rows_pred p d rd W I G Hrd r Hin).
Qed.

(* membership form *)
Corollary T13_listing_in : forall p d l, wf_tree p -> idx_plain p -> good d ->
  snd (get_direct_children p d None) = Ok l ->
  forall r, In r l <-> (In r (lrows p) /\ r_name r <> [slash] /\ path_dir (r_name r) = d).
Proof.
  intros p d l W I G H r. rewrite (T13_listing_exact p d l W I G H). unfold lrows.
  rewrite !filter_In. split.
  - intros [Hin Hp]. apply andb_true_iff in Hp as [Hp H3]. apply andb_true_iff in Hp as [H1 H2].
    apply negb_true_iff in H2. apply eqb_str_neq in H2. apply eqb_str_eq in H3. repeat split; assumption.
  - intros ([Hin Hl] & Hn & Hd). split; [exact Hin|]. rewrite Hl. cbn [andb]. apply andb_true_iff. split.
    + apply negb_true_iff. apply eqb_str_neq. exact Hn.
    + apply eqb_str_eq. exact Hd.
Qed.

(* each once: the names of a listing are pairwise different (so are the rows) *)
Lemma filter_and_live (f : row -> bool) l : filter (fun r => live r && f r) l = filter f (filter live l).
Proof. rewrite filter_filter. reflexivity. Qed.

Corollary T13_listing_nodup_names : forall p d l, wf_tree p -> idx_plain p -> good d ->
  snd (get_direct_children p d None) = Ok l -> NoDup (map r_name l).
Proof.
  intros p d l W I G H. rewrite (T13_listing_exact p d l W I G H).
  destruct W as (W1 & _).
  rewrite (filter_ext_in' _ (fun r => live r && (negb (eqb_str (r_name r) [slash]) && eqb_str (path_dir (r_name r)) d)))
    by (intros; rewrite andb_assoc; reflexivity).
  rewrite filter_and_live. fold (lrows p).
  induction (lrows p) as [|x t IH]; cbn [filter map]; [constructor|].
  cbn [map] in W1. inversion W1 as [|? ? Hx Ht]; subst.
  destruct (negb (eqb_str (r_name x) [slash]) && eqb_str (path_dir (r_name x)) d); [|apply IH; exact Ht].
  cbn [map]. constructor; [|apply IH; exact Ht].
  intro K. apply Hx. apply in_map_iff in K as (y & Ey & Hy). apply filter_In in Hy as [Hy _].
  apply in_map_iff. exists y. split; assumption.
Qed.

Corollary T13_listing_nodup : forall p d l, wf_tree p -> idx_plain p -> good d ->
  snd (get_direct_children p d None) = Ok l -> NoDup l.
Proof.
  intros p d l W I G H. apply (NoDup_map_inv r_name). apply (T13_listing_nodup_names p d l W I G H).
Qed.

(* a count-limited listing is a prefix (of at most k entries) of the unlimited one.
   No tree hypothesis is needed for this. *)
Lemma firstn_len_firstn {A} (l : list A) : forall j, firstn (length (firstn j l)) l = firstn j l.
Proof.
  induction l as [|x l IH]; intro j; [rewrite !firstn_nil; reflexivity|].
  destruct j as [|j]; [reflexivity|]. cbn [firstn length]. rewrite IH. reflexivity.
Qed.

Lemma cut_prefix (f : row -> bool) sel k :
  exists j, (j <= k)%nat /\ cut (Some k) (filter f (cutq (Some k) sel)) = firstn j (filter f sel).
Proof.
  unfold cut, cutq.
  destruct (filter_firstn f sel (S (S k))) as (j & Hj & E). rewrite E.
  set (l := filter f sel) in *.
  destruct ((length (firstn j l) <? S k)%nat || (length (firstn j l) =? 0)%nat) eqn:C.
  - pose proof (firstn_length j l) as Len.
    destruct (Nat.le_gt_cases j k) as [Hle|Hgt]; [exists j; split; [exact Hle|reflexivity]|].
    exists (length (firstn j l)). split; [lia|].
    symmetry. apply firstn_len_firstn.
  - exists (Nat.min (S k - 1) j). split; [lia|]. apply firstn_firstn.
Qed.

Theorem T13_listing_limited_prefix : forall p d k l lk, idx_plain p -> good d ->
  snd (get_direct_children p d None) = Ok l -> snd (get_direct_children p d (Some k)) = Ok lk ->
  exists j, (j <= k)%nat /\ lk = firstn j l.
Proof.
  intros p d k l lk I G H Hk. rewrite (gdc_form p d None I G) in H. rewrite (gdc_form p d (Some k) I G) in Hk.
  destruct (rdepth p d) as [rd|]; [|discriminate].
  destruct (cut_prefix (postf (pfx d) d) (filter (selp (pfx d) rd) (rows p)) k) as (j & Hj & E).
  exists j. split; [exact Hj|]. rewrite E in Hk. change (cut None ?x) with x in H. change (cutq None ?x) with x in H.
  congruence.
Qed.

Theorem T13_listing_limited_subset : forall p d k l lk, wf_tree p -> idx_plain p -> good d ->
  snd (get_direct_children p d None) = Ok l -> snd (get_direct_children p d (Some k)) = Ok lk ->
  exists j, lk = firstn j l.
Proof.
  intros p d k l lk _ I G H Hk. destruct (T13_listing_limited_prefix p d k l lk I G H Hk) as (j & _ & E).
  exists j. exact E.
Qed.

Corollary T13_listing_limited_incl : forall p d k l lk, idx_plain p -> good d ->
  snd (get_direct_children p d None) = Ok l -> snd (get_direct_children p d (Some k)) = Ok lk ->
  incl lk l /\ (length lk <= k)%nat.
Proof.
  intros p d k l lk I G H Hk. destruct (T13_listing_limited_prefix p d k l lk I G H Hk) as (j & Hj & ->).
  split.
  - intros x Hx. rewrite <- (firstn_skipn j l). apply in_or_app. left. exact Hx.
  - rewrite firstn_length. lia.
Qed.

(* the listing (limited or not) fails only for the root of an index without live rows *)
Theorem T13_listing_total : forall p d lim, idx_plain p -> good d -> (d <> [slash] \/ lrows p <> []) ->
  exists l, snd (get_direct_children p d lim) = Ok l.
Proof.
  intros p d lim I G H. rewrite (gdc_form p d lim I G). unfold rdepth.
  destruct (is_root_name d) eqn:Ed.
  - apply (good_is_root d G) in Ed. destruct H as [H|H]; [contradiction|].
    unfold lrows in H. destruct (filter live (rows p)) as [|r t]; [contradiction|]. cbn [min_slashes].
    eexists. reflexivity.
  - eexists. reflexivity.
Qed.

Corollary T13_listing_total_root_live : forall p d lim, idx_plain p -> good d ->
  (exists r, In r (lrows p) /\ r_name r = [slash]) -> exists l, snd (get_direct_children p d lim) = Ok l.
Proof.
  intros p d lim I G (r & Hr & _). apply T13_listing_total; [exact I|exact G|]. right.
  intro K. rewrite K in Hr. contradiction.
Qed.

Theorem T13_listing_root_empty_fails : forall p lim, idx_plain p -> lrows p = [] ->
  snd (get_direct_children p [slash] lim) = Fail 1.
Proof.
  intros p lim I H. rewrite (gdc_form p [slash] lim I good_root). unfold rdepth.
  change (is_root_name [slash]) with true. cbv iota. fold (lrows p). rewrite H. reflexivity.
Qed.

Print Assumptions T13_listing_exact.
Print Assumptions T13_listing_limited_prefix.
Print Assumptions T13_listing_total.
