(* Tcfg / afero level: every call of the differential alphabet under a configuration with codec suffixes is the
   same call of the plain configuration on the image state [Pl c s] (same outcome, same index, same queues). *)
From Coq Require Import List NArith ZArith Bool Lia.
From Coq Require Import ZifyN ZifyBool.
Import ListNotations.
From STFS Require Import Str Db Tape Index Ops Fs Diff TapeLemmas C01Sim C03Names TcfgSim TcfgOps.
Open Scope N_scope.

Definition liftP3 {A B} (c : cfg) (x : sys * A * B) : sys * A * B := (Pl c (fst (fst x)), snd (fst x), snd x).

(* ---------- reads *)
Lemma stat_s_Pl c s n b : stat_s (Pl c s) n b = liftP c (stat_s s n b).
Proof. unfold stat_s. change (db (Pl c s)) with (db s). destruct (inv_stat (db s) n b). reflexivity. Qed.

Lemma parent_check_Pl c s n : parent_check (Pl c s) n = liftP c (parent_check s n).
Proof.
  unfold parent_check. rewrite stat_s_Pl. destruct (stat_s s (path_dir n) false) as [s1 [h| | |e]]; try reflexivity.
  unfold liftP. cbn [fst snd]. destruct (h_tf h =? TypeDir); reflexivity.
Qed.

Lemma read_path_Pl c s p : read_path (plain_of c) (Pl c s) p = liftP c (read_path c s p).
Proof.
  unfold read_path. change (db (Pl c s)) with (db s). change (tp (Pl c s)) with (efft c (tp s)).
  destruct (match get_header (db s) (trim_suffix [slash] p) with
            | (p0, NoRows) => get_header p0 (trim_suffix [slash] p ++ [slash])
            | x => x end) as [p1 [d| | |e]]; try reflexivity.
  rewrite fetch_at_efft. destruct (fetch_at c (tp s) (r_rec d) (r_blk d)); reflexivity.
Qed.

(* ---------- mknode: the header has size 0, nothing is encoded *)
Lemma mknode_Pl c s dir name perm ow link init :
  mknode (plain_of c) (Pl c s) dir name perm ow link init = liftP c (mknode c s dir name perm ow link init).
Proof.
  unfold mknode. change (c_readonly (plain_of c)) with (c_readonly c). destruct (c_readonly c); [reflexivity|].
  unfold archive_op. change (c_rs (plain_of c)) with (c_rs c). change (db (Pl c s)) with (db s).
  change (clk (Pl c s)) with (clk s).
  change (mknode_hdr (plain_of c) dir name link perm (clk s)) with (mknode_hdr c dir name link perm (clk s)).
  set (h := mknode_hdr c dir name link perm (clk s)).
  cbn [archive_members f_hdr f_data].
  assert (Ez : is_reg h && (0 <? h_size h) = false) by (apply andb_false_r).
  rewrite Ez.
  assert (E3 : effh c h = h) by (apply effh_size0; reflexivity).
  rewrite <- E3 at 1. rewrite mk_member_eff.
  destruct (mk_member s h None 0) as [m s1]. cbn [fst snd].
  pose proof (append_and_index_eff c s1 (if ow then (0, 0) else last_indexed (db s) (c_rs c)) [m] [h] ow init) as E.
  cbn [map] in E. rewrite E3 in E. exact E.
Qed.

(* plumbing: replace a call on the image state by the image of the call, and case on its result *)
Ltac simstep c :=
  match goal with
  | |- context [stat_s (Pl c ?s) ?n ?b] =>
      rewrite (stat_s_Pl c s n b); destruct (stat_s s n b) as [? [?| | |?]]; unfold liftP; cbn [fst snd]
  | |- context [parent_check (Pl c ?s) ?n] =>
      rewrite (parent_check_Pl c s n); destruct (parent_check s n) as [? []]; unfold liftP; cbn [fst snd]
  | |- context [mknode (plain_of c) (Pl c ?s) ?a ?b ?d ?e ?f ?g] =>
      rewrite (mknode_Pl c s a b d e f g); destruct (mknode c s a b d e f g) as [? []]; unfold liftP; cbn [fst snd]
  end.

Lemma fs_mkdir_Pl c s n perm : fs_mkdir (plain_of c) (Pl c s) n perm = liftP c (fs_mkdir c s n perm).
Proof.
  unfold fs_mkdir. change (c_readonly (plain_of c)) with (c_readonly c). destruct (c_readonly c); [reflexivity|].
  repeat simstep c; try reflexivity.
Qed.

Lemma mkdirall_loop_Pl c perm parts : forall s cur first,
  mkdirall_loop (plain_of c) (Pl c s) cur first parts perm = liftP c (mkdirall_loop c s cur first parts perm).
Proof.
  induction parts as [|part rest IH]; intros s cur first; [reflexivity|]. cbn [mkdirall_loop].
  set (cur' := if first && eqb_str part [] then [slash] else match cur with [] => part | _ :: _ => path_join2 cur part end).
  clearbody cur'.
  simstep c; try reflexivity.
  - destruct (h_tf a =? TypeDir); [apply IH|reflexivity].
  - simstep c; try reflexivity.
    + destruct (h_tf a =? TypeDir); [apply IH|reflexivity].
    + simstep c; try reflexivity. apply IH.
Qed.

Lemma fs_mkdirall_Pl c s n perm : fs_mkdirall (plain_of c) (Pl c s) n perm = liftP c (fs_mkdirall c s n perm).
Proof.
  unfold fs_mkdirall. change (c_readonly (plain_of c)) with (c_readonly c). destruct (c_readonly c); [reflexivity|].
  apply mkdirall_loop_Pl.
Qed.

Lemma fs_remove_nl_Pl c s n : fs_remove_nl (plain_of c) (Pl c s) n = liftP c (fs_remove_nl c s n).
Proof.
  unfold fs_remove_nl. change (c_readonly (plain_of c)) with (c_readonly c). destruct (c_readonly c); [reflexivity|].
  assert (K : forall s2 (r : res hdr),
    match r with
    | Ok h => if (h_tf h =? TypeDir) && eqb_str (h_link h) []
              then match inv_list (db (Pl c s2)) n None with
                   | (p, Ok l) => match l with [] => delete_op (plain_of c) (set_db (Pl c s2) p) n | _ :: _ => (set_db (Pl c s2) p, ONotEmpty) end
                   | (p, e) => (set_db (Pl c s2) p, outc_of_res e) end
              else delete_op (plain_of c) (Pl c s2) n
    | NoRows => (Pl c s2, ONotExist)
    | e => (Pl c s2, outc_of_res e) end =
    liftP c match r with
    | Ok h => if (h_tf h =? TypeDir) && eqb_str (h_link h) []
              then match inv_list (db s2) n None with
                   | (p, Ok l) => match l with [] => delete_op c (set_db s2 p) n | _ :: _ => (set_db s2 p, ONotEmpty) end
                   | (p, e) => (set_db s2 p, outc_of_res e) end
              else delete_op c s2 n
    | NoRows => (s2, ONotExist)
    | e => (s2, outc_of_res e) end).
  { intros s2 r. destruct r as [h| | |e]; try reflexivity.
    destruct ((h_tf h =? TypeDir) && eqb_str (h_link h) []); [|apply delete_op_eff].
    change (db (Pl c s2)) with (db s2).
    destruct (inv_list (db s2) n None) as [p [l| | |e]]; try reflexivity.
    destruct l; [|reflexivity]. apply (delete_op_eff c (set_db s2 p) n). }
  rewrite stat_s_Pl. destruct (stat_s s n false) as [s1 r1]. unfold liftP at 1. cbn [fst snd].
  destruct r1 as [h| | |e]; [exact (K s1 (Ok h))| |exact (K s1 Unique)|exact (K s1 (Fail e))].
  rewrite stat_s_Pl. destruct (stat_s s1 n true) as [s2 r2]. unfold liftP at 1. cbn [fst snd]. exact (K s2 r2).
Qed.

Lemma fs_remove_Pl c s n : fs_remove (plain_of c) (Pl c s) n = liftP c (fs_remove c s n).
Proof.
  unfold fs_remove. change (c_readonly (plain_of c)) with (c_readonly c). destruct (c_readonly c); [reflexivity|].
  apply fs_remove_nl_Pl.
Qed.

Lemma fs_removeall_Pl c s n : fs_removeall (plain_of c) (Pl c s) n = liftP c (fs_removeall c s n).
Proof.
  unfold fs_removeall. change (c_readonly (plain_of c)) with (c_readonly c). destruct (c_readonly c); [reflexivity|].
  rewrite delete_op_eff. destruct (delete_op c s (path_clean n)) as [s1 []]; reflexivity.
Qed.

Lemma fs_rename_Pl c s a b : fs_rename (plain_of c) (Pl c s) a b = liftP c (fs_rename c s a b).
Proof.
  unfold fs_rename. change (c_readonly (plain_of c)) with (c_readonly c). destruct (c_readonly c); [reflexivity|].
  destruct a as [|a0 a']; [reflexivity|]. destruct b as [|b0 b']; [reflexivity|].
  set (old := path_clean (a0 :: a')). set (new := path_clean (b0 :: b')). clearbody old new.
  change (db (Pl c s)) with (db s).
  destruct (get_root_path (db s)) as [p rt]. change (set_db (Pl c s) p) with (Pl c (set_db s p)).
  destruct rt as [r|]; [|reflexivity].
  destruct (eqb_str r old || eqb_str (spelling r) (spelling old)); [reflexivity|].
  set (s0 := set_db s p). clearbody s0.
  assert (K : forall s2 (src : res hdr),
     match src with
      | Ok sh =>
        if eqb_str old new || eqb_str (spelling old) (spelling new) then (Pl c s2, OOk) else
        if (h_tf sh =? TypeDir) && has_prefix (trim_suffix [slash] (spelling old) ++ [slash]) (spelling new) then (Pl c s2, OInvalid) else
        match parent_check (Pl c s2) new with
        | (s, OOk) =>
          match stat_s s new false with
          | (s, Ok th) =>
            if negb (h_tf th =? h_tf sh) then (s, OExist)
            else match fs_remove_nl (plain_of c) s new with
                 | (s, OOk) => move_op (plain_of c) s old new
                 | x => x
                 end
          | (s, _) => move_op (plain_of c) s old new
          end
        | x => x
        end
      | NoRows => (Pl c s2, ONotExist)
      | e => (Pl c s2, outc_of_res e) end =
     liftP c match src with
      | Ok sh =>
        if eqb_str old new || eqb_str (spelling old) (spelling new) then (s2, OOk) else
        if (h_tf sh =? TypeDir) && has_prefix (trim_suffix [slash] (spelling old) ++ [slash]) (spelling new) then (s2, OInvalid) else
        match parent_check s2 new with
        | (s, OOk) =>
          match stat_s s new false with
          | (s, Ok th) =>
            if negb (h_tf th =? h_tf sh) then (s, OExist)
            else match fs_remove_nl c s new with
                 | (s, OOk) => move_op c s old new
                 | x => x
                 end
          | (s, _) => move_op c s old new
          end
        | x => x
        end
      | NoRows => (s2, ONotExist)
      | e => (s2, outc_of_res e) end).
  { intros s2 src. destruct src as [sh| | |e]; try reflexivity.
    destruct (eqb_str old new || eqb_str (spelling old) (spelling new)); [reflexivity|].
    destruct ((h_tf sh =? TypeDir) && has_prefix (trim_suffix [slash] (spelling old) ++ [slash]) (spelling new)); [reflexivity|].
    simstep c; try reflexivity.
    simstep c; try apply move_op_eff.
    destruct (negb (h_tf a =? h_tf sh)); [reflexivity|].
    rewrite fs_remove_nl_Pl.
    match goal with |- context [fs_remove_nl c ?x new] => destruct (fs_remove_nl c x new) as [s5 []] end;
      unfold liftP; cbn [fst snd]; try reflexivity.
    apply move_op_eff. }
  rewrite stat_s_Pl. destruct (stat_s s0 old false) as [s1 r1]. unfold liftP at 1. cbn [fst snd].
  destruct r1 as [h| | |e]; [exact (K s1 (Ok h))| |exact (K s1 Unique)|exact (K s1 (Fail e))].
  rewrite stat_s_Pl. destruct (stat_s s1 old true) as [s2 r2]. unfold liftP at 1. cbn [fst snd]. exact (K s2 r2).
Qed.

Lemma fs_update_meta_Pl c s n f : fs_update_meta (plain_of c) (Pl c s) n f = liftP c (fs_update_meta c s n f).
Proof.
  unfold fs_update_meta. change (c_readonly (plain_of c)) with (c_readonly c). destruct (c_readonly c); [reflexivity|].
  destruct n as [|n0 n']; [reflexivity|]. set (name := path_clean (n0 :: n')). clearbody name.
  assert (K : forall s2 (r : res hdr),
    match r with
    | Ok h => update_op (plain_of c) (Pl c s2) [{| f_hdr := f h; f_data := [] |}] false false
    | NoRows => (Pl c s2, ONotExist)
    | e => (Pl c s2, outc_of_res e) end =
    liftP c match r with
    | Ok h => update_op c s2 [{| f_hdr := f h; f_data := [] |}] false false
    | NoRows => (s2, ONotExist)
    | e => (s2, outc_of_res e) end).
  { intros s2 r. destruct r; try reflexivity. apply update_op_eff. }
  rewrite stat_s_Pl. destruct (stat_s s name false) as [s1 r1]. unfold liftP at 1. cbn [fst snd].
  destruct r1 as [h| | |e]; [exact (K s1 (Ok h))| |exact (K s1 Unique)|exact (K s1 (Fail e))].
  rewrite stat_s_Pl. destruct (stat_s s1 name true) as [s2 r2]. unfold liftP at 1. cbn [fst snd].
  destruct r2 as [lh| | |e]; [|exact (K s2 NoRows)|exact (K s2 Unique)|exact (K s2 (Fail e))].
  rewrite stat_s_Pl. destruct (stat_s s2 (h_link lh) false) as [s3 r3]. unfold liftP at 1. cbn [fst snd]. exact (K s3 r3).
Qed.

(* ---------- handles *)
Lemma fs_openfile_Pl c s n o perm :
  fs_openfile (plain_of c) (Pl c s) n o perm = liftP3 c (fs_openfile c s n o perm).
Proof.
  unfold fs_openfile. destruct n as [|n0 n']; [reflexivity|]. set (name := path_clean (n0 :: n')). clearbody name.
  change (decode_flags (plain_of c) o) with (decode_flags c o).
  change (c_readonly (plain_of c)) with (c_readonly c).
  set (fl := decode_flags c o). clearbody fl.
  set (fin := fun (s : sys) (h : hdr) (created : bool) =>
      if negb created && negb (c_readonly c) && o_create o && o_excl o then (s, OExist, @None handle)
      else if (h_tf h =? TypeDir) && (fl_write fl || fl_append fl || fl_trunc fl) then (s, OIsDir, None)
      else
        let buf := if fl_write fl && fl_trunc fl && negb (h_tf h =? TypeDir) && negb (h_size h =? 0)
                   then Some [] else None in
        (s, OOk, Some {| hd_path := h_name h; hd_link := h_link h; hd_flags := fl; hd_info := h; hd_buf := buf |})).
  assert (Fin : forall s2 h cr, fin (Pl c s2) h cr = liftP3 c (fin s2 h cr)).
  { intros s2 h cr. unfold fin. destruct (negb cr && negb (c_readonly c) && o_create o && o_excl o); [reflexivity|].
    destruct ((h_tf h =? TypeDir) && (fl_write fl || fl_append fl || fl_trunc fl)); reflexivity. }
  change (match stat_s (Pl c s) name false with
          | (s0, Ok h) => fin s0 h false
          | (s0, NoRows) =>
            match stat_s s0 name true with
            | (s1, NoRows) =>
              if negb (c_readonly c) && o_create o then
                match parent_check s1 name with
                | (s2, OOk) =>
                  match mknode (plain_of c) s2 false name perm false [] false with
                  | (s3, OOk) =>
                    match stat_s s3 name false with
                    | (s4, Ok h) => fin s4 h true
                    | (s4, NoRows) => (s4, ONotExist, None)
                    | (s4, e) => (s4, outc_of_res e, None)
                    end
                  | (s3, e) => (s3, e, None)
                  end
                | (s2, e) => (s2, e, None)
                end
              else (s1, ONotExist, None)
            | (s1, Ok _) => (s1, OOther E_unmodelled, None)
            | (s1, e) => (s1, outc_of_res e, None)
            end
          | (s0, e) => (s0, outc_of_res e, None)
          end = liftP3 c
          match stat_s s name false with
          | (s0, Ok h) => fin s0 h false
          | (s0, NoRows) =>
            match stat_s s0 name true with
            | (s1, NoRows) =>
              if negb (c_readonly c) && o_create o then
                match parent_check s1 name with
                | (s2, OOk) =>
                  match mknode c s2 false name perm false [] false with
                  | (s3, OOk) =>
                    match stat_s s3 name false with
                    | (s4, Ok h) => fin s4 h true
                    | (s4, NoRows) => (s4, ONotExist, None)
                    | (s4, e) => (s4, outc_of_res e, None)
                    end
                  | (s3, e) => (s3, e, None)
                  end
                | (s2, e) => (s2, e, None)
                end
              else (s1, ONotExist, None)
            | (s1, Ok _) => (s1, OOther E_unmodelled, None)
            | (s1, e) => (s1, outc_of_res e, None)
            end
          | (s0, e) => (s0, outc_of_res e, None)
          end).
  clearbody fin.
  rewrite stat_s_Pl. destruct (stat_s s name false) as [s1 r1]. unfold liftP at 1. cbn [fst snd].
  destruct r1 as [h| | |e]; try reflexivity; [exact (Fin s1 h false)|].
  rewrite stat_s_Pl. destruct (stat_s s1 name true) as [s2 r2]. unfold liftP at 1. cbn [fst snd].
  destruct r2 as [h| | |e]; try reflexivity.
  destruct (negb (c_readonly c) && o_create o); [|reflexivity].
  rewrite parent_check_Pl. destruct (parent_check s2 name) as [s3 o3]. unfold liftP at 1. cbn [fst snd].
  destruct o3; try reflexivity.
  rewrite mknode_Pl. destruct (mknode c s3 false name perm false [] false) as [s4 o4]. unfold liftP at 1. cbn [fst snd].
  destruct o4; try reflexivity.
  rewrite stat_s_Pl. destruct (stat_s s4 name false) as [s5 r5]. unfold liftP at 1. cbn [fst snd].
  destruct r5 as [h| | |e]; try reflexivity. exact (Fin s5 h true).
Qed.

Lemma fs_create_Pl c s n : fs_create (plain_of c) (Pl c s) n = liftP3 c (fs_create c s n).
Proof.
  unfold fs_create. change (c_readonly (plain_of c)) with (c_readonly c). destruct (c_readonly c); [reflexivity|].
  destruct n as [|n0 n']; [reflexivity|].
  rewrite parent_check_Pl. destruct (parent_check s (path_clean (n0 :: n'))) as [s1 o1]. unfold liftP at 1. cbn [fst snd].
  destruct o1; try reflexivity. apply fs_openfile_Pl.
Qed.

Lemma handle_write_all_Pl c s hd d :
  handle_write_all (plain_of c) (Pl c s) hd d = liftP3 c (handle_write_all c s hd d).
Proof.
  unfold handle_write_all. destruct (h_tf (hd_info hd) =? TypeDir); [reflexivity|].
  destruct (negb (fl_write (hd_flags hd))); [reflexivity|].
  destruct (hd_buf hd); [reflexivity|].
  rewrite stat_s_Pl. destruct (stat_s s (hd_path hd) false) as [s1 st]. unfold liftP at 1. cbn [fst snd].
  destruct st as [h| | |e]; try reflexivity.
  destruct (negb (h_size h =? 0)); [|reflexivity].
  rewrite read_path_Pl. destruct (read_path c s1 (hd_path hd)) as [s2 [x| | |e]]; reflexivity.
Qed.

(* the flush of a handle: the one place where a call of the filesystem level encodes content *)
Lemma handle_close_Pl c s hd buf :
  handle_close (plain_of c) (Pl c s) hd buf = liftP c (handle_close c s hd buf).
Proof.
  unfold handle_close. destruct buf as [b|]; [|reflexivity].
  change (clk (Pl c s)) with (clk s). apply update_op_eff.
Qed.

Lemma write_close_Pl c s hd d force :
  write_close (plain_of c) (Pl c s) hd d force = liftP c (write_close c s hd d force).
Proof.
  unfold write_close.
  assert (K : match handle_write_all (plain_of c) (Pl c s) hd d with
              | (s0, OOk, Some b) => handle_close (plain_of c) s0 hd (Some b)
              | (s0, e, _) => (s0, e) end =
              liftP c match handle_write_all c s hd d with
              | (s0, OOk, Some b) => handle_close c s0 hd (Some b)
              | (s0, e, _) => (s0, e) end).
  { rewrite handle_write_all_Pl.
    destruct (handle_write_all c s hd d) as [[s1 o] b]. unfold liftP3. cbn [fst snd].
    destruct o; try reflexivity. destruct b as [b|]; [|reflexivity].
    apply handle_close_Pl. }
  destruct d; [destruct force; [exact K|]|exact K].
  apply handle_close_Pl.
Qed.

(* ---------- Initialize *)
Lemma fs_initialize_Pl c s rootp : fs_initialize (plain_of c) (Pl c s) rootp = liftP c (fs_initialize c s rootp).
Proof.
  unfold fs_initialize. change (db (Pl c s)) with (db s).
  destruct (get_root_path (db s)) as [p rt]. change (set_db (Pl c s) p) with (Pl c (set_db s p)).
  destruct rt; [reflexivity|].
  change (c_readonly (plain_of c)) with (c_readonly c).
  assert (K : forall s0,
     (if c_readonly c then (Pl c s0, OPerm) else
      match mknode (plain_of c) (Pl c s0) true rootp 511 true [] true with
      | (s1, OOk) => let '(p1, _) := get_root_path (db s1) in (set_db s1 p1, OOk)
      | x => x end) =
     liftP c (if c_readonly c then (s0, OPerm) else
      match mknode c s0 true rootp 511 true [] true with
      | (s1, OOk) => let '(p1, _) := get_root_path (db s1) in (set_db s1 p1, OOk)
      | x => x end)).
  { intro s0. destruct (c_readonly c); [reflexivity|]. rewrite mknode_Pl.
    destruct (mknode c s0 true rootp 511 true [] true) as [s1 o1]. unfold liftP at 1. cbn [fst snd].
    destruct o1; try reflexivity. change (db (Pl c s1)) with (db s1). destruct (get_root_path (db s1)). reflexivity. }
  set (s0 := set_db s p). change (tp (Pl c s0)) with (efft c (tp s0)). change (db (Pl c s0)) with (db s0).
  destruct (tp s0) as [|i t] eqn:Et; [exact (K s0)|].
  change (efft c (i :: t)) with (effi c i :: efft c t).
  change (effi c i :: efft c t) with (efft c (i :: t)).
  pose proof (index_tape_eff c (i :: t) 0 0 None true false (db s0)) as E. cbn [option_map] in E. rewrite E.
  destruct (index_tape c (i :: t) 0 0 None true false (db s0)) as [p2 [u| | |e]].
  - destruct (get_root_path p2). reflexivity.
  - destruct (get_root_path p2) as [p3 [r1|]]; [reflexivity|exact (K (set_db s0 p3))].
  - destruct (get_root_path p2) as [p3 [r1|]]; [reflexivity|exact (K (set_db s0 p3))].
  - destruct (get_root_path p2) as [p3 [r1|]]; [reflexivity|exact (K (set_db s0 p3))].
Qed.

(* ---------- every call: NO hypothesis on the state or the environment *)
Theorem step_Pl c s k : step (plain_of c) (Pl c s) k = liftP c (step c s k).
Proof.
  destruct k; cbn [step].
  - apply fs_mkdir_Pl.
  - apply fs_mkdirall_Pl.
  - apply fs_remove_Pl.
  - apply fs_removeall_Pl.
  - apply fs_rename_Pl.
  - apply fs_update_meta_Pl.
  - apply fs_update_meta_Pl.
  - apply fs_update_meta_Pl.
  - rewrite fs_create_Pl.
    destruct (fs_create c s n) as [[s1 o] hd]. unfold liftP3. cbn [fst snd].
    destruct o; try reflexivity. destruct hd as [hd|]; [|reflexivity]. apply write_close_Pl.
  - rewrite fs_openfile_Pl.
    destruct (fs_openfile c s n o perm) as [[s1 o1] hd]. unfold liftP3. cbn [fst snd].
    destruct o1; try reflexivity. destruct hd as [hd|]; [|reflexivity]. apply write_close_Pl.
  - change (c_readonly (plain_of c)) with (c_readonly c). destruct (c_readonly c); [reflexivity|]. apply archive_op_eff.
  - apply update_op_eff.
  - apply delete_op_eff.
  - apply move_op_eff.
  - apply fs_initialize_Pl.
  - reflexivity.
  - reflexivity.
Qed.
