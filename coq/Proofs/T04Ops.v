(* T04 / operations with positions: the exact-effect lemmas of T02Ops.v / T02Create.v (Archive of one new entry,
   Update of one entry with new content) restated with the tape that results and the position the index records:
   the record is appended at the old end of the tape, and the row's (record, block) is the position of that end. *)
From Coq Require Import List NArith ZArith Bool Lia.
From Coq Require Import ZifyN ZifyBool.
Import ListNotations.
From STFS Require Import Str Db Tape Index Ops Fs Diff Norm TapeLemmas
  C01Str C01Db C01Inv C01Sim C01Tape C01Hdr C01Ops C01Ops2 C01Reads C01Fs T02Ns T02Db T02Ops T02Reads T02Calls T02Create
  T04Def T04Tape.
Open Scope N_scope.

Section Ops.
Variable hr : bool.
Variable c : cfg.
Hypothesis HP : plain c.
Hypothesis Hrs : 0 < c_rs c.
Hypothesis Hro : c_readonly c = false.

Definition end_rec (s : sys) : N := fst (pos_of (c_rs c) (tape_blocks (tp s))).
Definition end_blk (s : sys) : N := snd (pos_of (c_rs c) (tape_blocks (tp s))).

(* ---------- one record: the position handed to indexHeader is the old end of the tape *)
Lemma append_one_pos s m F : Inv hr c s -> 0 < m_hb m -> hnames_ok hr (m_hdr m) ->
  (forall rec blk, index_header c rec blk (m_hdr m) false (db s) = (F rec blk, Ok tt) /\ In (rec, blk) (lks (rows (F rec blk)))) ->
  (forall rb, R (db s) rb -> hpre (db s) rb (m_hdr m)) ->
  append_and_index c s (last_indexed (db s) (c_rs c)) [m] [m_hdr m] false false =
    ({| tp := tp s ++ [TM m; TT]; db := F (end_rec s) (end_blk s); hbq := hbq s; encq := encq s; clk := clk s |}, OOk) /\
  Inv hr c {| tp := tp s ++ [TM m; TT]; db := F (end_rec s) (end_blk s); hbq := hbq s; encq := encq s; clk := clk s |}.
Proof.
  intros HI Hb HN HF Hpre.
  destruct (append_one hr c HP Hrs s m F HI Hb HN HF Hpre) as (rec0 & blk0 & E1 & HI').
  assert (K : append_and_index c s (last_indexed (db s) (c_rs c)) [m] [m_hdr m] false false =
    ({| tp := tp s ++ [TM m; TT]; db := F (end_rec s) (end_blk s); hbq := hbq s; encq := encq s; clk := clk s |}, OOk)).
  { destruct HI as [HL (rb & Hreb & HR) Hpos (pre & m0 & Etp & Hle & Hin)].
    unfold append_and_index. cbn [map app].
    assert (Eoff : off_of (c_rs c) (fst (last_indexed (db s) (c_rs c))) (snd (last_indexed (db s) (c_rs c))) = tape_blocks pre).
    { eapply last_indexed_max; [exact Hle|exact Hin|]. apply pos_of_roundtrip. exact Hrs. }
    rewrite Eoff.
    assert (Hpre0 : pos_items pre) by (rewrite Etp in Hpos; apply pos_items_app in Hpos; tauto).
    assert (Eidx : index_tape c (tp s ++ [TM m; TT]) (tape_blocks pre) 1 (Some [m_hdr m]) false false (db s)
                   = loop0 c (hd_of (mstarts [m] (tape_blocks (tp s)))) (db s)).
    { rewrite Etp. exact (live_replay c pre m0 [m] (db s) Hpre0). }
    rewrite Eidx. cbn [mstarts hd_of map fst snd loop0].
    destruct (HF (fst (pos_of (c_rs c) (tape_blocks (tp s)))) (snd (pos_of (c_rs c) (tape_blocks (tp s))))) as (EF & _).
    rewrite EF. reflexivity. }
  split; [exact K|].
  rewrite E1 in K. inversion K as [Edb]. exact HI'.
Qed.

(* ---------- Archive of one new entry (mknode) *)
Lemma mknode_pos s dir name perm : Inv hr c s -> hbok s -> good name -> cpre (db s) name ->
  exists s' m, mknode c s dir name perm false [] false = (s', OOk) /\ Inv hr c s' /\ hbok s' /\ clk s' = clk s /\
    tp s' = tp s ++ [TM m; TT] /\ m_hdr m = mknode_hdr c dir name [] perm (clk s) /\ m_data m = None /\
    db s' = with_rows (db s) (upsert_rows (rows (db s)) (new_row c dir name perm (clk s) (end_rec s) (end_blk s))).
Proof.
  intros HI Hhb G Hc. unfold mknode. rewrite Hro. unfold archive_op. cbn [archive_members f_hdr f_data].
  set (h := mknode_hdr c dir name [] perm (clk s)).
  assert (Esz : is_reg h && (0 <? h_size h) = false) by (cbn; apply andb_false_r).
  rewrite Esz.
  destruct (mk_member_spec s h None 0 Hhb) as (A & B & C & D & E).
  pose proof (mk_member_clk s h None 0) as Eclk.
  pose proof (mk_member_data s h None 0) as Edata.
  destruct (mk_member s h None 0) as [m s1]. cbn [fst snd] in *.
  destruct (mknode_hdr_ok hr c dir name perm (clk s) G) as (K1 & K2 & K3). fold h in K1, K2, K3.
  assert (HI1 : Inv hr c s1) by (eapply Inv_ext; eassumption).
  pose proof (iv_li hr c s1 HI1) as HL1.
  destruct (append_one_pos s1 m (fun rec blk => with_rows (db s1) (upsert_rows (rows (db s1)) (new_row c dir name perm (clk s) rec blk))) HI1 B)
    as (E1 & HI').
  { rewrite A. exact K1. }
  { intros rec blk. rewrite A. split.
    - apply (ih_create_exact hr c rec blk h (db s1) HP HL1 K1 K2 0 K3). reflexivity.
    - rewrite with_rows_rows. unfold lks. apply in_map_iff. eexists. split; [|apply upsert_rows_in]. reflexivity. }
  { intros rb HR. rewrite A. rewrite D in HR |- *.
    destruct Hc as [Hc|[Hc|Hc]].
    - right. right. split; [exact Hc|intros _; reflexivity].
    - right. left. exact Hc.
    - left. eapply R_nonroot; eassumption. }
  rewrite A in E1. rewrite <- D. rewrite E1.
  eexists _, m. split; [reflexivity|]. split; [exact HI'|]. split; [exact E|]. split; [exact Eclk|].
  cbn [tp db]. unfold end_rec, end_blk. rewrite C.
  split; [reflexivity|]. split; [exact A|]. split; [exact Edata|reflexivity].
Qed.

(* ---------- Update of one entry with new content (replace = true), as Close writes it *)
Lemma update_content_pos s h0 b d : Inv hr c s -> hbok s ->
  good (h_name h0) -> h_link h0 = [] -> is_reg h0 = true -> h_size h0 < 10 ^ 40 ->
  find_rows (rows (db s)) (h_name h0) = Some d ->
  exists s' m enc, update_op c s [{| f_hdr := h0; f_data := b |}] true true = (s', OOk) /\ Inv hr c s' /\ hbok s' /\
    tp s' = tp s ++ [TM m; TT] /\ m_hdr m = content_hdr h0 enc /\ m_data m = Some b /\
    db s' = with_rows (db s) (replace_row (h_name h0) []
              (row_of_hdr (end_rec s) (end_rec s) (end_blk s) (end_blk s)
                 (with_size_name (content_hdr h0 enc) (h_size h0) (h_name h0))) (rows (db s))).
Proof.
  intros HI Hhb G Hk Hreg Hsz Hf. unfold update_op. cbn [update_members f_hdr f_data].
  set (h1 := set_pax h0 (pax_del K_replaces_name (pax_set K_action V_update (pax_set K_version V_1 (h_pax h0))))).
  assert (Ec : is_reg h1 && true && ((0 <? h_size h1) || true) = true).
  { change (is_reg h1) with (is_reg h0). rewrite Hreg, orb_true_r. reflexivity. }
  rewrite Ec. unfold encode.
  destruct (pop_enc_spec s (h_size h1)) as (T1 & T2 & T3).
  destruct (pop_enc s (h_size h1)) as [enc s1]. cbn [fst snd] in *.
  rewrite (suffix_if_plain c _ _ HP).
  match goal with |- context [mk_member s1 ?h (Some b) enc] => change h with (content_hdr h0 enc) end.
  assert (Hhb1 : hbok s1) by (unfold hbok; rewrite T3; exact Hhb).
  destruct (mk_member_spec s1 (content_hdr h0 enc) (Some b) enc Hhb1) as (A & B & C & D & E).
  pose proof (mk_member_data s1 (content_hdr h0 enc) (Some b) enc) as Edata.
  destruct (mk_member s1 (content_hdr h0 enc) (Some b) enc) as [m s2]. cbn [fst snd] in *.
  assert (HI2 : Inv hr c s2) by (eapply Inv_ext; [| |exact HI]; congruence).
  pose proof (iv_li hr c s2 HI2) as HL2.
  set (px := pax_set K_replaces_content V_true (pax_set K_usize (decimal (h_size h0)) (upd_pax (h_pax h0)))).
  assert (Epx : h_pax (content_hdr h0 enc) = px) by reflexivity.
  assert (Y3 : usize_ok px) by (unfold px; apply usize_ok_set; [reflexivity|apply usize_ok_put]).
  assert (Y4 : pax_get K_action px = Some V_update) by (unfold px, upd_pax; paxs; reflexivity).
  assert (Y5 : pax_get K_version px = Some V_1) by (unfold px, upd_pax; paxs; reflexivity).
  assert (Y6 : pax_get K_replaces_name px = None) by (unfold px, upd_pax; paxs; reflexivity).
  assert (Y7 : pax_get K_replaces_content px = Some V_true) by (unfold px, upd_pax; paxs; reflexivity).
  assert (Y8 : pax_get K_usize px = Some (decimal (h_size h0))) by (unfold px, upd_pax; paxs; reflexivity).
  destruct (upd_hdr_ok hr (content_hdr h0 enc) px G Hk Y3 Y4 Y5 Y6 Epx) as (X1 & X2 & X3 & X4).
  assert (Hus : usz (content_hdr h0 enc) = Some (h_size h0)).
  { unfold usz. rewrite Epx, Y8. rewrite (undecimal_decimal_eq _ Hsz). reflexivity. }
  assert (Hlive : live_name (rows (db s)) (h_name h0) = true) by (eapply find_live; exact Hf).
  assert (Edb2 : db s2 = db s) by congruence.
  assert (Etp2 : tp s2 = tp s) by congruence.
  destruct (append_one_pos s2 m (fun rec blk => with_rows (db s2) (replace_row (h_name h0) []
              (row_of_hdr rec rec blk blk (with_size_name (content_hdr h0 enc) (h_size h0) (h_name h0))) (rows (db s2)))) HI2 B)
    as (E1 & HI').
  { rewrite A. exact X1. }
  { intros rec blk. rewrite A. split.
    - pose proof (ih_update_exact hr c rec blk (content_hdr h0 enc) (db s2) HP HL2 X1 X2 (h_size h0) d X3 X4 Hus) as K.
      cbn zeta in K. rewrite Epx, Y7 in K. change (negb (eqb_str V_true V_true)) with false in K. cbn iota in K.
      apply K. rewrite Edb2. exact Hf.
    - rewrite with_rows_rows.
      apply (stamped_replace (h_name h0) (row_of_hdr rec rec blk blk (with_size_name (content_hdr h0 enc) (h_size h0) (h_name h0)))).
      + apply HL2.
      + rewrite Edb2. apply live_name_has. exact Hlive. }
  { intros rb HR. rewrite A. rewrite Edb2 in HR |- *.
    destruct (eqb_str (h_name h0) [slash]) eqn:En.
    - apply eqb_str_eq in En. right. right. split; [exact En|intros _; exact X4].
    - apply eqb_str_neq in En. left. eapply R_nonroot; [exact HR|].
      destruct (live_name_row _ _ Hlive) as (x & Hx & _ & Ex). exists x. split; [exact Hx|congruence]. }
  rewrite A in E1. rewrite <- Edb2. rewrite E1.
  eexists _, m, enc. split; [reflexivity|]. split; [exact HI'|]. split; [exact E|].
  cbn [tp db]. unfold end_rec, end_blk. rewrite Etp2.
  split; [reflexivity|]. split; [exact A|]. split; [exact Edata|reflexivity].
Qed.
End Ops.
