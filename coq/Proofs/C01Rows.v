(* C01: after any history of filesystem-level calls with absolute names, starting with
   Initialize "/", the rows of a rebuild of the tape are the live rows with the leading slash
   stripped (same order, same positions, tombstones included).

   HYPOTHESES ADDED to the statement proposed in TASK.md (the unrestricted statement is FALSE:
   see Proofs/C01Counter.v for machine-checked counterexamples to each of (a), (b), (c)):
   (a) plain configuration: c_csuf c = [] and c_esuf c = []
       (with a suffix "x", CreateFile "/a/x" stores "/a/" live but "a" on rebuild);
   (b) [hb_ok] every header-block count supplied by the environment is >= 1
       (zero-block members make several members share one start block; the replay from
        the last indexed position then substitutes the wrong headers);
   (c) [safe] no Reopen AFTER a Remove / RemoveAll of the root
       (after Remove "/"; Reopen the cached root of the live index becomes "", and a later
        MkdirAll "/" appends a second row where the rebuild revives the tombstone in place).
       Removing the root is allowed as long as no Reopen follows; Reopen is allowed as long as the root
       was never removed;
   (c') [rename_ok] no Rename onto the root (cleaned destination "/").  No counterexample is known for
       this one; such a rename can only succeed after the root and everything below it was removed,
       and excluding it keeps the root row from being overwritten by a Move record.
   No other restriction: Rename between arbitrary (even nested) names, repeated Initialize, removal and
   re-creation of entries, arbitrary environment values for encoded sizes and clocks are all covered.
   [C01_rows_norm_root_kept] is the same statement under the simpler hypothesis [call_ok]
   (no Remove / RemoveAll of the root and no Rename onto it, Reopen anywhere). *)
From Coq Require Import List NArith ZArith Bool Lia.
From Coq Require Import ZifyN ZifyBool.
Import ListNotations.
From STFS Require Import Str Db Tape Index Ops Fs Diff Norm TapeLemmas
  C01Str C01Db C01Inv C01Sim C01Tape C01Hdr C01Ops C01Ops2 C01Reads C01Fs C01Fs2.
Open Scope N_scope.

Definition hb_ok (ke : call * env) : bool := forallb (fun x => 0 <? x) (ev_hb (snd ke)).

(* [safe hr r]: no Reopen occurs in r once the root has been removed ([hr] = root known to be kept so far) *)
Fixpoint safe (hr : bool) (r : list (call * env)) : bool :=
  match r with
  | [] => true
  | (k, _) :: r' => (if is_reopen k then hr else true) && safe (hr && root_kept k) r'
  end.

Section Main.
Variable c : cfg.
Hypothesis HP : plain c.
Hypothesis Hrs : 0 < c_rs c.
Hypothesis Hro : c_readonly c = false.

Lemma hbok_env s e : forallb (fun x => 0 <? x) (ev_hb e) = true -> hbok (with_env s e).
Proof.
  intro H. unfold hbok, with_env. cbn [hbq]. apply Forall_forall. intros x Hx.
  rewrite forallb_forall in H. specialize (H x Hx). lia.
Qed.

(* the first call: Initialize "/" on the empty system *)
Lemma init_mknode s : tp s = [] -> db s = p_empty -> hbok s ->
  exists m r0 s1, mknode c s true [slash] 511 true [] true =
    ({| tp := [TM m; TT]; db := {| rows := [r0]; root := []; root_empty := false |};
        hbq := hbq s1; encq := encq s1; clk := clk s1 |}, OOk) /\ hbok s1 /\ 0 < m_hb m /\
    r0 = row_of_hdr (fst (pos_of (c_rs c) 0)) (fst (pos_of (c_rs c) 0)) (snd (pos_of (c_rs c) 0)) (snd (pos_of (c_rs c) 0)) (m_hdr m) /\
    m_hdr m = mknode_hdr c true [slash] [] 511 (clk s).
Proof.
  intros T1 T2 Hb. unfold mknode. rewrite Hro. unfold archive_op. cbn [archive_members f_hdr f_data].
  set (h := mknode_hdr c true [slash] [] 511 (clk s)).
  assert (Esz : is_reg h && (0 <? h_size h) = false) by reflexivity. rewrite Esz.
  destruct (mk_member_spec s h None 0 Hb) as (A & B & U1 & U2 & U3).
  destruct (mk_member s h None 0) as [m s1]. cbn [fst snd] in *.
  exists m, (row_of_hdr (fst (pos_of (c_rs c) 0)) (fst (pos_of (c_rs c) 0)) (snd (pos_of (c_rs c) 0)) (snd (pos_of (c_rs c) 0)) h), s1.
  split; [|rewrite A; repeat split; assumption].
  unfold append_and_index. rewrite U1, T1, U2, T2. cbn [app map fst snd].
  unfold index_tape.
  replace (off_of (c_rs c) 0 0) with 0 by (unfold off_of; lia).
  rewrite members_from_zero. cbn [with_starts ms_of flat_map snd fst app].
  change (purge p_empty) with p_empty.
  assert (EL : index_loop c [(0, m)] 0 0 (Some [h]) true p_empty =
     ({| rows := [row_of_hdr (fst (pos_of (c_rs c) 0)) (fst (pos_of (c_rs c) 0)) (snd (pos_of (c_rs c) 0)) (snd (pos_of (c_rs c) 0)) h];
         root := []; root_empty := false |}, Ok tt)).
  { cbn [index_loop]. change (0 <? 0)%nat with false. cbn iota. change (nth_error [h] (0 - 0)) with (Some h). cbn iota.
    destruct (pos_of (c_rs c) 0) as [rec blk]. cbn [fst snd]. reflexivity. }
  rewrite EL. reflexivity.
Qed.

Lemma init_eq e : forallb (fun x => 0 <? x) (ev_hb e) = true ->
  exists m r0 s1, step c (with_env init_sys e) (CInitialize [slash]) =
    ({| tp := [TM m; TT]; db := {| rows := [r0]; root := [slash]; root_empty := false |};
        hbq := hbq s1; encq := encq s1; clk := clk s1 |}, OOk) /\ hbok s1 /\ 0 < m_hb m /\
    r0 = row_of_hdr (fst (pos_of (c_rs c) 0)) (fst (pos_of (c_rs c) 0)) (snd (pos_of (c_rs c) 0)) (snd (pos_of (c_rs c) 0)) (m_hdr m) /\
    m_hdr m = mknode_hdr c true [slash] [] 511 (ev_now e).
Proof.
  intro Hhb. cbn [step]. unfold fs_initialize.
  set (s0 := with_env init_sys e).
  assert (Hb0 : hbok (set_db s0 p_empty)) by (apply (hbok_env init_sys e Hhb)).
  destruct (init_mknode (set_db s0 p_empty) eq_refl eq_refl Hb0) as (m & r0 & s1 & E & A & B & C & D).
  exists m, r0, s1.
  change (get_root_path (db s0)) with (p_empty, @None str). cbn iota beta.
  change (tp (set_db s0 p_empty)) with (@nil titem). cbn iota. rewrite Hro. rewrite E.
  split; [|repeat split; assumption]. subst r0. rewrite D. reflexivity.
Qed.

Lemma init_ok e : forallb (fun x => 0 <? x) (ev_hb e) = true ->
  OKs true c (fst (step c (with_env init_sys e) (CInitialize [slash]))).
Proof.
  intro Hhb. destruct (init_eq e Hhb) as (m & r0 & s1 & E & A & B & C & D). rewrite E. cbn [fst].
  set (h := mknode_hdr c true [slash] [] 511 (ev_now e)) in *.
  destruct (pos_of (c_rs c) 0) as [rec blk] eqn:Epos. cbn [fst snd] in C. rewrite D in C.
  split; [|exact A]. split; cbn [tp db].
  - split; [reflexivity|reflexivity|]. cbn [rows]. split.
    + constructor; [|constructor]. subst r0. split; [apply good_root|]. split; [reflexivity|exact I].
    + subst r0. cbn. constructor; [intros []|constructor].
    + intros _. exists r0, []. subst r0. repeat split; reflexivity.
  - exists {| rows := [norm_row r0]; root := []; root_empty := false |}. split; [|split; [reflexivity|reflexivity|]].
    2:{ right. constructor; [subst r0; reflexivity|constructor]. }
    rewrite rebuild_loop. cbn [with_starts ms_of flat_map snd fst app hd_of map loop0]. rewrite D, Epos. cbn [fst snd].
    subst r0. reflexivity.
  - constructor; [cbn; lia|]. constructor; [cbn; lia|constructor].
  - exists [], m. split; [reflexivity|]. change (tape_blocks []) with 0.
    pose proof (pos_of_roundtrip (c_rs c) 0 Hrs) as Ert. rewrite Epos in Ert |- *. cbn [fst snd] in Ert.
    split.
    + intros y [<-|[]]. subst r0. cbn [fst snd rows row_of_hdr r_lkrec r_lkblk]. lia.
    + left. subst r0. reflexivity.
Qed.

Lemma OKs_down hr b s : OKs hr c s -> OKs (hr && b) c s.
Proof.
  intros [A B]. destruct hr, b; cbn; split; try assumption; eapply Inv_weaken; exact A.
Qed.

Lemma final_ok r : forall hr s, OKs hr c s ->
  forallb (fun ke => fs_call (fst ke)) r = true ->
  forallb (fun ke => rename_ok (fst ke)) r = true ->
  forallb hb_ok r = true ->
  safe hr r = true ->
  exists hr', OKs hr' c (final c s r).
Proof.
  induction r as [|[k e] r IH]; intros hr s HO H1 H2 H3 H4; cbn [final]; [exists hr; exact HO|].
  cbn [forallb fst safe] in H1, H2, H3, H4.
  apply andb_true_iff in H1 as [K1 H1]. apply andb_true_iff in H2 as [K2 H2]. apply andb_true_iff in H3 as [K3 H3].
  apply andb_true_iff in H4 as [K4 H4].
  assert (HO' : OKs (hr && root_kept k) c (with_env s e)).
  { apply OKs_down. split; [eapply Inv_ext; [| |exact (proj1 HO)]; reflexivity|apply hbok_env; exact K3]. }
  destruct (step_ok (hr && root_kept k) c HP Hrs Hro (with_env s e) k HO' K1 K2) as (s' & o & E & A).
  { intro K. apply andb_true_iff in K. apply K. }
  { intro K. rewrite K in K4. rewrite K4. destruct k; try discriminate. reflexivity. }
  rewrite E. cbn [fst]. eapply IH; eassumption.
Qed.
End Main.

Lemma call_ok_safe r : forallb (fun ke => call_ok (fst ke)) r = true ->
  safe true r = true /\ forallb (fun ke => rename_ok (fst ke)) r = true.
Proof.
  induction r as [|[k e] r IH]; intro H; cbn [safe forallb fst] in *; [split; reflexivity|].
  apply andb_true_iff in H as [K H]. unfold call_ok in K. apply andb_true_iff in K as [K1 K2].
  destruct (IH H) as (A & B). rewrite K1, K2, B. cbn [andb]. rewrite A.
  split; [destruct (is_reopen k); reflexivity|reflexivity].
Qed.

Theorem C01_rows_norm : forall c e r,
  0 < c_rs c -> c_readonly c = false ->
  c_csuf c = [] -> c_esuf c = [] ->                                     (* added (a) *)
  forallb hb_ok ((CInitialize [slash], e) :: r) = true ->                (* added (b) *)
  safe true r = true ->                                                  (* added (c) *)
  forallb (fun ke => rename_ok (fst ke)) r = true ->                     (* added (c') *)
  forallb (fun ke => fs_call (fst ke)) r = true ->
  let s := final c init_sys ((CInitialize [slash], e) :: r) in
  exists p, rebuild c (tp s) = (p, Ok tt) /\ rows p = map norm_row (rows (db s)).
Proof.
  intros c e r Hrs Hro Hc He Hhb Hsafe Hren Hfs. cbn zeta. cbn [final].
  cbn [forallb] in Hhb. apply andb_true_iff in Hhb as [Hb0 Hb].
  assert (HP : plain c) by (split; assumption).
  pose proof (init_ok c Hrs Hro e Hb0) as H0.
  destruct (final_ok c HP Hrs Hro r true _ H0 Hfs Hren Hb Hsafe) as (hr' & HI & _).
  destruct (iv_reb hr' c _ HI) as (rb & E & HR). exists rb. split; [exact E|]. apply HR.
Qed.

(* the same under the simpler side condition: the root is never removed or renamed onto *)
Corollary C01_rows_norm_root_kept : forall c e r,
  0 < c_rs c -> c_readonly c = false ->
  c_csuf c = [] -> c_esuf c = [] ->
  forallb hb_ok ((CInitialize [slash], e) :: r) = true ->
  forallb (fun ke => call_ok (fst ke)) r = true ->
  forallb (fun ke => fs_call (fst ke)) r = true ->
  let s := final c init_sys ((CInitialize [slash], e) :: r) in
  exists p, rebuild c (tp s) = (p, Ok tt) /\ rows p = map norm_row (rows (db s)).
Proof.
  intros c e r Hrs Hro Hc He Hhb Hok Hfs. destruct (call_ok_safe r Hok) as (A & B).
  apply C01_rows_norm; assumption.
Qed.

Print Assumptions C01_rows_norm.
