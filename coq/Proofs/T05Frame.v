(* T05 / frame for invariants that do not look at the index: a predicate on states that is insensitive to
   the index (and its root cache) and is preserved by the three write paths (Archive, Update, and the
   plain-member archive of Delete/Move) is preserved by every call and every history whose environments
   keep it.  Same plan as Proofs/C04Fs.v [Frame], whose invariants may not look at the oracle queues. *)
From Coq Require Import List NArith ZArith Bool Lia.
Import ListNotations.
From STFS Require Import Str Db Tape Index Ops Fs Diff.
Open Scope N_scope.

(* only the index differs *)
Definition silent (s s' : sys) : Prop := tp s' = tp s /\ hbq s' = hbq s /\ encq s' = encq s /\ clk s' = clk s.

Lemma silent_refl s : silent s s.
Proof. repeat split. Qed.
Lemma silent_trans a b c : silent a b -> silent b c -> silent a c.
Proof. intros [A1 [A2 [A3 A4]]] [B1 [B2 [B3 B4]]]. repeat split; congruence. Qed.
Lemma silent_set_db s p : silent s (set_db s p).
Proof. repeat split. Qed.

Lemma stat_s_silent s n b : silent s (fst (stat_s s n b)).
Proof. unfold stat_s. destruct (inv_stat (db s) n b). apply silent_set_db. Qed.

Lemma parent_check_silent s n : silent s (fst (parent_check s n)).
Proof.
  unfold parent_check. pose proof (stat_s_silent s (path_dir n) false) as H.
  destruct (stat_s s (path_dir n) false) as [s1 [h| | |e]]; cbn [fst] in *; try assumption.
  destruct (h_tf h =? TypeDir); assumption.
Qed.

Lemma read_path_silent c s p : silent s (fst (read_path c s p)).
Proof.
  unfold read_path.
  destruct (get_header (db s) (trim_suffix [slash] p)) as [p1 [d| | |e]]; cbn [fst].
  - destruct (fetch_at c (tp s) (r_rec d) (r_blk d)); apply silent_set_db.
  - destruct (get_header p1 (trim_suffix [slash] p ++ [slash])) as [p2 [d| | |e]]; cbn [fst]; try apply silent_set_db.
    destruct (fetch_at c (tp s) (r_rec d) (r_blk d)); apply silent_set_db.
  - apply silent_set_db.
  - apply silent_set_db.
Qed.

Lemma handle_write_all_silent c s hd d : silent s (fst (fst (handle_write_all c s hd d))).
Proof.
  unfold handle_write_all. destruct (h_tf (hd_info hd) =? TypeDir); [apply silent_refl|].
  destruct (negb (fl_write (hd_flags hd))); [apply silent_refl|].
  destruct (hd_buf hd); [apply silent_refl|].
  pose proof (stat_s_silent s (hd_path hd) false) as H1. destruct (stat_s s (hd_path hd) false) as [s1 st]; cbn [fst] in H1.
  destruct st as [h| | |e]; cbn [fst]; try assumption.
  destruct (negb (h_size h =? 0)); [|cbn; assumption].
  pose proof (read_path_silent c s1 (hd_path hd)) as H2. destruct (read_path c s1 (hd_path hd)) as [s2 [x| | |e]]; cbn [fst] in *;
    eapply silent_trans; eassumption.
Qed.

Section Frame.
Variable c : cfg.
Variable Inv : sys -> Prop.
Hypothesis Inv_silent : forall s s', silent s s' -> Inv s -> Inv s'.
Hypothesis Inv_archive : forall s fs ow ini, Inv s -> Inv (fst (archive_op c s fs ow ini)).
Hypothesis Inv_update : forall s fs r k, Inv s -> Inv (fst (update_op c s fs r k)).
Hypothesis Inv_plain : forall s hs last (o i : bool), Inv s ->
  Inv (fst (let '(ms, s1) := plain_members s hs in append_and_index c s1 last ms hs o i)).

Ltac fin :=
  cbn [fst snd];
  first [ assumption
        | match goal with HI : Inv ?s |- Inv ?s' => apply (Inv_silent s s'); [repeat split; reflexivity|exact HI] end ].

Lemma plain_tail_Inv s p hs last : Inv s ->
  Inv (fst (let '(ms, s1) := plain_members (set_db s p) hs in append_and_index c s1 last ms hs false false)).
Proof. intro HI. apply Inv_plain. apply (Inv_silent s); [apply silent_set_db|exact HI]. Qed.

Lemma delete_op_Inv s n : Inv s -> Inv (fst (delete_op c s n)).
Proof.
  intro HI. unfold delete_op.
  destruct (lookup_entry (db s) n) as [p [r| | |e]]; try fin.
  destruct ((r_tf r =? TypeDir) && eqb_str (r_link r) []).
  - destruct (get_children p n) as [p' kids]. apply plain_tail_Inv; exact HI.
  - apply plain_tail_Inv; exact HI.
Qed.

Lemma move_op_Inv s a b : Inv s -> Inv (fst (move_op c s a b)).
Proof.
  intro HI. unfold move_op. destruct (eqb_str a b); [fin|].
  destruct (lookup_entry (db s) a) as [p [r| | |e]]; try fin.
  destruct (eqb_str a (if is_abs b && negb (is_abs (r_name r)) then trim_prefix [slash] b else b)); [fin|].
  destruct (r_tf r =? TypeDir).
  - destruct (get_children p a) as [p' kids]. apply plain_tail_Inv; exact HI.
  - apply plain_tail_Inv; exact HI.
Qed.

Lemma mknode_Inv s d n perm o l i : Inv s -> Inv (fst (mknode c s d n perm o l i)).
Proof. intro HI. unfold mknode. destruct (c_readonly c); [fin|apply Inv_archive; exact HI]. Qed.

Ltac thr_step :=
  match goal with
  | HI : Inv ?s |- context [stat_s ?s ?n ?b] =>
      let E := fresh "E" in let HI' := fresh "HI" in
      pose proof (stat_s_silent s n b) as E; destruct (stat_s s n b) as [? [?| | |?]]; cbn [fst] in E;
      pose proof (Inv_silent _ _ E HI) as HI'; clear E; cbv beta iota zeta
  | HI : Inv ?s |- context [parent_check ?s ?n] =>
      let E := fresh "E" in let HI' := fresh "HI" in
      pose proof (parent_check_silent s n) as E; destruct (parent_check s n) as [? []]; cbn [fst] in E;
      pose proof (Inv_silent _ _ E HI) as HI'; clear E; cbv beta iota zeta
  | HI : Inv ?s |- context [mknode c ?s ?d ?n ?p ?o ?l ?i] =>
      let HI' := fresh "HI" in
      pose proof (mknode_Inv s d n p o l i HI) as HI'; destruct (mknode c s d n p o l i) as [? []]; cbn [fst] in HI';
      cbv beta iota zeta
  | HI : Inv ?s |- context [delete_op c ?s ?n] =>
      let HI' := fresh "HI" in
      pose proof (delete_op_Inv s n HI) as HI'; destruct (delete_op c s n) as [? []]; cbn [fst] in HI';
      cbv beta iota zeta
  | HI : Inv ?s |- context [move_op c ?s ?a ?b] =>
      let HI' := fresh "HI" in
      pose proof (move_op_Inv s a b HI) as HI'; destruct (move_op c s a b) as [? ?]; cbn [fst] in HI';
      cbv beta iota zeta
  | HI : Inv ?s |- context [update_op c ?s ?fs ?r ?k] =>
      let HI' := fresh "HI" in
      pose proof (Inv_update s fs r k HI) as HI'; destruct (update_op c s fs r k) as [? ?]; cbn [fst] in HI';
      cbv beta iota zeta
  | |- context [inv_list ?p ?n ?l] =>
      destruct (inv_list p n l) as [? [[|? ?]| | |?]]; cbv beta iota zeta
  | |- context [get_root_path ?p] =>
      destruct (get_root_path p) as [? [?|]]; cbv beta iota zeta
  | |- context [if ?b then _ else _] => destruct b; cbv beta iota zeta
  end.

Lemma fs_mkdir_Inv s n perm : Inv s -> Inv (fst (fs_mkdir c s n perm)).
Proof. intro HI. unfold fs_mkdir. repeat thr_step; fin. Qed.

Lemma mkdirall_loop_Inv parts : forall s cur first perm, Inv s -> Inv (fst (mkdirall_loop c s cur first parts perm)).
Proof.
  induction parts as [|part rest IH]; intros s cur first perm HI; cbn [mkdirall_loop]; [fin|].
  set (cur' := if first && eqb_str part [] then [slash] else match cur with [] => part | _ :: _ => path_join2 cur part end).
  clearbody cur'. cbv beta iota zeta.
  repeat (first [ match goal with HI : Inv ?s |- Inv (fst (mkdirall_loop c ?s _ _ _ _)) => apply IH; exact HI end
                | thr_step ]); fin.
Qed.

Lemma fs_mkdirall_Inv s n perm : Inv s -> Inv (fst (fs_mkdirall c s n perm)).
Proof. intro HI. unfold fs_mkdirall. destruct (c_readonly c); [fin|apply mkdirall_loop_Inv; exact HI]. Qed.

Lemma fs_remove_nl_Inv s n : Inv s -> Inv (fst (fs_remove_nl c s n)).
Proof.
  intro HI. unfold fs_remove_nl.
  repeat (first [ match goal with
                  | HI : Inv ?s |- Inv (fst (delete_op c ?s ?n)) => apply delete_op_Inv; exact HI
                  | HI : Inv ?s |- Inv (fst (delete_op c (set_db ?s ?p) ?n)) =>
                      apply delete_op_Inv; apply (Inv_silent s); [apply silent_set_db|exact HI]
                  end
                | thr_step ]); fin.
Qed.

Lemma fs_remove_Inv s n : Inv s -> Inv (fst (fs_remove c s n)).
Proof. intro HI. unfold fs_remove. destruct (c_readonly c); [fin|apply fs_remove_nl_Inv; exact HI]. Qed.

Lemma fs_removeall_Inv s n : Inv s -> Inv (fst (fs_removeall c s n)).
Proof. intro HI. unfold fs_removeall. repeat thr_step; fin. Qed.

Lemma fs_rename_Inv s a b : Inv s -> Inv (fst (fs_rename c s a b)).
Proof.
  intro HI. unfold fs_rename. destruct (c_readonly c); [fin|].
  destruct a as [|a0 a']; [fin|]. destruct b as [|b0 b']; [fin|].
  set (old := path_clean (a0 :: a')). set (new := path_clean (b0 :: b')). clearbody old new.
  cbv beta iota zeta.
  destruct (get_root_path (db s)) as [p [r|]]; [|fin].
  assert (HI0 : Inv (set_db s p)) by fin.
  set (s0 := set_db s p) in *. clearbody s0. clear HI.
  destruct (eqb_str r old || eqb_str (spelling r) (spelling old)); [fin|].
  repeat (first [ match goal with
                  | HI : Inv ?s |- Inv (fst (move_op c ?s ?a ?b)) => apply move_op_Inv; exact HI
                  | HI : Inv ?s |- context [fs_remove_nl c ?s ?n] =>
                      let HI' := fresh "HI" in
                      pose proof (fs_remove_nl_Inv s n HI) as HI'; destruct (fs_remove_nl c s n) as [? []]; cbn [fst] in HI';
                      cbv beta iota zeta
                  end
                | thr_step ]); fin.
Qed.

Lemma fs_update_meta_Inv s n f : Inv s -> Inv (fst (fs_update_meta c s n f)).
Proof.
  intro HI. unfold fs_update_meta. destruct (c_readonly c); [fin|].
  destruct n as [|n0 n']; [fin|]. set (name := path_clean (n0 :: n')). clearbody name. cbv beta iota zeta.
  repeat (first [ match goal with
                  | HI : Inv ?s |- Inv (fst (update_op c ?s _ _ _)) => apply Inv_update; exact HI
                  end
                | thr_step ]); fin.
Qed.

Lemma fs_openfile_Inv s n o perm : Inv s -> Inv (fst (fst (fs_openfile c s n o perm))).
Proof.
  intro HI. unfold fs_openfile. destruct n as [|n0 n']; [fin|]. set (name := path_clean (n0 :: n')). clearbody name.
  set (fl := decode_flags c o). clearbody fl. cbv beta iota zeta.
  repeat thr_step; fin.
Qed.

Lemma fs_create_Inv s n : Inv s -> Inv (fst (fst (fs_create c s n))).
Proof.
  intro HI. unfold fs_create. destruct (c_readonly c); [fin|].
  destruct n as [|n0 n']; [fin|].
  repeat (first [ match goal with
                  | HI : Inv ?s |- Inv (fst (fst (fs_openfile c ?s _ _ _))) => apply fs_openfile_Inv; exact HI
                  end
                | thr_step ]); fin.
Qed.

Lemma handle_close_Inv s hd b : Inv s -> Inv (fst (handle_close c s hd b)).
Proof. intro HI. unfold handle_close. destruct b; [apply Inv_update; exact HI|fin]. Qed.

Lemma write_close_Inv s hd d f : Inv s -> Inv (fst (write_close c s hd d f)).
Proof.
  intro HI. unfold write_close.
  assert (K : Inv (fst (match handle_write_all c s hd d with
      | (s0, OOk, Some b) => handle_close c s0 hd (Some b)
      | (s0, e, _) => (s0, e) end))).
  { pose proof (handle_write_all_silent c s hd d) as H. destruct (handle_write_all c s hd d) as [[s1 o] b]; cbn [fst] in H.
    pose proof (Inv_silent _ _ H HI) as HI1.
    destruct o; try fin. destruct b as [c0|]; [|fin]. apply handle_close_Inv; exact HI1. }
  destruct d; [destruct f; [exact K|apply handle_close_Inv; exact HI]|exact K].
Qed.

Lemma fs_initialize_Inv s r : Inv s -> Inv (fst (fs_initialize c s r)).
Proof.
  intro HI. unfold fs_initialize.
  destruct (get_root_path (db s)) as [p [rt|]]; [fin|].
  assert (HI0 : Inv (set_db s p)) by fin.
  set (s0 := set_db s p) in *. clearbody s0. clear HI.
  assert (K : forall s1, Inv s1 -> Inv (fst (
     if c_readonly c then (s1, OPerm) else
      match mknode c s1 true r 511 true [] true with
      | (s2, OOk) => let '(p1, _) := get_root_path (db s2) in (set_db s2 p1, OOk)
      | x => x end))).
  { intros s1 HI1. repeat thr_step; fin. }
  cbv beta iota zeta.
  destruct (tp s0) eqn:Et; [apply K; exact HI0|]. rewrite <- Et.
  destruct (index_tape c (tp s0) 0 0 None true false (db s0)) as [p2 [u| | |e]].
  - destruct (get_root_path p2) as [p3 rr]. fin.
  - destruct (get_root_path p2) as [p3 [r1|]]; [fin|]. apply K. fin.
  - destruct (get_root_path p2) as [p3 [r1|]]; [fin|]. apply K. fin.
  - destruct (get_root_path p2) as [p3 [r1|]]; [fin|]. apply K. fin.
Qed.

Theorem step_Inv s k : Inv s -> Inv (fst (step c s k)).
Proof.
  intro HI. destruct k; cbn [step].
  - apply fs_mkdir_Inv; exact HI.
  - apply fs_mkdirall_Inv; exact HI.
  - apply fs_remove_Inv; exact HI.
  - apply fs_removeall_Inv; exact HI.
  - apply fs_rename_Inv; exact HI.
  - apply fs_update_meta_Inv; exact HI.
  - apply fs_update_meta_Inv; exact HI.
  - apply fs_update_meta_Inv; exact HI.
  - pose proof (fs_create_Inv s n HI) as H. destruct (fs_create c s n) as [[s1 o] hd]; cbn [fst] in H.
    destruct o; try fin. destruct hd; [|fin]. apply write_close_Inv; exact H.
  - pose proof (fs_openfile_Inv s n o perm HI) as H. destruct (fs_openfile c s n o perm) as [[s1 o1] hd]; cbn [fst] in H.
    destruct o1; try fin. destruct hd; [|fin]. apply write_close_Inv; exact H.
  - destruct (c_readonly c); [fin|apply Inv_archive; exact HI].
  - apply Inv_update; exact HI.
  - apply delete_op_Inv; exact HI.
  - apply move_op_Inv; exact HI.
  - apply fs_initialize_Inv; exact HI.
  - fin.
  - fin.
Qed.

(* histories: the environment of each call must re-establish the invariant *)
Variable EnvOk : env -> Prop.
Hypothesis Inv_env : forall s e, EnvOk e -> Inv s -> Inv (with_env s e).

Theorem final_Inv h : forall s, Forall (fun ke => EnvOk (snd ke)) h -> Inv s -> Inv (final c s h).
Proof.
  induction h as [|[k e] r IH]; intros s HE HI; cbn [final]; [exact HI|].
  inversion HE as [|? ? He Hr]; subst. apply IH; [exact Hr|]. apply step_Inv. apply Inv_env; [exact He|exact HI].
Qed.

End Frame.
