(* T02 / corners where the implementation (model M1, tied to the Go code by the correspondence runs) differs from the
   reference filesystem of T02Ns.v, each as a compiled example; the theorems of T02Spec.v carry the hypothesis that
   excludes the corner.  ((1) and most of (2) are former corners that the repaired flush header removed, kept as positive examples.)  Each example runs the call on a state reached by filesystem calls from Initialize "/",
   and compares the live entries after the call with the reference result ([ns_eqb], [outc_eqb]). *)
From Coq Require Import String List NArith ZArith Bool.
Import ListNotations.
From STFS Require Import Str Db Tape Index Ops Fs Diff Norm C01Str T02Ns T02Test.
Open Scope string_scope.
Open Scope N_scope.

Definition agrees (c : cfg) (h : list (call * env)) (k : call) (now : Z) : bool :=
  check c (final c init_sys h) (e0 now) k.
Definition result_of (c : cfg) (h : list (call * env)) (k : call) (now : Z) (n : str) : option node :=
  lookup (abs (fst (step c (with_env (final c init_sys h) (e0 now)) k))) n.

Definition hroot : list (call * env) := [(CInitialize (s "/"), e0 1)].

(* (1) NOT a corner any more (it was: create_with_content_resets_owner, with the flush resetting the owner to 0:0):
       CreateFile with content by a process that is not uid 0 / gid 0 / "" / "".  The header written when the handle is
       flushed keeps owner, group and access / change time of the entry as it was when the handle was opened
       (Fs.flush_hdr), so the new file is owned by the creating process, as in the reference; its access and change
       time are 0, those of the header mknode wrote.  No theorem of T02Spec.v has a hypothesis on the identity. *)
Example create_with_content_keeps_owner :
  agrees tcfg hroot (CCreateFile (s "/f") [(1, 0, 10)]) 5 = true /\
  option_map (fun v => (n_uid v, n_gid v, n_uname v, n_gname v)) (result_of tcfg hroot (CCreateFile (s "/f") [(1, 0, 10)]) 5 (s "/f"))
    = Some (c_uid tcfg, c_gid tcfg, c_uname tcfg, c_gname tcfg) /\
  (c_uid tcfg, c_gid tcfg, c_uname tcfg, c_gname tcfg) = (7, 8, s "u", s "g") /\
  option_map (fun v => (n_size v, n_mtime v, n_atime v, n_ctime v)) (result_of tcfg hroot (CCreateFile (s "/f") [(1, 0, 10)]) 5 (s "/f"))
    = Some (10, 5%Z, 0%Z, 0%Z).
Proof. vm_compute. repeat split; reflexivity. Qed.
(* the same call agrees with the reference when nothing is written (the entry keeps the header of mknode) ... *)
Example create_empty_agrees : agrees tcfg hroot (CCreateFile (s "/f") []) 5 = true.
Proof. vm_compute. reflexivity. Qed.
(* ... and for the process identity 0 / 0 / "" / "" *)
Example create_with_content_agrees_for_root_identity : agrees rcfg hroot (CCreateFile (s "/f") [(1, 0, 10)]) 5 = true.
Proof. vm_compute. reflexivity. Qed.

(* (2) CreateFile on an EXISTING regular file.  With content (or on a non-empty file) this is NOT a corner any more (it
       was: create_existing_keeps_mtime, with the flush writing the modification time the handle read at open): the
       reference truncates, writes, keeps owner / group / access time and stamps the modification time, and so does the
       implementation (the flush stamps the clock, Fs.stamp_mtime).  Here the file was created by 7:8, then given to
       3:4 and the times 8 / 9: after CreateFile at time 50 the entry has the new size, the owner 3:4, access time 8
       and modification time 50.  ([T02_create_file], [T02_create_file_existing] in T02Spec.v.) *)
Definition hfile : list (call * env) :=
  hroot ++ [(CCreateFile (s "/f") [(1, 0, 10)], e0 2); (CChown (s "/f") 3 4, e0 3); (CChtimes (s "/f") 8%Z 9%Z, e0 4)].
Definition cols (v : node) := (n_size v, n_mtime v, n_atime v, n_ctime v, n_uid v, n_gid v, n_uname v, n_gname v).
Example create_existing_stamps_mtime :
  agrees tcfg hfile (CCreateFile (s "/f") [(2, 0, 20)]) 50 = true /\
  option_map cols (result_of tcfg hfile (CCreateFile (s "/f") [(2, 0, 20)]) 50 (s "/f"))
    = Some (20, 50%Z, 8%Z, 0%Z, 3, 4, s "u", s "g") /\
  option_map cols (lookup (fst (spec_create_file tcfg (abs (final tcfg init_sys hfile)) (s "/f") 20 50 (0, 0))) (s "/f"))
    = Some (20, 50%Z, 8%Z, 0%Z, 3, 4, s "u", s "g") /\
  (* the same for the identity 0/0/""/"" *)
  agrees rcfg hfile (CCreateFile (s "/f") [(2, 0, 20)]) 50 = true /\
  option_map cols (result_of rcfg hfile (CCreateFile (s "/f") [(2, 0, 20)]) 50 (s "/f"))
    = Some (20, 50%Z, 8%Z, 0%Z, 3, 4, [], []).
Proof. vm_compute. repeat split; reflexivity. Qed.
(* truncating a non-empty file without writing (d = []) flushes the empty buffer O_TRUNC made: size 0, stamped, agrees *)
Example create_existing_truncate_only_agrees :
  agrees tcfg hfile (CCreateFile (s "/f") []) 50 = true /\
  option_map cols (result_of tcfg hfile (CCreateFile (s "/f") []) 50 (s "/f"))
    = Some (0, 50%Z, 8%Z, 0%Z, 3, 4, s "u", s "g").
Proof. vm_compute. repeat split; reflexivity. Qed.
(* writing content to an existing EMPTY file agrees as well *)
Definition hempty : list (call * env) := hroot ++ [(CCreateFile (s "/g") [], e0 2)].
Example create_existing_empty_with_content_agrees :
  agrees tcfg hempty (CCreateFile (s "/g") [(2, 0, 20)]) 50 = true /\
  option_map (fun v => (n_size v, n_mtime v)) (result_of tcfg hempty (CCreateFile (s "/g") [(2, 0, 20)]) 50 (s "/g")) = Some (20, 50%Z).
Proof. vm_compute. repeat split; reflexivity. Qed.
(* THE REMAINING CORNER: an existing EMPTY file and nothing to write: the implementation does nothing at all (the handle
   has no buffer, Close flushes nothing, no record is written), the reference stamps the modification time.  Excluded
   by [create_pre]; [T02_create_file_existing_empty] in T02Spec.v. *)
Example create_existing_empty_is_noop :
  agrees tcfg hempty (CCreateFile (s "/g") []) 50 = false /\
  option_map n_mtime (result_of tcfg hempty (CCreateFile (s "/g") []) 50 (s "/g")) = Some 2%Z /\
  tp (fst (step tcfg (with_env (final tcfg init_sys hempty) (e0 50)) (CCreateFile (s "/g") []))) = tp (final tcfg init_sys hempty) /\
  agrees rcfg hempty (CCreateFile (s "/g") []) 50 = false /\
  option_map n_mtime (result_of rcfg hempty (CCreateFile (s "/g") []) 50 (s "/g")) = Some 2%Z.
Proof. vm_compute. repeat split; reflexivity. Qed.
(* the modification time is the ONLY difference there: with it put back, the reference's result is the implementation's *)
Example create_existing_empty_differs_in_mtime_only :
  let st := final tcfg init_sys hempty in
  let st' := fst (step tcfg (with_env st (e0 50)) (CCreateFile (s "/g") [])) in
  let cid := match lookup (abs st') (s "/g") with Some v => n_cid v | None => (0, 0) end in
  ns_eqb (abs st') (ns_upd (fst (spec_create_file tcfg (abs st) (s "/g") 0 50 cid)) (s "/g") (with_times 0 2)) = true.
Proof. vm_compute. reflexivity. Qed.

(* (3) the tree shape [closed] is a hypothesis, not a consequence of the C01 invariant: a state that is not a tree can be
       produced with the operations-level Archive (not a filesystem call), here an entry "/x/y/z" whose parent
       "/x/y" does not exist.  Remove "/x" then finds no DIRECT child of "/x", takes the directory for empty and
       deletes it together with everything that has the prefix "/x/" - the orphan included - where the reference
       refuses (not-empty).  Filesystem calls never produce such a state (each theorem of T02Spec.v re-establishes
       [closed]). *)
Definition orphan_hdr : hdr :=
  {| h_tf := TypeDir; h_name := s "/x/y/z"; h_link := []; h_size := 0; h_mode := 493; h_uid := 0; h_gid := 0;
     h_uname := []; h_gname := []; h_mtime := 3%Z; h_atime := 0%Z; h_ctime := 0%Z; h_pax := [] |}.
Definition horphan : list (call * env) :=
  hroot ++ [(CMkdir (s "/x") 493, e0 2); (CArchive [{| f_hdr := orphan_hdr; f_data := [] |}], e0 3)].
Example not_a_tree_remove_differs :
  closedb (abs (final tcfg init_sys horphan)) = false /\
  agrees tcfg horphan (CRemove (s "/x")) 9 = false /\
  snd (step tcfg (with_env (final tcfg init_sys horphan) (e0 9)) (CRemove (s "/x"))) = OOk /\
  snd (spec_remove (abs (final tcfg init_sys horphan)) (s "/x")) = ONotEmpty /\
  result_of tcfg horphan (CRemove (s "/x")) 9 (s "/x/y/z") = None.
Proof. vm_compute. repeat split; reflexivity. Qed.

(* (4) names: the theorems require cleaned absolute names ([good]); other spellings are first cleaned by the
       implementation (path_clean), e.g. Mkdir "/a/../b/" creates "/b". *)
Example uncleaned_name_is_cleaned :
  option_map n_tf (result_of tcfg hroot (CMkdir (s "/a/../b/") 493) 5 (s "/b")) = Some TypeDir.
Proof. vm_compute. reflexivity. Qed.

(* (5) Remove / RemoveAll of the root and Rename onto the root are excluded by hypothesis (as in the C01 theorem).
       Remove "/" on a root that has entries is refused with not-empty, as in the reference; RemoveAll "/" removes
       every entry including the root row, after which no name resolves. *)
Definition hdir : list (call * env) := hroot ++ [(CMkdir (s "/a") 493, e0 2)].
Example removeall_root_removes_root_entry :
  lookup (abs (fst (step tcfg (with_env (final tcfg init_sys hdir) (e0 9)) (CRemoveAll (s "/"))))) (s "/") = None /\
  snd (step tcfg (with_env (final tcfg init_sys hdir) (e0 9)) (CRemoveAll (s "/"))) = OOk.
Proof. vm_compute. split; reflexivity. Qed.

(* (6) kinds on Rename: the reference of T02Ns.v answers "exist" when the target exists with a different kind
       (file onto directory or directory onto file), which is what the implementation does; POSIX would answer
       EISDIR / ENOTDIR.  Recorded here because the outcome class differs from afero's OsFs although the namespace
       is unchanged in both. *)
Definition hkinds : list (call * env) := hroot ++ [(CMkdir (s "/d") 493, e0 2); (CCreateFile (s "/f") [], e0 3)].
Example rename_kind_mismatch_is_exist :
  snd (step tcfg (with_env (final tcfg init_sys hkinds) (e0 9)) (CRename (s "/f") (s "/d"))) = OExist /\
  snd (step tcfg (with_env (final tcfg init_sys hkinds) (e0 9)) (CRename (s "/d") (s "/f"))) = OExist.
Proof. vm_compute. split; reflexivity. Qed.
