(* T07 / history invariant, operation level: besides the C01 invariant [Inv true c s], the record list of
   the tape is well formed ([TW]) and its live-style replay from the empty index is exactly the live index
   ([TWs]).  The four operations (mknode, update, delete, move) preserve it; the proofs follow
   C01Ops.v / C01Ops2.v, with [append_ok] strengthened to [append_ok2]. *)
From Coq Require Import List NArith ZArith Bool Lia.
From Coq Require Import ZifyN ZifyBool.
Import ListNotations.
From STFS Require Import Str Db Tape Index Ops Fs Diff Prefix Replay Norm TapeLemmas
  C01Str C01Db C01Inv C01Sim C01Tape C01Hdr C01Ops C01Ops2 T07Look T07Core T07Sim.
Open Scope N_scope.

Definition hdrs (t : tape) : list (N * hdr) := hd_of (ms_of (with_starts t 0)).

Definition TWs (c : cfg) (s : sys) : Prop :=
  TW c (hdrs (tp s)) /\ loop0 c (hdrs (tp s)) p_live0 = (db s, Ok tt).

(* what the afero-level proofs thread through where C01 threads [hbok] *)
Definition HB (c : cfg) (s : sys) : Prop := hbok s /\ TWs c s.

Lemma TWs_ext c s s1 : tp s1 = tp s -> db s1 = db s -> TWs c s -> TWs c s1.
Proof. intros E1 E2 [A B]. split; rewrite ?E1, ?E2; assumption. Qed.

Lemma hdrs_extend t ms : hdrs (t ++ map TM ms ++ [TT]) = hdrs t ++ hd_of (mstarts ms (tape_blocks t)).
Proof.
  unfold hdrs. rewrite with_starts_app, ms_of_app. unfold hd_of at 1. rewrite map_app.
  fold (hd_of (ms_of (with_starts t 0))). rewrite ms_of_new. cbn [N.add]. reflexivity.
Qed.

Section Append2.
Variable c : cfg.
Hypothesis HP : plain c.
Hypothesis Hrs : 0 < c_rs c.
Variable Q : list hdr -> pstate -> Prop.
Hypothesis HS : forall rec blk h rest lv, LI true lv -> Q (h :: rest) lv ->
  exists lv', index_header c rec blk h false lv = (lv', Ok tt) /\ In (rec, blk) (lks (rows lv')) /\ Q rest lv'.
Hypothesis QW : forall h rest lv, Q (h :: rest) lv -> Wh h lv.

Lemma tw_of_Q : forall l lv, LI true lv -> Q (map snd l) lv -> twrun c l lv.
Proof.
  induction l as [|[st h] l IH]; intros lv HL HQ; cbn [twrun]; [exact I|]. cbn [map snd] in HQ.
  pose proof (QW _ _ _ HQ) as W. split; [exact W|].
  destruct (HS (fst (pos_of (c_rs c) st)) (snd (pos_of (c_rs c) st)) h (map snd l) lv HL HQ) as (lv' & E & _ & Q').
  exists lv'. split; [exact E|]. apply IH; [|exact Q'].
  destruct W as (HN & _). rewrite (index_header_live true c _ _ h lv HP HN) in E.
  eapply ih_body_LI; [exact HL|apply hsz_ok; exact HN|exact E].
Qed.

Lemma append_ok2 s ms : Inv true c s -> TWs c s -> ms <> [] -> Forall (fun m => 0 < m_hb m) ms ->
  Forall (hnames_ok true) (map m_hdr ms) -> Q (map m_hdr ms) (db s) ->
  (forall rb B, R (db s) rb -> lpre (hd_of (mstarts ms B)) (db s) rb) ->
  exists lv', append_and_index c s (last_indexed (db s) (c_rs c)) ms (map m_hdr ms) false false
      = ({| tp := tp s ++ map TM ms ++ [TT]; db := lv'; hbq := hbq s; encq := encq s; clk := clk s |}, OOk) /\
    Inv true c {| tp := tp s ++ map TM ms ++ [TT]; db := lv'; hbq := hbq s; encq := encq s; clk := clk s |} /\
    Q [] lv' /\
    TWs c {| tp := tp s ++ map TM ms ++ [TT]; db := lv'; hbq := hbq s; encq := encq s; clk := clk s |}.
Proof.
  intros HI [HT HG] Hne Hhb Hok HQ Hlp.
  destruct (append_ok true c HP Hrs Q HS s ms HI Hne Hhb Hok HQ Hlp) as (lv' & E1 & HI' & Q').
  exists lv'. split; [exact E1|]. split; [exact HI'|]. split; [exact Q'|].
  (* the replay of the new records into the live index *)
  assert (EL : loop0 c (hd_of (mstarts ms (tape_blocks (tp s)))) (db s) = (lv', Ok tt)).
  { destruct HI as [HL _ Hpos (pre & m & Etp & Hle & Hin)].
    unfold append_and_index in E1.
    replace (match ms with [] => [] | _ :: _ => [TT] end) with [TT] in E1 by (destruct ms; [contradiction|reflexivity]).
    replace (if false then 0%nat else 1%nat) with 1%nat in E1 by reflexivity.
    assert (Eoff : off_of (c_rs c) (fst (last_indexed (db s) (c_rs c))) (snd (last_indexed (db s) (c_rs c))) = tape_blocks pre).
    { eapply last_indexed_max; [exact Hle|exact Hin|]. apply pos_of_roundtrip. exact Hrs. }
    rewrite Eoff in E1.
    assert (Hpre : pos_items pre) by (rewrite Etp in Hpos; apply pos_items_app in Hpos; tauto).
    change (map TM ms ++ [TT]) with (new_items ms) in E1.
    assert (Eidx : index_tape c (tp s ++ new_items ms) (tape_blocks pre) 1 (Some (map m_hdr ms)) false false (db s)
                   = loop0 c (hd_of (mstarts ms (tape_blocks (tp s)))) (db s)).
    { rewrite Etp. apply live_replay. exact Hpre. }
    rewrite Eidx in E1.
    destruct (loop0 c (hd_of (mstarts ms (tape_blocks (tp s)))) (db s)) as [p r].
    inversion E1 as [[Ep Er]]. destruct r as [[]| | |e]; try discriminate. reflexivity. }
  split; cbn [tp db]; rewrite hdrs_extend.
  - destruct HT as (HT1 & st & h & l' & El & Hn & Ha). split.
    + apply twrun_app. split; [exact HT1|]. intros lv1 E. rewrite HG in E. inversion E; subst lv1.
      apply tw_of_Q; [apply HI|]. rewrite hd_of_mstarts_snd. exact HQ.
    + exists st, h, (l' ++ hd_of (mstarts ms (tape_blocks (tp s)))). rewrite El. split; [reflexivity|split; assumption].
  - rewrite loop0_app, HG. exact EL.
Qed.
End Append2.

Section Ops2.
Variable c : cfg.
Hypothesis HP : plain c.
Hypothesis Hrs : 0 < c_rs c.
Hypothesis Hro : c_readonly c = false.

Lemma Qcreate_W n h rest lv : Qcreate true n (h :: rest) lv -> Wh h lv.
Proof.
  destruct rest as [|h2 rest]; [|intros []]. intros (A & B & C & D). split; [exact A|]. split; [exact B|].
  intro K. rewrite C in K. discriminate.
Qed.

Lemma mknode_ok2 s dir name perm : Inv true c s -> HB c s -> good name -> cpre (db s) name ->
  exists s', mknode c s dir name perm false [] false = (s', OOk) /\ Inv true c s' /\ HB c s' /\
    live_name (rows (db s')) name = true.
Proof.
  intros HI [Hhb HT] G Hc. unfold mknode. rewrite Hro. unfold archive_op. cbn [archive_members f_hdr f_data].
  set (h := mknode_hdr c dir name [] perm (clk s)).
  assert (Esz : is_reg h && (0 <? h_size h) = false) by (cbn; apply andb_false_r).
  rewrite Esz.
  destruct (mk_member_spec s h None 0 Hhb) as (A & B & C & D & E).
  destruct (mk_member s h None 0) as [m s1]. cbn [fst snd] in *.
  destruct (mknode_hdr_ok true c dir name perm (clk s) G) as (K1 & K2 & K3). fold h in K1, K2, K3.
  assert (HI1 : Inv true c s1) by (eapply Inv_ext; eassumption).
  assert (HT1 : TWs c s1) by (eapply TWs_ext; eassumption).
  destruct (append_ok2 c HP Hrs (Qcreate true name) (Qcreate_step true c HP name) (Qcreate_W name) s1 [m] HI1 HT1 ltac:(discriminate))
    as (lv' & E1 & HI' & Q' & HT').
  { constructor; [exact B|constructor]. }
  { cbn [map]. rewrite A. constructor; [exact K1|constructor]. }
  { cbn [map]. rewrite A. exact (conj K1 (conj K2 (conj K3 eq_refl))). }
  { intros rb B0 HR. cbn. rewrite A. rewrite D in HR |- *.
    destruct Hc as [Hc|[Hc|Hc]].
    - right. right. split; [exact Hc|intros _; reflexivity].
    - right. left. exact Hc.
    - left. eapply R_nonroot; eassumption. }
  cbn [map] in E1. rewrite A in E1. rewrite <- D. rewrite E1.
  eexists. split; [reflexivity|]. split; [exact HI'|]. split; [split; [exact E|exact HT']|exact Q'].
Qed.

Lemma Qupdate_W h rest lv : Qupdate true (h :: rest) lv -> Wh h lv.
Proof.
  intros [HQ _]. inversion HQ as [|? ? (A & B & C & D & F) _]; subst. split; [exact A|]. split; [exact B|].
  intros _ o Ho. rewrite D in Ho. discriminate.
Qed.

Lemma update_ok2 s f replace skip : Inv true c s -> HB c s ->
  good (h_name (f_hdr f)) -> h_link (f_hdr f) = [] -> usize_ok (h_pax (f_hdr f)) ->
  live_name (rows (db s)) (h_name (f_hdr f)) = true ->
  exists s', update_op c s [f] replace skip = (s', OOk) /\ Inv true c s' /\ HB c s'.
Proof.
  intros HI [Hhb HT] G Hk Hu Hlive. unfold update_op.
  destruct (update_members_single true c HP s f replace skip Hhb G Hk Hu)
    as (m & s1 & -> & B & T1 & T2 & T3 & X1 & X2 & X3 & X4 & X5).
  assert (HI1 : Inv true c s1) by (eapply Inv_ext; eassumption).
  assert (HT1 : TWs c s1) by (eapply TWs_ext; eassumption).
  destruct (append_ok2 c HP Hrs (Qupdate true) (Qupdate_step true c HP Hrs) Qupdate_W s1 [m] HI1 HT1 ltac:(discriminate))
    as (lv' & E1 & HI' & _ & HT').
  { constructor; [exact B|constructor]. }
  { constructor; [exact X1|constructor]. }
  { split; [|cbn; lia]. constructor; [|constructor]. rewrite T2, X5. exact (conj X1 (conj X2 (conj X3 (conj X4 Hlive)))). }
  { intros rb B0 HR. cbn. rewrite T2 in HR |- *.
    destruct (eqb_str (h_name (f_hdr f)) [slash]) eqn:En.
    - apply eqb_str_eq in En. right. right. split; [congruence|intros _; exact X4].
    - apply eqb_str_neq in En. left. eapply R_nonroot; [exact HR|].
      destruct (live_name_row _ _ Hlive) as (x & Hx & _ & Ex). exists x. split; [exact Hx|congruence]. }
  cbn [map] in E1. rewrite <- T2. rewrite E1.
  eexists. split; [reflexivity|]. split; [exact HI'|split; [exact T3|exact HT']].
Qed.

(* ---------- Delete *)
Lemma Qdelete_W h rest lv : Qdelete true (h :: rest) lv -> Wh h lv.
Proof.
  intros [HQ _]. inversion HQ as [|? ? (A & B & C & D) _]; subst. split; [exact A|]. split; [exact B|].
  intro K. rewrite C in K. discriminate.
Qed.

Lemma delete_ok2 s name : Inv true c s -> HB c s -> good name -> (true = true -> name <> [slash]) ->
  exists s' o, delete_op c s name = (s', o) /\ Inv true c s' /\ HB c s'.
Proof.
  intros HI [Hhb HT] G Hn. pose proof (iv_li true c s HI) as HL. unfold delete_op.
  rewrite (lookup_entry_lv true (db s) name HL G).
  destruct (find_rows (rows (db s)) name) as [r|] eqn:Ef.
  2:{ eexists _, _. split; [reflexivity|]. rewrite set_db_same. split; [assumption|split; assumption]. }
  destruct (find_rows_some _ _ _ Ef) as (Hin & Hlive & Hrn).
  assert (Hrows : Forall rowok (rows (db s))) by apply HL.
  assert (KK : exists kids,
    (if (r_tf r =? TypeDir) && eqb_str (r_link r) [] then get_children (db s) name else (db s, [])) = (db s, kids) /\
    Forall (fun x => In x (rows (db s)) /\ kid_filter name x = true) kids /\ NoDup (map r_name kids)).
  { destruct ((r_tf r =? TypeDir) && eqb_str (r_link r) []).
    - rewrite (get_children_lv true (db s) name HL G). eexists. split; [reflexivity|]. split.
      + apply Forall_forall. intros x Hx. apply filter_In in Hx. exact Hx.
      + apply NoDup_map_filter. apply HL.
    - exists []. split; [reflexivity|]. split; constructor. }
  destruct KK as (kids & -> & Hkids & Hnd).
  rewrite delete_hdrs_eq. rewrite set_db_same.
  destruct (plain_members_spec (map del_hdr (r :: kids)) s Hhb) as (A & B & T1 & T2 & T3).
  destruct (plain_members s (map del_hdr (r :: kids))) as [ms s1]. cbn [fst snd] in *.
  assert (HI1 : Inv true c s1) by (eapply Inv_ext; eassumption).
  assert (HT1 : TWs c s1) by (eapply TWs_ext; eassumption).
  assert (HkidF : Forall (fun x => In x (rows (db s)) /\ rowok x /\ live x = true /\ r_name x <> name) kids).
  { apply Forall_forall. intros x Hx. rewrite Forall_forall in Hkids. destruct (Hkids x Hx) as (Hxin & Hxf).
    rewrite Forall_forall in Hrows. pose proof (Hrows x Hxin) as Hok.
    destruct (kid_filter_basic name x G Hxf) as (L1 & L3). exact (conj Hxin (conj Hok (conj L1 L3))). }
  assert (Hkid_nonroot : forall x, In x kids -> r_name x <> [slash]).
  { intros x Hx. rewrite Forall_forall in Hkids. destruct (Hkids x Hx) as (Hxin & Hxf).
    rewrite Forall_forall in HkidF. destruct (HkidF x Hx) as (_ & Hok & _ & Hne).
    destruct (eqb_str name [slash]) eqn:En.
    - apply eqb_str_eq in En. congruence.
    - apply eqb_str_neq in En. destruct (kid_filter_facts name x G En (proj1 Hok) Hxf) as (_ & L2 & _).
      eapply nonroot_of_prefix; [|exact L2]. apply good_nonempty. exact G. }
  assert (Hall : Forall (fun x => rowok x /\ (true = true -> r_name x <> [slash]) /\ live x = true) (r :: kids)).
  { constructor.
    - rewrite Forall_forall in Hrows. split; [apply Hrows; exact Hin|]. split; [rewrite Hrn; exact Hn|exact Hlive].
    - apply Forall_forall. intros x Hx. rewrite Forall_forall in HkidF. destruct (HkidF x Hx) as (_ & Hok & Hl & _).
      split; [exact Hok|]. split; [intros _; apply Hkid_nonroot; exact Hx|exact Hl]. }
  assert (Hnd2 : NoDup (map r_name (r :: kids))).
  { cbn [map]. constructor; [|exact Hnd]. intro K. apply in_map_iff in K as (x & Ex & Hx).
    rewrite Forall_forall in HkidF. destruct (HkidF x Hx) as (_ & _ & _ & L3). congruence. }
  destruct (append_ok2 c HP Hrs (Qdelete true) (Qdelete_step true c HP) Qdelete_W s1 ms HI1 HT1) as (lv' & E1 & HI' & _ & HT').
  { intro K. subst ms. discriminate. }
  { exact B. }
  { rewrite A. apply Forall_forall. intros h Hh. apply in_map_iff in Hh as (x & <- & Hx).
    rewrite Forall_forall in Hall. destruct (Hall x Hx) as (K1 & K2 & _). apply del_hdr_ok; assumption. }
  { rewrite A. split.
    - apply Forall_forall. intros h Hh. apply in_map_iff in Hh as (x & <- & Hx).
      rewrite Forall_forall in Hall. destruct (Hall x Hx) as (K1 & K2 & K3).
      destruct (del_hdr_ok true x K1 K2) as (D1 & D2 & D3 & D4). split; [exact D1|]. split; [exact D2|]. split; [exact D3|].
      rewrite D4, T2. unfold live_name. apply existsb_exists. exists x. split.
      + destruct Hx as [<-|Hx]; [exact Hin|]. rewrite Forall_forall in Hkids. apply (Hkids x Hx).
      + rewrite K3, eqb_str_refl. reflexivity.
    - rewrite map_map. exact Hnd2. }
  { intros rb B0 HR. rewrite T2 in HR |- *.
    assert (Ems : map m_hdr ms = map del_hdr (r :: kids)) by exact A.
    destruct kids as [|k0 kids'].
    - destruct ms as [|m0 [|m1 ms']]; try discriminate. cbn. cbn in Ems. inversion Ems as [Em0].
      destruct (eqb_str name [slash]) eqn:En.
      + apply eqb_str_eq in En. right. right. rewrite Em0. split; [rewrite del_hdr_name; congruence|].
        intro Hu. assert (Hrok : rowok r) by (rewrite Forall_forall in Hrows; apply Hrows; exact Hin).
        destruct (del_hdr_ok true r Hrok ltac:(rewrite Hrn; exact Hn)) as (_ & _ & D3 & _). rewrite D3 in Hu. discriminate.
      + apply eqb_str_neq in En. left. eapply R_nonroot; [exact HR|]. exists r. split; [exact Hin|congruence].
    - assert (Hre : root_empty rb = true).
      { eapply R_nonroot; [exact HR|]. exists k0. split.
        - rewrite Forall_forall in Hkids. apply (Hkids k0). left. reflexivity.
        - apply Hkid_nonroot. left. reflexivity. }
      destruct ms as [|m0 [|m1 ms']]; try discriminate. cbn. exact Hre. }
  rewrite A in E1. rewrite <- T2. rewrite E1.
  eexists _, _. split; [reflexivity|]. split; [exact HI'|split; [exact T3|exact HT']].
Qed.

(* ---------- Move *)
Lemma Qmove_W h rest lv : Qmove true (h :: rest) lv -> Wh h lv.
Proof.
  intros [HQ _]. inversion HQ as [|? ? (A & B & C & o & D & F) _]; subst. split; [exact A|]. split; [exact B|].
  intros _ o' Ho. rewrite D in Ho. inversion Ho; subst o'. exact F.
Qed.

Section Mov2.
Variables (from to : str).
Hypothesis Gf : good from.
Hypothesis Gt : good to.
Hypothesis Hf : from <> [slash].
Hypothesis Ht : to <> [slash].
Hypothesis Hft : from <> to.

Notation nn := (nn from to).
Notation mk := (mk from to).
Notation PP := (PP from to).
Notation Kid := (Kid from).

Lemma move_ok2 s : Inv true c s -> HB c s ->
  exists s' o, move_op c s from to = (s', o) /\ Inv true c s' /\ HB c s'.
Proof.
  intros HI [Hhb HT]. pose proof (iv_li true c s HI) as HL. unfold move_op.
  assert (Eft : eqb_str from to = false) by (apply eqb_str_neq; exact Hft). rewrite Eft.
  rewrite (lookup_entry_lv true (db s) from HL Gf).
  destruct (find_rows (rows (db s)) from) as [r|] eqn:Ef.
  2:{ eexists _, _. split; [reflexivity|]. rewrite set_db_same. split; [assumption|split; assumption]. }
  destruct (find_rows_some _ _ _ Ef) as (Hin & Hlive & Hrn).
  assert (Hrows : Forall rowok (rows (db s))) by apply HL.
  assert (Hrok : rowok r) by (rewrite Forall_forall in Hrows; apply Hrows; exact Hin).
  assert (Eabs : is_abs to && negb (is_abs (r_name r)) = false).
  { rewrite (good_abs _ (proj1 Hrok)). apply andb_false_r. }
  rewrite Eabs, Eft.
  assert (KK : exists kids,
    (if r_tf r =? TypeDir then get_children (db s) from else (db s, [])) = (db s, kids) /\
    Forall (fun x => In x (rows (db s)) /\ kid_filter from x = true) kids /\ NoDup (map r_name kids)).
  { destruct (r_tf r =? TypeDir).
    - rewrite (get_children_lv true (db s) from HL Gf). eexists. split; [reflexivity|]. split.
      + apply Forall_forall. intros x Hx. apply filter_In in Hx. exact Hx.
      + apply NoDup_map_filter. apply HL.
    - exists []. split; [reflexivity|]. split; constructor. }
  destruct KK as (kids & -> & Hkids & Hnd).
  rewrite move_hdrs_eq. rewrite set_db_same.
  destruct (plain_members_spec (map mk (r :: kids)) s Hhb) as (A & B & T1 & T2 & T3).
  destruct (plain_members s (map mk (r :: kids))) as [ms s1]. cbn [fst snd] in *.
  assert (HI1 : Inv true c s1) by (eapply Inv_ext; eassumption).
  assert (HT1 : TWs c s1) by (eapply TWs_ext; eassumption).
  assert (HkidF : Forall (fun x => In x (rows (db s)) /\ rowok x /\ Kid x /\ r_name x <> from) kids).
  { apply Forall_forall. intros x Hx. rewrite Forall_forall in Hkids. destruct (Hkids x Hx) as (Hxin & Hxf).
    rewrite Forall_forall in Hrows. pose proof (Hrows x Hxin) as Hok.
    destruct (kid_filter_facts from x Gf Hf (proj1 Hok) Hxf) as (L1 & L2 & L3).
    split; [exact Hxin|]. split; [exact Hok|]. split; [exact L2|exact L3]. }
  assert (HPP : Forall PP (r :: kids)).
  { constructor.
    - split; [exact Hrok|]. left. split; [exact Hrn|]. unfold C01Ops2.nn. rewrite Hrn. apply move_name_self; assumption.
    - apply Forall_forall. intros x Hx. rewrite Forall_forall in HkidF. destruct (HkidF x Hx) as (_ & Hok & Kx & _).
      split; [exact Hok|]. right. unfold C01Ops2.nn. apply move_name_below; try assumption. apply Hok. }
  assert (Hnd2 : NoDup (map r_name (r :: kids))).
  { cbn [map]. constructor; [|exact Hnd]. intro K. apply in_map_iff in K as (x & Ex & Hx).
    rewrite Forall_forall in HkidF. destruct (HkidF x Hx) as (_ & _ & _ & L3). congruence. }
  assert (Hhdr : forall x, In x (r :: kids) ->
     hnames_ok true (mk x) /\ ver_ok (mk x) /\ h_act (mk x) = V_update /\ h_rep (mk x) = Some (r_name x)).
  { intros x Hx. rewrite Forall_forall in HPP. pose proof (HPP x Hx) as Px.
    destruct (PP_facts from to Gf Gt Hf Ht Hft x Px) as (F1 & F2 & F3 & F4).
    destruct (mov_hdr_ok true x (nn x) (proj1 Px) F1 F2 F3 F4) as (M1 & M2 & M3 & M4 & _). exact (conj M1 (conj M2 (conj M3 M4))). }
  destruct (append_ok2 c HP Hrs (Qmove true) (Qmove_step true c HP) Qmove_W s1 ms HI1 HT1) as (lv' & E1 & HI' & _ & HT').
  { intro K. subst ms. discriminate. }
  { exact B. }
  { rewrite A. apply Forall_forall. intros h Hh. apply in_map_iff in Hh as (x & <- & Hx). apply Hhdr. exact Hx. }
  { rewrite A. split.
    - apply Forall_forall. intros h Hh. apply in_map_iff in Hh as (x & <- & Hx).
      destruct (Hhdr x Hx) as (M1 & M2 & M3 & M4). split; [exact M1|]. split; [exact M2|]. split; [exact M3|].
      exists (r_name x). split; [exact M4|]. rewrite T2. apply has_name_in. apply in_map.
      destruct Hx as [<-|Hx]; [exact Hin|]. rewrite Forall_forall in HkidF. apply (HkidF x Hx).
    - apply (mvq_gen true from to); assumption. }
  { intros rb B0 HR. rewrite T2 in HR |- *.
    assert (Hre : root_empty rb = true).
    { eapply R_nonroot; [exact HR|]. exists r. split; [exact Hin|congruence]. }
    destruct ms as [|m0 [|m1 ms']]; cbn; [exact I|left; exact Hre|exact Hre]. }
  rewrite A in E1. rewrite <- T2. rewrite E1.
  eexists _, _. split; [reflexivity|]. split; [exact HI'|split; [exact T3|exact HT']].
Qed.
End Mov2.
End Ops2.
