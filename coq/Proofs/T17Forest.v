(* T17 / Forest: tree-level facts.  The members of a directory at relative path q ([lookup]) are exactly the
   flat members whose path is q ++ [x]; paths of the flat member list are pairwise distinct. *)
From Coq Require Import List NArith ZArith Bool Lia.
Import ListNotations.
From STFS Require Import Str Db Tape C01Str T13Path T13View T17Tree T17Str.
Open Scope N_scope.

(* the members of the directory at relative path q *)
Fixpoint lookup (q : list str) (ks : list node) : option (list node) :=
  match q with
  | [] => Some ks
  | x :: q' => match find (fun k => eqb_str (node_name k) x) ks with
               | Some (Dir _ _ ks') => lookup q' ks'
               | _ => None
               end
  end.

(* levels of members below a directory: 0 for an empty one *)
Fixpoint depth (n : node) : nat :=
  match n with
  | File _ _ _ => 1
  | Dir _ _ ks => S (fold_right (fun k a => Nat.max (depth k) a) 0%nat ks)
  end.
Definition depth_forest (ks : list node) : nat := fold_right (fun k a => Nat.max (depth k) a) 0%nat ks.

Lemma depth_pos n : (1 <= depth n)%nat.
Proof. destruct n; cbn; lia. Qed.

Lemma depth_forest_in ks k : In k ks -> (depth k <= depth_forest ks)%nat.
Proof.
  induction ks as [|a ks IH]; [contradiction|]. intros [->|H]; cbn [depth_forest fold_right].
  - lia.
  - specialize (IH H). unfold depth_forest in IH. lia.
Qed.

Lemma depth_forest_zero ks : (depth_forest ks <= 0)%nat -> ks = [].
Proof.
  destruct ks as [|k ks]; [reflexivity|]. cbn [depth_forest fold_right]. pose proof (depth_pos k). lia.
Qed.

Lemma depth_dir nm mt ks : depth (Dir nm mt ks) = S (depth_forest ks).
Proof. reflexivity. Qed.

(* ---------- well-formedness travels down *)
Lemma wf_node_okc n : wf_node n -> okc (node_name n).
Proof. inversion 1; assumption. Qed.
Lemma wf_node_hb n : wf_node n -> 1 <= mt_hb (node_meta n).
Proof. inversion 1; assumption. Qed.
Lemma wf_node_kids nm mt ks : wf_node (Dir nm mt ks) -> wf_forest ks.
Proof. inversion 1; split; assumption. Qed.

Lemma find_name_in ks x k : find (fun k => eqb_str (node_name k) x) ks = Some k -> In k ks /\ node_name k = x.
Proof. intro H. apply find_some in H as [H1 H2]. apply eqb_str_eq in H2. split; assumption. Qed.

Lemma find_name_of ks k : NoDup (map node_name ks) -> In k ks -> find (fun k' => eqb_str (node_name k') (node_name k)) ks = Some k.
Proof.
  induction ks as [|a ks IH]; intros Hnd Hin; [contradiction|]. cbn [map] in Hnd. inversion Hnd as [|? ? Hnot Hnd']; subst.
  cbn [find]. destruct Hin as [->|Hin].
  - rewrite eqb_str_refl. reflexivity.
  - destruct (eqb_str (node_name a) (node_name k)) eqn:E.
    + apply eqb_str_eq in E. exfalso. apply Hnot. rewrite E. apply in_map. exact Hin.
    + apply IH; assumption.
Qed.

Lemma lookup_wf q : forall ks ks', wf_forest ks -> lookup q ks = Some ks' -> wf_forest ks' /\ Forall okc q.
Proof.
  induction q as [|x q IH]; intros ks ks' Hwf H; cbn [lookup] in H.
  - inversion H; subst. split; [exact Hwf|constructor].
  - destruct (find _ ks) as [[|nm mt kk]|] eqn:E; try discriminate.
    apply find_name_in in E as [Hin Hn]. cbn in Hn. subst nm.
    destruct Hwf as [Hall Hnd]. rewrite Forall_forall in Hall. pose proof (Hall _ Hin) as Hk.
    destruct (IH kk ks' (wf_node_kids _ _ _ Hk) H) as [A B]. split; [exact A|].
    constructor; [exact (wf_node_okc _ Hk)|exact B].
Qed.

Lemma lookup_snoc q : forall ks ks' nm mt kk, wf_forest ks -> lookup q ks = Some ks' -> In (Dir nm mt kk) ks' ->
  lookup (q ++ [nm]) ks = Some kk.
Proof.
  induction q as [|x q IH]; intros ks ks' nm mt kk Hwf H Hin; cbn [lookup app] in *.
  - inversion H; subst. destruct Hwf as [_ Hnd].
    pose proof (find_name_of ks' (Dir nm mt kk) Hnd Hin) as E. cbn [node_name] in E. rewrite E. reflexivity.
  - destruct (find _ ks) as [[|nm' mt' kk']|] eqn:E; try discriminate.
    apply find_name_in in E as [Hin' _].
    destruct Hwf as [Hall _]. rewrite Forall_forall in Hall.
    apply (IH kk' ks' nm mt kk (wf_node_kids _ _ _ (Hall _ Hin')) H Hin).
Qed.

Lemma lookup_depth q : forall ks ks', lookup q ks = Some ks' -> (depth_forest ks' + length q <= depth_forest ks)%nat.
Proof.
  induction q as [|x q IH]; intros ks ks' H; cbn [lookup length] in *.
  - inversion H; subst. lia.
  - destruct (find _ ks) as [[|nm mt kk]|] eqn:E; try discriminate.
    apply find_name_in in E as [Hin _]. specialize (IH _ _ H).
    pose proof (depth_forest_in _ _ Hin) as D. rewrite depth_dir in D. lia.
Qed.

(* ---------- paths of the flat members *)
Lemma flatten_paths n : forall pre i, In i (flatten pre n) ->
  i = item_of pre n \/ exists r, r <> [] /\ i_path i = pre ++ node_name n :: r.
Proof.
  induction n as [nm mt d|nm mt ks IH] using node_ind'; intros pre i H; cbn [flatten] in H.
  - destruct H as [<-|[]]. left. reflexivity.
  - destruct H as [<-|H]; [left; reflexivity|]. right.
    apply in_flat_map in H as (k & Hk & Hi). rewrite Forall_forall in IH.
    destruct (IH k Hk _ _ Hi) as [->|(r & Hr & E)].
    + exists [node_name k]. split; [discriminate|]. cbn [item_of i_path node_name]. rewrite <- app_assoc. reflexivity.
    + exists (node_name k :: r). split; [discriminate|]. rewrite E. cbn [node_name]. rewrite <- app_assoc. reflexivity.
Qed.

Lemma flatten_paths' n pre i : In i (flatten pre n) -> exists r, i_path i = pre ++ node_name n :: r.
Proof.
  intro H. destruct (flatten_paths n pre i H) as [->|(r & _ & E)]; [exists []; reflexivity|exists r; exact E].
Qed.

Lemma flatten_okc n : wf_node n -> forall pre i, Forall okc pre -> In i (flatten pre n) -> Forall okc (i_path i).
Proof.
  induction n as [nm mt d|nm mt ks IH] using node_ind'; intros Hwf pre i Hpre H; cbn [flatten] in H.
  - destruct H as [<-|[]]. cbn. apply Forall_app. split; [exact Hpre|]. constructor; [exact (wf_node_okc _ Hwf)|constructor].
  - assert (P : Forall okc (pre ++ [nm])).
    { apply Forall_app. split; [exact Hpre|]. constructor; [exact (wf_node_okc _ Hwf)|constructor]. }
    destruct H as [<-|H]; [exact P|].
    apply in_flat_map in H as (k & Hk & Hi). rewrite Forall_forall in IH.
    destruct (wf_node_kids _ _ _ Hwf) as [Hall _]. rewrite Forall_forall in Hall.
    exact (IH k Hk (Hall k Hk) _ _ P Hi).
Qed.

Lemma flatten_forest_okc ks pre i : wf_forest ks -> Forall okc pre -> In i (flatten_forest pre ks) -> Forall okc (i_path i).
Proof.
  intros [Hall _] Hpre H. apply in_flat_map in H as (k & Hk & Hi). rewrite Forall_forall in Hall.
  exact (flatten_okc k (Hall k Hk) pre i Hpre Hi).
Qed.

Lemma flatten_hb n : wf_node n -> forall pre i, In i (flatten pre n) -> 1 <= mt_hb (i_meta i).
Proof.
  induction n as [nm mt d|nm mt ks IH] using node_ind'; intros Hwf pre i H; cbn [flatten] in H.
  - destruct H as [<-|[]]. exact (wf_node_hb _ Hwf).
  - destruct H as [<-|H]; [exact (wf_node_hb _ Hwf)|].
    apply in_flat_map in H as (k & Hk & Hi). rewrite Forall_forall in IH.
    destruct (wf_node_kids _ _ _ Hwf) as [Hall _]. rewrite Forall_forall in Hall.
    exact (IH k Hk (Hall k Hk) _ _ Hi).
Qed.

(* ---------- distinct paths *)
Lemma forest_nodup_aux ks pre : (forall k, In k ks -> NoDup (map i_path (flatten pre k))) ->
  NoDup (map node_name ks) -> NoDup (map i_path (flat_map (flatten pre) ks)).
Proof.
  induction ks as [|k ks IHk]; intros Hk Hnd; [constructor|].
  cbn [flat_map]. rewrite map_app. cbn [map] in Hnd. inversion Hnd as [|? ? Hnot Hnd']; subst.
  apply NoDup_app_intro.
  - apply Hk. left. reflexivity.
  - apply IHk; [intros; apply Hk; right; assumption|exact Hnd'].
  - intros p Hp Hp'. apply in_map_iff in Hp as (i & <- & Hi). apply in_map_iff in Hp' as (j & Ej & Hj).
    apply in_flat_map in Hj as (k' & Hk' & Hj).
    destruct (flatten_paths' k _ i Hi) as (r & E). destruct (flatten_paths' k' _ j Hj) as (r' & E').
    assert (Ej' : pre ++ node_name k' :: r' = pre ++ node_name k :: r) by (rewrite <- E, <- E'; exact Ej).
    apply app_inv_head in Ej'. inversion Ej' as [[En Er]].
    apply Hnot. rewrite <- En. apply in_map. exact Hk'.
Qed.

Lemma flatten_nodup n : wf_node n -> forall pre, NoDup (map i_path (flatten pre n)).
Proof.
  induction n as [nm mt d|nm mt ks IH] using node_ind'; intros Hwf pre; cbn [flatten map].
  - constructor; [intros []|constructor].
  - constructor.
    + intro K. apply in_map_iff in K as (i & Ei & Hi). apply in_flat_map in Hi as (k & Hk & Hi).
      destruct (flatten_paths' k _ i Hi) as (r & E). rewrite E in Ei. cbn [item_of i_path node_name] in Ei.
      rewrite <- app_assoc in Ei. apply app_inv_head in Ei. discriminate.
    + destruct (wf_node_kids _ _ _ Hwf) as [Hall Hnd]. rewrite Forall_forall in IH, Hall.
      apply forest_nodup_aux; [|exact Hnd]. intros k Hk. apply IH; [exact Hk|apply Hall; exact Hk].
Qed.

Lemma flatten_forest_nodup ks pre : wf_forest ks -> NoDup (map i_path (flatten_forest pre ks)).
Proof.
  intros [Hall Hnd]. rewrite Forall_forall in Hall. unfold flatten_forest.
  apply forest_nodup_aux; [|exact Hnd]. intros k Hk. apply flatten_nodup. apply Hall. exact Hk.
Qed.

Lemma items_nodup t : wf t -> NoDup (map i_path (items t)).
Proof.
  intros [_ Hwf]. unfold items. cbn [map top_item i_path]. constructor; [|apply flatten_forest_nodup; exact Hwf].
  intro K. apply in_map_iff in K as (i & Ei & Hi). apply in_flat_map in Hi as (k & _ & Hi).
  destruct (flatten_paths' k _ i Hi) as (r & E). rewrite E in Ei. discriminate.
Qed.

Lemma items_okc t i : wf t -> In i (items t) -> Forall okc (i_path i).
Proof.
  intros [_ Hwf] [<-|H]; [constructor|]. exact (flatten_forest_okc _ [] i Hwf (Forall_nil _) H).
Qed.

Lemma items_hb t i : wf t -> In i (items t) -> 1 <= mt_hb (i_meta i).
Proof.
  intros [Ht [Hall _]] [<-|H]; [exact Ht|]. apply in_flat_map in H as (k & Hk & Hi). rewrite Forall_forall in Hall.
  exact (flatten_hb k (Hall k Hk) _ _ Hi).
Qed.

(* ---------- the flat members whose path is (pre ++ q) ++ [x] are the members of the directory at q *)
Lemma filter_nil_all {A} (f : A -> bool) l : (forall x, In x l -> f x = false) -> filter f l = [].
Proof.
  induction l as [|a l IH]; intro H; [reflexivity|]. cbn [filter]. rewrite (H a (or_introl eq_refl)).
  apply IH. intros x Hx. apply H. right. exact Hx.
Qed.

Lemma filter_flat_map {A B} (f : B -> bool) (g : A -> list B) l :
  filter f (flat_map g l) = flat_map (fun x => filter f (g x)) l.
Proof. induction l as [|a l IH]; [reflexivity|]. cbn [flat_map]. rewrite filter_app, IH. reflexivity. Qed.

Lemma children_other pre x q k : node_name k <> x ->
  filter (fun i => childb (pre ++ x :: q) (i_path i)) (flatten pre k) = [].
Proof.
  intro Hne. apply filter_nil_all. intros i Hi. destruct (flatten_paths' k pre i Hi) as (r & E). rewrite E.
  rewrite childb_app. cbn [childb].
  assert (F : eqb_str x (node_name k) = false) by (apply eqb_str_neq; intro K; apply Hne; symmetry; exact K).
  rewrite F. reflexivity.
Qed.

Lemma children_here pre ks : filter (fun i => childb pre (i_path i)) (flatten_forest pre ks) = map (item_of pre) ks.
Proof.
  unfold flatten_forest. induction ks as [|k ks IH]; [reflexivity|].
  cbn [flat_map map]. rewrite filter_app, IH.
  assert (E : filter (fun i => childb pre (i_path i)) (flatten pre k) = [item_of pre k]); [|rewrite E; reflexivity].
  destruct k as [nm mt d|nm mt kk]; cbn [flatten filter item_of i_path node_name]; rewrite childb_snoc; [reflexivity|].
  f_equal. apply filter_nil_all. intros i Hi. apply in_flat_map in Hi as (k' & _ & Hi).
  destruct (flatten_paths' k' _ i Hi) as (r & E). rewrite E. rewrite <- app_assoc. cbn [app].
  apply childb_false. intros x K. apply app_inv_head in K. discriminate.
Qed.

Lemma children_lookup q : forall pre ks ks', wf_forest ks -> lookup q ks = Some ks' ->
  filter (fun i => childb (pre ++ q) (i_path i)) (flatten_forest pre ks) = map (item_of (pre ++ q)) ks'.
Proof.
  induction q as [|x q IH]; intros pre ks ks' Hwf H; cbn [lookup] in H.
  - inversion H; subst. rewrite app_nil_r. apply children_here.
  - destruct (find _ ks) as [[|nm mt kk]|] eqn:E; try discriminate.
    destruct Hwf as [Hall Hnd]. unfold flatten_forest. rewrite filter_flat_map.
    revert E Hall Hnd. induction ks as [|k ks IHk]; intros E Hall Hnd; [discriminate|].
    cbn [find] in E. cbn [flat_map]. cbn [map] in Hnd. inversion Hnd as [|? ? Hnot Hnd']; subst.
    inversion Hall as [|? ? Hk Hall']; subst.
    destruct (eqb_str (node_name k) x) eqn:En.
    + inversion E; subst k. apply eqb_str_eq in En. cbn [node_name] in En. subst nm.
      assert (R : flat_map (fun k => filter (fun i => childb (pre ++ x :: q) (i_path i)) (flatten pre k)) ks = []).
      { clear -Hnot. induction ks as [|k ks IHk]; [reflexivity|]. cbn [flat_map].
        rewrite children_other.
        - apply IHk. intro K. apply Hnot. right. exact K.
        - intro K. apply Hnot. left. exact K. }
      rewrite R, app_nil_r. cbn [flatten filter item_of i_path node_name].
      replace (childb (pre ++ x :: q) (pre ++ [x])) with false.
      * replace (pre ++ x :: q) with ((pre ++ [x]) ++ q) by (rewrite <- app_assoc; reflexivity).
        apply (IH (pre ++ [x]) kk ks' (wf_node_kids _ _ _ Hk) H).
      * symmetry. rewrite childb_app. cbn [childb]. rewrite eqb_str_refl. destruct q; reflexivity.
    + rewrite children_other by (apply eqb_str_neq; exact En). cbn [app]. apply IHk; assumption.
Qed.

Lemma children_items t q ks : wf t -> lookup q (t_kids t) = Some ks ->
  filter (fun i => childb q (i_path i)) (items t) = map (item_of q) ks.
Proof.
  intros [_ Hwf] H. unfold items. cbn [filter top_item i_path].
  replace (childb q []) with false by (destruct q; reflexivity).
  exact (children_lookup q [] (t_kids t) ks Hwf H).
Qed.
