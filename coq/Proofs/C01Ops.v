(* C01 / operations: the state invariant and its preservation by append-and-replay. *)
From Coq Require Import List NArith ZArith Bool Lia.
From Coq Require Import ZifyN ZifyBool.
Import ListNotations.
From STFS Require Import Str Db Tape Index Ops Fs Norm TapeLemmas C01Str C01Db C01Inv C01Sim C01Tape C01Hdr.
Open Scope N_scope.

Record Inv (hr : bool) (c : cfg) (s : sys) : Prop := {
  iv_li : LI hr (db s);
  iv_reb : exists rb, rebuild c (tp s) = (rb, Ok tt) /\ R (db s) rb;
  iv_pos : pos_items (tp s);
  iv_sync : exists pre m, tp s = pre ++ [TM m; TT] /\ lk_le (c_rs c) (rows (db s)) (tape_blocks pre) /\
            In (pos_of (c_rs c) (tape_blocks pre)) (lks (rows (db s))) }.

Definition hbok (s : sys) : Prop := Forall (fun x => 0 < x) (hbq s).

Lemma Inv_weaken hr c s : Inv hr c s -> Inv false c s.
Proof. intros [A B C D]. split; try assumption. eapply LI_weaken. exact A. Qed.

Definition nonroot_row (lv : pstate) : Prop := exists x, In x (rows lv) /\ r_name x <> [slash].

Lemma R_nonroot lv rb : R lv rb -> nonroot_row lv -> root_empty rb = true.
Proof.
  intros [_ _ [H|H]] (x & Hx & Hn); [exact H|]. unfold allroot in H. rewrite Forall_forall in H.
  exfalso. apply Hn. apply H. exact Hx.
Qed.

Lemma live_name_row l n : live_name l n = true -> exists x, In x l /\ live x = true /\ r_name x = n.
Proof.
  unfold live_name. intro H. apply existsb_exists in H as (x & Hx & E). apply andb_true_iff in E as [E1 E2].
  apply eqb_str_eq in E2. exists x. repeat split; assumption.
Qed.

(* ---------- starts of appended members *)
Lemma mstarts_app a : forall b B, mstarts (a ++ b) B = mstarts a B ++ mstarts b (B + tape_blocks (map TM a)).
Proof.
  induction a as [|m a IH]; intros b B; cbn [app mstarts map].
  - unfold tape_blocks. cbn. rewrite N.add_0_r. reflexivity.
  - rewrite IH. cbn [app].
    assert (E : tape_blocks (TM m :: map TM a) = item_blocks (TM m) + tape_blocks (map TM a)) by reflexivity.
    rewrite E, N.add_assoc. reflexivity.
Qed.

Lemma mstarts_le a : forall B x, In x (mstarts a B) -> fst x <= B + tape_blocks (map TM a).
Proof.
  induction a as [|m a IH]; intros B x H; cbn [mstarts In] in H; [contradiction|].
  assert (E : tape_blocks (map TM (m :: a)) = item_blocks (TM m) + tape_blocks (map TM a)) by reflexivity.
  destruct H as [<-|H]; [cbn [fst]; lia|]. apply IH in H. lia.
Qed.

Lemma hd_of_snd l : map snd (hd_of l) = map (fun sm => m_hdr (snd sm)) l.
Proof. unfold hd_of. rewrite map_map. reflexivity. Qed.
Lemma hd_of_fst l : map fst (hd_of l) = map fst l.
Proof. unfold hd_of. rewrite map_map. reflexivity. Qed.
Lemma hd_of_mstarts_snd ms B : map snd (hd_of (mstarts ms B)) = map m_hdr ms.
Proof. rewrite hd_of_snd. rewrite <- (mstarts_snd ms B) at 2. rewrite map_map. reflexivity. Qed.

Lemma pos_items_app a b : pos_items (a ++ b) <-> pos_items a /\ pos_items b.
Proof. unfold pos_items. apply Forall_app. Qed.

(* ---------- append and replay *)
Section Append.
Variable hr : bool.
Variable c : cfg.
Hypothesis HP : plain c.
Hypothesis Hrs : 0 < c_rs c.
Variable Q : list hdr -> pstate -> Prop.
Hypothesis HS : forall rec blk h rest lv, LI hr lv -> Q (h :: rest) lv ->
  exists lv', index_header c rec blk h false lv = (lv', Ok tt) /\ In (rec, blk) (lks (rows lv')) /\ Q rest lv'.

Lemma append_ok s ms : Inv hr c s -> ms <> [] -> Forall (fun m => 0 < m_hb m) ms ->
  Forall (hnames_ok hr) (map m_hdr ms) -> Q (map m_hdr ms) (db s) ->
  (forall rb B, R (db s) rb -> lpre (hd_of (mstarts ms B)) (db s) rb) ->
  exists lv', append_and_index c s (last_indexed (db s) (c_rs c)) ms (map m_hdr ms) false false
      = ({| tp := tp s ++ map TM ms ++ [TT]; db := lv'; hbq := hbq s; encq := encq s; clk := clk s |}, OOk) /\
    Inv hr c {| tp := tp s ++ map TM ms ++ [TT]; db := lv'; hbq := hbq s; encq := encq s; clk := clk s |} /\
    Q [] lv'.
Proof.
  intros [HL (rb & Hreb & HR) Hpos (pre & m & Etp & Hle & Hin)] Hne Hhb Hok HQ Hlp.
  unfold append_and_index.
  replace (match ms with [] => [] | _ :: _ => [TT] end) with [TT] by (destruct ms; [contradiction|reflexivity]).
  cbn [Nat.eqb]. replace (if false then 0%nat else 1%nat) with 1%nat by reflexivity.
  assert (Eoff : off_of (c_rs c) (fst (last_indexed (db s) (c_rs c))) (snd (last_indexed (db s) (c_rs c))) = tape_blocks pre).
  { eapply last_indexed_max; [exact Hle|exact Hin|]. apply pos_of_roundtrip. exact Hrs. }
  rewrite Eoff.
  assert (Hpre : pos_items pre) by (rewrite Etp in Hpos; apply pos_items_app in Hpos; tauto).
  change (map TM ms ++ [TT]) with (new_items ms).
  assert (Eidx : index_tape c (tp s ++ new_items ms) (tape_blocks pre) 1 (Some (map m_hdr ms)) false false (db s)
                 = loop0 c (hd_of (mstarts ms (tape_blocks (tp s)))) (db s)).
  { rewrite Etp. apply live_replay. exact Hpre. }
  rewrite Eidx.
  set (B := tape_blocks (tp s)).
  assert (HB : tape_blocks pre <= B) by (unfold B; rewrite Etp, tape_blocks_app; lia).
  destruct (loop_sim hr c HP Q HS (hd_of (mstarts ms B)) (db s) rb HL HR) as (lv' & rb' & A1 & A2 & HL' & HR' & Sub & Last & Q').
  { rewrite hd_of_mstarts_snd. exact Hok. }
  { rewrite hd_of_mstarts_snd. exact HQ. }
  { apply Hlp. exact HR. }
  rewrite A1. cbn [outc_of_res]. exists lv'. split; [reflexivity|]. split; [|exact Q'].
  destruct (exists_last Hne) as (ms0 & ml & Ems).
  assert (Estarts : map fst (mstarts ms B) = map fst (mstarts ms0 B) ++ [B + tape_blocks (map TM ms0)]).
  { rewrite Ems, mstarts_app, map_app. reflexivity. }
  split; cbn [tp db].
  - exact HL'.
  - exists rb'. split; [|exact HR']. rewrite rebuild_extend, Hreb. exact A2.
  - apply pos_items_app. split; [exact Hpos|]. apply pos_items_app. split.
    + unfold pos_items. apply Forall_forall. intros i Hi. apply in_map_iff in Hi as (x & <- & Hx).
      rewrite Forall_forall in Hhb. specialize (Hhb x Hx). cbn. lia.
    + constructor; [cbn; lia|constructor].
  - exists (tp s ++ map TM ms0), ml. split; [|split].
    + unfold new_items. rewrite Ems, map_app. cbn [map]. rewrite <- !app_assoc. reflexivity.
    + rewrite tape_blocks_app. fold B. intros y Hy. destruct (Sub y Hy) as [K|(st & Hst & ->)].
      * specialize (Hle y K). lia.
      * rewrite pos_of_roundtrip by exact Hrs. rewrite hd_of_fst in Hst.
        apply in_map_iff in Hst as (x & <- & Hx). rewrite Ems in Hx. rewrite mstarts_app in Hx.
        apply in_app_or in Hx as [Hx|Hx].
        -- apply mstarts_le in Hx. exact Hx.
        -- cbn in Hx. destruct Hx as [<-|[]]. cbn [fst]. lia.
    + rewrite tape_blocks_app. fold B.
      assert (Hl : hd_of (mstarts ms B) <> []).
      { rewrite Ems, mstarts_app. unfold hd_of. rewrite map_app. cbn. intro K. apply app_eq_nil in K as [_ K]. discriminate. }
      specialize (Last Hl). rewrite hd_of_fst, Estarts, last_last in Last. exact Last.
Qed.
End Append.

(* ---------- plumbing of the environment queues *)
Lemma Inv_ext hr c s s1 : tp s1 = tp s -> db s1 = db s -> Inv hr c s -> Inv hr c s1.
Proof. intros E1 E2 [A B C D]. split; rewrite ?E1, ?E2; assumption. Qed.

Lemma set_db_same s : set_db s (db s) = s.
Proof. destruct s; reflexivity. Qed.

Lemma pop_hb_spec s : hbok s ->
  0 < fst (pop_hb s) /\ tp (snd (pop_hb s)) = tp s /\ db (snd (pop_hb s)) = db s /\ hbok (snd (pop_hb s)).
Proof.
  unfold hbok, pop_hb. intro H. destruct (hbq s) as [|x r] eqn:E; cbn [fst snd].
  - split; [reflexivity|]. split; [reflexivity|]. split; [reflexivity|]. rewrite E. constructor.
  - inversion H; subst. split; [assumption|]. split; [reflexivity|]. split; [reflexivity|]. assumption.
Qed.

Lemma pop_enc_spec s n :
  tp (snd (pop_enc s n)) = tp s /\ db (snd (pop_enc s n)) = db s /\ hbq (snd (pop_enc s n)) = hbq s.
Proof. unfold pop_enc. destruct (encq s); cbn; repeat split; reflexivity. Qed.

Lemma mk_member_spec s h d e : hbok s ->
  m_hdr (fst (mk_member s h d e)) = h /\ 0 < m_hb (fst (mk_member s h d e)) /\
  tp (snd (mk_member s h d e)) = tp s /\ db (snd (mk_member s h d e)) = db s /\ hbok (snd (mk_member s h d e)).
Proof.
  intro H. unfold mk_member. destruct (pop_hb_spec s H) as (A & B & C & D).
  destruct (pop_hb s) as [hb s1]. cbn [fst snd] in *. repeat split; assumption.
Qed.

Lemma plain_members_spec hs : forall s, hbok s ->
  map m_hdr (fst (plain_members s hs)) = hs /\ Forall (fun m => 0 < m_hb m) (fst (plain_members s hs)) /\
  tp (snd (plain_members s hs)) = tp s /\ db (snd (plain_members s hs)) = db s /\ hbok (snd (plain_members s hs)).
Proof.
  induction hs as [|h r IH]; intros s H; cbn [plain_members].
  - cbn. repeat split; try assumption; constructor.
  - destruct (mk_member_spec s h None 0 H) as (A & B & C & D & E).
    destruct (mk_member s h None 0) as [m s1]. cbn [fst snd] in *.
    destruct (IH s1 E) as (A2 & B2 & C2 & D2 & E2).
    destruct (plain_members s1 r) as [ms s2]. cbn [fst snd map] in *.
    split; [congruence|]. split; [constructor; assumption|]. split; [congruence|]. split; [congruence|assumption].
Qed.

(* ---------- creation *)
Section Ops.
Variable hr : bool.
Variable c : cfg.
Hypothesis HP : plain c.
Hypothesis Hrs : 0 < c_rs c.
Hypothesis Hro : c_readonly c = false.

Definition Qcreate (n : str) (hs : list hdr) (lv : pstate) : Prop :=
  match hs with
  | [] => live_name (rows lv) n = true
  | [h] => hnames_ok hr h /\ ver_ok h /\ h_act h = V_create /\ h_name h = n
  | _ => False
  end.

Lemma Qcreate_step n rec blk h rest lv : LI hr lv -> Qcreate n (h :: rest) lv ->
  exists lv', index_header c rec blk h false lv = (lv', Ok tt) /\ In (rec, blk) (lks (rows lv')) /\ Qcreate n rest lv'.
Proof.
  intros HL HQ. destruct rest as [|h2 rest]; [|destruct HQ]. destruct HQ as (A & B & C & D).
  destruct (live_create hr c rec blk h lv HP HL A B C) as (lv' & E & St & Lv).
  exists lv'. split; [exact E|]. split; [exact St|]. cbn. rewrite <- D. exact Lv.
Qed.

(* a creation may be replayed by the rebuild: the name is the root, or the root is live, or some
   other entry exists (then the rebuild has already cached the root-empty flag) *)
Definition cpre (lv : pstate) (name : str) : Prop :=
  name = [slash] \/ live_name (rows lv) [slash] = true \/ nonroot_row lv.

Lemma mknode_ok s dir name perm : Inv hr c s -> hbok s -> good name -> cpre (db s) name ->
  exists s', mknode c s dir name perm false [] false = (s', OOk) /\ Inv hr c s' /\ hbok s' /\
    live_name (rows (db s')) name = true.
Proof.
  intros HI Hhb G Hc. unfold mknode. rewrite Hro. unfold archive_op. cbn [archive_members f_hdr f_data].
  set (h := mknode_hdr c dir name [] perm (clk s)).
  assert (Esz : is_reg h && (0 <? h_size h) = false) by (cbn; apply andb_false_r).
  rewrite Esz.
  destruct (mk_member_spec s h None 0 Hhb) as (A & B & C & D & E).
  destruct (mk_member s h None 0) as [m s1]. cbn [fst snd] in *.
  destruct (mknode_hdr_ok hr c dir name perm (clk s) G) as (K1 & K2 & K3). fold h in K1, K2, K3.
  assert (HI1 : Inv hr c s1) by (eapply Inv_ext; eassumption).
  destruct (append_ok hr c HP Hrs (Qcreate name) (Qcreate_step name) s1 [m] HI1 ltac:(discriminate)) as (lv' & E1 & HI' & Q').
  { constructor; [exact B|constructor]. }
  { cbn [map]. rewrite A. constructor; [exact K1|constructor]. }
  { cbn [map]. rewrite A. exact (conj K1 (conj K2 (conj K3 eq_refl))). }
  { intros rb B0 HR. cbn. rewrite A. rewrite D in HR |- *.
    destruct Hc as [Hc|[Hc|Hc]].
    - right. right. split; [exact Hc|intros _; reflexivity].
    - right. left. exact Hc.
    - left. eapply R_nonroot; eassumption. }
  cbn [map] in E1. rewrite A in E1. rewrite <- D. rewrite E1.
  eexists. split; [reflexivity|]. split; [exact HI'|]. split; [exact E|exact Q'].
Qed.

(* ---------- update of one entry *)
Definition Qupdate (hs : list hdr) (lv : pstate) : Prop :=
  Forall (fun h => hnames_ok hr h /\ ver_ok h /\ h_act h = V_update /\ h_rep h = None /\
                   live_name (rows lv) (h_name h) = true) hs /\ (length hs <= 1)%nat.

Lemma Qupdate_step rec blk h rest lv : LI hr lv -> Qupdate (h :: rest) lv ->
  exists lv', index_header c rec blk h false lv = (lv', Ok tt) /\ In (rec, blk) (lks (rows lv')) /\ Qupdate rest lv'.
Proof.
  intros HL [HQ Hlen]. inversion HQ as [|? ? (A & B & C & D & F) Hr]; subst.
  destruct (live_update_norep hr c rec blk h lv HP HL A B C D F) as (lv' & E & St).
  exists lv'. split; [exact E|]. split; [exact St|].
  destruct rest; [split; [constructor|cbn; lia]|cbn in Hlen; lia].
Qed.

Lemma update_members_single s f replace skip : hbok s ->
  good (h_name (f_hdr f)) -> h_link (f_hdr f) = [] -> usize_ok (h_pax (f_hdr f)) ->
  exists m s1, update_members c s [f] replace skip = ([m], [m_hdr m], s1) /\ 0 < m_hb m /\
    tp s1 = tp s /\ db s1 = db s /\ hbok s1 /\
    hnames_ok hr (m_hdr m) /\ ver_ok (m_hdr m) /\ h_act (m_hdr m) = V_update /\ h_rep (m_hdr m) = None /\
    h_name (m_hdr m) = h_name (f_hdr f).
Proof.
  intros Hhb G Hk Hu. cbn [update_members].
  set (h0 := f_hdr f) in *.
  set (px := pax_del K_replaces_name (pax_set K_action V_update (pax_set K_version V_1 (h_pax h0)))).
  set (h1 := set_pax h0 px).
  assert (Upx : usize_ok px).
  { unfold px. apply usize_ok_del; [reflexivity|]. apply usize_ok_set; [reflexivity|]. apply usize_ok_set; [reflexivity|]. exact Hu. }
  assert (Apx : pax_get K_action px = Some V_update) by (unfold px; paxs; reflexivity).
  assert (Vpx : pax_get K_version px = Some V_1) by (unfold px; paxs; reflexivity).
  assert (Rpx : pax_get K_replaces_name px = None) by (unfold px; paxs; reflexivity).
  (* the encode step, abstracted *)
  assert (ENC : exists h2 enc s1,
     (if is_reg h1 && replace && ((0 <? h_size h1) || skip) then encode c s h1 else (h1, 0, s)) = (h2, enc, s1) /\
     tp s1 = tp s /\ db s1 = db s /\ hbok s1 /\ h_name h2 = h_name h0 /\ h_link h2 = [] /\
     usize_ok (h_pax h2) /\ pax_get K_action (h_pax h2) = Some V_update /\ pax_get K_version (h_pax h2) = Some V_1 /\
     pax_get K_replaces_name (h_pax h2) = None).
  { destruct (is_reg h1 && replace && ((0 <? h_size h1) || skip)).
    - unfold encode. destruct (pop_enc_spec s (h_size h1)) as (A & B & C).
      destruct (pop_enc s (h_size h1)) as [enc s1]. cbn [fst snd] in *.
      eexists _, _, _. split; [reflexivity|]. split; [exact A|]. split; [exact B|].
      split; [unfold hbok; rewrite C; exact Hhb|].
      cbn [h_name h_link h_pax with_size_name set_pax h1].
      split; [destruct (0 <? enc); [apply add_suffix_plain; exact HP|reflexivity]|]. split; [exact Hk|].
      split; [apply usize_ok_put|]. split; [paxs; exact Apx|]. split; [paxs; exact Vpx|paxs; exact Rpx].
    - eexists _, _, _. split; [reflexivity|]. repeat split; try assumption; reflexivity. }
  destruct ENC as (h2 & enc & s1 & -> & T1 & T2 & T3 & N2 & L2 & U2 & A2 & V2 & R2).
  destruct replace.
  - set (h3 := set_pax h2 (pax_set K_replaces_content V_true (h_pax h2))).
    match goal with |- context [mk_member s1 h3 ?d ?e] =>
      destruct (mk_member_spec s1 h3 d e T3) as (M1 & M2 & M3 & M4 & M5);
      destruct (mk_member s1 h3 d e) as [m s2] end. cbn [fst snd] in *.
    exists m, s2. rewrite M1. split; [reflexivity|]. split; [exact M2|]. split; [congruence|]. split; [congruence|].
    split; [exact M5|].
    assert (Y1 : good (h_name h3)) by (cbn [h3 h_name set_pax]; rewrite N2; exact G).
    assert (Y3 : usize_ok (pax_set K_replaces_content V_true (h_pax h2))) by (apply usize_ok_set; [reflexivity|exact U2]).
    assert (Y4 : pax_get K_action (pax_set K_replaces_content V_true (h_pax h2)) = Some V_update) by (paxs; exact A2).
    assert (Y5 : pax_get K_version (pax_set K_replaces_content V_true (h_pax h2)) = Some V_1) by (paxs; exact V2).
    assert (Y6 : pax_get K_replaces_name (pax_set K_replaces_content V_true (h_pax h2)) = None) by (paxs; exact R2).
    destruct (upd_hdr_ok hr h3 _ Y1 L2 Y3 Y4 Y5 Y6 eq_refl) as (X1 & X2 & X3 & X4).
    split; [exact X1|]. split; [exact X2|]. split; [exact X3|]. split; [exact X4|]. cbn [h3 h_name set_pax]. exact N2.
  - set (h3 := with_size_name (set_pax h2 (pax_set K_replaces_content V_false (keep_size h2))) 0 (h_name h2)).
    destruct (mk_member_spec s1 h3 None 0 T3) as (M1 & M2 & M3 & M4 & M5).
    destruct (mk_member s1 h3 None 0) as [m s2]. cbn [fst snd] in *.
    exists m, s2. rewrite M1. split; [reflexivity|]. split; [exact M2|]. split; [congruence|]. split; [congruence|].
    split; [exact M5|].
    assert (Y1 : good (h_name h3)) by (cbn [h3 h_name with_size_name]; rewrite N2; exact G).
    assert (Y3 : usize_ok (pax_set K_replaces_content V_false (keep_size h2))) by (apply usize_ok_set; [reflexivity|apply usize_ok_keep; exact U2]).
    assert (Y4 : pax_get K_action (pax_set K_replaces_content V_false (keep_size h2)) = Some V_update) by (paxs; rewrite keep_size_get by reflexivity; exact A2).
    assert (Y5 : pax_get K_version (pax_set K_replaces_content V_false (keep_size h2)) = Some V_1) by (paxs; rewrite keep_size_get by reflexivity; exact V2).
    assert (Y6 : pax_get K_replaces_name (pax_set K_replaces_content V_false (keep_size h2)) = None) by (paxs; rewrite keep_size_get by reflexivity; exact R2).
    destruct (upd_hdr_ok hr h3 _ Y1 L2 Y3 Y4 Y5 Y6 eq_refl) as (X1 & X2 & X3 & X4).
    split; [exact X1|]. split; [exact X2|]. split; [exact X3|]. split; [exact X4|]. cbn [h3 h_name with_size_name]. exact N2.
Qed.

Lemma update_ok s f replace skip : Inv hr c s -> hbok s ->
  good (h_name (f_hdr f)) -> h_link (f_hdr f) = [] -> usize_ok (h_pax (f_hdr f)) ->
  live_name (rows (db s)) (h_name (f_hdr f)) = true ->
  exists s', update_op c s [f] replace skip = (s', OOk) /\ Inv hr c s' /\ hbok s'.
Proof.
  intros HI Hhb G Hk Hu Hlive. unfold update_op.
  destruct (update_members_single s f replace skip Hhb G Hk Hu)
    as (m & s1 & -> & B & T1 & T2 & T3 & X1 & X2 & X3 & X4 & X5).
  assert (HI1 : Inv hr c s1) by (eapply Inv_ext; eassumption).
  destruct (append_ok hr c HP Hrs Qupdate Qupdate_step s1 [m] HI1 ltac:(discriminate)) as (lv' & E1 & HI' & _).
  { constructor; [exact B|constructor]. }
  { constructor; [exact X1|constructor]. }
  { split; [|cbn; lia]. constructor; [|constructor]. rewrite T2, X5. exact (conj X1 (conj X2 (conj X3 (conj X4 Hlive)))). }
  { intros rb B0 HR. cbn. rewrite T2 in HR |- *.
    destruct (eqb_str (h_name (f_hdr f)) [slash]) eqn:En.
    - apply eqb_str_eq in En. right. right. split; [congruence|intros _; exact X4].
    - apply eqb_str_neq in En. left. eapply R_nonroot; [exact HR|].
      destruct (live_name_row _ _ Hlive) as (x & Hx & _ & Ex). exists x. split; [exact Hx|congruence]. }
  cbn [map] in E1. rewrite <- T2. rewrite E1.
  eexists. split; [reflexivity|]. split; [exact HI'|exact T3].
Qed.
End Ops.
