(* C01 / Rename, OpenFile/Create/Write/Close, Initialize, Reopen; every call of the alphabet. *)
From Coq Require Import List NArith ZArith Bool Lia.
From Coq Require Import ZifyN ZifyBool.
Import ListNotations.
From STFS Require Spelling.
From STFS Require Import Str Db Tape Index Ops Fs Diff Norm TapeLemmas
  C01Str C01Db C01Inv C01Sim C01Tape C01Hdr C01Ops C01Ops2 C01Reads C01Fs.
Open Scope N_scope.

(* side conditions on calls (see C01Rows.v / C01Counter.v) *)
Definition rename_ok (k : call) : bool :=
  match k with CRename a b => negb (eqb_str (path_clean b) [slash]) | _ => true end.
Definition root_kept (k : call) : bool :=
  match k with CRemove n | CRemoveAll n => negb (eqb_str (path_clean n) [slash]) | _ => true end.
Definition is_reopen (k : call) : bool := match k with CReopen => true | _ => false end.
Definition call_ok (k : call) : bool := rename_ok k && root_kept k.

Definition hd_good (s : sys) (hd : handle) : Prop :=
  from_row (db s) (hd_info hd) /\ hd_path hd = h_name (hd_info hd) /\ hd_link hd = h_link (hd_info hd).

Section FsOps2.
Variable hr : bool.
Variable c : cfg.
Hypothesis HP : plain c.
Hypothesis Hrs : 0 < c_rs c.
Hypothesis Hro : c_readonly c = false.

Notation OKs := (OKs hr c).
Ltac same_state := eexists _, _; split; [reflexivity|split; assumption].

(* ---------- Rename *)
Lemma fs_rename_ok s a b : OKs s -> is_abs a = true -> is_abs b = true ->
  path_clean b <> [slash] ->
  exists s' o, fs_rename c s a b = (s', o) /\ OKs s'.
Proof.
  intros [HI Hhb] Ha Hb Hnb. pose proof (iv_li hr c s HI) as HL. unfold fs_rename. rewrite Hro.
  pose proof (path_clean_abs_good a Ha) as Go. pose proof (path_clean_abs_good b Hb) as Gn.
  destruct a as [|a0 a']; [discriminate|]. destruct b as [|b0 b']; [discriminate|].
  set (old := path_clean (a0 :: a')) in *. set (new := path_clean (b0 :: b')) in *.
  rewrite (get_root_path_lv hr (db s) HL). rewrite set_db_same.
  rewrite ?Spelling.spelling_root, ?(Spelling.spelling_good old Go), ?(Spelling.spelling_good new Gn), ?Spelling.orb_same.
  destruct (eqb_str [slash] old) eqn:Eo; [same_state|].
  assert (Hno : old <> [slash]) by (apply eqb_str_neq in Eo; congruence).
  assert (MV : forall s1, OKs s1 -> old <> new -> exists s' o, move_op c s1 old new = (s', o) /\ OKs s').
  { intros s1 [HI1 Hhb1] Hne.
    destruct (move_ok hr c HP Hrs old new Go Gn Hno Hnb Hne s1 HI1 Hhb1) as (s' & o & E & A & B).
    exists s', o. split; [exact E|split; assumption]. }
  assert (K : forall src, exists s' o,
     match src with
      | Ok sh =>
        if eqb_str old new then (s, OOk) else
        if (h_tf sh =? TypeDir) && has_prefix (trim_suffix [slash] old ++ [slash]) new then (s, OInvalid) else
        match parent_check s new with
        | (s, OOk) =>
          match stat_s s new false with
          | (s, Ok th) =>
            if negb (h_tf th =? h_tf sh) then (s, OExist)
            else match fs_remove_nl c s new with
                 | (s, OOk) => move_op c s old new
                 | x => x
                 end
          | (s, _) => move_op c s old new
          end
        | x => x
        end
      | NoRows => (s, ONotExist)
      | e => (s, outc_of_res e) end = (s', o) /\ OKs s').
  { intros [sh| | |e]; try same_state.
    destruct (eqb_str old new) eqn:Eon; [same_state|]. apply eqb_str_neq in Eon.
    destruct ((h_tf sh =? TypeDir) && has_prefix (trim_suffix [slash] old ++ [slash]) new); [same_state|].
    destruct (parent_check_lv hr s new HL) as (o & E). rewrite E. destruct o; try same_state.
    destruct (stat_s_false hr s new HL) as (res & E2 & P). rewrite E2.
    destruct res as [th| | |e]; try (apply MV; [split; assumption|exact Eon]).
    destruct (negb (h_tf th =? h_tf sh)); [same_state|].
    destruct (fs_remove_nl_ok hr c HP Hrs Hro s new (conj HI Hhb) Gn (fun _ => Hnb)) as (s1 & o1 & E1 & A1). rewrite E1.
    destruct o1; try (eexists _, _; split; [reflexivity|exact A1]).
    apply MV; [exact A1|exact Eon]. }
  destruct (stat_s_false hr s old HL) as (res & E2 & P). rewrite E2.
  destruct res as [h| | |e]; try contradiction.
  - apply (K (Ok h)).
  - rewrite (stat_s_true hr s old HL). apply (K NoRows).
Qed.

(* ---------- OpenFile / Create *)
Lemma fs_openfile_ok s n o perm : OKs s -> is_abs n = true ->
  exists s' oc hd, fs_openfile c s n o perm = (s', oc, hd) /\ OKs s' /\ (forall x, hd = Some x -> hd_good s' x).
Proof.
  intros [HI Hhb] Ha. pose proof (iv_li hr c s HI) as HL. unfold fs_openfile.
  pose proof (path_clean_abs_good n Ha) as G.
  destruct n as [|n0 n']; [discriminate|]. set (name := path_clean (n0 :: n')) in *.
  set (fl := decode_flags c o).
  assert (FIN : forall s2 h cr, OKs s2 -> from_row (db s2) h ->
    exists s' oc hd,
      (if negb cr && negb (c_readonly c) && o_create o && o_excl o then (s2, OExist, None)
       else if (h_tf h =? TypeDir) && (fl_write fl || fl_append fl || fl_trunc fl) then (s2, OIsDir, None)
       else (s2, OOk, Some {| hd_path := h_name h; hd_link := h_link h; hd_flags := fl; hd_info := h;
                              hd_buf := if fl_write fl && fl_trunc fl && negb (h_tf h =? TypeDir) && negb (h_size h =? 0) then Some [] else None |}))
      = (s', oc, hd) /\ OKs s' /\ (forall x, hd = Some x -> hd_good s' x)).
  { intros s2 h cr HO Hfr.
    destruct (negb cr && negb (c_readonly c) && o_create o && o_excl o).
    { eexists _, _, _. split; [reflexivity|]. split; [exact HO|discriminate]. }
    destruct ((h_tf h =? TypeDir) && (fl_write fl || fl_append fl || fl_trunc fl)).
    { eexists _, _, _. split; [reflexivity|]. split; [exact HO|discriminate]. }
    eexists _, _, _. split; [reflexivity|]. split; [exact HO|]. intros x Hx. inversion Hx; subst x.
    split; [exact Hfr|split; reflexivity]. }
  assert (NOH : forall s2 oc, OKs s2 -> exists s' oc' (hd : option handle), ((s2, oc, None) : sys * outc * option handle) = (s', oc', hd) /\ OKs s' /\
                 (forall x, hd = Some x -> hd_good s' x)).
  { intros s2 oc HO. eexists _, _, _. split; [reflexivity|]. split; [exact HO|discriminate]. }
  destruct (stat_s_false hr s name HL) as (res & E2 & P). rewrite E2.
  destruct res as [h| | |e]; try contradiction.
  - apply FIN; [split; assumption|exact P].
  - rewrite (stat_s_true hr s name HL).
    destruct (negb (c_readonly c) && o_create o); [|apply NOH; split; assumption].
    destruct (parent_check_lv2 hr s name HL) as (o1 & E & Hal). rewrite E.
    destruct o1; try (apply NOH; split; assumption).
    destruct (mknode_ok hr c HP Hrs Hro s false name perm HI Hhb G (alive_cpre _ _ (Hal eq_refl))) as (s1 & E1 & A1 & B1 & _). rewrite E1.
    pose proof (iv_li hr c s1 A1) as HL1.
    destruct (stat_s_false hr s1 name HL1) as (res & E3 & P3). rewrite E3.
    destruct res as [h| | |e]; try contradiction.
    + apply FIN; [split; assumption|exact P3].
    + apply NOH; split; assumption.
Qed.

Lemma fs_create_ok s n : OKs s -> is_abs n = true ->
  exists s' oc hd, fs_create c s n = (s', oc, hd) /\ OKs s' /\ (forall x, hd = Some x -> hd_good s' x).
Proof.
  intros [HI Hhb] Ha. pose proof (iv_li hr c s HI) as HL. unfold fs_create. rewrite Hro.
  pose proof (path_clean_abs_good n Ha) as G.
  destruct n as [|n0 n']; [discriminate|]. set (name := path_clean (n0 :: n')) in *.
  destruct (parent_check_lv hr s name HL) as (o1 & E). rewrite E.
  destruct o1; try (eexists _, _, _; split; [reflexivity|]; split; [split; assumption|discriminate]).
  apply fs_openfile_ok; [split; assumption|apply good_abs; exact G].
Qed.

(* ---------- Write / Close *)
Lemma handle_close_ok s hd buf : OKs s -> hd_good s hd ->
  exists s' o, handle_close c s hd buf = (s', o) /\ OKs s'.
Proof.
  intros [HI Hhb] (Hfr & Hp & Hl). pose proof (iv_li hr c s HI) as HL. unfold handle_close.
  destruct buf as [b|]; [|same_state].
  destruct (from_row_facts hr (db s) _ HL Hfr) as (G & Hk & Hu & Hlive).
  destruct (update_ok hr c HP Hrs s {| f_hdr := stamp_mtime (flush_hdr hd (clen b)) (clk s); f_data := b |} true true HI Hhb) as (s' & E & A & B);
    cbn [f_hdr stamp_mtime flush_hdr h_name h_link h_pax]; rewrite ?Hp, ?Hl; try assumption.
  - exact I.
  - exists s', OOk. split; [exact E|split; assumption].
Qed.

Lemma write_close_ok s hd d force : OKs s -> hd_good s hd ->
  exists s' o, write_close c s hd d force = (s', o) /\ OKs s'.
Proof.
  intros HO Hg. pose proof (iv_li hr c s (proj1 HO)) as HL. unfold write_close.
  assert (K : exists s' o,
     match handle_write_all c s hd d with
     | (s0, OOk, Some b) => handle_close c s0 hd (Some b)
     | (s0, e, _) => (s0, e) end = (s', o) /\ OKs s').
  { pose proof (handle_write_all_lv hr c s hd d HL) as E.
    destruct (handle_write_all c s hd d) as [[s1 o1] ob]. cbn [fst] in E. subst s1.
    destruct o1; try (eexists _, _; split; [reflexivity|exact HO]).
    destruct ob as [b|]; [|eexists _, _; split; [reflexivity|exact HO]].
    apply handle_close_ok; assumption. }
  destruct d; [destruct force; [exact K|apply handle_close_ok; assumption]|exact K].
Qed.

(* ---------- every call *)
Lemma step_ok s k : OKs s -> fs_call k = true -> rename_ok k = true ->
  (hr = true -> root_kept k = true) -> (is_reopen k = true -> hr = true) ->
  exists s' o, step c s k = (s', o) /\ OKs s'.
Proof.
  intros HO Hf Hc Hk Hre. pose proof (iv_li hr c s (proj1 HO)) as HL.
  destruct k; cbn [step fs_call rename_ok root_kept is_reopen] in *; try discriminate.
  - eapply fs_mkdir_ok; eassumption.
  - eapply fs_mkdirall_ok; eassumption.
  - eapply fs_remove_ok; try eassumption. intro Hhr. specialize (Hk Hhr). apply negb_true_iff in Hk. apply eqb_str_neq. exact Hk.
  - eapply fs_removeall_ok; try eassumption. intro Hhr. specialize (Hk Hhr). apply negb_true_iff in Hk. apply eqb_str_neq. exact Hk.
  - apply andb_true_iff in Hf as [Ha Hb]. apply negb_true_iff in Hc.
    apply fs_rename_ok; try assumption. apply eqb_str_neq. exact Hc.
  - eapply fs_update_meta_ok; try eassumption. intro h. repeat split.
  - eapply fs_update_meta_ok; try eassumption. intro h. repeat split.
  - eapply fs_update_meta_ok; try eassumption. intro h. repeat split.
  - destruct (fs_create_ok s n HO Hf) as (s1 & oc & hd & E & A & B). rewrite E.
    destruct oc; try (eexists _, _; split; [reflexivity|exact A]).
    destruct hd as [hd|]; [|eexists _, _; split; [reflexivity|exact A]].
    apply write_close_ok; [exact A|apply B; reflexivity].
  - destruct (fs_openfile_ok s n o perm HO Hf) as (s1 & oc & hd & E & A & B). rewrite E.
    destruct oc; try (eexists _, _; split; [reflexivity|exact A]).
    destruct hd as [hd|]; [|eexists _, _; split; [reflexivity|exact A]].
    apply write_close_ok; [exact A|apply B; reflexivity].
  - unfold fs_initialize. rewrite (get_root_path_lv hr (db s) HL). rewrite set_db_same.
    eexists _, _. split; [reflexivity|exact HO].
  - specialize (Hre eq_refl). subst hr. rewrite (p_open_lv (db s) HL). rewrite set_db_same.
    eexists _, _. split; [reflexivity|exact HO].
  - eexists _, _. split; [reflexivity|exact HO].
Qed.
End FsOps2.
