(* Tcfg - MAIN FILE: the history theorems C01 / C07 / C13 / C02 / C04 without the plain-configuration hypothesis.

   For ARBITRARY codec suffixes [c_csuf c], [c_esuf c] (any byte strings) and ARBITRARY encoded sizes supplied by the
   environment, the model run under c is, call by call, the run under the plain configuration [plain_of c] on the image
   state [Pl c s] = the same index, queues and clock, and the tape whose headers carry the INDEXED names ([step_Pl],
   [final_Pl], [run_Pl]: Proofs/TcfgSim, TcfgOps, TcfgFs, TcfgHist).  Every theorem proved under "plain c" transfers
   (TcfgThms, TcfgT02, TcfgT04); the statements below are the Props-style re-exports (also in Props/C01.v, C07.v, C13.v,
   C02.v, C04.v).

   NO hypothesis replaces "c_csuf c = [] /\ c_esuf c = []": the writers add the suffix iff the encoded size is positive
   (Model/Ops.v [encode]), the indexer strips it iff the tape size is positive (Model/Index.v [indexed_name]).
   (Before the repair of the writers a hypothesis [enc_ok] on the encoded sizes was necessary; the former
   counterexamples are now positive examples: Proofs/TcfgCounter.v.) *)
From Coq Require Import List NArith ZArith Bool.
Import ListNotations.
From STFS Require Import Str Db Tape Index Ops Fs Diff Norm Prefix Replay
  C01Str C01Sim C01Fs2 C01Rows T02Ns T02Spec T04Def T04Ns T04Content T13Def T13View
  C01Counter TcfgSim TcfgOps TcfgFs TcfgHist TcfgThms TcfgT02 TcfgT04 TcfgLow TcfgCounter.
Open Scope N_scope.

(* ---------- the transfer principle *)
Theorem Tcfg_step : forall c s k, step (plain_of c) (Pl c s) k = (Pl c (fst (step c s k)), snd (step c s k)).
Proof. exact step_Pl. Qed.

Theorem Tcfg_final : forall c h s, final (plain_of c) (Pl c s) h = Pl c (final c s h).
Proof. exact final_Pl. Qed.

(* the observations (outcomes, index rows, visible tree, tape length) of a run do not depend on the codec suffixes *)
Theorem Tcfg_run_config_independent : forall c h,
  run c init_sys h = run (plain_of c) init_sys h.
Proof. exact run_config_independent. Qed.

Theorem Tcfg_rebuild : forall c t, rebuild (plain_of c) (efft c t) = rebuild c t.
Proof. exact rebuild_eff. Qed.

(* ---------- C01 *)
Theorem C01_rows_rebuilt_are_live_rows_any_config : forall c e r,
  0 < c_rs c -> c_readonly c = false ->
  forallb hb_ok ((CInitialize [slash], e) :: r) = true ->
  safe true r = true ->
  forallb (fun ke => rename_ok (fst ke)) r = true ->
  forallb (fun ke => fs_call (fst ke)) r = true ->
  let s := final c init_sys ((CInitialize [slash], e) :: r) in
  exists p, rebuild c (tp s) = (p, Ok tt) /\ rows p = map norm_row (rows (db s)).
Proof. exact C01_rows_norm_any_config. Qed.

(* ---------- C07 *)
Theorem C07_replay_converges_any_config : forall c e r j,
  0 < c_rs c -> c_readonly c = false ->
  forallb hb_ok ((CInitialize [slash], e) :: r) = true ->
  forallb (fun ke => call_ok (fst ke)) r = true ->
  forallb (fun ke => fs_call (fst ke)) r = true ->
  let t := tp (final c init_sys ((CInitialize [slash], e) :: r)) in
  let '(p, rr) := replay_into c t (prefix_index c t j) in
  res_ok rr = true /\ eqb_list eqb_row (visible p) (visible (fst (rebuild c t))) = true.
Proof. exact T07_replay_converges_any_config. Qed.

Theorem C07_replay_idempotent_any_config : forall c e r j,
  0 < c_rs c -> c_readonly c = false ->
  forallb hb_ok ((CInitialize [slash], e) :: r) = true ->
  forallb (fun ke => call_ok (fst ke)) r = true ->
  forallb (fun ke => fs_call (fst ke)) r = true ->
  let t := tp (final c init_sys ((CInitialize [slash], e) :: r)) in
  let p1 := fst (replay_into c t (prefix_index c t j)) in
  let '(p2, r2) := replay_into c t p1 in
  res_ok r2 = true /\ eqb_list eqb_row (visible p2) (visible p1) = true.
Proof. exact T07_replay_idempotent_any_config. Qed.

Theorem C07_rebuild_succeeds_any_config : forall c e r,
  0 < c_rs c -> c_readonly c = false ->
  forallb hb_ok ((CInitialize [slash], e) :: r) = true ->
  forallb (fun ke => call_ok (fst ke)) r = true ->
  forallb (fun ke => fs_call (fst ke)) r = true ->
  res_ok (snd (rebuild c (tp (final c init_sys ((CInitialize [slash], e) :: r))))) = true.
Proof. exact T07_rebuild_ok_any_config. Qed.

(* ---------- C13 *)
Theorem C13_tree_all_histories_any_config : forall c e r, 0 < c_rs c -> c_readonly c = false ->
  forallb hb_ok ((CInitialize [slash], e) :: r) = true ->
  forallb (fun ke => call_ok (fst ke)) r = true -> forallb (fun ke => fs_call (fst ke)) r = true ->
  wf_tree (db (final c init_sys ((CInitialize [slash], e) :: r))).
Proof. exact T13_wf_all_histories_any_config. Qed.

Theorem C13_walk_all_histories_any_config : forall c e r, 0 < c_rs c -> c_readonly c = false ->
  forallb hb_ok ((CInitialize [slash], e) :: r) = true ->
  forallb (fun ke => call_ok (fst ke)) r = true -> forallb (fun ke => fs_call (fst ke)) r = true ->
  let s := final c init_sys ((CInitialize [slash], e) :: r) in
  exists l, view c s = map (ent c s) l /\ NoDup l /\
    forall x, In x l <-> (In x (lrows (db s)) /\ slash_count (r_name x) <= 16).
Proof. exact T13_view_all_histories_any_config. Qed.

(* ---------- C02 *)
Theorem C02_step_any_config : forall (hr : bool) (c : cfg), 0 < c_rs c -> c_readonly c = false ->
  forall s e k, Good hr c s -> hb_env e -> call_pre (abs s) k ->
  let '(s', o) := step c (with_env s e) k in
  exists cid sp, spec_call c (abs s) k (ev_now e) cid = Some sp /\
    Good hr c s' /\ o = snd sp /\ ns_eq (abs s') (fst sp).
Proof. exact T02_step_any_config. Qed.

Theorem C02_history_any_config : forall (hr : bool) (c : cfg), 0 < c_rs c -> c_readonly c = false ->
  forall r s, Good hr c s -> ok_run c s r ->
  conforms c s r /\ Good hr c (final c s r).
Proof. exact T02_history_any_config. Qed.

(* the state hypothesis holds after Initialize "/" for every configuration (already so in T02Spec.v) *)
Theorem C02_init_good_any_config : forall c e, 0 < c_rs c -> c_readonly c = false -> hb_env e ->
  Good true c (fst (step c (with_env init_sys e) (CInitialize [slash]))).
Proof. exact Good_init. Qed.

(* ---------- C04 *)
Theorem C04_read_is_last_written_any_config : forall c e0 r, 0 < c_rs c -> c_readonly c = false -> hb_env e0 ->
  ok_run4 true r ->
  let h := (CInitialize [slash], e0) :: r in
  forall m, good m -> content_eq (content_of c (final c init_sys h) m) (last_written c init_sys h w_empty m).
Proof. intros c e0 r H1 H2 H3 H4. exact (proj1 (proj2 (T04_reachable_any_config c e0 r H1 H2 H3 H4))). Qed.

Theorem C04_positions_designate_content_any_config : forall c e0 r, 0 < c_rs c -> c_readonly c = false -> hb_env e0 ->
  ok_run4 true r ->
  let h := (CInitialize [slash], e0) :: r in
  forall x, In x (rows (db (final c init_sys h))) -> live x = true -> tf_regular (r_tf x) = true ->
    exists m, member_at (tp (final c init_sys h)) (off_of (c_rs c) (r_rec x) (r_blk x)) = Some m /\
              is_content_record m (r_size x) /\
              content_eq (Some (mdata m)) (last_written c init_sys h w_empty (r_name x)).
Proof. intros c e0 r H1 H2 H3 H4. exact (proj2 (proj2 (T04_reachable_any_config c e0 r H1 H2 H3 H4))). Qed.

Theorem C04_walk_shows_last_written_any_config : forall c e0 r, 0 < c_rs c -> c_readonly c = false -> hb_env e0 ->
  ok_run4 true r ->
  let h := (CInitialize [slash], e0) :: r in
  forall e, In e (view c (final c init_sys h)) ->
    content_eq (e_data e) (last_written c init_sys h w_empty (e_path e)).
Proof. exact T04_view_reachable_any_config. Qed.

Print Assumptions Tcfg_step.
Print Assumptions Tcfg_run_config_independent.
Print Assumptions C01_rows_rebuilt_are_live_rows_any_config.
Print Assumptions C07_replay_converges_any_config.
Print Assumptions C13_tree_all_histories_any_config.
Print Assumptions C13_walk_all_histories_any_config.
Print Assumptions C02_step_any_config.
Print Assumptions C02_history_any_config.
Print Assumptions C04_read_is_last_written_any_config.
Print Assumptions C04_positions_designate_content_any_config.
Print Assumptions C04_walk_shows_last_written_any_config.
