(* T02 / operations: what Archive (one new entry), Update (one entry, metadata only) and Delete do to
   the index, exactly, together with the C01 invariant. *)
From Coq Require Import List NArith ZArith Bool Lia.
From Coq Require Import ZifyN ZifyBool.
Import ListNotations.
From STFS Require Import Str Db Tape Index Ops Fs Diff Norm TapeLemmas
  C01Str C01Db C01Inv C01Sim C01Tape C01Hdr C01Ops C01Ops2 C01Reads C01Fs T02Ns T02Db.
Open Scope N_scope.

Section Ops.
Variable hr : bool.
Variable c : cfg.
Hypothesis HP : plain c.
Hypothesis Hrs : 0 < c_rs c.
Hypothesis Hro : c_readonly c = false.

(* ---------- one record *)
Definition Q1 (h0 : hdr) (lv0 : pstate) (F : N -> N -> pstate) (hs : list hdr) (lv : pstate) : Prop :=
  match hs with
  | [h] => h = h0 /\ lv = lv0
  | [] => exists rec blk, lv = F rec blk
  | _ => False
  end.

Lemma Q1_step h0 lv0 F :
  (forall rec blk, index_header c rec blk h0 false lv0 = (F rec blk, Ok tt) /\ In (rec, blk) (lks (rows (F rec blk)))) ->
  forall rec blk h rest lv, LI hr lv -> Q1 h0 lv0 F (h :: rest) lv ->
  exists lv', index_header c rec blk h false lv = (lv', Ok tt) /\ In (rec, blk) (lks (rows lv')) /\ Q1 h0 lv0 F rest lv'.
Proof.
  intros HF rec blk h rest lv _ HQ. destruct rest as [|h2 rest]; [|destruct HQ]. destruct HQ as (-> & ->).
  destruct (HF rec blk) as (E & St). exists (F rec blk). split; [exact E|]. split; [exact St|]. exists rec, blk. reflexivity.
Qed.

Lemma append_one s m F : Inv hr c s -> 0 < m_hb m -> hnames_ok hr (m_hdr m) ->
  (forall rec blk, index_header c rec blk (m_hdr m) false (db s) = (F rec blk, Ok tt) /\ In (rec, blk) (lks (rows (F rec blk)))) ->
  (forall rb, R (db s) rb -> hpre (db s) rb (m_hdr m)) ->
  exists rec blk,
    append_and_index c s (last_indexed (db s) (c_rs c)) [m] [m_hdr m] false false =
      ({| tp := tp s ++ [TM m; TT]; db := F rec blk; hbq := hbq s; encq := encq s; clk := clk s |}, OOk) /\
    Inv hr c {| tp := tp s ++ [TM m; TT]; db := F rec blk; hbq := hbq s; encq := encq s; clk := clk s |}.
Proof.
  intros HI Hb HN HF Hpre.
  destruct (append_ok hr c HP Hrs (Q1 (m_hdr m) (db s) F) (Q1_step (m_hdr m) (db s) F HF) s [m] HI ltac:(discriminate))
    as (lv' & E1 & HI' & (rec & blk & ->)).
  { constructor; [exact Hb|constructor]. }
  { constructor; [exact HN|constructor]. }
  { split; reflexivity. }
  { intros rb B0 HR. cbn. apply Hpre. exact HR. }
  exists rec, blk. split; [exact E1|exact HI'].
Qed.

Lemma mk_member_clk s h d e : clk (snd (mk_member s h d e)) = clk s.
Proof. unfold mk_member, pop_hb. destruct (hbq s); reflexivity. Qed.

(* ---------- Archive of one new entry (mknode) *)
Definition new_row (dir : bool) (name : str) (perm : N) (now : Z) (rec blk : N) : row :=
  row_of_hdr rec rec blk blk (with_size_name (mknode_hdr c dir name [] perm now) 0 name).

Lemma mknode_exact s dir name perm : Inv hr c s -> hbok s -> good name -> cpre (db s) name ->
  exists s' rec blk, mknode c s dir name perm false [] false = (s', OOk) /\ Inv hr c s' /\ hbok s' /\ clk s' = clk s /\
    db s' = with_rows (db s) (upsert_rows (rows (db s)) (new_row dir name perm (clk s) rec blk)).
Proof.
  intros HI Hhb G Hc. unfold mknode. rewrite Hro. unfold archive_op. cbn [archive_members f_hdr f_data].
  set (h := mknode_hdr c dir name [] perm (clk s)).
  assert (Esz : is_reg h && (0 <? h_size h) = false) by (cbn; apply andb_false_r).
  rewrite Esz.
  destruct (mk_member_spec s h None 0 Hhb) as (A & B & C & D & E).
  pose proof (mk_member_clk s h None 0) as Eclk.
  destruct (mk_member s h None 0) as [m s1]. cbn [fst snd] in *.
  destruct (mknode_hdr_ok hr c dir name perm (clk s) G) as (K1 & K2 & K3). fold h in K1, K2, K3.
  assert (HI1 : Inv hr c s1) by (eapply Inv_ext; eassumption).
  pose proof (iv_li hr c s1 HI1) as HL1.
  destruct (append_one s1 m (fun rec blk => with_rows (db s1) (upsert_rows (rows (db s1)) (new_row dir name perm (clk s) rec blk))) HI1 B)
    as (rec & blk & E1 & HI').
  { rewrite A. exact K1. }
  { intros rec blk. rewrite A. split.
    - apply (ih_create_exact hr c rec blk h (db s1) HP HL1 K1 K2 0 K3). reflexivity.
    - rewrite with_rows_rows. unfold lks. apply in_map_iff. eexists. split; [|apply upsert_rows_in]. reflexivity. }
  { intros rb HR. rewrite A. rewrite D in HR |- *.
    destruct Hc as [Hc|[Hc|Hc]].
    - right. right. split; [exact Hc|intros _; reflexivity].
    - right. left. exact Hc.
    - left. eapply R_nonroot; eassumption. }
  rewrite A in E1. rewrite <- D. rewrite E1.
  eexists _, rec, blk. split; [reflexivity|]. split; [exact HI'|]. split; [exact E|]. split; [exact Eclk|reflexivity].
Qed.

(* ---------- Update of one entry, metadata only (replace = false) *)
Definition meta_hdr (h0 : hdr) : hdr :=
  with_size_name (set_pax h0 (pax_set K_replaces_content V_false (keep_size (set_pax h0 (upd_pax (h_pax h0)))))) 0 (h_name h0).

(* the size record of a metadata-only record: the one of the entry, else the one added from a positive known size *)
Lemma meta_hdr_usize h0 : pax_get K_usize (h_pax (meta_hdr h0)) =
  match pax_get K_usize (h_pax h0) with
  | Some v => Some v
  | None => if 0 <? h_size h0 then Some (decimal (h_size h0)) else None
  end.
Proof.
  unfold meta_hdr. cbn [h_pax with_size_name set_pax]. paxs. unfold keep_size. cbn [h_pax h_size set_pax].
  assert (E : pax_get K_usize (upd_pax (h_pax h0)) = pax_get K_usize (h_pax h0)) by (unfold upd_pax; paxs; reflexivity).
  rewrite E. destruct (pax_get K_usize (h_pax h0)) as [v|] eqn:G.
  - destruct (0 <? h_size h0); exact E.
  - destruct (0 <? h_size h0); [paxs; reflexivity|exact E].
Qed.

Lemma meta_hdr_get k h0 : eqb_str k K_usize = false -> eqb_str k K_replaces_content = false ->
  pax_get k (h_pax (meta_hdr h0)) = pax_get k (upd_pax (h_pax h0)).
Proof.
  intros E1 E2. unfold meta_hdr. cbn [h_pax with_size_name set_pax]. rewrite pax_get_set, E2.
  rewrite keep_size_get by exact E1. reflexivity.
Qed.

Lemma update_meta_exact s h0 d sz : Inv hr c s -> hbok s ->
  good (h_name h0) -> h_link h0 = [] -> usize_ok (h_pax h0) ->
  find_rows (rows (db s)) (h_name h0) = Some d -> hsize (meta_hdr h0) = Some sz ->
  exists s' rec blk, update_op c s [{| f_hdr := h0; f_data := [] |}] false false = (s', OOk) /\ Inv hr c s' /\ hbok s' /\
    db s' = with_rows (db s) (replace_row (h_name h0) []
              (row_of_hdr (r_rec d) rec (r_blk d) blk (with_size_name (meta_hdr h0) sz (h_name h0))) (rows (db s))).
Proof.
  intros HI Hhb G Hk Hu Hf Hsz. unfold update_op. cbn [update_members f_hdr f_data].
  set (h1 := set_pax h0 (pax_del K_replaces_name (pax_set K_action V_update (pax_set K_version V_1 (h_pax h0))))).
  replace (is_reg h1 && false && ((0 <? h_size h1) || false)) with false by (destruct (is_reg h1); reflexivity).
  cbn iota.
  change (with_size_name (set_pax h1 (pax_set K_replaces_content V_false (keep_size h1))) 0 (h_name h1)) with (meta_hdr h0).
  destruct (mk_member_spec s (meta_hdr h0) None 0 Hhb) as (A & B & C & D & E).
  destruct (mk_member s (meta_hdr h0) None 0) as [m s1]. cbn [fst snd] in *.
  assert (HI1 : Inv hr c s1) by (eapply Inv_ext; eassumption).
  pose proof (iv_li hr c s1 HI1) as HL1.
  assert (Y3 : usize_ok (h_pax (meta_hdr h0))).
  { unfold usize_ok. rewrite meta_hdr_usize. unfold usize_ok in Hu. destruct (pax_get K_usize (h_pax h0)) as [v|]; [exact Hu|].
    destruct (0 <? h_size h0); [apply undecimal_decimal|exact I]. }
  assert (Y4 : pax_get K_action (h_pax (meta_hdr h0)) = Some V_update) by (rewrite meta_hdr_get by reflexivity; unfold upd_pax; paxs; reflexivity).
  assert (Y5 : pax_get K_version (h_pax (meta_hdr h0)) = Some V_1) by (rewrite meta_hdr_get by reflexivity; unfold upd_pax; paxs; reflexivity).
  assert (Y6 : pax_get K_replaces_name (h_pax (meta_hdr h0)) = None) by (rewrite meta_hdr_get by reflexivity; unfold upd_pax; paxs; reflexivity).
  assert (Y7 : pax_get K_replaces_content (h_pax (meta_hdr h0)) = Some V_false) by (unfold meta_hdr; cbn [h_pax with_size_name set_pax]; paxs; reflexivity).
  destruct (upd_hdr_ok hr (meta_hdr h0) _ G Hk Y3 Y4 Y5 Y6 eq_refl) as (X1 & X2 & X3 & X4).
  assert (Hlive : live_name (rows (db s)) (h_name h0) = true).
  { destruct (find_rows_some _ _ _ Hf) as (F1 & F2 & F3). unfold live_name. apply existsb_exists. exists d.
    split; [exact F1|]. rewrite F2, F3, eqb_str_refl. reflexivity. }
  destruct (append_one s1 m (fun rec blk => with_rows (db s1) (replace_row (h_name h0) []
              (row_of_hdr (r_rec d) rec (r_blk d) blk (with_size_name (meta_hdr h0) sz (h_name h0))) (rows (db s1)))) HI1 B)
    as (rec & blk & E1 & HI').
  { rewrite A. exact X1. }
  { intros rec blk. rewrite A. split.
    - pose proof (ih_update_exact hr c rec blk (meta_hdr h0) (db s1) HP HL1 X1 X2 sz d X3 X4) as K.
      cbn zeta in K. rewrite Y7 in K. change (negb (eqb_str V_false V_true)) with true in K. cbn iota in K.
      apply K; [rewrite usz_hsize; exact Hsz|rewrite D; exact Hf].
    - rewrite with_rows_rows.
      apply (stamped_replace (h_name h0) (row_of_hdr (r_rec d) rec (r_blk d) blk (with_size_name (meta_hdr h0) sz (h_name h0)))).
      + apply HL1.
      + rewrite D. apply live_name_has. exact Hlive. }
  { intros rb HR. rewrite A. rewrite D in HR |- *.
    destruct (eqb_str (h_name h0) [slash]) eqn:En.
    - apply eqb_str_eq in En. right. right. split; [exact En|intros _; exact X4].
    - apply eqb_str_neq in En. left. eapply R_nonroot; [exact HR|].
      destruct (live_name_row _ _ Hlive) as (x & Hx & _ & Ex). exists x. split; [exact Hx|congruence]. }
  rewrite A in E1. rewrite <- D. rewrite E1.
  eexists _, rec, blk. split; [reflexivity|]. split; [exact HI'|]. split; [exact E|reflexivity].
Qed.

(* ---------- Delete: the entry and, for a directory, everything below it *)
Definition gone (names : list str) (m : str) : bool := existsb (eqb_str m) names.

Definition Qdel (target : str -> option row) (hs : list hdr) (lv : pstate) : Prop :=
  Forall (fun h => hnames_ok hr h /\ ver_ok h /\ h_act h = V_delete /\ find_rows (rows lv) (h_name h) <> None) hs /\
  NoDup (map h_name hs) /\ sizes_ok (rows lv) /\
  forall m, (if gone (map h_name hs) m then None else find_rows (rows lv) m) = target m.

Lemma Qdel_step target rec blk h rest lv : LI hr lv -> Qdel target (h :: rest) lv ->
  exists lv', index_header c rec blk h false lv = (lv', Ok tt) /\ In (rec, blk) (lks (rows lv')) /\ Qdel target rest lv'.
Proof.
  intros HL (HQ & Hnd & Hsz & Ht). inversion HQ as [|? ? (A & B & C & D) Hr]; subst.
  cbn [map] in Hnd. inversion Hnd as [|? ? Hnotin Hnd']; subst.
  destruct (find_rows (rows lv) (h_name h)) as [d|] eqn:Ef; [clear D|contradiction].
  destruct (usz_some h (hn_usize hr h A)) as (sz & Es).
  assert (Hrows : Forall rowok (rows lv)) by apply HL.
  assert (Hnd0 : NoDup (map r_name (rows lv))) by apply HL.
  assert (Hhas : has_name (rows lv) (h_name h) = true) by (eapply find_rows_has; exact Ef).
  assert (FR : forall m, find_rows (replace_row (h_name h) [] (set_lk d rec blk true) (rows lv)) m
                         = if eqb_str m (h_name h) then None else find_rows (rows lv) m).
  { intro m. rewrite find_rows_replace; try assumption; [reflexivity|].
    destruct (find_rows_some _ _ _ Ef) as (_ & _ & F3). exact F3. }
  eexists. split; [apply (ih_delete_exact hr c rec blk h lv HP HL A B sz d C Es Ef)|].
  rewrite with_rows_rows. split; [|split; [|split; [|split]]].
  - apply (stamped_replace (h_name h) (set_lk d rec blk true) (rows lv) Hrows Hhas).
  - apply Forall_forall. intros h' Hh'. rewrite Forall_forall in Hr. destruct (Hr h' Hh') as (A' & B' & C' & D').
    split; [exact A'|]. split; [exact B'|]. split; [exact C'|].
    rewrite FR. assert (E : eqb_str (h_name h') (h_name h) = false).
    { apply eqb_str_neq. intro K. apply Hnotin. rewrite <- K. apply in_map. exact Hh'. }
    rewrite E. exact D'.
  - exact Hnd'.
  - apply replace_row_Forall; [exact Hsz|]. apply size_ok_set_lk.
    destruct (find_rows_some _ _ _ Ef) as (F1 & _). unfold sizes_ok in Hsz. rewrite Forall_forall in Hsz. apply Hsz. exact F1.
  - intro m. rewrite FR. rewrite <- (Ht m). unfold gone. cbn [map existsb].
    destruct (eqb_str m (h_name h)); cbn [orb]; [|reflexivity].
    destruct (existsb (eqb_str m) (map h_name rest)); reflexivity.
Qed.

Definition del_kids (l : list row) (name : str) (r : row) : list row :=
  if r_tf r =? TypeDir then filter (kid_filter name) l else [].

Lemma delete_exact s name r : Inv hr c s -> hbok s -> sizes_ok (rows (db s)) -> good name -> (hr = true -> name <> [slash]) ->
  find_rows (rows (db s)) name = Some r ->
  exists s', delete_op c s name = (s', OOk) /\ Inv hr c s' /\ hbok s' /\ sizes_ok (rows (db s')) /\
    forall m, find_rows (rows (db s')) m =
              if gone (map r_name (r :: del_kids (rows (db s)) name r)) m then None else find_rows (rows (db s)) m.
Proof.
  intros HI Hhb Hsz G Hn Ef. pose proof (iv_li hr c s HI) as HL. unfold delete_op.
  rewrite (lookup_entry_lv hr (db s) name HL G). rewrite Ef.
  destruct (find_rows_some _ _ _ Ef) as (Hin & Hlive & Hrn).
  assert (Hrows : Forall rowok (rows (db s))) by apply HL.
  assert (Hnd0 : NoDup (map r_name (rows (db s)))) by apply HL.
  assert (Hrk : r_link r = []) by (rewrite Forall_forall in Hrows; apply (Hrows r Hin)).
  set (kids := del_kids (rows (db s)) name r).
  assert (KK : (if (r_tf r =? TypeDir) && eqb_str (r_link r) [] then get_children (db s) name else (db s, [])) = (db s, kids)).
  { rewrite Hrk. change (eqb_str [] []) with true. rewrite andb_true_r. unfold kids, del_kids.
    destruct (r_tf r =? TypeDir); [|reflexivity]. apply (get_children_lv hr (db s) name HL G). }
  rewrite KK.
  assert (Hkids : Forall (fun x => In x (rows (db s)) /\ kid_filter name x = true) kids).
  { unfold kids, del_kids. destruct (r_tf r =? TypeDir); [|constructor].
    apply Forall_forall. intros x Hx. apply filter_In in Hx. exact Hx. }
  assert (Hnd : NoDup (map r_name kids)).
  { unfold kids, del_kids. destruct (r_tf r =? TypeDir); [|constructor]. apply NoDup_map_filter. exact Hnd0. }
  rewrite delete_hdrs_eq. rewrite set_db_same.
  destruct (plain_members_spec (map del_hdr (r :: kids)) s Hhb) as (A & B & T1 & T2 & T3).
  destruct (plain_members s (map del_hdr (r :: kids))) as [ms s1]. cbn [fst snd] in *.
  assert (HI1 : Inv hr c s1) by (eapply Inv_ext; eassumption).
  assert (HkidF : Forall (fun x => In x (rows (db s)) /\ rowok x /\ live x = true /\ r_name x <> name) kids).
  { apply Forall_forall. intros x Hx. rewrite Forall_forall in Hkids. destruct (Hkids x Hx) as (Hxin & Hxf).
    rewrite Forall_forall in Hrows. pose proof (Hrows x Hxin) as Hok.
    destruct (kid_filter_basic name x G Hxf) as (L1 & L3). exact (conj Hxin (conj Hok (conj L1 L3))). }
  assert (Hkid_nonroot : forall x, In x kids -> r_name x <> [slash]).
  { intros x Hx. rewrite Forall_forall in Hkids. destruct (Hkids x Hx) as (Hxin & Hxf).
    rewrite Forall_forall in HkidF. destruct (HkidF x Hx) as (_ & Hok & _ & Hne).
    destruct (eqb_str name [slash]) eqn:En.
    - apply eqb_str_eq in En. congruence.
    - apply eqb_str_neq in En. destruct (kid_filter_facts name x G En (proj1 Hok) Hxf) as (_ & L2 & _).
      eapply nonroot_of_prefix; [|exact L2]. apply good_nonempty. exact G. }
  assert (Hall : Forall (fun x => In x (rows (db s)) /\ rowok x /\ (hr = true -> r_name x <> [slash]) /\ live x = true) (r :: kids)).
  { constructor.
    - rewrite Forall_forall in Hrows. split; [exact Hin|]. split; [apply Hrows; exact Hin|]. split; [rewrite Hrn; exact Hn|exact Hlive].
    - apply Forall_forall. intros x Hx. rewrite Forall_forall in HkidF. destruct (HkidF x Hx) as (Hxin & Hok & Hl & _).
      split; [exact Hxin|]. split; [exact Hok|]. split; [intros _; apply Hkid_nonroot; exact Hx|exact Hl]. }
  assert (Hnd2 : NoDup (map r_name (r :: kids))).
  { cbn [map]. constructor; [|exact Hnd]. intro K. apply in_map_iff in K as (x & Ex & Hx).
    rewrite Forall_forall in HkidF. destruct (HkidF x Hx) as (_ & _ & _ & L3). congruence. }
  set (target := fun m => if gone (map r_name (r :: kids)) m then None else find_rows (rows (db s)) m).
  assert (Enames : map h_name (map del_hdr (r :: kids)) = map r_name (r :: kids)) by (rewrite map_map; reflexivity).
  destruct (append_ok hr c HP Hrs (Qdel target) (Qdel_step target) s1 ms HI1) as (lv' & E1 & HI' & Q').
  { intro K. subst ms. discriminate. }
  { exact B. }
  { rewrite A. apply Forall_forall. intros h Hh. apply in_map_iff in Hh as (x & <- & Hx).
    rewrite Forall_forall in Hall. destruct (Hall x Hx) as (_ & K1 & K2 & _). apply del_hdr_ok; assumption. }
  { rewrite A. split; [|split; [|split]].
    - apply Forall_forall. intros h Hh. apply in_map_iff in Hh as (x & <- & Hx).
      rewrite Forall_forall in Hall. destruct (Hall x Hx) as (K0 & K1 & K2 & K3).
      destruct (del_hdr_ok hr x K1 K2) as (D1 & D2 & D3 & D4). split; [exact D1|]. split; [exact D2|]. split; [exact D3|].
      rewrite D4, T2. intro K. apply find_rows_none in K.
      assert (live_name (rows (db s)) (r_name x) = true); [|congruence].
      unfold live_name. apply existsb_exists. exists x. split; [exact K0|]. rewrite K3, eqb_str_refl. reflexivity.
    - rewrite Enames. exact Hnd2.
    - rewrite T2. exact Hsz.
    - intro m. rewrite Enames, T2. reflexivity. }
  { intros rb B0 HR. rewrite T2 in HR |- *.
    assert (Ems : map m_hdr ms = map del_hdr (r :: kids)) by exact A.
    destruct kids as [|k0 kids'].
    - destruct ms as [|m0 [|m1 ms']]; try discriminate. cbn. cbn in Ems. inversion Ems as [Em0].
      destruct (eqb_str name [slash]) eqn:En.
      + apply eqb_str_eq in En. right. right. rewrite Em0. split; [rewrite del_hdr_name; congruence|].
        intro Hu. assert (Hrok : rowok r) by (rewrite Forall_forall in Hrows; apply Hrows; exact Hin).
        destruct (del_hdr_ok hr r Hrok ltac:(rewrite Hrn; exact Hn)) as (_ & _ & D3 & _). rewrite D3 in Hu. discriminate.
      + apply eqb_str_neq in En. left. eapply R_nonroot; [exact HR|]. exists r. split; [exact Hin|congruence].
    - assert (Hre : root_empty rb = true).
      { eapply R_nonroot; [exact HR|]. exists k0. split.
        - rewrite Forall_forall in Hkids. apply (Hkids k0). left. reflexivity.
        - apply Hkid_nonroot. left. reflexivity. }
      destruct ms as [|m0 [|m1 ms']]; try discriminate. cbn. exact Hre. }
  rewrite A in E1. rewrite <- T2. rewrite E1.
  destruct Q' as (_ & _ & Q3 & Q4).
  eexists. split; [reflexivity|]. split; [exact HI'|]. split; [exact T3|]. split; [exact Q3|].
  intro m. cbn [db]. specialize (Q4 m). cbn [map gone existsb] in Q4. unfold target in Q4. rewrite T2. exact Q4.
Qed.
End Ops.
