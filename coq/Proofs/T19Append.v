(* T19 / Append: append_and_index on related instances: the same tape shape and last indexed position on both sides,
   related results; and the reader's own tape keeps rebuilding to exactly the rows of its index ([REB]). *)
From Coq Require Import List NArith ZArith Bool Lia.
From Coq Require Import ZifyN ZifyBool.
Import ListNotations.
From STFS Require Import Str Db Tape Index Ops Fs Diff Norm StrLemmas C01Str C01Db C01Inv C01Sim C01Tape C01Hdr C01Ops C01Ops2
  T19Rel T19Base T19Db T19Index T19Det.
Open Scope N_scope.

(* the reader's own tape rebuilds, to an index related to the writer's whose rows are EXACTLY the rows of the reader's
   index (the C01 statement of the reader, without normalisation: it stores the spelling the rebuild produces) *)
Definition REB (c : cfg) (sa sr : sys) : Prop :=
  exists qr, rebuild c (tp sr) = (qr, Ok tt) /\ prel (db sa) qr /\ rows qr = rows (db sr).

Section Append.
Variable c : cfg.
Hypothesis HP : plain c.
Hypothesis Hrs : 0 < c_rs c.

Lemma append_simr sa sr msa msr : Good c sa sr -> msa <> [] -> Forall2 mrel msa msr ->
  Forall (hnames_ok true) (map m_hdr msa) ->
  exists pa' pr' (res : Db.res unit),
    append_and_index c sa (last_indexed (db sa) (c_rs c)) msa (map m_hdr msa) false false =
      ({| tp := tp sa ++ map TM msa ++ [TT]; db := pa'; hbq := hbq sa; encq := encq sa; clk := clk sa |}, outc_of_res res) /\
    append_and_index c sr (last_indexed (db sr) (c_rs c)) msr (map m_hdr msr) false false =
      ({| tp := tp sr ++ map TM msr ++ [TT]; db := pr'; hbq := hbq sr; encq := encq sr; clk := clk sr |}, outc_of_res res) /\
    tape_rel (tp sa ++ map TM msa ++ [TT]) (tp sr ++ map TM msr ++ [TT]) /\
    prel pa' pr' /\
    (REB c sa sr -> res = Ok tt ->
     exists qr', rebuild c (tp sr ++ map TM msr ++ [TT]) = (qr', Ok tt) /\ prel pa' qr' /\ rows qr' = rows pr').
Proof.
  intros HG Hne Hms Hok. pose proof (Good_PR _ _ _ HG) as HQ. destruct HG as [HI HR].
  destruct (iv_sync _ _ _ HI) as (pre & m & Et & Hle & Hin).
  destruct (tape_rel_split pre m (tp sr)) as (pre' & m' & Et' & Hpre & Hm); [rewrite <- Et; exact (R_tp _ _ HR)|].
  assert (Hpos : pos_items pre). { pose proof (iv_pos _ _ _ HI) as K. rewrite Et in K. apply pos_items_app in K. apply K. }
  assert (Hpos' : pos_items pre') by (eapply pos_items_rel; eassumption).
  assert (Hoff : off_of (c_rs c) (fst (last_indexed (db sa) (c_rs c))) (snd (last_indexed (db sa) (c_rs c))) = tape_blocks pre).
  { apply (last_indexed_max (c_rs c) (db sa) (tape_blocks pre) (pos_of (c_rs c) (tape_blocks pre))); [exact Hle|exact Hin|].
    unfold pos_of, off_of. cbn [fst snd]. pose proof (N.div_mod (tape_blocks pre) (c_rs c)). nia. }
  assert (Hne' : msr <> []) by (destruct Hms; [contradiction|discriminate]).
  assert (Tr : tape_rel (tp sa ++ map TM msa ++ [TT]) (tp sr ++ map TM msr ++ [TT])).
  { pose proof (tape_rel_new _ _ _ _ (R_tp _ _ HR) Hms Hne) as K. destruct msa; [contradiction|]. destruct msr; [contradiction|]. exact K. }
  destruct (loop0_simr c HP _ _ (mstarts_rel msa msr Hms (tape_blocks (pre ++ [TM m; TT])))
              ltac:(rewrite hd_of_mstarts_snd; exact Hok) _ _ HQ) as (pa' & pr' & res & E1 & E2 & HQ').
  exists pa', pr', res. split; [|split; [|split; [exact Tr|split; [exact (proj1 HQ')|]]]].
  3:{ intros (qr & Eq & Hq & Hrw) Eres. change (map TM msr ++ [TT]) with (new_items msr). rewrite rebuild_extend, Eq.
      pose proof (Build_PR _ _ (PR_li _ _ HQ) Hq) as HQq.
      destruct (loop0_simr c HP _ _ (mstarts_rel msa msr Hms (tape_blocks (tp sa)))
                  ltac:(rewrite hd_of_mstarts_snd; exact Hok) (db sa) qr HQq) as (pa2 & qr' & res2 & X1 & X2 & X3).
      assert (Hh : heq (db sr) qr).
      { split; [symmetry; exact Hrw|]. rewrite (pr_root_r _ _ Hq). exact (pr_root_r _ _ (PR_rel _ _ HQ)). }
      destruct (loop0_det c HP _ _ (mstarts_rel msa msr Hms (tape_blocks (tp sa)))
                  ltac:(rewrite hd_of_mstarts_snd; exact Hok) (db sa) (db sr) qr HQ HQq Hh) as (_ & D).
      rewrite Et in X1 at 1. rewrite E1 in X1. injection X1 as <- <-.
      rewrite Et in D at 1 2. rewrite E2 in D. rewrite Et in X2 at 1. rewrite X2 in D. cbn [fst] in D.
      rewrite <- Et in X2. rewrite <- (tape_rel_blocks _ _ (R_tp _ _ HR)) in X2. rewrite X2, Eres. eexists. split; [reflexivity|].
      split; [exact (proj1 X3)|symmetry; exact (proj1 D)]. }
  - unfold append_and_index. destruct msa as [|m0 msa0]; [contradiction|]. set (ms := m0 :: msa0) in *.
    rewrite Hoff, Et. change (map TM ms ++ [TT]) with (new_items ms).
    rewrite (live_replay c pre m ms (db sa) Hpos), E1. reflexivity.
  - unfold append_and_index. destruct msr as [|m0 msr0]; [contradiction|]. set (ms := m0 :: msr0) in *.
    rewrite (last_indexed_rel (db sa) (db sr) (c_rs c) (pr_rows _ _ (R_db _ _ HR))), Hoff, Et'.
    rewrite <- (tape_rel_blocks _ _ Hpre).
    change (map TM ms ++ [TT]) with (new_items ms).
    rewrite (live_replay c pre' m' ms (db sr) Hpos').
    replace (tape_blocks (pre' ++ [TM m'; TT])) with (tape_blocks (pre ++ [TM m; TT])).
    + rewrite E2. reflexivity.
    + symmetry. apply tape_rel_blocks. apply Forall2_app; [exact Hpre|]. constructor; [constructor; exact Hm|constructor; [constructor|constructor]].
Qed.
End Append.
