(* Generic concurrency theorems used by C11 (no reference to STFS: proved once, for any number of threads,
   any interleaving, any length of execution).

   Part A  lock ordering  =>  some thread is never blocked (no deadlock among lock waits)
   Part B  critical sections under one mutex  =>  every interleaved execution has the shared state and the
           results of the sequential execution of the completed calls in the order of their releases
           (linearizability; the linearization is a subsequence of the trace, so it respects real time) *)
From Coq Require Import List Arith Lia Bool.
Import ListNotations.

(* ------------------------------------------------------------------ Part A *)
Section Deadlock.
  (* what matters of a thread in a configuration: the locks it holds, the lock it is waiting for *)
  Record tstate := { held : list nat; want : option nat }.

  (* acquisition follows a fixed order: a lock is requested only while every held lock ranks below it *)
  Definition ordered (ts : tstate) : Prop :=
    forall l, want ts = Some l -> forall h, In h (held ts) -> h < l.

  Definition free (threads : list tstate) (l : nat) : Prop := forall tj, In tj threads -> ~ In l (held tj).
  Definition can_step (threads : list tstate) (ts : tstate) : Prop :=
    match want ts with None => True | Some l => free threads l end.

  Lemma max_want (threads : list tstate) :
    threads <> [] -> (forall ts, In ts threads -> want ts <> None) ->
    exists ts m, In ts threads /\ want ts = Some m /\ forall tj w, In tj threads -> want tj = Some w -> w <= m.
  Proof.
    induction threads as [|a r IH]; intros Hne Hw; [contradiction|].
    destruct (want a) as [wa|] eqn:Ea; [|exfalso; exact (Hw a (or_introl eq_refl) Ea)].
    destruct r as [|b r'].
    - exists a, wa. split; [left; reflexivity|]. split; [exact Ea|].
      intros tj w [<-|[]] E. rewrite Ea in E. injection E as <-. lia.
    - destruct IH as (ts & m & Hin & Em & Hmax); [discriminate | intros ts H; apply Hw; right; exact H |].
      destruct (le_lt_dec wa m) as [Hle|Hlt].
      + exists ts, m. split; [right; exact Hin|]. split; [exact Em|].
        intros tj w [<-|Hj] E; [rewrite Ea in E; injection E as <-; exact Hle | exact (Hmax tj w Hj E)].
      + exists a, wa. split; [left; reflexivity|]. split; [exact Ea|].
        intros tj w [<-|Hj] E; [rewrite Ea in E; injection E as <-; lia | pose proof (Hmax tj w Hj E); lia].
  Qed.

  (* In every configuration whose threads respect the order, some thread can take its next step: either one that
     is not waiting for a lock at all, or the one waiting for the highest-ranked lock (nobody can hold it, because
     its holder would be waiting for something ranked even higher). *)
  Theorem ordered_no_deadlock (threads : list tstate) :
    threads <> [] -> Forall ordered threads -> exists ts, In ts threads /\ can_step threads ts.
  Proof.
    intros Hne Hord.
    destruct (existsb (fun ts => match want ts with None => true | Some _ => false end) threads) eqn:Ex.
    - apply existsb_exists in Ex as (ts & Hin & Hn). exists ts. split; [exact Hin|].
      unfold can_step. destruct (want ts); [discriminate|exact I].
    - assert (Hall : forall ts, In ts threads -> want ts <> None).
      { intros ts Hin Hn. assert (existsb (fun ts => match want ts with None => true | Some _ => false end) threads = true) as C.
        { apply existsb_exists. exists ts. split; [exact Hin|]. rewrite Hn. reflexivity. }
        rewrite C in Ex. discriminate. }
      destruct (max_want threads Hne Hall) as (ts & m & Hin & Em & Hmax).
      exists ts. split; [exact Hin|]. unfold can_step. rewrite Em.
      intros tj Hj Hheld.
      destruct (want tj) as [w|] eqn:Ew; [|exact (Hall tj Hj Ew)].
      rewrite Forall_forall in Hord. pose proof (Hord tj Hj w Ew m Hheld) as Hlt.
      pose proof (Hmax tj w Hj Ew). lia.
  Qed.
End Deadlock.

(* ------------------------------------------------------------------ Part B *)
Section Linearizable.
  Variables (St Op Out Loc : Type).
  Variable start : Op -> Loc.                 (* local state of a call when it enters its critical section *)
  Variable micro : Loc -> St -> Loc * St.     (* one step of a critical section on the shared state *)
  Variable result : Loc -> option Out.        (* Some r: the section is complete and the call returns r *)

  (* a section running alone *)
  Inductive steps : Loc -> St -> Loc -> St -> Prop :=
  | st_refl l s : steps l s l s
  | st_step l s l1 s1 l2 s2 : result l = None -> micro l s = (l1, s1) -> steps l1 s1 l2 s2 -> steps l s l2 s2.
  Lemma steps_snoc l s l1 s1 l2 s2 :
    steps l s l1 s1 -> result l1 = None -> micro l1 s1 = (l2, s2) -> steps l s l2 s2.
  Proof.
    intros H. induction H as [|l s la sa lb sb Hr Hm _ IH]; intros Hr1 Hm1.
    - eapply st_step; [exact Hr1|exact Hm1|apply st_refl].
    - eapply st_step; [exact Hr|exact Hm|]. apply IH; assumption.
  Qed.
  (* the sequential specification of a call: the section run to completion without interference *)
  Definition seq_op (o : Op) (s s' : St) (r : Out) : Prop :=
    exists l, steps (start o) s l s' /\ result l = Some r.
  Inductive seq_run : list (nat * Op * Out) -> St -> St -> Prop :=
  | sr_nil s : seq_run [] s s
  | sr_cons t o r rest s s1 s2 : seq_op o s s1 r -> seq_run rest s1 s2 -> seq_run ((t, o, r) :: rest) s s2.
  Lemma seq_run_snoc h s s1 t o r s2 : seq_run h s s1 -> seq_op o s1 s2 r -> seq_run (h ++ [(t, o, r)]) s s2.
  Proof.
    intro H. induction H as [s|t0 o0 r0 rest s sa sb Hop _ IH]; intro Hl; cbn.
    - eapply sr_cons; [exact Hl|apply sr_nil].
    - eapply sr_cons; [exact Hop|apply IH; exact Hl].
  Qed.

  (* the concurrent machine: any number of threads, one mutex, the shared state only touched by its owner *)
  Inductive pc := Idle | Called (o : Op) | InCS (o : Op) (l : Loc).
  Record config := { sh : St; owner : option nat; pcs : nat -> pc }.
  Definition upd (f : nat -> pc) (t : nat) (p : pc) : nat -> pc := fun u => if Nat.eqb u t then p else f u.
  Inductive evt := Inv (t : nat) (o : Op) | Acq (t : nat) | Tau (t : nat) | Ret (t : nat) (o : Op) (r : Out).

  Inductive step : config -> evt -> config -> Prop :=
  | s_inv c t o : pcs c t = Idle ->
      step c (Inv t o) {| sh := sh c; owner := owner c; pcs := upd (pcs c) t (Called o) |}
  | s_acq c t o : pcs c t = Called o -> owner c = None ->
      step c (Acq t) {| sh := sh c; owner := Some t; pcs := upd (pcs c) t (InCS o (start o)) |}
  | s_micro c t o l l1 s1 : pcs c t = InCS o l -> owner c = Some t -> result l = None -> micro l (sh c) = (l1, s1) ->
      step c (Tau t) {| sh := s1; owner := Some t; pcs := upd (pcs c) t (InCS o l1) |}
  | s_ret c t o l r : pcs c t = InCS o l -> owner c = Some t -> result l = Some r ->
      step c (Ret t o r) {| sh := sh c; owner := None; pcs := upd (pcs c) t Idle |}.

  Inductive reach (c0 : config) : list evt -> config -> Prop :=
  | r_nil : reach c0 [] c0
  | r_snoc tr c e c1 : reach c0 tr c -> step c e c1 -> reach c0 (tr ++ [e]) c1.

  (* the linearization: the completed calls in the order in which they left their critical sections *)
  Fixpoint lin (tr : list evt) : list (nat * Op * Out) :=
    match tr with
    | [] => []
    | Ret t o r :: rest => (t, o, r) :: lin rest
    | _ :: rest => lin rest
    end.
  Lemma lin_app a b : lin (a ++ b) = lin a ++ lin b.
  Proof. induction a as [|e a IH]; cbn; [reflexivity|]. destruct e; rewrite ?IH; reflexivity. Qed.

  Definition init (s0 : St) : config := {| sh := s0; owner := None; pcs := fun _ => Idle |}.

  (* invariant: the shared state is the sequential run of the completed calls, plus the progress of the one
     call that is inside its section; a thread is inside a section iff it owns the mutex *)
  Definition Inv_lin (s0 : St) (tr : list evt) (c : config) : Prop :=
    exists smid, seq_run (lin tr) s0 smid /\
      match owner c with
      | None => sh c = smid /\ forall t o l, pcs c t <> InCS o l
      | Some t => (exists o l, pcs c t = InCS o l /\ steps (start o) smid l (sh c)) /\
                  forall u o l, pcs c u = InCS o l -> u = t
      end.

  Lemma upd_same f t p : upd f t p t = p.
  Proof. unfold upd. rewrite Nat.eqb_refl. reflexivity. Qed.
  Lemma upd_other f t p u : u <> t -> upd f t p u = f u.
  Proof. intro H. unfold upd. destruct (Nat.eqb_spec u t); [contradiction|reflexivity]. Qed.

  Theorem reach_inv s0 tr c : reach (init s0) tr c -> Inv_lin s0 tr c.
  Proof.
    intro H. induction H as [|tr c e c1 Hr IH Hs].
    - exists s0. split; [apply sr_nil|]. cbn. split; [reflexivity|]. intros t o l; discriminate.
    - destruct IH as (smid & Hrun & Hown).
      destruct Hs as [c t o Hpc | c t o Hpc Hno | c t o l l1 s1 Hpc Ho Hres Hm | c t o l r Hpc Ho Hres];
        unfold Inv_lin; rewrite lin_app; cbn [lin app owner sh pcs]; rewrite ?app_nil_r.
      + (* invoke *)
        exists smid. split; [exact Hrun|].
        destruct (owner c) as [w|] eqn:Ew.
        * destruct Hown as ((o1 & l1 & Hw & Hst) & Huniq). split.
          -- exists o1, l1. split; [|exact Hst]. rewrite upd_other; [exact Hw|]. intros ->. rewrite Hpc in Hw. discriminate.
          -- intros u o2 l2 Hu. destruct (Nat.eq_dec u t) as [->|Hne]; [rewrite upd_same in Hu; discriminate|].
             rewrite upd_other in Hu by exact Hne. exact (Huniq u o2 l2 Hu).
        * destruct Hown as (Hsh & Hnone). split; [exact Hsh|].
          intros u o2 l2 Hu. destruct (Nat.eq_dec u t) as [->|Hne]; [rewrite upd_same in Hu; discriminate|].
          rewrite upd_other in Hu by exact Hne. exact (Hnone u o2 l2 Hu).
      + (* acquire *)
        rewrite Hno in Hown. destruct Hown as (Hsh & Hnone).
        exists smid. split; [exact Hrun|]. split.
        * exists o, (start o). split; [apply upd_same|]. rewrite Hsh. apply st_refl.
        * intros u o2 l2 Hu. destruct (Nat.eq_dec u t) as [->|Hne]; [reflexivity|].
          rewrite upd_other in Hu by exact Hne. exfalso. exact (Hnone u o2 l2 Hu).
      + (* a step inside the section *)
        rewrite Ho in Hown. destruct Hown as ((o1 & la & Hw & Hst) & Huniq).
        rewrite Hpc in Hw. injection Hw as <- <-.
        exists smid. split; [exact Hrun|]. split.
        * exists o, l1. split; [apply upd_same|]. eapply steps_snoc; [exact Hst|exact Hres|exact Hm].
        * intros u o2 l2 Hu. destruct (Nat.eq_dec u t) as [->|Hne]; [reflexivity|].
          rewrite upd_other in Hu by exact Hne. exact (Huniq u o2 l2 Hu).
      + (* leave the section and return *)
        rewrite Ho in Hown. destruct Hown as ((o1 & la & Hw & Hst) & Huniq).
        rewrite Hpc in Hw. injection Hw as <- <-.
        exists (sh c). split.
        * apply seq_run_snoc with (s1 := smid); [exact Hrun|]. exists l. split; [exact Hst|exact Hres].
        * split; [reflexivity|]. intros u o2 l2 Hu.
          destruct (Nat.eq_dec u t) as [->|Hne]; [rewrite upd_same in Hu; discriminate|].
          rewrite upd_other in Hu by exact Hne. pose proof (Huniq u o2 l2 Hu). contradiction.
  Qed.

  (* Linearizability: in every reachable configuration in which no call is inside its section, the shared state
     is the one the sequential specification reaches by running the completed calls one after the other in
     release order, and every result returned is the sequential result at that point. *)
  Theorem mutex_linearizable s0 tr c :
    reach (init s0) tr c -> owner c = None -> seq_run (lin tr) s0 (sh c).
  Proof.
    intros H Ho. destruct (reach_inv s0 tr c H) as (smid & Hrun & Hown). rewrite Ho in Hown.
    destruct Hown as (-> & _). exact Hrun.
  Qed.

  (* mutual exclusion *)
  Theorem mutex_exclusive s0 tr c t u o l o' l' :
    reach (init s0) tr c -> pcs c t = InCS o l -> pcs c u = InCS o' l' -> t = u.
  Proof.
    intros H Ht Hu. destruct (reach_inv s0 tr c H) as (smid & _ & Hown).
    destruct (owner c) as [w|].
    - destruct Hown as (_ & Huniq). rewrite (Huniq t o l Ht), (Huniq u o' l' Hu). reflexivity.
    - destruct Hown as (_ & Hnone). exfalso. exact (Hnone t o l Ht).
  Qed.

  (* real-time order: the linearization is the trace restricted to returns, in trace order; a call that returned
     before another was invoked therefore precedes it *)
  Theorem lin_respects_real_time a t1 o1 r1 b t2 o2 c_ :
    lin (a ++ [Ret t1 o1 r1] ++ b ++ [Inv t2 o2] ++ c_) = lin a ++ [(t1, o1, r1)] ++ lin b ++ lin c_.
  Proof. rewrite !lin_app. cbn. reflexivity. Qed.
End Linearizable.
