(* T17 / Names: the cleaned names under which the filesystem calls address a member of an opened foreign archive,
   their parent names, and inventory.Stat of a name that has no row (NoRows, index unchanged). *)
From Coq Require Import List NArith ZArith Bool Lia.
From Coq Require Import ZifyN ZifyBool.
Import ListNotations.
From STFS Require Import Str Db Tape Index Ops Fs StrLemmas C01Str C01Db C01Sim T13Path T13ListStr T13List T13View
  T17Tree T17Str T17Forest T17Db T17Rebuild T17View T17Main T17Gen T17Insert T17Keep T17Mknode T17Spell.
Open Scope N_scope.

(* what path.Clean leaves of a spelling: "/d/f" or "d/f" below "./" and "/"; "top/d/f" below a named top *)
Definition CleanName (st : style) (q' : list str) (name : str) : Prop :=
  match st with
  | Named top => name = join_slash (top :: q')
  | _ => name = pth q' \/ name = join_slash q'
  end.

Lemma clean_name_spelling st q' n0 : style_root st = [] -> wf_style st -> q' <> [] -> Forall okc q' -> In n0 (spellings q') ->
  CleanName st q' (path_clean n0).
Proof.
  intros Er Hs Hn Hq Hin. assert (K : path_clean n0 = pth q' \/ path_clean n0 = join_slash q').
  { destruct (clean_spelling q' n0 Hn Hq Hin) as [E|[E|[E|[]]]].
    - left. symmetry. exact E.
    - right. symmetry. exact E.
    - destruct Hin as [<-|[<-|[<-|[]]]].
      + left. apply path_clean_good. apply good_pth. exact Hq.
      + right. apply path_clean_rel; assumption.
      + right. apply path_clean_dotslash; assumption. }
  destruct st; try exact K. cbn in Er, Hs. destruct Hs as (H0 & _). contradiction.
Qed.

Section Names.
  Variables (st : style) (q' : list str) (name : str).
  Hypothesis Hst : wf_style st.
  Hypothesis Hn : q' <> [].
  Hypothesis Hq : Forall okc q'.
  Hypothesis HC : CleanName st q' name.

  Lemma clean_name_ok : NameOk st q' name.
  Proof.
    unfold NameOk. destruct st as [| |top]; cbn [CleanName] in HC.
    - split; [|exact I]. destruct HC as [-> | ->]; [apply rel_name_pth|apply rel_name_join]; exact Hq.
    - split; [|exact I]. destruct HC as [-> | ->]; [apply rel_name_pth|apply rel_name_join]; exact Hq.
    - subst name. split; [|reflexivity]. apply (rel_name_join (top :: q')). constructor; assumption.
  Qed.

  Lemma clean_name_idem : path_clean name = name.
  Proof.
    destruct st as [| |top]; cbn [CleanName] in HC.
    - destruct HC as [-> | ->]; [apply path_clean_good; apply good_pth; exact Hq|apply path_clean_rel; assumption].
    - destruct HC as [-> | ->]; [apply path_clean_good; apply good_pth; exact Hq|apply path_clean_rel; assumption].
    - subst name. apply path_clean_rel; [discriminate|constructor; assumption].
  Qed.

  Lemma clean_name_nonempty : name <> [].
  Proof.
    destruct st as [| |top]; cbn [CleanName] in HC.
    - destruct HC as [-> | ->]; [discriminate|intro K; apply join_nil_iff in K; [contradiction|exact Hq]].
    - destruct HC as [-> | ->]; [discriminate|intro K; apply join_nil_iff in K; [contradiction|exact Hq]].
    - subst name. intro K. apply join_nil_iff in K; [discriminate|constructor; assumption].
  Qed.

  Lemma clean_name_trim : trim_suffix [slash] name = name.
  Proof.
    destruct st as [| |top]; cbn [CleanName] in HC.
    - destruct HC as [-> | ->]; [apply good_trim_slash; [apply good_pth; exact Hq|intro K; apply pth_root_iff in K; [contradiction|exact Hq]]|apply join_trim_slash; exact Hq].
    - destruct HC as [-> | ->]; [apply good_trim_slash; [apply good_pth; exact Hq|intro K; apply pth_root_iff in K; [contradiction|exact Hq]]|apply join_trim_slash; exact Hq].
    - subst name. apply join_trim_slash. constructor; assumption.
  Qed.
End Names.

Lemma path_dir_join sc x : sc <> [] -> Forall okc sc -> okc x -> path_dir (join_slash (sc ++ [x])) = join_slash sc.
Proof.
  intros Hn Hs Hx. unfold path_dir. rewrite join_snoc by exact Hn.
  rewrite upto_last_slash_app by (apply okc_ns; exact Hx). apply path_clean_rel_trailing; assumption.
Qed.

Lemma path_dir_single x : okc x -> path_dir x = [dot].
Proof.
  intro Hx. unfold path_dir, upto_last_slash. rewrite last_slash_aux_noslash by (apply okc_ns; exact Hx). reflexivity.
Qed.

(* the parent of a cleaned name resolves to the directory *)
Lemma clean_name_parent c st t L p q nm name : wf_style st -> wf t -> GenIdx c st t L p -> Forall okc q -> okc nm ->
  CleanName st (q ++ [nm]) name -> Res p (path_dir name) (stored_comps st q).
Proof.
  intros Hs Hw G Hq Hnm HC.
  assert (R0 : forall n0, is_root_name n0 = true -> style_root st = [] -> Res p n0 (stored_comps st [])).
  { intros n0 Hr Er. exists p. split; [|reflexivity]. unfold sanitize. rewrite Hr. cbn [orb]. rewrite (g_root _ _ _ _ _ G), Er.
    destruct st; try reflexivity. cbn in Er, Hs. destruct Hs as (H0 & _). contradiction. }
  destruct st as [| |top] eqn:Est; cbn [CleanName] in HC.
  - destruct HC as [-> | ->].
    + rewrite path_dir_pth by assumption. apply (gen_res_shown c DotSlash t L Hs p G q Hq).
    + destruct q as [|a r].
      * cbn [app join_slash]. rewrite path_dir_single by exact Hnm. apply R0; reflexivity.
      * rewrite path_dir_join by (assumption || discriminate). apply (gen_res_stored c DotSlash t L Hs p G (a :: r) Hq).
  - destruct HC as [-> | ->].
    + rewrite path_dir_pth by assumption. apply (gen_res_shown c Slash t L Hs p G q Hq).
    + destruct q as [|a r].
      * cbn [app join_slash]. rewrite path_dir_single by exact Hnm. apply R0; reflexivity.
      * rewrite path_dir_join by (assumption || discriminate). apply (gen_res_stored c Slash t L Hs p G (a :: r) Hq).
  - subst name. change (top :: q ++ [nm]) with ((top :: q) ++ [nm]).
    rewrite path_dir_join; [|discriminate|constructor; assumption|exact Hnm].
    apply (gen_res_stored c (Named top) t L Hs p G q Hq).
Qed.

(* ---------- a name without a row *)
Lemma find_trailing_none {X} (mk : X -> row) (pc : X -> list str) (L : list X) p sc :
  (forall x, In x L -> live (mk x) = true /\ r_link (mk x) = [] /\ r_name (mk x) = join_slash (pc x) /\ Forall okc (pc x)) ->
  rows p = map mk L -> sc <> [] -> Forall okc sc -> find_by_name p (join_slash sc ++ [slash]) = None.
Proof.
  intros Hshape Hr Hn Hsc. unfold find_by_name. rewrite Hr. rewrite filter_nil_all'; [reflexivity|].
  intros r Hin. apply in_map_iff in Hin as (y & <- & Hy). destruct (Hshape y Hy) as (_ & _ & Ny & Fy).
  rewrite Ny. replace (eqb_str (join_slash (pc y)) (join_slash sc ++ [slash])) with false; [apply andb_false_r|].
  symmetry. apply eqb_str_neq. intro K.
  pose proof (join_no_trailing (pc y) Fy) as T. rewrite K in T. unfold has_suffix in T. rewrite rev_app_distr in T. cbn in T. discriminate.
Qed.

Section Missing.
  Variables (c : cfg) (st : style) (t : tree) (L : list (N * item)).
  Hypothesis Hst : wf_style st.
  Variables (q' : list str) (name : str).
  Hypothesis Hn : q' <> [].
  Hypothesis Hq : Forall okc q'.
  Hypothesis HC : CleanName st q' name.
  Hypothesis Hfresh : forall x, In x L -> i_path (snd x) <> q'.

  Let sc := stored_comps st q'.

  Lemma sc_facts : Forall okc sc /\ sc <> [] /\ (forall x, In x L -> spc st x <> sc).
  Proof.
    split; [apply stored_okc; assumption|]. split.
    - unfold sc. destruct st; cbn; (exact Hn || discriminate).
    - intros x Hx E. apply stored_comps_inj in E. exact (Hfresh x Hx E).
  Qed.

  (* getSanitizedPath of the name and of its directory spelling *)
  Lemma missing_san p : GenIdx c st t L p -> snd (sanitize p name) = join_slash sc.
  Proof. intro G. apply (nameok_sanitize_live c st t L p q' name Hst G Hn Hq). apply clean_name_ok; assumption. Qed.

  Lemma missing_san_slash p : GenIdx c st t L p ->
    snd (sanitize p (trim_suffix [slash] name ++ [slash])) = join_slash sc \/
    snd (sanitize p (trim_suffix [slash] name ++ [slash])) = join_slash sc ++ [slash].
  Proof.
    intro G. rewrite (clean_name_trim st q' name Hst Hn Hq HC).
    destruct st as [| |top] eqn:Est; cbn [CleanName] in HC.
    - left. destruct (sanitize_foreign p (name ++ [slash]) (gen_foreign c _ t L Hst p G eq_refl)) as (p' & E & _). rewrite E. cbn [snd].
      destruct HC as [-> | ->].
      + rewrite <- (good_trim_slash (pth q')) at 1; [apply rel_name_pth_slash; exact Hq|apply good_pth; exact Hq|].
        intro K. apply pth_root_iff in K; [contradiction|exact Hq].
      + apply rel_name_join_slash; assumption.
    - left. destruct (sanitize_foreign p (name ++ [slash]) (gen_foreign c _ t L Hst p G eq_refl)) as (p' & E & _). rewrite E. cbn [snd].
      destruct HC as [-> | ->].
      + rewrite <- (good_trim_slash (pth q')) at 1; [apply rel_name_pth_slash; exact Hq|apply good_pth; exact Hq|].
        intro K. apply pth_root_iff in K; [contradiction|exact Hq].
      + apply rel_name_join_slash; assumption.
    - right. subst name. pose proof (g_root _ _ _ _ _ G) as Hr. cbn in Hr, Hst.
      rewrite sanitize_named by (rewrite Hr; exact Hst). cbn [snd]. rewrite Hr.
      assert (F : Forall okc (top :: q')) by (constructor; assumption).
      destruct (join_cons_char (top :: q') ltac:(discriminate) F) as (x & u & Ej & Ex).
      assert (E1 : is_root_name (join_slash (top :: q') ++ [slash]) = false).
      { pose proof (rel_name_join_slash (top :: q') F ltac:(discriminate)) as R. unfold rel_name in R.
        destruct (is_root_name (join_slash (top :: q') ++ [slash])) eqn:E; [|reflexivity].
        symmetry in R. apply join_nil_iff in R; [discriminate|exact F]. }
      rewrite E1. cbn [orb].
      replace (eqb_str (join_slash (top :: q') ++ [slash]) top) with false; [reflexivity|].
      symmetry. apply eqb_str_neq. intro K.
      assert (T : has_suffix [slash] top = true). { rewrite <- K. unfold has_suffix. rewrite rev_app_distr. cbn. reflexivity. }
      change top with (join_slash [top]) in T. rewrite join_no_trailing in T; [discriminate|constructor; [exact Hst|constructor]].
  Qed.

  Lemma get_header_missing p nm' : GenIdx c st t L p ->
    (snd (sanitize p nm') = join_slash sc \/ snd (sanitize p nm') = join_slash sc ++ [slash]) ->
    exists p', get_header p nm' = (p', NoRows) /\ keeps p p'.
  Proof.
    intros G Hs. destruct sc_facts as (F1 & F2 & F3).
    assert (Hset : settled p) by (intro E; apply (gen_foreign c st t L Hst p G); rewrite <- (g_root _ _ _ _ _ G); exact E).
    pose proof (sanitize_keeps p nm' Hset) as K. unfold get_header.
    destruct (sanitize p nm') as [p1 n1]. cbn [fst snd] in *. exists p1. split; [|exact K].
    assert (Hr1 : rows p1 = map (srow st (c_rs c)) L) by (destruct K as [K _]; rewrite K; exact (g_rows _ _ _ _ _ G)).
    destruct Hs as [-> | ->].
    - rewrite (find_shape_none (srow st (c_rs c)) (spc st) L (gen_shape c st t L Hst p G) p1 sc Hr1 F1 F3). reflexivity.
    - rewrite (find_trailing_none (srow st (c_rs c)) (spc st) L p1 sc (gen_shape c st t L Hst p G) Hr1 F2 F1). reflexivity.
  Qed.

  Lemma get_header_by_linkname_missing p nm' : GenIdx c st t L p ->
    (snd (sanitize p nm') = join_slash sc \/ snd (sanitize p nm') = join_slash sc ++ [slash]) ->
    exists p', get_header_by_linkname p nm' = (p', NoRows) /\ keeps p p'.
  Proof.
    intros G Hs. destruct sc_facts as (F1 & F2 & F3).
    assert (Hset : settled p) by (intro E; apply (gen_foreign c st t L Hst p G); rewrite <- (g_root _ _ _ _ _ G); exact E).
    pose proof (sanitize_keeps p nm' Hset) as K. unfold get_header_by_linkname.
    destruct (sanitize p nm') as [p1 n1]. cbn [fst snd] in *. exists p1. split; [|exact K].
    assert (Hne : n1 <> []).
    { destruct Hs as [-> | ->]; [intro E; apply join_nil_iff in E; [contradiction|exact F1]|destruct (join_slash sc); discriminate]. }
    rewrite filter_nil_all'; [reflexivity|]. intros r Hr. destruct K as [K _]. rewrite K, (g_rows _ _ _ _ _ G) in Hr.
    apply in_map_iff in Hr as (x & <- & Hx). change (r_link (srow st (c_rs c) x)) with (@nil N).
    destruct n1; [contradiction|]. apply andb_false_r.
  Qed.

  (* inventory.Stat(name, false) and (name, true): no such entry, nothing changes *)
  Lemma inv_stat_missing p b : GenIdx c st t L p -> exists p', inv_stat p name b = (p', NoRows) /\ keeps p p'.
  Proof.
    intro G. unfold inv_stat. destruct b.
    - destruct (get_header_by_linkname_missing p name G (or_introl (missing_san p G))) as (p1 & E1 & K1). rewrite E1.
      assert (G1 : GenIdx c st t L p1) by (destruct K1; eapply GenIdx_same; eassumption).
      destruct (get_header_by_linkname_missing p1 _ G1 (missing_san_slash p1 G1)) as (p2 & E2 & K2). rewrite E2.
      exists p2. split; [reflexivity|eapply keeps_trans; eassumption].
    - destruct (get_header_missing p name G (or_introl (missing_san p G))) as (p1 & E1 & K1). rewrite E1.
      assert (G1 : GenIdx c st t L p1) by (destruct K1; eapply GenIdx_same; eassumption).
      destruct (get_header_missing p1 _ G1 (missing_san_slash p1 G1)) as (p2 & E2 & K2). rewrite E2.
      exists p2. split; [reflexivity|eapply keeps_trans; eassumption].
  Qed.
End Missing.
