(* T20 / Test: the twin of concrete foreign archives, checked by computation before anything was proved. *)
From Coq Require Import String List NArith ZArith Bool.
Import ListNotations.
From STFS Require Import Str Db Tape Index Ops Fs Diff Norm T17Tree T17Forest T17Rebuild T17Test T19Rel T19Test T20Twin.
Open Scope N_scope.
Open Scope string_scope.

Definition tdemo : tree := {| t_meta := tmt 1; t_kids := [tD "d" [tF "f" 1 700]; tF "g" 2 10] |}.

(* the pieces of Inv as booleans *)
Definition reb_ok (c : cfg) (sa : sys) : bool :=
  match rebuild c (tp sa) with
  | (rb, Ok _) => eqb_list eqb_row (rows rb) (map norm_row (rows (db sa))) && eqb_str (root rb) [] &&
                  (root_empty rb || forallb (fun r => eqb_str (r_name r) (s "/")) (rows (db sa)))
  | _ => false
  end.
Definition REBb (c : cfg) (sa sr : sys) : bool :=
  match rebuild c (tp sr) with
  | (qr, Ok _) => prelb (db sa) qr && eqb_list eqb_row (rows qr) (rows (db sr))
  | _ => false
  end.

Definition init_ok c st t : bool :=
  let sa := twin c st t in let sr := opened c (archive_of st t) in
  reb_ok c sa && Rb sa sr && REBb c sa sr.

Example T20_test_init :
  forallb (fun t => init_ok (tcf 20) DotSlash t && init_ok (tcf 1) Slash t && init_ok (tcf 3) DotSlash t) [tdemo; tt1; tt2; tt3] = true.
Proof. vm_compute. reflexivity. Qed.

(* a history over the demo archive and over tt1: Mkdir, Create with content, Rename of an original directory, RemoveAll of
   an original directory, Chmod / Chown / Chtimes of original members, WriteFile over an original file, ... on both sides *)
Definition hD : list (call * env) :=
  [(CMkdir (s "/d/new") 493, e0 2); (CCreateFile (s "/d/new/h") [(7, 0, 600)], e0 3);
   (CChmod (s "/d/f") 384, e0 4); (CChown (s "/g") 5 6, e0 5); (CChtimes (s "/d") 7 8, e0 6);
   (CWriteFile (s "/g") (fl 1 false false false true) 420 [(8, 0, 33)] false, e0 7);
   (CWriteFile (s "/d/f") (fl 1 true false false false) 420 [(9, 0, 5)] false, e0 8);
   (CRename (s "/d") (s "/dd"), e0 9); (CCreateFile (s "/dd/f") [(10, 0, 50)], e1 10 [2; 2] [50]);
   (CMkdirAll (s "/dd/new/x/y") 493, e0 11); (CRemove (s "/g"), e0 12); (CRemoveAll (s "/dd/new"), e0 13);
   (CRename (s "/dd/f") (s "/g"), e0 14); (CRemoveAll (s "/dd"), e0 15); (CChmod (s "/") 448, e0 16);
   (CReopen, e0 17); (CMkdir (s "/d") 493, e0 18); (CCreateFile (s "/d/f") [], e0 19)].
Definition h1 : list (call * env) :=
  [(CMkdir (s "/d/sub/new") 493, e0 2); (CCreateFile (s "/d/sub/new/h") [(7, 0, 600)], e0 3);
   (CChmod (s "/d/sub/deep/z") 384, e0 4); (CChown (s "/g") 5 6, e0 5); (CChtimes (s "/d/sub") 7 8, e0 6);
   (CWriteFile (s "/g") (fl 1 false false false true) 420 [(8, 0, 33)] false, e0 7);
   (CWriteFile (s "/d/f") (fl 1 true false false false) 420 [(9, 0, 5)] false, e0 8);
   (CWriteFile (s "/d/sub/empty") (fl 1 true false false false) 420 [(9, 0, 5)] false, e0 8);
   (CRename (s "/d/sub") (s "/d2/sub"), e0 9); (CCreateFile (s "/d2/sub/x") [(10, 0, 50)], e1 10 [2; 2] [50]);
   (CRename (s "/d2") (s "/d/e/d2"), e0 9);
   (CMkdirAll (s "/d/e/d2/sub/deep/x/y") 493, e0 11); (CRemove (s "/g"), e0 12); (CRemove (s "/d/e"), e0 12); (CRemoveAll (s "/d/e/d2/sub/deep"), e0 13);
   (CRename (s "/d/f") (s "/g"), e0 14); (CRemoveAll (s "/d"), e0 15); (CChmod (s "/") 448, e0 16);
   (CReopen, e0 17); (CMkdir (s "/d") 493, e0 18); (CCreateFile (s "/d/f") [], e0 19); (CRemove (s "/g"), e0 20)].

Definition run_ok c st t h : bool :=
  let sa := twin c st t in let sr := opened c (archive_of st t) in
  Rb_all c sa sr h && REBb c (final c sa h) (final c sr h) && reb_ok c (final c sa h).

Example T20_test_run :
  run_ok (tcf 20) DotSlash tdemo hD && run_ok (tcf 3) Slash tdemo hD && run_ok (tcf 20) DotSlash tt1 h1 && run_ok (tcf 1) Slash tt1 h1
  && run_ok (tcf 5) DotSlash tt3 h1 = true.
Proof. vm_compute. reflexivity. Qed.

(* the outcomes on the archive: every call of hD succeeds (on the twin too, by T20_test_run) *)
Example T20_test_outcomes :
  forallb (fun o => eqb_outc (ob_out o) OOk) (run (tcf 20) (opened (tcf 20) (archive_of DotSlash tdemo)) hD) = true.
Proof. vm_compute. reflexivity. Qed.

(* with the archive's OWN tape in style "./" the [R] of the C01 invariant fails for the twin's index: the rebuild never
   sees an absolute name and leaves the root-empty flag unset (hence the slash in front of the twin's member names) *)
Example T20_test_own_tape :
  let c := tcf 20 in
  let sa := {| tp := archive_of DotSlash tdemo; db := db (twin c DotSlash tdemo); hbq := []; encq := []; clk := 0%Z |} in
  reb_ok c sa = false /\ reb_ok c (twin c DotSlash tdemo) = true.
Proof. vm_compute. split; reflexivity. Qed.
