(* C04, part 3: every Fs call either leaves tape and rows alone or goes through
   [append_and_index] / the rebuild of Initialize.  Stated for an arbitrary invariant [Inv] of
   (tape, rows) that those two preserve, so that it can be instantiated twice. *)
From Coq Require Import List NArith ZArith Bool Lia.
Import ListNotations.
From STFS Require Import Str Db Tape Index Ops Fs Diff C04Db C04Index.
Open Scope N_scope.

(* same tape, same rows (the root cache and the oracle queues may differ) *)
Definition eqv (s s' : sys) : Prop := tp s' = tp s /\ rows (db s') = rows (db s).
(* same tape, same index *)
Definition same (s s' : sys) : Prop := tp s' = tp s /\ db s' = db s.

Lemma same_eqv s s' : same s s' -> eqv s s'.
Proof. intros [H K]. split; congruence. Qed.

(* ---- Db-level plumbing *)

Ltac db_step :=
  match goal with
  | |- context [get_header ?p ?n] =>
      let H := fresh "Hr" in pose proof (get_header_rows p n) as H;
      destruct (get_header p n) as [? [?| | |?]]; cbn [fst] in H; cbv beta iota zeta
  | |- context [get_header_by_linkname ?p ?n] =>
      let H := fresh "Hr" in pose proof (get_header_by_linkname_rows p n) as H;
      destruct (get_header_by_linkname p n) as [? [?| | |?]]; cbn [fst] in H; cbv beta iota zeta
  | |- context [get_children ?p ?n] =>
      let H := fresh "Hr" in pose proof (get_children_rows p n) as H;
      destruct (get_children p n) as [? ?]; cbn [fst] in H; cbv beta iota zeta
  | |- context [get_direct_children ?p ?n ?l] =>
      let H := fresh "Hr" in pose proof (get_direct_children_rows p n l) as H;
      destruct (get_direct_children p n l) as [? [?| | |?]]; cbn [fst] in H; cbv beta iota zeta
  | |- context [get_root_path ?p] =>
      let H := fresh "Hr" in pose proof (get_root_path_rows p) as H;
      destruct (get_root_path p) as [? [?|]]; cbn [fst] in H; cbv beta iota zeta
  | |- context [if ?b then _ else _] => destruct b; cbv beta iota zeta
  end.

Lemma inv_stat_rows p n b : rows (fst (inv_stat p n b)) = rows p.
Proof. unfold inv_stat. cbv beta iota zeta. repeat db_step; cbn [fst]; congruence. Qed.

Lemma inv_list_rows p n l : rows (fst (inv_list p n l)) = rows p.
Proof. unfold inv_list. repeat db_step; cbn [fst]; congruence. Qed.

Lemma lookup_entry_rows p n : rows (fst (lookup_entry p n)) = rows p.
Proof. unfold lookup_entry. repeat db_step; cbn [fst]; congruence. Qed.

(* ---- state threading that leaves tape and index alone *)

Lemma stat_s_eqv s n b : eqv s (fst (stat_s s n b)).
Proof.
  unfold stat_s. pose proof (inv_stat_rows (db s) n b) as H. destruct (inv_stat (db s) n b) as [p r]; cbn in *.
  split; [reflexivity|exact H].
Qed.

Lemma parent_check_eqv s n : eqv s (fst (parent_check s n)).
Proof.
  unfold parent_check. pose proof (stat_s_eqv s (path_dir n) false) as H.
  destruct (stat_s s (path_dir n) false) as [s1 [h| | |e]]; cbn in *; try assumption.
  destruct (h_tf h =? TypeDir); assumption.
Qed.

Lemma pop_hb_same s : same s (snd (pop_hb s)).
Proof. unfold pop_hb. destruct (hbq s); split; reflexivity. Qed.
Lemma pop_enc_same s n : same s (snd (pop_enc s n)).
Proof. unfold pop_enc. destruct (encq s); split; reflexivity. Qed.
Lemma mk_member_same s h d e : same s (snd (mk_member s h d e)).
Proof. unfold mk_member. pose proof (pop_hb_same s). destruct (pop_hb s); cbn in *. assumption. Qed.
Lemma encode_same c s h : same s (snd (encode c s h)).
Proof. unfold encode. pose proof (pop_enc_same s (h_size h)). destruct (pop_enc s (h_size h)); cbn in *. assumption. Qed.

Lemma same_trans a b c : same a b -> same b c -> same a c.
Proof. intros [H1 H2] [H3 H4]. split; congruence. Qed.

Lemma archive_members_same c fs : forall s, same s (snd (archive_members c s fs)).
Proof.
  induction fs as [|f r IH]; intro s; cbn; [split; reflexivity|].
  destruct (is_reg (f_hdr f) && (0 <? h_size (f_hdr f))).
  - pose proof (encode_same c s (f_hdr f)) as He. destruct (encode c s (f_hdr f)) as [[h' enc] s1]; cbn in He.
    pose proof (mk_member_same s1 h' (Some (f_data f)) enc) as Hm. destruct (mk_member s1 h' (Some (f_data f)) enc) as [m s2]; cbn in Hm.
    pose proof (IH s2) as Hr. destruct (archive_members c s2 r) as [[ms hs] s3]; cbn in *.
    eapply same_trans; [|exact Hr]. eapply same_trans; eassumption.
  - pose proof (mk_member_same s (f_hdr f) None 0) as Hm. destruct (mk_member s (f_hdr f) None 0) as [m s2]; cbn in Hm.
    pose proof (IH s2) as Hr. destruct (archive_members c s2 r) as [[ms hs] s3]; cbn in *.
    eapply same_trans; eassumption.
Qed.

Lemma update_members_same c fs replace skip : forall s, same s (snd (update_members c s fs replace skip)).
Proof.
  induction fs as [|f r IH]; intro s; cbn -[pax_set pax_del]; [split; reflexivity|].
  match goal with |- context [if ?b then encode c s ?h else _] =>
    pose proof (encode_same c s h) as He; destruct b; [destruct (encode c s h) as [[h2 enc] s1]; cbn in He|] end.
  - destruct replace.
    + match goal with |- context [mk_member s1 ?h ?d ?e] =>
        pose proof (mk_member_same s1 h d e) as Hm; destruct (mk_member s1 h d e) as [m s2]; cbn in Hm end.
      pose proof (IH s2) as Hr. destruct (update_members c s2 r true skip) as [[ms hs] s3]; cbn in *.
      eapply same_trans; [|exact Hr]. eapply same_trans; eassumption.
    + match goal with |- context [mk_member s1 ?h ?d ?e] =>
        pose proof (mk_member_same s1 h d e) as Hm; destruct (mk_member s1 h d e) as [m s2]; cbn in Hm end.
      pose proof (IH s2) as Hr. destruct (update_members c s2 r false skip) as [[ms hs] s3]; cbn in *.
      eapply same_trans; [|exact Hr]. eapply same_trans; eassumption.
  - destruct replace.
    + match goal with |- context [mk_member s ?h ?d ?e] =>
        pose proof (mk_member_same s h d e) as Hm; destruct (mk_member s h d e) as [m s2]; cbn in Hm end.
      pose proof (IH s2) as Hr. destruct (update_members c s2 r true skip) as [[ms hs] s3]; cbn in *.
      eapply same_trans; eassumption.
    + match goal with |- context [mk_member s ?h ?d ?e] =>
        pose proof (mk_member_same s h d e) as Hm; destruct (mk_member s h d e) as [m s2]; cbn in Hm end.
      pose proof (IH s2) as Hr. destruct (update_members c s2 r false skip) as [[ms hs] s3]; cbn in *.
      eapply same_trans; eassumption.
Qed.

Lemma plain_members_same hs : forall s, same s (snd (plain_members s hs)).
Proof.
  induction hs as [|h r IH]; intro s; cbn; [split; reflexivity|].
  pose proof (mk_member_same s h None 0) as Hm. destruct (mk_member s h None 0) as [m s2]; cbn in Hm.
  pose proof (IH s2) as Hr. destruct (plain_members s2 r) as [ms s3]; cbn in *.
  eapply same_trans; eassumption.
Qed.

Lemma read_path_eqv c s p : eqv s (fst (read_path c s p)).
Proof.
  unfold read_path. repeat db_step;
    repeat match goal with |- context [fetch_at ?a ?b ?x ?y] => destruct (fetch_at a b x y) end;
    split; cbn; congruence.
Qed.

Lemma handle_write_all_eqv c s hd d : eqv s (fst (fst (handle_write_all c s hd d))).
Proof.
  unfold handle_write_all. destruct (h_tf (hd_info hd) =? TypeDir); [split; reflexivity|].
  destruct (negb (fl_write (hd_flags hd))); [split; reflexivity|].
  destruct (hd_buf hd); [split; reflexivity|].
  pose proof (stat_s_eqv s (hd_path hd) false) as H1. destruct (stat_s s (hd_path hd) false) as [s1 st]; cbn in H1.
  destruct st as [h| | |e]; cbn; try assumption.
  destruct (negb (h_size h =? 0)); [|cbn; assumption].
  pose proof (read_path_eqv c s1 (hd_path hd)) as H2. destruct (read_path c s1 (hd_path hd)) as [s2 [x| | |e]]; cbn in *;
    destruct H1, H2; split; congruence.
Qed.

(* ---- the generic preservation theorem *)

Section Frame.
Variable c : cfg.
Variable Inv : sys -> Prop.
Hypothesis Inv_eqv : forall s s', eqv s s' -> Inv s -> Inv s'.
Hypothesis Inv_append : forall s last ms hs (ow ini : bool),
  last = (if ow then (0, 0) else last_indexed (db s) (c_rs c)) ->
  Inv s -> Inv (fst (append_and_index c s last ms hs ow ini)).
Hypothesis Inv_rebuild : forall s,
  Inv s -> Inv (set_db s (fst (index_tape c (tp s) 0 0 None true false (db s)))).

Ltac fin :=
  cbn [fst snd];
  first [ assumption
        | match goal with HI : Inv ?s |- Inv ?s' => apply (Inv_eqv s s'); [split; cbn; congruence|exact HI] end ].

Lemma archive_op_Inv s fs ow ini : Inv s -> Inv (fst (archive_op c s fs ow ini)).
Proof.
  intro HI. unfold archive_op. pose proof (archive_members_same c fs s) as [Ht Hd].
  destruct (archive_members c s fs) as [[ms hs] s1]; cbn in Ht, Hd.
  apply Inv_append; [rewrite Hd; reflexivity|]. apply (Inv_eqv s s1); [split; congruence|exact HI].
Qed.

Lemma update_op_Inv s fs r k : Inv s -> Inv (fst (update_op c s fs r k)).
Proof.
  intro HI. unfold update_op. pose proof (update_members_same c fs r k s) as [Ht Hd].
  destruct (update_members c s fs r k) as [[ms hs] s1]; cbn in Ht, Hd.
  apply Inv_append; [rewrite Hd; reflexivity|]. apply (Inv_eqv s s1); [split; congruence|exact HI].
Qed.

Lemma plain_tail_Inv s p hs : rows p = rows (db s) -> Inv s ->
  Inv (fst (let '(ms, s1) := plain_members (set_db s p) hs in
            append_and_index c s1 (last_indexed (db s) (c_rs c)) ms hs false false)).
Proof.
  intros E HI. pose proof (plain_members_same hs (set_db s p)) as [Ht Hd].
  destruct (plain_members (set_db s p) hs) as [ms s1]; cbn in Ht, Hd.
  apply Inv_append; [apply last_indexed_rows; congruence|].
  apply (Inv_eqv s s1); [split; congruence|exact HI].
Qed.

Lemma delete_op_Inv s n : Inv s -> Inv (fst (delete_op c s n)).
Proof.
  intro HI. unfold delete_op. pose proof (lookup_entry_rows (db s) n) as H.
  destruct (lookup_entry (db s) n) as [p [r| | |e]]; cbn [fst] in H; try fin.
  destruct ((r_tf r =? TypeDir) && eqb_str (r_link r) []).
  - pose proof (get_children_rows p n) as H2. destruct (get_children p n) as [p' kids]; cbn [fst] in H2.
    apply plain_tail_Inv; [congruence|exact HI].
  - apply plain_tail_Inv; [congruence|exact HI].
Qed.

Lemma move_op_Inv s a b : Inv s -> Inv (fst (move_op c s a b)).
Proof.
  intro HI. unfold move_op. destruct (eqb_str a b); [fin|].
  pose proof (lookup_entry_rows (db s) a) as H.
  destruct (lookup_entry (db s) a) as [p [r| | |e]]; cbn [fst] in H; try fin.
  destruct (eqb_str a (if is_abs b && negb (is_abs (r_name r)) then trim_prefix [slash] b else b)); [fin|].
  destruct (r_tf r =? TypeDir).
  - pose proof (get_children_rows p a) as H2. destruct (get_children p a) as [p' kids]; cbn [fst] in H2.
    apply plain_tail_Inv; [congruence|exact HI].
  - apply plain_tail_Inv; [congruence|exact HI].
Qed.

Lemma mknode_Inv s d n perm o l i : Inv s -> Inv (fst (mknode c s d n perm o l i)).
Proof. intro HI. unfold mknode. destruct (c_readonly c); [fin|apply archive_op_Inv; exact HI]. Qed.

(* one step of threading: destruct the next call on a state for which the invariant is known *)
Ltac thr_step :=
  match goal with
  | HI : Inv ?s |- context [stat_s ?s ?n ?b] =>
      let E := fresh "E" in let HI' := fresh "HI" in
      pose proof (stat_s_eqv s n b) as E; destruct (stat_s s n b) as [? [?| | |?]]; cbn [fst] in E;
      pose proof (Inv_eqv _ _ E HI) as HI'; clear E; cbv beta iota zeta
  | HI : Inv ?s |- context [parent_check ?s ?n] =>
      let E := fresh "E" in let HI' := fresh "HI" in
      pose proof (parent_check_eqv s n) as E; destruct (parent_check s n) as [? []]; cbn [fst] in E;
      pose proof (Inv_eqv _ _ E HI) as HI'; clear E; cbv beta iota zeta
  | HI : Inv ?s |- context [mknode c ?s ?d ?n ?p ?o ?l ?i] =>
      let HI' := fresh "HI" in
      pose proof (mknode_Inv s d n p o l i HI) as HI'; destruct (mknode c s d n p o l i) as [? []]; cbn [fst] in HI';
      cbv beta iota zeta
  | HI : Inv ?s |- context [delete_op c ?s ?n] =>
      let HI' := fresh "HI" in
      pose proof (delete_op_Inv s n HI) as HI'; destruct (delete_op c s n) as [? []]; cbn [fst] in HI';
      cbv beta iota zeta
  | HI : Inv ?s |- context [move_op c ?s ?a ?b] =>
      let HI' := fresh "HI" in
      pose proof (move_op_Inv s a b HI) as HI'; destruct (move_op c s a b) as [? ?]; cbn [fst] in HI';
      cbv beta iota zeta
  | HI : Inv ?s |- context [update_op c ?s ?fs ?r ?k] =>
      let HI' := fresh "HI" in
      pose proof (update_op_Inv s fs r k HI) as HI'; destruct (update_op c s fs r k) as [? ?]; cbn [fst] in HI';
      cbv beta iota zeta
  | |- context [inv_list ?p ?n ?l] =>
      let H := fresh "Hr" in pose proof (inv_list_rows p n l) as H;
      destruct (inv_list p n l) as [? [[|? ?]| | |?]]; cbn [fst] in H; cbv beta iota zeta
  | |- context [get_root_path ?p] =>
      let H := fresh "Hr" in pose proof (get_root_path_rows p) as H;
      destruct (get_root_path p) as [? [?|]]; cbn [fst] in H; cbv beta iota zeta
  | |- context [if ?b then _ else _] => destruct b; cbv beta iota zeta
  end.

Lemma fs_mkdir_Inv s n perm : Inv s -> Inv (fst (fs_mkdir c s n perm)).
Proof. intro HI. unfold fs_mkdir. repeat thr_step; fin. Qed.

Lemma mkdirall_loop_Inv parts : forall s cur first perm, Inv s -> Inv (fst (mkdirall_loop c s cur first parts perm)).
Proof.
  induction parts as [|part rest IH]; intros s cur first perm HI; cbn [mkdirall_loop]; [fin|].
  set (cur' := if first && eqb_str part [] then [slash] else match cur with [] => part | _ :: _ => path_join2 cur part end).
  clearbody cur'. cbv beta iota zeta.
  repeat (first [ match goal with HI : Inv ?s |- Inv (fst (mkdirall_loop c ?s _ _ _ _)) => apply IH; exact HI end
                | thr_step ]); fin.
Qed.

Lemma fs_mkdirall_Inv s n perm : Inv s -> Inv (fst (fs_mkdirall c s n perm)).
Proof. intro HI. unfold fs_mkdirall. destruct (c_readonly c); [fin|apply mkdirall_loop_Inv; exact HI]. Qed.

Lemma fs_remove_nl_Inv s n : Inv s -> Inv (fst (fs_remove_nl c s n)).
Proof.
  intro HI. unfold fs_remove_nl.
  repeat (first [ match goal with
                  | HI : Inv ?s |- Inv (fst (delete_op c ?s ?n)) => apply delete_op_Inv; exact HI
                  | HI : Inv ?s |- Inv (fst (delete_op c (set_db ?s ?p) ?n)) =>
                      apply delete_op_Inv; apply (Inv_eqv s); [split; cbn; congruence|exact HI]
                  end
                | thr_step ]); fin.
Qed.

Lemma fs_remove_Inv s n : Inv s -> Inv (fst (fs_remove c s n)).
Proof. intro HI. unfold fs_remove. destruct (c_readonly c); [fin|apply fs_remove_nl_Inv; exact HI]. Qed.

Lemma fs_removeall_Inv s n : Inv s -> Inv (fst (fs_removeall c s n)).
Proof. intro HI. unfold fs_removeall. repeat thr_step; fin. Qed.

Lemma fs_rename_Inv s a b : Inv s -> Inv (fst (fs_rename c s a b)).
Proof.
  intro HI. unfold fs_rename. destruct (c_readonly c); [fin|].
  destruct a as [|a0 a']; [fin|]. destruct b as [|b0 b']; [fin|].
  set (old := path_clean (a0 :: a')). set (new := path_clean (b0 :: b')). clearbody old new.
  cbv beta iota zeta.
  pose proof (get_root_path_rows (db s)) as Hr. destruct (get_root_path (db s)) as [p [r|]]; cbn [fst] in Hr; [|fin].
  assert (HI0 : Inv (set_db s p)) by fin.
  set (s0 := set_db s p) in *. clearbody s0. clear HI Hr.
  destruct (eqb_str r old || eqb_str (spelling r) (spelling old)); [fin|].
  repeat (first [ match goal with
                  | HI : Inv ?s |- Inv (fst (move_op c ?s ?a ?b)) => apply move_op_Inv; exact HI
                  | HI : Inv ?s |- context [fs_remove_nl c ?s ?n] =>
                      let HI' := fresh "HI" in
                      pose proof (fs_remove_nl_Inv s n HI) as HI'; destruct (fs_remove_nl c s n) as [? []]; cbn [fst] in HI';
                      cbv beta iota zeta
                  end
                | thr_step ]); fin.
Qed.

Lemma fs_update_meta_Inv s n f : Inv s -> Inv (fst (fs_update_meta c s n f)).
Proof.
  intro HI. unfold fs_update_meta. destruct (c_readonly c); [fin|].
  destruct n as [|n0 n']; [fin|]. set (name := path_clean (n0 :: n')). clearbody name. cbv beta iota zeta.
  repeat (first [ match goal with
                  | HI : Inv ?s |- Inv (fst (update_op c ?s _ _ _)) => apply update_op_Inv; exact HI
                  end
                | thr_step ]); fin.
Qed.

Lemma fs_openfile_Inv s n o perm : Inv s -> Inv (fst (fst (fs_openfile c s n o perm))).
Proof.
  intro HI. unfold fs_openfile. destruct n as [|n0 n']; [fin|]. set (name := path_clean (n0 :: n')). clearbody name.
  set (fl := decode_flags c o). clearbody fl. cbv beta iota zeta.
  repeat thr_step; fin.
Qed.

Lemma fs_create_Inv s n : Inv s -> Inv (fst (fst (fs_create c s n))).
Proof.
  intro HI. unfold fs_create. destruct (c_readonly c); [fin|].
  destruct n as [|n0 n']; [fin|].
  repeat (first [ match goal with
                  | HI : Inv ?s |- Inv (fst (fst (fs_openfile c ?s _ _ _))) => apply fs_openfile_Inv; exact HI
                  end
                | thr_step ]); fin.
Qed.

Lemma handle_close_Inv s hd b : Inv s -> Inv (fst (handle_close c s hd b)).
Proof. intro HI. unfold handle_close. destruct b; [apply update_op_Inv; exact HI|fin]. Qed.

Lemma write_close_Inv s hd d f : Inv s -> Inv (fst (write_close c s hd d f)).
Proof.
  intro HI. unfold write_close.
  assert (K : Inv (fst (match handle_write_all c s hd d with
      | (s0, OOk, Some b) => handle_close c s0 hd (Some b)
      | (s0, e, _) => (s0, e) end))).
  { pose proof (handle_write_all_eqv c s hd d) as H. destruct (handle_write_all c s hd d) as [[s1 o] b]; cbn [fst] in H.
    pose proof (Inv_eqv _ _ H HI) as HI1.
    destruct o; try fin. destruct b as [c0|]; [|fin]. apply handle_close_Inv; exact HI1. }
  destruct d; [destruct f; [exact K|apply handle_close_Inv; exact HI]|exact K].
Qed.

Lemma fs_initialize_Inv s r : Inv s -> Inv (fst (fs_initialize c s r)).
Proof.
  intro HI. unfold fs_initialize.
  pose proof (get_root_path_rows (db s)) as Hr. destruct (get_root_path (db s)) as [p [rt|]]; cbn [fst] in Hr; [fin|].
  assert (HI0 : Inv (set_db s p)) by fin.
  set (s0 := set_db s p) in *. clearbody s0. clear HI Hr.
  assert (K : forall s1, Inv s1 -> Inv (fst (
     if c_readonly c then (s1, OPerm) else
      match mknode c s1 true r 511 true [] true with
      | (s2, OOk) => let '(p1, _) := get_root_path (db s2) in (set_db s2 p1, OOk)
      | x => x end))).
  { intros s1 HI1. repeat thr_step; fin. }
  cbv beta iota zeta.
  destruct (tp s0) eqn:Et; [apply K; exact HI0|]. rewrite <- Et.
  pose proof (Inv_rebuild s0 HI0) as HI1.
  destruct (index_tape c (tp s0) 0 0 None true false (db s0)) as [p2 [u| | |e]]; cbn [fst] in HI1.
  - pose proof (get_root_path_rows p2) as Hr. destruct (get_root_path p2) as [p3 rr]; cbn [fst] in Hr. fin.
  - pose proof (get_root_path_rows p2) as Hr. destruct (get_root_path p2) as [p3 [r1|]]; cbn [fst] in Hr; [fin|].
    apply K. eapply Inv_eqv; [|exact HI1]. split; cbn; congruence.
  - pose proof (get_root_path_rows p2) as Hr. destruct (get_root_path p2) as [p3 [r1|]]; cbn [fst] in Hr; [fin|].
    apply K. eapply Inv_eqv; [|exact HI1]. split; cbn; congruence.
  - pose proof (get_root_path_rows p2) as Hr. destruct (get_root_path p2) as [p3 [r1|]]; cbn [fst] in Hr; [fin|].
    apply K. eapply Inv_eqv; [|exact HI1]. split; cbn; congruence.
Qed.

Theorem step_Inv s k : Inv s -> Inv (fst (step c s k)).
Proof.
  intro HI. destruct k; cbn [step].
  - apply fs_mkdir_Inv; exact HI.
  - apply fs_mkdirall_Inv; exact HI.
  - apply fs_remove_Inv; exact HI.
  - apply fs_removeall_Inv; exact HI.
  - apply fs_rename_Inv; exact HI.
  - apply fs_update_meta_Inv; exact HI.
  - apply fs_update_meta_Inv; exact HI.
  - apply fs_update_meta_Inv; exact HI.
  - pose proof (fs_create_Inv s n HI) as H. destruct (fs_create c s n) as [[s1 o] hd]; cbn [fst] in H.
    destruct o; try fin. destruct hd; [|fin]. apply write_close_Inv; exact H.
  - pose proof (fs_openfile_Inv s n o perm HI) as H. destruct (fs_openfile c s n o perm) as [[s1 o1] hd]; cbn [fst] in H.
    destruct o1; try fin. destruct hd; [|fin]. apply write_close_Inv; exact H.
  - destruct (c_readonly c); [fin|apply archive_op_Inv; exact HI].
  - apply update_op_Inv; exact HI.
  - apply delete_op_Inv; exact HI.
  - apply move_op_Inv; exact HI.
  - apply fs_initialize_Inv; exact HI.
  - apply (Inv_eqv s); [|exact HI]. split; cbn; [reflexivity|apply p_open_rows].
  - fin.
Qed.

Theorem final_Inv h : forall s, Inv s -> Inv (final c s h).
Proof.
  induction h as [|[k e] r IH]; intros s HI; cbn [final]; [exact HI|].
  apply IH. apply step_Inv. apply (Inv_eqv s); [split; reflexivity|exact HI].
Qed.

End Frame.
