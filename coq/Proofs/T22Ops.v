(* T22 / the batched operations: Operations.Archive and Operations.Update with any number of members preserve the
   C01 invariant [Inv true] (and, with it, the T07 tape invariant [TWs]).
   C01Ops.v proves this for the single header the filesystem layer hands to them ([mknode_ok], [update_ok]). *)
From Coq Require Import List NArith ZArith Bool Lia.
From Coq Require Import ZifyN ZifyBool.
Import ListNotations.
From STFS Require Import Str Db Tape Index Ops Fs Diff Prefix Replay Norm TapeLemmas
  C01Str C01Db C01Inv C01Sim C01Tape C01Hdr C01Ops C01Ops2 T07Look T07Core T07Sim T07Inv T22Append.
Open Scope N_scope.

(* ---------- what the caller's headers must satisfy (Prop versions of T22Def.v) *)
Definition name_ok (h : hdr) : Prop := good (h_name h) /\ h_link h = [] /\ usize_ok (h_pax h).
Definition arch_ok (h : hdr) : Prop := name_ok h /\ h_act h = V_create /\ ver_ok h.

Definition chdr (h : hdr) : Prop := hnames_ok true h /\ ver_ok h /\ h_act h = V_create.

Lemma create_hdr_ok h : name_ok h -> h_act h = V_create -> hnames_ok true h.
Proof.
  intros (G & Hk & Hu) Ha. split; try assumption.
  - intros _ K. rewrite Ha in K. discriminate.
  - intros K. rewrite Ha in K. discriminate.
Qed.

(* ---------- list facts *)
Lemma live_name_replace_mono n new l m : Forall rowok l -> r_name new = n -> r_del new = false ->
  live_name l m = true -> live_name (replace_row n [] new l) m = true.
Proof.
  intros Hl Hn Hd. unfold live_name. induction l as [|r t IH]; cbn [replace_row existsb]; [discriminate|].
  inversion Hl as [|? ? Hr Ht]; subst. destruct Hr as (_ & Hk & _). rewrite (key_eq_nil _ r Hk).
  intro H. destruct (eqb_str (r_name r) (r_name new)) eqn:E; cbn [existsb].
  - apply orb_true_iff in H as [H|H]; [|rewrite H; apply orb_true_r].
    apply andb_true_iff in H as [_ H]. apply eqb_str_eq in E. rewrite <- E, H. unfold live. rewrite Hd. reflexivity.
  - apply orb_true_iff in H as [H|H]; [rewrite H; reflexivity|]. rewrite (IH Ht H). apply orb_true_r.
Qed.

Lemma hsz_pax h : h_pax (hsz h) = h_pax h.
Proof. unfold hsz. destruct (usz h); reflexivity. Qed.

(* ---------- one Update record (no rename) on the live index *)
Definition usrc (h : hdr) (lv : pstate) : Prop :=
  live_name (rows lv) (h_name h) = true \/
  (pax_get K_replaces_content (h_pax h) = Some V_true /\ has_name (rows lv) (h_name h) = true).

Lemma live_update_gen c rec blk h lv : plain c -> LI true lv -> hnames_ok true h -> ver_ok h ->
  h_act h = V_update -> h_rep h = None -> usrc h lv ->
  exists lv', index_header c rec blk h false lv = (lv', Ok tt) /\ In (rec, blk) (lks (rows lv')) /\
    (forall m, has_name (rows lv) m = true -> has_name (rows lv') m = true) /\
    (forall m, live_name (rows lv) m = true -> live_name (rows lv') m = true).
Proof.
  intros HP HL HN HV Ha Hr Hs.
  rewrite (index_header_live true c rec blk h lv HP HN).
  destruct (hsz_facts h) as (Ea & Er & En & _).
  pose proof (ih_body_live true rec blk (hsz h) lv HL (hsz_ok true h HN) (hsz_ver h HV)) as LG.
  unfold ih_rows in LG. rewrite Ea, Ha in LG.
  change (eqb_str V_update V_create) with false in LG. change (eqb_str V_update V_delete) with false in LG.
  change (eqb_str V_update V_update) with true in LG. cbn iota in LG.
  rewrite LG. eexists. split; [reflexivity|]. rewrite with_rows_rows.
  assert (Hrows : Forall rowok (rows lv)) by apply HL.
  assert (Hhas : has_name (rows lv) (h_name h) = true).
  { destruct Hs as [Hs|[_ Hs]]; [apply live_name_has; exact Hs|exact Hs]. }
  assert (K : exists new, upd_rows rec blk (hsz h) (rows lv) = replace_row (h_name h) [] new (rows lv) /\
                          r_name new = h_name h /\ r_del new = false /\ r_lkrec new = rec /\ r_lkblk new = blk).
  { unfold upd_rows. rewrite Er, Hr, En, hsz_pax.
    assert (CU : forall r1 r2, exists new,
       replace_row (h_name h) [] (row_of_hdr r1 rec r2 blk (hsz h)) (rows lv) = replace_row (h_name h) [] new (rows lv) /\
       r_name new = h_name h /\ r_del new = false /\ r_lkrec new = rec /\ r_lkblk new = blk).
    { intros r1 r2. eexists. split; [reflexivity|]. cbn [r_name r_del r_lkrec r_lkblk row_of_hdr]. rewrite En. repeat split. }
    destruct Hs as [Hs|[Hs _]].
    - destruct (find_rows_live _ _ Hs) as (x & Ex). rewrite Ex.
      destruct (pax_get K_replaces_content (h_pax h)) as [v|]; [|apply CU].
      destruct (eqb_str v V_true); apply CU.
    - rewrite Hs. change (eqb_str V_true V_true) with true. cbn iota. apply CU. }
  destruct K as (new & -> & N1 & N2 & N3 & N4).
  split; [|split].
  - rewrite <- N3, <- N4. apply stamped_replace; assumption.
  - intros m Hm. rewrite has_name_replace; assumption.
  - intros m Hm. apply live_name_replace_mono; assumption.
Qed.

Section Batch.
Variable c : cfg.
Hypothesis HP : plain c.
Hypothesis Hrs : 0 < c_rs c.

(* ---------- Archive *)
Definition Qarch (hs : list hdr) (lv : pstate) : Prop := Forall chdr hs.

Lemma Qarch_step rec blk h rest lv : LI true lv -> Qarch (h :: rest) lv ->
  exists lv', index_header c rec blk h false lv = (lv', Ok tt) /\ In (rec, blk) (lks (rows lv')) /\ Qarch rest lv'.
Proof.
  intros HL HQ. inversion HQ as [|? ? (A & B & C) Hr]; subst.
  destruct (live_create true c rec blk h lv HP HL A B C) as (lv' & E & St & _).
  exists lv'. split; [exact E|]. split; [exact St|exact Hr].
Qed.

Lemma Qarch_W h rest lv : Qarch (h :: rest) lv -> Wh h lv.
Proof.
  intro HQ. inversion HQ as [|? ? (A & B & C) _]; subst. split; [exact A|]. split; [exact B|].
  intro K. rewrite C in K. discriminate.
Qed.

Lemma archive_members_spec fs : forall s, hbok s -> Forall (fun f => arch_ok (f_hdr f)) fs ->
  exists ms s1, archive_members c s fs = (ms, map m_hdr ms, s1) /\ Forall (fun m => 0 < m_hb m) ms /\
    tp s1 = tp s /\ db s1 = db s /\ hbok s1 /\ Forall chdr (map m_hdr ms) /\ length ms = length fs.
Proof.
  induction fs as [|f r IH]; intros s Hhb HF; cbn [archive_members].
  - exists [], s. cbn. repeat split; try assumption; constructor.
  - inversion HF as [|? ? Hf Hr]; subst. destruct Hf as ((G & Hk & Hu) & Ha & Hv).
    set (h := f_hdr f) in *.
    assert (STEP : exists m s1,
      (if is_reg h && (0 <? h_size h)
       then let '(h', enc, s0) := encode c s h in
            let '(m, s0) := mk_member s0 h' (Some (f_data f)) enc in (m, h', s0)
       else let '(m, s0) := mk_member s h None 0 in (m, h, s0)) = (m, m_hdr m, s1) /\
      0 < m_hb m /\ tp s1 = tp s /\ db s1 = db s /\ hbok s1 /\ chdr (m_hdr m)).
    { destruct (is_reg h && (0 <? h_size h)).
      - unfold encode. destruct (pop_enc_spec s (h_size h)) as (A & B & C).
        destruct (pop_enc s (h_size h)) as [enc s0]. cbn [fst snd] in *.
        assert (Hhb0 : hbok s0) by (unfold hbok; rewrite C; exact Hhb).
        set (h' := with_size_name (set_pax h (pax_set K_usize (decimal (h_size h)) (h_pax h))) enc
                     (if 0 <? enc then add_suffix c (h_name (set_pax h (pax_set K_usize (decimal (h_size h)) (h_pax h))))
                      else h_name (set_pax h (pax_set K_usize (decimal (h_size h)) (h_pax h))))).
        destruct (mk_member_spec s0 h' (Some (f_data f)) enc Hhb0) as (M1 & M2 & M3 & M4 & M5).
        destruct (mk_member s0 h' (Some (f_data f)) enc) as [m s1]. cbn [fst snd] in *.
        exists m, s1. rewrite M1. split; [reflexivity|]. split; [exact M2|]. split; [congruence|]. split; [congruence|].
        split; [exact M5|].
        assert (N' : h_name h' = h_name h).
        { unfold h'. cbn [h_name with_size_name set_pax]. apply suffix_if_plain. exact HP. }
        assert (A' : h_act h' = V_create).
        { unfold h_act, h'. cbn [h_pax with_size_name set_pax]. paxs. exact Ha. }
        assert (V' : ver_ok h').
        { unfold ver_ok, h'. cbn [h_pax with_size_name set_pax]. paxs. exact Hv. }
        split; [|split; [exact V'|exact A']]. apply create_hdr_ok; [|exact A'].
        split; [rewrite N'; exact G|]. split; [exact Hk|]. unfold h'. cbn [h_pax with_size_name set_pax]. apply usize_ok_put.
      - destruct (mk_member_spec s h None 0 Hhb) as (M1 & M2 & M3 & M4 & M5).
        destruct (mk_member s h None 0) as [m s1]. cbn [fst snd] in *.
        exists m, s1. rewrite M1. split; [reflexivity|]. split; [exact M2|]. split; [exact M3|]. split; [exact M4|].
        split; [exact M5|]. split; [|split; [exact Hv|exact Ha]]. apply create_hdr_ok; [|exact Ha]. repeat split; assumption. }
    destruct STEP as (m & s1 & -> & B1 & T1 & T2 & T3 & C1).
    destruct (IH s1 T3 Hr) as (ms & s2 & -> & B2 & U1 & U2 & U3 & C2 & L2).
    exists (m :: ms), s2. cbn [map length]. split; [reflexivity|]. split; [constructor; assumption|].
    split; [congruence|]. split; [congruence|]. split; [exact U3|]. split; [constructor; assumption|]. rewrite L2. reflexivity.
Qed.

(* ---------- Update *)
Definition uhdr (lv : pstate) (h : hdr) : Prop :=
  hnames_ok true h /\ ver_ok h /\ h_act h = V_update /\ h_rep h = None /\ usrc h lv.
Definition Qupd (hs : list hdr) (lv : pstate) : Prop := Forall (uhdr lv) hs.

Lemma Qupd_step rec blk h rest lv : LI true lv -> Qupd (h :: rest) lv ->
  exists lv', index_header c rec blk h false lv = (lv', Ok tt) /\ In (rec, blk) (lks (rows lv')) /\ Qupd rest lv'.
Proof.
  intros HL HQ. inversion HQ as [|? ? (A & B & C & D & F) Hr]; subst.
  destruct (live_update_gen c rec blk h lv HP HL A B C D F) as (lv' & E & St & Fh & Fl).
  exists lv'. split; [exact E|]. split; [exact St|].
  eapply Forall_impl; [|exact Hr]. intros h' (A' & B' & C' & D' & F').
  split; [exact A'|]. split; [exact B'|]. split; [exact C'|]. split; [exact D'|].
  destruct F' as [F'|[F1 F2]]; [left; apply Fl; exact F'|right; split; [exact F1|apply Fh; exact F2]].
Qed.

Lemma Qupd_W h rest lv : Qupd (h :: rest) lv -> Wh h lv.
Proof.
  intro HQ. inversion HQ as [|? ? (A & B & C & D & F) _]; subst. split; [exact A|]. split; [exact B|].
  intros _ o Ho. rewrite D in Ho. discriminate.
Qed.

Lemma update_members_cons s f r replace skip :
  update_members c s (f :: r) replace skip =
  let '(ms1, hs1, s1) := update_members c s [f] replace skip in
  let '(ms, hs, s2) := update_members c s1 r replace skip in (ms1 ++ ms, hs1 ++ hs, s2).
Proof.
  cbn [update_members].
  match goal with |- context [if ?b then encode c s ?h1 else ?x] => destruct (if b then encode c s h1 else x) as [[h2 enc] s0] end.
  destruct replace.
  - match goal with |- context [mk_member s0 ?h3 ?d ?e] => destruct (mk_member s0 h3 d e) as [m s2] end.
    destruct (update_members c s2 r true skip) as [[ms hs] s3]. reflexivity.
  - match goal with |- context [mk_member s0 ?h3 ?d ?e] => destruct (mk_member s0 h3 d e) as [m s2] end.
    destruct (update_members c s2 r false skip) as [[ms hs] s3]. reflexivity.
Qed.

Lemma update_members_rc s f skip m hs s1 :
  update_members c s [f] true skip = ([m], hs, s1) -> pax_get K_replaces_content (h_pax (m_hdr m)) = Some V_true.
Proof.
  cbn [update_members].
  match goal with |- context [if ?b then encode c s ?h1 else ?x] => destruct (if b then encode c s h1 else x) as [[h2 enc] s0] end.
  unfold mk_member. destruct (pop_hb s0) as [hb s2]. intro E. inversion E; subst. cbn [m_hdr h_pax set_pax].
  rewrite pax_get_set. reflexivity.
Qed.

(* the caller's side of [usrc] *)
Definition src_ok (lv : pstate) (replace : bool) (n : str) : Prop :=
  live_name (rows lv) n = true \/ (replace = true /\ has_name (rows lv) n = true).

Lemma update_members_spec replace skip fs : forall s lv, hbok s ->
  Forall (fun f => name_ok (f_hdr f) /\ src_ok lv replace (h_name (f_hdr f))) fs ->
  exists ms s1, update_members c s fs replace skip = (ms, map m_hdr ms, s1) /\ Forall (fun m => 0 < m_hb m) ms /\
    tp s1 = tp s /\ db s1 = db s /\ hbok s1 /\ Forall (uhdr lv) (map m_hdr ms) /\ length ms = length fs.
Proof.
  induction fs as [|f r IH]; intros s lv Hhb HF.
  - exists [], s. cbn. repeat split; try assumption; constructor.
  - inversion HF as [|? ? Hf Hr]; subst. destruct Hf as ((G & Hk & Hu) & Hsrc).
    rewrite update_members_cons.
    destruct (update_members_single true c HP s f replace skip Hhb G Hk Hu)
      as (m & s1 & E & B & T1 & T2 & T3 & X1 & X2 & X3 & X4 & X5).
    assert (RC : replace = true -> pax_get K_replaces_content (h_pax (m_hdr m)) = Some V_true).
    { intros ->. eapply update_members_rc. exact E. }
    rewrite E.
    destruct (IH s1 lv T3 Hr) as (ms & s2 & -> & B2 & U1 & U2 & U3 & C2 & L2).
    exists (m :: ms), s2. cbn [map app length]. split; [reflexivity|]. split; [constructor; assumption|].
    split; [congruence|]. split; [congruence|]. split; [exact U3|]. split; [|rewrite L2; reflexivity].
    constructor; [|exact C2]. split; [exact X1|]. split; [exact X2|]. split; [exact X3|]. split; [exact X4|].
    unfold usrc. rewrite X5. destruct Hsrc as [H|[H1 H2]]; [left; exact H|right; split; [apply RC; exact H1|exact H2]].
Qed.

(* ---------- the operations, C01 invariant only *)
Lemma nil_of_length {A B} (l : list A) (l' : list B) : length l = length l' -> l' <> [] -> l <> [].
Proof. intros H K E. subst l. destruct l'; [contradiction|discriminate]. Qed.

Lemma archive_ok s fs : Inv true c s -> hbok s -> Forall (fun f => arch_ok (f_hdr f)) fs ->
  exists s', archive_op c s fs false false = (s', OOk) /\ Inv true c s' /\ hbok s'.
Proof.
  intros HI Hhb HF. unfold archive_op.
  destruct (archive_members_spec fs s Hhb HF) as (ms & s1 & -> & B & T1 & T2 & T3 & C1 & L).
  assert (HI1 : Inv true c s1) by (eapply Inv_ext; eassumption).
  rewrite <- T2.
  destruct fs as [|f0 fs'].
  - destruct ms; [|discriminate]. cbn [map]. rewrite (append_empty true c s1 Hrs HI1).
    eexists. split; [reflexivity|]. split; [apply Inv_app_nil; exact HI1|exact T3].
  - assert (Hne : ms <> []) by (eapply nil_of_length; [exact L|discriminate]).
    destruct (append_ok_t c HP Hrs Qarch Qarch_step s1 ms HI1 Hne B) as (lv' & E1 & HI' & _).
    { eapply Forall_impl; [|exact C1]. intros h H. apply H. }
    { exact C1. }
    rewrite E1. eexists. split; [reflexivity|]. split; [exact HI'|exact T3].
Qed.

Lemma update_ok_batch s fs replace skip : Inv true c s -> hbok s ->
  Forall (fun f => name_ok (f_hdr f) /\ src_ok (db s) replace (h_name (f_hdr f))) fs ->
  exists s', update_op c s fs replace skip = (s', OOk) /\ Inv true c s' /\ hbok s'.
Proof.
  intros HI Hhb HF. unfold update_op.
  destruct (update_members_spec replace skip fs s (db s) Hhb HF) as (ms & s1 & -> & B & T1 & T2 & T3 & C1 & L).
  assert (HI1 : Inv true c s1) by (eapply Inv_ext; eassumption).
  rewrite <- T2 in C1 |- *.
  destruct fs as [|f0 fs'].
  - destruct ms; [|discriminate]. cbn [map]. rewrite (append_empty true c s1 Hrs HI1).
    eexists. split; [reflexivity|]. split; [apply Inv_app_nil; exact HI1|exact T3].
  - assert (Hne : ms <> []) by (eapply nil_of_length; [exact L|discriminate]).
    destruct (append_ok_t c HP Hrs Qupd Qupd_step s1 ms HI1 Hne B) as (lv' & E1 & HI' & _).
    { eapply Forall_impl; [|exact C1]. intros h H. apply H. }
    { exact C1. }
    rewrite E1. eexists. split; [reflexivity|]. split; [exact HI'|exact T3].
Qed.

(* ---------- the operations, C01 + T07 invariants *)
Lemma archive_ok2 s fs : Inv true c s -> HB c s -> Forall (fun f => arch_ok (f_hdr f)) fs ->
  exists s', archive_op c s fs false false = (s', OOk) /\ Inv true c s' /\ HB c s'.
Proof.
  intros HI [Hhb HT] HF. unfold archive_op.
  destruct (archive_members_spec fs s Hhb HF) as (ms & s1 & -> & B & T1 & T2 & T3 & C1 & L).
  assert (HI1 : Inv true c s1) by (eapply Inv_ext; eassumption).
  assert (HT1 : TWs c s1) by (eapply TWs_ext; eassumption).
  rewrite <- T2.
  destruct fs as [|f0 fs'].
  - destruct ms; [|discriminate]. cbn [map]. rewrite (append_empty true c s1 Hrs HI1).
    eexists. split; [reflexivity|]. split; [apply Inv_app_nil; exact HI1|]. split; [exact T3|apply TWs_app_nil; exact HT1].
  - assert (Hne : ms <> []) by (eapply nil_of_length; [exact L|discriminate]).
    destruct (append_ok2_t c HP Hrs Qarch Qarch_step Qarch_W s1 ms HI1 HT1 Hne B) as (lv' & E1 & HI' & _ & HT').
    { eapply Forall_impl; [|exact C1]. intros h H. apply H. }
    { exact C1. }
    rewrite E1. eexists. split; [reflexivity|]. split; [exact HI'|]. split; [exact T3|exact HT'].
Qed.

Lemma update_ok2_batch s fs replace skip : Inv true c s -> HB c s ->
  Forall (fun f => name_ok (f_hdr f) /\ src_ok (db s) replace (h_name (f_hdr f))) fs ->
  exists s', update_op c s fs replace skip = (s', OOk) /\ Inv true c s' /\ HB c s'.
Proof.
  intros HI [Hhb HT] HF. unfold update_op.
  destruct (update_members_spec replace skip fs s (db s) Hhb HF) as (ms & s1 & -> & B & T1 & T2 & T3 & C1 & L).
  assert (HI1 : Inv true c s1) by (eapply Inv_ext; eassumption).
  assert (HT1 : TWs c s1) by (eapply TWs_ext; eassumption).
  rewrite <- T2 in C1 |- *.
  destruct fs as [|f0 fs'].
  - destruct ms; [|discriminate]. cbn [map]. rewrite (append_empty true c s1 Hrs HI1).
    eexists. split; [reflexivity|]. split; [apply Inv_app_nil; exact HI1|]. split; [exact T3|apply TWs_app_nil; exact HT1].
  - assert (Hne : ms <> []) by (eapply nil_of_length; [exact L|discriminate]).
    destruct (append_ok2_t c HP Hrs Qupd Qupd_step Qupd_W s1 ms HI1 HT1 Hne B) as (lv' & E1 & HI' & _ & HT').
    { eapply Forall_impl; [|exact C1]. intros h H. apply H. }
    { exact C1. }
    rewrite E1. eexists. split; [reflexivity|]. split; [exact HI'|]. split; [exact T3|exact HT'].
Qed.
End Batch.
