(* C01 / string layer: cleaned absolute names ("good" names), path_clean on absolute names,
   the two spellings produced by getSanitizedPath, norm_name. *)
From Coq Require Import List NArith ZArith Bool Lia.
From Coq Require Import ZifyN ZifyBool.
Import ListNotations.
From STFS Require Import Str Db Norm.
Open Scope N_scope.

(* ---------- eqb_str *)
Lemma eqb_str_eq a : forall b, eqb_str a b = true <-> a = b.
Proof.
  induction a as [|x a IH]; intros [|y b]; cbn; split; intro H; try reflexivity; try discriminate.
  - apply andb_true_iff in H as [H1 H2]. apply N.eqb_eq in H1. apply IH in H2. congruence.
  - inversion H; subst. rewrite N.eqb_refl. cbn. apply IH. reflexivity.
Qed.
Lemma eqb_str_refl a : eqb_str a a = true.
Proof. apply eqb_str_eq. reflexivity. Qed.
Lemma eqb_str_neq a b : eqb_str a b = false <-> a <> b.
Proof.
  split.
  - intros H E. apply eqb_str_eq in E. congruence.
  - intro H. destruct (eqb_str a b) eqn:E; [|reflexivity]. apply eqb_str_eq in E. contradiction.
Qed.
Lemma eqb_str_sym a b : eqb_str a b = eqb_str b a.
Proof.
  destruct (eqb_str a b) eqn:E1, (eqb_str b a) eqn:E2; try reflexivity.
  - apply eqb_str_eq in E1. subst. rewrite eqb_str_refl in E2. discriminate.
  - apply eqb_str_eq in E2. subst. rewrite eqb_str_refl in E1. discriminate.
Qed.

(* ---------- components *)
Definition noslash (c : str) : Prop := ~ In slash c.
Definition okc (c : str) : Prop := c <> [] /\ c <> [dot] /\ c <> [dot; dot] /\ noslash c.
Definition good (n : str) : Prop := exists cs, Forall okc cs /\ n = slash :: join_slash cs.

Lemma good_root : good [slash].
Proof. exists []. split; [constructor|reflexivity]. Qed.

Lemma good_abs n : good n -> is_abs n = true.
Proof. intros (cs & _ & ->). reflexivity. Qed.

Lemma good_nonempty n : good n -> n <> [].
Proof. intros (cs & _ & ->). discriminate. Qed.

(* ---------- split / join *)
Lemma split_aux_app a : forall b cur, split_aux (a ++ slash :: b) cur = split_aux a cur ++ split_slash b.
Proof.
  induction a as [|x a IH]; intros b cur.
  - cbn. reflexivity.
  - cbn [app split_aux]. destruct (x =? slash).
    + rewrite IH. reflexivity.
    + apply IH.
Qed.

Lemma split_aux_noslash a : forall cur, noslash a -> split_aux a cur = [rev cur ++ a].
Proof.
  induction a as [|x a IH]; intros cur H.
  - cbn. rewrite app_nil_r. reflexivity.
  - cbn [split_aux]. destruct (x =? slash) eqn:E.
    + apply N.eqb_eq in E. subst. exfalso. apply H. left. reflexivity.
    + rewrite IH.
      * cbn. rewrite <- app_assoc. reflexivity.
      * intro K. apply H. right. exact K.
Qed.

Lemma split_slash_app a b : split_slash (a ++ slash :: b) = split_slash a ++ split_slash b.
Proof. apply split_aux_app. Qed.

Lemma split_slash_cons_slash y : split_slash (slash :: y) = [] :: split_slash y.
Proof. reflexivity. Qed.

Lemma split_join cs : cs <> [] -> Forall noslash cs -> split_slash (join_slash cs) = cs.
Proof.
  induction cs as [|a cs IH]; intros Hn Hf; [contradiction|].
  inversion Hf as [|? ? Ha Hcs]; subst.
  destruct cs as [|b r].
  - cbn. unfold split_slash. rewrite split_aux_noslash by exact Ha. reflexivity.
  - change (join_slash (a :: b :: r)) with (a ++ slash :: join_slash (b :: r)).
    rewrite split_slash_app. rewrite IH; [|discriminate|exact Hcs].
    unfold split_slash. rewrite split_aux_noslash by exact Ha. reflexivity.
Qed.

Lemma noslash_rev cur : noslash cur -> noslash (rev cur).
Proof. intros H K. apply H. apply in_rev. exact K. Qed.

Lemma split_aux_noslash_all x : forall cur, noslash cur -> Forall noslash (split_aux x cur).
Proof.
  induction x as [|c x IH]; intros cur H; cbn.
  - constructor; [|constructor]. apply noslash_rev. exact H.
  - destruct (c =? slash) eqn:E.
    + constructor.
      * apply noslash_rev. exact H.
      * apply IH. intros [].
    + apply IH. intros [K|K]; [|apply H; exact K]. subst. rewrite N.eqb_refl in E. discriminate.
Qed.

Lemma split_slash_noslash x : Forall noslash (split_slash x).
Proof. apply split_aux_noslash_all. intros []. Qed.

Lemma okc_noslash cs : Forall okc cs -> Forall noslash cs.
Proof. intro H. eapply Forall_impl; [|exact H]. intros a (_ & _ & _ & K). exact K. Qed.

(* ---------- clean_comps *)
Lemma okc_flags c : okc c -> eqb_str c [] = false /\ is_dot c = false /\ is_dotdot c = false.
Proof.
  intros (H1 & H2 & H3 & _). unfold is_dot, is_dotdot. repeat split; apply eqb_str_neq; assumption.
Qed.

Lemma clean_comps_ok rooted l : forall stk, Forall (fun c => okc c \/ c = []) l ->
  clean_comps rooted l stk = rev stk ++ filter (fun c => negb (eqb_str c [])) l.
Proof.
  induction l as [|c l IH]; intros stk H; cbn [clean_comps filter].
  - rewrite app_nil_r. reflexivity.
  - inversion H as [|? ? Hc Hl]; subst. destruct Hc as [Hc|Hc].
    + destruct (okc_flags c Hc) as (E1 & E2 & E3). rewrite E1, E2, E3. cbn [orb negb].
      rewrite IH by exact Hl. cbn [rev]. rewrite <- app_assoc. reflexivity.
    + subst c. cbn. apply IH. exact Hl.
Qed.

Lemma clean_comps_rooted_okc l : forall stk, Forall noslash l -> Forall okc stk ->
  Forall okc (clean_comps true l stk).
Proof.
  induction l as [|c l IH]; intros stk Hl Hs; cbn [clean_comps].
  - apply Forall_rev. exact Hs.
  - inversion Hl as [|? ? Hc Hl']; subst.
    destruct (eqb_str c []) eqn:E1; cbn [orb]; [apply IH; assumption|].
    destruct (is_dot c) eqn:E2; [apply IH; assumption|].
    destruct (is_dotdot c) eqn:E3.
    + destruct stk as [|top stk']; [apply IH; assumption|].
      inversion Hs as [|? ? Ht Hs']; subst.
      destruct (okc_flags top Ht) as (_ & _ & E). rewrite E. apply IH; assumption.
    + apply IH; [assumption|]. constructor; [|assumption].
      unfold is_dot, is_dotdot in *. apply eqb_str_neq in E1, E2, E3. repeat split; assumption.
Qed.

Lemma filter_nonempty_okc cs : Forall okc cs -> filter (fun c => negb (eqb_str c [])) cs = cs.
Proof.
  induction cs as [|a cs IH]; intro H; cbn; [reflexivity|].
  inversion H as [|? ? Ha Hcs]; subst. destruct (okc_flags a Ha) as (E & _). rewrite E. cbn. rewrite IH by exact Hcs. reflexivity.
Qed.

(* ---------- path_clean on absolute names *)
Lemma path_clean_abs_good x : is_abs x = true -> good (path_clean x).
Proof.
  destruct x as [|c y]; cbn [is_abs]; [discriminate|]. intro E.
  unfold path_clean. rewrite E. eexists. split; [|reflexivity].
  apply clean_comps_rooted_okc; [apply split_slash_noslash|constructor].
Qed.

Lemma path_clean_good n : good n -> path_clean n = n.
Proof.
  intros (cs & Hcs & ->). unfold path_clean. rewrite N.eqb_refl. f_equal.
  rewrite split_slash_cons_slash.
  destruct cs as [|a r].
  - reflexivity.
  - rewrite split_join; [|discriminate|apply okc_noslash; exact Hcs].
    rewrite clean_comps_ok.
    + replace (filter (fun c : str => negb (eqb_str c [])) ([] :: a :: r)) with (filter (fun c : str => negb (eqb_str c [])) (a :: r)) by reflexivity.
      rewrite (filter_nonempty_okc (a :: r)) by exact Hcs. reflexivity.
    + constructor; [right; reflexivity|]. eapply Forall_impl; [|exact Hcs]. intros; left; assumption.
Qed.

(* first byte of a non-empty join of ok components is not a slash *)
Lemma okc_head a : okc a -> exists x t, a = x :: t /\ (x =? slash) = false.
Proof.
  intros (H1 & _ & _ & H4). destruct a as [|x t]; [contradiction|]. exists x, t. split; [reflexivity|].
  destruct (x =? slash) eqn:E; [|reflexivity]. apply N.eqb_eq in E. subst. exfalso. apply H4. left. reflexivity.
Qed.

Lemma join_head a r : okc a -> exists x t, join_slash (a :: r) = x :: t /\ (x =? slash) = false.
Proof.
  intro H. destruct (okc_head a H) as (x & t & -> & E). destruct r as [|b r].
  - exists x, t. split; [reflexivity|exact E].
  - exists x, (t ++ slash :: join_slash (b :: r)). split; [reflexivity|exact E].
Qed.

Lemma path_clean_rel cs : cs <> [] -> Forall okc cs -> path_clean (join_slash cs) = join_slash cs.
Proof.
  intros Hn Hcs. destruct cs as [|a r]; [contradiction|].
  inversion Hcs as [|? ? Ha Hr]; subst.
  destruct (join_head a r Ha) as (x & t & E & Ex).
  unfold path_clean. rewrite E. rewrite Ex. rewrite <- E.
  rewrite split_join; [|discriminate|apply okc_noslash; exact Hcs].
  rewrite clean_comps_ok by (eapply Forall_impl; [|exact Hcs]; intros; left; assumption).
  cbn [rev app]. rewrite filter_nonempty_okc by exact Hcs. rewrite E. reflexivity.
Qed.

(* ---------- the two spellings *)
Lemma norm_name_good cs : norm_name (slash :: join_slash cs) = join_slash cs.
Proof. reflexivity. Qed.

Lemma norm_name_abs n : is_abs n = true -> n = slash :: norm_name n.
Proof.
  destruct n as [|c r]; cbn; [discriminate|]. intro E. rewrite E. apply N.eqb_eq in E. subst. reflexivity.
Qed.

Lemma norm_name_inj a b : is_abs a = true -> is_abs b = true -> norm_name a = norm_name b -> a = b.
Proof. intros Ha Hb E. rewrite (norm_name_abs a Ha), (norm_name_abs b Hb), E. reflexivity. Qed.

Lemma norm_eqb a b : is_abs a = true -> is_abs b = true -> eqb_str (norm_name a) (norm_name b) = eqb_str a b.
Proof.
  intros Ha Hb. destruct (eqb_str a b) eqn:E.
  - apply eqb_str_eq in E. subst. apply eqb_str_refl.
  - apply eqb_str_neq. intro K. apply eqb_str_neq in E. apply E. apply norm_name_inj; assumption.
Qed.

Lemma good_is_root n : good n -> is_root_name n = true <-> n = [slash].
Proof.
  intros (cs & Hcs & ->). split.
  - intro H. destruct (join_slash cs); [reflexivity|]. unfold is_root_name in H. cbn in H. discriminate.
  - intro E. rewrite E. reflexivity.
Qed.

Lemma good_is_root_false n : good n -> n <> [slash] -> is_root_name n = false.
Proof.
  intros G H. destruct (is_root_name n) eqn:E; [|reflexivity]. apply (good_is_root n G) in E. contradiction.
Qed.

Lemma trim_prefix_slash y : trim_prefix [slash] (slash :: y) = y.
Proof. unfold trim_prefix. cbn. reflexivity. Qed.

(* what a rebuilt index (root "") stores for a cleaned absolute non-root name *)
Lemma reb_spelling n : good n -> n <> [slash] ->
  path_join2 [] (trim_prefix [slash] n) = norm_name n.
Proof.
  intros (cs & Hcs & ->) Hn. rewrite trim_prefix_slash. cbn [norm_name]. rewrite N.eqb_refl.
  destruct cs as [|a r]; [exfalso; apply Hn; reflexivity|].
  inversion Hcs as [|? ? Ha Hr]; subst.
  destruct (join_head a r Ha) as (x & t & E & Ex).
  unfold path_join2. rewrite E. rewrite <- E. apply path_clean_rel; [discriminate|exact Hcs].
Qed.

(* ---------- joins of good names *)
Lemma path_join2_good a b : good a -> good (path_join2 a b).
Proof.
  intro G. pose proof (good_abs a G) as Ha. destruct a as [|c a']; [discriminate|].
  unfold path_join2. destruct b as [|d b'].
  - apply path_clean_abs_good. exact Ha.
  - apply path_clean_abs_good. cbn in *. exact Ha.
Qed.

Lemma last_slash_aux_pos x : forall i best, (1 <= best)%nat -> (1 <= last_slash_aux x i best)%nat.
Proof.
  induction x as [|c x IH]; intros i best H; cbn; [exact H|].
  apply IH. destruct (c =? slash); lia.
Qed.

Lemma path_dir_good n : is_abs n = true -> good (path_dir n).
Proof.
  intro H. unfold path_dir. apply path_clean_abs_good.
  destruct n as [|c y]; [discriminate|]. cbn in H. unfold upto_last_slash. cbn [last_slash_aux]. rewrite H.
  pose proof (last_slash_aux_pos y 1 1 ltac:(lia)) as K.
  destruct (last_slash_aux y 1 1) as [|k]; [lia|]. cbn. exact H.
Qed.

(* ---------- has_prefix / trim *)
Lemma has_prefix_app' p x : has_prefix p (p ++ x) = true.
Proof. induction p as [|a p IH]; cbn; [reflexivity|]. now rewrite N.eqb_refl, IH. Qed.

Lemma has_prefix_split' p : forall x, has_prefix p x = true -> exists y, x = p ++ y.
Proof.
  induction p as [|a p IH]; intros x H; [exists x; reflexivity|].
  destruct x as [|b x]; cbn in H; [discriminate|].
  apply andb_true_iff in H as [Hab Hp]. apply N.eqb_eq in Hab; subst b.
  destruct (IH x Hp) as [y ->]. exists y. reflexivity.
Qed.

Lemma trim_prefix_app p x : trim_prefix p (p ++ x) = x.
Proof.
  unfold trim_prefix. rewrite has_prefix_app'.
  induction p as [|a p IH]; cbn; [reflexivity|exact IH].
Qed.

Lemma has_suffix_nil x : has_suffix [] x = true.
Proof. reflexivity. Qed.

Lemma trim_suffix_nil x : trim_suffix [] x = x.
Proof. unfold trim_suffix. cbn. rewrite Nat.sub_0_r. apply firstn_all. Qed.

(* two prefixes of one string are comparable *)
Lemma has_prefix_comparable p : forall q x, has_prefix p x = true -> has_prefix q x = true ->
  has_prefix p q = true \/ has_prefix q p = true.
Proof.
  induction p as [|a p IH]; intros q x Hp Hq; [left; reflexivity|].
  destruct q as [|b q]; [right; reflexivity|].
  destruct x as [|c x]; cbn in Hp, Hq; [discriminate|].
  apply andb_true_iff in Hp as [E1 Hp]. apply andb_true_iff in Hq as [E2 Hq].
  apply N.eqb_eq in E1, E2. subst. cbn. rewrite N.eqb_refl. cbn. eapply IH; eassumption.
Qed.

Lemma has_prefix_refl p : has_prefix p p = true.
Proof. induction p; cbn; [reflexivity|]. now rewrite N.eqb_refl. Qed.

Lemma has_prefix_length p : forall x, has_prefix p x = true -> (length p <= length x)%nat.
Proof.
  induction p as [|a p IH]; intros x H; cbn; [lia|]. destruct x as [|b x]; cbn in H; [discriminate|].
  apply andb_true_iff in H as [_ H]. apply IH in H. cbn. lia.
Qed.

(* a good non-root name does not end in a slash *)
Lemma has_suffix_slash x : has_suffix [slash] x = match rev x with c :: _ => slash =? c | [] => false end.
Proof.
  unfold has_suffix. cbn [rev app has_prefix]. destruct (rev x); [reflexivity|]. apply andb_true_r.
Qed.

Lemma okc_last a : okc a -> exists t x, rev a = x :: t /\ (slash =? x) = false.
Proof.
  intros (H1 & _ & _ & H4). destruct (rev a) as [|x t] eqn:E.
  - apply (f_equal (@rev N)) in E. rewrite rev_involutive in E. cbn in E. contradiction.
  - exists t, x. split; [reflexivity|]. destruct (slash =? x) eqn:Ex; [|reflexivity].
    apply N.eqb_eq in Ex. subst x. exfalso. apply H4. apply in_rev. rewrite E. left. reflexivity.
Qed.

Lemma join_last cs : cs <> [] -> Forall okc cs -> exists t x, rev (join_slash cs) = x :: t /\ (slash =? x) = false.
Proof.
  induction cs as [|a r IH]; intros Hn H; [contradiction|].
  inversion H as [|? ? Ha Hr]; subst.
  destruct r as [|b r'].
  - cbn [join_slash]. apply okc_last. exact Ha.
  - change (join_slash (a :: b :: r')) with (a ++ slash :: join_slash (b :: r')).
    destruct (IH ltac:(discriminate) Hr) as (t & x & E & Ex).
    rewrite rev_app_distr. cbn [rev]. rewrite E. cbn [app]. eexists _, x. split; [reflexivity|exact Ex].
Qed.

Lemma trim_suffix_false p x : has_suffix p x = false -> trim_suffix p x = x.
Proof. unfold trim_suffix. intros ->. reflexivity. Qed.

Lemma good_no_trailing n : good n -> n <> [slash] -> has_suffix [slash] n = false.
Proof.
  intros (cs & Hcs & ->) Hn.
  destruct cs as [|a r]; [exfalso; apply Hn; reflexivity|].
  destruct (join_last (a :: r) ltac:(discriminate) Hcs) as (t & x & E & Ex).
  rewrite has_suffix_slash. cbn [rev]. rewrite E. cbn [app]. exact Ex.
Qed.

Lemma good_trim_slash n : good n -> n <> [slash] -> trim_suffix [slash] n = n.
Proof. intros G Hn. apply trim_suffix_false. apply good_no_trailing; assumption. Qed.

Lemma root_trim_slash : trim_suffix [slash] [slash] = [].
Proof. reflexivity. Qed.

(* ---------- names below a directory and their renamed spelling (Move) *)
Lemma join_app a b : a <> [] -> b <> [] -> join_slash (a ++ b) = join_slash a ++ slash :: join_slash b.
Proof.
  induction a as [|x a IH]; intros Ha Hb; [contradiction|].
  destruct a as [|y a'].
  - cbn [app]. destruct b as [|z b']; [contradiction|]. reflexivity.
  - change (join_slash ((x :: y :: a') ++ b)) with (x ++ slash :: join_slash ((y :: a') ++ b)).
    rewrite IH by (try discriminate; assumption).
    change (join_slash (x :: y :: a')) with (x ++ slash :: join_slash (y :: a')).
    rewrite <- app_assoc. reflexivity.
Qed.

Lemma split_slash_nonempty y : split_slash y <> [].
Proof.
  unfold split_slash. generalize (@nil N). induction y as [|c y IH]; intro cur; cbn; [discriminate|].
  destruct (c =? slash); [discriminate|apply IH].
Qed.

Lemma below_decompose from k : good from -> from <> [slash] -> good k -> has_prefix (from ++ [slash]) k = true ->
  exists fcs rcs, fcs <> [] /\ rcs <> [] /\ Forall okc fcs /\ Forall okc rcs /\
    from = slash :: join_slash fcs /\ k = slash :: join_slash (fcs ++ rcs).
Proof.
  intros (fcs & Hf & ->) Hn (cs & Hc & ->) Hp.
  assert (Hfn : fcs <> []) by (intro K; subst; apply Hn; reflexivity).
  apply has_prefix_split' in Hp as (y & E).
  cbn [app] in E. inversion E as [E']. clear E. rewrite <- app_assoc in E'. cbn [app] in E'.
  assert (Hcn : cs <> []).
  { intro K. subst cs. cbn in E'. destruct (join_slash fcs); discriminate. }
  pose proof (f_equal split_slash E') as S.
  rewrite split_join in S; [|exact Hcn|apply okc_noslash; exact Hc].
  rewrite split_slash_app in S. rewrite split_join in S; [|exact Hfn|apply okc_noslash; exact Hf].
  exists fcs, (split_slash y). split; [exact Hfn|]. split; [apply split_slash_nonempty|]. split; [exact Hf|].
  split; [|split; [reflexivity|rewrite S; reflexivity]].
  rewrite S in Hc. apply Forall_app in Hc. apply Hc.
Qed.

Lemma trim_prefix_self x : trim_prefix x x = [].
Proof. rewrite <- (app_nil_r x) at 2. apply trim_prefix_app. Qed.

Lemma move_name_self from to : good from -> good to ->
  path_join2 to (trim_prefix (trim_prefix [slash] from) (trim_prefix [slash] from)) = to.
Proof.
  intros Gf Gt. rewrite trim_prefix_self. pose proof (good_nonempty to Gt).
  unfold path_join2. destruct to as [|c t]; [contradiction|]. apply path_clean_good. exact Gt.
Qed.

Lemma move_name_below from to k : good from -> from <> [slash] -> good to -> to <> [slash] -> good k ->
  has_prefix (from ++ [slash]) k = true ->
  exists rest, k = from ++ [slash] ++ rest /\
    path_join2 to (trim_prefix (trim_prefix [slash] from) (trim_prefix [slash] k)) = to ++ [slash] ++ rest.
Proof.
  intros Gf Hf Gt Ht Gk Hp.
  destruct (below_decompose from k Gf Hf Gk Hp) as (fcs & rcs & Hfn & Hrn & Ff & Fr & -> & ->).
  destruct Gt as (tcs & Ft & ->).
  assert (Htn : tcs <> []) by (intro K; subst; apply Ht; reflexivity).
  exists (join_slash rcs). split.
  { rewrite (join_app fcs rcs Hfn Hrn). cbn [app]. reflexivity. }
  rewrite !trim_prefix_slash. rewrite (join_app fcs rcs Hfn Hrn). rewrite trim_prefix_app.
  unfold path_join2. cbn [app].
  unfold path_clean. rewrite N.eqb_refl.
  change (slash :: join_slash tcs ++ slash :: slash :: join_slash rcs)
    with (slash :: (join_slash tcs ++ slash :: slash :: join_slash rcs)).
  rewrite split_slash_cons_slash. rewrite split_slash_app. rewrite split_slash_cons_slash.
  rewrite split_join; [|exact Htn|apply okc_noslash; exact Ft].
  rewrite split_join; [|exact Hrn|apply okc_noslash; exact Fr].
  rewrite clean_comps_ok.
  2:{ constructor; [right; reflexivity|]. apply Forall_app. split.
      - eapply Forall_impl; [|exact Ft]. intros; left; assumption.
      - constructor; [right; reflexivity|]. eapply Forall_impl; [|exact Fr]. intros; left; assumption. }
  cbn [rev app].
  replace (filter (fun c : str => negb (eqb_str c [])) ([] :: tcs ++ [] :: rcs)) with (tcs ++ rcs).
  2:{ change ([] :: tcs ++ [] :: rcs) with (([] : str) :: (tcs ++ (([] : str) :: rcs))).
      cbn [filter eqb_str negb]. rewrite filter_app. cbn [filter eqb_str negb].
      rewrite (filter_nonempty_okc tcs Ft), (filter_nonempty_okc rcs Fr). reflexivity. }
  rewrite (join_app tcs rcs Htn Hrn). cbn [app]. reflexivity.
Qed.

Lemma has_prefix_sep a b s : has_prefix (a ++ [s]) (b ++ [s]) = true -> a = b \/ has_prefix (a ++ [s]) b = true.
Proof.
  intro H. apply has_prefix_split' in H as (y & E).
  destruct y as [|y0 yt].
  - left. rewrite app_nil_r in E. apply app_inj_tail in E. symmetry. apply E.
  - right. assert (Hne : y0 :: yt <> []) by discriminate.
    destruct (exists_last Hne) as (y' & l & Ey). rewrite Ey in E.
    rewrite !app_assoc in E. apply app_inj_tail in E as [E _]. subst b.
    apply has_prefix_app'.
Qed.
