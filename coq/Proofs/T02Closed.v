(* T02 / the tree shape [closed] is preserved by the reference operations (hence, through the theorems of
   T02Spec.v, by the calls of the implementation). *)
From Coq Require Import List NArith ZArith Bool Lia.
From Coq Require Import ZifyN ZifyBool.
Import ListNotations.
From STFS Require Import Str Db Tape Index Ops Fs Diff Norm StrLemmas C01Str C01Db C01Inv C01Sim C01Ops C01Ops2
  T02Ns T02Db T02Reads T02Str.
Open Scope N_scope.

Definition names_good (a : ns) : Prop := forall m v, lookup a m = Some v -> good m.

Lemma closed_ns_eq a b : ns_eq a b -> closed a -> closed b.
Proof.
  intros E H m v Hm p Gp Hb. rewrite <- E in Hm. destruct (H m v Hm p Gp Hb) as (d & Hd & Hdir).
  exists d. rewrite <- E. split; assumption.
Qed.

Lemma names_good_ns_eq a b : ns_eq a b -> names_good a -> names_good b.
Proof. intros E H m v Hm. rewrite <- E in Hm. exact (H m v Hm). Qed.

Lemma lookup_some_in a m v : lookup a m = Some v -> exists e, In e a /\ fst e = m.
Proof.
  unfold lookup. destruct (find (fun e => eqb_str (fst e) m) a) as [e|] eqn:F; [|discriminate].
  intros _. apply find_some in F as [A B]. apply eqb_str_eq in B. exists e. split; assumption.
Qed.

Lemma below_neq p n : below p n = true -> eqb_str p n = false.
Proof.
  intro H. apply eqb_str_neq. intro K. subst p. rewrite below_irrefl in H. discriminate.
Qed.

(* ---------- Mkdir *)
Lemma closed_set_dir a n v pd : names_good a -> good n -> closed a ->
  lookup a (path_dir n) = Some pd -> is_dir pd = true -> lookup a n = None ->
  closed (ns_set a n v).
Proof.
  intros Hg G Hc Hp Hpd Hn m v' Hm p Gp Hb. rewrite lookup_ns_set in Hm. rewrite lookup_ns_set.
  destruct (eqb_str m n) eqn:E.
  - apply eqb_str_eq in E. subst m. rewrite (below_neq p n Hb).
    destruct (below_parent p n Gp G Hb) as [->|Hb'].
    + exists pd. split; assumption.
    + exact (Hc (path_dir n) pd Hp p Gp Hb').
  - destruct (Hc m v' Hm p Gp Hb) as (d & Hd & Hdir). exists d. split; [|exact Hdir].
    destruct (eqb_str p n) eqn:E2; [|exact Hd]. apply eqb_str_eq in E2. subst p. congruence.
Qed.

Lemma closed_mkdir c a n perm now : names_good a -> good n -> closed a -> closed (fst (spec_mkdir c a n perm now)).
Proof.
  intros Hg G Hc. unfold spec_mkdir, spec_parent.
  destruct (lookup a (path_dir n)) as [pd|] eqn:Ep; [|exact Hc].
  destruct (is_dir pd) eqn:Ed; [|exact Hc].
  destruct (lookup a n) eqn:En; [exact Hc|]. cbn [fst]. eapply closed_set_dir; eassumption.
Qed.

(* ---------- Remove *)
Lemma has_below_false a n m v : has_below a n = false -> lookup a m = Some v -> below n m = false.
Proof.
  intros H Hm. destruct (below n m) eqn:E; [|reflexivity]. exfalso.
  destruct (lookup_some_in a m v Hm) as (e & He & <-).
  assert (has_below a n = true); [|congruence]. unfold has_below. apply existsb_exists. exists e. split; assumption.
Qed.

Lemma closed_remove a n : names_good a -> good n -> closed a -> closed (fst (spec_remove a n)).
Proof.
  intros Hg G Hc. unfold spec_remove. destruct (lookup a n) as [v|] eqn:En; [|exact Hc].
  destruct (is_dir v && has_below a n) eqn:Ev; [exact Hc|]. cbn [fst].
  intros m v' Hm p Gp Hb. rewrite lookup_ns_del in Hm. rewrite lookup_ns_del.
  destruct (eqb_str m n) eqn:E; [discriminate|].
  destruct (Hc m v' Hm p Gp Hb) as (d & Hd & Hdir). exists d. split; [|exact Hdir].
  destruct (eqb_str p n) eqn:E2; [|exact Hd]. exfalso. apply eqb_str_eq in E2. subst p.
  rewrite En in Hd. inversion Hd; subst d. rewrite Hdir in Ev. cbn [andb] in Ev.
  rewrite (has_below_false a n m v' Ev Hm) in Hb. discriminate.
Qed.

(* ---------- RemoveAll *)
Lemma closed_remove_all a n : names_good a -> good n -> closed a -> closed (fst (spec_remove_all a n)).
Proof.
  intros Hg G Hc. unfold spec_remove_all. destruct (lookup a n) as [v|] eqn:En; [|exact Hc]. cbn [fst].
  intros m v' Hm p Gp Hb.
  rewrite (lookup_filter (fun x => eqb_str x n || below n x)) in Hm.
  rewrite (lookup_filter (fun x => eqb_str x n || below n x)).
  destruct (eqb_str m n || below n m) eqn:E; [discriminate|].
  destruct (Hc m v' Hm p Gp Hb) as (d & Hd & Hdir). exists d. split; [|exact Hdir].
  destruct (eqb_str p n || below n p) eqn:E2; [|exact Hd]. exfalso.
  assert (below n m = true) by (apply (inside_trans n p m); try assumption; exact (Hg m v' Hm)).
  rewrite H, orb_true_r in E. discriminate.
Qed.

(* ---------- Chmod / Chown / Chtimes *)
Lemma closed_ch a n f : (forall v, is_dir (f v) = is_dir v) -> closed a -> closed (fst (spec_ch a n f)).
Proof.
  intros Hf Hc. unfold spec_ch. destruct (lookup a n) as [v|] eqn:En; [|exact Hc]. cbn [fst].
  intros m v' Hm p Gp Hb. rewrite lookup_ns_upd in Hm.
  assert (exists v0, lookup a m = Some v0) as (v0 & Hm0).
  { destruct (eqb_str m n) eqn:E; [|eexists; exact Hm]. apply eqb_str_eq in E. subst m. eexists. exact En. }
  destruct (Hc m v0 Hm0 p Gp Hb) as (d & Hd & Hdir). rewrite lookup_ns_upd.
  destruct (eqb_str p n) eqn:E2.
  - apply eqb_str_eq in E2. subst p. rewrite Hd. exists (f d). split; [reflexivity|]. rewrite Hf. exact Hdir.
  - exists d. split; assumption.
Qed.

(* ---------- the abstraction of a state of the invariant *)
Lemma names_good_abs hr c s : Inv hr c s -> names_good (abs s).
Proof.
  intros HI m v Hm. pose proof (iv_li hr c s HI) as HL.
  unfold abs in Hm. rewrite lookup_absp in Hm by apply HL. unfold look in Hm.
  destruct (find_rows (rows (db s)) m) as [d|] eqn:E; [|discriminate].
  destruct (find_rows_link hr (db s) m d HL E) as (_ & Hn & (G & _)). rewrite <- Hn. exact G.
Qed.

(* ---------- updates in place, creation of the root, CreateFile *)
Lemma closed_upd a n f : (forall v, lookup a n = Some v -> is_dir (f v) = is_dir v) -> closed a -> closed (ns_upd a n f).
Proof.
  intros Hf Hc m v' Hm p Gp Hb. rewrite lookup_ns_upd in Hm.
  assert (exists v0, lookup a m = Some v0) as (v0 & Hm0).
  { destruct (eqb_str m n) eqn:E; [|eexists; exact Hm]. apply eqb_str_eq in E. subst m.
    destruct (lookup a n) as [v0|]; [eexists; reflexivity|discriminate]. }
  destruct (Hc m v0 Hm0 p Gp Hb) as (d & Hd & Hdir). rewrite lookup_ns_upd.
  destruct (eqb_str p n) eqn:E2.
  - apply eqb_str_eq in E2. subst p. rewrite Hd. exists (f d). split; [reflexivity|]. rewrite (Hf d Hd). exact Hdir.
  - exists d. split; assumption.
Qed.

Lemma closed_set_root a v : names_good a -> closed a -> lookup a [slash] = None -> closed (ns_set a [slash] v).
Proof.
  intros Hg Hc Hr m v' Hm p Gp Hb. rewrite lookup_ns_set in Hm. exfalso.
  destruct (eqb_str m [slash]) eqn:E.
  - apply eqb_str_eq in E. subst m. rewrite (below_root_false p Gp) in Hb. discriminate.
  - apply eqb_str_neq in E. pose proof (Hg m v' Hm) as Gm.
    assert (Hbr : below [slash] m = true).
    { destruct Gm as (cs & Hcs & ->). fold (P cs) in *. change [slash] with (P []). change cs with ([] ++ cs) at 1.
      apply below_comps; [constructor|exact Hcs|]. intro K. subst cs. apply E. reflexivity. }
    destruct (Hc m v' Hm [slash] good_root Hbr) as (d & Hd & _). congruence.
Qed.

Lemma names_good_set a n v : names_good a -> good n -> names_good (ns_set a n v).
Proof.
  intros Hg G m v' Hm. rewrite lookup_ns_set in Hm. destruct (eqb_str m n) eqn:E; [apply eqb_str_eq in E; subst m; exact G|exact (Hg m v' Hm)].
Qed.

Lemma closed_create_file c a n size now cid : names_good a -> good n -> closed a ->
  closed (fst (spec_create_file c a n size now cid)).
Proof.
  intros Hg G Hc. unfold spec_create_file, spec_parent.
  destruct (lookup a (path_dir n)) as [pd|] eqn:Ep; [|exact Hc].
  destruct (is_dir pd) eqn:Ed; [|exact Hc].
  destruct (lookup a n) as [v|] eqn:En.
  - destruct (is_dir v) eqn:Ev; [exact Hc|]. cbn [fst]. apply closed_upd; [|exact Hc].
    intros v0 Hv0. rewrite En in Hv0. inversion Hv0; subst v0. rewrite Ev. reflexivity.
  - cbn [fst]. eapply closed_set_dir; eassumption.
Qed.
