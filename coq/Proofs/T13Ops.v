(* T13 / operations: the four write operations (create, update, delete, move) with their effect on the
   type map of the live rows, on top of the C01 state invariant [Inv]. *)
From Coq Require Import List NArith ZArith Bool Lia.
From Coq Require Import ZifyN ZifyBool.
Import ListNotations.
From STFS Require Import Str Db Tape Index Ops Fs Norm TapeLemmas StrLemmas
  C01Str C01Db C01Inv C01Sim C01Tape C01Hdr C01Ops C01Ops2 T13Path T13Def T13Map T13Eff.
Open Scope N_scope.

(* ---------- tracking the type map through a replay *)
Section Track.
Variable hr : bool.
Variable c : cfg.
Variable Q0 : list hdr -> pstate -> Prop.
Variable E : hdr -> (str -> option N) -> str -> option N.
Hypothesis HS0 : forall rec blk h rest lv, LI hr lv -> Q0 (h :: rest) lv ->
  exists lv', index_header c rec blk h false lv = (lv', Ok tt) /\ In (rec, blk) (lks (rows lv')) /\ Q0 rest lv'.
Hypothesis Hcong : forall h f g, (forall m, f m = g m) -> forall m, E h f m = E h g m.
Hypothesis Heff : forall rec blk h rest lv lv', LI hr lv -> Q0 (h :: rest) lv ->
  index_header c rec blk h false lv = (lv', Ok tt) -> forall m, tfo (rows lv') m = E h (tfo (rows lv)) m.

Definition foldE (hs : list hdr) (f : str -> option N) : str -> option N := fold_left (fun f h => E h f) hs f.

Lemma foldE_cong hs : forall f g, (forall m, f m = g m) -> forall m, foldE hs f m = foldE hs g m.
Proof.
  induction hs as [|h hs IH]; intros f g H m; cbn [foldE fold_left]; [apply H|].
  apply IH. intro m0. apply Hcong. exact H.
Qed.

Definition QT (F : str -> option N) (hs : list hdr) (lv : pstate) : Prop :=
  Q0 hs lv /\ forall m, foldE hs (tfo (rows lv)) m = F m.

Lemma QT_step F rec blk h rest lv : LI hr lv -> QT F (h :: rest) lv ->
  exists lv', index_header c rec blk h false lv = (lv', Ok tt) /\ In (rec, blk) (lks (rows lv')) /\ QT F rest lv'.
Proof.
  intros HL [HQ HF]. destruct (HS0 rec blk h rest lv HL HQ) as (lv' & E1 & St & Q1).
  exists lv'. split; [exact E1|]. split; [exact St|]. split; [exact Q1|].
  intro m. rewrite <- HF. cbn [foldE fold_left]. apply foldE_cong.
  apply (Heff rec blk h rest lv lv' HL HQ E1).
Qed.
End Track.

Definition set_step (h : hdr) (f : str -> option N) : str -> option N :=
  fun m => if eqb_str m (h_name h) then Some (h_tf h) else f m.

Lemma set_step_cong h f g : (forall m, f m = g m) -> forall m, set_step h f m = set_step h g m.
Proof. intros H m. unfold set_step. destruct (eqb_str m (h_name h)); [reflexivity|apply H]. Qed.

Section Ops.
Variable hr : bool.
Variable c : cfg.
Hypothesis HP : plain c.
Hypothesis Hrs : 0 < c_rs c.
Hypothesis Hro : c_readonly c = false.

(* ---------- creation *)
Lemma Qcreate_eff n rec blk h rest lv lv' : LI hr lv -> Qcreate hr n (h :: rest) lv ->
  index_header c rec blk h false lv = (lv', Ok tt) -> forall m, tfo (rows lv') m = set_step h (tfo (rows lv)) m.
Proof.
  intros HL HQ E m. destruct rest as [|h2 rest]; [|destruct HQ]. destruct HQ as (A & B & C & D).
  apply (eff_create hr c rec blk h lv HP HL A B lv' C E).
Qed.

Lemma mknode_ok_t s dir name perm : Inv hr c s -> hbok s -> good name -> cpre (db s) name ->
  exists s', mknode c s dir name perm false [] false = (s', OOk) /\ Inv hr c s' /\ hbok s' /\
    forall m, tfo (rows (db s')) m = if eqb_str m name then Some (if dir then TypeDir else TypeReg) else tfo (rows (db s)) m.
Proof.
  intros HI Hhb G Hc. unfold mknode. rewrite Hro. unfold archive_op. cbn [archive_members f_hdr f_data].
  set (h := mknode_hdr c dir name [] perm (clk s)).
  assert (Esz : is_reg h && (0 <? h_size h) = false) by (cbn; apply andb_false_r).
  rewrite Esz.
  destruct (mk_member_spec s h None 0 Hhb) as (A & B & C & D & E).
  destruct (mk_member s h None 0) as [m s1]. cbn [fst snd] in *.
  destruct (mknode_hdr_ok hr c dir name perm (clk s) G) as (K1 & K2 & K3). fold h in K1, K2, K3.
  assert (HI1 : Inv hr c s1) by (eapply Inv_ext; eassumption).
  set (F := foldE set_step [h] (tfo (rows (db s1)))).
  destruct (append_ok hr c HP Hrs (QT (Qcreate hr name) set_step F)
              (QT_step hr c (Qcreate hr name) set_step (Qcreate_step hr c HP name) set_step_cong (Qcreate_eff name) F)
              s1 [m] HI1 ltac:(discriminate)) as (lv' & E1 & HI' & Q').
  { constructor; [exact B|constructor]. }
  { cbn [map]. rewrite A. constructor; [exact K1|constructor]. }
  { cbn [map]. rewrite A. split; [exact (conj K1 (conj K2 (conj K3 eq_refl)))|intro; reflexivity]. }
  { intros rb B0 HR. cbn. rewrite A. rewrite D in HR |- *.
    destruct Hc as [Hc|[Hc|Hc]].
    - right. right. split; [exact Hc|intros _; reflexivity].
    - right. left. exact Hc.
    - left. eapply R_nonroot; eassumption. }
  cbn [map] in E1. rewrite A in E1. rewrite <- D. rewrite E1.
  eexists. split; [reflexivity|]. split; [exact HI'|]. split; [exact E|].
  intro m0. cbn [db]. destruct Q' as [_ Q']. specialize (Q' m0). cbn [foldE fold_left] in Q'. rewrite Q'.
  unfold F. cbn [foldE fold_left]. unfold set_step. cbn [h_name h mknode_hdr h_tf]. destruct dir; reflexivity.
Qed.

(* ---------- update of one entry *)
Lemma Qupdate_eff rec blk h rest lv lv' : LI hr lv -> Qupdate hr (h :: rest) lv ->
  index_header c rec blk h false lv = (lv', Ok tt) -> forall m, tfo (rows lv') m = set_step h (tfo (rows lv)) m.
Proof.
  intros HL [HQ _] E m. inversion HQ as [|? ? (A & B & C & D & F) Hr]; subst.
  apply (eff_update hr c rec blk h lv HP HL A B lv' C D F E).
Qed.

Lemma update_members_tf s f replace skip m s1 :
  update_members c s [f] replace skip = ([m], [m_hdr m], s1) -> h_tf (m_hdr m) = h_tf (f_hdr f).
Proof.
  cbn [update_members]. intro H.
  set (h1 := set_pax (f_hdr f) (pax_del K_replaces_name (pax_set K_action V_update (pax_set K_version V_1 (h_pax (f_hdr f)))))) in *.
  destruct (is_reg h1 && replace && ((0 <? h_size h1) || skip)).
  - unfold encode in H. destruct (pop_enc s (h_size h1)) as [enc s2]. destruct replace.
    + match type of H with context [mk_member ?a ?b ?d ?e] => unfold mk_member in H; destruct (pop_hb a) as [hb s3] end.
      inversion H; subst. reflexivity.
    + match type of H with context [mk_member ?a ?b ?d ?e] => unfold mk_member in H; destruct (pop_hb a) as [hb s3] end.
      inversion H; subst. reflexivity.
  - destruct replace.
    + match type of H with context [mk_member ?a ?b ?d ?e] => unfold mk_member in H; destruct (pop_hb a) as [hb s3] end.
      inversion H; subst. reflexivity.
    + match type of H with context [mk_member ?a ?b ?d ?e] => unfold mk_member in H; destruct (pop_hb a) as [hb s3] end.
      inversion H; subst. reflexivity.
Qed.

Lemma update_ok_t s f replace skip : Inv hr c s -> hbok s ->
  good (h_name (f_hdr f)) -> h_link (f_hdr f) = [] -> usize_ok (h_pax (f_hdr f)) ->
  live_name (rows (db s)) (h_name (f_hdr f)) = true ->
  exists s', update_op c s [f] replace skip = (s', OOk) /\ Inv hr c s' /\ hbok s' /\
    forall m, tfo (rows (db s')) m = if eqb_str m (h_name (f_hdr f)) then Some (h_tf (f_hdr f)) else tfo (rows (db s)) m.
Proof.
  intros HI Hhb G Hk Hu Hlive. unfold update_op.
  destruct (update_members_single hr c HP s f replace skip Hhb G Hk Hu)
    as (m & s1 & Eum & B & T1 & T2 & T3 & X1 & X2 & X3 & X4 & X5).
  pose proof (update_members_tf s f replace skip m s1 Eum) as Etf. rewrite Eum.
  assert (HI1 : Inv hr c s1) by (eapply Inv_ext; eassumption).
  set (F := foldE set_step [m_hdr m] (tfo (rows (db s1)))).
  destruct (append_ok hr c HP Hrs (QT (Qupdate hr) set_step F)
              (QT_step hr c (Qupdate hr) set_step (Qupdate_step hr c HP Hrs) set_step_cong Qupdate_eff F)
              s1 [m] HI1 ltac:(discriminate)) as (lv' & E1 & HI' & Q').
  { constructor; [exact B|constructor]. }
  { constructor; [exact X1|constructor]. }
  { split; [|intro; reflexivity]. split; [|cbn; lia]. constructor; [|constructor]. rewrite T2, X5. exact (conj X1 (conj X2 (conj X3 (conj X4 Hlive)))). }
  { intros rb B0 HR. cbn. rewrite T2 in HR |- *.
    destruct (eqb_str (h_name (f_hdr f)) [slash]) eqn:En.
    - apply eqb_str_eq in En. right. right. split; [congruence|intros _; exact X4].
    - apply eqb_str_neq in En. left. eapply R_nonroot; [exact HR|].
      destruct (live_name_row _ _ Hlive) as (x & Hx & _ & Ex). exists x. split; [exact Hx|congruence]. }
  cbn [map] in E1. rewrite <- T2. rewrite E1.
  eexists. split; [reflexivity|]. split; [exact HI'|]. split; [exact T3|].
  intro m0. cbn [db]. destruct Q' as [_ Q']. specialize (Q' m0). cbn [foldE fold_left] in Q'. rewrite Q'.
  unfold F. cbn [foldE fold_left]. unfold set_step. rewrite X5, Etf, T2. reflexivity.
Qed.
End Ops.
