(* T02 / reads: on a live index, Stat of a cleaned absolute name is the lookup of that name, the parent
   check is the lookup of filepath.Dir, and the directory listing used by Remove is empty exactly when
   no live entry is a direct child. *)
From Coq Require Import List NArith ZArith Bool Lia.
From Coq Require Import ZifyN ZifyBool.
Import ListNotations.
From STFS Require Import Str Db Tape Index Ops Fs Diff Norm TapeLemmas StrLemmas
  C01Str C01Db C01Inv C01Sim C01Tape C01Hdr C01Ops C01Ops2 C01Reads C01Fs T02Ns T02Db.
Open Scope N_scope.

(* ---------- names *)
Lemma has_suffix_slash_app n : has_suffix [slash] (n ++ [slash]) = true.
Proof. rewrite has_suffix_slash, rev_unit. apply N.eqb_refl. Qed.

Lemma not_good_trailing n : n <> [] -> ~ good (n ++ [slash]).
Proof.
  intros Hn G. pose proof (good_no_trailing _ G) as K. rewrite has_suffix_slash_app in K.
  assert (n ++ [slash] <> [slash]); [|specialize (K H); discriminate].
  intro E. change [slash] with ([] ++ [slash]) in E at 2. apply app_inv_tail in E. contradiction.
Qed.

Lemma good_cons n : good n -> exists t, n = slash :: t.
Proof. intros (cs & _ & ->). eexists; reflexivity. Qed.

Lemma good_nonroot_cons n : good n -> n <> [slash] -> exists a t, n = slash :: a :: t.
Proof. intros (cs & _ & ->) H. destruct (join_slash cs) as [|a t] eqn:E; [contradiction|]. eexists _, _; reflexivity. Qed.

Lemma pfx_good n : good n -> n <> [slash] -> pfx n = n ++ [slash].
Proof. intros G H. unfold pfx. rewrite good_trim_slash by assumption. reflexivity. Qed.
Lemma pfx_root : pfx [slash] = [slash].
Proof. reflexivity. Qed.

(* ---------- Stat *)
Lemma get_header_miss hr lv x : LI hr lv -> is_abs x = true -> is_root_name x = false -> eqb_str x [slash] = false ->
  ~ good x -> get_header lv x = (lv, NoRows).
Proof.
  intros HL Ha Hr He Hg. rewrite get_header_form, (sanitize_root_eq lv x (li_root hr lv HL)).
  rewrite Hr, He, Ha. cbn [orb fst snd].
  destruct (find_rows (rows lv) x) as [r|] eqn:E; [|reflexivity].
  exfalso. apply Hg. apply find_rows_some in E as (Hin & _ & Hn).
  assert (Hrows : Forall rowok (rows lv)) by apply HL. rewrite Forall_forall in Hrows.
  destruct (Hrows r Hin) as (G & _). rewrite <- Hn. exact G.
Qed.

Lemma stat_false_exact hr s n : LI hr (db s) -> good n ->
  stat_s s n false = (s, match find_rows (rows (db s)) n with Some d => Ok (hdr_of_row d) | None => NoRows end).
Proof.
  intros HL G. unfold stat_s, inv_stat. rewrite (get_header_lv hr (db s) n HL G).
  destruct (find_rows (rows (db s)) n) as [d|] eqn:E.
  - destruct (find_rows_link hr (db s) n d HL E) as (Hk & _). rewrite Hk. cbn [eqb_str negb]. rewrite set_db_same. reflexivity.
  - destruct (eqb_str n [slash]) eqn:En.
    + apply eqb_str_eq in En. subst n. change (trim_suffix [slash] [slash] ++ [slash]) with [slash].
      rewrite (get_header_lv hr (db s) [slash] HL G), E. rewrite set_db_same. reflexivity.
    + apply eqb_str_neq in En. rewrite (good_trim_slash n G En).
      destruct (good_nonroot_cons n G En) as (a & t & ->).
      rewrite (get_header_miss hr (db s)); [rewrite set_db_same; reflexivity|exact HL|reflexivity|reflexivity| |].
      * reflexivity.
      * apply not_good_trailing. discriminate.
Qed.

Lemma parent_check_exact hr s n : LI hr (db s) -> is_abs n = true ->
  parent_check s n = (s, match find_rows (rows (db s)) (path_dir n) with
                         | Some d => if r_tf d =? TypeDir then OOk else OIsFile
                         | None => ONotExist end).
Proof.
  intros HL Ha. unfold parent_check. rewrite (stat_false_exact hr s (path_dir n) HL (path_dir_good n Ha)).
  destruct (find_rows (rows (db s)) (path_dir n)) as [d|]; [|reflexivity].
  change (h_tf (hdr_of_row d)) with (r_tf d). destruct (r_tf d =? TypeDir); reflexivity.
Qed.

(* ---------- the listing of a directory (GetHeaderDirectChildren without a limit) *)
Lemma skipn_app_len {A} (p x : list A) : skipn (length p) (p ++ x) = x.
Proof. induction p; cbn; [reflexivity|assumption]. Qed.

Lemma remove_all_noslash f p : forall c, In slash p -> noslash c -> sql_remove_all f p c = c.
Proof.
  induction f as [|f IH]; intros c Hp Hc; cbn [sql_remove_all]; [reflexivity|].
  destruct c as [|a r]; [reflexivity|].
  destruct (has_prefix p (a :: r)) eqn:E.
  - exfalso. apply has_prefix_split' in E as (y & E). apply Hc. rewrite E. apply in_or_app. left. exact Hp.
  - f_equal. apply IH; [exact Hp|]. intro K. apply Hc. right. exact K.
Qed.

Lemma remove_all_step f p x : x <> [] -> has_prefix p x = true ->
  sql_remove_all (S f) p x = sql_remove_all f p (skipn (length p) x).
Proof. intros Hx H. destruct x as [|a r]; [contradiction|]. cbn [sql_remove_all]. rewrite H. reflexivity. Qed.

Lemma slash_count_noslash c : noslash c -> slash_count c = 0.
Proof.
  intro H. unfold slash_count. replace (filter (fun x => x =? slash) c) with (@nil N); [reflexivity|].
  symmetry. induction c as [|a r IH]; cbn; [reflexivity|].
  destruct (a =? slash) eqn:E.
  - exfalso. apply H. left. apply N.eqb_eq in E. exact E.
  - apply IH. intro K. apply H. right. exact K.
Qed.

Lemma sql_depth_child prefix c : prefix <> [] -> In slash prefix -> noslash c -> sql_depth (prefix ++ c) prefix = 0.
Proof.
  intros Hne Hp Hc. unfold sql_depth, sql_replace_empty. destruct prefix as [|a p']; [contradiction|].
  rewrite remove_all_step; [|discriminate|apply has_prefix_app'].
  rewrite skipn_app_len.
  rewrite remove_all_noslash by assumption. apply slash_count_noslash. exact Hc.
Qed.

Lemma existsb_slash_noslash c : existsb (fun x => x =? slash) c = false -> noslash c.
Proof.
  intros H K. assert (existsb (fun x => x =? slash) c = true); [|congruence].
  apply existsb_exists. exists slash. split; [exact K|apply N.eqb_refl].
Qed.
Lemma noslash_existsb c : noslash c -> existsb (fun x => x =? slash) c = false.
Proof.
  intro H. apply not_true_is_false. intro K. apply existsb_exists in K as (x & Hx & E). apply N.eqb_eq in E. subst x. exact (H Hx).
Qed.

(* a good name that is a direct child of n: n/c with c free of slashes *)
Lemma direct_child_shape n x : good n -> n <> [slash] -> good x -> is_direct_child (n ++ [slash]) x = true ->
  exists c, x = (n ++ [slash]) ++ c /\ noslash c.
Proof.
  intros G Hn Gx H.
  assert (Hp : has_prefix (n ++ [slash]) x = true).
  { apply direct_child_prefix; [|exact H]. destruct n; discriminate. }
  destruct (has_prefix_split' _ _ Hp) as (c & E). exists c. split; [exact E|].
  unfold is_direct_child in H. destruct (n ++ [slash]) as [|a p] eqn:Ep; [destruct n; discriminate|].
  apply andb_true_iff in H as [_ H]. apply negb_true_iff in H. rewrite <- Ep in *.
  rewrite E, trim_prefix_app in H.
  assert (Hx : x <> [slash]) by (eapply nonroot_of_prefix; [apply good_nonempty; exact G|exact Hp]).
  assert (Hs : has_suffix [slash] c = false).
  { pose proof (good_no_trailing x Gx Hx) as K. rewrite has_suffix_slash in K |- *.
    rewrite E, rev_app_distr in K. destruct (rev c) as [|y t]; [reflexivity|]. exact K. }
  rewrite (trim_suffix_false _ _ Hs) in H. apply existsb_slash_noslash. exact H.
Qed.

Lemma filter_all_false {A} (f : A -> bool) l : (forall x, In x l -> f x = false) -> filter f l = [].
Proof.
  induction l as [|x t IH]; intro H; cbn; [reflexivity|]. rewrite (H x (or_introl eq_refl)). apply IH.
  intros y Hy. apply H. right. exact Hy.
Qed.

Lemma dq_links_nil lv a p rd lim : nolinks (rows lv) -> (a =? pct) = false -> direct_query lv (a :: p) true rd lim = [].
Proof.
  intros Hl Ha. unfold direct_query.
  match goal with |- match lim with Some k => firstn k ?sel | None => ?sel end = [] => assert (E : sel = []) end.
  { apply filter_all_false. intros x Hx. unfold nolinks in Hl. rewrite Forall_forall in Hl. cbn beta iota zeta.
    rewrite (Hl x Hx). cbn [app sql_like]. rewrite Ha. reflexivity. }
  rewrite E. destruct lim as [k|]; [destruct k; reflexivity|reflexivity].
Qed.

Definition listed (lv : pstate) (n : str) : list row :=
  filter (fun r => is_direct_child (n ++ [slash]) (r_name r) && not_self n r)
         (direct_query lv (n ++ [slash]) false 0 None ++ []).

Lemma gdc_exact hr lv n : LI hr lv -> good n -> n <> [slash] ->
  get_direct_children lv n None = (lv, Ok (listed lv n)).
Proof.
  intros HL G Hn. unfold get_direct_children. rewrite (sanitize_lv hr lv n HL G).
  rewrite (good_is_root_false n G Hn). rewrite (good_trim_slash n G Hn). lazy beta zeta iota.
  destruct (good_cons n G) as (t & ->). cbn [app].
  rewrite dq_links_nil; [|apply rowok_nolinks; apply HL|reflexivity].
  cbn [fold_left]. reflexivity.
Qed.

Lemma inv_list_exact hr lv n : LI hr lv -> good n -> n <> [slash] ->
  inv_list lv n None = (lv, Ok (map hdr_of_row (listed lv n))).
Proof. intros HL G Hn. unfold inv_list. rewrite (gdc_exact hr lv n HL G Hn). reflexivity. Qed.

Lemma listed_child lv n x : In x (listed lv n) ->
  In x (rows lv) /\ live x = true /\ is_direct_child (n ++ [slash]) (r_name x) = true.
Proof.
  unfold listed. intro H. apply filter_In in H as [H1 H2]. rewrite app_nil_r in H1.
  unfold direct_query in H1. apply filter_In in H1 as [H0 H1].
  apply andb_true_iff in H2 as [H2 _].
  apply andb_true_iff in H1 as [H1 _]. apply andb_true_iff in H1 as [H1 _]. apply andb_true_iff in H1 as [_ H1].
  auto.
Qed.

Lemma child_listed hr lv n x : LI hr lv -> good n -> n <> [slash] -> In x (rows lv) -> live x = true ->
  is_direct_child (n ++ [slash]) (r_name x) = true -> In x (listed lv n).
Proof.
  intros HL G Hn Hin Hlive Hc.
  assert (Hrows : Forall rowok (rows lv)) by apply HL. rewrite Forall_forall in Hrows.
  destruct (Hrows x Hin) as (Gx & Hk & _).
  destruct (direct_child_shape n (r_name x) G Hn Gx Hc) as (cc & E & Hcc).
  assert (Hp : has_prefix (n ++ [slash]) (r_name x) = true) by (rewrite E; apply has_prefix_app').
  assert (Hx : r_name x <> [slash]) by (eapply nonroot_of_prefix; [apply good_nonempty; exact G|exact Hp]).
  unfold listed. apply filter_In. split.
  - rewrite app_nil_r. unfold direct_query. apply filter_In. split; [exact Hin|].
    cbn beta iota zeta.
    rewrite (like_of_prefix _ _ Hp).
    rewrite E at 1. rewrite sql_depth_child; [|destruct n; discriminate|apply in_or_app; right; left; reflexivity|exact Hcc].
    rewrite Hlive, Hk. rewrite (good_is_root_false _ Gx Hx). reflexivity.
  - rewrite Hc. cbn [andb]. unfold not_self. rewrite (good_trim_slash _ Gx Hx).
    pose proof (has_prefix_length _ _ Hp) as L. rewrite app_length in L. cbn [length] in L.
    apply andb_true_iff. split; apply negb_true_iff; apply eqb_str_neq; intro K.
    + rewrite <- K in L. lia.
    + rewrite K, app_length in L. cbn [length] in L. lia.
Qed.

(* ---------- the tree shape closes the gap between "no direct child" and "nothing below" *)
Definition closed_rows (l : list row) : Prop :=
  forall m d, find_rows l m = Some d -> forall p, good p -> below p m = true ->
  exists pd, find_rows l p = Some pd /\ r_tf pd = TypeDir.

Lemma closed_absp hr lv : LI hr lv -> (closed (absp lv) <-> closed_rows (rows lv)).
Proof.
  intro HL. assert (Hnd : NoDup (map r_name (rows lv))) by apply HL.
  unfold closed, closed_rows, look. split; intros H m v Hm p Gp Hb.
  - destruct (H m (node_of v)) with (p := p) as (d & Hd & Hdir); try assumption.
    { rewrite lookup_absp by exact Hnd. unfold look. rewrite Hm. reflexivity. }
    rewrite lookup_absp in Hd by exact Hnd. unfold look in Hd.
    destruct (find_rows (rows lv) p) as [pd|]; [|discriminate]. cbn in Hd. inversion Hd; subst d.
    exists pd. split; [reflexivity|]. unfold is_dir in Hdir. cbn in Hdir. apply N.eqb_eq in Hdir. exact Hdir.
  - rewrite lookup_absp in Hm by exact Hnd. unfold look in Hm.
    destruct (find_rows (rows lv) m) as [d|] eqn:Em; [|discriminate].
    destruct (H m d Em p Gp Hb) as (pd & Hpd & Ht). exists (node_of pd).
    rewrite lookup_absp by exact Hnd. unfold look. rewrite Hpd. split; [reflexivity|].
    unfold is_dir. cbn. apply N.eqb_eq. exact Ht.
Qed.

Lemma join_snoc cs c : cs <> [] -> join_slash (cs ++ [c]) = join_slash cs ++ slash :: c.
Proof. intro H. rewrite join_app; [reflexivity|exact H|discriminate]. Qed.

(* below n there is a first step: a direct child of n on the way to m *)
Lemma first_step n m : good n -> n <> [slash] -> good m -> has_prefix (n ++ [slash]) m = true ->
  exists q, good q /\ is_direct_child (n ++ [slash]) q = true /\ has_prefix (n ++ [slash]) q = true /\
            (q = m \/ below q m = true).
Proof.
  intros G Hn Gm Hp.
  destruct (below_decompose n m G Hn Gm Hp) as (fcs & rcs & Hf & Hr & Of & Or & En & Em).
  destruct rcs as [|c1 rest]; [contradiction|]. pose proof (Forall_inv Or) as Oc. pose proof (Forall_inv_tail Or) as Orest.
  set (q := slash :: join_slash (fcs ++ [c1])).
  assert (Eq : q = (n ++ [slash]) ++ c1).
  { unfold q. rewrite En. rewrite join_snoc by exact Hf. cbn [app]. rewrite <- app_assoc. reflexivity. }
  assert (Gq : good q).
  { exists (fcs ++ [c1]). split; [|reflexivity]. apply Forall_app. split; [exact Of|constructor; [exact Oc|constructor]]. }
  assert (Hq : has_prefix (n ++ [slash]) q = true) by (rewrite Eq; apply has_prefix_app').
  assert (Hqn : q <> [slash]).
  { eapply (nonroot_of_prefix n); [apply good_nonempty; exact G|exact Hq]. }
  destruct Oc as (Oc1 & Oc2 & Oc3 & Oc4).
  exists q. split; [exact Gq|]. split; [|split; [exact Hq|]].
  - unfold is_direct_child. destruct (n ++ [slash]) as [|a p] eqn:Ep; [destruct n; discriminate|].
    rewrite <- Ep in *. rewrite Hq. cbn [andb]. rewrite Eq, trim_prefix_app.
    assert (Hs : has_suffix [slash] c1 = false).
    { destruct (okc_last c1 (conj Oc1 (conj Oc2 (conj Oc3 Oc4)))) as (t & x & E1 & E2). rewrite has_suffix_slash, E1. exact E2. }
    rewrite (trim_suffix_false _ _ Hs). rewrite noslash_existsb by exact Oc4. reflexivity.
  - destruct rest as [|c2 rest'].
    + left. rewrite Em. reflexivity.
    + right. unfold below. rewrite (pfx_good q Gq Hqn).
      assert (Em' : m = (q ++ [slash]) ++ join_slash (c2 :: rest')).
      { rewrite Em. unfold q. change (fcs ++ c1 :: c2 :: rest') with (fcs ++ [c1] ++ c2 :: rest'). rewrite app_assoc.
        rewrite join_app; [|destruct fcs; discriminate|discriminate]. cbn [app]. rewrite <- app_assoc. reflexivity. }
      rewrite Em'. rewrite has_prefix_app'. cbn [andb]. apply negb_true_iff. apply eqb_str_neq.
      intro K. apply (f_equal (@length N)) in K. rewrite !app_length in K. cbn [length] in K. lia.
Qed.

Lemma below_good n m : good n -> n <> [slash] -> below n m = has_prefix (n ++ [slash]) m.
Proof.
  intros G Hn. unfold below. rewrite (pfx_good n G Hn).
  destruct (has_prefix (n ++ [slash]) m) eqn:E; [|reflexivity]. cbn [andb]. apply negb_true_iff. apply eqb_str_neq.
  intro K. subst m. apply has_prefix_length in E. rewrite app_length in E. cbn in E. lia.
Qed.

(* nothing listed <-> nothing live below, in a tree *)
Lemma listed_nil_iff hr lv n : LI hr lv -> closed_rows (rows lv) -> good n -> n <> [slash] ->
  (listed lv n = [] <-> forall x, In x (rows lv) -> live x = true -> below n (r_name x) = false).
Proof.
  intros HL Hcl G Hn. assert (Hrows : Forall rowok (rows lv)) by apply HL. rewrite Forall_forall in Hrows.
  assert (Hnd : NoDup (map r_name (rows lv))) by apply HL.
  split.
  - intros Hnil x Hin Hlive. destruct (below n (r_name x)) eqn:Eb; [exfalso|reflexivity].
    rewrite (below_good n _ G Hn) in Eb.
    destruct (Hrows x Hin) as (Gx & _).
    destruct (first_step n (r_name x) G Hn Gx Eb) as (q & Gq & Hq1 & Hq2 & Hq3).
    assert (Fx : find_rows (rows lv) (r_name x) = Some x).
    { rewrite find_rows_byname by exact Hnd. destruct (byname (rows lv) (r_name x)) as [y|] eqn:Ey.
      - apply byname_some in Ey as (Hy & Ey).
        assert (y = x).
        { clear - Hnd Hy Hin Ey. induction (rows lv) as [|z t IH]; [contradiction|]. cbn in Hnd. inversion Hnd; subst.
          destruct Hy as [->|Hy], Hin as [->|Hin]; try reflexivity.
          - exfalso. apply H1. rewrite Ey. apply in_map. exact Hin.
          - exfalso. apply H1. rewrite <- Ey. apply in_map. exact Hy.
          - apply IH; assumption. }
        subst y. rewrite Hlive. reflexivity.
      - exfalso. apply byname_none in Ey. apply Ey. apply in_map. exact Hin. }
    assert (exists y, find_rows (rows lv) q = Some y) as (y & Fy).
    { destruct Hq3 as [->|Hb]; [eexists; exact Fx|].
      destruct (Hcl _ _ Fx q Gq Hb) as (pd & Hpd & _). eexists; exact Hpd. }
    apply find_rows_some in Fy as (Y1 & Y2 & Y3).
    assert (In y (listed lv n)) by (eapply child_listed; try eassumption; rewrite Y3; exact Hq1).
    rewrite Hnil in H. contradiction.
  - intro H. destruct (listed lv n) as [|x t] eqn:E; [reflexivity|exfalso].
    assert (Hx : In x (listed lv n)) by (rewrite E; left; reflexivity).
    apply listed_child in Hx as (X1 & X2 & X3).
    specialize (H x X1 X2). rewrite (below_good n _ G Hn) in H.
    assert (Hne : n ++ [slash] <> []) by (destruct n; discriminate).
    rewrite (direct_child_prefix _ _ Hne X3) in H. discriminate.
Qed.
