(* T02 / Move: what Operations.Move does to the lookup of live entries, exactly: each selected entry
   (the source and, for a directory, every live entry below it) reappears under its new name with its
   attributes and content position, and its old name becomes free. *)
From Coq Require Import List NArith ZArith Bool Lia.
From Coq Require Import ZifyN ZifyBool.
Import ListNotations.
From STFS Require Import Str Db Tape Index Ops Fs Diff Norm TapeLemmas StrLemmas
  C01Str C01Db C01Inv C01Sim C01Tape C01Hdr C01Ops C01Ops2 C01Reads C01Fs T02Ns T02Db T02Ops T02Reads T02Str.
Open Scope N_scope.

(* ---------- lookups in the row list MoveHeader produces *)
Lemma byname_filter_ne l new m : eqb_str m new = false ->
  byname (filter (fun r => negb (eqb_str (r_name r) new)) l) m = byname l m.
Proof.
  intro H. unfold byname. induction l as [|x t IH]; cbn [filter find]; [reflexivity|].
  destruct (eqb_str (r_name x) new) eqn:E; cbn [negb find].
  - apply eqb_str_eq in E. rewrite E. rewrite eqb_str_sym, H. exact IH.
  - destruct (eqb_str (r_name x) m); [reflexivity|exact IH].
Qed.

Lemma byname_map_mv old new a b l m : eqb_str m new = false ->
  byname (map (mv_fun old new a b) l) m = if eqb_str m old then None else byname l m.
Proof.
  intro H. unfold byname. induction l as [|x t IH]; cbn [map find].
  - destruct (eqb_str m old); reflexivity.
  - destruct (eqb_str (r_name x) old) eqn:E.
    + replace (mv_fun old new a b x) with (set_lk (set_name x new) a b (r_del x)) by (unfold mv_fun; rewrite E; reflexivity).
      cbn [r_name set_lk set_name]. rewrite eqb_str_sym, H. rewrite IH.
      destruct (eqb_str m old) eqn:E2; [reflexivity|]. apply eqb_str_eq in E. rewrite E, eqb_str_sym, E2. reflexivity.
    + replace (mv_fun old new a b x) with x by (unfold mv_fun; rewrite E; reflexivity).
      destruct (eqb_str (r_name x) m) eqn:E2.
      * apply eqb_str_eq in E2. rewrite <- E2, E. reflexivity.
      * exact IH.
Qed.

Lemma find_rows_moved hr l old new a b R m : LL hr l -> good new -> new <> [slash] -> old <> [slash] -> new <> old ->
  has_name l old = true -> r_name R = new -> r_del R = false ->
  find_rows (replace_row new [] R (map (mv_fun old new a b) (mv_rows1 l old new))) m =
  if eqb_str m new then Some R else if eqb_str m old then None else find_rows l m.
Proof.
  intros HLL Gn Hn Ho Hne Hhas HR Hd.
  pose proof (mv_result_LL hr l old new a b HLL Gn Hn Ho Hne) as LL1.
  destruct (mv_result_stamp l old new a b Hne Hhas) as (_ & Hn1).
  set (l1 := map (mv_fun old new a b) (mv_rows1 l old new)) in *.
  rewrite find_rows_replace; [|apply LL1|apply LL1|exact HR|exact Hn1].
  destruct (eqb_str m new) eqn:E; [unfold live; rewrite Hd; reflexivity|].
  rewrite find_rows_byname by apply LL1. rewrite (find_rows_byname l m) by apply HLL.
  unfold l1, mv_rows1. rewrite Hhas. rewrite byname_map_mv by exact E. rewrite byname_filter_ne by exact E.
  destruct (eqb_str m old); reflexivity.
Qed.

(* ---------- the effect of a sequence of Move records on the lookup, abstractly *)
Section MoveSeq.
Variables (from to : str).
Definition mv1 (x : row) (f : str -> option node) : str -> option node :=
  fun m => if eqb_str m (nn from to x) then Some (node_of x) else if eqb_str m (r_name x) then None else f m.
Definition apply_moves (xs : list row) (f : str -> option node) : str -> option node :=
  fold_left (fun f x => mv1 x f) xs f.

Lemma apply_moves_ext xs : forall f g, (forall m, f m = g m) -> forall m, apply_moves xs f m = apply_moves xs g m.
Proof.
  induction xs as [|x xs IH]; intros f g H m; cbn; [apply H|].
  apply IH. intro m'. unfold mv1. rewrite H. reflexivity.
Qed.

Lemma apply_moves_spec xs : forall f m, NoDup (map (nn from to) xs) ->
  (forall x x', In x xs -> In x' xs -> nn from to x <> r_name x') ->
  apply_moves xs f m =
  match find (fun x => eqb_str m (nn from to x)) xs with
  | Some x => Some (node_of x)
  | None => if existsb (fun x => eqb_str m (r_name x)) xs then None else f m
  end.
Proof.
  induction xs as [|x xs IH]; intros f m Hnd Hd; [reflexivity|].
  cbn [apply_moves fold_left]. change (fold_left (fun f x => mv1 x f) xs (mv1 x f)) with (apply_moves xs (mv1 x f)).
  cbn [map] in Hnd. inversion Hnd as [|? ? Hnotin Hnd']; subst.
  rewrite IH; [|exact Hnd'|intros y y' Hy Hy'; apply Hd; right; assumption].
  cbn [find existsb]. destruct (eqb_str m (nn from to x)) eqn:E.
  - apply eqb_str_eq in E. subst m.
    assert (F : find (fun x0 => eqb_str (nn from to x) (nn from to x0)) xs = None).
    { destruct (find _ xs) as [y|] eqn:F; [|reflexivity]. exfalso. apply find_some in F as [F1 F2].
      apply eqb_str_eq in F2. apply Hnotin. rewrite F2. apply in_map. exact F1. }
    rewrite F.
    assert (X : existsb (fun x0 => eqb_str (nn from to x) (r_name x0)) xs = false).
    { apply not_true_is_false. intro K. apply existsb_exists in K as (y & Hy & K). apply eqb_str_eq in K.
      apply (Hd x y); [left; reflexivity|right; exact Hy|exact K]. }
    rewrite X. unfold mv1. rewrite eqb_str_refl. reflexivity.
  - destruct (find (fun x0 => eqb_str m (nn from to x0)) xs); [reflexivity|].
    destruct (existsb (fun x0 => eqb_str m (r_name x0)) xs); [rewrite orb_true_r; reflexivity|].
    rewrite orb_false_r. unfold mv1. rewrite E. reflexivity.
Qed.
End MoveSeq.

(* ---------- Operations.Move *)
Section Mov.
Variable hr : bool.
Variable c : cfg.
Hypothesis HP : plain c.
Hypothesis Hrs : 0 < c_rs c.
Variables (from to : str).
Hypothesis Gf : good from.
Hypothesis Gt : good to.
Hypothesis Hf : from <> [slash].
Hypothesis Ht : to <> [slash].
Hypothesis Hft : from <> to.
Hypothesis Hd1 : inside from to = false.
Hypothesis Hd2 : inside to from = false.

Notation nn := (nn from to).
Notation mk := (mk from to).
Notation PP := (PP from to).

Lemma PP_inside x : PP x -> inside from (r_name x) = true /\ inside to (nn x) = true /\
  nn x = moved_name from to (r_name x).
Proof.
  intros (Hok & [[E1 E2]|(rest & K1 & K2)]).
  - rewrite E1, E2. split; [apply inside_refl|]. split; [apply inside_refl|].
    unfold moved_name. rewrite skipn_all. symmetry. apply app_nil_r.
  - split; [|split].
    + apply (inside_iff from _ Gf Hf). exists ([slash] ++ rest). split; [exact K1|reflexivity].
    + apply (inside_iff to _ Gt Ht). exists ([slash] ++ rest). split; [exact K2|reflexivity].
    + rewrite K1, K2. rewrite moved_name_app. reflexivity.
Qed.

Lemma PP_apart x x' : PP x -> PP x' -> nn x <> r_name x'.
Proof.
  intros Hx Hx' E. destruct (PP_inside x Hx) as (_ & A & _). destruct (PP_inside x' Hx') as (B & _ & _).
  rewrite E in A.
  assert (G : good (r_name x')) by apply Hx'.
  rewrite (inside_disjoint from to (r_name x') Gf Gt G Hd1 Hd2 B) in A. discriminate.
Qed.

Lemma PP_nn_inj x x' : PP x -> PP x' -> nn x = nn x' -> r_name x = r_name x'.
Proof.
  intros Hx Hx' E.
  destruct (PP_inside x Hx) as (A & _ & N1). destruct (PP_inside x' Hx') as (A' & _ & N2).
  apply (inside_iff from _ Gf Hf) in A as (s1 & E1 & _). apply (inside_iff from _ Gf Hf) in A' as (s2 & E2 & _).
  rewrite N1, N2, E1, E2, !moved_name_app in E. apply app_inv_head in E. congruence.
Qed.

Lemma mk_usize x : pax_get K_usize (h_pax (mk x)) =
  match pax_get K_usize (r_pax x) with
  | Some v => Some v
  | None => if 0 <? r_size x then Some (decimal (r_size x)) else None
  end.
Proof. unfold C01Ops2.mk. rewrite mov_hdr_pax. paxs. rewrite keep_size_usize. reflexivity. Qed.

Lemma mk_rc x : pax_get K_replaces_content (h_pax (mk x)) = None.
Proof. unfold C01Ops2.mk. rewrite mov_hdr_pax. paxs. reflexivity. Qed.

Lemma mk_usz x : size_ok x -> usz (mk x) = Some (r_size x).
Proof.
  intro H. rewrite usz_hsize. unfold hsize. rewrite mk_usize. unfold size_ok in H.
  destruct (pax_get K_usize (r_pax x)) as [v|]; [exact H|].
  destruct (0 <? r_size x) eqn:Ez; [apply undecimal_decimal_eq; exact H|].
  change (h_size (mk x)) with 0. f_equal. lia.
Qed.

Definition Qmv (target : str -> option node) (hs : list hdr) (lv : pstate) : Prop :=
  exists xs, hs = map mk xs /\
    Forall (fun x => PP x /\ size_ok x /\ find_rows (rows lv) (r_name x) = Some x) xs /\
    NoDup (map r_name xs) /\ sizes_ok (rows lv) /\
    forall m, apply_moves from to xs (look (rows lv)) m = target m.

Lemma Qmv_step target rec blk h rest lv : LI hr lv -> Qmv target (h :: rest) lv ->
  exists lv', index_header c rec blk h false lv = (lv', Ok tt) /\ In (rec, blk) (lks (rows lv')) /\ Qmv target rest lv'.
Proof.
  intros HL (xs & Ehs & HF & Hnd & Hsz & Ht'). destruct xs as [|x xs]; [discriminate|]. cbn [map] in Ehs.
  inversion Ehs as [[Eh Erest]]. clear Ehs.
  inversion HF as [|? ? (Px & Sx & Fx) HF']; subst.
  cbn [map] in Hnd. inversion Hnd as [|? ? Hnotin Hnd']; subst.
  destruct (PP_facts from to Gf Gt Hf Ht Hft x Px) as (F1 & F2 & F3 & F4).
  destruct (mov_hdr_ok hr x (nn x) (proj1 Px) F1 F2 F3 F4) as (M1 & M2 & M3 & M4 & M5).
  change (mov_hdr x (nn x)) with (mk x) in *.
  pose proof (ih_move_exact hr c rec blk (mk x) lv HP HL M1 M2 (r_size x) (r_name x) x M3 M4 (mk_usz x Sx) (mk_rc x) Fx) as E.
  rewrite M5 in E.
  set (R := row_of_hdr (r_rec x) rec (r_blk x) blk (with_size_name (mk x) (r_size x) (nn x))) in *.
  assert (Hhas : has_name (rows lv) (r_name x) = true) by (eapply find_rows_has; exact Fx).
  assert (FR : forall m, find_rows (replace_row (nn x) [] R (map (mv_fun (r_name x) (nn x) rec blk) (mv_rows1 (rows lv) (r_name x) (nn x)))) m
                = if eqb_str m (nn x) then Some R else if eqb_str m (r_name x) then None else find_rows (rows lv) m).
  { intro m. apply (find_rows_moved hr); try assumption; try reflexivity. apply HL. }
  eexists. split; [exact E|]. rewrite with_rows_rows. split; [|exists xs; split; [reflexivity|split; [|split; [|split]]]].
  - apply (stamped_replace (nn x) R).
    + apply (mv_result_LL hr); try assumption. apply HL.
    + apply (mv_result_stamp (rows lv) (r_name x) (nn x) rec blk F4 Hhas).
  - apply Forall_forall. intros x' Hx'. rewrite Forall_forall in HF'. destruct (HF' x' Hx') as (Px' & Sx' & Fx').
    split; [exact Px'|]. split; [exact Sx'|]. rewrite FR.
    assert (E1 : eqb_str (r_name x') (nn x) = false) by (apply eqb_str_neq; intro K; exact (PP_apart x x' Px Px' (eq_sym K))).
    assert (E2 : eqb_str (r_name x') (r_name x) = false).
    { apply eqb_str_neq. intro K. apply Hnotin. rewrite <- K. apply in_map. exact Hx'. }
    rewrite E1, E2. exact Fx'.
  - exact Hnd'.
  - apply replace_row_Forall.
    + apply Forall_forall. intros y Hy. apply in_map_iff in Hy as (y0 & <- & Hy0).
      assert (In y0 (rows lv)).
      { unfold mv_rows1 in Hy0. destruct (has_name (rows lv) (r_name x)); [apply filter_In in Hy0 as [Hy0 _]|]; exact Hy0. }
      unfold sizes_ok in Hsz. rewrite Forall_forall in Hsz. specialize (Hsz y0 H).
      unfold mv_fun. destruct (eqb_str (r_name y0) (r_name x)); exact Hsz.
    + unfold R. apply size_ok_row_of_hdr.
      * rewrite <- usz_hsize. apply mk_usz. exact Sx.
      * intros _. reflexivity.
  - intro m. rewrite <- (Ht' m). cbn [apply_moves fold_left].
    apply apply_moves_ext. intro m'. unfold mv1, look. rewrite FR.
    destruct (eqb_str m' (nn x)); [|destruct (eqb_str m' (r_name x)); reflexivity].
    cbn [option_map]. f_equal.
Qed.

Definition mv_kids (l : list row) (r : row) : list row :=
  if r_tf r =? TypeDir then filter (kid_filter from) l else [].

Lemma move_exact s r : Inv hr c s -> hbok s -> sizes_ok (rows (db s)) ->
  find_rows (rows (db s)) from = Some r ->
  exists s', move_op c s from to = (s', OOk) /\ Inv hr c s' /\ hbok s' /\ sizes_ok (rows (db s')) /\
    forall m, look (rows (db s')) m = apply_moves from to (r :: mv_kids (rows (db s)) r) (look (rows (db s))) m.
Proof.
  intros HI Hhb Hsz Ef. pose proof (iv_li hr c s HI) as HL. unfold move_op.
  assert (Eft : eqb_str from to = false) by (apply eqb_str_neq; exact Hft). rewrite Eft.
  rewrite (lookup_entry_lv hr (db s) from HL Gf). rewrite Ef.
  destruct (find_rows_some _ _ _ Ef) as (Hin & Hlive & Hrn).
  assert (Hrows : Forall rowok (rows (db s))) by apply HL.
  assert (Hnd0 : NoDup (map r_name (rows (db s)))) by apply HL.
  assert (Hrok : rowok r) by (rewrite Forall_forall in Hrows; apply Hrows; exact Hin).
  assert (Eabs : is_abs to && negb (is_abs (r_name r)) = false).
  { rewrite (good_abs _ (proj1 Hrok)). apply andb_false_r. }
  rewrite Eabs, Eft.
  set (kids := mv_kids (rows (db s)) r).
  assert (KK : (if r_tf r =? TypeDir then get_children (db s) from else (db s, [])) = (db s, kids)).
  { unfold kids, mv_kids. destruct (r_tf r =? TypeDir); [|reflexivity]. apply (get_children_lv hr (db s) from HL Gf). }
  rewrite KK.
  assert (Hkids : Forall (fun x => In x (rows (db s)) /\ kid_filter from x = true) kids).
  { unfold kids, mv_kids. destruct (r_tf r =? TypeDir); [|constructor].
    apply Forall_forall. intros x Hx. apply filter_In in Hx. exact Hx. }
  assert (Hnd : NoDup (map r_name kids)).
  { unfold kids, mv_kids. destruct (r_tf r =? TypeDir); [|constructor]. apply NoDup_map_filter. exact Hnd0. }
  rewrite move_hdrs_eq. rewrite set_db_same.
  destruct (plain_members_spec (map mk (r :: kids)) s Hhb) as (A & B & T1 & T2 & T3).
  destruct (plain_members s (map mk (r :: kids))) as [ms s1]. cbn [fst snd] in *.
  assert (HI1 : Inv hr c s1) by (eapply Inv_ext; eassumption).
  assert (HkidF : Forall (fun x => In x (rows (db s)) /\ rowok x /\ Kid from x /\ r_name x <> from /\ live x = true) kids).
  { apply Forall_forall. intros x Hx. rewrite Forall_forall in Hkids. destruct (Hkids x Hx) as (Hxin & Hxf).
    rewrite Forall_forall in Hrows. pose proof (Hrows x Hxin) as Hok.
    destruct (kid_filter_facts from x Gf Hf (proj1 Hok) Hxf) as (L1 & L2 & L3).
    split; [exact Hxin|]. split; [exact Hok|]. split; [exact L2|]. split; [exact L3|exact L1]. }
  assert (HPP : Forall PP (r :: kids)).
  { constructor.
    - split; [exact Hrok|]. left. split; [exact Hrn|]. unfold C01Ops2.nn. rewrite Hrn. apply move_name_self; assumption.
    - apply Forall_forall. intros x Hx. rewrite Forall_forall in HkidF. destruct (HkidF x Hx) as (_ & Hok & Kx & _).
      split; [exact Hok|]. right. unfold C01Ops2.nn. apply move_name_below; try assumption. apply Hok. }
  assert (Hnd2 : NoDup (map r_name (r :: kids))).
  { cbn [map]. constructor; [|exact Hnd]. intro K. apply in_map_iff in K as (x & Ex & Hx).
    rewrite Forall_forall in HkidF. destruct (HkidF x Hx) as (_ & _ & _ & L3 & _). congruence. }
  assert (Hhdr : forall x, In x (r :: kids) ->
     hnames_ok hr (mk x) /\ ver_ok (mk x) /\ h_act (mk x) = V_update /\ h_rep (mk x) = Some (r_name x)).
  { intros x Hx. rewrite Forall_forall in HPP. pose proof (HPP x Hx) as Px. destruct (PP_facts from to Gf Gt Hf Ht Hft x Px) as (F1 & F2 & F3 & F4).
    destruct (mov_hdr_ok hr x (nn x) (proj1 Px) F1 F2 F3 F4) as (M1 & M2 & M3 & M4 & _). exact (conj M1 (conj M2 (conj M3 M4))). }
  set (target := apply_moves from to (r :: kids) (look (rows (db s)))).
  destruct (append_ok hr c HP Hrs (Qmv target) (Qmv_step target) s1 ms HI1) as (lv' & E1 & HI' & Q').
  { intro K. subst ms. discriminate. }
  { exact B. }
  { rewrite A. apply Forall_forall. intros h Hh. apply in_map_iff in Hh as (x & <- & Hx). apply Hhdr. exact Hx. }
  { rewrite A. exists (r :: kids). split; [reflexivity|]. split; [|split; [exact Hnd2|split; [rewrite T2; exact Hsz|]]].
    - apply Forall_forall. intros x Hx. rewrite Forall_forall in HPP. split; [apply HPP; exact Hx|].
      assert (Hxin : In x (rows (db s)) /\ live x = true).
      { destruct Hx as [<-|Hx]; [split; assumption|]. rewrite Forall_forall in HkidF. destruct (HkidF x Hx) as (K1 & _ & _ & _ & K5). split; assumption. }
      destruct Hxin as (Hxin & Hxl). split.
      + unfold sizes_ok in Hsz. rewrite Forall_forall in Hsz. apply Hsz. exact Hxin.
      + rewrite T2. rewrite find_rows_byname by exact Hnd0.
        destruct (byname (rows (db s)) (r_name x)) as [y|] eqn:Ey.
        * apply byname_some in Ey as (Hy & Ey).
          assert (y = x).
          { clear - Hnd0 Hy Hxin Ey. induction (rows (db s)) as [|z t IH]; [contradiction|]. cbn in Hnd0. inversion Hnd0; subst.
            destruct Hy as [->|Hy], Hxin as [->|Hxin]; try reflexivity.
            - exfalso. apply H1. rewrite Ey. apply in_map. exact Hxin.
            - exfalso. apply H1. rewrite <- Ey. apply in_map. exact Hy.
            - apply IH; assumption. }
          subst y. rewrite Hxl. reflexivity.
        * exfalso. apply byname_none in Ey. apply Ey. apply in_map. exact Hxin.
    - intro m. rewrite T2. reflexivity. }
  { intros rb B0 HR. rewrite T2 in HR |- *.
    assert (Hre : root_empty rb = true).
    { eapply R_nonroot; [exact HR|]. exists r. split; [exact Hin|congruence]. }
    destruct ms as [|m0 [|m1 ms']]; cbn; [exact I|left; exact Hre|exact Hre]. }
  rewrite A in E1. rewrite <- T2. rewrite E1.
  destruct Q' as (xs & Exs & _ & _ & Q3 & Q4). destruct xs; [|discriminate].
  eexists. split; [reflexivity|]. split; [exact HI'|]. split; [exact T3|]. split; [exact Q3|].
  intro m. cbn [db]. specialize (Q4 m). cbn [apply_moves fold_left] in Q4. rewrite Q4. unfold target. try rewrite T2. reflexivity.
Qed.
End Mov.

(* ---------- the entries Move selects: the source and the live entries below a directory *)
Section Sel.
Variable hr : bool.
Variables (from to : str).
Hypothesis Gf : good from.
Hypothesis Gt : good to.
Hypothesis Hf : from <> [slash].
Hypothesis Ht : to <> [slash].

Lemma find_rows_self l x : NoDup (map r_name l) -> In x l -> live x = true -> find_rows l (r_name x) = Some x.
Proof.
  intros Hnd Hin Hl. rewrite find_rows_byname by exact Hnd.
  destruct (byname l (r_name x)) as [y|] eqn:Ey.
  - apply byname_some in Ey as (Hy & Ey).
    assert (y = x).
    { clear - Hnd Hy Hin Ey. induction l as [|z t IH]; [contradiction|]. cbn in Hnd. inversion Hnd; subst.
      destruct Hy as [->|Hy], Hin as [->|Hin]; try reflexivity.
      - exfalso. apply H1. rewrite Ey. apply in_map. exact Hin.
      - exfalso. apply H1. rewrite <- Ey. apply in_map. exact Hy.
      - apply IH; assumption. }
    subst y. rewrite Hl. reflexivity.
  - exfalso. apply byname_none in Ey. apply Ey. apply in_map. exact Hin.
Qed.

Lemma sel_facts lv r : LI hr lv -> find_rows (rows lv) from = Some r ->
  Forall (fun x => PP from to x /\ find_rows (rows lv) (r_name x) = Some x) (r :: mv_kids from (rows lv) r) /\
  NoDup (map r_name (r :: mv_kids from (rows lv) r)).
Proof.
  intros HL Ef. destruct (find_rows_some _ _ _ Ef) as (Hin & Hlive & Hrn).
  assert (Hrows : Forall rowok (rows lv)) by apply HL.
  assert (Hnd0 : NoDup (map r_name (rows lv))) by apply HL.
  assert (Hrok : rowok r) by (rewrite Forall_forall in Hrows; apply Hrows; exact Hin).
  set (kids := mv_kids from (rows lv) r).
  assert (Hkids : Forall (fun x => In x (rows lv) /\ kid_filter from x = true) kids).
  { unfold kids, mv_kids. destruct (r_tf r =? TypeDir); [|constructor].
    apply Forall_forall. intros x Hx. apply filter_In in Hx. exact Hx. }
  assert (Hnd : NoDup (map r_name kids)).
  { unfold kids, mv_kids. destruct (r_tf r =? TypeDir); [|constructor]. apply NoDup_map_filter. exact Hnd0. }
  split.
  - constructor.
    + split; [|rewrite Hrn; exact Ef]. split; [exact Hrok|]. left. split; [exact Hrn|]. unfold nn. rewrite Hrn. apply move_name_self; assumption.
    + apply Forall_forall. intros x Hx. rewrite Forall_forall in Hkids. destruct (Hkids x Hx) as (Hxin & Hxf).
      rewrite Forall_forall in Hrows. pose proof (Hrows x Hxin) as Hok.
      destruct (kid_filter_facts from x Gf Hf (proj1 Hok) Hxf) as (L1 & L2 & L3).
      split; [|apply find_rows_self; assumption].
      split; [exact Hok|]. right. unfold nn. apply move_name_below; try assumption. apply Hok.
  - cbn [map]. constructor; [|exact Hnd]. intro K. apply in_map_iff in K as (x & Ex & Hx).
    rewrite Forall_forall in Hkids. destruct (Hkids x Hx) as (Hxin & Hxf).
    rewrite Forall_forall in Hrows. pose proof (Hrows x Hxin) as Hok.
    destruct (kid_filter_facts from x Gf Hf (proj1 Hok) Hxf) as (_ & _ & L3). congruence.
Qed.
End Sel.
