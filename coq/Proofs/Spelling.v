(* Rename's one-spelling comparison (Model/Fs.v spelling) is the identity on cleaned absolute names. *)
From Coq Require Import List Bool NArith Lia.
Import ListNotations.
From STFS Require Import Str Db Tape Index Ops Fs C01Str.
Open Scope N_scope.

Lemma spelling_good n : good n -> spelling n = n.
Proof.
  intro G. unfold spelling. rewrite (path_clean_good n G).
  destruct G as (cs & _ & ->). cbn [eqb_str]. 
  replace (slash =? 46) with false by reflexivity. cbn [andb].
  unfold trim_prefix. cbn [has_prefix]. rewrite N.eqb_refl. cbn [andb length skipn]. reflexivity.
Qed.

Lemma spelling_root : spelling [slash] = [slash].
Proof. vm_compute. reflexivity. Qed.

Lemma orb_same (b : bool) : b || b = b.
Proof. destruct b; reflexivity. Qed.
