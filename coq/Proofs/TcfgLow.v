(* Tcfg / lower layers, stated directly for an arbitrary configuration (for reuse by later proofs):
   [index_header_any]      index_header_plain with [indexed_name c h0] in place of [h_name h0]   (any c);
   [index_header_sim_any_config]  the live / rebuilt simulation of C01Sim, hypotheses on the INDEXED header [effh c h];
   [loop0_eff], [loop_sim_any_config]  the replay loops of C01Tape;
   [written_*]  the record invariant: what [indexed_name] is for each kind of record the model writes. *)
From Coq Require Import List NArith ZArith Bool Lia.
From Coq Require Import ZifyN ZifyBool.
Import ListNotations.
From STFS Require Import Str Db Tape Index Ops Norm TapeLemmas C01Str C01Db C01Inv C01Sim C01Tape C03Names TcfgSim TcfgOps.
Open Scope N_scope.

Theorem index_header_any c rec blk h0 init p :
  index_header c rec blk h0 init p =
  match usz h0 with
  | None => (p, Fail E_atoi)
  | Some sz => ih_body rec blk (with_size_name h0 sz (indexed_name c h0)) init p
  end.
Proof.
  pose proof (index_header_plain (plain_of c) rec blk (effh c h0) init p (plain_of_plain c)) as K.
  rewrite (index_header_eff c rec blk h0 init p) in K. exact K.
Qed.

Theorem index_header_sim_any_config hr c rec blk h lv rb :
  LI hr lv -> R lv rb -> hnames_ok hr (effh c h) -> hpre lv rb (effh c h) ->
  exists lv' rb' res, index_header c rec blk h false lv = (lv', res) /\
    index_header c rec blk h false rb = (rb', res) /\
    (res = Ok tt -> LI hr lv' /\ R lv' rb' /\ lksub (rows lv) (rows lv') (rec, blk) /\ remono rb rb').
Proof.
  intros HL HR HN Hp.
  pose proof (index_header_sim hr (plain_of c) rec blk (effh c h) lv rb (plain_of_plain c) HL HR HN Hp) as K.
  rewrite (index_header_eff c rec blk h false lv), (index_header_eff c rec blk h false rb) in K. exact K.
Qed.

Definition effl (c : cfg) (l : list (N * hdr)) : list (N * hdr) := map (fun x => (fst x, effh c (snd x))) l.

Lemma loop0_eff c l : forall p, loop0 (plain_of c) (effl c l) p = loop0 c l p.
Proof.
  induction l as [|[st h] l IH]; intro p; [reflexivity|]. cbn [effl map loop0 fst snd].
  change (c_rs (plain_of c)) with (c_rs c). rewrite index_header_eff.
  destruct (index_header c _ _ h false p) as [p1 [u| | |e]]; try reflexivity. apply IH.
Qed.

Lemma effl_fst c l : map fst (effl c l) = map fst l.
Proof. unfold effl. rewrite map_map. reflexivity. Qed.
Lemma effl_snd c l : map snd (effl c l) = map (effh c) (map snd l).
Proof. unfold effl. rewrite !map_map. reflexivity. Qed.

Section LoopSimAny.
Variable hr : bool.
Variable c : cfg.
Variable Q : list hdr -> pstate -> Prop.     (* tracking predicate over the INDEXED headers still to be replayed *)
Hypothesis HS : forall rec blk h rest lv, LI hr lv -> Q (effh c h :: rest) lv ->
  exists lv', index_header c rec blk h false lv = (lv', Ok tt) /\ In (rec, blk) (lks (rows lv')) /\ Q rest lv'.

Lemma loop_sim_any_config : forall l lv rb, LI hr lv -> R lv rb ->
  Forall (hnames_ok hr) (map (effh c) (map snd l)) -> Q (map (effh c) (map snd l)) lv ->
  lpre (effl c l) lv rb ->
  exists lv' rb', loop0 c l lv = (lv', Ok tt) /\ loop0 c l rb = (rb', Ok tt) /\ LI hr lv' /\ R lv' rb' /\
    (forall y, In y (lks (rows lv')) -> In y (lks (rows lv)) \/ exists st, In st (map fst l) /\ y = pos_of (c_rs c) st) /\
    (l <> [] -> In (pos_of (c_rs c) (last (map fst l) 0)) (lks (rows lv'))) /\ Q [] lv'.
Proof.
  intros l lv rb HL HR HF HQ Hpre.
  (* the step hypothesis of the plain loop, for image headers only: generalise Q to remember that *)
  set (Q' := fun (hs : list hdr) (p : pstate) => exists l0, hs = map (effh c) l0 /\ Q hs p).
  assert (HS' : forall rec blk h rest lv0, LI hr lv0 -> Q' (h :: rest) lv0 ->
     exists lv', index_header (plain_of c) rec blk h false lv0 = (lv', Ok tt) /\ In (rec, blk) (lks (rows lv')) /\ Q' rest lv').
  { intros rec blk h rest lv0 HL0 (l0 & E0 & HQ0). destruct l0 as [|h0 l0]; [discriminate|]. cbn [map] in E0. inversion E0; subst h rest.
    destruct (HS rec blk h0 (map (effh c) l0) lv0 HL0 HQ0) as (lv' & A & B & C).
    exists lv'. rewrite index_header_eff. split; [exact A|]. split; [exact B|]. exists l0. split; [reflexivity|exact C]. }
  destruct (loop_sim hr (plain_of c) (plain_of_plain c) Q' HS' (effl c l) lv rb HL HR) as (lv' & rb' & A & B & C & D & E & F & G).
  - rewrite effl_snd. exact HF.
  - rewrite effl_snd. exists (map snd l). split; [reflexivity|exact HQ].
  - exact Hpre.
  - rewrite (loop0_eff c l lv) in A. rewrite (loop0_eff c l rb) in B.
    exists lv', rb'. split; [exact A|]. split; [exact B|]. split; [exact C|]. split; [exact D|].
    rewrite effl_fst in E, F. change (c_rs (plain_of c)) with (c_rs c) in E, F.
    split; [exact E|]. split; [|destruct G as (_ & _ & G); exact G].
    intro Hne. apply F. destruct l; [contradiction|discriminate].
Qed.
End LoopSimAny.

(* ---------- the record invariant: the indexed name of every record the model writes is the entry name *)
(* content records ([encode]): regular, tape size = the encoded size, suffix added iff that size is positive:
   the indexed name is the entry name for EVERY encoded size *)
Lemma written_content c s h : tf_regular (h_tf h) = true ->
  indexed_name c (fst (fst (encode c s h))) = h_name h /\
  h_name (fst (fst (encode c s h))) =
    (if 0 <? snd (fst (encode c s h)) then add_suffix c (h_name h) else h_name h).
Proof.
  intros Hr. unfold encode. destruct (pop_enc s (h_size h)) as [enc s1]. cbn [fst snd] in *. split; [|reflexivity].
  destruct (0 <? enc) eqn:Ez.
  - apply indexed_name_encoded; [exact Hr|apply N.ltb_lt; exact Ez|reflexivity].
  - assert (E0 : enc = 0) by (apply N.ltb_ge in Ez; lia). subst enc. rewrite indexed_name_plain by (left; reflexivity). reflexivity.
Qed.

(* every other record (size 0, or not regular): the plain name *)
Lemma written_plain c h : tf_regular (h_tf h) && (0 <? h_size h) = false -> indexed_name c h = h_name h.
Proof. intro E. unfold indexed_name. rewrite E. reflexivity. Qed.

Print Assumptions index_header_sim_any_config.
Print Assumptions loop_sim_any_config.
