(* T07 / order layer: [ltb_str] is a strict total order, insertion sort by primary key is canonical:
   two row lists with the same elements and pairwise distinct names have the same [sort_rows]. *)
From Coq Require Import List NArith ZArith Bool Lia Sorting.Sorted.
From Coq Require Import ZifyN ZifyBool.
Import ListNotations.
From STFS Require Import Str Db Tape Index Ops Fs Diff Prefix Replay C01Str.
Open Scope N_scope.

(* ---------- ltb_str *)
Lemma ltb_str_irrefl a : ltb_str a a = false.
Proof.
  induction a as [|x a IH]; cbn [ltb_str]; [reflexivity|].
  rewrite IH. rewrite N.ltb_irrefl. rewrite andb_false_r. reflexivity.
Qed.

Lemma ltb_str_trans a : forall b c, ltb_str a b = true -> ltb_str b c = true -> ltb_str a c = true.
Proof.
  induction a as [|x a IH]; intros [|y b] [|z c] H1 H2; cbn [ltb_str] in *; try discriminate; try reflexivity.
  apply orb_true_iff in H1. apply orb_true_iff in H2. apply orb_true_iff.
  destruct H1 as [H1|H1]; destruct H2 as [H2|H2].
  - left. lia.
  - apply andb_true_iff in H2 as [E _]. left. lia.
  - apply andb_true_iff in H1 as [E _]. left. lia.
  - apply andb_true_iff in H1 as [E1 L1]. apply andb_true_iff in H2 as [E2 L2].
    right. apply andb_true_iff. split; [lia|]. eapply IH; eassumption.
Qed.

Lemma ltb_str_total a : forall b, ltb_str a b = true \/ a = b \/ ltb_str b a = true.
Proof.
  induction a as [|x a IH]; intros [|y b]; cbn [ltb_str].
  - right. left. reflexivity.
  - left. reflexivity.
  - right. right. reflexivity.
  - destruct (N.lt_total x y) as [H|[H|H]].
    + left. apply orb_true_iff. left. lia.
    + subst y. destruct (IH b) as [K|[K|K]].
      * left. rewrite K, N.eqb_refl. apply orb_true_r.
      * right. left. subst b. reflexivity.
      * right. right. rewrite K, N.eqb_refl. apply orb_true_r.
    + right. right. apply orb_true_iff. left. lia.
Qed.

(* ---------- the key order on rows *)
Definition rkey (r : row) : str * str := (r_name r, r_link r).
Definition klt (a b : row) : Prop := row_key_ltb a b = true.

Lemma klt_irrefl a : ~ klt a a.
Proof.
  unfold klt, row_key_ltb. rewrite !ltb_str_irrefl, andb_false_r. cbn. discriminate.
Qed.

Lemma klt_trans a b c : klt a b -> klt b c -> klt a c.
Proof.
  unfold klt, row_key_ltb. intros H1 H2.
  apply orb_true_iff in H1. apply orb_true_iff in H2. apply orb_true_iff.
  destruct H1 as [H1|H1]; destruct H2 as [H2|H2].
  - left. eapply ltb_str_trans; eassumption.
  - apply andb_true_iff in H2 as [E _]. apply eqb_str_eq in E. left. rewrite <- E. exact H1.
  - apply andb_true_iff in H1 as [E _]. apply eqb_str_eq in E. left. rewrite E. exact H2.
  - apply andb_true_iff in H1 as [E1 L1]. apply andb_true_iff in H2 as [E2 L2].
    apply eqb_str_eq in E1. apply eqb_str_eq in E2. right. apply andb_true_iff. split.
    + apply eqb_str_eq. congruence.
    + eapply ltb_str_trans; eassumption.
Qed.

Lemma klt_total a b : klt a b \/ rkey a = rkey b \/ klt b a.
Proof.
  unfold klt, row_key_ltb, rkey.
  destruct (ltb_str_total (r_name a) (r_name b)) as [H|[H|H]].
  - left. rewrite H. reflexivity.
  - rewrite H. rewrite eqb_str_refl. rewrite ltb_str_irrefl. cbn [orb andb].
    destruct (ltb_str_total (r_link a) (r_link b)) as [K|[K|K]].
    + left. exact K.
    + right. left. rewrite K. reflexivity.
    + right. right. exact K.
  - right. right. rewrite H. reflexivity.
Qed.

(* ---------- insertion sort *)
Lemma ins_row_in r l x : In x (ins_row r l) <-> x = r \/ In x l.
Proof.
  induction l as [|y t IH]; cbn [ins_row].
  - cbn. intuition.
  - destruct (row_key_ltb y r); cbn [In]; [rewrite IH|]; intuition.
Qed.

Lemma sort_rows_in l x : In x (sort_rows l) <-> In x l.
Proof.
  induction l as [|y t IH]; cbn [sort_rows fold_right]; [reflexivity|].
  fold (sort_rows t). rewrite ins_row_in, IH. cbn. intuition.
Qed.

Lemma ins_row_sorted r l : StronglySorted klt l -> (forall x, In x l -> rkey x <> rkey r) ->
  StronglySorted klt (ins_row r l).
Proof.
  induction l as [|y t IH]; intros HS Hk; cbn [ins_row].
  - constructor; [constructor|constructor].
  - inversion HS as [|? ? HSt Hy]; subst.
    destruct (row_key_ltb y r) eqn:E.
    + constructor.
      * apply IH; [exact HSt|]. intros x Hx. apply Hk. right. exact Hx.
      * apply Forall_forall. intros x Hx. apply ins_row_in in Hx as [->|Hx]; [exact E|].
        rewrite Forall_forall in Hy. apply Hy. exact Hx.
    + assert (Hry : klt r y).
      { destruct (klt_total y r) as [K|[K|K]]; [unfold klt in K; congruence| |exact K].
        exfalso. apply (Hk y); [left; reflexivity|exact K]. }
      constructor; [exact HS|]. constructor; [exact Hry|].
      apply Forall_forall. intros x Hx. rewrite Forall_forall in Hy. eapply klt_trans; [exact Hry|]. apply Hy. exact Hx.
Qed.

Lemma sort_rows_sorted l : NoDup (map rkey l) -> StronglySorted klt (sort_rows l).
Proof.
  induction l as [|y t IH]; intro Hnd; cbn [sort_rows fold_right]; [constructor|].
  fold (sort_rows t). cbn [map] in Hnd. inversion Hnd as [|? ? Hnotin Hnd']; subst.
  apply ins_row_sorted; [apply IH; exact Hnd'|].
  intros x Hx E. apply (proj1 (sort_rows_in _ _)) in Hx. apply Hnotin. rewrite <- E. apply in_map. exact Hx.
Qed.

Lemma sorted_unique l1 : forall l2, StronglySorted klt l1 -> StronglySorted klt l2 ->
  (forall x, In x l1 <-> In x l2) -> l1 = l2.
Proof.
  induction l1 as [|a t1 IH]; intros [|b t2] H1 H2 Hin.
  - reflexivity.
  - exfalso. apply (proj2 (Hin b)). left. reflexivity.
  - exfalso. apply (proj1 (Hin a)). left. reflexivity.
  - inversion H1 as [|? ? S1 F1]; subst. inversion H2 as [|? ? S2 F2]; subst.
    rewrite Forall_forall in F1, F2.
    assert (Eab : a = b).
    { destruct (proj1 (Hin a) (or_introl eq_refl)) as [E|Ha]; [symmetry; exact E|].
      destruct (proj2 (Hin b) (or_introl eq_refl)) as [E|Hb]; [exact E|].
      exfalso. apply (klt_irrefl a). eapply klt_trans; [apply F1; exact Hb|apply F2; exact Ha]. }
    subst b. f_equal. apply IH; [exact S1|exact S2|].
    intro x. split; intro Hx.
    + destruct (proj1 (Hin x) (or_intror Hx)) as [E|K]; [|exact K].
      subst x. exfalso. apply (klt_irrefl a). apply F1. exact Hx.
    + destruct (proj2 (Hin x) (or_intror Hx)) as [E|K]; [|exact K].
      subst x. exfalso. apply (klt_irrefl a). apply F2. exact Hx.
Qed.

Theorem sort_rows_canon A B : NoDup (map rkey A) -> NoDup (map rkey B) ->
  (forall x, In x A <-> In x B) -> sort_rows A = sort_rows B.
Proof.
  intros HA HB Hin. apply sorted_unique; [apply sort_rows_sorted; exact HA|apply sort_rows_sorted; exact HB|].
  intro x. rewrite !sort_rows_in. apply Hin.
Qed.

(* ---------- names determine keys *)
Lemma NoDup_names_keys l : NoDup (map r_name l) -> NoDup (map rkey l).
Proof.
  induction l as [|x t IH]; intro H; cbn [map] in *; [constructor|].
  inversion H as [|? ? Hn Ht]; subst. constructor; [|apply IH; exact Ht].
  intro K. apply Hn. apply in_map_iff in K as (y & E & Hy). apply in_map_iff. exists y. split; [|exact Hy].
  unfold rkey in E. congruence.
Qed.

Lemma NoDup_map_filter' {A B} (g : A -> B) f l : NoDup (map g l) -> NoDup (map g (filter f l)).
Proof.
  induction l as [|x t IH]; intro H; cbn; [constructor|]. inversion H as [|? ? Hn Ht]; subst.
  destruct (f x); cbn; [constructor|]; [|apply IH; exact Ht|apply IH; exact Ht].
  intro K. apply Hn. apply in_map_iff in K as (y & E & Hy). apply filter_In in Hy as [Hy _].
  apply in_map_iff. exists y. split; assumption.
Qed.

Theorem visible_canon p q : NoDup (map r_name (rows p)) -> NoDup (map r_name (rows q)) ->
  (forall x, In x (rows p) <-> In x (rows q)) -> visible p = visible q.
Proof.
  intros Hp Hq Hin. unfold visible. apply sort_rows_canon.
  - apply NoDup_names_keys. apply NoDup_map_filter'. exact Hp.
  - apply NoDup_names_keys. apply NoDup_map_filter'. exact Hq.
  - intro x. rewrite !filter_In, Hin. reflexivity.
Qed.

(* ---------- eqb_row / eqb_list are reflexive *)
Lemma eqb_pax_refl a : eqb_pax a a = true.
Proof.
  induction a as [|[k v] a IH]; cbn; [reflexivity|]. rewrite !eqb_str_refl, IH. reflexivity.
Qed.

Lemma eqb_row_refl a : eqb_row a a = true.
Proof.
  unfold eqb_row. rewrite !eqb_str_refl, !N.eqb_refl, !Z.eqb_refl, eqb_pax_refl, Bool.eqb_reflx. reflexivity.
Qed.

Lemma eqb_list_row_refl l : eqb_list eqb_row l l = true.
Proof. induction l as [|x t IH]; cbn; [reflexivity|]. rewrite eqb_row_refl, IH. reflexivity. Qed.
