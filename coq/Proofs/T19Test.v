(* T19 / tests by computation: the relation R (as the checker Rb), equal outcomes and equal views along the two
   continuations (writer's index / rebuilt index) of several histories, with and without codec suffixes. *)
From Coq Require Import String List NArith ZArith Bool.
Import ListNotations.
From STFS Require Import Str Db Tape Index Ops Fs Diff Norm T19Rel.
Open Scope string_scope.
Open Scope N_scope.

Definition e0 (n : Z) : env := {| ev_hb := []; ev_enc := []; ev_now := n |}.
Definition e1 (n : Z) (hb enc : list N) : env := {| ev_hb := hb; ev_enc := enc; ev_now := n |}.
Definition cfz (suf : string) : cfg :=
  {| c_rs := 3; c_csuf := s suf; c_esuf := []; c_readonly := false; c_uid := 0; c_gid := 0;
     c_uname := s "root"; c_gname := s "0" |}.

(* writer's history, then the reader opens the tape without an index *)
Definition writer (c : cfg) (r1 : list (call * env)) : sys := final c init_sys ((CInitialize [slash], e0 1) :: r1).
Definition reader (c : cfg) (r1 : list (call * env)) : sys :=
  fst (fs_initialize c {| tp := tp (writer c r1); db := p_empty; hbq := []; encq := []; clk := 0%Z |} (s "/")).
Definition check (c : cfg) (r1 r2 : list (call * env)) : bool :=
  Rb (writer c r1) (reader c r1) && Rb_all c (writer c r1) (reader c r1) r2.

(* (A) the history of T05OpenDemo *)
Definition rA1 : list (call * env) :=
  [(CMkdir (s "/a") 493, e0 2); (CCreateFile (s "/a/f") [(1, 0, 700)], e0 3);
   (CRemove (s "/a/f"), e0 4); (CCreateFile (s "/b") [(2, 0, 10)], e0 5); (CRename (s "/b") (s "/a/f"), e0 6);
   (CChmod (s "/a/f") 384, e0 7); (CRename (s "/a") (s "/c"), e0 8)].
Definition rA2 : list (call * env) :=
  [(CInitialize (s "/"), e0 9); (CMkdir (s "/c/d") 493, e0 10); (CCreateFile (s "/c/d/g") [(3, 0, 70)], e0 11);
   (CRename (s "/c/f") (s "/c/d/h"), e0 12); (CRemoveAll (s "/c/d"), e0 13); (CMkdirAll (s "/x/y/z") 493, e0 14);
   (CChtimes (s "/x") 5 6, e0 15); (CCreateFile (s "/x/y/w") [], e0 16); (CRemove (s "/x/y/w"), e0 17);
   (CRename (s "/x/y") (s "/q"), e0 18)].
Example test_A : check (cfz ".z") rA1 rA2 = true /\ check (cfz "") rA1 rA2 = true.
Proof. vm_compute. split; reflexivity. Qed.

(* (B) rename of a directory with children (twice, over a removed name), RemoveAll of a subtree, MkdirAll of
   several levels through an existing prefix, Chmod / Chown / Chtimes on the root "/" *)
Definition rB1 : list (call * env) :=
  [(CMkdirAll (s "/a/b/c") 493, e0 2); (CCreateFile (s "/a/b/c/f") [(1, 0, 1000)], e0 3);
   (CCreateFile (s "/a/b/g") [(2, 0, 5)], e0 4); (CRename (s "/a/b") (s "/a/bb"), e0 5); (CChmod (s "/") 448, e0 6)].
Definition rB2 : list (call * env) :=
  [(CChmod (s "/") 493, e0 10); (CChown (s "/") 7 8, e0 11); (CChtimes (s "/") 3 4, e0 12);
   (CRename (s "/a") (s "/z"), e0 13); (CMkdirAll (s "/z/bb/c/d/e") 448, e0 14);
   (CCreateFile (s "/z/bb/c/d/e/h") [(3, 0, 600)], e0 15); (CRename (s "/z/bb") (s "/y"), e0 16);
   (CRemove (s "/y/c"), e0 17); (CRemoveAll (s "/y/c"), e0 18); (CMkdir (s "/y/c") 493, e0 19);
   (CRename (s "/y/g") (s "/y/c/g"), e0 20); (CRename (s "/y") (s "/z/y"), e0 21); (CRemoveAll (s "/z"), e0 22);
   (CMkdir (s "/z") 493, e0 23); (CRemove (s "/nope"), e0 24); (CMkdir (s "/z") 493, e0 25);
   (CRename (s "/z") (s "/z/q"), e0 26); (CRename (s "/") (s "/r"), e0 27); (CMkdir (s "/") 493, e0 28);
   (CMkdirAll (s "/") 493, e0 29); (CCreateFile (s "/z") [(1, 0, 2)], e0 30); (CCreateFile (s "/") [(1, 0, 2)], e0 31)].
Example test_B : check (cfz "") rB1 rB2 = true /\ check (cfz ".zst") rB1 rB2 = true.
Proof. vm_compute. split; reflexivity. Qed.

(* (C) names containing "%" and "_" (LIKE wildcards), names ending in the codec suffix, names that repeat their parent
   ("a/ba/c" below "a": the depth expression replace(name, 'a/', '') differs on the two sides), uncleaned spellings,
   WriteFile with flags, oracle-supplied header blocks and encoded sizes (0 = an encoder that emits nothing) *)
Definition fl (acc : N) (ap cr ex tr : bool) : oflag := {| o_acc := acc; o_append := ap; o_create := cr; o_excl := ex; o_trunc := tr |}.
Definition rC1 : list (call * env) :=
  [(CMkdir (s "/a") 493, e0 2); (CMkdir (s "/a/ba") 493, e0 3); (CCreateFile (s "/a/ba/c") [(1, 0, 20)], e1 4 [5; 7] [9]);
   (CMkdir (s "/a%") 493, e0 5); (CCreateFile (s "/a%/x.gz") [(2, 0, 30)], e0 6); (CMkdir (s "/a_") 493, e0 7);
   (CCreateFile (s "/a_/.gz") [(2, 0, 30)], e1 8 [4] [0])].
Definition rC2 : list (call * env) :=
  [(CInitialize (s "/"), e0 9); (CCreateFile (s "/a/../a/ba//d.gz") [(3, 0, 70)], e1 10 [2; 2] [100]);
   (CWriteFile (s "/a/ba/c") (fl 1 true false false false) 420 [(4, 0, 5)] false, e0 11);
   (CWriteFile (s "/a/ba/c") (fl 2 false false false true) 420 [(5, 0, 6)] false, e1 12 [] [0]);
   (CWriteFile (s "/a/ba/e") (fl 1 false true true false) 384 [] true, e0 13);
   (CWriteFile (s "/a/ba/e") (fl 1 false true true false) 384 [] true, e0 14);
   (CWriteFile (s "/a/ba/e") (fl 0 false false false false) 384 [(1, 0, 1)] false, e0 15);
   (CRemove (s "/a"), e0 16); (CRemove (s "/a%"), e0 17); (CRemoveAll (s "/a%/x.gz"), e0 18); (CRemove (s "/a%"), e0 19);
   (CRename (s "/a_/.gz") (s "/a/ba/c"), e0 20); (CRename (s "/a/ba") (s "/a_/ba"), e0 21);
   (CChmod (s "/a_/ba/c") 256, e0 22); (CChown (s "/a_/ba/./d.gz") 1 2, e0 23); (CRemoveAll (s "/a_/"), e0 24);
   (CMkdirAll (s "/a/ba/a/ba") 493, e0 25); (CRemove (s "/a/ba"), e0 26); (CReopen, e0 27); (CNop, e0 28);
   (CMkdir (s "/a/ba/a/ba/x") 493, e0 29)].
Example test_C : check (cfz ".gz") rC1 rC2 = true /\ check (cfz "") rC1 rC2 = true.
Proof. vm_compute. split; reflexivity. Qed.

(* (D) a second generation: the reader's own tape is opened again without an index (reader of the reader) and all
   three instances continue *)
Definition reader2 (c : cfg) (r1 r2 : list (call * env)) : sys :=
  fst (fs_initialize c {| tp := tp (final c (reader c r1) r2); db := p_empty; hbq := []; encq := []; clk := 0%Z |} (s "/")).
Example test_D :
  Rb (final (cfz "") (writer (cfz "") rA1) rA2) (reader2 (cfz "") rA1 rA2) = true /\
  Rb_all (cfz "") (final (cfz "") (writer (cfz "") rA1) rA2) (reader2 (cfz "") rA1 rA2) rB1 = true.
Proof. vm_compute. split; reflexivity. Qed.
