(* Tcfg / core: a configuration with codec suffixes behaves like the plain configuration [plain_of c]
   run on the tape whose headers carry the INDEXED names ([effh]: the name the indexer stores for a record).
   This file: the indexer ([index_header], [index_loop], [index_tape], [rebuild]) and [append_and_index]. *)
From Coq Require Import List NArith ZArith Bool Lia.
From Coq Require Import ZifyN ZifyBool.
Import ListNotations.
From STFS Require Import Str Db Tape Index Ops TapeLemmas C01Sim C03Names.
Open Scope N_scope.

(* the same configuration without codec suffixes *)
Definition plain_of (c : cfg) : cfg :=
  {| c_rs := c_rs c; c_csuf := []; c_esuf := []; c_readonly := c_readonly c;
     c_uid := c_uid c; c_gid := c_gid c; c_uname := c_uname c; c_gname := c_gname c |}.

Lemma plain_of_plain c : plain (plain_of c).
Proof. split; reflexivity. Qed.

(* the header as the indexer sees it: the name is the indexed name *)
Definition effh (c : cfg) (h : hdr) : hdr := with_size_name h (h_size h) (indexed_name c h).
Definition effm (c : cfg) (m : member) : member :=
  {| m_hdr := effh c (m_hdr m); m_hb := m_hb m; m_data := m_data m; m_enc := m_enc m |}.
Definition effi (c : cfg) (i : titem) : titem := match i with TM m => TM (effm c m) | TT => TT end.
Definition efft (c : cfg) (t : tape) : tape := map (effi c) t.

Lemma with_size_name_id h : with_size_name h (h_size h) (h_name h) = h.
Proof. destruct h; reflexivity. Qed.

Lemma effh_id c h : indexed_name c h = h_name h -> effh c h = h.
Proof. intro E. unfold effh. rewrite E. apply with_size_name_id. Qed.

Lemma indexed_name_of_plain c h : plain c -> indexed_name c h = h_name h.
Proof.
  intro HP. unfold indexed_name. rewrite remove_suffix_plain by exact HP.
  destruct (tf_regular (h_tf h) && (0 <? h_size h)); reflexivity.
Qed.

Lemma effh_plain c h : plain c -> effh c h = h.
Proof. intro HP. apply effh_id. apply indexed_name_of_plain. exact HP. Qed.

Lemma effh_size0 c h : h_size h = 0 -> effh c h = h.
Proof. intro E. apply effh_id. apply indexed_name_plain. left. exact E. Qed.

Lemma effh_nocontent c h : tf_regular (h_tf h) && (0 <? h_size h) = false -> effh c h = h.
Proof. intro E. apply effh_id. unfold indexed_name. rewrite E. reflexivity. Qed.

Lemma effh_set_pax c h p : effh c (set_pax h p) = set_pax (effh c h) p.
Proof. reflexivity. Qed.

(* a content record: regular, positive tape size, name = add_suffix of the entry name *)
Lemma effh_encoded c h enc n : tf_regular (h_tf h) = true -> 0 < enc ->
  effh c (with_size_name h enc (add_suffix c n)) = with_size_name h enc n.
Proof.
  intros Hr He. unfold effh.
  rewrite (indexed_name_encoded c (with_size_name h enc (add_suffix c n)) n); [reflexivity|exact Hr|exact He|reflexivity].
Qed.

(* ---------- indexHeader *)
Theorem index_header_eff c rec blk h init p :
  index_header (plain_of c) rec blk (effh c h) init p = index_header c rec blk h init p.
Proof.
  unfold index_header.
  change (h_pax (effh c h)) with (h_pax h). change (h_size (effh c h)) with (h_size h).
  destruct (match pax_get K_usize (h_pax h) with
            | Some v => match undecimal v with Some n => Some n | None => None end
            | None => Some (h_size h) end) as [sz|]; [|reflexivity].
  rewrite (indexed_name_of_plain (plain_of c) (effh c h) (plain_of_plain c)).
  change (h_name (effh c h)) with (indexed_name c h).
  change (with_size_name (effh c h) sz (indexed_name c h)) with (with_size_name h sz (indexed_name c h)).
  reflexivity.
Qed.

(* ---------- the tape *)
Lemma item_blocks_effi c i : item_blocks (effi c i) = item_blocks i.
Proof. destruct i; reflexivity. Qed.

Lemma tape_blocks_efft c t : tape_blocks (efft c t) = tape_blocks t.
Proof.
  induction t as [|i t IH]; [reflexivity|]. unfold tape_blocks in *. cbn [efft map fold_right].
  rewrite item_blocks_effi. unfold efft in IH. rewrite IH. reflexivity.
Qed.

Definition effp (c : cfg) (p : N * titem) : N * titem := (fst p, effi c (snd p)).
Definition effpm (c : cfg) (p : N * member) : N * member := (fst p, effm c (snd p)).

Lemma with_starts_efft c t : forall a, with_starts (efft c t) a = map (effp c) (with_starts t a).
Proof.
  induction t as [|i t IH]; intro a; [reflexivity|]. cbn [efft map with_starts]. rewrite item_blocks_effi.
  unfold efft in IH. rewrite IH. reflexivity.
Qed.

Lemma members_from_efft c t from :
  members_from (efft c t) from = option_map (map (effpm c)) (members_from t from).
Proof.
  unfold members_from. rewrite tape_blocks_efft, with_starts_efft.
  assert (Eex : existsb (fun p => fst p =? from) (map (effp c) (with_starts t 0)) =
                existsb (fun p => fst p =? from) (with_starts t 0)).
  { induction (with_starts t 0) as [|x l IHl]; [reflexivity|]. cbn [map existsb]. rewrite IHl. reflexivity. }
  rewrite Eex. clear Eex.
  destruct ((from =? tape_blocks t) || existsb (fun p => fst p =? from) (with_starts t 0)); [|reflexivity].
  cbn [option_map]. f_equal.
  induction (with_starts t 0) as [|[a i] l IH]; [reflexivity|].
  cbn [map flat_map]. rewrite map_app, IH. f_equal.
  destruct i as [m|]; cbn [effp effi fst snd]; [|reflexivity].
  destruct (from <=? a); reflexivity.
Qed.

Lemma efft_app c t1 t2 : efft c (t1 ++ t2) = efft c t1 ++ efft c t2.
Proof. apply map_app. Qed.

Lemma efft_TM c ms : efft c (map TM ms) = map TM (map (effm c) ms).
Proof. unfold efft. rewrite !map_map. reflexivity. Qed.

Lemma member_at_efft c t off : member_at (efft c t) off = option_map (effm c) (member_at t off).
Proof.
  unfold member_at. rewrite with_starts_efft.
  induction (with_starts t 0) as [|[a i] l IH]; [reflexivity|].
  cbn [map filter effp fst snd]. destruct (a =? off); [|exact IH].
  destruct i; reflexivity.
Qed.

Lemma fetch_at_efft c t rec blk : fetch_at (plain_of c) (efft c t) rec blk = fetch_at c t rec blk.
Proof.
  unfold fetch_at. change (c_rs (plain_of c)) with (c_rs c). rewrite member_at_efft.
  destruct (member_at t (off_of (c_rs c) rec blk)) as [m|]; reflexivity.
Qed.

(* ---------- the replay loop *)
Lemma index_loop_eff c init : forall ms i offset subst p,
  index_loop (plain_of c) (map (effpm c) ms) i offset (option_map (map (effh c)) subst) init p =
  index_loop c ms i offset subst init p.
Proof.
  induction ms as [|[st m] ms IH]; intros i offset subst p; [reflexivity|].
  cbn [map index_loop effpm fst snd].
  destruct (i <? offset)%nat; [apply IH|].
  assert (E : match option_map (map (effh c)) subst with
              | Some l => nth_error l (i - offset)
              | None => Some (m_hdr (effm c m)) end =
              option_map (effh c) (match subst with Some l => nth_error l (i - offset) | None => Some (m_hdr m) end)).
  { destruct subst as [l|]; cbn [option_map]; [|reflexivity].
    generalize (i - offset)%nat. induction l as [|x l IHl]; intros [|k]; cbn; try reflexivity. apply IHl. }
  rewrite E. destruct (match subst with Some l => nth_error l (i - offset) | None => Some (m_hdr m) end) as [h|];
    cbn [option_map]; [|reflexivity].
  change (c_rs (plain_of c)) with (c_rs c). destruct (pos_of (c_rs c) st) as [rec blk].
  rewrite index_header_eff.
  destruct (index_header c rec blk h init p) as [p' [u| | |e]]; try reflexivity. apply IH.
Qed.

Theorem index_tape_eff c t from offset subst ow init p :
  index_tape (plain_of c) (efft c t) from offset (option_map (map (effh c)) subst) ow init p =
  index_tape c t from offset subst ow init p.
Proof.
  unfold index_tape. rewrite members_from_efft.
  destruct (members_from t from) as [ms|]; cbn [option_map]; [|reflexivity].
  apply index_loop_eff.
Qed.

Theorem rebuild_eff c t : rebuild (plain_of c) (efft c t) = rebuild c t.
Proof. unfold rebuild. apply (index_tape_eff c t 0 0 None true false p_empty). Qed.

(* ---------- states *)
Definition Pl (c : cfg) (s : sys) : sys :=
  {| tp := efft c (tp s); db := db s; hbq := hbq s; encq := encq s; clk := clk s |}.

(* [x0] is the image of the result [x] *)
Definition liftP {A} (c : cfg) (x : sys * A) : sys * A := (Pl c (fst x), snd x).

Lemma append_and_index_eff c s last ms hs ow init :
  append_and_index (plain_of c) (Pl c s) last (map (effm c) ms) (map (effh c) hs) ow init =
  liftP c (append_and_index c s last ms hs ow init).
Proof.
  unfold append_and_index, liftP. cbn [tp db hbq encq clk Pl].
  change (c_rs (plain_of c)) with (c_rs c).
  assert (Et : efft c (tp s) ++ map TM (map (effm c) ms) ++ match map (effm c) ms with [] => [] | _ :: _ => [TT] end =
               efft c (tp s ++ map TM ms ++ match ms with [] => [] | _ :: _ => [TT] end)).
  { rewrite !efft_app, efft_TM. destruct ms; reflexivity. }
  rewrite Et.
  pose proof (index_tape_eff c (tp s ++ map TM ms ++ match ms with [] => [] | _ :: _ => [TT] end)
                (off_of (c_rs c) (fst last) (snd last)) (if ow then 0 else 1)%nat (Some hs) ow init (db s)) as E.
  cbn [option_map] in E. rewrite E.
  destruct (index_tape c _ _ _ _ _ _ _) as [p r]. reflexivity.
Qed.
