(* T15 / Hist: the per-call statements in the shape of the task, and all histories.
   [T15_history]      no CInitialize in the history, or the index has a live row (then CInitialize finds a root and keeps the index):
                      tape and rows are those of the initial state after every call, every mutator was answered OPerm.
   [T15_history_any]  histories with CInitialize anywhere, from any state: the tape never changes and the rows are, after every
                      call, either the initial rows or the rows of the index built from that same tape (recovery.Index, no write). *)
From Coq Require Import List NArith ZArith Bool.
Import ListNotations.
From STFS Require Import Str Db Tape Index Ops Fs File Diff Norm T15Def T15Db T15Step.
Open Scope N_scope.

Lemma Forall2_impl {A B} (P Q : A -> B -> Prop) l l' : (forall a b, P a b -> Q a b) -> Forall2 P l l' -> Forall2 Q l l'.
Proof. intros H F. induction F; constructor; auto. Qed.

Definition has_live (p : pstate) : Prop := filter live (rows p) <> [].

Lemma has_live_has_root p : has_live p -> has_root p.
Proof. unfold has_live, has_root. intros H E. apply get_root_path_none in E as [_ E]. contradiction. Qed.

(* ---------------------------------------------------------------- A. one call, every state *)
Theorem T15_step_env c s k : ro c -> ro_call k = true ->
  let s' := fst (step c s k) in tp s' = tp s /\ hbq s' = hbq s /\ encq s' = encq s /\ clk s' = clk s.
Proof.
  intros R C s'. subst s'. destruct (is_init k) eqn:I; [|destruct (is_reopen k) eqn:O].
  - destruct k; try discriminate I. cbn [step]. destruct (T15_initialize c s rootp R) as (A & B & D & E & _). auto.
  - destruct k; try discriminate O. cbn. auto.
  - destruct (T15_step_frame c s k R C I O) as (A & B & D & E & _). auto.
Qed.

Theorem T15_step_tape_ro c s k : ro c -> ro_call k = true -> tp (fst (step c s k)) = tp s.
Proof. intros R C. apply (T15_step_env c s k R C). Qed.

Theorem T15_step_tape : forall c s k, ro c -> fs_call k = true -> tp (fst (step c s k)) = tp s.
Proof. intros c s k R F. apply T15_step_tape_ro; [exact R|apply fs_call_ro_call; exact F]. Qed.

Theorem T15_step_rows_ro c s k : ro c -> ro_call k = true -> is_init k = false ->
  rows (db (fst (step c s k))) = rows (db s).
Proof.
  intros R C I. destruct (is_reopen k) eqn:O.
  - destruct k; try discriminate O. cbn [step fst set_db db]. apply p_open_rows.
  - destruct (T15_step_frame c s k R C I O) as (_ & _ & _ & _ & H & _). exact H.
Qed.

Theorem T15_step_rows : forall c s k, ro c -> fs_call k = true -> is_init k = false ->
  rows (db (fst (step c s k))) = rows (db s).
Proof. intros c s k R F. apply T15_step_rows_ro; [exact R|apply fs_call_ro_call; exact F]. Qed.

(* with CInitialize: the rows stay, or they are those of the index built from the tape *)
Theorem T15_step_rows_any c s k : ro c -> ro_call k = true ->
  rows (db (fst (step c s k))) = rows (db s) \/
  (is_init k = true /\ ~ has_root (db s) /\ tp s <> [] /\ rows (db (fst (step c s k))) = rows (fst (rebuild c (tp s)))).
Proof.
  intros R C. destruct (is_init k) eqn:I; [|left; apply T15_step_rows_ro; assumption].
  destruct k; try discriminate I. cbn [step].
  destruct (T15_initialize c s rootp R) as (_ & _ & _ & _ & H1 & H2 & H3).
  destruct (get_root_path (db s)) as [p [x|]] eqn:G.
  - left. apply H1. unfold has_root. rewrite G. cbn. congruence.
  - assert (NH : ~ has_root (db s)) by (unfold has_root; rewrite G; cbn; congruence).
    destruct (tp s) as [|i t] eqn:T.
    + left. destruct (H2 NH eq_refl) as [E _]. rewrite E. reflexivity.
    + right. split; [reflexivity|]. split; [exact NH|]. split; [congruence|].
      apply H3; [exact NH|congruence].
Qed.

Corollary T15_step_rows_live c s k : ro c -> ro_call k = true -> has_live (db s) ->
  rows (db (fst (step c s k))) = rows (db s).
Proof.
  intros R C L. destruct (T15_step_rows_any c s k R C) as [H|(_ & H & _)]; [exact H|].
  exfalso. apply H. apply has_live_has_root. exact L.
Qed.

(* what a call can change: nothing but the root cache of the index *)
Theorem T15_step_only_cache c s k : ro c -> ro_call k = true -> is_init k = false ->
  let s' := fst (step c s k) in
  s' = set_db s {| rows := rows (db s); root := root (db s'); root_empty := root_empty (db s') |}.
Proof.
  intros R C I s'. pose proof (T15_step_env c s k R C) as (A & B & D & E).
  pose proof (T15_step_rows_ro c s k R C I) as F. fold s' in A, B, D, E, F.
  destruct s' as [t p hq eq ck]. destruct s. destruct p. cbn in *. subst. reflexivity.
Qed.

(* mutators: the whole state is returned, with the permission error *)
Theorem T15_mutators_perm : forall c s k, ro c -> mutator k = true -> snd (step c s k) = OPerm.
Proof. intros c s k R M. rewrite T15_mutator_id by assumption. reflexivity. Qed.
Theorem T15_mutators_state : forall c s k, ro c -> mutator k = true -> fst (step c s k) = s.
Proof. intros c s k R M. rewrite T15_mutator_id by assumption. reflexivity. Qed.

(* ---------------------------------------------------------------- B. histories *)
Definition ro_hist (h : list (call * env)) : Prop := Forall (fun ke => ro_call (fst ke) = true) h.

Lemma with_env_tp s e : tp (with_env s e) = tp s. Proof. reflexivity. Qed.
Lemma with_env_db s e : db (with_env s e) = db s. Proof. reflexivity. Qed.

Definition ob_ok (s0 : sys) (ke : call * env) (ob : obs) : Prop :=
  ob_blocks ob = tape_blocks (tp s0) /\ ob_rows ob = rows (db s0) /\ (mutator (fst ke) = true -> ob_out ob = OPerm).

Theorem T15_history c : ro c -> forall h s, ro_hist h -> (init_free h \/ has_live (db s)) ->
  tp (final c s h) = tp s /\ rows (db (final c s h)) = rows (db s) /\ Forall2 (ob_ok s) h (run c s h).
Proof.
  intros R h. induction h as [|[k e] h IH]; intros s RH HI; cbn [final run].
  - repeat split. constructor.
  - inversion RH as [|x l C RH']; subst. cbn [fst] in C.
    pose proof (T15_step_tape_ro c (with_env s e) k R C) as T. rewrite with_env_tp in T.
    assert (RW : rows (db (fst (step c (with_env s e) k))) = rows (db s)).
    { destruct HI as [HI|HI].
      - inversion HI; subst. cbn [fst] in *. rewrite T15_step_rows_ro by assumption. reflexivity.
      - rewrite T15_step_rows_live by (try assumption; rewrite with_env_db; exact HI). reflexivity. }
    assert (HI' : init_free h \/ has_live (db (fst (step c (with_env s e) k)))).
    { destruct HI as [HI|HI]; [left; inversion HI; assumption|right]. unfold has_live. rewrite RW. exact HI. }
    destruct (IH _ RH' HI') as (A & B & D).
    destruct (step c (with_env s e) k) as [s1 o] eqn:E. cbn [fst] in *.
    split; [congruence|]. split; [congruence|]. constructor.
    + unfold ob_ok, observe. cbn [ob_blocks ob_rows ob_out fst]. split; [congruence|]. split; [exact RW|].
      intro M. pose proof (T15_mutators_perm c (with_env s e) k R M) as P. rewrite E in P. exact P.
    + eapply Forall2_impl; [|exact D]. intros ke ob (X & Y & Z). unfold ob_ok. rewrite X, Y, T, RW. auto.
Qed.

Theorem T15_history_any c : ro c -> forall h s, ro_hist h ->
  tp (final c s h) = tp s /\
  (rows (db (final c s h)) = rows (db s) \/ rows (db (final c s h)) = rows (fst (rebuild c (tp s)))) /\
  Forall2 (fun ke ob => ob_blocks ob = tape_blocks (tp s)
                        /\ (ob_rows ob = rows (db s) \/ ob_rows ob = rows (fst (rebuild c (tp s))))
                        /\ (mutator (fst ke) = true -> ob_out ob = OPerm)) h (run c s h).
Proof.
  intros R h. induction h as [|[k e] h IH]; intros s RH; cbn [final run].
  - split; [reflexivity|]. split; [left; reflexivity|constructor].
  - inversion RH as [|x l C RH']; subst. cbn [fst] in C.
    pose proof (T15_step_tape_ro c (with_env s e) k R C) as T. rewrite with_env_tp in T.
    assert (RW : rows (db (fst (step c (with_env s e) k))) = rows (db s) \/
                 rows (db (fst (step c (with_env s e) k))) = rows (fst (rebuild c (tp s)))).
    { destruct (T15_step_rows_any c (with_env s e) k R C) as [H|(_ & _ & _ & H)]; [left|right]; exact H. }
    destruct (IH (fst (step c (with_env s e) k)) RH') as (A & B & D).
    destruct (step c (with_env s e) k) as [s1 o] eqn:E. cbn [fst] in *. rewrite T in *.
    split; [exact A|]. split.
    { destruct B as [B|B]; [rewrite B; exact RW|right; exact B]. }
    constructor.
    + unfold observe. cbn [ob_blocks ob_rows ob_out fst]. split; [congruence|]. split; [exact RW|].
      intro M. pose proof (T15_mutators_perm c (with_env s e) k R M) as P. rewrite E in P. exact P.
    + eapply Forall2_impl; [|exact D]. intros ke ob (X & Y & Z). split; [exact X|]. split; [|exact Z].
      destruct Y as [Y|Y]; [rewrite Y; exact RW|right; exact Y].
Qed.

(* the statement of the task, over fs-level calls *)
Lemma fs_hist_ro_hist h : Forall (fun ke => fs_call (fst ke) = true) h -> ro_hist h.
Proof. intro H. eapply Forall_impl; [|exact H]. intros a. apply fs_call_ro_call. Qed.

Corollary T15_history_fs c s h : ro c -> Forall (fun ke => fs_call (fst ke) = true) h -> (init_free h \/ has_live (db s)) ->
  tp (final c s h) = tp s /\ rows (db (final c s h)) = rows (db s) /\ Forall2 (ob_ok s) h (run c s h).
Proof. intros R F. apply T15_history; [exact R|apply fs_hist_ro_hist; exact F]. Qed.

Print Assumptions T15_history.
Print Assumptions T15_history_any.
