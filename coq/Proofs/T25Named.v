(* T25 / Named: the history theorems of C13, C02 and C04 for a foreign archive written BELOW A NAMED TOP DIRECTORY
   (archive  top/ top/d/ top/d/f ...; stored names "top", "top/d/f"; cached root "top"), through the simulation of T23
   ([T23Main.Sim top c sa sr], sa = the writer twin of the tree).  Plain configuration (as T23).
   The named instance receives the names "top/..." ([ren_call top k] when the twin receives k; [psi top]: "/" -> "top",
   "/d/f" -> "top/d/f").  Its statements are in ITS spelling, where [path_dir] applies directly:
   - [wf_tree_named]      : unique live names; every live row but "top" has a live parent row named [path_dir] of its
                            name that is a directory; every live name is psi of a cleaned absolute name;
   - T25_listing_named    : GetHeaderDirectChildren (psi d) = the live rows directly below, each once, limit = prefix;
   - T25_walk_named       : the walk from "top" shows exactly the live rows (depth <= 16), each once, = the twin's walk
                            with the paths renamed;
   - T25_conforms_named   : every call returns the reference's outcome and leaves the reference's namespace, the reference
                            run on the named instance's own namespace with the names mapped back ([abs_named]);
   - T25_named_C04        : a read of "top/..." returns what was last written (the members' data counting as written). *)
From Coq Require Import List NArith ZArith Bool Lia.
From Coq Require Import ZifyN ZifyBool.
Import ListNotations.
From STFS Require Import Str Db Tape Index Ops Fs File Diff Norm TapeLemmas StrLemmas C01Str C01Db C01Inv C01Sim C01Ops C01Fs2 C01Rows
  T02Ns T02Spec T04Def T04Content T13Path T13Def T13ListStr T13List T13View T13Fs T13Tree
  T17Tree T17View T20Twin T20Good T23Rel T23Base T23Db T23Reads T23Append T23Ops T23Main T25Core T25Abs T25Foreign.
From STFS Require T19Base T19Db T04View T04Ns.
Open Scope N_scope.

Section Top.
Variable top : str.
Hypothesis Htop : okc top.

Notation psi := (T23Rel.psi top).
Notation rowrel := (T23Rel.rowrel top).
Notation rows_rel := (T23Rel.rows_rel top).
Notation ren_entry := (T23Rel.ren_entry top).
Notation PR := (T23Db.PR top top).

(* ---------- names *)
Lemma unpsi_psi g : is_abs g = true -> unpsi top (psi g) = g.
Proof.
  intro Ha. unfold unpsi, T23Rel.psi. destruct (eqb_str g [slash]) eqn:E.
  - apply eqb_str_eq in E. subst g. rewrite eqb_str_refl. reflexivity.
  - assert (K : eqb_str (top ++ g) top = false).
    { apply eqb_str_neq. intro K. rewrite <- (app_nil_r top) in K at 2. apply app_inv_head in K. subst g. discriminate. }
    rewrite K. apply skipn_app_len.
Qed.

Lemma psi_depth g : good g -> (slash_count (psi g) <= 16 <-> slash_count g <= 16).
Proof.
  intro G. destruct (str_eq_dec g [slash]) as [->|Hg].
  - rewrite (psi_root top Htop). rewrite (sc_noslash top (proj2 (proj2 (proj2 Htop)))). cbn. lia.
  - rewrite (psi_nonroot top Htop g Hg), sc_app, (sc_noslash top (proj2 (proj2 (proj2 Htop)))). lia.
Qed.

Lemma psi_root_iff g : is_abs g = true -> (psi g = top <-> g = [slash]).
Proof.
  intro Ha. split; [|intros ->; apply (psi_root top Htop)]. intro E. rewrite <- (psi_root top Htop) in E at 2.
  apply (psi_inj top Htop g [slash] Ha eq_refl E).
Qed.

(* ---------- rows *)
Lemma rows_rel_names_n la lr : rows_rel la lr -> map r_name lr = map psi (map r_name la).
Proof. induction 1 as [|a r la lr H _ IH]; [reflexivity|]. cbn [map]. rewrite IH, (T23Rel.rr_name _ _ _ H). reflexivity. Qed.

Lemma rows_rel_nodup_n la lr : rows_rel la lr -> NoDup (map r_name la) -> NoDup (map r_name lr).
Proof.
  intros H Hnd. rewrite (rows_rel_names_n la lr H). apply NoDup_map_inj_in; [|exact Hnd].
  intros x y Hx Hy E. apply in_map_iff in Hx as (a & <- & Ha). apply in_map_iff in Hy as (b & <- & Hb).
  destruct (F2_in_l _ _ _ a H Ha) as (ra & _ & Ra). destruct (F2_in_l _ _ _ b H Hb) as (rb & _ & Rb).
  exact (psi_inj top Htop _ _ (T23Rel.rr_abs _ _ _ Ra) (T23Rel.rr_abs _ _ _ Rb) E).
Qed.

Lemma lrows_rel_n pa pr : rows_rel (rows pa) (rows pr) -> rows_rel (lrows pa) (lrows pr).
Proof. intro H. unfold lrows. apply F2_filter; [exact H|]. intros a r _ _ Har. symmetry. apply (rowrel_live top Htop). exact Har. Qed.

(* ---------- (1) the tree *)
Definition wf_tree_named (p : pstate) : Prop :=
  NoDup (map r_name (lrows p)) /\
  (forall r, In r (lrows p) -> r_name r <> top ->
     exists q, In q (lrows p) /\ r_name q = path_dir (r_name r) /\ r_tf q = TypeDir) /\
  (forall r, In r (lrows p) -> exists g, good g /\ r_name r = psi g).

Theorem T25_tree_named : forall pa pr, rows_rel (rows pa) (rows pr) -> wf_tree pa -> wf_tree_named pr.
Proof.
  intros pa pr H (W1 & W2 & W3). pose proof (lrows_rel_n pa pr H) as HL. split; [|split].
  - exact (rows_rel_nodup_n _ _ HL W1).
  - intros r Hr Hn. destruct (F2_in_r _ _ _ r HL Hr) as (a & Ha & Har). pose proof (W3 a Ha) as Ga.
    assert (Hna : r_name a <> [slash]).
    { intro K. apply Hn. rewrite (T23Rel.rr_name _ _ _ Har), K. apply (psi_root top Htop). }
    destruct (W2 a Ha Hna) as (q & Hq & Eq & Tq).
    destruct (F2_in_l _ _ _ q HL Hq) as (qr & Hqr & Hqq). exists qr. split; [exact Hqr|]. split.
    + rewrite (T23Rel.rr_name _ _ _ Hqq), Eq, (T23Rel.rr_name _ _ _ Har). symmetry. apply (path_dir_psi top Htop); assumption.
    + rewrite (T23Rel.rr_tf _ _ _ Hqq). exact Tq.
  - intros r Hr. destruct (F2_in_r _ _ _ r HL Hr) as (a & Ha & Har). exists (r_name a). split; [apply W3; exact Ha|exact (T23Rel.rr_name _ _ _ Har)].
Qed.

Lemma lrows_named_same p x y : wf_tree_named p -> In x (lrows p) -> In y (lrows p) -> r_name x = r_name y -> x = y.
Proof. intros (W1 & _) Hx Hy E. exact (NoDup_map_same r_name (lrows p) x y W1 Hx Hy E). Qed.

(* ---------- (2) the listing *)
Definition childp_named (d : str) (r : row) : bool :=
  live r && negb (eqb_str (r_name r) top) && eqb_str (path_dir (r_name r)) (psi d).

Lemma childp_named_eq d a r : good d -> rowrel a r -> good (r_name a) -> childp_named d r = childp d a.
Proof.
  intros G H Ga. unfold childp_named, childp. rewrite (rowrel_live top Htop _ _ H), (T23Rel.rr_name _ _ _ H).
  assert (E1 : eqb_str (psi (r_name a)) top = eqb_str (r_name a) [slash]).
  { transitivity (eqb_str (psi (r_name a)) (psi [slash])); [rewrite (psi_root top Htop); reflexivity|].
    apply (psi_eqb top Htop); [apply good_abs; exact Ga|reflexivity]. }
  rewrite E1.
  destruct (eqb_str (r_name a) [slash]) eqn:E; [rewrite !andb_false_r; reflexivity|]. apply eqb_str_neq in E.
  rewrite (path_dir_psi top Htop _ Ga E).
  pose proof (path_dir_good_parent (r_name a) Ga E) as Gp. rewrite (psi_eqb top Htop _ _ (good_abs _ Gp) (good_abs _ G)). reflexivity.
Qed.

Lemma gdc_named pa pr d lim : PR pa pr -> good d ->
  snd (get_direct_children pr (psi d) lim) =
  Ok (cut lim (filter (postf (pfx (psi d)) (psi d)) (cutq lim (filter (selp (pfx (psi d)) 0) (rows pr))))).
Proof.
  intros H G. destruct (T23Db.links_nil top Htop _ _ _ H) as [_ Lr].
  rewrite (gdc_form_any pr (psi d) pr (psi d) lim (T23Db.sanitize_rd top Htop top pa pr d (or_introl eq_refl) H G) Lr).
  rewrite (psi_is_root top Htop d G). reflexivity.
Qed.

Theorem T25_listing_named : forall pa pr d, PR pa pr -> good d ->
  exists l, snd (get_direct_children pr (psi d) None) = Ok l /\
    l = filter (childp_named d) (rows pr) /\
    NoDup (map r_name l) /\
    (forall x, In x l <-> (In x (lrows pr) /\ r_name x <> top /\ path_dir (r_name x) = psi d)) /\
    (forall k lk, snd (get_direct_children pr (psi d) (Some k)) = Ok lk -> exists j, (j <= k)%nat /\ lk = firstn j l) /\
    rows_rel (filter (childp d) (rows pa)) l /\
    snd (inv_list pr (psi d) None) = Ok (map hdr_of_row l).
Proof.
  intros pa pr d H G. set (n := psi d).
  pose proof (T23Db.PR_rowok top Htop _ _ _ H) as F. rewrite Forall_forall in F.
  destruct (T23Db.links_nil top Htop _ _ _ H) as [La _]. rewrite Forall_forall in La.
  pose proof (T23Rel.pr_rows _ _ _ _ (T23Db.PR_rel _ _ _ _ H)) as HR.
  assert (Hp : forall r, In r (rows pr) -> selp (pfx n) 0 r && postf (pfx n) n r = childp_named d r).
  { intros r Hr. destruct (F2_in_r _ _ _ r HR Hr) as (a & Ha & Har). destruct (F a Ha) as (Ga & _).
    rewrite (childp_named_eq d a r G Har Ga). exact (T23Db.direct_pred_rel top Htop d a r G Har Ga (La a Ha)). }
  assert (El : filter (postf (pfx n) n) (filter (selp (pfx n) 0) (rows pr)) = filter (childp_named d) (rows pr)).
  { rewrite filter_filter. apply filter_ext_in2. exact Hp. }
  exists (filter (childp_named d) (rows pr)).
  assert (E0 : snd (get_direct_children pr (psi d) None) = Ok (filter (childp_named d) (rows pr))).
  { rewrite (gdc_named pa pr d None H G). cbn [cut cutq]. fold n. rewrite El. reflexivity. }
  split; [exact E0|]. split; [reflexivity|]. split; [|split; [|split; [|split]]].
  - apply NoDup_map_filter. apply (rows_rel_nodup_n (rows pa) (rows pr) HR). apply (T23Db.PR_li _ _ _ _ H).
  - intro x. unfold lrows, childp_named. rewrite !filter_In. split.
    + intros [Hin Hq]. apply andb_true_iff in Hq as [Hq H3]. apply andb_true_iff in Hq as [H1 H2].
      apply negb_true_iff in H2. apply eqb_str_neq in H2. apply eqb_str_eq in H3. repeat split; assumption.
    + intros ([Hin Hl] & Hne & Hd). split; [exact Hin|]. rewrite Hl. cbn [andb]. apply andb_true_iff. split.
      * apply negb_true_iff. apply eqb_str_neq. exact Hne.
      * apply eqb_str_eq. exact Hd.
  - intros k lk Hk. unfold n in Hk. rewrite (gdc_named pa pr d (Some k) H G) in Hk. fold n in Hk.
    destruct (cut_prefix (postf (pfx n) n) (filter (selp (pfx n) 0) (rows pr)) k) as (j & Hj & E).
    exists j. split; [exact Hj|]. rewrite E, El in Hk. inversion Hk. reflexivity.
  - apply F2_filter; [exact HR|]. intros a r Ha _ Har. symmetry. apply childp_named_eq; [exact G|exact Har|apply (F a Ha)].
  - unfold inv_list, n. destruct (get_direct_children pr (psi d) None) as [p1 r1]. cbn [snd] in E0. subst r1. reflexivity.
Qed.

(* ---------- (3) the walk *)
Lemma pick_related_n la lr l : rows_rel la lr -> (forall x, In x l -> In x la) ->
  exists l', Forall2 rowrel l l' /\ (forall y, In y l' -> In y lr).
Proof.
  intros H. induction l as [|x l IH]; intro Hin.
  - exists []. split; [constructor|intros y []].
  - destruct IH as (l' & A & B); [intros y Hy; apply Hin; right; exact Hy|].
    destruct (F2_in_l _ _ _ x H (Hin x (or_introl eq_refl))) as (r & Hr & Hxr).
    exists (r :: l'). split; [constructor; assumption|]. intros y [<-|Hy]; [exact Hr|apply B; exact Hy].
Qed.

Theorem T25_walk_named : forall c sa sr, PR (db sa) (db sr) -> T23Rel.tape_rel (tp sa) (tp sr) -> wf_tree (db sa) -> idx_plain (db sa) ->
  view_at c sr top = map ren_entry (view c sa) /\
  exists l, view_at c sr top = map (ent c sr) l /\ NoDup l /\
    forall x, In x l <-> (In x (lrows (db sr)) /\ slash_count (r_name x) <= 16).
Proof.
  intros c sa sr H Ht W I. pose proof (T23Reads.view_sim top Htop c sa sr H Ht) as Ev. split; [exact Ev|].
  destruct (T13_view_exact c sa W I) as (l & El & Hnd & Hl).
  pose proof (T23Rel.pr_rows _ _ _ _ (T23Db.PR_rel _ _ _ _ H)) as HR.
  pose proof (lrows_rel_n _ _ HR) as HL. pose proof (T25_tree_named _ _ HR W) as WR.
  destruct (pick_related_n (lrows (db sa)) (lrows (db sr)) l HL) as (l' & Hrel & Hin').
  { intros x Hx. apply Hl in Hx. apply Hx. }
  assert (Hgood : forall a, In a (lrows (db sa)) -> good (r_name a)) by (destruct W as (_ & _ & W3); exact W3).
  exists l'. split; [|split].
  - rewrite Ev, El, map_map. apply (T19Base.F2_map_eq rowrel); [exact Hrel|]. intros a r Ha _ Har. symmetry.
    unfold ent. rewrite (T23Rel.rr_name _ _ _ Har).
    apply (T23Reads.entry_of_sim top Htop c sa sr); [exact H|exact Ht| |apply (hrel_of_rowrel top Htop); exact Har].
    apply Hgood. apply Hl in Ha. apply Ha.
  - apply (NoDup_map_inv r_name). rewrite (rows_rel_names_n l l' Hrel). apply NoDup_map_inj_in.
    + intros x y Hx Hy E. apply in_map_iff in Hx as (a & <- & Ha). apply in_map_iff in Hy as (b & <- & Hb).
      apply (psi_inj top Htop _ _); [apply good_abs; apply Hgood; apply Hl in Ha; apply Ha|apply good_abs; apply Hgood; apply Hl in Hb; apply Hb|exact E].
    + apply NoDup_map_inj_in; [|exact Hnd]. intros x y Hx Hy E. apply Hl in Hx. apply Hl in Hy.
      apply (lrows_same (db sa) x y W); [apply Hx|apply Hy|exact E].
  - intro x. split.
    + intro Hx. split; [apply Hin'; exact Hx|]. destruct (F2_in_r _ _ _ x Hrel Hx) as (a & Ha & Hax).
      apply Hl in Ha. rewrite (T23Rel.rr_name _ _ _ Hax). apply psi_depth; [apply Hgood; apply Ha|apply Ha].
    + intros (Hx & Hd). destruct (F2_in_r _ _ _ x HL Hx) as (a & Ha & Hax).
      assert (Hal : In a l).
      { apply Hl. split; [exact Ha|]. rewrite (T23Rel.rr_name _ _ _ Hax) in Hd. apply (psi_depth _ (Hgood a Ha)). exact Hd. }
      destruct (F2_in_l _ _ _ a Hrel Hal) as (y & Hy & Hay).
      rewrite (rowrel_fun top Htop a x y Hax Hay). exact Hy.
Qed.

(* ---------- the namespace of the named instance, names mapped back *)
Definition abs_named (s : sys) : ns := map (fun e => (unpsi top (fst e), snd e)) (abs s).

Lemma abs_named_eq sa sr : rows_rel (rows (db sa)) (rows (db sr)) -> abs_named sr = abs sa.
Proof.
  unfold abs_named, abs, absp. intro H. rewrite map_map. cbn [fst snd].
  induction H as [|a r la lr Har _ IH]; [reflexivity|]. cbn [filter]. rewrite (rowrel_live top Htop a r Har).
  destruct (live a); [|exact IH]. cbn [map]. rewrite IH, (T23Main.node_of_rel top Htop a r Har), (T23Rel.rr_name _ _ _ Har).
  rewrite (unpsi_psi _ (T23Rel.rr_abs _ _ _ Har)). reflexivity.
Qed.

(* the history [h] is given in absolute names (as the reference reads it); the named instance receives [ren_call top k] *)
Fixpoint ok_run_named (c : cfg) (s : sys) (h : list (call * env)) : Prop :=
  match h with
  | [] => True
  | (k, e) :: r => hb_env e /\ call_pre (abs_named s) k /\ ok_run_named c (fst (step c (with_env s e) (ren_call top k))) r
  end.

Fixpoint conforms_named (c : cfg) (s : sys) (h : list (call * env)) : Prop :=
  match h with
  | [] => True
  | (k, e) :: r =>
    let '(s', o) := step c (with_env s e) (ren_call top k) in
    (exists cid sp, spec_call c (abs_named s) k (ev_now e) cid = Some sp /\ o = snd sp /\ ns_eq (abs_named s') (fst sp)) /\
    conforms_named c s' r
  end.

(* the ghost map "last written" along the named instance's run, kept under the absolute names *)
Fixpoint last_written_named (c : cfg) (s : sys) (h : list (call * env)) (w : wmap) : wmap :=
  match h with
  | [] => w
  | (k, e) :: r => let '(s', o) := step c (with_env s e) (ren_call top k) in last_written_named c s' r (upd_w k o w)
  end.

Section Step.
Variable c : cfg.
Hypothesis HP : plain c.
Hypothesis Hrs : 0 < c_rs c.
Hypothesis Hro : c_readonly c = false.

Notation Sim := (T23Main.Sim top c).

Lemma Sim_rows sa sr : Sim sa sr -> rows_rel (rows (db sa)) (rows (db sr)).
Proof. intro H. exact (T23Rel.pr_rows _ _ _ _ (T23Db.PR_rel _ _ _ _ (Sim_PR top Htop c sa sr H))). Qed.

Lemma call_pre_clean a k : call_pre a k -> clean_call k = true.
Proof.
  destruct k; cbn [call_pre clean_call]; try contradiction; intro Hp;
    try (apply clean_of_good; exact Hp); try (apply clean_of_good; apply Hp).
  destruct Hp as (Ga & Gb & _). rewrite (proj2 (clean_of_good _ Ga)), (proj2 (clean_of_good _ Gb)). reflexivity.
Qed.

Lemma pre_step_n sa sr k e : Sim sa sr -> hb_env e -> call_pre (abs sa) k ->
  snd (step c (with_env sr e) (ren_call top k)) = snd (step c (with_env sa e) k) /\
  Sim (fst (step c (with_env sa e) k)) (fst (step c (with_env sr e) (ren_call top k))).
Proof.
  intros H Hb Hp. destruct (call_pre_fs _ _ Hp) as (A & B).
  destruct (T23_step_sim top Htop c HP Hrs Hro sa sr k e H A B (call_pre_clean _ _ Hp)) as (X & Y & _); [|split; assumption].
  unfold hb_ok. cbn [snd]. exact Hb.
Qed.

Theorem T25_ok_run_named : forall h sa sr, Sim sa sr -> (ok_run_named c sr h <-> ok_run c sa h).
Proof.
  induction h as [|[k e] h IH]; intros sa sr H; cbn [ok_run_named ok_run]; [tauto|].
  rewrite (abs_named_eq sa sr (Sim_rows sa sr H)).
  split; intros (Hb & Hp & Hr); (split; [exact Hb|split; [exact Hp|]]);
    destruct (pre_step_n sa sr k e H Hb Hp) as (_ & H'); apply (IH _ _ H'); exact Hr.
Qed.

Theorem T25_conforms_named : forall h sa sr, Sim sa sr -> ok_run c sa h -> conforms c sa h ->
  conforms_named c sr h /\ map ob_out (run c sr (ren_hist top h)) = map ob_out (run c sa h) /\
  Sim (final c sa h) (final c sr (ren_hist top h)).
Proof.
  induction h as [|[k e] h IH]; intros sa sr H Hok Hc; cbn [conforms_named conforms ok_run run final map ren_hist fst snd] in *;
    [split; [exact I|split; [reflexivity|exact H]]|].
  destruct Hok as (Hb & Hp & Hr). destruct (pre_step_n sa sr k e H Hb Hp) as (Eo & H').
  rewrite (abs_named_eq sa sr (Sim_rows sa sr H)).
  destruct (step c (with_env sa e) k) as [sa' oa]. destruct (step c (with_env sr e) (ren_call top k)) as [sr' or_]. cbn [fst snd] in *. subst or_.
  destruct Hc as ((cid & sp & E1 & E2 & E3) & Hc). destruct (IH sa' sr' H' Hr Hc) as (A & B & C).
  split; [split; [|exact A]|split; [|exact C]].
  - exists cid, sp. split; [exact E1|]. split; [exact E2|]. rewrite (abs_named_eq sa' sr' (Sim_rows sa' sr' H')). exact E3.
  - cbn [map ob_out observe]. fold (ren_hist top h). rewrite B. reflexivity.
Qed.

(* ---------- contents *)
Theorem T25_content_named : forall sa sr g, Sim sa sr -> good g -> content_of c sr (psi g) = content_of c sa g.
Proof.
  intros sa sr g H G. pose proof (Sim_PR top Htop c sa sr H) as HPR. destruct H as (_ & HR & _).
  unfold content_of. rewrite (T23Reads.stat_false_wr top Htop c sa sr g HPR G), (T23Reads.stat_false_rd top Htop c sa sr g HPR G).
  pose proof (T23Reads.stat_form_rel top Htop c sa sr g HPR G) as K.
  destruct (T23Reads.read_path_sim top Htop c sa sr g HPR (T23Rel.R_tp _ _ _ HR) G) as (Er & _).
  destruct (stat_form sa g) as [ha| | |]; inversion K as [? hr Hh| | |]; subst; try reflexivity.
  rewrite (T23Rel.hr_tf _ _ _ Hh). destruct (tf_regular (h_tf ha)); [|reflexivity].
  destruct (read_path c sr (psi g)) as [x1 y1]. destruct (read_path c sa g) as [x2 y2]. cbn [snd] in Er. subst y1. reflexivity.
Qed.

Lemma call_pre4_clean hr k : call_pre4 hr k -> clean_call k = true.
Proof.
  destruct k; cbn [call_pre4 clean_call]; try contradiction; try reflexivity; intro Hp;
    try (apply clean_of_good; exact Hp); try (apply clean_of_good; apply Hp).
  destruct Hp as (Ga & Gb & _). rewrite (proj2 (clean_of_good _ Ga)), (proj2 (clean_of_good _ Gb)). reflexivity.
Qed.

Lemma ok_run4_clean hr h : ok_run4 hr h -> forallb (fun ke => clean_call (fst ke)) h = true.
Proof.
  induction h as [|[k e] h IH]; cbn [ok_run4 forallb fst]; [reflexivity|]. intros (_ & Hp & Hr). rewrite (IH Hr), (call_pre4_clean hr k Hp). reflexivity.
Qed.

Theorem T25_last_written_named : forall h sa sr w, Sim sa sr ->
  forallb (fun ke => fs_call (fst ke)) h = true -> forallb (fun ke => call_ok (fst ke)) h = true ->
  forallb (fun ke => clean_call (fst ke)) h = true -> forallb hb_ok h = true ->
  last_written_named c sr h w = last_written c sa h w.
Proof.
  induction h as [|[k e] h IH]; intros sa sr w H H1 H2 H3 H4; cbn [last_written_named last_written]; [reflexivity|].
  cbn [forallb fst] in H1, H2, H3, H4. apply andb_true_iff in H1 as [K1 H1]. apply andb_true_iff in H2 as [K2 H2].
  apply andb_true_iff in H3 as [K3 H3]. apply andb_true_iff in H4 as [K4 H4].
  destruct (T23_step_sim top Htop c HP Hrs Hro sa sr k e H K1 K2 K3 K4) as (Eo & H' & _).
  destruct (step c (with_env sa e) k) as [sa' oa]. destruct (step c (with_env sr e) (ren_call top k)) as [sr' or_]. cbn [fst snd] in *. subst or_.
  apply IH; assumption.
Qed.

Theorem T25_read_is_last_written_named : forall h sa sr w, Sim sa sr -> Good4 true c sa ->
  (forall m, good m -> content_eq (content_of c sa m) (w m)) ->
  ok_run4 true h -> forallb (fun ke => fs_call (fst ke)) h = true ->
  let sr' := final c sr (ren_hist top h) in
  Sim (final c sa h) sr' /\
  (forall m, good m -> content_eq (content_of c sr' (psi m)) (last_written_named c sr h w m)) /\
  (forall e, In e (view_at c sr' top) -> exists m, good m /\ e_path e = psi m /\ content_eq (e_data e) (last_written_named c sr h w m)) /\
  last_written_named c sr h w = last_written c sa h w.
Proof.
  intros h sa sr w H H4 Hw Hok Hfs sr'. destruct (ok_run4_hyps true h Hok) as (Hcok & Hhb). pose proof (ok_run4_clean true h Hok) as Hcl.
  destruct (T23_run_sim top Htop c HP Hrs Hro h sa sr H Hfs Hcok Hcl Hhb) as (_ & _ & _ & H'). fold sr' in H'.
  destruct (T04_history true c HP Hrs Hro h sa w H4 Hok Hw) as (H4' & Hc).
  pose proof (T25_last_written_named h sa sr w H Hfs Hcok Hcl Hhb) as El. rewrite El.
  split; [exact H'|]. split; [|split; [|reflexivity]].
  - intros m G. rewrite (T25_content_named _ _ m H' G). apply Hc. exact G.
  - intros e He. rewrite (T23_view_sim' top Htop c _ _ H') in He. apply in_map_iff in He as (e0 & <- & He0).
    pose proof (g4_good _ _ _ H4') as HG.
    destruct (T04View.Good_wf_tree true c _ HG) as (W & Ip).
    destruct (T13_view_exact c _ W Ip) as (l & Ev & _ & Hl). pose proof He0 as He1. rewrite Ev in He1. apply in_map_iff in He1 as (x & Ex & Hx).
    apply Hl in Hx as (Hx & _). assert (Gx : good (e_path e0)) by (rewrite <- Ex, ent_path; destruct W as (_ & _ & W3); apply W3; exact Hx).
    exists (e_path e0). split; [exact Gx|]. split; [reflexivity|]. cbn [T23Rel.ren_entry e_data].
    rewrite (T04View.T04_view_data true c _ HG e0 He0). apply Hc. exact Gx.
Qed.
End Step.
End Top.

(* ===================================================================================================
   the opened named-top archive, after any history
   =================================================================================================== *)
Section Named.
Variables (c : cfg) (top : str) (st : style) (t : tree).
Hypothesis HP : plain c.
Hypothesis Hrs : 0 < c_rs c.
Hypothesis Hro : c_readonly c = false.
Hypothesis Htop : okc top.
Hypothesis Hs : wf_style st.
Hypothesis Hsr : style_root st = [].
Hypothesis Hwf : wf t.

Let sa := twin c st t.
Let sn := opened c (archive_of (Named top) t).

Lemma named_Sim : T23Main.Sim top c sa sn.
Proof. exact (T23_named_sim top Htop c st t HP Hrs Hs Hsr Hwf). Qed.

(* C13; [h] is the history in absolute names, the named instance receives [ren_hist top h] *)
Theorem T25_named_C13_ : forall h,
  forallb (fun ke => fs_call (fst ke)) h = true -> forallb (fun ke => call_ok (fst ke)) h = true ->
  forallb (fun ke => clean_call (fst ke)) h = true -> forallb hb_ok h = true ->
  let sn' := final c sn (ren_hist top h) in
  let sa' := final c sa h in
  let p := db sn' in
  wf_tree_named top p /\
  (forall d, good d ->
    exists l, snd (get_direct_children p (psi top d) None) = Ok l /\
      l = filter (fun x => live x && negb (eqb_str (r_name x) top) && eqb_str (path_dir (r_name x)) (psi top d)) (rows p) /\
      NoDup (map r_name l) /\
      (forall x, In x l <-> (In x (lrows p) /\ r_name x <> top /\ path_dir (r_name x) = psi top d)) /\
      (forall j lk, snd (get_direct_children p (psi top d) (Some j)) = Ok lk -> exists i, (i <= j)%nat /\ lk = firstn i l) /\
      T23Rel.rows_rel top (filter (childp d) (rows (db sa'))) l /\
      snd (inv_list p (psi top d) None) = Ok (map hdr_of_row l)) /\
  view_at c sn' top = map (T23Rel.ren_entry top) (view c sa') /\
  (exists l, view_at c sn' top = map (ent c sn') l /\ NoDup l /\
     forall x, In x l <-> (In x (lrows p) /\ slash_count (r_name x) <= 16)).
Proof.
  intros h H1 H2 H3 H4 sn' sa' p.
  destruct (T23_run_sim top Htop c HP Hrs Hro h sa sn named_Sim H1 H2 H3 H4) as (_ & _ & _ & HS'). fold sn' sa' in HS'.
  destruct (OKt_wf true c sa' (final_t c HP Hrs Hro h sa (twin_OKt c st t HP Hrs Hs Hsr Hwf) H1 H2 H4)) as (W & Ip).
  pose proof (Sim_PR top Htop c sa' sn' HS') as HPR. split; [|split].
  - exact (T25_tree_named top Htop _ _ (T23Rel.pr_rows _ _ _ _ (T23Db.PR_rel _ _ _ _ HPR)) W).
  - intros d G. exact (T25_listing_named top Htop (db sa') (db sn') d HPR G).
  - destruct HS' as (_ & HR & _). exact (T25_walk_named top Htop c sa' sn' HPR (T23Rel.R_tp _ _ _ HR) W Ip).
Qed.

Hypothesis He : sizes_bounded t.

Theorem T25_named_C02_ : forall h, ok_run_named top c sn h ->
  abs_named top sn = T20Abs.namespace_of c t /\
  conforms_named top c sn h /\
  map ob_out (run c sn (ren_hist top h)) = map ob_out (run c sa h) /\
  conforms c sa h /\ abs_named top (final c sn (ren_hist top h)) = abs (final c sa h).
Proof.
  intros h Hok. pose proof named_Sim as HS. pose proof (T20_twin_Good c st t HP Hrs Hs Hsr Hwf He) as HG. fold sa in HG.
  split; [rewrite (abs_named_eq top Htop sa sn (Sim_rows top Htop c sa sn HS)); exact (T20Abs.T20_twin_abs c st t Hs Hsr)|].
  apply (T25_ok_run_named top Htop c HP Hrs Hro h sa sn HS) in Hok.
  destruct (T02_history true c HP Hrs Hro h sa HG Hok) as (A & _).
  destruct (T25_conforms_named top Htop c HP Hrs Hro h sa sn HS Hok A) as (X & Y & Z).
  split; [exact X|]. split; [exact Y|]. split; [exact A|]. exact (abs_named_eq top Htop _ _ (Sim_rows top Htop c _ _ Z)).
Qed.

Theorem T25_named_C04_ : forall h, ok_run4 true h -> forallb (fun ke => fs_call (fst ke)) h = true ->
  let sn' := final c sn (ren_hist top h) in
  (forall m, good m -> content_of c sn (psi top m) = w_tree t m) /\
  (forall m, good m -> content_eq (content_of c sn' (psi top m)) (last_written_named top c sn h (w_tree t) m)) /\
  (forall e, In e (view_at c sn' top) ->
     exists m, good m /\ e_path e = psi top m /\ content_eq (e_data e) (last_written_named top c sn h (w_tree t) m)) /\
  last_written_named top c sn h (w_tree t) = last_written c sa h (w_tree t).
Proof.
  intros h Hok Hfs sn'. pose proof named_Sim as HS. pose proof (T25_twin_Good4 c st t HP Hrs Hs Hsr Hwf He) as H4. fold sa in H4.
  assert (Hw : forall m, good m -> content_eq (content_of c sa m) (w_tree t m)).
  { intros m G. unfold sa. rewrite (T25_twin_content c st t HP Hrs Hs Hsr Hwf m G). apply T04Ns.content_eq_refl. }
  destruct (T25_read_is_last_written_named top Htop c HP Hrs Hro h sa sn (w_tree t) HS H4 Hw Hok Hfs) as (_ & A & B & C). fold sn' in A, B.
  split; [intros m G; rewrite (T25_content_named top Htop c sa sn m HS G); exact (T25_twin_content c st t HP Hrs Hs Hsr Hwf m G)|].
  split; [exact A|]. split; [exact B|exact C].
Qed.
End Named.

Definition T25_named_C13 := T25_named_C13_.
Definition T25_named_C02 := T25_named_C02_.
Definition T25_named_C04 := T25_named_C04_.

Print Assumptions T25_named_C13.
Print Assumptions T25_named_C02.
Print Assumptions T25_named_C04.
