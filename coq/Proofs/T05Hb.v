(* T05 / header groups are never empty: when every header-block count supplied by the environment is >= 1
   ([hb_ok] of Proofs/C01Rows.v; the default without observation is 3), every member on the tape has
   m_hb >= 1, after every history of any calls.  Consequence: the positions of all members are distinct and
   each designates its member (T05Blocks). *)
From Coq Require Import List NArith ZArith Bool Lia.
From Coq Require Import ZifyN ZifyBool.
Import ListNotations.
From STFS Require Import Str Db Tape Index Ops Fs Diff Prefix TapeLemmas Append T05Shape T05Blocks T05Frame.
Open Scope N_scope.

Definition hbq_pos (s : sys) : Prop := Forall (fun x => 0 < x) (hbq s).
Definition HB (s : sys) : Prop := hbq_pos s /\ hb_pos (tp s).
Definition mpos (ms : list member) : Prop := Forall (fun m => 0 < m_hb m) ms.

Lemma pop_hb_HB s : HB s -> 0 < fst (pop_hb s) /\ HB (snd (pop_hb s)).
Proof.
  intros [H1 H2]. unfold pop_hb. destruct (hbq s) as [|x r] eqn:E; cbn [fst snd].
  - split; [lia|]. split; [unfold hbq_pos; rewrite E; constructor|exact H2].
  - unfold hbq_pos in H1. rewrite E in H1. inversion H1; subst. split; [assumption|]. split; assumption.
Qed.

Lemma pop_enc_HB s n : HB s -> HB (snd (pop_enc s n)).
Proof. intros [H1 H2]. unfold pop_enc. destruct (encq s); cbn [snd]; split; assumption. Qed.

Lemma mk_member_HB s h d e : HB s -> 0 < m_hb (fst (mk_member s h d e)) /\ HB (snd (mk_member s h d e)).
Proof. intro H. unfold mk_member. pose proof (pop_hb_HB s H) as K. destruct (pop_hb s); cbn in *. exact K. Qed.

Lemma encode_HB c s h : HB s -> HB (snd (encode c s h)).
Proof. intro H. unfold encode. pose proof (pop_enc_HB s (h_size h) H) as K. destruct (pop_enc s (h_size h)); cbn in *. exact K. Qed.

Lemma archive_members_HB c fs : forall s, HB s ->
  mpos (fst (fst (archive_members c s fs))) /\ HB (snd (archive_members c s fs)).
Proof.
  induction fs as [|f r IH]; intros s H; cbn; [split; [constructor|exact H]|].
  destruct (is_reg (f_hdr f) && (0 <? h_size (f_hdr f))).
  - pose proof (encode_HB c s (f_hdr f) H) as He. destruct (encode c s (f_hdr f)) as [[h' enc] s1]; cbn in He.
    pose proof (mk_member_HB s1 h' (Some (f_data f)) enc He) as [Hm1 Hm2].
    destruct (mk_member s1 h' (Some (f_data f)) enc) as [m s2]; cbn in Hm1, Hm2.
    pose proof (IH s2 Hm2) as [Hr1 Hr2]. destruct (archive_members c s2 r) as [[ms hs] s3]; cbn in *.
    split; [constructor; assumption|assumption].
  - pose proof (mk_member_HB s (f_hdr f) None 0 H) as [Hm1 Hm2].
    destruct (mk_member s (f_hdr f) None 0) as [m s2]; cbn in Hm1, Hm2.
    pose proof (IH s2 Hm2) as [Hr1 Hr2]. destruct (archive_members c s2 r) as [[ms hs] s3]; cbn in *.
    split; [constructor; assumption|assumption].
Qed.

Lemma update_members_HB c fs replace skip : forall s, HB s ->
  mpos (fst (fst (update_members c s fs replace skip))) /\ HB (snd (update_members c s fs replace skip)).
Proof.
  induction fs as [|f r IH]; intros s H; cbn -[pax_set pax_del]; [split; [constructor|exact H]|].
  match goal with |- context [if ?b then encode c s ?h else _] =>
    pose proof (encode_HB c s h H) as He; destruct b; [destruct (encode c s h) as [[h2 enc] s1]; cbn in He|] end.
  - destruct replace.
    + match goal with |- context [mk_member s1 ?h ?d ?e] =>
        pose proof (mk_member_HB s1 h d e He) as [Hm1 Hm2]; destruct (mk_member s1 h d e) as [m s2]; cbn in Hm1, Hm2 end.
      pose proof (IH s2 Hm2) as [Hr1 Hr2]. destruct (update_members c s2 r true skip) as [[ms hs] s3]; cbn in *.
      split; [constructor; assumption|assumption].
    + match goal with |- context [mk_member s1 ?h ?d ?e] =>
        pose proof (mk_member_HB s1 h d e He) as [Hm1 Hm2]; destruct (mk_member s1 h d e) as [m s2]; cbn in Hm1, Hm2 end.
      pose proof (IH s2 Hm2) as [Hr1 Hr2]. destruct (update_members c s2 r false skip) as [[ms hs] s3]; cbn in *.
      split; [constructor; assumption|assumption].
  - destruct replace.
    + match goal with |- context [mk_member s ?h ?d ?e] =>
        pose proof (mk_member_HB s h d e H) as [Hm1 Hm2]; destruct (mk_member s h d e) as [m s2]; cbn in Hm1, Hm2 end.
      pose proof (IH s2 Hm2) as [Hr1 Hr2]. destruct (update_members c s2 r true skip) as [[ms hs] s3]; cbn in *.
      split; [constructor; assumption|assumption].
    + match goal with |- context [mk_member s ?h ?d ?e] =>
        pose proof (mk_member_HB s h d e H) as [Hm1 Hm2]; destruct (mk_member s h d e) as [m s2]; cbn in Hm1, Hm2 end.
      pose proof (IH s2 Hm2) as [Hr1 Hr2]. destruct (update_members c s2 r false skip) as [[ms hs] s3]; cbn in *.
      split; [constructor; assumption|assumption].
Qed.

Lemma plain_members_HB hs : forall s, HB s -> mpos (fst (plain_members s hs)) /\ HB (snd (plain_members s hs)).
Proof.
  induction hs as [|h r IH]; intros s H; cbn; [split; [constructor|exact H]|].
  pose proof (mk_member_HB s h None 0 H) as [Hm1 Hm2]. destruct (mk_member s h None 0) as [m s2]; cbn in Hm1, Hm2.
  pose proof (IH s2 Hm2) as [Hr1 Hr2]. destruct (plain_members s2 r) as [ms s3]; cbn in *.
  split; [constructor; assumption|assumption].
Qed.

Lemma append_and_index_HB c s last ms hs o i : HB s -> mpos ms -> HB (fst (append_and_index c s last ms hs o i)).
Proof.
  intros [H1 H2] Hm. split.
  - unfold append_and_index. destruct (index_tape _ _ _ _ _ _ _ _). exact H1.
  - rewrite append_and_index_tp. apply hb_pos_app. split; [exact H2|]. apply hb_pos_app. split.
    + apply hb_pos_members. exact Hm.
    + destruct ms; constructor.
Qed.

Lemma HB_silent s s' : silent s s' -> HB s -> HB s'.
Proof. intros [E1 [E2 _]] [H1 H2]. unfold HB, hbq_pos. rewrite E1, E2. split; assumption. Qed.

Lemma HB_archive c s fs ow ini : HB s -> HB (fst (archive_op c s fs ow ini)).
Proof.
  intro H. unfold archive_op. pose proof (archive_members_HB c fs s H) as [K1 K2].
  destruct (archive_members c s fs) as [[ms hs] s1]; cbn in K1, K2. apply append_and_index_HB; assumption.
Qed.

Lemma HB_update c s fs r k : HB s -> HB (fst (update_op c s fs r k)).
Proof.
  intro H. unfold update_op. pose proof (update_members_HB c fs r k s H) as [K1 K2].
  destruct (update_members c s fs r k) as [[ms hs] s1]; cbn in K1, K2. apply append_and_index_HB; assumption.
Qed.

Lemma HB_plain c s hs last (o i : bool) : HB s ->
  HB (fst (let '(ms, s1) := plain_members s hs in append_and_index c s1 last ms hs o i)).
Proof.
  intro H. pose proof (plain_members_HB hs s H) as [K1 K2].
  destruct (plain_members s hs) as [ms s1]; cbn in K1, K2. apply append_and_index_HB; assumption.
Qed.

Theorem HB_step c s k : HB s -> HB (fst (step c s k)).
Proof. apply (step_Inv c HB HB_silent (HB_archive c) (HB_update c) (HB_plain c)). Qed.

Definition env_hb_ok (e : env) : Prop := forallb (fun x => 0 <? x) (ev_hb e) = true.

Lemma HB_env s e : env_hb_ok e -> HB s -> HB (with_env s e).
Proof.
  intros He [_ H2]. split; [|exact H2]. unfold hbq_pos. cbn [with_env hbq]. apply Forall_forall. intros x I.
  unfold env_hb_ok in He. rewrite forallb_forall in He. specialize (He x I). lia.
Qed.

Theorem HB_final c h s : Forall (fun ke : call * env => env_hb_ok (snd ke)) h -> HB s -> HB (final c s h).
Proof. apply (final_Inv c HB HB_silent (HB_archive c) (HB_update c) (HB_plain c) env_hb_ok HB_env). Qed.

(* [hb_ok] of Proofs/C01Rows.v, restated here to keep this file independent of the C01 development *)
Definition hb_ok (ke : call * env) : bool := forallb (fun x => 0 <? x) (ev_hb (snd ke)).

Theorem T05_members_have_headers : forall c h, forallb hb_ok h = true ->
  forall m, In m (members_of (tp (final c init_sys h))) -> 0 < m_hb m.
Proof.
  intros c h Hh. assert (HB (final c init_sys h)) as [_ H].
  { apply HB_final; [|split; constructor]. apply Forall_forall. intros ke I. rewrite forallb_forall in Hh. exact (Hh ke I). }
  unfold hb_pos in H. rewrite Forall_forall in H. exact H.
Qed.

(* every member of the tape of every history is found at the position the indexer computes for it,
   and no two members share a position *)
Theorem T05_members_at_their_positions : forall c h, 0 < c_rs c -> forallb hb_ok h = true ->
  let t := tp (final c init_sys h) in
  NoDup (map fst (all_members t)) /\
  forall st m, In (st, m) (all_members t) ->
    member_at t (off_of (c_rs c) (fst (pos_of (c_rs c) st)) (snd (pos_of (c_rs c) st))) = Some m
    /\ snd (pos_of (c_rs c) st) < c_rs c
    /\ fetch_at c t (fst (pos_of (c_rs c) st)) (snd (pos_of (c_rs c) st)) = Some (match m_data m with Some d => d | None => [] end).
Proof.
  intros c h Hrs Hh t.
  assert (H : hb_pos t) by (unfold hb_pos; apply Forall_forall; apply T05_members_have_headers; exact Hh).
  split; [apply T05_starts_distinct; exact H|]. intros st m I. apply T05_position_designates; assumption.
Qed.

Print Assumptions T05_members_at_their_positions.
