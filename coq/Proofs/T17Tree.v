(* T17 / Tree: directory trees as a standard tar writer sees them, the archive it emits in each of the three
   root styles ("./", "/", "top/"), the flat (pre-order) member list, and the entries the visible tree must show.
   Definitions and the tree-level lemmas (no model semantics here). *)
From Coq Require Import List NArith ZArith Bool Lia.
From Coq Require Import ZifyN ZifyBool.
Import ListNotations.
From STFS Require Import Str Db Tape Index Ops Fs C01Str.
Open Scope N_scope.

(* what a tar header carries besides name / typeflag / size; [mt_hb] = header blocks on tape
   (1 for ustar, 3 for a PAX or GNU long-name header) *)
Record meta := { mt_mode : N; mt_uid : N; mt_gid : N; mt_uname : str; mt_gname : str;
                 mt_mtime : Z; mt_atime : Z; mt_ctime : Z; mt_hb : N }.

Inductive node :=
| File (name : str) (mt : meta) (data : content)
| Dir (name : str) (mt : meta) (kids : list node).

Definition node_name (n : node) : str := match n with File nm _ _ => nm | Dir nm _ _ => nm end.
Definition node_meta (n : node) : meta := match n with File _ mt _ => mt | Dir _ mt _ => mt end.
Definition node_isdir (n : node) : bool := match n with File _ _ _ => false | Dir _ _ _ => true end.
Definition node_data (n : node) : content := match n with File _ _ d => d | Dir _ _ _ => [] end.
Definition node_kids (n : node) : list node := match n with File _ _ _ => [] | Dir _ _ ks => ks end.

(* the archive's top-level directory: its own header fields and its members *)
Record tree := { t_meta : meta; t_kids : list node }.

Inductive style := DotSlash | Slash | Named (top : str).

(* component names non-empty, without slash, not "." or ".." ([okc]); siblings pairwise distinct; a header takes
   at least one block *)
Inductive wf_node : node -> Prop :=
| wf_file nm mt d : okc nm -> 1 <= mt_hb mt -> wf_node (File nm mt d)
| wf_dir nm mt ks : okc nm -> 1 <= mt_hb mt -> Forall wf_node ks -> NoDup (map node_name ks) -> wf_node (Dir nm mt ks).
Definition wf_forest (ks : list node) : Prop := Forall wf_node ks /\ NoDup (map node_name ks).
Definition wf (t : tree) : Prop := 1 <= mt_hb (t_meta t) /\ wf_forest (t_kids t).
Definition wf_style (st : style) : Prop := match st with Named top => okc top | _ => True end.

Section NodeInd.
  Variable P : node -> Prop.
  Hypothesis Hf : forall nm mt d, P (File nm mt d).
  Hypothesis Hd : forall nm mt ks, Forall P ks -> P (Dir nm mt ks).
  Fixpoint node_ind' (n : node) : P n :=
    match n with
    | File nm mt d => Hf nm mt d
    | Dir nm mt ks => Hd nm mt ks ((fix go (l : list node) : Forall P l :=
                                      match l with [] => Forall_nil P | k :: r => Forall_cons k (node_ind' k) (go r) end) ks)
    end.
End NodeInd.

(* ---------- flat members, in the order a tar writer emits them (a directory before its members) *)
Record item := { i_path : list str;      (* components below the archive's top *)
                 i_dir : bool; i_meta : meta; i_data : content }.

Definition item_of (pre : list str) (n : node) : item :=
  {| i_path := pre ++ [node_name n]; i_dir := node_isdir n; i_meta := node_meta n; i_data := node_data n |}.

Fixpoint flatten (pre : list str) (n : node) : list item :=
  item_of pre n ::
  match n with
  | File _ _ _ => []
  | Dir nm _ ks => flat_map (flatten (pre ++ [nm])) ks
  end.
Definition flatten_forest (pre : list str) (ks : list node) : list item := flat_map (flatten pre) ks.

Definition top_item (t : tree) : item := {| i_path := []; i_dir := true; i_meta := t_meta t; i_data := [] |}.
Definition items (t : tree) : list item := top_item t :: flatten_forest [] (t_kids t).

Fixpoint height (n : node) : nat :=
  match n with
  | File _ _ _ => 0
  | Dir _ _ ks => S (fold_right (fun k a => Nat.max (height k) a) 0%nat ks)
  end.
Definition height_forest (ks : list node) : nat := fold_right (fun k a => Nat.max (height k) a) 0%nat ks.

(* ---------- names on tape *)
Definition style_prefix (st : style) : str :=
  match st with DotSlash => [dot; slash] | Slash => [slash] | Named top => top ++ [slash] end.

(* "./" "./d/" "./d/f"   "/" "/d/" "/d/f"   "top/" "top/d/" "top/d/f" *)
Definition tape_name (st : style) (i : item) : str :=
  style_prefix st ++ join_slash (i_path i) ++ (if i_dir i then match i_path i with [] => [] | _ => [slash] end else []).

Definition hdr_of_item (st : style) (i : item) : hdr :=
  {| h_tf := if i_dir i then TypeDir else TypeReg; h_name := tape_name st i; h_link := [];
     h_size := if i_dir i then 0 else clen (i_data i);
     h_mode := mt_mode (i_meta i); h_uid := mt_uid (i_meta i); h_gid := mt_gid (i_meta i);
     h_uname := mt_uname (i_meta i); h_gname := mt_gname (i_meta i);
     h_mtime := mt_mtime (i_meta i); h_atime := mt_atime (i_meta i); h_ctime := mt_ctime (i_meta i); h_pax := [] |}.

Definition member_of_item (st : style) (i : item) : member :=
  {| m_hdr := hdr_of_item st i; m_hb := mt_hb (i_meta i);
     m_data := if i_dir i then None else Some (i_data i);
     m_enc := if i_dir i then 0 else clen (i_data i) |}.

Definition archive_of (st : style) (t : tree) : tape := map (fun i => TM (member_of_item st i)) (items t) ++ [TT].

(* ---------- what the index stores and what the walk must show *)
(* stored components: below "./" and "/" the path itself (the top is stored as ""), below "top/" with the top in front *)
Definition stored_comps (st : style) (q : list str) : list str :=
  match st with Named top => top :: q | _ => q end.
Definition stored_name (st : style) (q : list str) : str := join_slash (stored_comps st q).

(* the path under which the walk reports a member: "/" ++ d/f; for a named top the raw model has no base-path
   layer, the walk starts at "top" and reports "top/d/f" *)
Definition shown_path (st : style) (q : list str) : str :=
  match st with Named top => join_slash (top :: q) | _ => slash :: join_slash q end.

Definition expected_entry (st : style) (i : item) : entry :=
  {| e_path := shown_path st (i_path i); e_tf := if i_dir i then TypeDir else TypeReg;
     e_size := if i_dir i then 0 else clen (i_data i); e_mode := perm_bits (mt_mode (i_meta i));
     e_uid := mt_uid (i_meta i); e_gid := mt_gid (i_meta i); e_mtime := mt_mtime (i_meta i); e_link := [];
     e_data := if i_dir i then None else Some (i_data i) |}.
Definition expected_entries (st : style) (t : tree) : list entry := map (expected_entry st) (items t).

(* the state after opening: a fresh cache, Initialize indexes the tape and reads the root *)
Definition opened (c : cfg) (t : tape) : sys :=
  {| tp := t; db := fst (get_root_path (fst (rebuild c t))); hbq := []; encq := []; clk := 0%Z |}.

(* the walk of the visible tree from an arbitrary base (Fs.view is [view_at _ _ "/"]) *)
Definition view_at (c : cfg) (s : sys) (base : str) : list entry :=
  match stat_s s base false with
  | (_, Ok h) => entry_of c s base h :: (if h_tf h =? TypeDir then walk 16 c s base else [])
  | _ => []
  end.
Definition view_base (st : style) : str := match st with Named top => top | _ => [slash] end.

Lemma view_at_slash c s : view_at c s [slash] = view c s.
Proof. reflexivity. Qed.

