(* T17 / Counter: what the hypotheses of the T17 theorems exclude, as compiled facts about the model.
   (To be replayed on the implementation: the inputs are given in the comments.)

   (1) NAMED TOP, walk from "/":  archive  top/  top/d/  top/d/f (700 bytes)  top/g.
       The raw filesystem (no base-path layer) resolves "/" to the row "top" and lists its members as "/d", "/g",
       but "/d" itself is looked up literally (getSanitizedPath returns names unchanged under a cached root "top"),
       so "/d" lists nothing: below the first level the members are reachable only as "top/d/f" - which is what
       the documented composition (afero.BasePathFs with base "top") asks for.  T17_foreign_view for [Named top] is
       therefore stated for the walk from "top".
   (2) NO TOP ENTRY:  archive  ./d/  ./d/f  ./g   (or /d/ /d/f /g) without an entry for "./" ("/").
       The first directory becomes the root ("/" shows d's header, "/f" is d/f), the member g is in the index
       but invisible.  The property's premise "contains an entry for its top-level directory" is needed.
   (3) DEPTH: Fs.view walks with fuel 16: a chain of 16 nested directories with a file at the bottom has 18
       members, the walk shows 17.  This is a bound of the model's [view] only (the harness walk is unbounded);
       T17_walk_any_depth shows the walk with sufficient fuel is exact at any depth. *)
From Coq Require Import String List NArith ZArith Bool.
Import ListNotations.
From STFS Require Import Str Db Tape Index Ops Fs Diff T17Tree T17Forest.
Open Scope N_scope.
Open Scope string_scope.

Definition cmt : meta := {| mt_mode := 420; mt_uid := 1000; mt_gid := 1000; mt_uname := s "u"; mt_gname := s "g";
                            mt_mtime := 1500000000%Z; mt_atime := 0%Z; mt_ctime := 0%Z; mt_hb := 1 |}.
Definition cF n (sd sz : N) := File (s n) cmt [(sd, 0, sz)].
Definition cD n ks := Dir (s n) cmt ks.
Definition ccfg : cfg := {| c_rs := 20; c_csuf := []; c_esuf := []; c_readonly := false; c_uid := 0; c_gid := 0; c_uname := []; c_gname := [] |}.
Definition ct : tree := {| t_meta := cmt; t_kids := [cD "d" [cF "f" 1 700]; cF "g" 2 5] |}.

(* (1) *)
Example T17_counter_named_from_slash :
  let sy := opened ccfg (archive_of (Named (s "top")) ct) in
  map e_path (view ccfg sy) = [s "/"; s "/d"; s "/g"]
  /\ map e_path (view_at ccfg sy (s "top")) = [s "top"; s "top/d"; s "top/d/f"; s "top/g"].
Proof. vm_compute. split; reflexivity. Qed.

(* (2) *)
Definition no_top (st : style) (t : tree) : tape := tl (archive_of st t).
Example T17_counter_no_top_entry :
  let sy := opened ccfg (no_top DotSlash ct) in
  map r_name (rows (db sy)) = [s "d"; s "d/f"; s "g"] /\ root (db sy) = s "d"
  /\ map (fun e => (e_path e, e_size e)) (view ccfg sy) = [(s "/", 0); (s "/f", 700)].
Proof. vm_compute. repeat split; reflexivity. Qed.
Example T17_counter_no_top_entry_slash :
  let sy := opened ccfg (no_top Slash ct) in
  map r_name (rows (db sy)) = [s "/d/"; s "/d/f"; s "/g"] /\ root (db sy) = s "/d/"
  /\ map (fun e => (e_path e, e_size e)) (view ccfg sy) = [(s "/", 0); (s "/f", 700)].
Proof. vm_compute. repeat split; reflexivity. Qed.

(* (3) *)
Fixpoint chain (n : nat) : list node := match n with O => [cF "f" 1 3] | S k => [cD "d" (chain k)] end.
Example T17_counter_depth :
  let t := {| t_meta := cmt; t_kids := chain 16 |} in
  depth_forest (t_kids t) = 17%nat /\ length (items t) = 18%nat
  /\ length (view ccfg (opened ccfg (archive_of DotSlash t))) = 17%nat.
Proof. vm_compute. repeat split; reflexivity. Qed.
