(* T25 / Core: the C13 statements (tree, listing = children, walk = live rows) TRANSFERRED along the relation of
   T19 ([PR pa pr]: the writer's index [pa] satisfies the C01 invariant with the root row live and first, the reader's
   index [pr] holds the same rows in the same order under the RELATIVE spelling - "" for "/", "a/f" for "/a/f" -,
   cached root "").
   Everything here is about one pair of related states; the history theorems are in T25Reader.v (instance continuing
   from a rebuilt index), T25Foreign.v (opened foreign archives, styles ./ and /) and T25Named.v (named top).

   The reader's statements are about the READER's own index and calls:
   - [wf_tree_rel pr]    : the live rows of pr form a tree in the relative spelling (the absolute name of a row is
                           [slash :: r_name r]; the parent row is named [norm_name (path_dir (slash :: r_name r))]);
   - [T25_listing_rd]    : GetHeaderDirectChildren on pr, asked with EITHER spelling of the directory ("/a" or "a"),
                           returns exactly the live rows directly below it, each once, in index order, related row by
                           row to the writer's listing; a count-limited listing is a prefix of at most that length;
   - [T25_walk_rd]       : the walk from "/" on the reader shows exactly the live rows of the reader's index (down to
                           depth 16), each once, under the absolute path [slash :: r_name r]. *)
From Coq Require Import List NArith ZArith Bool Lia.
From Coq Require Import ZifyN ZifyBool.
Import ListNotations.
From STFS Require Import Str Db Tape Index Ops Fs Diff Norm StrLemmas C01Str C01Db C01Inv C01Sim C01Ops C01Reads
  T13Path T13Def T13ListStr T13List T13View T17Str T17Db T19Rel T19Base T19Db T19Reads.
Open Scope N_scope.

(* ---------- names: the writer's name of a related row is the reader's with a slash in front *)
Lemma abs_norm n : is_abs n = true -> slash :: norm_name n = n.
Proof.
  destruct n as [|x t]; [discriminate|]. unfold is_abs, norm_name. intro H. rewrite H. apply N.eqb_eq in H. subst x. reflexivity.
Qed.

Lemma rowrel_abs_name a r : rowrel a r -> r_name a = slash :: r_name r.
Proof. intro H. rewrite (rr_name _ _ H). symmetry. apply abs_norm. exact (rr_abs _ _ H). Qed.

Lemma norm_cons n : norm_name (slash :: n) = n.
Proof. unfold norm_name. rewrite N.eqb_refl. reflexivity. Qed.

Lemma eqb_root_rel x : eqb_str (slash :: x) [slash] = eqb_str x [].
Proof. cbn [eqb_str]. rewrite N.eqb_refl. destruct x; reflexivity. Qed.

(* ---------- list facts *)
Lemma NoDup_map_inj_in {A B} (f : A -> B) l :
  (forall x y, In x l -> In y l -> f x = f y -> x = y) -> NoDup l -> NoDup (map f l).
Proof.
  induction l as [|a l IH]; intros Hinj Hnd; cbn [map]; [constructor|]. inversion Hnd as [|? ? Hn Hl]; subst. constructor.
  - intro K. apply in_map_iff in K as (y & Ey & Hy). apply Hn.
    rewrite <- (Hinj y a (or_intror Hy) (or_introl eq_refl) Ey). exact Hy.
  - apply IH; [|exact Hl]. intros x y Hx Hy. apply Hinj; right; assumption.
Qed.

Lemma NoDup_map_same {A B} (f : A -> B) l x y : NoDup (map f l) -> In x l -> In y l -> f x = f y -> x = y.
Proof.
  induction l as [|a l IH]; intros Hnd Hx Hy E; [contradiction|]. cbn [map] in Hnd. inversion Hnd as [|? ? Hn Hl]; subst.
  destruct Hx as [->|Hx], Hy as [->|Hy]; [reflexivity| | |apply IH; assumption].
  - exfalso. apply Hn. rewrite E. apply in_map. exact Hy.
  - exfalso. apply Hn. rewrite <- E. apply in_map. exact Hx.
Qed.

Lemma rows_rel_names la lr : rows_rel la lr -> map r_name lr = map norm_name (map r_name la).
Proof. induction 1 as [|a r la lr H _ IH]; [reflexivity|]. cbn [map]. rewrite IH, (rr_name _ _ H). reflexivity. Qed.

Lemma rows_rel_nodup la lr : rows_rel la lr -> NoDup (map r_name la) -> NoDup (map r_name lr).
Proof.
  intros H Hnd. rewrite (rows_rel_names la lr H). apply NoDup_map_inj_in; [|exact Hnd].
  intros x y Hx Hy E. apply in_map_iff in Hx as (a & <- & Ha). apply in_map_iff in Hy as (b & <- & Hb).
  destruct (F2_in_l _ _ _ a H Ha) as (ra & _ & Ra). destruct (F2_in_l _ _ _ b H Hb) as (rb & _ & Rb).
  rewrite <- (abs_norm _ (rr_abs _ _ Ra)), <- (abs_norm _ (rr_abs _ _ Rb)), E. reflexivity.
Qed.

Lemma lrows_rel pa pr : rows_rel (rows pa) (rows pr) -> rows_rel (lrows pa) (lrows pr).
Proof. intro H. unfold lrows. apply F2_filter; [exact H|]. intros a r _ _ Har. symmetry. apply rowrel_live. exact Har. Qed.

(* ---------- (1) the tree, in the reader's spelling *)
Definition wf_tree_rel (p : pstate) : Prop :=
  NoDup (map r_name (lrows p)) /\
  (forall r, In r (lrows p) -> r_name r <> [] ->
     exists q, In q (lrows p) /\ r_name q = norm_name (path_dir (slash :: r_name r)) /\ r_tf q = TypeDir) /\
  (forall r, In r (lrows p) -> good (slash :: r_name r)).

Theorem T25_tree_rd : forall pa pr, rows_rel (rows pa) (rows pr) -> wf_tree pa -> wf_tree_rel pr.
Proof.
  intros pa pr H (W1 & W2 & W3). pose proof (lrows_rel pa pr H) as HL. split; [|split].
  - exact (rows_rel_nodup _ _ HL W1).
  - intros r Hr Hn. destruct (F2_in_r _ _ _ r HL Hr) as (a & Ha & Har). pose proof (rowrel_abs_name a r Har) as Ea.
    destruct (W2 a Ha) as (q & Hq & Eq & Tq).
    { rewrite Ea. intro K. inversion K. contradiction. }
    destruct (F2_in_l _ _ _ q HL Hq) as (qr & Hqr & Hqq). exists qr. split; [exact Hqr|]. split.
    + rewrite (rr_name _ _ Hqq), Eq, Ea. reflexivity.
    + rewrite (rr_tf _ _ Hqq). exact Tq.
  - intros r Hr. destruct (F2_in_r _ _ _ r HL Hr) as (a & Ha & Har). rewrite <- (rowrel_abs_name a r Har). apply W3. exact Ha.
Qed.

(* two live rows of the reader with the same name are the same row *)
Lemma lrows_rel_same p x y : wf_tree_rel p -> In x (lrows p) -> In y (lrows p) -> r_name x = r_name y -> x = y.
Proof. intros (W1 & _) Hx Hy E. exact (NoDup_map_same r_name (lrows p) x y W1 Hx Hy E). Qed.

(* ---------- (2) the listing *)
(* GetHeaderDirectChildren with a limit, for any sanitised name (T13List.gdc_form is the case of the cached root "/") *)
Lemma gdc_form_any p name p' n lim : sanitize p name = (p', n) -> Forall (fun r => r_link r = []) (rows p') ->
  snd (get_direct_children p name lim) =
  match (if is_root_name n then min_slashes (filter live (rows p')) else Some 0) with
  | None => Fail 1
  | Some rd => Ok (cut lim (filter (postf (pfx n) n) (cutq lim (filter (selp (pfx n) rd) (rows p')))))
  end.
Proof.
  intros H Hk. unfold get_direct_children. rewrite H. fold (pfx n).
  destruct (if is_root_name n then min_slashes (filter live (rows p')) else Some 0) as [rd|]; [|reflexivity].
  rewrite dq_links_nil by exact Hk. cbn [fold_left]. rewrite app_nil_r. rewrite dq_names.
  destruct lim as [k|]; [|reflexivity]. rewrite snd_if. reflexivity.
Qed.

(* the predicate of the statement, on the reader's rows *)
Definition childp_rel (d : str) (r : row) : bool :=
  live r && negb (eqb_str (r_name r) []) && eqb_str (path_dir (slash :: r_name r)) d.

Lemma childp_rel_eq d a r : rowrel a r -> childp_rel d r = childp d a.
Proof.
  intro H. unfold childp_rel, childp. rewrite (rowrel_live _ _ H), (rowrel_abs_name a r H), eqb_root_rel. reflexivity.
Qed.

(* the two SQL filters on the reader's index are the statement's predicate *)
Lemma rd_pred pa pr d : PR pa pr -> good d -> forall r, In r (rows pr) ->
  selp (pfx (norm_name d)) 0 r && postf (pfx (norm_name d)) (norm_name d) r = childp_rel d r.
Proof.
  intros H G r Hr. destruct (F2_in_r _ _ _ r (pr_rows _ _ (PR_rel _ _ H)) Hr) as (a & Ha & Har).
  pose proof (PR_rowok _ _ H) as F. rewrite Forall_forall in F. destruct (F a Ha) as (Ga & La & _).
  rewrite (childp_rel_eq d a r Har). exact (direct_pred_rel d a r G Har Ga La).
Qed.

Lemma rd_depth pa pr d : PR pa pr -> good d ->
  (if is_root_name (norm_name d) then min_slashes (filter live (rows pr)) else Some 0) = Some 0.
Proof.
  intros H G. destruct (is_root_name (norm_name d)); [|reflexivity].
  destruct (PR_head _ _ H) as (a0 & ta & r0 & tr & _ & Er & _ & _ & _ & Nr & Dr).
  apply (min_slashes_zero _ r0).
  - apply filter_In. split; [rewrite Er; left; reflexivity|]. unfold live. rewrite Dr. reflexivity.
  - rewrite Nr. reflexivity.
Qed.

Lemma gdc_rd pa pr d nr lim : PR pa pr -> good d -> nrel d nr ->
  snd (get_direct_children pr nr lim) =
  Ok (cut lim (filter (postf (pfx (norm_name d)) (norm_name d)) (cutq lim (filter (selp (pfx (norm_name d)) 0) (rows pr))))).
Proof.
  intros H G Hn. destruct (links_nil _ _ H) as [_ Lr]. destruct (sanitize_rd pa pr d nr H G Hn) as (pr' & Es & S).
  assert (Lr' : Forall (fun r => r_link r = []) (rows pr')) by (rewrite (proj1 S); exact Lr).
  rewrite (gdc_form_any pr nr pr' (norm_name d) lim Es Lr'). rewrite (proj1 S), (rd_depth pa pr d H G). reflexivity.
Qed.

Lemma filter_ext_in2 {A} (f g : A -> bool) l : (forall x, In x l -> f x = g x) -> filter f l = filter g l.
Proof.
  induction l as [|a l IH]; intro H; [reflexivity|]. cbn [filter]. rewrite (H a (or_introl eq_refl)).
  rewrite IH by (intros x Hx; apply H; right; exact Hx). reflexivity.
Qed.

Theorem T25_listing_rd : forall pa pr d nr, PR pa pr -> good d -> nrel d nr ->
  exists l, snd (get_direct_children pr nr None) = Ok l /\
    l = filter (childp_rel d) (rows pr) /\
    NoDup (map r_name l) /\
    (forall x, In x l <-> (In x (lrows pr) /\ r_name x <> [] /\ path_dir (slash :: r_name x) = d)) /\
    (forall k lk, snd (get_direct_children pr nr (Some k)) = Ok lk -> exists j, (j <= k)%nat /\ lk = firstn j l) /\
    (* the writer's listing of d, row by row *)
    rows_rel (filter (childp d) (rows pa)) l /\
    (* inventory.List *)
    snd (inv_list pr nr None) = Ok (map hdr_of_row l).
Proof.
  intros pa pr d nr H G Hn. set (n := norm_name d).
  assert (El : filter (postf (pfx n) n) (filter (selp (pfx n) 0) (rows pr)) = filter (childp_rel d) (rows pr)).
  { rewrite filter_filter. apply filter_ext_in2. intros r Hr. exact (rd_pred pa pr d H G r Hr). }
  exists (filter (childp_rel d) (rows pr)).
  assert (E0 : snd (get_direct_children pr nr None) = Ok (filter (childp_rel d) (rows pr))).
  { rewrite (gdc_rd pa pr d nr None H G Hn). cbn [cut cutq]. fold n. rewrite El. reflexivity. }
  split; [exact E0|]. split; [reflexivity|]. split; [|split; [|split; [|split]]].
  - apply NoDup_map_filter. apply (rows_rel_nodup (rows pa) (rows pr) (pr_rows _ _ (PR_rel _ _ H))). apply (PR_li _ _ H).
  - intro x. unfold lrows, childp_rel. rewrite !filter_In. split.
    + intros [Hin Hp]. apply andb_true_iff in Hp as [Hp H3]. apply andb_true_iff in Hp as [H1 H2].
      apply negb_true_iff in H2. apply eqb_str_neq in H2. apply eqb_str_eq in H3. repeat split; assumption.
    + intros ([Hin Hl] & Hne & Hd). split; [exact Hin|]. rewrite Hl. cbn [andb]. apply andb_true_iff. split.
      * apply negb_true_iff. apply eqb_str_neq. exact Hne.
      * apply eqb_str_eq. exact Hd.
  - intros k lk Hk. rewrite (gdc_rd pa pr d nr (Some k) H G Hn) in Hk. fold n in Hk.
    destruct (cut_prefix (postf (pfx n) n) (filter (selp (pfx n) 0) (rows pr)) k) as (j & Hj & E).
    exists j. split; [exact Hj|]. rewrite E, El in Hk. inversion Hk. reflexivity.
  - apply F2_filter; [exact (pr_rows _ _ (PR_rel _ _ H))|]. intros a r _ _ Har. symmetry. apply childp_rel_eq. exact Har.
  - unfold inv_list. destruct (get_direct_children pr nr None) as [p1 r1]. cbn [snd] in E0. subst r1. reflexivity.
Qed.

(* ---------- (3) the walk *)
(* the entry the walk shows for a row of the reader's index: under the absolute path *)
Definition ent_rd (c : cfg) (s : sys) (r : row) : entry := entry_of c s (slash :: r_name r) (hdr_of_row r).

Lemma ent_rd_path c s r : e_path (ent_rd c s r) = slash :: r_name r.
Proof. reflexivity. Qed.

Lemma ent_sim c sa sr a r : PR (db sa) (db sr) -> tape_rel (tp sa) (tp sr) -> good (r_name a) -> rowrel a r ->
  ent_rd c sr r = ent c sa a.
Proof.
  intros H Ht G Har. unfold ent_rd, ent. rewrite <- (rowrel_abs_name a r Har).
  apply entry_of_sim; [exact H|exact Ht|exact G|apply hrel_of_rowrel; exact Har].
Qed.

(* a list of writer rows has a list of related reader rows *)
Lemma pick_related la lr l : rows_rel la lr -> (forall x, In x l -> In x la) ->
  exists l', Forall2 rowrel l l' /\ (forall y, In y l' -> In y lr).
Proof.
  intros H. induction l as [|x l IH]; intro Hin.
  - exists []. split; [constructor|intros y []].
  - destruct IH as (l' & A & B); [intros y Hy; apply Hin; right; exact Hy|].
    destruct (F2_in_l _ _ _ x H (Hin x (or_introl eq_refl))) as (r & Hr & Hxr).
    exists (r :: l'). split; [constructor; assumption|]. intros y [<-|Hy]; [exact Hr|apply B; exact Hy].
Qed.

Theorem T25_walk_rd : forall c sa sr, PR (db sa) (db sr) -> tape_rel (tp sa) (tp sr) -> wf_tree (db sa) -> idx_plain (db sa) ->
  view c sr = view c sa /\
  exists l, view c sr = map (ent_rd c sr) l /\ NoDup l /\
    forall x, In x l <-> (In x (lrows (db sr)) /\ slash_count (slash :: r_name x) <= 16).
Proof.
  intros c sa sr H Ht W I. pose proof (view_sim c sa sr H Ht) as Ev. split; [exact Ev|].
  destruct (T13_view_exact c sa W I) as (l & El & Hnd & Hl).
  pose proof (lrows_rel _ _ (pr_rows _ _ (PR_rel _ _ H))) as HL.
  pose proof (T25_tree_rd _ _ (pr_rows _ _ (PR_rel _ _ H)) W) as WR.
  destruct (pick_related (lrows (db sa)) (lrows (db sr)) l HL) as (l' & Hrel & Hin').
  { intros x Hx. apply Hl in Hx. apply Hx. }
  assert (Hgood : forall a, In a (lrows (db sa)) -> good (r_name a)) by (destruct W as (_ & _ & W3); exact W3).
  exists l'. split; [|split].
  - rewrite Ev, El. apply (F2_map_eq rowrel); [exact Hrel|]. intros a r Ha _ Har. symmetry.
    apply ent_sim; [exact H|exact Ht| |exact Har]. apply Hgood. apply Hl in Ha. apply Ha.
  - apply (NoDup_map_inv r_name). rewrite (rows_rel_names l l' Hrel). apply NoDup_map_inj_in.
    + intros x y Hx Hy E. apply in_map_iff in Hx as (a & <- & Ha). apply in_map_iff in Hy as (b & <- & Hb).
      assert (Aa : is_abs (r_name a) = true) by (apply good_abs; apply Hgood; apply Hl in Ha; apply Ha).
      assert (Ab : is_abs (r_name b) = true) by (apply good_abs; apply Hgood; apply Hl in Hb; apply Hb).
      rewrite <- (abs_norm _ Aa), <- (abs_norm _ Ab), E. reflexivity.
    + apply NoDup_map_inj_in; [|exact Hnd]. intros x y Hx Hy E. apply Hl in Hx. apply Hl in Hy.
      apply (lrows_same (db sa) x y W); [apply Hx|apply Hy|exact E].
  - intro x. split.
    + intro Hx. split; [apply Hin'; exact Hx|]. destruct (F2_in_r _ _ _ x Hrel Hx) as (a & Ha & Hax).
      rewrite <- (rowrel_abs_name a x Hax). apply Hl in Ha. apply Ha.
    + intros (Hx & Hd). destruct (F2_in_r _ _ _ x HL Hx) as (a & Ha & Hax).
      assert (Hal : In a l) by (apply Hl; split; [exact Ha|rewrite (rowrel_abs_name a x Hax); exact Hd]).
      destruct (F2_in_l _ _ _ a Hrel Hal) as (y & Hy & Hay).
      assert (y = x); [|subst y; exact Hy].
      apply (lrows_rel_same (db sr) y x WR); [apply Hin'; exact Hy|exact Hx|]. rewrite (rr_name _ _ Hay), (rr_name _ _ Hax). reflexivity.
Qed.

(* ---------- Stat on the reader: either spelling of a name finds the related row *)
Theorem T25_stat_rd : forall sa sr g nr, PR (db sa) (db sr) -> good g -> nrel g nr ->
  match find_rows (rows (db sa)) g with
  | Some d => exists hr, snd (stat_s sr nr false) = Ok hr /\ hrel (hdr_of_row d) hr /\ snd (stat_s sa g false) = Ok (hdr_of_row d)
  | None => snd (stat_s sr nr false) = NoRows /\ snd (stat_s sa g false) = NoRows
  end.
Proof.
  intros sa sr g nr H G Hn. destruct (stat_false_sim sa sr g nr H G Hn) as (pr' & rr & Ea & Er & _ & HR). rewrite Ea, Er. cbn [snd].
  destruct (find_rows (rows (db sa)) g) as [d|]; inversion HR as [? hr Hh| | |]; subst.
  - exists hr. split; [reflexivity|]. split; [exact Hh|reflexivity].
  - split; reflexivity.
Qed.
