(* T04 / the visible tree: the content field [e_data] of every entry of the walk ([view], what the differential
   harness compares) is [content_of] at the entry's path; hence, at the end of every history of filesystem calls,
   the walk shows for every entry the content last written under its path. *)
From Coq Require Import List NArith ZArith Bool Lia.
From Coq Require Import ZifyN ZifyBool.
Import ListNotations.
From STFS Require Import Str Db Tape Index Ops Fs File Diff Norm StrLemmas
  C01Str C01Db C01Inv C01Sim C01Ops C01Ops2 C01Reads C01Fs
  T02Ns T02Db T02Reads T02Str T02Closed T02Move T02Calls T02Spec T13Def T13View
  T04Def T04Ns T04Content.
Open Scope N_scope.

Lemma Good_wf_tree hr c s : Good hr c s -> wf_tree (db s) /\ idx_plain (db s).
Proof.
  intros [HW Hcl]. pose proof (wf_inv hr c s HW) as HI. pose proof (iv_li hr c s HI) as HL.
  assert (Hrows : Forall rowok (rows (db s))) by apply HL.
  assert (Hnd : NoDup (map r_name (rows (db s)))) by apply HL.
  split.
  - split; [|split].
    + unfold lrows. apply NoDup_map_filter. exact Hnd.
    + intros r Hr Hne. unfold lrows in Hr. apply filter_In in Hr as [Hin Hlive].
      assert (G : good (r_name r)) by (rewrite Forall_forall in Hrows; apply (Hrows r Hin)).
      assert (Lr : lookup (abs s) (r_name r) = Some (node_of r)).
      { rewrite (lookup_abs hr c s _ HI). unfold look. rewrite (find_rows_self _ r Hnd Hin Hlive). reflexivity. }
      destruct (parent_below (r_name r) G Hne) as (Hb & Gp).
      destruct (Hcl _ _ Lr (path_dir (r_name r)) Gp Hb) as (d & Hd & Hdir).
      rewrite (lookup_abs hr c s _ HI) in Hd. unfold look in Hd.
      destruct (find_rows (rows (db s)) (path_dir (r_name r))) as [q|] eqn:Eq; [|discriminate].
      cbn [option_map] in Hd. inversion Hd; subst d.
      destruct (find_rows_some _ _ _ Eq) as (Q1 & Q2 & Q3).
      exists q. split; [unfold lrows; apply filter_In; split; assumption|]. split; [exact Q3|].
      change (is_dir (node_of q)) with (r_tf q =? TypeDir) in Hdir. apply N.eqb_eq. exact Hdir.
    + intros r Hr. unfold lrows in Hr. apply filter_In in Hr as [Hin _]. rewrite Forall_forall in Hrows. apply (Hrows r Hin).
  - split; [apply HL|]. eapply Forall_impl; [|exact Hrows]. intros a (_ & K & _). exact K.
Qed.

Lemma ent_data hr c s x : Inv hr c s -> In x (rows (db s)) -> live x = true ->
  e_data (ent c s x) = content_of c s (r_name x).
Proof.
  intros HI Hin Hlive. pose proof (iv_li hr c s HI) as HL.
  assert (Hrows : Forall rowok (rows (db s))) by apply HL.
  assert (Hnd : NoDup (map r_name (rows (db s)))) by apply HL.
  assert (G : good (r_name x)) by (rewrite Forall_forall in Hrows; apply (Hrows x Hin)).
  unfold ent, entry_of, content_of. cbn [e_data].
  rewrite (stat_false_exact hr s (r_name x) HL G), (find_rows_self _ x Hnd Hin Hlive). reflexivity.
Qed.

(* the walk shows, for every entry, what a read of its path returns *)
Theorem T04_view_data hr c s : Good hr c s -> forall e, In e (view c s) -> e_data e = content_of c s (e_path e).
Proof.
  intros HG e He. destruct (Good_wf_tree hr c s HG) as (W & Ip).
  destruct (T13_view_exact c s W Ip) as (l & Ev & _ & Hl). rewrite Ev in He. apply in_map_iff in He as (x & <- & Hx).
  apply Hl in Hx as (Hx & _). unfold lrows in Hx. apply filter_In in Hx as [Hin Hlive].
  rewrite ent_path. apply (ent_data hr); [exact (wf_inv _ _ _ (g_wf _ _ _ HG))|exact Hin|exact Hlive].
Qed.

(* at the end of Initialize "/" followed by any history of filesystem calls, the content the walk shows for an entry
   is the content last written under its path (None for directories) *)
Theorem T04_view_reachable : forall c e0 r, plain c -> 0 < c_rs c -> c_readonly c = false -> hb_env e0 -> ok_run4 true r ->
  let h := (CInitialize [slash], e0) :: r in
  forall e, In e (view c (final c init_sys h)) ->
    content_eq (e_data e) (last_written c init_sys h w_empty (e_path e)).
Proof.
  intros c e0 r HP Hrs Hro Hhb Hok h e He.
  destruct (T04_reachable c e0 r HP Hrs Hro Hhb Hok) as (H4 & Hc & _). fold h in H4, Hc.
  pose proof (g4_good _ _ _ H4) as HG.
  rewrite (T04_view_data true c _ HG e He). apply Hc.
  (* the path of an entry of the walk is the name of a live row *)
  destruct (Good_wf_tree true c _ HG) as (W & Ip).
  destruct (T13_view_exact c _ W Ip) as (l & Ev & _ & Hl). rewrite Ev in He. apply in_map_iff in He as (x & <- & Hx).
  apply Hl in Hx as (Hx & _). rewrite ent_path. destruct W as (_ & _ & W3). apply W3. exact Hx.
Qed.

Print Assumptions T04_view_data.
Print Assumptions T04_view_reachable.
