(* T04 (property C04 "the position the index stores designates the record that carries the entry's current content",
   and the content half of C02): what is read is what was last written.

   content_of c s n   = what a read of the live regular entry n returns: Stat, then Restore -> GetHeader ->
                        Fetch at the row's (record, block)                                          (T04Def.v)
   upd_w k o          = the reference for contents, a ghost map name -> content: a SUCCESSFUL CreateFile n d
                        sets n to d, Remove clears n, RemoveAll clears n and everything below, Rename moves the
                        entry and everything below it; every other call and every failed call changes nothing
   last_written       = the fold of upd_w over a history
   designates c s     = the position of every live regular entry is the start of a tape member that is a content
                        record of that entry: regular header, replayed size = the entry's size, data of that length

   State hypothesis [Good4 hr c s] = [Good hr c s] of T02Spec.v (C01 invariant, sizes, tree shape) + [designates c s]
   + every live entry is a directory or a regular file.  It holds after Initialize "/" ([Good4_init]) and is
   preserved by every call ([T04_step]), so the theorems compose over histories ([T04_history], [T04_reachable]).

   Calls: Mkdir, MkdirAll, Remove, RemoveAll, Rename, Chmod, Chown, Chtimes, CreateFile, and the calls that change
   nothing (Nop, a repeated Initialize, Reopen while the root row is the first row).
   Call hypotheses ([call_pre4]): as in T02Spec.v - plain configuration, record size > 0, not read-only,
   header-block counts >= 1 ([hb_env]), cleaned absolute names ([good]), Remove / RemoveAll not of the root, Rename
   not onto the root, content sizes below 10^40 - but WITHOUT the CreateFile restriction of T02 (not "nothing is
   written to an existing empty regular file"): contents are right in that corner too (it concerns the modification time only).

   Equality of contents is equality of piece lists everywhere except one corner (T04Counter.v): CreateFile n [] on an
   existing file of size 0 writes nothing, so what is read afterwards is the old zero-length content (possibly a list
   of zero-length pieces), equal to [] as a byte string ([content_eq] = equality after [expand]). *)
From Coq Require Import List NArith ZArith Bool Lia.
From Coq Require Import ZifyN ZifyBool.
Import ListNotations.
From STFS Require Import Str Db Tape Index Ops Fs File Diff Norm TapeLemmas Append StrLemmas
  C01Str C01Db C01Inv C01Sim C01Tape C01Hdr C01Ops C01Ops2 C01Reads C01Fs C01Fs2 C01Rows
  T02Ns T02Db T02Ops T02Reads T02Str T02Closed T02Move T02Calls T02Rename T02MkdirAll T02Create T02Spec
  T04Def T04Tape T04Ops T04Create T04Ns.
Open Scope N_scope.

Definition kinds_ok (a : ns) : Prop := forall n v, lookup a n = Some v -> n_tf v = TypeDir \/ n_tf v = TypeReg.

Record Good4 (hr : bool) (c : cfg) (s : sys) : Prop := {
  g4_good : Good hr c s;
  g4_des : designates c s;
  g4_kinds : kinds_ok (abs s) }.

Definition call_pre4 (hr : bool) (k : call) : Prop :=
  match k with
  | CMkdir n _ | CMkdirAll n _ | CChmod n _ | CChown n _ _ | CChtimes n _ _ => good n
  | CRemove n | CRemoveAll n => good n /\ n <> [slash]
  | CRename x y => good x /\ good y /\ y <> [slash]
  | CCreateFile n d => good n /\ clen d < 10 ^ 40
  | CInitialize _ | CNop => True          (* a repeated Initialize finds the cached root and does nothing *)
  | CReopen => hr = true                   (* Reopen re-reads the root: the root row is the first row *)
  | _ => False
  end.

(* ---------- reading, in terms of the abstraction of T02 *)
Lemma get_header_trim hr lv n : LI hr lv -> good n ->
  get_header lv (trim_suffix [slash] n) = (lv, match find_rows (rows lv) n with Some r => Ok r | None => NoRows end).
Proof.
  intros HL G. destruct (eqb_str n [slash]) eqn:En.
  - apply eqb_str_eq in En. subst n. rewrite root_trim_slash, get_header_form, (sanitize_root_eq lv [] (li_root hr lv HL)). reflexivity.
  - apply eqb_str_neq in En. rewrite (good_trim_slash n G En). apply (get_header_lv hr); assumption.
Qed.

Lemma read_path_exact hr c s n d : LI hr (db s) -> good n -> find_rows (rows (db s)) n = Some d ->
  read_path c s n = (s, match fetch_at c (tp s) (r_rec d) (r_blk d) with Some x => Ok x | None => Fail 20 end).
Proof.
  intros HL G E. unfold read_path. rewrite (get_header_trim hr (db s) n HL G), E.
  destruct (fetch_at c (tp s) (r_rec d) (r_blk d)); rewrite set_db_same; reflexivity.
Qed.

Lemma content_of_abs hr c s n : Inv hr c s -> good n -> content_of c s n = cof c (tp s) (lookup (abs s) n).
Proof.
  intros HI G. pose proof (iv_li hr c s HI) as HL. unfold content_of.
  rewrite (stat_false_exact hr s n HL G), (lookup_abs hr c s n HI). unfold look.
  destruct (find_rows (rows (db s)) n) as [d|] eqn:E; cbn [option_map cof]; [|reflexivity].
  change (h_tf (hdr_of_row d)) with (r_tf d). change (n_tf (node_of d)) with (r_tf d).
  destruct (tf_regular (r_tf d)) eqn:Er; [|reflexivity].
  rewrite (read_path_exact hr c s n d HL G E).
  unfold node_of. cbn [n_cid]. rewrite Er. cbn [fst snd].
  destruct (fetch_at c (tp s) (r_rec d) (r_blk d)); reflexivity.
Qed.

(* what is read is the data of the member the position designates *)
Lemma cof_member c t v m : tf_regular (n_tf v) = true ->
  member_at t (off_of (c_rs c) (fst (n_cid v)) (snd (n_cid v))) = Some m -> cof c t (Some v) = Some (mdata m).
Proof. intros Hr Hm. unfold cof. rewrite Hr. apply fetch_at_member. exact Hm. Qed.

(* appending to the tape does not change what is read at the positions of live entries *)
Lemma cof_stable c s t' x : designates c s -> extends (tp s) t' ->
  cof c t' (lookup (abs s) x) = cof c (tp s) (lookup (abs s) x).
Proof.
  intros Hd Hext. destruct (lookup (abs s) x) as [v|] eqn:E; [|reflexivity]. unfold cof.
  destruct (tf_regular (n_tf v)) eqn:Er; [|reflexivity].
  destruct (Hd x v E Er) as (m & Hm & _). eapply fetch_at_extends; eassumption.
Qed.

Lemma closed_set_existing a n v0 v : lookup a n = Some v0 -> is_dir v0 = false -> is_dir v = false ->
  closed a -> closed (ns_set a n v).
Proof.
  intros Hn Hv0 Hv Hc m v' Hm p Gp Hb. rewrite lookup_ns_set in Hm.
  assert (exists v1, lookup a m = Some v1) as (v1 & Hm1).
  { destruct (eqb_str m n) eqn:E; [|eexists; exact Hm]. apply eqb_str_eq in E. subst m. eexists; exact Hn. }
  destruct (Hc m v1 Hm1 p Gp Hb) as (d & Hd & Hdir). rewrite lookup_ns_set.
  destruct (eqb_str p n) eqn:E2.
  - apply eqb_str_eq in E2. subst p. congruence.
  - exists d. split; assumption.
Qed.

(* ---------- states with the same tape and index *)
Lemma content_of_same c s s' n : tp s' = tp s -> db s' = db s -> content_of c s' n = content_of c s n.
Proof.
  intros Et Ed. unfold content_of, stat_s. rewrite Ed.
  destruct (inv_stat (db s) n false) as [p [h| | |x]]; try reflexivity.
  destruct (tf_regular (h_tf h)); [|reflexivity].
  unfold read_path. rewrite Ed, Et.
  destruct (get_header (db s) (trim_suffix [slash] n)) as [p1 [d| | |x]].
  - destruct (fetch_at c (tp s) (r_rec d) (r_blk d)); reflexivity.
  - destruct (get_header p1 (trim_suffix [slash] n ++ [slash])) as [p2 [d| | |x]]; try reflexivity.
    destruct (fetch_at c (tp s) (r_rec d) (r_blk d)); reflexivity.
  - reflexivity.
  - reflexivity.
Qed.

Lemma Good4_same hr c s s' : tp s' = tp s -> db s' = db s -> Good4 hr c s -> Good4 hr c s'.
Proof.
  intros Et Ed [[[HI Hsz] Hcl] Hd Hk].
  assert (Ea : abs s' = abs s) by (unfold abs; rewrite Ed; reflexivity).
  split; [split; [split|]| |].
  - eapply Inv_ext; eassumption.
  - rewrite Ed. exact Hsz.
  - rewrite Ea. exact Hcl.
  - unfold designates. rewrite Ea, Et. exact Hd.
  - rewrite Ea. exact Hk.
Qed.

Section Content.
Variable hr : bool.
Variable c : cfg.
Hypothesis HP : plain c.
Hypothesis Hrs : 0 < c_rs c.
Hypothesis Hro : c_readonly c = false.

(* ---------- the frame: a call whose effect on the namespace is that of a reference call *)
Lemma Good4_frame s s' A' : Good4 hr c s -> Good hr c s' -> extends (tp s) (tp s') ->
  ns_eq (abs s') A' -> sub_cores A' (abs s) -> Good4 hr c s'.
Proof.
  intros [HG Hd Hk] HG' Hext Eq Hsub. split; [exact HG'| |].
  - intros n v Hn Hr. rewrite Eq in Hn. destruct (Hsub n v Hn) as [K|(m0 & v0 & L0 & Ec)].
    + rewrite K in Hr. discriminate.
    + unfold core in Ec. injection Ec as E1 E2 E3.
      destruct (Hd m0 v0 L0 ltac:(rewrite E1; exact Hr)) as (m & Hm & Hrec).
      exists m. rewrite <- E3, <- E2. split; [eapply member_at_extends; eassumption|exact Hrec].
  - intros n v Hn. rewrite Eq in Hn. destruct (Hsub n v Hn) as [K|(m0 & v0 & L0 & Ec)]; [left; exact K|].
    unfold core in Ec. injection Ec as E1 E2 E3. rewrite <- E1. exact (Hk m0 v0 L0).
Qed.

Lemma call_frame s s' o k A' : Good4 hr c s -> Good hr c s' -> extends (tp s) (tp s') ->
  ns_eq (abs s') A' -> sub_cores A' (abs s) -> (o = OOk -> wgood k) ->
  (forall t m, cof c t (lookup A' m) = upd_w k o (fun x => cof c t (lookup (abs s) x)) m) ->
  Good4 hr c s' /\ forall m, good m -> content_of c s' m = upd_w k o (content_of c s) m.
Proof.
  intros H4 HG' Hext Eq Hsub Hw Heff. split; [eapply Good4_frame; eassumption|].
  intros m Gm. rewrite (content_of_abs hr c s' m (wf_inv _ _ _ (g_wf _ _ _ HG')) Gm), Eq, Heff.
  apply (upd_w_rel eq); [reflexivity|exact Hw| |exact Gm].
  intros x Gx. rewrite (cof_stable c s (tp s') x (g4_des _ _ _ H4) Hext).
  symmetry. apply (content_of_abs hr). { apply wf_inv. apply g_wf. apply g4_good. exact H4. } exact Gx.
Qed.

Ltac t02 K Hext s e k :=
  pose proof (step_extends c (with_env s e) k) as Hext;
  destruct (step c (with_env s e) k) as [s' o]; destruct K as (HG' & Eo & Eq);
  cbn [fst] in Hext; change (tp (with_env s e)) with (tp s) in Hext.

(* ---------- calls that write no content: every entry's content is unchanged *)
Theorem T04_mkdir s e n perm : Good4 hr c s -> hb_env e -> good n ->
  let '(s', o) := step c (with_env s e) (CMkdir n perm) in
  Good4 hr c s' /\ forall m, good m -> content_of c s' m = content_of c s m.
Proof.
  intros H4 Hhb G. pose proof (T02Spec.T02_mkdir hr c HP Hrs Hro s e n perm (g4_good _ _ _ H4) Hhb G) as K.
  t02 K Hext s e (CMkdir n perm).
  destruct (call_frame s s' o (CMkdir n perm) _ H4 HG' Hext Eq) as (A & B); [apply mkdir_cores|intros _; exact I| |].
  - intros t m. rewrite mkdir_effect. destruct o; reflexivity.
  - split; [exact A|]. intros m Gm. rewrite (B m Gm). destruct o; reflexivity.
Qed.

Theorem T04_mkdirall s e n perm : Good4 hr c s -> hb_env e -> good n ->
  let '(s', o) := step c (with_env s e) (CMkdirAll n perm) in
  Good4 hr c s' /\ forall m, good m -> content_of c s' m = content_of c s m.
Proof.
  intros H4 Hhb G. pose proof (T02Spec.T02_mkdirall hr c HP Hrs Hro s e n perm (g4_good _ _ _ H4) Hhb G) as K.
  t02 K Hext s e (CMkdirAll n perm).
  destruct (call_frame s s' o (CMkdirAll n perm) _ H4 HG' Hext Eq) as (A & B); [apply mkdirall_cores|intros _; exact I| |].
  - intros t m. rewrite mkdirall_effect. destruct o; reflexivity.
  - split; [exact A|]. intros m Gm. rewrite (B m Gm). destruct o; reflexivity.
Qed.

Theorem T04_chmod s e n md : Good4 hr c s -> hb_env e -> good n ->
  let '(s', o) := step c (with_env s e) (CChmod n md) in
  Good4 hr c s' /\ forall m, good m -> content_of c s' m = content_of c s m.
Proof.
  intros H4 Hhb G. pose proof (T02Spec.T02_chmod hr c HP Hrs Hro s e n md (g4_good _ _ _ H4) Hhb G) as K.
  t02 K Hext s e (CChmod n md).
  destruct (call_frame s s' o (CChmod n md) _ H4 HG' Hext Eq) as (A & B); [apply ch_cores; intro; reflexivity|intros _; exact I| |].
  - intros t m. unfold spec_chmod. rewrite ch_effect by (intro; reflexivity). destruct o; reflexivity.
  - split; [exact A|]. intros m Gm. rewrite (B m Gm). destruct o; reflexivity.
Qed.

Theorem T04_chown s e n u g : Good4 hr c s -> hb_env e -> good n ->
  let '(s', o) := step c (with_env s e) (CChown n u g) in
  Good4 hr c s' /\ forall m, good m -> content_of c s' m = content_of c s m.
Proof.
  intros H4 Hhb G. pose proof (T02Spec.T02_chown hr c HP Hrs Hro s e n u g (g4_good _ _ _ H4) Hhb G) as K.
  t02 K Hext s e (CChown n u g).
  destruct (call_frame s s' o (CChown n u g) _ H4 HG' Hext Eq) as (A & B); [apply ch_cores; intro; reflexivity|intros _; exact I| |].
  - intros t m. unfold spec_chown. rewrite ch_effect by (intro; reflexivity). destruct o; reflexivity.
  - split; [exact A|]. intros m Gm. rewrite (B m Gm). destruct o; reflexivity.
Qed.

Theorem T04_chtimes s e n at_ mt : Good4 hr c s -> hb_env e -> good n ->
  let '(s', o) := step c (with_env s e) (CChtimes n at_ mt) in
  Good4 hr c s' /\ forall m, good m -> content_of c s' m = content_of c s m.
Proof.
  intros H4 Hhb G. pose proof (T02Spec.T02_chtimes hr c HP Hrs Hro s e n at_ mt (g4_good _ _ _ H4) Hhb G) as K.
  t02 K Hext s e (CChtimes n at_ mt).
  destruct (call_frame s s' o (CChtimes n at_ mt) _ H4 HG' Hext Eq) as (A & B); [apply ch_cores; intro; reflexivity|intros _; exact I| |].
  - intros t m. unfold spec_chtimes. rewrite ch_effect by (intro; reflexivity). destruct o; reflexivity.
  - split; [exact A|]. intros m Gm. rewrite (B m Gm). destruct o; reflexivity.
Qed.

(* ---------- Remove / RemoveAll: the surviving entries keep their contents, the removed names read nothing *)
Theorem T04_remove s e n : Good4 hr c s -> hb_env e -> good n -> n <> [slash] ->
  let '(s', o) := step c (with_env s e) (CRemove n) in
  Good4 hr c s' /\ forall m, good m -> content_of c s' m = upd_w (CRemove n) o (content_of c s) m.
Proof.
  intros H4 Hhb G Hn. pose proof (T02Spec.T02_remove hr c HP Hrs Hro s e n (g4_good _ _ _ H4) Hhb G Hn) as K.
  t02 K Hext s e (CRemove n).
  apply (call_frame s s' o (CRemove n) _ H4 HG' Hext Eq); [apply remove_cores|intros _; exact I|].
  intros t m. rewrite Eo. apply remove_effect.
Qed.

Theorem T04_remove_all s e n : Good4 hr c s -> hb_env e -> good n -> n <> [slash] ->
  let '(s', o) := step c (with_env s e) (CRemoveAll n) in
  Good4 hr c s' /\ forall m, good m -> content_of c s' m = upd_w (CRemoveAll n) o (content_of c s) m.
Proof.
  intros H4 Hhb G Hn. pose proof (T02Spec.T02_remove_all hr c HP Hrs Hro s e n (g4_good _ _ _ H4) Hhb G Hn) as K.
  t02 K Hext s e (CRemoveAll n).
  apply (call_frame s s' o (CRemoveAll n) _ H4 HG' Hext Eq); [apply remove_all_cores|intros _; exact I|].
  intros t m. rewrite Eo. apply remove_all_effect; [exact (g_closed _ _ _ (g4_good _ _ _ H4))|exact G].
Qed.

(* ---------- Rename: every moved entry reads under its new name what it read under its old name *)
Theorem T04_rename s e old new : Good4 hr c s -> hb_env e -> good old -> good new -> new <> [slash] ->
  let '(s', o) := step c (with_env s e) (CRename old new) in
  Good4 hr c s' /\ (o = OOk -> wgood (CRename old new)) /\
  forall m, good m -> content_of c s' m = upd_w (CRename old new) o (content_of c s) m.
Proof.
  intros H4 Hhb Go Gn Hn. pose proof (g4_good _ _ _ H4) as HG.
  pose proof (T02Spec.T02_rename hr c HP Hrs Hro s e old new HG Hhb Go Gn Hn) as K.
  t02 K Hext s e (CRename old new).
  pose proof (names_good_abs hr c s (wf_inv hr c s (g_wf _ _ _ HG))) as Hng.
  pose proof (g_closed _ _ _ HG) as Hcl.
  assert (Hw : o = OOk -> wgood (CRename old new)).
  { intro K. rewrite Eo in K. eapply rename_wgood; eassumption. }
  destruct (call_frame s s' o (CRename old new) _ H4 HG' Hext Eq) as (A & B); [apply rename_cores; assumption|exact Hw| |].
  - intros t m. rewrite Eo. apply rename_effect; assumption.
  - split; [exact A|]. split; [exact Hw|exact B].
Qed.

(* ---------- CreateFile: Create; Write d; Close *)
Theorem T04_create s e n d : Good4 hr c s -> hb_env e -> good n -> clen d < 10 ^ 40 ->
  let '(s', o) := step c (with_env s e) (CCreateFile n d) in
  Good4 hr c s' /\
  (* nobody else's content changed *)
  (forall m, good m -> m <> n -> content_of c s' m = content_of c s m) /\
  (* a failed call changes nothing *)
  (o <> OOk -> content_of c s' n = content_of c s n) /\
  (* the new content is what was written *)
  (o = OOk -> content_eq (content_of c s' n) (Some d) /\
              ((d <> [] \/ content_of c s n = None) -> content_of c s' n = Some d)).
Proof.
  intros H4 Hhb G Hlen. pose proof (g4_good _ _ _ H4) as HG. pose proof (g_wf _ _ _ HG) as HW.
  pose proof (T02Spec.Wf_env hr c s e HW) as HW0. pose proof (hbok_env c Hrs s e Hhb) as Hhb0.
  pose proof (g_closed _ _ _ HG) as Hcl.
  pose proof (names_good_abs hr c s (wf_inv hr c s HW)) as Hng.
  pose proof (wf_inv hr c s HW) as HI.
  pose proof (step_extends c (with_env s e) (CCreateFile n d)) as Hext. change (tp (with_env s e)) with (tp s) in Hext.
  (* the three shapes of the result *)
  assert (CASES : exists s' o, step c (with_env s e) (CCreateFile n d) = (s', o) /\ Wf hr c s' /\ hbok s' /\
     ((o <> OOk /\ ns_eq (abs s') (abs s)) \/
      (o = OOk /\ d = [] /\ (exists v, lookup (abs s) n = Some v /\ is_dir v = false /\ n_size v = 0) /\ ns_eq (abs s') (abs s)) \/
      (o = OOk /\ spec_parent (abs s) n = OOk /\ match lookup (abs s) n with Some v => is_dir v = false | None => True end /\
       written c (with_env s e) s' n d))).
  { destruct (lookup (abs s) n) as [v|] eqn:Ln.
    - destruct (is_dir v) eqn:Edir.
      + destruct (create_new hr c HP Hrs Hro (with_env s e) n d HW0 Hhb0 G Hlen) as (s' & o & E & HW' & Hhb' & M).
        { change (abs (with_env s e)) with (abs s). rewrite Ln. exact Edir. }
        exists s', o. split; [exact E|]. split; [exact HW'|]. split; [exact Hhb'|]. left.
        change (abs (with_env s e)) with (abs s) in M.
        destruct o; try (split; [discriminate|exact M]). destruct M as (_ & K & _). congruence.
      + destruct (outc_eqb (spec_parent (abs s) n) OOk) eqn:Epar.
        * assert (Epar' : spec_parent (abs s) n = OOk) by (destruct (spec_parent (abs s) n); try discriminate; reflexivity).
          destruct (create_existing hr c HP Hrs Hro (with_env s e) n d v HW0 Hhb0 G Hlen Ln Edir Epar') as (s' & E & HW' & Hhb' & M).
          exists s', OOk. split; [exact E|]. split; [exact HW'|]. split; [exact Hhb'|]. right.
          destruct M as [(M1 & M2 & M3)|M].
          -- left. split; [reflexivity|]. split; [exact M1|]. split; [|exact M3]. exists v. auto.
          -- right. split; [reflexivity|]. split; [exact Epar'|]. split; [reflexivity|exact M].
        * destruct (create_noparent hr c Hro (with_env s e) n d HW0 G) as (o & E & Ho).
          { change (abs (with_env s e)) with (abs s). intro K. rewrite K in Epar. discriminate. }
          exists (with_env s e), o. split; [exact E|]. split; [exact HW0|]. split; [exact Hhb0|]. left. split; [exact Ho|apply ns_eq_refl].
    - destruct (create_new hr c HP Hrs Hro (with_env s e) n d HW0 Hhb0 G Hlen) as (s' & o & E & HW' & Hhb' & M).
      { change (abs (with_env s e)) with (abs s). rewrite Ln. exact I. }
      exists s', o. split; [exact E|]. split; [exact HW'|]. split; [exact Hhb'|].
      change (abs (with_env s e)) with (abs s) in M.
      destruct o; try (left; split; [discriminate|exact M]). right. right. destruct M as (M1 & M2 & M3).
      split; [reflexivity|]. split; [exact M1|]. split; [exact I|exact M3]. }
  destruct CASES as (s' & o & E & HW' & Hhb' & CS). rewrite E in Hext |- *. cbn [fst] in Hext.
  destruct CS as [(Ho & Eq)|[(Ho & Ed & (v & Lv & Vd & Vs) & Eq)|(Ho & Epar & Eex & (v & m & Eq & V1 & V2 & V3 & V4 & V5))]].
  - (* failure *)
    assert (HG' : Good hr c s') by (split; [exact HW'|eapply closed_ns_eq; [apply ns_eq_sym; exact Eq|exact Hcl]]).
    destruct (call_frame s s' o (CCreateFile n d) (abs s) H4 HG' Hext Eq (sub_cores_refl _)) as (A & B); [intros _; exact I| |].
    { intros t m. rewrite upd_w_fail by exact Ho. reflexivity. }
    rewrite upd_w_fail in B by exact Ho.
    split; [exact A|]. split; [intros m Gm _; apply B; exact Gm|]. split; [intros _; apply B; exact G|intro K; contradiction].
  - (* nothing written: an empty file stays as it is *)
    assert (HG' : Good hr c s') by (split; [exact HW'|eapply closed_ns_eq; [apply ns_eq_sym; exact Eq|exact Hcl]]).
    destruct (call_frame s s' (OOther 0) (CCreateFile n d) (abs s) H4 HG' Hext Eq (sub_cores_refl _)) as (A & B); [intros _; exact I| |].
    { intros t m. reflexivity. }
    cbn [upd_w] in B.
    split; [exact A|]. split; [intros m Gm _; apply B; exact Gm|]. split; [intro K; contradiction|]. intros _.
    (* the old content has length 0 *)
    assert (Hreg : tf_regular (n_tf v) = true).
    { destruct (g4_kinds _ _ _ H4 n v Lv) as [K|K]; [unfold is_dir in Vd; rewrite K in Vd; discriminate|rewrite K; reflexivity]. }
    destruct (g4_des _ _ _ H4 n v Lv Hreg) as (m & Hm & (_ & _ & Hlen0)).
    assert (Eold : content_of c s n = Some (mdata m)).
    { rewrite (content_of_abs hr c s n HI G), Lv. apply cof_member; assumption. }
    rewrite (B n G), Eold. subst d. split.
    + cbn. apply expand_clen0. rewrite Hlen0. exact Vs.
    + intros [K|K]; [contradiction|congruence].
  - (* the content record was written *)
    change (abs (with_env s e)) with (abs s) in Eq.
    assert (HG' : Good hr c s').
    { split; [exact HW'|]. eapply closed_ns_eq; [apply ns_eq_sym; exact Eq|].
      assert (Vdir : is_dir v = false) by (unfold is_dir; rewrite V1; reflexivity).
      destruct (lookup (abs s) n) as [v0|] eqn:Ln.
      - apply (closed_set_existing (abs s) n v0 v Ln Eex Vdir Hcl).
      - unfold spec_parent in Epar. destruct (lookup (abs s) (path_dir n)) as [pd|] eqn:Lp; [|discriminate].
        destruct (is_dir pd) eqn:Epd; [|discriminate].
        exact (closed_set_dir (abs s) n v pd Hng G Hcl Lp Epd Ln). }
    assert (Hreg : tf_regular (n_tf v) = true) by (rewrite V1; reflexivity).
    assert (H4' : Good4 hr c s').
    { split; [exact HG'| |].
      - intros x vx Hx Hrx. rewrite Eq, lookup_ns_set in Hx. destruct (eqb_str x n).
        + inversion Hx; subst vx. exists m. split; [exact V3|]. rewrite V2. exact V5.
        + destruct (g4_des _ _ _ H4 x vx Hx Hrx) as (mx & Hmx & Hrec). exists mx. split; [eapply member_at_extends; eassumption|exact Hrec].
      - intros x vx Hx. rewrite Eq, lookup_ns_set in Hx. destruct (eqb_str x n).
        + inversion Hx; subst vx. right. exact V1.
        + exact (g4_kinds _ _ _ H4 x vx Hx). }
    assert (Enew : content_of c s' n = Some d).
    { rewrite (content_of_abs hr c s' n (wf_inv _ _ _ HW') G), Eq, lookup_ns_set, eqb_str_refl.
      rewrite (cof_member c (tp s') v m Hreg V3), V4. reflexivity. }
    split; [exact H4'|]. split; [|split; [intro K; contradiction|]].
    + intros x Gx Hx. rewrite (content_of_abs hr c s' x (wf_inv _ _ _ HW') Gx), Eq, lookup_ns_set.
      rewrite (eqb_str_false x n Hx). rewrite (cof_stable c s (tp s') x (g4_des _ _ _ H4) Hext).
      symmetry. apply (content_of_abs hr c s x HI Gx).
    + intros _. rewrite Enew. split; [apply content_eq_refl|intros _; reflexivity].
Qed.

(* ---------- calls that touch neither tape nor index: Nop, a repeated Initialize, Reopen *)
Lemma quiet_call s e k : Good4 hr c s ->
  match k with CNop | CInitialize _ => True | CReopen => hr = true | _ => False end ->
  exists s', step c (with_env s e) k = (s', OOk) /\ tp s' = tp s /\ db s' = db s.
Proof.
  intros H4 Hk. pose proof (iv_li hr c s (wf_inv _ _ _ (g_wf _ _ _ (g4_good _ _ _ H4)))) as HL.
  destruct k; try contradiction.
  - cbn [step]. unfold fs_initialize. change (db (with_env s e)) with (db s). rewrite (get_root_path_lv hr (db s) HL).
    eexists. split; [reflexivity|]. split; reflexivity.
  - subst hr. cbn [step]. change (db (with_env s e)) with (db s). rewrite (p_open_lv (db s) HL).
    eexists. split; [reflexivity|]. split; reflexivity.
  - cbn [step]. eexists. split; [reflexivity|]. split; reflexivity.
Qed.

Lemma quiet_step s e k : Good4 hr c s ->
  match k with CNop | CInitialize _ => True | CReopen => hr = true | _ => False end ->
  let '(s', o) := step c (with_env s e) k in
  Good4 hr c s' /\ forall m, content_of c s' m = upd_w k o (content_of c s) m.
Proof.
  intros H4 Hk. destruct (quiet_call s e k H4 Hk) as (s' & E & Et & Ed). rewrite E.
  split; [exact (Good4_same hr c s s' Et Ed H4)|]. intro m. rewrite (content_of_same c s s' m Et Ed).
  destruct k; try contradiction; reflexivity.
Qed.

(* ---------- all call kinds at once: the contents after a call are the ghost update of the contents before *)
Theorem T04_step s e k : Good4 hr c s -> hb_env e -> call_pre4 hr k ->
  let '(s', o) := step c (with_env s e) k in
  Good4 hr c s' /\ (o = OOk -> wgood k) /\
  forall m, good m -> content_eq (content_of c s' m) (upd_w k o (content_of c s) m).
Proof.
  intros H4 Hhb Hpre. destruct k; cbn [call_pre4] in Hpre; try contradiction.
  - pose proof (T04_mkdir s e n perm H4 Hhb Hpre) as K. destruct (step c (with_env s e) (CMkdir n perm)) as [s' o].
    destruct K as (A & B). split; [exact A|]. split; [intros _; exact I|]. intros m Gm. apply content_eq_of_eq. rewrite (B m Gm). destruct o; reflexivity.
  - pose proof (T04_mkdirall s e n perm H4 Hhb Hpre) as K. destruct (step c (with_env s e) (CMkdirAll n perm)) as [s' o].
    destruct K as (A & B). split; [exact A|]. split; [intros _; exact I|]. intros m Gm. apply content_eq_of_eq. rewrite (B m Gm). destruct o; reflexivity.
  - destruct Hpre as (G & Hn). pose proof (T04_remove s e n H4 Hhb G Hn) as K. destruct (step c (with_env s e) (CRemove n)) as [s' o].
    destruct K as (A & B). split; [exact A|]. split; [intros _; exact I|]. intros m Gm. apply content_eq_of_eq. exact (B m Gm).
  - destruct Hpre as (G & Hn). pose proof (T04_remove_all s e n H4 Hhb G Hn) as K. destruct (step c (with_env s e) (CRemoveAll n)) as [s' o].
    destruct K as (A & B). split; [exact A|]. split; [intros _; exact I|]. intros m Gm. apply content_eq_of_eq. exact (B m Gm).
  - destruct Hpre as (Ga & Gb & Hn). pose proof (T04_rename s e a b H4 Hhb Ga Gb Hn) as K. destruct (step c (with_env s e) (CRename a b)) as [s' o].
    destruct K as (A & W & B). split; [exact A|]. split; [exact W|]. intros m Gm. apply content_eq_of_eq. exact (B m Gm).
  - pose proof (T04_chmod s e n m H4 Hhb Hpre) as K. destruct (step c (with_env s e) (CChmod n m)) as [s' o].
    destruct K as (A & B). split; [exact A|]. split; [intros _; exact I|]. intros x Gx. apply content_eq_of_eq. rewrite (B x Gx). destruct o; reflexivity.
  - pose proof (T04_chown s e n u g H4 Hhb Hpre) as K. destruct (step c (with_env s e) (CChown n u g)) as [s' o].
    destruct K as (A & B). split; [exact A|]. split; [intros _; exact I|]. intros x Gx. apply content_eq_of_eq. rewrite (B x Gx). destruct o; reflexivity.
  - pose proof (T04_chtimes s e n a m H4 Hhb Hpre) as K. destruct (step c (with_env s e) (CChtimes n a m)) as [s' o].
    destruct K as (A & B). split; [exact A|]. split; [intros _; exact I|]. intros x Gx. apply content_eq_of_eq. rewrite (B x Gx). destruct o; reflexivity.
  - destruct Hpre as (G & Hlen). pose proof (T04_create s e n d H4 Hhb G Hlen) as K. destruct (step c (with_env s e) (CCreateFile n d)) as [s' o].
    destruct K as (A & B1 & B2 & B3). split; [exact A|]. split; [intros _; exact I|]. intros m Gm.
    destruct (eqb_str m n) eqn:Em.
    + apply eqb_str_eq in Em. subst m. destruct o; try (rewrite upd_w_fail by discriminate; apply content_eq_of_eq; apply B2; discriminate).
      cbn [upd_w]. rewrite eqb_str_refl. apply (B3 eq_refl).
    + apply content_eq_of_eq. rewrite (B1 m Gm (proj1 (eqb_str_neq m n) Em)). destruct o; cbn [upd_w]; rewrite ?Em; reflexivity.
  - pose proof (quiet_step s e (CInitialize rootp) H4 I) as K. destruct (step c (with_env s e) (CInitialize rootp)) as [s' o].
    destruct K as (A & B). split; [exact A|]. split; [intros _; exact I|]. intros m _. apply content_eq_of_eq. apply B.
  - pose proof (quiet_step s e CReopen H4 Hpre) as K. destruct (step c (with_env s e) CReopen) as [s' o].
    destruct K as (A & B). split; [exact A|]. split; [intros _; exact I|]. intros m _. apply content_eq_of_eq. apply B.
  - pose proof (quiet_step s e CNop H4 I) as K. destruct (step c (with_env s e) CNop) as [s' o].
    destruct K as (A & B). split; [exact A|]. split; [intros _; exact I|]. intros m _. apply content_eq_of_eq. apply B.
Qed.

(* ---------- the same results in the shape of the property statements *)
(* C04 / C02 for CreateFile: after a successful Create; Write d; Close the entry reads d, and nobody else's
   content changed *)
Theorem T04_read_after_create s e n d : Good4 hr c s -> hb_env e -> good n -> clen d < 10 ^ 40 ->
  let '(s', o) := step c (with_env s e) (CCreateFile n d) in
  o = OOk ->
  content_eq (content_of c s' n) (Some d) /\
  ((d <> [] \/ content_of c s n = None) -> content_of c s' n = Some d) /\
  forall m, m <> n -> good m -> content_of c s' m = content_of c s m.
Proof.
  intros H4 Hhb G Hlen. pose proof (T04_create s e n d H4 Hhb G Hlen) as K.
  destruct (step c (with_env s e) (CCreateFile n d)) as [s' o]. destruct K as (_ & B1 & _ & B3). intro Ho.
  destruct (B3 Ho) as (C1 & C2). split; [exact C1|]. split; [exact C2|]. intros m Hm Gm. apply B1; assumption.
Qed.

(* every call other than CreateFile: the contents after the call are the ghost update of the contents before, with
   equality of piece lists *)
Theorem T04_other_calls_keep_contents s e k : Good4 hr c s -> hb_env e -> call_pre4 hr k ->
  match k with CCreateFile _ _ => False | _ => True end ->
  let '(s', o) := step c (with_env s e) k in
  Good4 hr c s' /\ forall m, good m -> content_of c s' m = upd_w k o (content_of c s) m.
Proof.
  intros H4 Hhb Hpre Hk. destruct k; cbn [call_pre4] in Hpre; try contradiction.
  - pose proof (T04_mkdir s e n perm H4 Hhb Hpre) as K. destruct (step c (with_env s e) (CMkdir n perm)) as [s' o].
    destruct K as (A & B). split; [exact A|]. intros m Gm. rewrite (B m Gm). destruct o; reflexivity.
  - pose proof (T04_mkdirall s e n perm H4 Hhb Hpre) as K. destruct (step c (with_env s e) (CMkdirAll n perm)) as [s' o].
    destruct K as (A & B). split; [exact A|]. intros m Gm. rewrite (B m Gm). destruct o; reflexivity.
  - destruct Hpre as (G & Hn). exact (T04_remove s e n H4 Hhb G Hn).
  - destruct Hpre as (G & Hn). exact (T04_remove_all s e n H4 Hhb G Hn).
  - destruct Hpre as (Ga & Gb & Hn). pose proof (T04_rename s e a b H4 Hhb Ga Gb Hn) as K. destruct (step c (with_env s e) (CRename a b)) as [s' o].
    destruct K as (A & _ & B). split; assumption.
  - pose proof (T04_chmod s e n m H4 Hhb Hpre) as K. destruct (step c (with_env s e) (CChmod n m)) as [s' o].
    destruct K as (A & B). split; [exact A|]. intros x Gx. rewrite (B x Gx). destruct o; reflexivity.
  - pose proof (T04_chown s e n u g H4 Hhb Hpre) as K. destruct (step c (with_env s e) (CChown n u g)) as [s' o].
    destruct K as (A & B). split; [exact A|]. intros x Gx. rewrite (B x Gx). destruct o; reflexivity.
  - pose proof (T04_chtimes s e n a m H4 Hhb Hpre) as K. destruct (step c (with_env s e) (CChtimes n a m)) as [s' o].
    destruct K as (A & B). split; [exact A|]. intros x Gx. rewrite (B x Gx). destruct o; reflexivity.
  - pose proof (quiet_step s e (CInitialize rootp) H4 I) as K. destruct (step c (with_env s e) (CInitialize rootp)) as [s' o].
    destruct K as (A & B). split; [exact A|]. intros m _. apply B.
  - pose proof (quiet_step s e CReopen H4 Hpre) as K. destruct (step c (with_env s e) CReopen) as [s' o].
    destruct K as (A & B). split; [exact A|]. intros m _. apply B.
  - pose proof (quiet_step s e CNop H4 I) as K. destruct (step c (with_env s e) CNop) as [s' o].
    destruct K as (A & B). split; [exact A|]. intros m _. apply B.
Qed.

(* Remove / RemoveAll: the surviving entries' contents are unchanged *)
Corollary T04_remove_survivors s e n : Good4 hr c s -> hb_env e -> good n -> n <> [slash] ->
  let '(s', o) := step c (with_env s e) (CRemove n) in
  forall m, good m -> m <> n -> content_of c s' m = content_of c s m.
Proof.
  intros H4 Hhb G Hn. pose proof (T04_remove s e n H4 Hhb G Hn) as K. destruct (step c (with_env s e) (CRemove n)) as [s' o].
  destruct K as (_ & B). intros m Gm Hm. rewrite (B m Gm). destruct o; cbn [upd_w]; try reflexivity.
  rewrite (eqb_str_false m n Hm). reflexivity.
Qed.

Corollary T04_remove_all_survivors s e n : Good4 hr c s -> hb_env e -> good n -> n <> [slash] ->
  let '(s', o) := step c (with_env s e) (CRemoveAll n) in
  forall m, good m -> inside n m = false -> content_of c s' m = content_of c s m.
Proof.
  intros H4 Hhb G Hn. pose proof (T04_remove_all s e n H4 Hhb G Hn) as K. destruct (step c (with_env s e) (CRemoveAll n)) as [s' o].
  destruct K as (_ & B). intros m Gm Hm. rewrite (B m Gm). destruct o; cbn [upd_w]; try reflexivity. rewrite Hm. reflexivity.
Qed.

(* Rename old new: every moved entry (the entry and everything below it) reads under its new name what it read under
   its old name; the old names read nothing; every other name is unchanged *)
Corollary T04_rename_moves s e old new : Good4 hr c s -> hb_env e -> good old -> good new -> new <> [slash] ->
  let '(s', o) := step c (with_env s e) (CRename old new) in
  o = OOk -> old <> new ->
  (forall sfx, sfx_ok sfx = true -> good (new ++ sfx) -> content_of c s' (new ++ sfx) = content_of c s (old ++ sfx)) /\
  (forall m, good m -> inside new m = false -> inside old m = true -> content_of c s' m = None) /\
  (forall m, good m -> inside new m = false -> inside old m = false -> content_of c s' m = content_of c s m).
Proof.
  intros H4 Hhb Go Gn Hn. pose proof (T04_rename s e old new H4 Hhb Go Gn Hn) as K.
  destruct (step c (with_env s e) (CRename old new)) as [s' o]. destruct K as (_ & _ & B). intros Ho Hne. subst o.
  cbn [upd_w] in B. rewrite (eqb_str_false old new Hne) in B. unfold w_move in B. split; [|split].
  - intros sfx Hs Gm. rewrite (B _ Gm). rewrite (inside_app new sfx Gn Hn Hs), skipn_app_len. reflexivity.
  - intros m Gm H1 H2. rewrite (B m Gm), H1, H2. reflexivity.
  - intros m Gm H1 H2. rewrite (B m Gm), H1, H2. reflexivity.
Qed.

(* ---------- histories *)
Fixpoint ok_run4 (r : list (call * env)) : Prop :=
  match r with
  | [] => True
  | (k, e) :: r' => hb_env e /\ call_pre4 hr k /\ ok_run4 r'
  end.

(* what is read at the end of a history is what the history last wrote: for every name, the content a read returns
   equals the ghost map folded over the history *)
Theorem T04_history : forall r s w, Good4 hr c s -> ok_run4 r ->
  (forall m, good m -> content_eq (content_of c s m) (w m)) ->
  Good4 hr c (final c s r) /\
  forall m, good m -> content_eq (content_of c (final c s r) m) (last_written c s r w m).
Proof.
  induction r as [|[k e] r IH]; intros s w H4 Hok Hw; cbn [ok_run4 final last_written] in *; [split; [exact H4|exact Hw]|].
  destruct Hok as (Hhb & Hpre & Hrest). pose proof (T04_step s e k H4 Hhb Hpre) as K.
  destruct (step c (with_env s e) k) as [s' o]. cbn [fst]. destruct K as (H4' & Wg & B).
  apply (IH s' (upd_w k o w) H4' Hrest). intros m Gm.
  eapply content_eq_trans; [apply B; exact Gm|].
  apply (upd_w_rel content_eq); [apply content_eq_refl|exact Wg|exact Hw|exact Gm].
Qed.

(* the invariant form (C04): at the end of every such history, the position of every live regular row designates a
   member of the tape that is a content record of the row (regular header, replayed size = the row's size, data of
   that length), and the data it carries is what was last written under the row's name *)
Theorem T04_positions_designate_content : forall r s w, Good4 hr c s -> ok_run4 r ->
  (forall m, good m -> content_eq (content_of c s m) (w m)) ->
  forall x, In x (rows (db (final c s r))) -> live x = true -> tf_regular (r_tf x) = true ->
  exists m, member_at (tp (final c s r)) (off_of (c_rs c) (r_rec x) (r_blk x)) = Some m /\
            is_content_record m (r_size x) /\
            content_eq (Some (mdata m)) (last_written c s r w (r_name x)).
Proof.
  intros r s w H4 Hok Hw x Hin Hlive Hreg.
  destruct (T04_history r s w H4 Hok Hw) as (H4' & Hc). set (s' := final c s r) in *.
  pose proof (wf_inv _ _ _ (g_wf _ _ _ (g4_good _ _ _ H4'))) as HI'. pose proof (iv_li hr c s' HI') as HL'.
  assert (Hnd : NoDup (map r_name (rows (db s')))) by apply HL'.
  assert (Gx : good (r_name x)).
  { assert (Hrows : Forall rowok (rows (db s'))) by apply HL'. rewrite Forall_forall in Hrows. apply (Hrows x Hin). }
  assert (Ef : find_rows (rows (db s')) (r_name x) = Some x) by (apply find_rows_self; assumption).
  assert (Lx : lookup (abs s') (r_name x) = Some (node_of x)) by (rewrite (lookup_abs hr c s' _ HI'); unfold look; rewrite Ef; reflexivity).
  destruct (g4_des _ _ _ H4' (r_name x) (node_of x) Lx Hreg) as (m & Hm & Hrec).
  assert (Ecid : n_cid (node_of x) = (r_rec x, r_blk x)) by (unfold node_of; cbn [n_cid]; rewrite Hreg; reflexivity).
  rewrite Ecid in Hm. cbn [fst snd] in Hm. exists m. split; [exact Hm|]. split; [exact Hrec|].
  specialize (Hc (r_name x) Gx). rewrite (content_of_abs hr c s' _ HI' Gx), Lx in Hc.
  rewrite (cof_member c (tp s') (node_of x) m Hreg) in Hc; [exact Hc|]. rewrite Ecid. exact Hm.
Qed.
End Content.

(* ---------- the state after Initialize "/" *)
Theorem Good4_init c e : 0 < c_rs c -> c_readonly c = false -> hb_env e ->
  Good4 true c (fst (step c (with_env init_sys e) (CInitialize [slash]))) /\
  forall m, good m -> content_of c (fst (step c (with_env init_sys e) (CInitialize [slash]))) m = None.
Proof.
  intros Hrs Hro Hhb. pose proof (Good_init c e Hrs Hro Hhb) as HG.
  destruct (init_eq c Hrs Hro e Hhb) as (m & r0 & s1 & E & _ & _ & Er & Em). rewrite E in *. cbn [fst] in *.
  set (s0 := {| tp := [TM m; TT]; db := {| rows := [r0]; root := [slash]; root_empty := false |}; hbq := hbq s1; encq := encq s1; clk := clk s1 |}) in *.
  assert (Etf : r_tf r0 = TypeDir) by (rewrite Er, Em; reflexivity).
  assert (Elive : live r0 = true) by (rewrite Er; reflexivity).
  assert (Habs : forall x v, lookup (abs s0) x = Some v -> n_tf v = TypeDir).
  { intros x v Hx. unfold abs, absp, s0 in Hx. cbn [db rows filter] in Hx. rewrite Elive in Hx. cbn [map] in Hx.
    rewrite lookup_cons in Hx. cbn [fst snd] in Hx. destruct (eqb_str (r_name r0) x); [|discriminate].
    inversion Hx; subst v. exact Etf. }
  assert (H4 : Good4 true c s0).
  { split; [exact HG| |].
    - intros x v Hx Hr. rewrite (Habs x v Hx) in Hr. discriminate.
    - intros x v Hx. left. exact (Habs x v Hx). }
  split; [exact H4|]. intros x Gx.
  rewrite (content_of_abs true c s0 x (wf_inv _ _ _ (g_wf _ _ _ HG)) Gx).
  destruct (lookup (abs s0) x) as [v|] eqn:Lx; [|reflexivity]. apply cof_dir. exact (Habs x v Lx).
Qed.

(* ---------- from the empty system: Initialize "/" and then any history of filesystem calls *)
Theorem T04_reachable : forall c e0 r, plain c -> 0 < c_rs c -> c_readonly c = false -> hb_env e0 -> ok_run4 true r ->
  let h := (CInitialize [slash], e0) :: r in
  Good4 true c (final c init_sys h) /\
  (forall m, good m -> content_eq (content_of c (final c init_sys h) m) (last_written c init_sys h w_empty m)) /\
  (forall x, In x (rows (db (final c init_sys h))) -> live x = true -> tf_regular (r_tf x) = true ->
     exists m, member_at (tp (final c init_sys h)) (off_of (c_rs c) (r_rec x) (r_blk x)) = Some m /\
               is_content_record m (r_size x) /\
               content_eq (Some (mdata m)) (last_written c init_sys h w_empty (r_name x))).
Proof.
  intros c e0 r HP Hrs Hro Hhb Hok. cbn zeta. cbn [final last_written].
  destruct (Good4_init c e0 Hrs Hro Hhb) as (H4 & Hnone).
  assert (Eo : snd (step c (with_env init_sys e0) (CInitialize [slash])) = OOk).
  { destruct (init_eq c Hrs Hro e0 Hhb) as (m & r0 & s1 & E & _). rewrite E. reflexivity. }
  destruct (step c (with_env init_sys e0) (CInitialize [slash])) as [s0 o] eqn:E0. cbn [fst snd] in *. subst o.
  cbn [upd_w].
  assert (Hw : forall m, good m -> content_eq (content_of c s0 m) (w_empty m)).
  { intros m Gm. rewrite (Hnone m Gm). exact I. }
  destruct (T04_history true c HP Hrs Hro r s0 w_empty H4 Hok Hw) as (A & B).
  split; [exact A|]. split; [exact B|].
  intros x Hin Hl Hr. exact (T04_positions_designate_content true c HP Hrs Hro r s0 w_empty H4 Hok Hw x Hin Hl Hr).
Qed.

Print Assumptions T04_read_after_create.
Print Assumptions T04_other_calls_keep_contents.
Print Assumptions T04_rename_moves.
Print Assumptions T04_create.
Print Assumptions T04_step.
Print Assumptions T04_history.
Print Assumptions T04_positions_designate_content.
Print Assumptions T04_reachable.
