(* T02w / the call: OpenFile with arbitrary flags; Write; Close ([CWriteFile]) in every state that satisfies the T02 / T04
   state hypotheses, against [spec_write_file_q true] (T02wNs.v: the reference with the corners W1-W3 resolved the way
   the implementation resolves them): outcome, namespace, the content record the entry designates afterwards.
   Stated for any state [s] whose header-block queue is positive; T02wSpec.v instantiates [with_env s e]. *)
From Coq Require Import List NArith ZArith Bool Lia.
From Coq Require Import ZifyN ZifyBool.
Import ListNotations.
From STFS Require Import Str Db Tape Index Ops Fs File Diff Norm TapeLemmas Append StrLemmas
  C01Str C01Db C01Inv C01Sim C01Tape C01Hdr C01Ops C01Ops2 C01Reads C01Fs C01Fs2 C01Rows
  T02Ns T02Db T02Ops T02Reads T02Str T02Closed T02Move T02Calls T02Rename T02MkdirAll T02Create T02Spec
  T04Def T04Tape T04Ops T04Create T04Ns T04Content C14Refine T02wNs T02wStr.
Open Scope N_scope.

(* the flags of the handle (not read-only) and the buffer O_TRUNC gives it when it is opened *)
Definition fl_of (o : oflag) : flags :=
  {| fl_read := (o_acc o =? 0) || (o_acc o =? 2); fl_write := wr_acc o; fl_append := o_append o; fl_trunc := o_trunc o |}.
Definition open_buf (o : oflag) (size : N) : option content :=
  if wr_acc o && o_trunc o && negb (size =? 0) then Some [] else None.

(* the entry a flush of the handle leaves *)
Definition flush_node (i : hdr) (size : N) (now : Z) (cid : N * N) : node :=
  {| n_tf := TypeReg; n_size := size; n_mode := perm_bits (h_mode i); n_uid := h_uid i; n_gid := h_gid i;
     n_uname := h_uname i; n_gname := h_gname i; n_mtime := now; n_atime := h_atime i; n_ctime := h_ctime i; n_cid := cid |}.

Lemma rw_node_outc q o d force now cid v : outc_eqb (snd (rw_node q o d force now cid v)) OExist = false.
Proof.
  unfold rw_node. destruct (writes d force), (wr_acc o); cbn [andb].
  - destruct (negb q && negb (nonempty d) && negb (o_trunc o)); reflexivity.
  - reflexivity.
  - destruct (o_trunc o && (negb q || negb (n_size v =? 0))); reflexivity.
  - reflexivity.
Qed.

(* when the implementation leaves the entry alone, the reference content is the old content (as bytes) *)
Lemma rw_none_data o d force now cid v old : clen old = n_size v ->
  fst (rw_node true o d force now cid v) = None -> expand (spec_data o d force old) = expand old.
Proof.
  intros Hlen. unfold rw_node, spec_data. destruct (wr_acc o), (writes d force); cbn [andb negb orb fst]; try discriminate; try reflexivity.
  destruct (o_trunc o); cbn [andb]; [|reflexivity].
  destruct (n_size v =? 0) eqn:E; cbn [negb fst]; [|discriminate]. intros _.
  symmetry. apply expand_clen0. rewrite Hlen. lia.
Qed.

Lemma rw_node_some q o d force now cid v v' : fst (rw_node q o d force now cid v) = Some v' ->
  n_cid v' = cid /\ n_tf v' = TypeReg.
Proof.
  unfold rw_node. destruct (writes d force), (wr_acc o); cbn [andb fst]; try discriminate.
  - destruct (negb q && negb (nonempty d) && negb (o_trunc o)); cbn [fst]; [discriminate|]. intro H. inversion H. split; reflexivity.
  - destruct (o_trunc o && (negb q || negb (n_size v =? 0))); cbn [fst]; [|discriminate]. intro H. inversion H. split; reflexivity.
Qed.

Lemma rw_node_none_cid q o d force now cid cid' v : fst (rw_node q o d force now cid v) = None ->
  rw_node q o d force now cid' v = rw_node q o d force now cid v.
Proof.
  unfold rw_node. destruct (writes d force), (wr_acc o); cbn [andb fst]; try reflexivity.
  - destruct (negb q && negb (nonempty d) && negb (o_trunc o)); cbn [fst]; [reflexivity|discriminate].
  - destruct (o_trunc o && (negb q || negb (n_size v =? 0))); cbn [fst]; [discriminate|reflexivity].
Qed.

Lemma rw_node_cid q c perm o d force now cid now' cid1 cid2 :
  rw_node q o d force now cid (new_node c false perm now' cid1) = rw_node q o d force now cid (new_node c false perm now' cid2).
Proof. reflexivity. Qed.

Lemma zero_lt_big : 0 < 10 ^ 40.
Proof. vm_compute. reflexivity. Qed.

Section Core.
Variable hr : bool.
Variable c : cfg.
Hypothesis HP : plain c.
Hypothesis Hrs : 0 < c_rs c.
Hypothesis Hro : c_readonly c = false.

Lemma decode_fl o : decode_flags c o = fl_of o.
Proof. unfold decode_flags, fl_of, wr_acc. rewrite Hro. reflexivity. Qed.

(* ---------- the flush of a handle on an existing entry: namespace and content record *)
Lemma flush_exact s hd bb d0 now : Wf hr c s -> hbok s -> good (hd_path hd) -> hd_link hd = [] -> clen bb < 10 ^ 40 ->
  find_rows (rows (db s)) (hd_path hd) = Some d0 ->
  exists s' m, update_op c s [{| f_hdr := stamp_mtime (flush_hdr hd (clen bb)) now; f_data := bb |}] true true = (s', OOk) /\
    Wf hr c s' /\ hbok s' /\
    (forall x, lookup (abs s') x = if eqb_str x (hd_path hd)
                                   then Some (flush_node (hd_info hd) (clen bb) now (end_rec c s, end_blk c s)) else lookup (abs s) x) /\
    member_at (tp s') (off_of (c_rs c) (end_rec c s) (end_blk c s)) = Some m /\ mdata m = bb /\ is_content_record m (clen bb).
Proof.
  intros HW Hhb G Hk Hlen Hf. pose proof (wf_inv hr c s HW) as HI. pose proof (iv_li hr c s HI) as HL.
  assert (Hrows : Forall rowok (rows (db s))) by apply HL.
  assert (Hnd : NoDup (map r_name (rows (db s)))) by apply HL.
  set (fh := stamp_mtime (flush_hdr hd (clen bb)) now).
  destruct (update_content_pos hr c HP Hrs s fh bb d0 HI Hhb)
    as (s2 & m & enc & E2 & HI2 & Hhb2 & Etp & Ehdr & Edata & Edb2).
  { exact G. } { exact Hk. } { reflexivity. } { exact Hlen. } { exact Hf. }
  exists s2, m. split; [exact E2|].
  change (h_name fh) with (hd_path hd) in Edb2.
  change (h_size fh) with (clen bb) in Edb2.
  set (fr := row_of_hdr (end_rec c s) (end_rec c s) (end_blk c s) (end_blk c s)
               (with_size_name (content_hdr fh enc) (clen bb) (hd_path hd))) in *.
  assert (Hsz : hsize (content_hdr fh enc) = Some (clen bb)).
  { unfold hsize, content_hdr, upd_pax. cbn [h_pax with_size_name set_pax]. paxs.
    apply undecimal_decimal_eq. exact Hlen. }
  split; [|split; [exact Hhb2|]].
  - split; [exact HI2|]. rewrite Edb2, with_rows_rows. apply replace_row_Forall; [apply HW|].
    unfold fr. apply size_ok_row_of_hdr; [exact Hsz|].
    unfold content_hdr, upd_pax. cbn [h_pax with_size_name set_pax]. paxs. discriminate.
  - split.
    + intro x. rewrite (lookup_abs hr c s2 x HI2), Edb2, with_rows_rows.
      rewrite look_replace; [|exact Hrows|exact Hnd|reflexivity|eapply find_rows_has; exact Hf].
      rewrite (lookup_abs hr c s x HI). destruct (eqb_str x (hd_path hd)); [|reflexivity].
      change (live fr) with true. cbn iota. f_equal.
      unfold fr, fh, node_of, flush_node. cbn -[clen perm_bits N.pow end_rec end_blk]. rewrite !perm_bits_idem. reflexivity.
    + rewrite (end_off c Hrs), Etp. split; [apply member_at_new; apply HI|].
      split; [unfold mdata; rewrite Edata; reflexivity|].
      split; [rewrite Ehdr; reflexivity|]. split; [rewrite Ehdr; exact Hsz|].
      unfold mdata. rewrite Edata. reflexivity.
Qed.

(* ---------- the first Write on a handle with write access: the buffer it builds *)
Lemma write_all_reg s n o d d0 m0 : Wf hr c s -> good n ->
  find_rows (rows (db s)) n = Some d0 -> (r_tf d0 =? TypeDir) = false ->
  member_at (tp s) (off_of (c_rs c) (r_rec d0) (r_blk d0)) = Some m0 -> clen (mdata m0) = r_size d0 ->
  wr_acc o = true ->
  let hd := {| hd_path := n; hd_link := []; hd_flags := fl_of o; hd_info := hdr_of_row d0; hd_buf := open_buf o (r_size d0) |} in
  let base := if o_trunc o then [] else mdata m0 in
  exists bb, handle_write_all c s hd d = (s, OOk, Some bb) /\ clen bb = new_size o (r_size d0) d /\
    expand bb = expand (coverlay base (if o_append o then clen base else 0) d).
Proof.
  intros HW G En Edir Hm0 Hlen0 Hwr. cbn zeta.
  pose proof (wf_inv hr c s HW) as HI. pose proof (iv_li hr c s HI) as HL.
  unfold handle_write_all. cbn [hd_info hd_flags hd_buf hd_path fl_of fl_write fl_append fl_trunc].
  change (h_tf (hdr_of_row d0)) with (r_tf d0). rewrite Edir, Hwr. cbn [negb]. cbn iota.
  unfold open_buf, new_size. rewrite Hwr. cbn [andb].
  destruct (o_trunc o) eqn:Et; cbn [andb].
  - (* truncating *)
    assert (K : forall bb, bb = coverlay [] (if o_append o then clen [] else 0) d ->
              clen bb = (if o_append o then 0 + clen d else N.max 0 (clen d)) /\
              expand bb = expand (coverlay [] (if o_append o then clen [] else 0) d)).
    { intros bb ->. split; [|reflexivity]. rewrite clen_coverlay by (destruct (o_append o); cbn; lia).
      destruct (o_append o); cbn [clen fold_right]; lia. }
    destruct (r_size d0 =? 0) eqn:Esz; cbn [negb].
    + rewrite (stat_false_exact hr s n HL G), En. change (h_size (hdr_of_row d0)) with (r_size d0). rewrite Esz. cbn [negb].
      eexists. split; [reflexivity|]. apply K. reflexivity.
    + eexists. split; [reflexivity|]. apply K. reflexivity.
  - rewrite (stat_false_exact hr s n HL G), En. change (h_size (hdr_of_row d0)) with (r_size d0).
    destruct (r_size d0 =? 0) eqn:Esz; cbn [negb].
    + (* an empty file: nothing is loaded *)
      assert (L0 : clen (mdata m0) = 0) by lia.
      eexists. split; [reflexivity|]. split.
      * rewrite clen_coverlay by (destruct (o_append o); cbn; lia). destruct (o_append o); cbn [clen fold_right]; lia.
      * destruct (o_append o).
        -- apply coverlay_congr_end; [|reflexivity]. symmetry. apply expand_clen0. exact L0.
        -- apply coverlay_congr; [|reflexivity]. symmetry. apply expand_clen0. exact L0.
    + (* the content is loaded from the tape *)
      rewrite (read_path_exact hr c s n d0 HL G En), (fetch_at_member c (tp s) _ _ m0 Hm0).
      eexists. split; [reflexivity|]. split; [|reflexivity].
      rewrite clen_coverlay by (destruct (o_append o); lia). destruct (o_append o); lia.
Qed.

(* ---------- Write; Close on the handle of a file entry *)
Lemma write_close_reg s n o d force d0 m0 : Wf hr c s -> hbok s -> good n ->
  find_rows (rows (db s)) n = Some d0 -> (r_tf d0 =? TypeDir) = false ->
  member_at (tp s) (off_of (c_rs c) (r_rec d0) (r_blk d0)) = Some m0 -> clen (mdata m0) = r_size d0 ->
  r_size d0 + clen d < 10 ^ 40 ->
  let hd := {| hd_path := n; hd_link := []; hd_flags := fl_of o; hd_info := hdr_of_row d0; hd_buf := open_buf o (r_size d0) |} in
  let cid := (end_rec c s, end_blk c s) in
  let r := rw_node true o d force (clk s) cid (node_of d0) in
  exists s', write_close c s hd d force = (s', snd r) /\ Wf hr c s' /\ hbok s' /\
    match fst r with
    | Some v' => (forall x, lookup (abs s') x = if eqb_str x n then Some v' else lookup (abs s) x) /\
                 exists m, member_at (tp s') (off_of (c_rs c) (fst cid) (snd cid)) = Some m /\ is_content_record m (n_size v') /\
                           expand (mdata m) = expand (spec_data o d force (mdata m0))
    | None => s' = s
    end.
Proof.
  intros HW Hhb G En Edir Hm0 Hlen0 Hbound. cbn zeta.
  (* flushing a buffer *)
  assert (FLUSH : forall buf bb, clen bb < 10 ^ 40 ->
     exists s' m, update_op c s [{| f_hdr := stamp_mtime (flush_hdr {| hd_path := n; hd_link := []; hd_flags := fl_of o;
                                                                       hd_info := hdr_of_row d0; hd_buf := buf |} (clen bb)) (clk s);
                                    f_data := bb |}] true true = (s', OOk) /\ Wf hr c s' /\ hbok s' /\
       (forall x, lookup (abs s') x = if eqb_str x n then Some (wnode (clen bb) (clk s) (end_rec c s, end_blk c s) (node_of d0))
                                      else lookup (abs s) x) /\
       member_at (tp s') (off_of (c_rs c) (end_rec c s) (end_blk c s)) = Some m /\ mdata m = bb /\ is_content_record m (clen bb)).
  { intros buf bb Hbb.
    exact (flush_exact s {| hd_path := n; hd_link := []; hd_flags := fl_of o; hd_info := hdr_of_row d0; hd_buf := buf |}
                       bb d0 (clk s) HW Hhb G eq_refl Hbb En). }
  unfold write_close, rw_node.
  destruct (writes d force) eqn:Ew.
  - (* a Write is performed *)
    assert (Ewc : forall X Y : sys * outc, match d, force with [], false => X | _, _ => Y end = Y).
    { intros X Y. destruct d, force; try reflexivity. discriminate. }
    rewrite Ewc. clear Ewc.
    destruct (wr_acc o) eqn:Hwr.
    + cbn [negb andb].
      destruct (write_all_reg s n o d d0 m0 HW G En Edir Hm0 Hlen0 Hwr) as (bb & Ea & Elen & Eexp).
      cbn zeta in Ea. rewrite Ea. unfold handle_close.
      assert (Hbb : clen bb < 10 ^ 40).
      { rewrite Elen. unfold new_size. destruct (o_trunc o), (o_append o); lia. }
      destruct (FLUSH (open_buf o (r_size d0)) bb Hbb) as (s' & m & E & HW' & Hhb' & Lk & Mm & Md & Mr).
      rewrite E. exists s'. cbn [fst snd]. split; [reflexivity|]. split; [exact HW'|]. split; [exact Hhb'|].
      change (n_size (node_of d0)) with (r_size d0). rewrite <- Elen.
      split; [exact Lk|]. exists m. split; [exact Mm|]. split; [exact Mr|].
      rewrite Md, Eexp. unfold spec_data. rewrite Hwr, Ew. reflexivity.
    + (* no write access: the Write is refused *)
      unfold handle_write_all. cbn [hd_info hd_flags fl_of fl_write].
      change (h_tf (hdr_of_row d0)) with (r_tf d0). rewrite Edir, Hwr. cbn [negb fst snd].
      exists s. split; [reflexivity|]. split; [exact HW|]. split; [exact Hhb|reflexivity].
  - (* no Write: Close flushes the buffer O_TRUNC made, if any *)
    assert (Ed : d = [] /\ force = false) by (destruct d, force; try discriminate; split; reflexivity).
    destruct Ed as (-> & ->). cbn [hd_buf]. unfold open_buf.
    change (n_size (node_of d0)) with (r_size d0). cbn [negb orb].
    destruct (wr_acc o && o_trunc o && negb (r_size d0 =? 0)) eqn:Eb.
    + unfold handle_close.
      destruct (FLUSH (Some []) [] zero_lt_big) as (s' & m & E & HW' & Hhb' & Lk & Mm & Md & Mr).
      rewrite E. exists s'. cbn [fst snd]. split; [reflexivity|]. split; [exact HW'|]. split; [exact Hhb'|].
      split; [exact Lk|]. exists m. split; [exact Mm|]. split; [exact Mr|].
      rewrite Md. unfold spec_data. apply andb_true_iff in Eb as [Eb _]. apply andb_true_iff in Eb as [E1 E2].
      rewrite E1, E2. reflexivity.
    + cbn [handle_close fst snd]. exists s. split; [reflexivity|]. split; [exact HW|]. split; [exact Hhb|reflexivity].
Qed.

(* ---------- OpenFile *)
Lemma open_existing s n o perm d0 : LI hr (db s) -> good n -> find_rows (rows (db s)) n = Some d0 ->
  fs_openfile c s n o perm =
    if o_create o && o_excl o then (s, OExist, None)
    else if (r_tf d0 =? TypeDir) && (wr_acc o || o_append o || o_trunc o) then (s, OIsDir, None)
    else (s, OOk, Some {| hd_path := n; hd_link := []; hd_flags := fl_of o; hd_info := hdr_of_row d0;
                          hd_buf := if wr_acc o && o_trunc o && negb (r_tf d0 =? TypeDir) && negb (r_size d0 =? 0)
                                    then Some [] else None |}).
Proof.
  intros HL G En. unfold fs_openfile.
  destruct n as [|n2 n3] eqn:Enn; [exfalso; exact (good_nonempty [] G eq_refl)|]. rewrite <- Enn in *. clear Enn.
  rewrite (path_clean_good n G), (stat_false_exact hr s n HL G), En.
  destruct (find_rows_link hr (db s) n d0 HL En) as (Hk & Hrn & _).
  rewrite decode_fl, Hro. cbn [negb andb fl_of fl_write fl_append fl_trunc].
  change (h_tf (hdr_of_row d0)) with (r_tf d0). change (h_size (hdr_of_row d0)) with (r_size d0).
  change (h_name (hdr_of_row d0)) with (r_name d0). change (h_link (hdr_of_row d0)) with (r_link d0). rewrite Hrn, Hk.
  reflexivity.
Qed.

Lemma open_missing s n o perm : LI hr (db s) -> good n -> find_rows (rows (db s)) n = None -> o_create o = false ->
  fs_openfile c s n o perm = (s, ONotExist, None).
Proof.
  intros HL G En Ec. unfold fs_openfile.
  destruct n as [|n2 n3] eqn:Enn; [exfalso; exact (good_nonempty [] G eq_refl)|]. rewrite <- Enn in *. clear Enn.
  rewrite (path_clean_good n G), (stat_false_exact hr s n HL G), En, (stat_s_true hr s n HL), Ec, andb_false_r. reflexivity.
Qed.

(* ---------- the call *)
Definition old_of (t : tape) (v : option node) : content := match cof c t v with Some x => x | None => [] end.

Theorem write_file_exact s n o perm d force : Wf hr c s -> hbok s -> designates c s -> kinds_ok (abs s) -> good n ->
  match lookup (abs s) n with Some v => n_size v + clen d < 10 ^ 40 | None => clen d < 10 ^ 40 end ->
  exists s' cid,
    let sp := spec_write_file_q true c (abs s) n o perm d force (clk s) cid in
    step c s (CWriteFile n o perm d force) = (s', snd sp) /\ Wf hr c s' /\ hbok s' /\ ns_eq (abs s') (fst sp) /\
    (forall v', lookup (abs s') n = Some v' -> is_dir v' = false ->
       exists m, member_at (tp s') (off_of (c_rs c) (fst (n_cid v')) (snd (n_cid v'))) = Some m /\ is_content_record m (n_size v') /\
         expand (mdata m) = expand (if outc_eqb (snd sp) OExist then old_of (tp s) (lookup (abs s) n)
                                    else spec_data o d force (old_of (tp s) (lookup (abs s) n)))).
Proof.
  intros HW Hhb Hdes Hkinds G Hbound. pose proof (wf_inv hr c s HW) as HI. pose proof (iv_li hr c s HI) as HL.
  assert (Hrows : Forall rowok (rows (db s))) by apply HL.
  assert (Hnd : NoDup (map r_name (rows (db s)))) by apply HL.
  cbn zeta. cbn [step]. unfold spec_write_file_q.
  pose proof (lookup_abs hr c s n HI) as Ln. unfold look in Ln.
  destruct (find_rows (rows (db s)) n) as [d0|] eqn:En; cbn [option_map] in Ln; rewrite Ln in Hbound |- *.
  - (* ===== the name exists *)
    rewrite (open_existing s n o perm d0 HL G En).
    change (is_dir (node_of d0)) with (r_tf d0 =? TypeDir).
    destruct (o_create o && o_excl o).
    { exists s, (0, 0). cbn [fst snd]. split; [reflexivity|]. split; [exact HW|]. split; [exact Hhb|]. split; [apply ns_eq_refl|].
      intros v' Hv' Hnd'. rewrite Ln in Hv'. inversion Hv'; subst v'.
      assert (Hreg : tf_regular (n_tf (node_of d0)) = true).
      { destruct (Hkinds n _ Ln) as [K|K]; [unfold is_dir in Hnd'; rewrite K in Hnd'; discriminate|rewrite K; reflexivity]. }
      destruct (Hdes n _ Ln Hreg) as (m0 & Hm0 & Hrec0). exists m0. split; [exact Hm0|]. split; [exact Hrec0|].
      cbn [outc_eqb]. unfold old_of. rewrite (cof_member c (tp s) _ m0 Hreg Hm0). reflexivity. }
    destruct (r_tf d0 =? TypeDir) eqn:Edir.
    + (* a directory *)
      cbn [andb].
      assert (NODIR : forall s', lookup (abs s') n = Some (node_of d0) ->
                forall v', lookup (abs s') n = Some v' -> is_dir v' = false -> False).
      { intros s' H1 v' H2 H3. rewrite H1 in H2. inversion H2; subst v'. unfold is_dir in H3.
        change (n_tf (node_of d0)) with (r_tf d0) in H3. congruence. }
      destruct (wr_acc o) eqn:Hwr; cbn [orb andb].
      { exists s, (0, 0). cbn [fst snd]. split; [reflexivity|]. split; [exact HW|]. split; [exact Hhb|]. split; [apply ns_eq_refl|].
        intros v' H1 H2. exfalso. exact (NODIR s Ln v' H1 H2). }
      destruct (o_trunc o) eqn:Et; cbn [orb andb].
      { rewrite orb_true_r. exists s, (0, 0). cbn [fst snd]. split; [reflexivity|]. split; [exact HW|]. split; [exact Hhb|]. split; [apply ns_eq_refl|].
        intros v' H1 H2. exfalso. exact (NODIR s Ln v' H1 H2). }
      rewrite orb_false_r.
      destruct (o_append o) eqn:Ea.
      { exists s, (0, 0). cbn [fst snd]. split; [reflexivity|]. split; [exact HW|]. split; [exact Hhb|]. split; [apply ns_eq_refl|].
        intros v' H1 H2. exfalso. exact (NODIR s Ln v' H1 H2). }
      (* opened read-only: Close succeeds, a Write is refused *)
      unfold write_close.
      destruct (writes d force) eqn:Ew.
      * assert (Ewc : forall X Y : sys * outc, match d, force with [], false => X | _, _ => Y end = Y).
        { intros X Y. destruct d, force; try reflexivity. discriminate. }
        rewrite Ewc. unfold handle_write_all. cbn [hd_info]. change (h_tf (hdr_of_row d0)) with (r_tf d0). rewrite Edir.
        exists s, (0, 0). cbn [fst snd]. split; [reflexivity|]. split; [exact HW|]. split; [exact Hhb|]. split; [apply ns_eq_refl|].
        intros v' H1 H2. exfalso. exact (NODIR s Ln v' H1 H2).
      * assert (Ed : d = [] /\ force = false) by (destruct d, force; try discriminate; split; reflexivity).
        destruct Ed as (-> & ->). cbn [hd_buf handle_close].
        exists s, (0, 0). cbn [fst snd]. split; [reflexivity|]. split; [exact HW|]. split; [exact Hhb|]. split; [apply ns_eq_refl|].
        intros v' H1 H2. exfalso. exact (NODIR s Ln v' H1 H2).
    + (* a file *)
      cbn [andb negb]. rewrite andb_true_r.
      assert (Hnd' : is_dir (node_of d0) = false) by exact Edir.
      assert (Hreg : tf_regular (n_tf (node_of d0)) = true).
      { destruct (Hkinds n _ Ln) as [K|K]; [unfold is_dir in Hnd'; rewrite K in Hnd'; discriminate|rewrite K; reflexivity]. }
      destruct (Hdes n _ Ln Hreg) as (m0 & Hm0 & Hrec0).
      assert (Ecid : n_cid (node_of d0) = (r_rec d0, r_blk d0)) by (pose proof Hreg as Hreg'; change (tf_regular (r_tf d0) = true) in Hreg'; unfold node_of; cbn [n_cid]; rewrite Hreg'; reflexivity).
      rewrite Ecid in Hm0. cbn [fst snd] in Hm0.
      assert (Hlen0 : clen (mdata m0) = r_size d0) by apply Hrec0.
      assert (Eold : old_of (tp s) (Some (node_of d0)) = mdata m0).
      { unfold old_of. rewrite (cof_member c (tp s) (node_of d0) m0 Hreg); [reflexivity|]. rewrite Ecid. exact Hm0. }
      rewrite Eold.
      destruct (write_close_reg s n o d force d0 m0 HW Hhb G En Edir Hm0 Hlen0 Hbound) as (s' & E & HW' & Hhb' & Res).
      cbn zeta in E, Res. unfold open_buf in E. rewrite E.
      exists s', (end_rec c s, end_blk c s).
      pose proof (rw_node_outc true o d force (clk s) (end_rec c s, end_blk c s) (node_of d0)) as Eout.
      pose proof (rw_none_data o d force (clk s) (end_rec c s, end_blk c s) (node_of d0) (mdata m0) Hlen0) as Enone.
      pose proof (rw_node_some true o d force (clk s) (end_rec c s, end_blk c s) (node_of d0)) as Esome.
      destruct (rw_node true o d force (clk s) (end_rec c s, end_blk c s) (node_of d0)) as [[v'|] e]; cbn [fst snd] in *.
      * destruct Res as (Lk & m & Mm & Mr & Me).
        split; [reflexivity|]. split; [exact HW'|]. split; [exact Hhb'|]. split.
        -- intro x. rewrite Lk, lookup_ns_set. reflexivity.
        -- intros v'' Hv'' _. rewrite Lk, eqb_str_refl in Hv''. inversion Hv''; subst v''.
           exists m. rewrite Eout.
           destruct (Esome v' eq_refl) as (Ecid' & _).
           rewrite Ecid'. split; [exact Mm|]. split; [exact Mr|exact Me].
      * subst s'. split; [reflexivity|]. split; [exact HW|]. split; [exact Hhb|]. split; [apply ns_eq_refl|].
        intros v'' Hv'' _. rewrite Ln in Hv''. inversion Hv''; subst v''. exists m0. rewrite Ecid. cbn [fst snd].
        split; [exact Hm0|]. split; [exact Hrec0|]. rewrite Eout. symmetry. apply Enone. reflexivity.
  - (* ===== the name does not exist *)
    assert (Eold : old_of (tp s) None = []) by reflexivity. rewrite Eold. clear Eold.
    destruct (o_create o) eqn:Ec.
    2:{ rewrite (open_missing s n o perm HL G En Ec). exists s, (0, 0). cbn [fst snd].
        split; [reflexivity|]. split; [exact HW|]. split; [exact Hhb|]. split; [apply ns_eq_refl|].
        intros v' Hv'. rewrite Ln in Hv'. discriminate. }
    unfold fs_openfile.
    destruct n as [|n2 n3] eqn:Enn; [exfalso; exact (good_nonempty [] G eq_refl)|]. rewrite <- Enn in *. clear Enn.
    rewrite (path_clean_good n G), (stat_false_exact hr s n HL G), En, (stat_s_true hr s n HL), Hro, Ec. cbn [negb andb].
    rewrite (parent_check_exact hr s n HL (good_abs n G)).
    unfold spec_parent. rewrite (lookup_abs hr c s (path_dir n) HI). unfold look.
    destruct (find_rows (rows (db s)) (path_dir n)) as [pd|] eqn:Ep; cbn [option_map].
    2:{ exists s, (0, 0). cbn [fst snd]. split; [reflexivity|]. split; [exact HW|]. split; [exact Hhb|]. split; [apply ns_eq_refl|].
        intros v' Hv'. rewrite Ln in Hv'. discriminate. }
    change (is_dir (node_of pd)) with (r_tf pd =? TypeDir).
    destruct (r_tf pd =? TypeDir) eqn:Ed.
    2:{ exists s, (0, 0). cbn [fst snd]. split; [reflexivity|]. split; [exact HW|]. split; [exact Hhb|]. split; [apply ns_eq_refl|].
        intros v' Hv'. rewrite Ln in Hv'. discriminate. }
    destruct (mknode_pos hr c HP Hrs Hro s false n perm HI Hhb G) as (s1 & m1 & E & HI1 & Hhb1 & Eclk & Etp1 & Ehdr1 & Edata1 & Edb).
    { apply alive_cpre. apply (live_alive _ (path_dir n)). eapply find_live. exact Ep. }
    rewrite E. pose proof (iv_li hr c s1 HI1) as HL1.
    set (cid0 := (end_rec c s, end_blk c s)).
    set (nr := new_row c false n perm (clk s) (end_rec c s) (end_blk c s)) in *.
    assert (Fn1 : find_rows (rows (db s1)) n = Some nr).
    { rewrite Edb, with_rows_rows. rewrite find_rows_upsert; [|exact Hrows|exact Hnd|reflexivity|reflexivity].
      change (r_name nr) with n. rewrite eqb_str_refl. reflexivity. }
    rewrite (stat_false_exact hr s1 n HL1 G), Fn1.
    assert (HW1 : Wf hr c s1).
    { split; [exact HI1|]. rewrite Edb, with_rows_rows. apply sizes_upsert; [apply HW|]. reflexivity. }
    assert (Enr : node_of nr = new_node c false perm (clk s) cid0) by apply node_of_new_row.
    assert (Ea1 : forall x, lookup (abs s1) x = if eqb_str x n then Some (new_node c false perm (clk s) cid0) else lookup (abs s) x).
    { intro x. rewrite (lookup_abs hr c s1 x HI1), Edb, with_rows_rows.
      rewrite look_upsert; [|exact Hrows|exact Hnd|reflexivity|reflexivity].
      rewrite (lookup_abs hr c s x HI). change (r_name nr) with n. rewrite Enr. reflexivity. }
    assert (Hm1 : member_at (tp s1) (off_of (c_rs c) (end_rec c s) (end_blk c s)) = Some m1).
    { rewrite (end_off c Hrs), Etp1. apply member_at_new. apply HI. }
    assert (Hd1 : mdata m1 = []) by (unfold mdata; rewrite Edata1; reflexivity).
    assert (Hrec1 : is_content_record m1 0).
    { split; [rewrite Ehdr1; reflexivity|]. split; [rewrite Ehdr1; reflexivity|]. rewrite Hd1. reflexivity. }
    (* the handle *)
    rewrite decode_fl. cbn [negb andb fl_of fl_write fl_append fl_trunc].
    change (h_tf (hdr_of_row nr)) with TypeReg. change (h_size (hdr_of_row nr)) with 0.
    change (TypeReg =? TypeDir) with false. cbn [andb negb N.eqb]. rewrite andb_false_r.
    change (h_name (hdr_of_row nr)) with n. change (h_link (hdr_of_row nr)) with (@nil N).
    destruct (write_close_reg s1 n o d force nr m1 HW1 Hhb1 G Fn1 eq_refl Hm1) as (s' & E2 & HW' & Hhb' & Res).
    { rewrite Hd1. reflexivity. }
    { exact Hbound. }
    cbn zeta in E2, Res. unfold open_buf in E2. change (r_size nr) with 0 in E2. cbn [N.eqb negb] in E2. rewrite andb_false_r in E2.
    change (@None (list piece)) with (@None content). rewrite E2. clear E2. rewrite Eclk, Enr, Hd1 in *.
    set (cid1 := (end_rec c s1, end_blk c s1)) in *.
    pose proof (rw_node_outc true o d force (clk s) cid1 (new_node c false perm (clk s) cid0)) as Eout.
    pose proof (rw_none_data o d force (clk s) cid1 (new_node c false perm (clk s) cid0) [] eq_refl) as Enone.
    pose proof (rw_node_some true o d force (clk s) cid1 (new_node c false perm (clk s) cid0)) as Esome.
    pose proof (rw_node_none_cid true o d force (clk s) cid1 cid0 (new_node c false perm (clk s) cid0)) as Ecid.
    destruct (fst (rw_node true o d force (clk s) cid1 (new_node c false perm (clk s) cid0))) as [v'|] eqn:Ef.
    + (* content was flushed *)
      exists s', cid1. rewrite (rw_node_cid true c perm o d force (clk s) cid1 (clk s) cid1 cid0).
      destruct (rw_node true o d force (clk s) cid1 (new_node c false perm (clk s) cid0)) as [r1 e]. cbn [fst snd] in *. subst r1. cbn [fst snd].
      destruct Res as (Lk & m & Mm & Mr & Me).
      split; [reflexivity|]. split; [exact HW'|]. split; [exact Hhb'|]. split.
      * intro x. rewrite Lk, lookup_ns_set, Ea1. destruct (eqb_str x n); reflexivity.
      * intros v'' Hv'' _. rewrite Lk, eqb_str_refl in Hv''. inversion Hv''; subst v''.
        destruct (Esome v' eq_refl) as (Ecid' & _). rewrite Ecid'. exists m. rewrite Eout.
        split; [exact Mm|]. split; [exact Mr|exact Me].
    + (* only the new entry *)
      exists s', cid0. rewrite (Ecid eq_refl).
      destruct (rw_node true o d force (clk s) cid1 (new_node c false perm (clk s) cid0)) as [r1 e]. cbn [fst snd] in *. subst r1 s'. cbn [fst snd].
      split; [reflexivity|]. split; [exact HW1|]. split; [exact Hhb1|]. split.
      * intro x. rewrite lookup_ns_set. apply Ea1.
      * intros v'' Hv'' _. rewrite Ea1, eqb_str_refl in Hv''. inversion Hv''; subst v''. cbn [new_node n_cid n_size cid0 fst snd].
        exists m1. split; [exact Hm1|]. split; [exact Hrec1|]. rewrite Eout, Hd1. symmetry. apply Enone. reflexivity.
Qed.
End Core.
Print Assumptions write_file_exact.
