(* T17 / Test2: the coexistence statements evaluated on a concrete archive (vm_compute, exact equality), including
   the case the theorems do not cover (Create with content: evidence only). *)
From Coq Require Import String List NArith ZArith Bool.
Import ListNotations.
From STFS Require Import Str Db Tape Index Ops Fs Diff T17Tree T17Forest T17Rebuild T17Insert T17Mknode T17Coexist T17Test.
Open Scope N_scope.
Open Scope string_scope.

Definition ev1 : env := {| ev_hb := [3]; ev_enc := []; ev_now := 77%Z |}.
Definition st0 st := with_env (opened (tcf 20) (archive_of st tt1)) ev1.

Definition coexists st (k : call) (q : list str) (n : node) (base : str) : Prop :=
  let '(s1, o) := step (tcf 20) (st0 st) k in
  o = OOk /\ view_at (tcf 20) s1 base = expected_entries st (tinsert q n tt1)
  /\ snd (rebuild (tcf 20) (tp s1)) = Ok tt /\ rows (fst (rebuild (tcf 20) (tp s1))) = rows (db s1).

Example T17_test_mkdir :
  coexists DotSlash (CMkdir (s "/d/sub/new") 493) [s "d"; s "sub"] (new_dir_node (tcf 20) (s "new") (st0 DotSlash) true 493) (s "/")
  /\ coexists Slash (CMkdir (s "./d/sub/new") 493) [s "d"; s "sub"] (new_dir_node (tcf 20) (s "new") (st0 Slash) true 493) (s "/")
  /\ coexists (Named (s "top")) (CMkdir (s "top/d/sub/new") 493) [s "d"; s "sub"] (new_dir_node (tcf 20) (s "new") (st0 (Named (s "top"))) true 493) (s "top")
  /\ coexists DotSlash (CMkdir (s "new") 493) [] (new_dir_node (tcf 20) (s "new") (st0 DotSlash) true 493) (s "/").
Proof. vm_compute. repeat split; reflexivity. Qed.

Example T17_test_create_empty :
  coexists DotSlash (CCreateFile (s "d/e/newf") []) [s "d"; s "e"] (new_dir_node (tcf 20) (s "newf") (st0 DotSlash) false 438) (s "/")
  /\ coexists (Named (s "top")) (CCreateFile (s "top/newf") []) [] (new_dir_node (tcf 20) (s "newf") (st0 (Named (s "top"))) false 438) (s "top").
Proof. vm_compute. repeat split; reflexivity. Qed.

(* not covered by the theorems: Create with content (an update record with PAX fields follows the mknode record) *)
Example T17_test_create_content :
  let '(s1, o) := step (tcf 20) (st0 DotSlash) (CCreateFile (s "/d/newf") [(9, 0, 100)]) in
  o = OOk
  /\ map (fun e => (e_path e, e_size e, e_data e)) (filter (fun e => eqb_str (e_path e) (s "/d/newf")) (view (tcf 20) s1))
     = [(s "/d/newf", 100, Some [(9, 0, 100)])]
  /\ length (view (tcf 20) s1) = S (length (expected_entries DotSlash tt1))
  /\ eqb_list eqb_row (rows (fst (rebuild (tcf 20) (tp s1)))) (rows (db s1)) = true.
Proof. vm_compute. repeat split; reflexivity. Qed.
