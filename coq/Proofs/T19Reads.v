(* T19 / Reads: what the two instances SHOW.  inventory.Stat / List at the level of whole states, Restore's lookup
   (read_path), the walk and [view]: the reader shows exactly the tree the writer shows, contents included. *)
From Coq Require Import List NArith ZArith Bool Lia.
From Coq Require Import ZifyN ZifyBool.
Import ListNotations.
From STFS Require Import Str Db Tape Index Ops Fs Diff Norm StrLemmas C01Str C01Db C01Inv C01Sim C01Ops C01Ops2 C01Reads
  T13Path T13ListStr T17Str T19Rel T19Base T19Db.
Open Scope N_scope.

Lemma flat_map_F2 {A B C} (P : A -> B -> Prop) (f : A -> list C) (g : B -> list C) la lr :
  Forall2 P la lr -> (forall a r, In a la -> P a r -> f a = g r) -> flat_map f la = flat_map g lr.
Proof.
  induction 1 as [|a r la lr Har _ IH]; intro H; cbn [flat_map]; [reflexivity|].
  rewrite (H a r (or_introl eq_refl) Har). f_equal. apply IH. intros x y Hx. apply H. right. exact Hx.
Qed.

(* the root row is found by name *)
Lemma find_root pa pr : PR pa pr -> exists d, find_rows (rows pa) [slash] = Some d.
Proof.
  intro H. apply find_rows_live. destruct (PR_head _ _ H) as (a0 & ta & _ & _ & E & _ & _ & N & D & _).
  unfold live_name. rewrite E. cbn [existsb]. unfold live. rewrite D, N. reflexivity.
Qed.

Lemma get_header_nil_wr pa : root pa = [slash] -> get_header pa [] = get_header pa [slash].
Proof. intro H. unfold get_header. rewrite !(sanitize_root_eq pa _ H). reflexivity. Qed.

(* ---------- Restore's lookup and fetch *)
Section Read.
Variable c : cfg.

Lemma read_path_sim sa sr g nr : PR (db sa) (db sr) -> tape_rel (tp sa) (tp sr) -> good g -> nrel g nr ->
  snd (read_path c sr nr) = snd (read_path c sa g).
Proof.
  intros H Ht G Hn. unfold read_path.
  assert (K : exists pr' rr, (match get_header (db sa) (trim_suffix [slash] g) with
                              | (p, NoRows) => get_header p (trim_suffix [slash] g ++ [slash]) | x => x end)
                             = (db sa, of_find (find_rows (rows (db sa)) g)) /\
              (match get_header (db sr) (trim_suffix [slash] nr) with
               | (p, NoRows) => get_header p (trim_suffix [slash] nr ++ [slash]) | x => x end) = (pr', rr) /\
              resrel rowrel (of_find (find_rows (rows (db sa)) g)) rr).
  { destruct (str_eq_dec g [slash]) as [->|Hg].
    - assert (En : trim_suffix [slash] nr = []) by (destruct Hn as [-> | ->]; reflexivity). rewrite En, root_trim_slash.
      rewrite (get_header_nil_wr _ (pr_root_a _ _ (PR_rel _ _ H))).
      destruct (get_header_sim (db sa) (db sr) [slash] [] H good_root (nrel_norm _)) as (pr1 & rr & E1 & E2 & S & HR). rewrite E1, E2.
      destruct (find_root _ _ H) as (d & Ed). rewrite Ed in *. cbn [of_find] in *. inversion HR; subst.
      eexists _, _. split; [reflexivity|]. split; [reflexivity|]. constructor. assumption.
    - rewrite (good_trim_slash g G Hg).
      assert (En : trim_suffix [slash] nr = nr).
      { destruct Hn as [-> | ->]; [apply good_trim_slash; assumption|]. destruct (good_inv g G) as (cs & Hcs & ->). unfold pth.
        rewrite norm_name_good. apply join_trim_slash. exact Hcs. }
      rewrite En.
      destruct (get_header_sim (db sa) (db sr) g nr H G Hn) as (pr1 & rr & E1 & E2 & S & HR). rewrite E1, E2.
      destruct (find_rows (rows (db sa)) g) as [d|] eqn:Ed; cbn [of_find] in *; inversion HR; subst.
      + eexists _, _. split; [reflexivity|]. split; [reflexivity|]. constructor. assumption.
      + pose proof (get_header_slash_wr _ _ g H G Ed) as W. rewrite (good_trim_slash g G Hg) in W.
        destruct (get_header_slash_rd (db sa) pr1 g nr (PR_same _ _ _ H S) G Hn Ed) as (pr2 & E3 & _). rewrite En in E3.
        exists pr2, NoRows. split; [exact W|]. split; [exact E3|constructor]. }
  destruct K as (pr' & rr & -> & -> & HR).
  destruct (find_rows (rows (db sa)) g) as [d|]; cbn [of_find] in *; inversion HR as [? d' Hd| | |]; subst; [|reflexivity].
  rewrite (rr_rec _ _ Hd), (rr_blk _ _ Hd), (fetch_at_rel c _ _ (r_rec d) (r_blk d) Ht).
  destruct (fetch_at c (tp sa) (r_rec d) (r_blk d)); reflexivity.
Qed.

Lemma entry_of_sim sa sr path ha hr : PR (db sa) (db sr) -> tape_rel (tp sa) (tp sr) -> good (h_name ha) -> hrel ha hr ->
  entry_of c sr path hr = entry_of c sa path ha.
Proof.
  intros H Ht G Hh. unfold entry_of.
  rewrite (hr_tf _ _ Hh), (hr_size _ _ Hh), (hr_mode _ _ Hh), (hr_uid _ _ Hh), (hr_gid _ _ Hh), (hr_mtime _ _ Hh), (hr_link _ _ Hh).
  f_equal. destruct (tf_regular (h_tf ha)); [|reflexivity].
  pose proof (read_path_sim sa sr (h_name ha) (h_name hr) H Ht G (hr_name _ _ Hh)) as K.
  destruct (read_path c sr (h_name hr)) as [x1 y1]. destruct (read_path c sa (h_name ha)) as [x2 y2]. cbn [snd] in K. subst y1. reflexivity.
Qed.

Lemma child_base a r : rowrel a r -> good (r_name a) -> r_name a <> [slash] -> path_base (r_name r) = path_base (r_name a).
Proof.
  intros Har G Hn. destruct (good_split _ G Hn) as (cs & x & Hcs & Hx & E). rewrite (rr_name _ _ Har), E.
  unfold pth at 1. rewrite norm_name_good. rewrite path_base_join, path_base_pth by assumption. reflexivity.
Qed.

Lemma childp_facts g a : childp g a = true -> live a = true /\ r_name a <> [slash].
Proof.
  unfold childp. intro H. apply andb_true_iff in H as [H _]. apply andb_true_iff in H as [H1 H2]. split; [exact H1|].
  apply negb_true_iff in H2. apply eqb_str_neq in H2. exact H2.
Qed.

Lemma walk_sim sa sr : PR (db sa) (db sr) -> tape_rel (tp sa) (tp sr) ->
  forall fuel dir, good dir -> walk fuel c sr dir = walk fuel c sa dir.
Proof.
  intros H Ht. induction fuel as [|f IH]; intros dir G; [reflexivity|]. cbn [walk].
  destruct (inv_list_sim (db sa) (db sr) dir dir H G (nrel_refl _)) as (pr' & lr & Ea & Er & _ & Hrows). rewrite Ea, Er.
  pose proof (PR_rowok _ _ H) as F. rewrite Forall_forall in F.
  symmetry. apply (flat_map_F2 hrel); [apply (F2_map rowrel hrel); [exact Hrows|intros; apply hrel_of_rowrel; assumption]|].
  intros ha hr Hin Hh. apply in_map_iff in Hin as (a & <- & Ha). apply filter_In in Ha as [Ha Hc].
  destruct (childp_facts dir a Hc) as (_ & Hnr). pose proof (proj1 (F a Ha)) as Ga.
  assert (Eb : path_base (h_name hr) = path_base (r_name a)).
  { change (r_name a) with (h_name (hdr_of_row a)) in *.
    destruct (good_split _ Ga Hnr) as (cs & x & Hcs & Hx & E). rewrite E. rewrite path_base_pth by assumption.
    destruct (hr_name _ _ Hh) as [K|K]; rewrite K, E; [apply path_base_pth; assumption|].
    unfold pth. rewrite norm_name_good. apply path_base_join; assumption. }
  cbn [h_name hdr_of_row] in *. rewrite Eb. rewrite (hr_tf _ _ Hh).
  rewrite (entry_of_sim sa sr _ (hdr_of_row a) hr H Ht Ga Hh). f_equal.
  cbn [h_tf hdr_of_row]. destruct (r_tf a =? TypeDir); [|reflexivity]. symmetry. apply IH. apply path_join2_good. exact G.
Qed.

(* inventory.Stat at the level of whole states *)
Lemma stat_false_sim sa sr g nr : PR (db sa) (db sr) -> good g -> nrel g nr ->
  exists pr' rr, stat_s sa g false = (sa, match find_rows (rows (db sa)) g with Some d => Ok (hdr_of_row d) | None => NoRows end) /\
    stat_s sr nr false = (set_db sr pr', rr) /\ same (db sr) pr' /\
    resrel hrel (match find_rows (rows (db sa)) g with Some d => Ok (hdr_of_row d) | None => NoRows end) rr.
Proof.
  intros H G Hn. unfold stat_s. destruct (inv_stat_false_sim _ _ g nr H G Hn) as (pr' & rr & Ea & Er & S & HR).
  rewrite Ea, Er, set_db_same. exists pr', rr. repeat split; try apply S. exact HR.
Qed.

Lemma stat_true_sim sa sr g nr : PR (db sa) (db sr) -> good g -> g <> [slash] -> nrel g nr ->
  exists pr', stat_s sa g true = (sa, NoRows) /\ stat_s sr nr true = (set_db sr pr', NoRows) /\ same (db sr) pr'.
Proof.
  intros H G Hg Hn. destruct (inv_stat_true_rd _ _ g nr H G Hg Hn) as (pr' & E & S). exists pr'.
  split; [apply (stat_s_true true); exact (PR_li _ _ H)|]. split; [unfold stat_s; rewrite E; reflexivity|exact S].
Qed.

(* ---------- the visible tree *)
Theorem view_sim sa sr : PR (db sa) (db sr) -> tape_rel (tp sa) (tp sr) -> view c sr = view c sa.
Proof.
  intros H Ht. unfold view.
  destruct (stat_false_sim sa sr [slash] [slash] H good_root (nrel_refl _)) as (pr' & rr & Ea & Er & _ & HR). rewrite Ea, Er.
  destruct (find_root _ _ H) as (d & Ed). rewrite Ed in *. inversion HR as [? hr Hh| | |]; subst.
  destruct (find_rows_row _ _ _ d H Ed) as (_ & _ & Nm & _ & Hok).
  rewrite (entry_of_sim sa sr _ (hdr_of_row d) hr H Ht (proj1 Hok) Hh). f_equal.
  rewrite (hr_tf _ _ Hh). destruct (h_tf (hdr_of_row d) =? TypeDir); [|reflexivity]. apply walk_sim; [exact H|exact Ht|exact good_root].
Qed.
End Read.
