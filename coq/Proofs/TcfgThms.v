(* Tcfg / the history theorems C01, C07 (T07), C13 (T13) WITHOUT the plain-configuration hypothesis: arbitrary codec
   suffixes [c_csuf c], [c_esuf c] (any byte strings), arbitrary encoded sizes.  NO hypothesis replaces
   "plain configuration": writer and indexer agree for every encoded size (Model/Ops.v [encode] adds the suffix iff
   the encoded size is positive, Model/Index.v [indexed_name] strips it iff the tape size is positive).
   Proof: [final_Pl] (the run under c is the run under [plain_of c] on the image tape) + the plain theorems. *)
From Coq Require Import List NArith ZArith Bool Lia.
From Coq Require Import ZifyN ZifyBool.
Import ListNotations.
From STFS Require Import Str Db Tape Index Ops Fs Diff Prefix Replay Norm TapeLemmas
  C01Str C01Sim C01Fs2 C01Rows T07Replay T13Def T13View T13Tree
  TcfgSim TcfgOps TcfgFs TcfgHist.
Open Scope N_scope.

Lemma final_hist_Pl c e r :
  final (plain_of c) init_sys ((CInitialize [slash], e) :: r) = Pl c (final c init_sys ((CInitialize [slash], e) :: r)).
Proof. apply final_init_Pl. Qed.

(* ---------- C01 *)
Theorem C01_rows_norm_any_config : forall c e r,
  0 < c_rs c -> c_readonly c = false ->
  forallb hb_ok ((CInitialize [slash], e) :: r) = true ->
  safe true r = true ->
  forallb (fun ke => rename_ok (fst ke)) r = true ->
  forallb (fun ke => fs_call (fst ke)) r = true ->
  let s := final c init_sys ((CInitialize [slash], e) :: r) in
  exists p, rebuild c (tp s) = (p, Ok tt) /\ rows p = map norm_row (rows (db s)).
Proof.
  intros c e r Hrs Hro Hhb Hsafe Hren Hfs. cbn zeta.
  pose proof (C01_rows_norm (plain_of c) e r Hrs Hro eq_refl eq_refl Hhb Hsafe Hren Hfs) as K. cbn zeta in K.
  rewrite (final_hist_Pl c e r) in K. cbn [tp db Pl] in K. rewrite rebuild_eff in K. exact K.
Qed.

Corollary C01_rows_norm_root_kept_any_config : forall c e r,
  0 < c_rs c -> c_readonly c = false ->
  forallb hb_ok ((CInitialize [slash], e) :: r) = true ->
  forallb (fun ke => call_ok (fst ke)) r = true ->
  forallb (fun ke => fs_call (fst ke)) r = true ->
  let s := final c init_sys ((CInitialize [slash], e) :: r) in
  exists p, rebuild c (tp s) = (p, Ok tt) /\ rows p = map norm_row (rows (db s)).
Proof.
  intros c e r Hrs Hro Hhb Hok Hfs. destruct (call_ok_safe r Hok) as (A & B).
  apply C01_rows_norm_any_config; assumption.
Qed.

(* the old statement is the instance "plain configuration" *)
Corollary C01_rows_norm_from_any_config : forall c e r,
  0 < c_rs c -> c_readonly c = false -> c_csuf c = [] -> c_esuf c = [] ->
  forallb hb_ok ((CInitialize [slash], e) :: r) = true -> safe true r = true ->
  forallb (fun ke => rename_ok (fst ke)) r = true -> forallb (fun ke => fs_call (fst ke)) r = true ->
  let s := final c init_sys ((CInitialize [slash], e) :: r) in
  exists p, rebuild c (tp s) = (p, Ok tt) /\ rows p = map norm_row (rows (db s)).
Proof.
  intros c e r Hrs Hro Hc He. apply C01_rows_norm_any_config; assumption.
Qed.

(* ---------- C07 / T07 *)
Section T07.
Variables (c : cfg) (e : env) (r : list (call * env)).
Hypothesis Hrs : 0 < c_rs c.
Hypothesis Hro : c_readonly c = false.
Hypothesis Hhb : forallb hb_ok ((CInitialize [slash], e) :: r) = true.
Hypothesis Hok : forallb (fun ke => call_ok (fst ke)) r = true.
Hypothesis Hfs : forallb (fun ke => fs_call (fst ke)) r = true.

Let t := tp (final c init_sys ((CInitialize [slash], e) :: r)).

Lemma tape_image : tp (final (plain_of c) init_sys ((CInitialize [slash], e) :: r)) = efft c t.
Proof. rewrite (final_hist_Pl c e r). reflexivity. Qed.

Theorem T07_rebuild_ok_any_config_ : res_ok (snd (rebuild c t)) = true.
Proof.
  pose proof (T07_rebuild_ok (plain_of c) e r Hrs Hro eq_refl eq_refl Hhb Hok Hfs) as K.
  rewrite tape_image, rebuild_eff in K. exact K.
Qed.

Theorem T07_replay_converges_any_config_ j :
  let '(p, rr) := replay_into c t (prefix_index c t j) in
  res_ok rr = true /\ eqb_list eqb_row (visible p) (visible (fst (rebuild c t))) = true.
Proof.
  pose proof (T07_replay_converges (plain_of c) e r j Hrs Hro eq_refl eq_refl Hhb Hok Hfs) as K. cbn zeta in K.
  rewrite tape_image, prefix_index_eff, replay_into_eff, rebuild_eff in K. exact K.
Qed.

Theorem T07_replay_idempotent_any_config_ j :
  let p1 := fst (replay_into c t (prefix_index c t j)) in
  let '(p2, r2) := replay_into c t p1 in
  res_ok r2 = true /\ eqb_list eqb_row (visible p2) (visible p1) = true.
Proof.
  pose proof (T07_replay_idempotent (plain_of c) e r j Hrs Hro eq_refl eq_refl Hhb Hok Hfs) as K. cbn zeta in K.
  rewrite tape_image, prefix_index_eff, !replay_into_eff in K. exact K.
Qed.
End T07.

Theorem T07_rebuild_ok_any_config : forall c e r,
  0 < c_rs c -> c_readonly c = false ->
  forallb hb_ok ((CInitialize [slash], e) :: r) = true ->
  forallb (fun ke => call_ok (fst ke)) r = true ->
  forallb (fun ke => fs_call (fst ke)) r = true ->
  res_ok (snd (rebuild c (tp (final c init_sys ((CInitialize [slash], e) :: r))))) = true.
Proof. intros. apply T07_rebuild_ok_any_config_; assumption. Qed.

Theorem T07_replay_converges_any_config : forall c e r j,
  0 < c_rs c -> c_readonly c = false ->
  forallb hb_ok ((CInitialize [slash], e) :: r) = true ->
  forallb (fun ke => call_ok (fst ke)) r = true ->
  forallb (fun ke => fs_call (fst ke)) r = true ->
  let t := tp (final c init_sys ((CInitialize [slash], e) :: r)) in
  let '(p, rr) := replay_into c t (prefix_index c t j) in
  res_ok rr = true /\ eqb_list eqb_row (visible p) (visible (fst (rebuild c t))) = true.
Proof. intros. apply T07_replay_converges_any_config_; assumption. Qed.

Theorem T07_replay_idempotent_any_config : forall c e r j,
  0 < c_rs c -> c_readonly c = false ->
  forallb hb_ok ((CInitialize [slash], e) :: r) = true ->
  forallb (fun ke => call_ok (fst ke)) r = true ->
  forallb (fun ke => fs_call (fst ke)) r = true ->
  let t := tp (final c init_sys ((CInitialize [slash], e) :: r)) in
  let p1 := fst (replay_into c t (prefix_index c t j)) in
  let '(p2, r2) := replay_into c t p1 in
  res_ok r2 = true /\ eqb_list eqb_row (visible p2) (visible p1) = true.
Proof. intros. apply T07_replay_idempotent_any_config_; assumption. Qed.

(* the statement of Props/C07.v ([C07_full_statement]) for these histories, any codec suffixes *)
Theorem T07_C07_statement_any_config : forall c h j e r,
  h = (CInitialize [slash], e) :: r ->
  c_readonly c = false ->
  forallb hb_ok h = true ->
  forallb (fun ke => call_ok (fst ke)) r = true ->
  forallb (fun ke => fs_call (fst ke)) r = true ->
  0 < c_rs c ->
  let t := tp (final c init_sys h) in
  (j <= length (all_members t))%nat ->
  res_ok (snd (rebuild c t)) = true ->
  let '(p, r) := replay_into c t (prefix_index c t j) in
  res_ok r = true /\ eqb_list eqb_row (visible p) (visible (fst (rebuild c t))) = true.
Proof.
  intros c h j e r -> Hro Hhb Hok Hfs Hrs t _ _. apply T07_replay_converges_any_config; assumption.
Qed.

(* ---------- C13 / T13 *)
Section T13.
Variables (c : cfg) (e : env) (r : list (call * env)).
Hypothesis Hrs : 0 < c_rs c.
Hypothesis Hro : c_readonly c = false.
Hypothesis Hhb : forallb hb_ok ((CInitialize [slash], e) :: r) = true.
Hypothesis Hok : forallb (fun ke => call_ok (fst ke)) r = true.
Hypothesis Hfs : forallb (fun ke => fs_call (fst ke)) r = true.

Let s := final c init_sys ((CInitialize [slash], e) :: r).

Lemma db_image : db (final (plain_of c) init_sys ((CInitialize [slash], e) :: r)) = db s.
Proof. rewrite (final_hist_Pl c e r). reflexivity. Qed.

Theorem T13_wf_any_config_ : wf_tree (db s).
Proof. rewrite <- db_image. apply T13_wf_all_histories; try assumption; reflexivity. Qed.

Theorem T13_plain_any_config_ : idx_plain (db s).
Proof. rewrite <- db_image. apply T13_plain_all_histories; try assumption; reflexivity. Qed.

Theorem T13_root_live_any_config_ : exists q, In q (lrows (db s)) /\ r_name q = [slash].
Proof. rewrite <- db_image. apply T13_root_live_all_histories; try assumption; reflexivity. Qed.

Theorem T13_listing_any_config_ :
  let p := db s in
  forall d, good d ->
    exists l, snd (get_direct_children p d None) = Ok l /\
      l = filter (fun x => live x && negb (eqb_str (r_name x) [slash]) && eqb_str (path_dir (r_name x)) d) (rows p) /\
      NoDup (map r_name l) /\
      (forall x, In x l <-> (In x (lrows p) /\ r_name x <> [slash] /\ path_dir (r_name x) = d)) /\
      (forall k lk, snd (get_direct_children p d (Some k)) = Ok lk -> exists j, (j <= k)%nat /\ lk = firstn j l).
Proof.
  pose proof (T13_listing_all_histories (plain_of c) e r Hrs Hro eq_refl eq_refl Hhb Hok Hfs) as K. cbn zeta in K.
  rewrite db_image in K. exact K.
Qed.

Theorem T13_view_any_config_ :
  exists l, view c s = map (ent c s) l /\ NoDup l /\
    forall x, In x l <-> (In x (lrows (db s)) /\ slash_count (r_name x) <= 16).
Proof. apply T13_view_exact; [apply T13_wf_any_config_|apply T13_plain_any_config_]. Qed.
End T13.

Theorem T13_wf_all_histories_any_config : forall c e r, 0 < c_rs c -> c_readonly c = false ->
  forallb hb_ok ((CInitialize [slash], e) :: r) = true ->
  forallb (fun ke => call_ok (fst ke)) r = true -> forallb (fun ke => fs_call (fst ke)) r = true ->
  wf_tree (db (final c init_sys ((CInitialize [slash], e) :: r))).
Proof. intros. apply T13_wf_any_config_; assumption. Qed.

Theorem T13_plain_all_histories_any_config : forall c e r, 0 < c_rs c -> c_readonly c = false ->
  forallb hb_ok ((CInitialize [slash], e) :: r) = true ->
  forallb (fun ke => call_ok (fst ke)) r = true -> forallb (fun ke => fs_call (fst ke)) r = true ->
  idx_plain (db (final c init_sys ((CInitialize [slash], e) :: r))).
Proof. intros. apply T13_plain_any_config_; assumption. Qed.

Theorem T13_root_live_all_histories_any_config : forall c e r, 0 < c_rs c -> c_readonly c = false ->
  forallb hb_ok ((CInitialize [slash], e) :: r) = true ->
  forallb (fun ke => call_ok (fst ke)) r = true -> forallb (fun ke => fs_call (fst ke)) r = true ->
  exists q, In q (lrows (db (final c init_sys ((CInitialize [slash], e) :: r)))) /\ r_name q = [slash].
Proof. intros. apply T13_root_live_any_config_; assumption. Qed.

Theorem T13_listing_all_histories_any_config : forall c e r, 0 < c_rs c -> c_readonly c = false ->
  forallb hb_ok ((CInitialize [slash], e) :: r) = true ->
  forallb (fun ke => call_ok (fst ke)) r = true -> forallb (fun ke => fs_call (fst ke)) r = true ->
  let p := db (final c init_sys ((CInitialize [slash], e) :: r)) in
  forall d, good d ->
    exists l, snd (get_direct_children p d None) = Ok l /\
      l = filter (fun x => live x && negb (eqb_str (r_name x) [slash]) && eqb_str (path_dir (r_name x)) d) (rows p) /\
      NoDup (map r_name l) /\
      (forall x, In x l <-> (In x (lrows p) /\ r_name x <> [slash] /\ path_dir (r_name x) = d)) /\
      (forall k lk, snd (get_direct_children p d (Some k)) = Ok lk -> exists j, (j <= k)%nat /\ lk = firstn j l).
Proof. intros c e r H1 H2 H3 H4 H5. exact (T13_listing_any_config_ c e r H1 H2 H3 H4 H5). Qed.

Theorem T13_view_all_histories_any_config : forall c e r, 0 < c_rs c -> c_readonly c = false ->
  forallb hb_ok ((CInitialize [slash], e) :: r) = true ->
  forallb (fun ke => call_ok (fst ke)) r = true -> forallb (fun ke => fs_call (fst ke)) r = true ->
  let s := final c init_sys ((CInitialize [slash], e) :: r) in
  exists l, view c s = map (ent c s) l /\ NoDup l /\
    forall x, In x l <-> (In x (lrows (db s)) /\ slash_count (r_name x) <= 16).
Proof. intros c e r H1 H2 H3 H4 H5. exact (T13_view_any_config_ c e r H1 H2 H3 H4 H5). Qed.

Print Assumptions C01_rows_norm_any_config.
Print Assumptions T07_replay_converges_any_config.
Print Assumptions T07_replay_idempotent_any_config.
Print Assumptions T13_wf_all_histories_any_config.
Print Assumptions T13_listing_all_histories_any_config.
Print Assumptions T13_view_all_histories_any_config.
