(* T05 / refused calls append nothing (C05).  For ANY state and ANY configuration:

   (1) [T05_refused_precondition_appends_nothing]: the outcomes by which the precondition checks refuse a call --
       OPerm (read-only), OInvalid (empty name, the root, a directory into itself), OExist (existing target, type
       mismatch), OIsFile (parent is not a directory), OIsDir, ONotEmpty -- are never produced by the write path:
       a call that returns one of them has appended nothing.  Holds for every call except MkdirAll, CreateFile and
       WriteFile, which check preconditions BETWEEN writes (compiled examples in T05Counter.v).
   (2) [T05_failed_after_write_is_replay_failure]: the remaining refusals answer ONotExist (missing parent,
       missing source), which the replay of a written archive can answer too.  For the calls that write at most
       once (Mkdir, Remove, RemoveAll, Chmod, Chown, Chtimes, Archive, Update, Delete, Move): either the tape is
       unchanged, or the call IS one append-and-replay of a non-empty archive on a state with the same tape: then
       exactly one archive was appended and the outcome is the replay's own result.
   (3) the precondition checks by name ([T05_mkdir_refusals], ...): each check that fails leaves the tape alone.
   (4) read-only instances: besides the mutators of Props/C02.v C02_readonly_refuses, WriteFile, Archive and
       Initialize append nothing. *)
From Coq Require Import List NArith ZArith Bool Lia.
Import ListNotations.
From STFS Require Import Str Db Tape Index Ops Fs Diff TapeLemmas Append T05Shape.
Open Scope N_scope.

Definition refusal (o : outc) : bool :=
  match o with OExist | OPerm | OInvalid | OIsDir | OIsFile | ONotEmpty => true | _ => false end.

Lemma outc_of_res_not_refusal {A} (r : res A) : refusal (outc_of_res r) = false.
Proof. destruct r; reflexivity. Qed.

(* ---------- (1) *)

Definition NR (s : sys) (res : sys * outc) : Prop := refusal (snd res) = true -> tp (fst res) = tp s.

Lemma NR_same s s1 o : tp s1 = tp s -> NR s (s1, o).
Proof. intros E _. exact E. Qed.

Lemma NR_replayed s res : refusal (snd res) = false -> NR s res.
Proof. intros E H. congruence. Qed.

Lemma NR_tp s s1 res : tp s1 = tp s -> NR s1 res -> NR s res.
Proof. intros E H K. rewrite (H K). exact E. Qed.

Lemma append_and_index_nr c s last ms hs o i : refusal (snd (append_and_index c s last ms hs o i)) = false.
Proof. unfold append_and_index. destruct (index_tape _ _ _ _ _ _ _ _). cbn [snd]. apply outc_of_res_not_refusal. Qed.

Lemma archive_op_nr c s fs o i : refusal (snd (archive_op c s fs o i)) = false.
Proof. unfold archive_op. destruct (archive_members c s fs) as [[ms hs] s1]. apply append_and_index_nr. Qed.

Lemma update_op_nr c s fs r k : refusal (snd (update_op c s fs r k)) = false.
Proof. unfold update_op. destruct (update_members c s fs r k) as [[ms hs] s1]. apply append_and_index_nr. Qed.

Lemma plain_tail_nr c s hs last o i :
  refusal (snd (let '(ms, s1) := plain_members s hs in append_and_index c s1 last ms hs o i)) = false.
Proof. destruct (plain_members s hs) as [ms s1]. apply append_and_index_nr. Qed.

Lemma delete_op_nr c s n : refusal (snd (delete_op c s n)) = false.
Proof.
  unfold delete_op. destruct (lookup_entry (db s) n) as [p [r| | |e]]; try reflexivity.
  destruct ((r_tf r =? TypeDir) && eqb_str (r_link r) []).
  - destruct (get_children p n) as [p' kids]. apply plain_tail_nr.
  - apply plain_tail_nr.
Qed.

Lemma move_op_nr c s a b : refusal (snd (move_op c s a b)) = false.
Proof.
  unfold move_op. destruct (eqb_str a b); [reflexivity|].
  destruct (lookup_entry (db s) a) as [p [r| | |e]]; try reflexivity.
  destruct (eqb_str a (if is_abs b && negb (is_abs (r_name r)) then trim_prefix [slash] b else b)); [reflexivity|].
  destruct (r_tf r =? TypeDir).
  - destruct (get_children p a) as [p' kids]. apply plain_tail_nr.
  - apply plain_tail_nr.
Qed.

Lemma mknode_NR c s d n perm o l i : NR s (mknode c s d n perm o l i).
Proof. unfold mknode. destruct (c_readonly c); [apply NR_same; reflexivity|apply NR_replayed, archive_op_nr]. Qed.

Lemma fs_mkdir_NR c s n perm : NR s (fs_mkdir c s n perm).
Proof.
  unfold fs_mkdir. destruct (c_readonly c); [apply NR_same; reflexivity|].
  thread; try (apply NR_same; cbn; congruence);
    (eapply NR_tp; [|apply mknode_NR]; congruence).
Qed.

Lemma fs_remove_nl_NR c s n : NR s (fs_remove_nl c s n).
Proof.
  unfold fs_remove_nl. destruct (c_readonly c); [apply NR_same; reflexivity|].
  pose proof (stat_s_tp s n false) as H1. destruct (stat_s s n false) as [s1 r1]; cbn in H1.
  assert (forall s2 r, tp s2 = tp s ->
            NR s (match r with
              | Ok h => if (h_tf h =? TypeDir) && eqb_str (h_link h) []
                        then match inv_list (db s2) n None with
                             | (p, Ok l) => match l with [] => delete_op c (set_db s2 p) n | _ :: _ => (set_db s2 p, ONotEmpty) end
                             | (p, e) => (set_db s2 p, outc_of_res e) end
                        else delete_op c s2 n
              | NoRows => (s2, ONotExist)
              | e => (s2, outc_of_res e) end)) as K.
  { intros s2 r E. destruct r as [h| | |e]; try (apply NR_same; exact E).
    destruct ((h_tf h =? TypeDir) && eqb_str (h_link h) []).
    - destruct (inv_list (db s2) n None) as [p [l| | |e]]; try (apply NR_same; exact E).
      destruct l; [|apply NR_same; exact E]. apply NR_replayed, delete_op_nr.
    - apply NR_replayed, delete_op_nr. }
  destruct r1 as [h| | |e].
  - exact (K s1 (Ok h) H1).
  - pose proof (stat_s_tp s1 n true) as H2. destruct (stat_s s1 n true) as [s2 r2]; cbn in H2.
    exact (K s2 r2 (eq_trans H2 H1)).
  - exact (K s1 Unique H1).
  - exact (K s1 (Fail e) H1).
Qed.

Lemma fs_remove_NR c s n : NR s (fs_remove c s n).
Proof. unfold fs_remove. destruct (c_readonly c); [apply NR_same; reflexivity|apply fs_remove_nl_NR]. Qed.

Lemma fs_removeall_NR c s n : NR s (fs_removeall c s n).
Proof.
  unfold fs_removeall. destruct (c_readonly c); [apply NR_same; reflexivity|].
  pose proof (delete_op_nr c s (path_clean n)) as H. destruct (delete_op c s (path_clean n)) as [s1 o]; cbn in H.
  apply NR_replayed. destruct o; cbn in *; congruence.
Qed.

Lemma fs_rename_NR c s a b : NR s (fs_rename c s a b).
Proof.
  unfold fs_rename. destruct (c_readonly c); [apply NR_same; reflexivity|].
  destruct a as [|a0 a']; [apply NR_same; reflexivity|]. destruct b as [|b0 b']; [apply NR_same; reflexivity|].
  set (old := path_clean (a0 :: a')). set (new := path_clean (b0 :: b')). clearbody old new.
  destruct (get_root_path (db s)) as [p rt]. destruct rt as [r|]; [|apply NR_same; reflexivity].
  destruct (eqb_str r old || eqb_str (spelling r) (spelling old)); [apply NR_same; reflexivity|].
  set (s0 := set_db s p). assert (E0 : tp s0 = tp s) by reflexivity.
  pose proof (stat_s_tp s0 old false) as H1. destruct (stat_s s0 old false) as [s1 r1]; cbn in H1.
  assert (forall s2 src, tp s2 = tp s ->
     NR s (match src with
      | Ok sh =>
        if eqb_str old new || eqb_str (spelling old) (spelling new) then (s2, OOk) else
        if (h_tf sh =? TypeDir) && has_prefix (trim_suffix [slash] (spelling old) ++ [slash]) (spelling new) then (s2, OInvalid) else
        match parent_check s2 new with
        | (s, OOk) =>
          match stat_s s new false with
          | (s, Ok th) =>
            if negb (h_tf th =? h_tf sh) then (s, OExist)
            else match fs_remove_nl c s new with
                 | (s, OOk) => move_op c s old new
                 | x => x
                 end
          | (s, _) => move_op c s old new
          end
        | x => x
        end
      | NoRows => (s2, ONotExist)
      | e => (s2, outc_of_res e) end)) as K.
  { intros s2 src E. destruct src as [sh| | |e]; try (apply NR_same; exact E).
    destruct (eqb_str old new || eqb_str (spelling old) (spelling new)); [apply NR_same; exact E|].
    destruct ((h_tf sh =? TypeDir) && has_prefix (trim_suffix [slash] (spelling old) ++ [slash]) (spelling new)); [apply NR_same; exact E|].
    pose proof (parent_check_tp s2 new) as H2. destruct (parent_check s2 new) as [s3 o3]; cbn in H2.
    destruct o3; try (apply NR_same; congruence).
    pose proof (stat_s_tp s3 new false) as H3. destruct (stat_s s3 new false) as [s4 r4]; cbn in H3.
    destruct r4 as [th| | |e]; try (apply NR_replayed, move_op_nr).
    destruct (negb (h_tf th =? h_tf sh)); [apply NR_same; congruence|].
    pose proof (fs_remove_nl_NR c s4 new) as H4. destruct (fs_remove_nl c s4 new) as [s5 o5].
    assert (H5 : NR s (s5, o5)) by (eapply NR_tp; [|exact H4]; congruence).
    destruct o5; try exact H5. apply NR_replayed, move_op_nr. }
  assert (E1 : tp s1 = tp s) by congruence.
  destruct r1 as [h| | |e].
  - exact (K s1 (Ok h) E1).
  - pose proof (stat_s_tp s1 old true) as H2. destruct (stat_s s1 old true) as [s2 r2]; cbn in H2.
    exact (K s2 r2 (eq_trans H2 E1)).
  - exact (K s1 Unique E1).
  - exact (K s1 (Fail e) E1).
Qed.

Lemma fs_update_meta_NR c s n f : NR s (fs_update_meta c s n f).
Proof.
  unfold fs_update_meta. destruct (c_readonly c); [apply NR_same; reflexivity|].
  destruct n as [|n0 n']; [apply NR_same; reflexivity|]. set (name := path_clean (n0 :: n')). clearbody name.
  assert (forall s2 r, tp s2 = tp s ->
    NR s (match r with
      | Ok h => update_op c s2 [{| f_hdr := f h; f_data := [] |}] false false
      | NoRows => (s2, ONotExist)
      | e => (s2, outc_of_res e) end)) as K.
  { intros s2 r E. destruct r; try (apply NR_same; exact E). apply NR_replayed, update_op_nr. }
  pose proof (stat_s_tp s name false) as H1. destruct (stat_s s name false) as [s1 r1]; cbn in H1.
  destruct r1 as [h| | |e]; [exact (K s1 (Ok h) H1)| |exact (K s1 Unique H1)|exact (K s1 (Fail e) H1)].
  pose proof (stat_s_tp s1 name true) as H2. destruct (stat_s s1 name true) as [s2 r2]; cbn in H2.
  assert (E2 : tp s2 = tp s) by congruence.
  destruct r2 as [lh| | |e]; [|exact (K s2 NoRows E2)|exact (K s2 Unique E2)|exact (K s2 (Fail e) E2)].
  pose proof (stat_s_tp s2 (h_link lh) false) as H3. destruct (stat_s s2 (h_link lh) false) as [s3 r3]; cbn in H3.
  exact (K s3 r3 (eq_trans H3 E2)).
Qed.

Lemma fs_initialize_NR c s r : NR s (fs_initialize c s r).
Proof.
  unfold fs_initialize. destruct (get_root_path (db s)) as [p rt]. destruct rt; [apply NR_same; reflexivity|].
  assert (K : forall s0, tp s0 = tp s -> NR s (
     if c_readonly c then (s0, OPerm) else
      match mknode c s0 true r 511 true [] true with
      | (s1, OOk) => let '(p1, _) := get_root_path (db s1) in (set_db s1 p1, OOk)
      | x => x end)).
  { intros s0 E. destruct (c_readonly c) eqn:Hro; [apply NR_same; exact E|].
    pose proof (mknode_NR c s0 true r 511 true [] true) as H. destruct (mknode c s0 true r 511 true [] true) as [s1 o1].
    destruct o1; try (eapply NR_tp; [exact E|exact H]). destruct (get_root_path (db s1)). apply NR_replayed. reflexivity. }
  destruct (tp (set_db s p)) eqn:Et.
  - apply K. reflexivity.
  - destruct (index_tape c (t :: t0) 0 0 None true false (db (set_db s p))) as [p2 [u| | |e]].
    + destruct (get_root_path p2) as [p3 [r1|]]; apply NR_replayed; reflexivity.
    + destruct (get_root_path p2) as [p3 [r1|]]; [apply NR_same; reflexivity|apply K; reflexivity].
    + destruct (get_root_path p2) as [p3 [r1|]]; [apply NR_same; reflexivity|apply K; reflexivity].
    + destruct (get_root_path p2) as [p3 [r1|]]; [apply NR_same; reflexivity|apply K; reflexivity].
Qed.

(* the calls that check every precondition before their first write *)
Definition checks_first (k : call) : bool :=
  match k with CMkdirAll _ _ | CCreateFile _ _ | CWriteFile _ _ _ _ _ => false | _ => true end.

Theorem T05_refused_precondition_appends_nothing : forall c s k,
  checks_first k = true -> refusal (snd (step c s k)) = true -> tp (fst (step c s k)) = tp s.
Proof.
  intros c s k Hk. change (NR s (step c s k)). destruct k; try discriminate; cbn [step].
  - apply fs_mkdir_NR.
  - apply fs_remove_NR.
  - apply fs_removeall_NR.
  - apply fs_rename_NR.
  - apply fs_update_meta_NR.
  - apply fs_update_meta_NR.
  - apply fs_update_meta_NR.
  - destruct (c_readonly c); [apply NR_same; reflexivity|apply NR_replayed, archive_op_nr].
  - apply NR_replayed, update_op_nr.
  - apply NR_replayed, delete_op_nr.
  - apply NR_replayed, move_op_nr.
  - apply fs_initialize_NR.
Qed.

(* ---------- (2) one write at most: the tape is unchanged or the call is one append-and-replay *)

Definition one_write (c : cfg) (s : sys) (res : sys * outc) : Prop :=
  exists s1 last ms hs ow ini, tp s1 = tp s /\ ms <> [] /\ res = append_and_index c s1 last ms hs ow ini.

Definition WR (c : cfg) (s : sys) (res : sys * outc) : Prop := tp (fst res) = tp s \/ one_write c s res.

Lemma WR_same c s s1 o : tp s1 = tp s -> WR c s (s1, o).
Proof. intro E. left. exact E. Qed.

Lemma WR_tp c s s1 res : tp s1 = tp s -> WR c s1 res -> WR c s res.
Proof.
  intros E [H|(s2 & last & ms & hs & ow & ini & E2 & Hm & Hr)]; [left; congruence|right].
  exists s2, last, ms, hs, ow, ini. split; [congruence|]. split; assumption.
Qed.

Lemma append_and_index_WR c s s1 last ms hs o i : tp s1 = tp s -> WR c s (append_and_index c s1 last ms hs o i).
Proof.
  intro E. destruct ms as [|m ms].
  - left. rewrite append_and_index_tp. cbn. rewrite app_nil_r. exact E.
  - right. exists s1, last, (m :: ms), hs, o, i. split; [exact E|]. split; [discriminate|reflexivity].
Qed.

Lemma archive_op_WR c s fs o i : WR c s (archive_op c s fs o i).
Proof.
  unfold archive_op. pose proof (archive_members_tp c fs s) as H.
  destruct (archive_members c s fs) as [[ms hs] s1]; cbn in H. apply append_and_index_WR. exact H.
Qed.

Lemma update_op_WR c s fs r k : WR c s (update_op c s fs r k).
Proof.
  unfold update_op. pose proof (update_members_tp c fs r k s) as H.
  destruct (update_members c s fs r k) as [[ms hs] s1]; cbn in H. apply append_and_index_WR. exact H.
Qed.

Lemma plain_tail_WR c s s0 last hs o i : tp s0 = tp s ->
  WR c s (let '(ms, s1) := plain_members s0 hs in append_and_index c s1 last ms hs o i).
Proof.
  intro E. pose proof (plain_members_tp hs s0) as H. destruct (plain_members s0 hs) as [ms s1]; cbn in H.
  apply append_and_index_WR. congruence.
Qed.

Lemma delete_op_WR c s n : WR c s (delete_op c s n).
Proof.
  unfold delete_op. destruct (lookup_entry (db s) n) as [p [r| | |e]]; try (apply WR_same; reflexivity).
  destruct ((r_tf r =? TypeDir) && eqb_str (r_link r) []).
  - destruct (get_children p n) as [p' kids]. apply plain_tail_WR. reflexivity.
  - apply plain_tail_WR. reflexivity.
Qed.

Lemma move_op_WR c s a b : WR c s (move_op c s a b).
Proof.
  unfold move_op. destruct (eqb_str a b); [apply WR_same; reflexivity|].
  destruct (lookup_entry (db s) a) as [p [r| | |e]]; try (apply WR_same; reflexivity).
  destruct (eqb_str a (if is_abs b && negb (is_abs (r_name r)) then trim_prefix [slash] b else b)); [apply WR_same; reflexivity|].
  destruct (r_tf r =? TypeDir).
  - destruct (get_children p a) as [p' kids]. apply plain_tail_WR. reflexivity.
  - apply plain_tail_WR. reflexivity.
Qed.

Lemma mknode_WR c s d n perm o l i : WR c s (mknode c s d n perm o l i).
Proof. unfold mknode. destruct (c_readonly c); [apply WR_same; reflexivity|apply archive_op_WR]. Qed.

Lemma fs_mkdir_WR c s n perm : WR c s (fs_mkdir c s n perm).
Proof.
  unfold fs_mkdir. destruct (c_readonly c); [apply WR_same; reflexivity|].
  thread; try (apply WR_same; cbn; congruence);
    (eapply WR_tp; [|apply mknode_WR]; congruence).
Qed.

Lemma fs_remove_nl_WR c s n : WR c s (fs_remove_nl c s n).
Proof.
  unfold fs_remove_nl. destruct (c_readonly c); [apply WR_same; reflexivity|].
  pose proof (stat_s_tp s n false) as H1. destruct (stat_s s n false) as [s1 r1]; cbn in H1.
  assert (forall s2 r, tp s2 = tp s ->
            WR c s (match r with
              | Ok h => if (h_tf h =? TypeDir) && eqb_str (h_link h) []
                        then match inv_list (db s2) n None with
                             | (p, Ok l) => match l with [] => delete_op c (set_db s2 p) n | _ :: _ => (set_db s2 p, ONotEmpty) end
                             | (p, e) => (set_db s2 p, outc_of_res e) end
                        else delete_op c s2 n
              | NoRows => (s2, ONotExist)
              | e => (s2, outc_of_res e) end)) as K.
  { intros s2 r E. destruct r as [h| | |e]; try (apply WR_same; exact E).
    destruct ((h_tf h =? TypeDir) && eqb_str (h_link h) []).
    - destruct (inv_list (db s2) n None) as [p [l| | |e]]; try (apply WR_same; exact E).
      destruct l; [|apply WR_same; exact E]. eapply WR_tp; [|apply delete_op_WR]. exact E.
    - eapply WR_tp; [|apply delete_op_WR]. exact E. }
  destruct r1 as [h| | |e].
  - exact (K s1 (Ok h) H1).
  - pose proof (stat_s_tp s1 n true) as H2. destruct (stat_s s1 n true) as [s2 r2]; cbn in H2.
    exact (K s2 r2 (eq_trans H2 H1)).
  - exact (K s1 Unique H1).
  - exact (K s1 (Fail e) H1).
Qed.

Lemma fs_update_meta_WR c s n f : WR c s (fs_update_meta c s n f).
Proof.
  unfold fs_update_meta. destruct (c_readonly c); [apply WR_same; reflexivity|].
  destruct n as [|n0 n']; [apply WR_same; reflexivity|]. set (name := path_clean (n0 :: n')). clearbody name.
  assert (forall s2 r, tp s2 = tp s ->
    WR c s (match r with
      | Ok h => update_op c s2 [{| f_hdr := f h; f_data := [] |}] false false
      | NoRows => (s2, ONotExist)
      | e => (s2, outc_of_res e) end)) as K.
  { intros s2 r E. destruct r; try (apply WR_same; exact E). eapply WR_tp; [|apply update_op_WR]. exact E. }
  pose proof (stat_s_tp s name false) as H1. destruct (stat_s s name false) as [s1 r1]; cbn in H1.
  destruct r1 as [h| | |e]; [exact (K s1 (Ok h) H1)| |exact (K s1 Unique H1)|exact (K s1 (Fail e) H1)].
  pose proof (stat_s_tp s1 name true) as H2. destruct (stat_s s1 name true) as [s2 r2]; cbn in H2.
  assert (E2 : tp s2 = tp s) by congruence.
  destruct r2 as [lh| | |e]; [|exact (K s2 NoRows E2)|exact (K s2 Unique E2)|exact (K s2 (Fail e) E2)].
  pose proof (stat_s_tp s2 (h_link lh) false) as H3. destruct (stat_s s2 (h_link lh) false) as [s3 r3]; cbn in H3.
  exact (K s3 r3 (eq_trans H3 E2)).
Qed.

Definition writes_once (k : call) : bool :=
  match k with
  | CMkdir _ _ | CRemove _ | CChmod _ _ | CChown _ _ _ | CChtimes _ _ _
  | CArchive _ | CUpdate _ _ | CDelete _ | CMove _ _ | CReopen | CNop => true
  | _ => false
  end.

Theorem T05_failed_after_write_is_replay_failure : forall c s k, writes_once k = true ->
  tp (fst (step c s k)) = tp s \/
  exists s1 last ms hs ow ini, tp s1 = tp s /\ ms <> [] /\ step c s k = append_and_index c s1 last ms hs ow ini.
Proof.
  intros c s k Hk. change (WR c s (step c s k)). destruct k; try discriminate; cbn [step].
  - apply fs_mkdir_WR.
  - unfold fs_remove. destruct (c_readonly c); [apply WR_same; reflexivity|apply fs_remove_nl_WR].
  - apply fs_update_meta_WR.
  - apply fs_update_meta_WR.
  - apply fs_update_meta_WR.
  - destruct (c_readonly c); [apply WR_same; reflexivity|apply archive_op_WR].
  - apply update_op_WR.
  - apply delete_op_WR.
  - apply move_op_WR.
  - apply WR_same; reflexivity.
  - apply WR_same; reflexivity.
Qed.

(* RemoveAll: the same, except that a replay answering "no such entry" is reported as success *)
Theorem T05_removeall_write : forall c s n,
  tp (fst (step c s (CRemoveAll n))) = tp s \/
  exists s1 last ms hs ow ini, tp s1 = tp s /\ ms <> [] /\
    let r := append_and_index c s1 last ms hs ow ini in
    fst (step c s (CRemoveAll n)) = fst r /\
    snd (step c s (CRemoveAll n)) = match snd r with ONotExist => OOk | o => o end.
Proof.
  intros c s n. cbn [step]. unfold fs_removeall. destruct (c_readonly c); [left; reflexivity|].
  destruct (delete_op_WR c s (path_clean n)) as [H|(s1 & last & ms & hs & ow & ini & E & Hm & Hr)].
  - left. destruct (delete_op c s (path_clean n)) as [s' o]. cbn [fst] in *. destruct o; exact H.
  - right. exists s1, last, ms, hs, ow, ini. split; [exact E|]. split; [exact Hm|]. cbn zeta. rewrite <- Hr.
    destruct (delete_op c s (path_clean n)) as [s' o]. destruct o; split; reflexivity.
Qed.

(* what one append-and-replay does to the tape and what it answers *)
Lemma one_write_shape c s res : one_write c s res ->
  exists ms, ms <> [] /\ tp (fst res) = tp s ++ arch ms /\ refusal (snd res) = false.
Proof.
  intros (s1 & last & ms & hs & ow & ini & E & Hm & ->). exists ms. split; [exact Hm|]. split.
  - rewrite append_and_index_tp, E. unfold arch. destruct ms; [contradiction|reflexivity].
  - apply append_and_index_nr.
Qed.

Corollary T05_writes_once_one_archive : forall c s k, writes_once k = true ->
  tp (fst (step c s k)) = tp s \/ exists ms, ms <> [] /\ tp (fst (step c s k)) = tp s ++ arch ms.
Proof.
  intros c s k Hk. destruct (T05_failed_after_write_is_replay_failure c s k Hk) as [H|H]; [left; exact H|right].
  destruct (one_write_shape c s (step c s k) H) as (ms & A & B & _). exists ms. split; assumption.
Qed.

(* ---------- (3) the precondition checks by name *)

(* Mkdir: read-only, parent missing or not a directory, target exists (as an entry or as a link name) *)
Theorem T05_mkdir_refusals : forall c s n perm,
  c_readonly c = true
  \/ snd (parent_check s (path_clean n)) <> OOk
  \/ (exists h, snd (stat_s (fst (parent_check s (path_clean n))) (path_clean n) false) = Ok h) ->
  tp (fst (step c s (CMkdir n perm))) = tp s.
Proof.
  intros c s n perm H. cbn [step]. unfold fs_mkdir. destruct (c_readonly c) eqn:Hro; [reflexivity|].
  destruct H as [H|[H|H]]; [discriminate| |].
  - pose proof (parent_check_tp s (path_clean n)) as E. destruct (parent_check s (path_clean n)) as [s1 o]. cbn [fst snd] in *.
    destruct o; try exact E. contradiction.
  - pose proof (parent_check_tp s (path_clean n)) as E. destruct (parent_check s (path_clean n)) as [s1 o]. cbn [fst snd] in *.
    destruct o; try exact E. destruct H as [h Hh].
    pose proof (stat_s_tp s1 (path_clean n) false) as E2. destruct (stat_s s1 (path_clean n) false) as [s2 r]. cbn [fst snd] in *.
    subst r. cbn. congruence.
Qed.

(* Remove / Chmod / Chown / Chtimes: the entry is looked up first (by name, then as a link name) *)
Definition source_of (k : call) : option str :=
  match k with
  | CRemove n | CChmod n _ | CChown n _ _ | CChtimes n _ _ => Some (path_clean n)
  | _ => None
  end.

Theorem T05_missing_source_appends_nothing : forall c s k nm, source_of k = Some nm ->
  snd (stat_s s nm false) = NoRows -> snd (stat_s (fst (stat_s s nm false)) nm true) = NoRows ->
  tp (fst (step c s k)) = tp s.
Proof.
  intros c s k nm Hk M1 M2.
  assert (RM : tp (fst (fs_remove_nl c s nm)) = tp s).
  { unfold fs_remove_nl. destruct (c_readonly c); [reflexivity|].
    pose proof (stat_s_tp s nm false) as H1.
    destruct (stat_s s nm false) as [s1 r1]; cbn [fst snd] in *. subst r1.
    pose proof (stat_s_tp s1 nm true) as H2.
    destruct (stat_s s1 nm true) as [s2 r2]; cbn [fst snd] in *. subst r2. cbn. congruence. }
  assert (UM : forall n f, path_clean n = nm -> tp (fst (fs_update_meta c s n f)) = tp s).
  { intros n f En. unfold fs_update_meta. destruct (c_readonly c); [reflexivity|]. destruct n as [|n0 n']; [reflexivity|].
    rewrite En.
    pose proof (stat_s_tp s nm false) as H1.
    destruct (stat_s s nm false) as [s1 r1]; cbn [fst snd] in *. subst r1.
    pose proof (stat_s_tp s1 nm true) as H2.
    destruct (stat_s s1 nm true) as [s2 r2]; cbn [fst snd] in *. subst r2. cbn. congruence. }
  destruct k; try discriminate; cbn [source_of] in Hk; inversion Hk; cbn [step].
  - unfold fs_remove. destruct (c_readonly c); [reflexivity|]. subst nm. exact RM.
  - apply UM. assumption.
  - apply UM. assumption.
  - apply UM. assumption.
Qed.

(* ---------- (4) read-only instances *)
Definition guarded (k : call) : bool :=
  match k with CUpdate _ _ | CDelete _ | CMove _ _ => false | _ => true end.

Theorem T05_readonly_appends_nothing : forall c s k, c_readonly c = true -> guarded k = true ->
  tp (fst (step c s k)) = tp s.
Proof.
  intros c s k Hro Hg. destruct k; try discriminate; cbn [step];
    unfold fs_mkdir, fs_mkdirall, fs_remove, fs_removeall, fs_rename, fs_update_meta, fs_create; rewrite ?Hro; try reflexivity.
  - (* WriteFile *)
    unfold fs_openfile. destruct n as [|n0 n']; [reflexivity|]. set (name := path_clean (n0 :: n')). clearbody name.
    rewrite Hro. cbn [negb andb].
    assert (FL : fl_write (decode_flags c o) = false) by (unfold decode_flags; rewrite Hro; reflexivity).
    assert (WC : forall s1 hd, fl_write (hd_flags hd) = false -> hd_buf hd = None -> tp (fst (write_close c s1 hd d force)) = tp s1).
    { intros s1 hd F B. unfold write_close, handle_write_all. rewrite F, B. cbn [negb].
      destruct d; [destruct force|]; destruct (h_tf (hd_info hd) =? TypeDir); reflexivity. }
    pose proof (stat_s_tp s name false) as H1. destruct (stat_s s name false) as [s1 r1]; cbn in H1.
    destruct r1 as [h| | |e]; cbn; try exact H1.
    + destruct ((h_tf h =? TypeDir) && (fl_write (decode_flags c o) || fl_append (decode_flags c o) || fl_trunc (decode_flags c o))); [exact H1|].
      rewrite WC; [exact H1|exact FL|]. cbn [hd_buf]. rewrite FL. reflexivity.
    + pose proof (stat_s_tp s1 name true) as H2. destruct (stat_s s1 name true) as [s2 r2]; cbn in H2.
      destruct r2; cbn; congruence.
  - (* Initialize *)
    unfold fs_initialize. destruct (get_root_path (db s)) as [p [rt|]]; [reflexivity|].
    destruct (tp (set_db s p)) eqn:Et; [rewrite Hro; reflexivity|].
    destruct (index_tape c (t :: t0) 0 0 None true false (db (set_db s p))) as [p2 [u| | |e]];
      destruct (get_root_path p2) as [p3 [r1|]]; rewrite ?Hro; reflexivity.
Qed.

Print Assumptions T05_refused_precondition_appends_nothing.
Print Assumptions T05_failed_after_write_is_replay_failure.
Print Assumptions T05_readonly_appends_nothing.
