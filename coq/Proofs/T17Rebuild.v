(* T17 / Rebuild: the index rebuilt from a foreign archive holds exactly one live row per member, in archive order,
   under the cleaned relative name, at the member's tape position; the state after opening. *)
From Coq Require Import List NArith ZArith Bool Lia.
From Coq Require Import ZifyN ZifyBool.
Import ListNotations.
From STFS Require Import Str Db Tape Index Ops Fs TapeLemmas StrLemmas C01Str C01Db C01Sim C01Tape T04Tape
  T13Path T13ListStr T13View T17Tree T17Str T17Forest T17Db.
Open Scope N_scope.

(* ---------- tape positions of the members *)
Definition iblocks (i : item) : N := mt_hb (i_meta i) + cdiv (if i_dir i then 0 else clen (i_data i)) 512.
Fixpoint istarts (a : N) (l : list item) : list (N * item) :=
  match l with [] => [] | i :: r => (a, i) :: istarts (a + iblocks i) r end.

Lemma istarts_snd l : forall a, map snd (istarts a l) = l.
Proof. induction l as [|i l IH]; intro a; cbn; [reflexivity|]. rewrite IH. reflexivity. Qed.

Lemma istarts_app l1 l2 : forall a, istarts a (l1 ++ l2) = istarts a l1 ++ istarts (a + fold_right (fun i s => iblocks i + s) 0 l1) l2.
Proof.
  induction l1 as [|i l1 IH]; intro a; cbn [app istarts fold_right].
  - rewrite N.add_0_r. reflexivity.
  - rewrite IH. rewrite N.add_assoc. reflexivity.
Qed.

Definition tape_items (st : style) (l : list item) : tape := map (fun i => TM (member_of_item st i)) l.

Lemma item_blocks_member st i : item_blocks (TM (member_of_item st i)) = iblocks i.
Proof. unfold item_blocks, iblocks. cbn [member_of_item m_hb m_enc]. reflexivity. Qed.

Lemma tape_blocks_items st l : tape_blocks (tape_items st l) = fold_right (fun i s => iblocks i + s) 0 l.
Proof. induction l as [|i l IH]; [reflexivity|]. cbn [tape_items map tape_blocks fold_right]. rewrite item_blocks_member.
  f_equal. exact IH. Qed.

Lemma with_starts_items st l : forall a suf,
  with_starts (tape_items st l ++ suf) a
  = map (fun x => (fst x, TM (member_of_item st (snd x)))) (istarts a l) ++ with_starts suf (a + tape_blocks (tape_items st l)).
Proof.
  induction l as [|i l IH]; intros a suf.
  - cbn. rewrite N.add_0_r. reflexivity.
  - cbn [tape_items map app with_starts istarts fst snd]. fold (tape_items st l). rewrite IH. rewrite item_blocks_member.
    cbn [tape_blocks fold_right]. fold (tape_blocks (tape_items st l)). rewrite item_blocks_member. rewrite N.add_assoc. reflexivity.
Qed.

Lemma pos_items_items st l : (forall i, In i l -> 1 <= mt_hb (i_meta i)) -> pos_items (tape_items st l).
Proof.
  intro H. apply Forall_forall. intros x Hx. apply in_map_iff in Hx as (i & <- & Hi). rewrite item_blocks_member.
  unfold iblocks. specialize (H i Hi). lia.
Qed.

Lemma istarts_split l : forall a x, In x (istarts a l) ->
  exists l1 l2, l = l1 ++ snd x :: l2 /\ fst x = a + fold_right (fun i s => iblocks i + s) 0 l1.
Proof.
  induction l as [|i l IH]; intros a x H; [contradiction|]. cbn [istarts] in H. destruct H as [<-|H].
  - exists [], l. cbn. split; [reflexivity|lia].
  - destruct (IH _ _ H) as (l1 & l2 & E & Ea). exists (i :: l1), l2. cbn [app fold_right]. split; [rewrite E; reflexivity|lia].
Qed.

Lemma member_at_items st l suf x : (forall i, In i l -> 1 <= mt_hb (i_meta i)) -> In x (istarts 0 l) ->
  member_at (tape_items st l ++ suf) (fst x) = Some (member_of_item st (snd x)).
Proof.
  intros Hhb Hx. destruct (istarts_split l 0 x Hx) as (l1 & l2 & E & Ea).
  rewrite E. unfold tape_items. rewrite map_app. cbn [map]. rewrite <- app_assoc. cbn [app].
  fold (tape_items st l1). rewrite Ea, N.add_0_l, <- (tape_blocks_items st).
  apply member_at_new. apply pos_items_items. intros i Hi. apply Hhb. rewrite E. apply in_or_app. left. exact Hi.
Qed.

(* ---------- the row the index holds for a member *)
Definition srow (st : style) (rs : N) (x : N * item) : row :=
  let h := hdr_of_item st (snd x) in
  let pp := pos_of rs (fst x) in
  set_name (row_of_hdr (fst pp) (fst pp) (snd pp) (snd pp) (with_size_name h (h_size h) (h_name h)))
           (stored_name st (i_path (snd x))).

Definition spc (st : style) (x : N * item) : list str := stored_comps st (i_path (snd x)).

(* the header inventory.Stat / List hand out for a member *)
Definition shdr (st : style) (i : item) : hdr :=
  {| h_tf := if i_dir i then TypeDir else TypeReg; h_name := stored_name st (i_path i); h_link := [];
     h_size := if i_dir i then 0 else clen (i_data i);
     h_mode := mt_mode (i_meta i); h_uid := mt_uid (i_meta i); h_gid := mt_gid (i_meta i);
     h_uname := mt_uname (i_meta i); h_gname := mt_gname (i_meta i);
     h_mtime := mt_mtime (i_meta i); h_atime := mt_atime (i_meta i); h_ctime := mt_ctime (i_meta i); h_pax := [] |}.

Lemma hdr_of_srow st rs x : hdr_of_row (srow st rs x) = shdr st (snd x).
Proof. reflexivity. Qed.

Lemma stored_okc st q : wf_style st -> Forall okc q -> Forall okc (stored_comps st q).
Proof. intros Hs H. destruct st; cbn in *; [exact H|exact H|constructor; assumption]. Qed.

Lemma stored_comps_inj st q q' : stored_comps st q = stored_comps st q' -> q = q'.
Proof. destruct st; cbn; intro H; [exact H|exact H|inversion H; reflexivity]. Qed.

Lemma srow_shape st rs l : wf_style st -> (forall x, In x l -> Forall okc (i_path (snd x))) ->
  forall x, In x l ->
  live (srow st rs x) = true /\ r_link (srow st rs x) = [] /\ r_name (srow st rs x) = join_slash (spc st x) /\ Forall okc (spc st x).
Proof.
  intros Hs H x Hx. repeat split. apply stored_okc; [exact Hs|apply H; exact Hx].
Qed.

Lemma spc_nodup st l : NoDup (map i_path (map snd l)) -> NoDup (map (spc st) l).
Proof.
  rewrite map_map. induction l as [|x l IH]; cbn [map]; intro H; [constructor|].
  inversion H as [|? ? Hnot Hnd]; subst. constructor; [|apply IH; exact Hnd].
  intro K. apply Hnot. apply in_map_iff in K as (y & E & Hy). apply stored_comps_inj in E.
  rewrite <- E. apply in_map_iff. exists y. split; [reflexivity|exact Hy].
Qed.

(* ---------- getSanitizedPath during the replay (cached root "", not yet read) *)
Lemma sanitize_empty_root p name : root p = [] ->
  (is_root_name name = false -> is_abs name = true -> root_empty p = false -> exists_exact p [] = true) ->
  exists p', sanitize p name = (p', rel_name name) /\ rows p' = rows p /\ root p' = [].
Proof.
  intros Hr He. unfold sanitize, rel_name. destruct (is_root_name name) eqn:E1; cbn [orb].
  - exists p. rewrite Hr. repeat split; try reflexivity; exact Hr.
  - rewrite Hr.
    assert (E2 : eqb_str name [] = false).
    { unfold is_root_name in E1. destruct (eqb_str name []); [discriminate|reflexivity]. }
    rewrite E2. cbn [eqb_str andb].
    destruct (is_abs name && negb (root_empty p)) eqn:E3.
    + apply andb_true_iff in E3 as [A B]. apply negb_true_iff in B. rewrite (He eq_refl A B).
      cbv beta iota zeta. cbn [root rows root_empty]. rewrite ?Hr. cbn [is_abs andb eqb_str].
      eexists. repeat split; reflexivity.
    + cbv beta iota zeta. rewrite ?Hr. cbn [is_abs andb eqb_str]. exists p. repeat split; try reflexivity; exact Hr.
Qed.

Lemma is_root_long a b c r : is_root_name (a :: b :: c :: r) = false.
Proof. unfold is_root_name. cbn. rewrite !andb_false_r. reflexivity. Qed.

Lemma join_cons_char cs : cs <> [] -> Forall okc cs -> exists x t, join_slash cs = x :: t /\ (x =? slash) = false.
Proof. intros Hn H. destruct cs as [|a r]; [contradiction|]. inversion H; subst. apply join_head. assumption. Qed.

(* what the replay stores for the name a tar writer wrote *)
Lemma rel_tape_name st i : wf_style st -> Forall okc (i_path i) -> rel_name (tape_name st i) = stored_name st (i_path i).
Proof.
  intros Hs H. unfold tape_name, stored_name. destruct (i_path i) as [|a r] eqn:Ep.
  - replace (if i_dir i then [] else []) with (@nil N) by (destruct (i_dir i); reflexivity).
    cbn [join_slash app]. rewrite app_nil_r. destruct st; cbn [style_prefix stored_comps]; [reflexivity|reflexivity|].
    change top with (join_slash [top]). apply rel_name_join_slash; [constructor; [exact Hs|constructor]|discriminate].
  - cbv iota. set (tl := if i_dir i then [slash] else []).
    destruct (join_cons_char (a :: r) ltac:(discriminate) H) as (x & t & E & Ex).
    destruct st; cbn [style_prefix stored_comps].
    + (* "./d/f" *)
      unfold rel_name. rewrite E. cbn [app]. rewrite is_root_long.
      assert (T : trim_prefix [slash] (dot :: slash :: x :: t ++ tl) = dot :: slash :: x :: t ++ tl) by reflexivity.
      rewrite T. rewrite path_join2_nil by discriminate.
      change (dot :: slash :: x :: t ++ tl) with ([dot; slash] ++ (x :: t) ++ tl). rewrite <- E.
      unfold tl. destruct (i_dir i).
      * apply path_clean_dotslash_trailing; [discriminate|exact H].
      * rewrite app_nil_r. apply path_clean_dotslash; [discriminate|exact H].
    + (* "/d/f" *)
      unfold rel_name. rewrite E. cbn [app].
      assert (R : is_root_name (slash :: x :: t ++ tl) = false).
      { unfold is_root_name. cbn [eqb_str]. rewrite Ex. reflexivity. }
      rewrite R. rewrite trim_prefix_slash. rewrite path_join2_nil by discriminate.
      change (x :: t ++ tl) with ((x :: t) ++ tl). rewrite <- E. unfold tl. destruct (i_dir i).
      * apply path_clean_rel_trailing; [discriminate|exact H].
      * rewrite app_nil_r. apply path_clean_rel; [discriminate|exact H].
    + (* "top/d/f" *)
      assert (F : Forall okc (top :: a :: r)) by (constructor; assumption).
      replace ((top ++ [slash]) ++ join_slash (a :: r) ++ tl) with (join_slash (top :: a :: r) ++ tl)
        by (rewrite join_cons by discriminate; rewrite <- !app_assoc; reflexivity).
      unfold tl. destruct (i_dir i).
      * apply rel_name_join_slash; [exact F|discriminate].
      * rewrite app_nil_r. apply rel_name_join. exact F.
Qed.

Lemma tape_name_abs st i : wf_style st -> Forall okc (i_path i) -> is_abs (tape_name st i) = true -> st = Slash.
Proof.
  intros Hs H. unfold tape_name. destruct st; cbn [style_prefix]; [cbn [app is_abs]; change (dot =? slash) with false; discriminate|reflexivity|].
  destruct Hs as (K & _ & _ & Hns). destruct top as [|c top']; [contradiction|]. cbn [app is_abs].
  intro E. apply N.eqb_eq in E. subst c. exfalso. apply Hns. left. reflexivity.
Qed.

Lemma tape_name_root st i : wf_style st -> Forall okc (i_path i) -> is_root_name (tape_name st i) = false -> st = Slash ->
  i_path i <> [].
Proof.
  intros Hs H R -> E. unfold tape_name in R. rewrite E in R. destruct (i_dir i); cbn in R; discriminate.
Qed.

(* ---------- the replay of the archive *)
Lemma has_key_fresh st rs done x : wf_style st ->
  (forall y, In y (x :: done) -> Forall okc (i_path (snd y))) ->
  ~ In (i_path (snd x)) (map i_path (map snd done)) ->
  has_key (map (srow st rs) done) (stored_name st (i_path (snd x))) [] = false.
Proof.
  intros Hs Hok Hnot. unfold has_key. destruct (existsb _ _) eqn:E; [|reflexivity]. exfalso.
  apply existsb_exists in E as (r & Hr & K). apply in_map_iff in Hr as (y & <- & Hy).
  unfold key_eq in K. apply andb_true_iff in K as [K _]. apply eqb_str_eq in K.
  change (r_name (srow st rs y)) with (join_slash (stored_comps st (i_path (snd y)))) in K. unfold stored_name in K.
  apply join_inj in K.
  - apply stored_comps_inj in K. apply Hnot. rewrite <- K. apply in_map. apply in_map. exact Hy.
  - apply stored_okc; [exact Hs|apply Hok; right; exact Hy].
  - apply stored_okc; [exact Hs|apply Hok; left; reflexivity].
Qed.

Lemma exists_exact_app p p' l : rows p' = rows p ++ l -> exists_exact p [] = true -> exists_exact p' [] = true.
Proof. unfold exists_exact. intros -> H. rewrite existsb_app, H. reflexivity. Qed.

Lemma index_loop_items c st : plain c -> wf_style st -> forall l done a p k,
  root p = [] -> rows p = map (srow st (c_rs c)) done ->
  NoDup (map i_path (map snd done ++ l)) ->
  (forall i, In i (map snd done ++ l) -> Forall okc (i_path i)) ->
  (st = Slash -> exists_exact p [] = true \/ match l with i :: _ => i_path i = [] | [] => True end) ->
  exists p', index_loop c (map (fun x => (fst x, member_of_item st (snd x))) (istarts a l)) k 0 None false p = (p', Ok tt)
             /\ rows p' = map (srow st (c_rs c)) (done ++ istarts a l) /\ root p' = [].
Proof.
  intros HP Hs. induction l as [|i l IH]; intros done a p k Hr Hrows Hnd Hok Hsl.
  - cbn [istarts map index_loop]. exists p. rewrite app_nil_r. repeat split; assumption.
  - cbn [istarts map index_loop fst snd]. replace (k <? 0)%nat with false by (symmetry; apply Nat.ltb_ge; lia).
    cbn [m_hdr member_of_item]. destruct (pos_of (c_rs c) a) as [rec blk] eqn:Epos.
    rewrite index_header_plain by exact HP.
    assert (Oki : Forall okc (i_path i)) by (apply Hok; apply in_or_app; right; left; reflexivity).
    destruct (sanitize_empty_root p (tape_name st i) Hr) as (p1 & Hsan & Hrows1 & Hr1).
    { intros R A _. pose proof (tape_name_abs st i Hs Oki A) as Est.
      destruct (Hsl Est) as [K|K]; [exact K|]. exfalso. exact (tape_name_root st i Hs Oki R Est K). }
    rewrite (rel_tape_name st i Hs Oki) in Hsan.
    assert (Hup : ih_body rec blk (with_size_name (hdr_of_item st i) (h_size (hdr_of_item st i)) (h_name (hdr_of_item st i))) false p
                  = (with_rows p1 (rows p1 ++ [srow st (c_rs c) (a, i)]), Ok tt)).
    { unfold ih_body, h_act. cbn [with_size_name hdr_of_item h_pax pax_get].
      change (negb (eqb_str V_1 V_1)) with false. change (eqb_str V_create V_create) with true. cbv iota.
      unfold upsert. cbn [row_of_hdr r_name h_name].
      change (h_name (with_size_name (hdr_of_item st i) (h_size (hdr_of_item st i)) (h_name (hdr_of_item st i))))
        with (tape_name st i). rewrite Hsan.
      match goal with |- context [has_key _ _ ?l] => change l with (@nil N) end.
      rewrite Hrows1, Hrows.
      pose proof (has_key_fresh st (c_rs c) done (a, i) Hs) as HK. cbn [snd] in HK. rewrite HK.
      - unfold srow. cbn [fst snd]. rewrite Epos. reflexivity.
      - intros y [<-|Hy]; [exact Oki|]. apply Hok. apply in_or_app. left. apply in_map. exact Hy.
      - cbn [snd]. intro K. rewrite map_app in Hnd. apply NoDup_remove_2 in Hnd. apply Hnd.
        apply in_or_app. left. exact K. }
    unfold usz. cbn [hdr_of_item h_pax pax_get]. rewrite Hup.
    destruct (IH (done ++ [(a, i)]) (a + iblocks i) (with_rows p1 (rows p1 ++ [srow st (c_rs c) (a, i)])) (S k)) as (p' & Hl & Hrw & Hrt).
    + exact Hr1.
    + cbn [with_rows rows]. rewrite Hrows1, Hrows, map_app. reflexivity.
    + replace (map snd (done ++ [(a, i)]) ++ l) with (map snd done ++ i :: l)
        by (rewrite (map_app snd), <- app_assoc; reflexivity). exact Hnd.
    + replace (map snd (done ++ [(a, i)]) ++ l) with (map snd done ++ i :: l)
        by (rewrite (map_app snd), <- app_assoc; reflexivity). exact Hok.
    + intro Est. left. destruct (Hsl Est) as [K|K].
      * apply (exists_exact_app p _ [srow st (c_rs c) (a, i)]); [cbn [with_rows rows]; rewrite Hrows1; reflexivity|exact K].
      * unfold exists_exact. cbn [with_rows rows]. rewrite existsb_app. cbn [existsb].
        change (r_name (srow st (c_rs c) (a, i))) with (stored_name st (i_path i)).
        rewrite K, Est. cbn. apply orb_true_r.
    + exists p'. split; [exact Hl|]. split; [|exact Hrt]. rewrite Hrw. rewrite <- app_assoc. reflexivity.
Qed.

Lemma members_from_archive st l : l <> [] ->
  members_from (tape_items st l ++ [TT]) 0 = Some (map (fun x => (fst x, member_of_item st (snd x))) (istarts 0 l)).
Proof.
  intro Hn. unfold members_from. rewrite with_starts_items.
  assert (E : existsb (fun p => fst p =? 0) (map (fun x => (fst x, TM (member_of_item st (snd x)))) (istarts 0 l) ++
               with_starts [TT] (0 + tape_blocks (tape_items st l))) = true).
  { destruct l as [|i l]; [contradiction|]. reflexivity. }
  rewrite E, orb_true_r. f_equal. rewrite flat_map_app. cbn [with_starts flat_map snd app]. rewrite app_nil_r.
  generalize (istarts 0 l). intro L. induction L as [|x L IH]; [reflexivity|]. cbn [map flat_map snd fst app].
  rewrite IH. replace (0 <=? fst x) with true by (symmetry; apply N.leb_le; lia). reflexivity.
Qed.

Definition archive_rows (c : cfg) (st : style) (t : tree) : list row := map (srow st (c_rs c)) (istarts 0 (items t)).

Theorem T17_rebuild_rows : forall c st t, plain c -> wf_style st -> wf t ->
  exists p, rebuild c (archive_of st t) = (p, Ok tt) /\ rows p = archive_rows c st t /\ root p = [].
Proof.
  intros c st t HP Hs Hwf. unfold rebuild, index_tape, purge, archive_of. fold (tape_items st (items t)).
  rewrite members_from_archive by discriminate.
  destruct (index_loop_items c st HP Hs (items t) [] 0 p_empty 0%nat) as (p' & Hl & Hrw & Hrt).
  - reflexivity.
  - reflexivity.
  - cbn [map app]. apply items_nodup. exact Hwf.
  - cbn [map app]. intros i Hi. apply (items_okc t i Hwf Hi).
  - intros _. right. reflexivity.
  - exists p'. repeat split; assumption.
Qed.
