(* T07 / history invariant, afero level: every filesystem-level call preserves [Inv true c s /\ HB c s].
   This file is C01Fs.v / C01Fs2.v with [hr] fixed to [true] (the root is never removed) and with the
   operation lemmas of T07Inv.v ([mknode_ok2], [update_ok2], [delete_ok2], [move_ok2]) in place of the C01 ones;
   the well-formedness of the tape is threaded through where C01 threads [hbok]. *)
From Coq Require Import List NArith ZArith Bool Lia.
From Coq Require Import ZifyN ZifyBool.
Import ListNotations.
From STFS Require Spelling.
From STFS Require Import Str Db Tape Index Ops Fs Diff Norm TapeLemmas
  C01Str C01Db C01Inv C01Sim C01Tape C01Hdr C01Ops C01Ops2 C01Reads C01Fs C01Fs2 T07Look T07Core T07Sim T07Inv.
Open Scope N_scope.

Section FsOps.
Variable c : cfg.
Hypothesis HP : plain c.
Hypothesis Hrs : 0 < c_rs c.
Hypothesis Hro : c_readonly c = false.

Definition OKs2 (s : sys) : Prop := Inv true c s /\ HB c s.

Ltac same_state := eexists _, _; split; [reflexivity|split; assumption].

(* ---------- Mkdir *)
Lemma fs_mkdir_ok2 s n perm : OKs2 s -> is_abs n = true ->
  exists s' o, fs_mkdir c s n perm = (s', o) /\ OKs2 s'.
Proof.
  intros [HI Hhb] Ha. pose proof (iv_li true c s HI) as HL. unfold fs_mkdir. rewrite Hro.
  destruct (parent_check_lv2 true s (path_clean n) HL) as (o & E & Hal). rewrite E.
  destruct o; try same_state.
  assert (MK : exists s' o, mknode c s true (path_clean n) perm false [] false = (s', o) /\ OKs2 s').
  { destruct (mknode_ok2 c HP Hrs Hro s true (path_clean n) perm HI Hhb (path_clean_abs_good n Ha)
                (alive_cpre _ _ (Hal eq_refl))) as (s' & E' & A & B & _).
    exists s', OOk. split; [exact E'|split; assumption]. }
  destruct (stat_s_false true s (path_clean n) HL) as (res & E2 & P). rewrite E2.
  destruct res as [h| | |e]; try same_state; rewrite (stat_s_true true s (path_clean n) HL); exact MK.
Qed.

(* ---------- MkdirAll *)
Lemma mkdirall_loop_ok2 perm parts : forall s cur, OKs2 s -> good cur -> alive (db s) ->
  exists s' o, mkdirall_loop c s cur false parts perm = (s', o) /\ OKs2 s'.
Proof.
  induction parts as [|part rest IH]; intros s cur [HI Hhb] G Hal; cbn [mkdirall_loop]; [same_state|].
  pose proof (iv_li true c s HI) as HL. cbn [andb].
  destruct cur as [|c0 cr]; [exfalso; exact (good_nonempty [] G eq_refl)|].
  set (cur' := path_join2 (c0 :: cr) part).
  assert (G' : good cur') by (apply path_join2_good; exact G).
  destruct (stat_s_false true s cur' HL) as (res & E2 & P). rewrite E2.
  destruct res as [h| | |e]; try same_state.
  - destruct (h_tf h =? TypeDir); [|same_state]. apply IH; [split; assumption|exact G'|exact Hal].
  - rewrite (stat_s_true true s cur' HL).
    destruct (mknode_ok2 c HP Hrs Hro s true cur' perm HI Hhb G' (alive_cpre _ _ Hal)) as (s' & E' & A & B & Lv). rewrite E'.
    apply IH; [split; assumption|exact G'|eapply live_alive; exact Lv].
Qed.

Lemma fs_mkdirall_ok2 s n perm : OKs2 s -> is_abs n = true ->
  exists s' o, fs_mkdirall c s n perm = (s', o) /\ OKs2 s'.
Proof.
  intros [HI Hhb] Ha. pose proof (iv_li true c s HI) as HL. unfold fs_mkdirall. rewrite Hro.
  destruct (path_clean_abs_good n Ha) as (cs & Hcs & ->).
  rewrite split_slash_cons_slash. cbn [mkdirall_loop]. cbn [eqb_str andb].
  destruct (stat_s_false true s [slash] HL) as (res & E2 & P). rewrite E2.
  destruct res as [h| | |e]; try same_state.
  - destruct (h_tf h =? TypeDir); [|same_state].
    apply mkdirall_loop_ok2; [split; assumption|apply good_root|eapply from_row_alive; exact P].
  - rewrite (stat_s_true true s [slash] HL).
    destruct (mknode_ok2 c HP Hrs Hro s true [slash] perm HI Hhb good_root (or_introl eq_refl)) as (s' & E' & A & B & Lv). rewrite E'.
    apply mkdirall_loop_ok2; [split; assumption|apply good_root|eapply live_alive; exact Lv].
Qed.

(* ---------- Remove / RemoveAll *)
Lemma delete_okp2 s name : OKs2 s -> good name -> (true = true -> name <> [slash]) ->
  exists s' o, delete_op c s name = (s', o) /\ OKs2 s'.
Proof.
  intros [HI Hhb] G Hn. destruct (delete_ok2 c HP Hrs s name HI Hhb G Hn) as (s' & o & E & A & B).
  exists s', o. split; [exact E|split; assumption].
Qed.

Lemma fs_remove_nl_ok2 s name : OKs2 s -> good name -> (true = true -> name <> [slash]) ->
  exists s' o, fs_remove_nl c s name = (s', o) /\ OKs2 s'.
Proof.
  intros [HI Hhb] G Hn. pose proof (iv_li true c s HI) as HL. unfold fs_remove_nl. rewrite Hro.
  assert (K : forall r, exists s' o,
     match r with
     | Ok h => if (h_tf h =? TypeDir) && eqb_str (h_link h) []
               then match inv_list (db s) name None with
                    | (p, Ok l) => match l with [] => delete_op c (set_db s p) name | _ :: _ => (set_db s p, ONotEmpty) end
                    | (p, e) => (set_db s p, outc_of_res e) end
               else delete_op c s name
     | NoRows => (s, ONotExist)
     | e => (s, outc_of_res e) end = (s', o) /\ OKs2 s').
  { intros [h| | |e]; try same_state.
    destruct ((h_tf h =? TypeDir) && eqb_str (h_link h) []); [|apply delete_okp2; [split; assumption|exact G|exact Hn]].
    pose proof (inv_list_fst true (db s) name None HL) as El.
    destruct (inv_list (db s) name None) as [p [l| | |e]]; cbn [fst] in El; subst p; rewrite set_db_same; try same_state.
    destruct l; [|same_state]. apply delete_okp2; [split; assumption|exact G|exact Hn]. }
  destruct (stat_s_false true s name HL) as (res & E2 & P). rewrite E2.
  destruct res as [h| | |e]; try contradiction.
  - apply (K (Ok h)).
  - rewrite (stat_s_true true s name HL). apply (K NoRows).
Qed.

Lemma fs_remove_ok2 s n : OKs2 s -> is_abs n = true -> (true = true -> path_clean n <> [slash]) ->
  exists s' o, fs_remove c s n = (s', o) /\ OKs2 s'.
Proof.
  intros HO Ha Hn. unfold fs_remove. rewrite Hro. apply fs_remove_nl_ok2; [exact HO|apply path_clean_abs_good; exact Ha|exact Hn].
Qed.

Lemma fs_removeall_ok2 s n : OKs2 s -> is_abs n = true -> (true = true -> path_clean n <> [slash]) ->
  exists s' o, fs_removeall c s n = (s', o) /\ OKs2 s'.
Proof.
  intros HO Ha Hn. unfold fs_removeall. rewrite Hro.
  destruct (delete_okp2 s (path_clean n) HO (path_clean_abs_good n Ha) Hn) as (s' & o & E & A). rewrite E.
  destruct o; eexists _, _; (split; [reflexivity|exact A]).
Qed.

(* ---------- Chmod / Chown / Chtimes *)


Lemma fs_update_meta_ok2 s n patch : OKs2 s -> is_abs n = true ->
  (forall h, h_name (patch h) = h_name h /\ h_link (patch h) = h_link h /\ h_pax (patch h) = h_pax h) ->
  exists s' o, fs_update_meta c s n patch = (s', o) /\ OKs2 s'.
Proof.
  intros [HI Hhb] Ha Hpatch. pose proof (iv_li true c s HI) as HL. unfold fs_update_meta. rewrite Hro.
  destruct n as [|n0 n']; [discriminate|]. set (name := path_clean (n0 :: n')).
  destruct (stat_s_false true s name HL) as (res & E2 & P). rewrite E2.
  destruct res as [h| | |e]; try contradiction.
  - destruct (from_row_facts true (db s) h HL P) as (G & Hk & Hu & Hlive).
    destruct (Hpatch h) as (P1 & P2 & P3).
    destruct (update_ok2 c HP Hrs s {| f_hdr := patch h; f_data := [] |} false false HI Hhb) as (s' & E & A & B);
      cbn [f_hdr]; rewrite ?P1, ?P2, ?P3; try assumption.
    exists s', OOk. split; [exact E|split; assumption].
  - rewrite (stat_s_true true s name HL). same_state.
Qed.

(* ---------- Rename *)
Lemma fs_rename_ok2 s a b : OKs2 s -> is_abs a = true -> is_abs b = true ->
  path_clean b <> [slash] ->
  exists s' o, fs_rename c s a b = (s', o) /\ OKs2 s'.
Proof.
  intros [HI Hhb] Ha Hb Hnb. pose proof (iv_li true c s HI) as HL. unfold fs_rename. rewrite Hro.
  pose proof (path_clean_abs_good a Ha) as Go. pose proof (path_clean_abs_good b Hb) as Gn.
  destruct a as [|a0 a']; [discriminate|]. destruct b as [|b0 b']; [discriminate|].
  set (old := path_clean (a0 :: a')) in *. set (new := path_clean (b0 :: b')) in *.
  rewrite (get_root_path_lv true (db s) HL). rewrite set_db_same.
  rewrite ?Spelling.spelling_root, ?(Spelling.spelling_good old Go), ?(Spelling.spelling_good new Gn), ?Spelling.orb_same.
  destruct (eqb_str [slash] old) eqn:Eo; [same_state|].
  assert (Hno : old <> [slash]) by (apply eqb_str_neq in Eo; congruence).
  assert (MV : forall s1, OKs2 s1 -> old <> new -> exists s' o, move_op c s1 old new = (s', o) /\ OKs2 s').
  { intros s1 [HI1 Hhb1] Hne.
    destruct (move_ok2 c HP Hrs old new Go Gn Hno Hnb Hne s1 HI1 Hhb1) as (s' & o & E & A & B).
    exists s', o. split; [exact E|split; assumption]. }
  assert (K : forall src, exists s' o,
     match src with
      | Ok sh =>
        if eqb_str old new then (s, OOk) else
        if (h_tf sh =? TypeDir) && has_prefix (trim_suffix [slash] old ++ [slash]) new then (s, OInvalid) else
        match parent_check s new with
        | (s, OOk) =>
          match stat_s s new false with
          | (s, Ok th) =>
            if negb (h_tf th =? h_tf sh) then (s, OExist)
            else match fs_remove_nl c s new with
                 | (s, OOk) => move_op c s old new
                 | x => x
                 end
          | (s, _) => move_op c s old new
          end
        | x => x
        end
      | NoRows => (s, ONotExist)
      | e => (s, outc_of_res e) end = (s', o) /\ OKs2 s').
  { intros [sh| | |e]; try same_state.
    destruct (eqb_str old new) eqn:Eon; [same_state|]. apply eqb_str_neq in Eon.
    destruct ((h_tf sh =? TypeDir) && has_prefix (trim_suffix [slash] old ++ [slash]) new); [same_state|].
    destruct (parent_check_lv true s new HL) as (o & E). rewrite E. destruct o; try same_state.
    destruct (stat_s_false true s new HL) as (res & E2 & P). rewrite E2.
    destruct res as [th| | |e]; try (apply MV; [split; assumption|exact Eon]).
    destruct (negb (h_tf th =? h_tf sh)); [same_state|].
    destruct (fs_remove_nl_ok2 s new (conj HI Hhb) Gn (fun _ => Hnb)) as (s1 & o1 & E1 & A1). rewrite E1.
    destruct o1; try (eexists _, _; split; [reflexivity|exact A1]).
    apply MV; [exact A1|exact Eon]. }
  destruct (stat_s_false true s old HL) as (res & E2 & P). rewrite E2.
  destruct res as [h| | |e]; try contradiction.
  - apply (K (Ok h)).
  - rewrite (stat_s_true true s old HL). apply (K NoRows).
Qed.

(* ---------- OpenFile / Create *)
Lemma fs_openfile_ok2 s n o perm : OKs2 s -> is_abs n = true ->
  exists s' oc hd, fs_openfile c s n o perm = (s', oc, hd) /\ OKs2 s' /\ (forall x, hd = Some x -> hd_good s' x).
Proof.
  intros [HI Hhb] Ha. pose proof (iv_li true c s HI) as HL. unfold fs_openfile.
  pose proof (path_clean_abs_good n Ha) as G.
  destruct n as [|n0 n']; [discriminate|]. set (name := path_clean (n0 :: n')) in *.
  set (fl := decode_flags c o).
  assert (FIN : forall s2 h cr, OKs2 s2 -> from_row (db s2) h ->
    exists s' oc hd,
      (if negb cr && negb (c_readonly c) && o_create o && o_excl o then (s2, OExist, None)
       else if (h_tf h =? TypeDir) && (fl_write fl || fl_append fl || fl_trunc fl) then (s2, OIsDir, None)
       else (s2, OOk, Some {| hd_path := h_name h; hd_link := h_link h; hd_flags := fl; hd_info := h;
                              hd_buf := if fl_write fl && fl_trunc fl && negb (h_tf h =? TypeDir) && negb (h_size h =? 0) then Some [] else None |}))
      = (s', oc, hd) /\ OKs2 s' /\ (forall x, hd = Some x -> hd_good s' x)).
  { intros s2 h cr HO Hfr.
    destruct (negb cr && negb (c_readonly c) && o_create o && o_excl o).
    { eexists _, _, _. split; [reflexivity|]. split; [exact HO|discriminate]. }
    destruct ((h_tf h =? TypeDir) && (fl_write fl || fl_append fl || fl_trunc fl)).
    { eexists _, _, _. split; [reflexivity|]. split; [exact HO|discriminate]. }
    eexists _, _, _. split; [reflexivity|]. split; [exact HO|]. intros x Hx. inversion Hx; subst x.
    split; [exact Hfr|split; reflexivity]. }
  assert (NOH : forall s2 oc, OKs2 s2 -> exists s' oc' (hd : option handle), ((s2, oc, None) : sys * outc * option handle) = (s', oc', hd) /\ OKs2 s' /\
                 (forall x, hd = Some x -> hd_good s' x)).
  { intros s2 oc HO. eexists _, _, _. split; [reflexivity|]. split; [exact HO|discriminate]. }
  destruct (stat_s_false true s name HL) as (res & E2 & P). rewrite E2.
  destruct res as [h| | |e]; try contradiction.
  - apply FIN; [split; assumption|exact P].
  - rewrite (stat_s_true true s name HL).
    destruct (negb (c_readonly c) && o_create o); [|apply NOH; split; assumption].
    destruct (parent_check_lv2 true s name HL) as (o1 & E & Hal). rewrite E.
    destruct o1; try (apply NOH; split; assumption).
    destruct (mknode_ok2 c HP Hrs Hro s false name perm HI Hhb G (alive_cpre _ _ (Hal eq_refl))) as (s1 & E1 & A1 & B1 & _). rewrite E1.
    pose proof (iv_li true c s1 A1) as HL1.
    destruct (stat_s_false true s1 name HL1) as (res & E3 & P3). rewrite E3.
    destruct res as [h| | |e]; try contradiction.
    + apply FIN; [split; assumption|exact P3].
    + apply NOH; split; assumption.
Qed.

Lemma fs_create_ok2 s n : OKs2 s -> is_abs n = true ->
  exists s' oc hd, fs_create c s n = (s', oc, hd) /\ OKs2 s' /\ (forall x, hd = Some x -> hd_good s' x).
Proof.
  intros [HI Hhb] Ha. pose proof (iv_li true c s HI) as HL. unfold fs_create. rewrite Hro.
  pose proof (path_clean_abs_good n Ha) as G.
  destruct n as [|n0 n']; [discriminate|]. set (name := path_clean (n0 :: n')) in *.
  destruct (parent_check_lv true s name HL) as (o1 & E). rewrite E.
  destruct o1; try (eexists _, _, _; split; [reflexivity|]; split; [split; assumption|discriminate]).
  apply fs_openfile_ok2; [split; assumption|apply good_abs; exact G].
Qed.

(* ---------- Write / Close *)
Lemma handle_close_ok2 s hd buf : OKs2 s -> hd_good s hd ->
  exists s' o, handle_close c s hd buf = (s', o) /\ OKs2 s'.
Proof.
  intros [HI Hhb] (Hfr & Hp & Hl). pose proof (iv_li true c s HI) as HL. unfold handle_close.
  destruct buf as [b|]; [|same_state].
  destruct (from_row_facts true (db s) _ HL Hfr) as (G & Hk & Hu & Hlive).
  destruct (update_ok2 c HP Hrs s {| f_hdr := stamp_mtime (flush_hdr hd (clen b)) (clk s); f_data := b |} true true HI Hhb) as (s' & E & A & B);
    cbn [f_hdr stamp_mtime flush_hdr h_name h_link h_pax]; rewrite ?Hp, ?Hl; try assumption.
  - exact I.
  - exists s', OOk. split; [exact E|split; assumption].
Qed.

Lemma write_close_ok2 s hd d force : OKs2 s -> hd_good s hd ->
  exists s' o, write_close c s hd d force = (s', o) /\ OKs2 s'.
Proof.
  intros HO Hg. pose proof (iv_li true c s (proj1 HO)) as HL. unfold write_close.
  assert (K : exists s' o,
     match handle_write_all c s hd d with
     | (s0, OOk, Some b) => handle_close c s0 hd (Some b)
     | (s0, e, _) => (s0, e) end = (s', o) /\ OKs2 s').
  { pose proof (handle_write_all_lv true c s hd d HL) as E.
    destruct (handle_write_all c s hd d) as [[s1 o1] ob]. cbn [fst] in E. subst s1.
    destruct o1; try (eexists _, _; split; [reflexivity|exact HO]).
    destruct ob as [b|]; [|eexists _, _; split; [reflexivity|exact HO]].
    apply handle_close_ok2; assumption. }
  destruct d; [destruct force; [exact K|apply handle_close_ok2; assumption]|exact K].
Qed.

(* ---------- every call *)
Lemma step_ok2 s k : OKs2 s -> fs_call k = true -> rename_ok k = true -> root_kept k = true ->
  exists s' o, step c s k = (s', o) /\ OKs2 s'.
Proof.
  intros HO Hf Hc Hk0. assert (Hk : true = true -> root_kept k = true) by (intros _; exact Hk0). clear Hk0. pose proof (iv_li true c s (proj1 HO)) as HL.
  destruct k; cbn [step fs_call rename_ok root_kept is_reopen] in *; try discriminate.
  - eapply fs_mkdir_ok2; eassumption.
  - eapply fs_mkdirall_ok2; eassumption.
  - eapply fs_remove_ok2; try eassumption. intro Hhr. specialize (Hk Hhr). apply negb_true_iff in Hk. apply eqb_str_neq. exact Hk.
  - eapply fs_removeall_ok2; try eassumption. intro Hhr. specialize (Hk Hhr). apply negb_true_iff in Hk. apply eqb_str_neq. exact Hk.
  - apply andb_true_iff in Hf as [Ha Hb]. apply negb_true_iff in Hc.
    apply fs_rename_ok2; try assumption. apply eqb_str_neq. exact Hc.
  - eapply fs_update_meta_ok2; try eassumption. intro h. repeat split.
  - eapply fs_update_meta_ok2; try eassumption. intro h. repeat split.
  - eapply fs_update_meta_ok2; try eassumption. intro h. repeat split.
  - destruct (fs_create_ok2 s n HO Hf) as (s1 & oc & hd & E & A & B). rewrite E.
    destruct oc; try (eexists _, _; split; [reflexivity|exact A]).
    destruct hd as [hd|]; [|eexists _, _; split; [reflexivity|exact A]].
    apply write_close_ok2; [exact A|apply B; reflexivity].
  - destruct (fs_openfile_ok2 s n o perm HO Hf) as (s1 & oc & hd & E & A & B). rewrite E.
    destruct oc; try (eexists _, _; split; [reflexivity|exact A]).
    destruct hd as [hd|]; [|eexists _, _; split; [reflexivity|exact A]].
    apply write_close_ok2; [exact A|apply B; reflexivity].
  - unfold fs_initialize. rewrite (get_root_path_lv true (db s) HL). rewrite set_db_same.
    eexists _, _. split; [reflexivity|exact HO].
  - rewrite (p_open_lv (db s) HL). rewrite set_db_same.
    eexists _, _. split; [reflexivity|exact HO].
  - eexists _, _. split; [reflexivity|exact HO].
Qed.
End FsOps.
