(* T02w / tests, the runs: every call of [wcalls] (T02wTest.v: 13 names x 48 flag combinations x 5 data x force = 6240 calls)
   in two states, evaluated with vm_compute. *)
From Coq Require Import String List NArith ZArith Bool.
Import ListNotations.
From STFS Require Import Str Db Tape Index Ops Fs File Diff Norm C01Str T02Ns T02Test T04Def T04Test T02wNs T02wTest.
Open Scope string_scope.
Open Scope N_scope.

(* the implementation agrees with [spec_write_file_q true] on every call *)
(* the implementation agrees with [spec_write_file_q true] on every call *)
Example wtest_exact_st1 : forallb (wcheck true tcfg wst1 (e0 99)) wcalls = true.
Proof. vm_compute. reflexivity. Qed.
Example wtest_exact_st2 : forallb (wcheck true tcfg wst2 (e0 99)) wcalls = true.
Proof. vm_compute. reflexivity. Qed.

(* ... and with the reference on every call that is not one of the corners W1, W2, W3; on every corner it differs *)
Example wtest_ref_st1 : forallb (fun k => is_wcorner wst1 k || wcheck false tcfg wst1 (e0 99) k) wcalls = true.
Proof. vm_compute. reflexivity. Qed.
Example wtest_ref_st2 : forallb (fun k => is_wcorner wst2 k || wcheck false tcfg wst2 (e0 99) k) wcalls = true.
Proof. vm_compute. reflexivity. Qed.
Example wtest_corners_differ :
  forallb (fun st => forallb (fun k => negb (wcheck false tcfg st (e0 99) k)) (filter (is_wcorner st) wcalls)) [wst1; wst2] = true.
Proof. vm_compute. reflexivity. Qed.
Example wtest_corner_count : map (fun st => length (filter (is_wcorner st) wcalls)) [wst1; wst2] = [129; 93]%nat.
Proof. vm_compute. reflexivity. Qed.
