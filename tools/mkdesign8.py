#!/usr/bin/env python3
"""Refreshes the generated parts of DESIGN.md section 8 (fix list, open findings, seeded-change table) from
known_findings.json and seeded/*/meta.json. The parts live between <!-- GEN:x --> and <!-- /GEN:x --> markers."""
import json, glob, os, re
V = os.path.dirname(os.path.dirname(os.path.abspath(__file__)))
s = open(os.path.join(V, "DESIGN.md")).read()
k = json.load(open(os.path.join(V, "known_findings.json")))
fixed = "\n".join("* `%s`" % f for f in k["fixed"])
openf = "\n".join("* **%s** (%s): %s  \n  witness: %s" % (f["id"], ", ".join(f["properties"]), f["what"], f.get("witness", "—"))
                  for f in k["findings"] if f.get("status", "open") == "open")
rows = []
for d in sorted(glob.glob(os.path.join(V, "seeded", "*"))):
    m = json.load(open(os.path.join(d, "meta.json")))
    ch = re.sub(r"\s+", " ", (m.get("change") or m.get("agent_meta", {}).get("summary", "")))[:170].replace("|", "/")
    note = re.sub(r"\s+", " ", (m.get("note") or "caught at the first run"))[:260].replace("|", "/")
    rows.append("| %s | %s | %s | %s |" % (os.path.basename(d), ch, ", ".join(m.get("caught_by", [])), note))
seeds = "| seed | change | caught by | history of the check |\n|------|--------|-----------|----------------------|\n" + "\n".join(rows)
for name, body in (("fixed", fixed), ("open", openf), ("seeds", seeds)):
    pat = re.compile(r"(<!-- GEN:%s -->\n).*?(\n<!-- /GEN:%s -->)" % (name, name), re.S)
    assert pat.search(s), name
    s = pat.sub(lambda mm: mm.group(1) + body + mm.group(2), s)
open(os.path.join(V, "DESIGN.md"), "w").write(s)
print("DESIGN.md section 8 refreshed:", len(k["fixed"]), "fixes,", len(rows), "seeds")
