#!/usr/bin/env python3
"""Regenerates /verif/MANIFEST.json from the table below (keeps it valid at all times)."""
import json, os
V = os.path.dirname(os.path.dirname(os.path.abspath(__file__)))
props = [json.loads(l) for l in open(os.path.join(V, "properties.jsonl"))]
M2 = "proof over the control skeleton regenerated from the Go source on every run (translator goskel) by a verified abstract interpreter (Coq: post_sound/check_sound), closed by vm_compute"
M1 = "theorems about the hand-written executable Coq model M1, tied to /repo on every run by a correspondence check (same histories on the real code and in Coq, compared on outcomes, all index rows, visible tree, tape length), plus the property stated directly on the implementation as oracle"
CLAIMS = {
 "C01": dict(tech="Coq theorems on model M1 + differential correspondence + rebuild/reopen oracle", text=M1 + ". Proved so far: the rebuild depends on the tape only and the tape it reads is a stable prefix; the full equivalence statement is kept as C01_full_statement and decided on every run by the rebuild/reopen oracle over generated histories (partial proof).", ref="3 C01"),
 "C02": dict(tech="Coq theorems on model M1 + differential correspondence + reference-filesystem oracle (afero OsFs)", text=M1 + ". Proved so far: read-only refusal leaves the state untouched; the comparison with the reference filesystem is run side by side on the implementation (partial proof).", ref="3 C02"),
 "C04": dict(tech="Coq proof of the block arithmetic and position stability + differential correspondence + tar-scan/Fetch/Query oracle", text=M1 + ". Proved for every record size >= 1 and every offset: block < record size, seek formula inverts the position, uniqueness, dead branches; and by induction over ALL histories (any calls, any outcomes): every row's content position and last-known position are record starts on the tape with block < record size, last-known >= content position, and positions keep designating the same record under every later history. That the designated record is the one carrying the entry's current content is decided by the tar-scan/Fetch oracle.", ref="3 C04"),
 "C05": dict(tech="Coq proof by induction over histories (append-only) + differential correspondence + byte-prefix/tar-scan oracle", text=M1 + ". Proved: for every call and every history the previous tape is a prefix of the new one (step_extends, final_extends).", ref="3 C05"),
 "C06": dict(tech="Coq proof of the cut-tape layout theorem (for every tape and every cut length) + every-byte prefix sweep as correspondence + oracle", text=M1 + ". Proved for every tape and cut: the applied headers are a prefix of the records, every applied record but the last is wholly present, an error is reported iff the last one's data is cut, untouched records fetch exactly; the cut-to-outcome table is tied by sweeping cut lengths over generated tapes.", ref="3 C06"),
 "C07": dict(tech="model of replay-into-populated-index evaluated in Coq against the implementation + replay oracle; statement proved on a witness tape for every prefix length", text=M1 + ". The general convergence statement is kept as C07_full_statement; decided on every run by replaying generated tapes into prefix indexes on the implementation (partial proof).", ref="3 C07"),
 "C14": dict(tech="handle state-machine model + byte-array reference in Coq, correspondence over handle-call sequences, side-by-side reference run (afero OsFs)", text=M1 + ". Model/File.v (hstep) is tied by handle-call sequences; the reference comparison runs on the implementation; PROVED (C14_refines, C14_refines_wide): for every initial content, flag combination without O_APPEND and every call sequence inside the envelope (no positioned I/O, read-mode seeks not beyond the end) each call returns what the byte-array reference returns and the content after Close is the reference's data; every envelope restriction is shown necessary by a refutation witness = the listed known findings.", ref="3 C14"),
 "C16": dict(tech="Coq theorems on the Initialize model (never rewrites, appends only when neither index nor tape yields a root) + cut-tape model + opening oracle over cut tapes x index kinds", text=M1 + ". Proved: Initialize extends the tape at most, leaves it untouched whenever the index knows a root or the tape replays (even up to a damaged tail) to an index with a root; faithfulness after opening and durability of later writes are decided by the oracle (two known findings: stale index, appends after a damaged tail).", ref="3 C16"),
 "C10": dict(tech="verified monitor check over the regenerated control skeleton (lock discipline on every path) + fault enumeration on the implementation", text=M2 + ": every path of every exported call (every error branch = every fault point, any number of loop iterations) ends with no lock held; known finding: the streaming read goroutine.", ref="3 C10"),
 "C12": dict(tech="Coq proof of the subtree selection (LIKE implied by exact prefix, children characterisation) + differential correspondence + subtree oracle", text=M1 + ". Proved for all byte strings: the children selected are exactly the live rows under <dir>/, the LIKE pre-filter loses none; the raw LIKE is refuted by witness.", ref="3 C12"),
 "C13": dict(tech="Coq proof of the limit law + differential correspondence + walk/Stat/limit oracle", text=M1 + ". Proved: a count-limited listing never exceeds the count; reachability, parent and lookup agreement are decided by the oracle on every run (partial proof).", ref="3 C13"),
 "C15": dict(tech="verified monitor check over the regenerated control skeleton (assume read-only, forbid mutating actions) + model theorem + sha-256 oracle", text=M2 + ": assuming readOnly, no path of any STFS method reaches a mutating action and every mutator returns os.ErrPermission; handles without the write flag preserve (no write buffer) and never mutate; OpenFile grants write flags only when not read-only.", ref="3 C15"),
}
checks, na = [], []
for p in props:
    pid = p["id"]
    if pid in CLAIMS:
        c = CLAIMS[pid]
        checks.append(dict(property_id=pid, quick_cmd="./check %s --tier quick" % pid, thorough_cmd="./check %s --tier thorough" % pid,
                           evidence_file="/verif/evidence/%s.json" % pid, replay_cmd_template="./check %s --replay {path}" % pid,
                           engine="coq-m1m2", level_claimed=dict(category="proof", text=c["text"], design_ref="DESIGN.md section " + c["ref"]),
                           level_note="trusted base: Coq 8.16.1 kernel + vm_compute (no native_compute), no axioms (Print Assumptions recorded in evidence); translator goskel and hand-written drive-manager primitives (M2); hand-written model and differential harness (M1); archive/tar, SQLite, crypto and compression libraries are modelled, not verified",
                           technique=c["tech"]))
    else:
        na.append(dict(property_id=pid, reason="check under construction in this round (machinery planned in DESIGN.md section 3); not claimed yet"))
m = dict(version=1, setup_cmd="tools/setup.sh",
         hooks=dict(guard="verif", enable="go build -tags verif (no hook is needed so far: faults, yields and accounting go through BackendConfig / MetadataPersister wrappers)",
                    baseline_off_cmd="tools/baseline.sh", source_commits=[], add_only=True),
         engines=[dict(name="coq-m1m2", path="/verif/coq", serves_properties=sorted(CLAIMS), kind_free_text="Coq 8.16.1 development: Skel (skeleton language, verified interpreter), Gen (regenerated from /repo), Mon (monitors), Model (M1), Proofs, Props; Go harness stfsdrv + translator goskel; Python driver ./check")],
         checks=checks, not_applicable=na,
         notes="See DESIGN.md. Fix commits in /repo are listed in known_findings.json ('fixed').")
json.dump(m, open(os.path.join(V, "MANIFEST.json"), "w"), indent=1)
print("claimed", len(checks), "not claimed", len(na))
