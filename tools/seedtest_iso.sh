#!/bin/sh
# usage: tools/seedtest_iso.sh <repo-worktree-with-the-change-applied> <prop>...
# Runs the checks against a scratch copy of pojntfx/stfs WITHOUT touching /repo: a scratch copy of /verif (working tree,
# build output included, caches excluded) is pointed at the given tree (REPO=..., harness go.mod replace), used, removed.
# Equivalent to `git -C /repo apply; ./check ...; git -C /repo checkout -- .` but usable while other runs read /repo.
set -u
W="$(cd "$1" && pwd)"; shift
S="$(mktemp -d /tmp/vseed.XXXXXX)"
rsync -a --exclude .cache --exclude .work --exclude replays --exclude evidence --exclude .git /verif/ "$S/"
mkdir -p "$S/.work" "$S/evidence" "$S/replays"
sed -i "s|=> /repo|=> $W|" "$S/harness/go.mod"
cp -f "$W/go.sum" "$S/harness/go.sum"
cd "$S"
for p in "$@"; do
  echo "=== $p"
  REPO="$W" timeout 1800 ./check "$p" --tier quick 2>&1 | grep -v "^NOTE" | tail -4 | sed "s|$S|/verif|g"
done
mkdir -p /verif/replays/iso; cp -f "$S"/replays/*.json /verif/replays/iso/ 2>/dev/null
cd /; rm -rf "$S"
