#!/bin/sh
# usage: tools/seedtest.sh <patch.diff> <prop>...   -- applies a seeded change to /repo, runs the checks, reverts
set -u
P="$1"; shift
cd /repo && git diff --quiet || { echo "repo dirty"; exit 2; }
git -C /repo apply "$P" || { echo "patch does not apply"; exit 2; }
cd /verif
for p in "$@"; do
  echo "=== $p"
  timeout 1500 ./check "$p" --tier quick 2>&1 | grep -v "^NOTE" | tail -4
  echo "exit=$?"
done
git -C /repo checkout -- .
git -C /repo status --short | head -3
