#!/bin/sh
# Full .vo build of /verif/coq (never -vos).  Usage: tools/coqbuild.sh [make-args]
set -e
cd "$(dirname "$0")/../coq"
{ grep '^-Q' _CoqProject; find Skel Gen Mon Model Proofs Props -name '*.v' 2>/dev/null | sort; } > _CoqProject.all
coq_makefile -f _CoqProject.all -o Makefile > /dev/null
exec timeout 3000 make -j16 "$@"
