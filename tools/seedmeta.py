#!/usr/bin/env python3
"""usage: tools/seedmeta.py <Cxx> <n> <caught_by,comma> [note]  -- writes seeded/<Cxx>-<n>/meta.json from agent_meta.json and checks.txt"""
import json, os, sys
pid, n, caught = sys.argv[1], sys.argv[2], [x for x in sys.argv[3].split(",") if x]
note = sys.argv[4] if len(sys.argv) > 4 else ""
d = "/verif/seeded/%s-%s" % (pid, n)
am = {}
try:
    am = json.load(open(os.path.join(d, "agent_meta.json")))
except Exception:
    pass
checks = open(os.path.join(d, "checks.txt")).read() if os.path.exists(os.path.join(d, "checks.txt")) else ""
ran = sorted(set(l[4:].strip() for l in checks.splitlines() if l.startswith("=== ")))
m = dict(property=pid, change=am.get("summary", "")[:300], needs_to_manifest=am.get("needs", "")[:400],
         written_by="independent sub-agent given only the property text and a scratch worktree",
         confirmed="demo test fails with the change and passes without (demo_with.txt / demo_without.txt); go build ok; pinned suite ok (agent run)",
         ran="tools/seedtest.sh patch.diff %s (output in checks.txt)" % " ".join(ran), caught_by=caught, note=note, agent_meta=am)
json.dump(m, open(os.path.join(d, "meta.json"), "w"), indent=1)
os.remove(os.path.join(d, "agent_meta.json")) if os.path.exists(os.path.join(d, "agent_meta.json")) else None
print("wrote", d + "/meta.json", "caught_by", caught)
