#!/bin/sh
# usage: tools/seedregress.sh [seed-dir-names...]   -- re-runs every kept seeded change against the current checks (isolated copies;
# /repo is not touched): for each seeded/<id>-<n> a scratch worktree of /repo HEAD gets the patch, then the properties in meta.json
# `caught_by` (or the seed's own property) are checked. Prints one line per seed: CAUGHT / MISSED / NOAPPLY.
set -u
cd /verif
LIST="${*:-$(ls seeded)}"
for d in $LIST; do
  P=/verif/seeded/$d/patch.diff
  [ -f "$P" ] || continue
  W=$(mktemp -d /tmp/seedw.XXXXXX); rmdir "$W"
  git -C /repo worktree add --detach "$W" >/dev/null 2>&1
  if ! git -C "$W" apply "$P" 2>/dev/null; then
    if ! git -C "$W" apply --3way "$P" >/dev/null 2>&1; then echo "$d NOAPPLY"; git -C /repo worktree remove --force "$W"; continue; fi
  fi
  PROPS=$(python3 -c "import json,sys; m=json.load(open('/verif/seeded/$d/meta.json')); print(' '.join(m.get('caught_by') or [m['property']]))")
  OUT=$(tools/seedtest_iso.sh "$W" $PROPS 2>&1)
  echo "$OUT" > /verif/seeded/$d/checks.txt
  if echo "$OUT" | grep -q "^VIOLATION"; then
    WITH=$(echo "$OUT" | grep "^VIOLATION" | grep -v "no-failing-input-found" | sed 's/.*property=\([A-Z0-9]*\).*/\1/' | sort -u | tr '\n' ' ')
    ONLY=$(echo "$OUT" | grep "no-failing-input-found" | sed 's/.*property=\([A-Z0-9]*\).*/\1/' | sort -u | tr '\n' ' ')
    echo "$d CAUGHT with-input: $WITH obligation-only: $ONLY"
  else
    echo "$d MISSED ($PROPS)"
  fi
  git -C /repo worktree remove --force "$W"
done
