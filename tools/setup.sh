#!/bin/sh
# Build the framework from files on disk only (offline): translator, harness, generated skeleton, Coq development.
set -e
V="$(cd "$(dirname "$0")/.." && pwd)"
export GOFLAGS=-mod=mod GOPROXY=off GOSUMDB=off GOTOOLCHAIN=local
cp -f /repo/go.sum "$V/harness/go.sum"
mkdir -p "$V/bin" "$V/.work" "$V/evidence" "$V/replays"
(cd "$V/harness" && go build -o "$V/bin/goskel" ./cmd/goskel && go build -tags verif -o "$V/bin/stfsdrv" ./cmd/stfsdrv)
"$V/tools/gen.sh"
"$V/tools/coqbuild.sh"
