#!/bin/sh
# Regenerate coq/Gen/*.v from /repo's current working tree.
set -e
V="$(cd "$(dirname "$0")/.." && pwd)"
export GOFLAGS=-mod=mod GOPROXY=off GOSUMDB=off GOTOOLCHAIN=local
mkdir -p "$V/bin"
[ -f "$V/harness/go.sum" ] || cp /repo/go.sum "$V/harness/go.sum"
(cd "$V/harness" && go build -o "$V/bin/goskel" ./cmd/goskel)
mkdir -p "$V/coq/Gen.tmp"
"$V/bin/goskel" "${REPO:-/repo}" "$V/coq/Gen.tmp" pkg/fs pkg/operations pkg/recovery pkg/signature pkg/encryption pkg/compression pkg/keys pkg/utility pkg/tape pkg/inventory internal/tarext internal/suffix pkg/cache
# only touch the file when its content changed, so make does not rebuild needlessly
mkdir -p "$V/coq/Gen"
for f in "$V"/coq/Gen.tmp/*.v; do
  b=$(basename "$f")
  if ! cmp -s "$f" "$V/coq/Gen/$b"; then mv "$f" "$V/coq/Gen/$b"; fi
done
rm -rf "$V/coq/Gen.tmp"
