#!/bin/sh
# Runs the repository's pinned baseline (guard off) and compares with /root/.vp/BASELINE.json stable_pass.
export GOFLAGS=-mod=mod GOPROXY=off GOSUMDB=off GOTOOLCHAIN=local
OUT=$(mktemp /root/baseline.XXXXXX.json)
(cd "${REPO:-/repo}" && go build ./... && go test -json -vet=off -count=1 -timeout 25m ./... > "$OUT" 2>/dev/null)
python3 - "$OUT" <<'PY'
import json,sys
passed=set();failed=set()
for line in open(sys.argv[1],errors='replace'):
    line=line.strip()
    if not line.startswith('{'): continue
    try: e=json.loads(line)
    except Exception: continue
    if e.get('Test') is None: continue
    t=e.get('Package','')+'::'+e['Test']
    if e.get('Action')=='pass': passed.add(t)
    elif e.get('Action')=='fail': failed.add(t)
passed-=failed
b=json.load(open('/root/.vp/BASELINE.json'))
want=set(b['stable_pass'])
missing=sorted(want-passed)
print('baseline: stable_pass=%d passed_now=%d missing=%d'%(len(want),len(passed&want),len(missing)))
for m in missing[:10]: print('  MISSING',m)
sys.exit(1 if missing else 0)
PY
rc=$?
rm -f "$OUT"
exit $rc
