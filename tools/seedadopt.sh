#!/bin/sh
# usage: tools/seedadopt.sh <Cxx> <n> '<go test args of the demo>' <checks...>
# confirms the agent's seed in its scratch worktree (/tmp/seed/Cxx), copies it to seeded/, runs the checks against it
set -u
P="$1"; N="$2"; DEMO="$3"; shift 3
W=/tmp/seed/$P
D=/verif/seeded/$P-$N
export GOFLAGS=-mod=mod GOPROXY=off GOSUMDB=off GOTOOLCHAIN=local
mkdir -p "$D"
cp "$W/seed_patch.diff" "$D/patch.diff"
cp "$W/seed_meta.json" "$D/agent_meta.json" 2>/dev/null
(cd "$W" && git status --short | grep -v 'seed_patch\|seed_meta' | grep '^??' | awk '{print $2}' | while read f; do if [ -d "$f" ]; then cp -r "$f" "$D/"; else cp "$f" "$D/"; fi; done)
echo "--- demo WITH the change (must fail)"
(cd "$W" && git apply --check -R seed_patch.diff 2>/dev/null || git apply seed_patch.diff; go test $DEMO 2>&1 | tail -3) > "$D/demo_with.txt"; tail -2 "$D/demo_with.txt"
echo "--- demo WITHOUT the change (must pass)"
(cd "$W" && git apply -R seed_patch.diff && go test $DEMO 2>&1 | tail -3; git apply seed_patch.diff) > "$D/demo_without.txt"; tail -2 "$D/demo_without.txt"
echo "--- pinned tests still pass with the change? (agent reported; build check only here)"
(cd "$W" && go build ./... && echo build-ok)
/verif/tools/seedtest_iso.sh "$W" "$@" | tee "$D/checks.txt"
