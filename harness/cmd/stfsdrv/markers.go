package main

import (
	"archive/tar"
	"bufio"
	"bytes"
	"encoding/base64"
	"encoding/hex"
	"encoding/json"
	"fmt"
	"io"
	iofs "io/fs"
	"os"
	"os/user"
	"path/filepath"
	"strings"
	"time"

	"github.com/pojntfx/stfs/pkg/config"
	"github.com/pojntfx/stfs/pkg/encryption"
	"github.com/pojntfx/stfs/pkg/mtio"
	"github.com/pojntfx/stfs/pkg/recovery"
	"github.com/pojntfx/stfs/pkg/signature"
	"github.com/spf13/afero"
)

// C09: with encryption on, the raw tape contains none of the markers planted in names and contents
// (raw, base64, hex), none of the STFS action metadata, and a foreign identity can neither index nor fetch.

func init() { extraCmds["markers"] = cmdMarkers }

type markersJob struct {
	History History  `json:"history"`
	Markers []string `json:"markers"`
}

func encodings(m string) map[string][]byte {
	out := map[string][]byte{"raw": []byte(m), "hex": []byte(hex.EncodeToString([]byte(m))), "HEX": []byte(strings.ToUpper(hex.EncodeToString([]byte(m))))}
	// base64 at the three alignments: drop the characters that depend on the neighbours
	for a := 0; a < 3; a++ {
		pad := strings.Repeat("\x00", a)
		e := base64.StdEncoding.EncodeToString([]byte(pad + m))
		start := 0
		if a > 0 {
			start = (a*8 + 5) / 6
		}
		e = strings.TrimRight(e, "=")
		if len(e) > start+6 {
			out[fmt.Sprintf("b64@%d", a)] = []byte(e[start : len(e)-2])
		}
	}
	return out
}

func cmdMarkers(args []string, w *bufio.Writer) {
	var job markersJob
	if err := json.NewDecoder(os.Stdin).Decode(&job); err != nil {
		os.Exit(2)
	}
	h := job.History
	base := os.Getenv("VERIF_SCRATCH")
	if base == "" {
		base = os.TempDir()
	}
	dir, _ := os.MkdirTemp(base, "stfsmark-")
	defer os.RemoveAll(dir)
	keysDir := filepath.Join(base, "stfsdrv-keys")
	ks, err := loadOrGenKeys(keysDir, h.Config.Enc, h.Config.Sig, h.Config.Password, "k1")
	if err != nil {
		emit(w, map[string]interface{}{"fatal": err.Error()})
		return
	}
	k2, err := loadOrGenKeys(keysDir, h.Config.Enc, h.Config.Sig, h.Config.Password, "k2")
	if err != nil {
		emit(w, map[string]interface{}{"fatal": err.Error()})
		return
	}
	r := &runner{h: h, ks: ks, dir: dir, files: map[string]afero.File{}, shaBlob: map[string]int{}}
	// contents: the blob's marker (index into Markers by seed) surrounded by filler
	for _, b := range h.Blobs {
		d := pattern(b)
		if b.Seed > 0 && b.Seed <= len(job.Markers) && len(d) >= len(job.Markers[b.Seed-1])+8 {
			copy(d[4:], []byte(job.Markers[b.Seed-1]))
		}
		r.blobs = append(r.blobs, d)
	}
	in, err := mk(h.Config, filepath.Join(dir, "drive.tar"), filepath.Join(dir, "meta.sqlite"), dir, ks, &seams{})
	if err != nil {
		emit(w, map[string]interface{}{"fatal": err.Error()})
		return
	}
	r.in = in
	needles := map[string][]byte{}
	for i, m := range job.Markers {
		for k, v := range encodings(m) {
			needles[fmt.Sprintf("marker%d/%s", i, k)] = v
		}
	}
	for _, s := range []string{"STFS.Action", "STFS.ReplacesName", "STFS.ReplacesContent", "STFS.UncompressedSize", "STFS.Version", "STFS.Signature"} {
		needles["meta/"+s] = []byte(s)
	}
	if u, err := user.Current(); err == nil && len(u.Username) >= 4 {
		needles["owner/uname"] = []byte(`"Uname":"` + u.Username)
	}
	for i, c := range h.Calls {
		done := make(chan error, 1)
		go func() { _, e := r.exec(c); done <- e }()
		var cerr error
		select {
		case cerr = <-done:
		case <-time.After(30 * time.Second):
			emit(w, map[string]interface{}{"i": i, "out": "HANG"})
			return
		}
		tape, _ := os.ReadFile(in.drive)
		found := []string{}
		for k, n := range needles {
			if len(n) >= 6 && bytes.Contains(tape, n) {
				found = append(found, k)
			}
		}
		emit(w, map[string]interface{}{"i": i, "op": c.Op, "out": classify(cerr), "tape_len": len(tape), "found": found})
	}
	// a second, unrelated identity can neither rebuild nor fetch
	sub, _ := os.MkdirTemp(dir, "other")
	other, err := mk(h.Config, in.drive, filepath.Join(sub, "m.sqlite"), sub, k2, &seams{})
	if err != nil {
		emit(w, map[string]interface{}{"fatal": "mk other: " + err.Error()})
		return
	}
	accepted := 0
	rd, _ := other.bc.GetReader()
	ierr := recovery.Index(rd, mtio.MagneticTapeIO{}, other.mc, other.pipes, other.rcrypt, 0, 0, true, false, 0,
		func(hh *tar.Header, k int) error {
			return encryption.DecryptHeader(hh, other.pipes.Encryption, other.rcrypt.Identity)
		},
		func(hh *tar.Header, reg bool) error {
			return signature.VerifyHeader(hh, reg, other.pipes.Signature, other.rcrypt.Recipient)
		},
		func(hd *config.Header) { accepted++ })
	other.bc.CloseReader()
	res := map[string]interface{}{"step": "foreign-identity", "index": classify(ierr), "accepted": accepted}
	// fetch every position of the legit index with the foreign identity
	rows, _ := dumpRows(in.meta)
	leaks := []string{}
	for _, row := range rows {
		if row.Deleted != 0 || row.Typeflag != int64(tar.TypeReg) {
			continue
		}
		var buf bytes.Buffer
		rd, err := other.bc.GetReader()
		if err != nil {
			continue
		}
		err = func() (e error) {
			defer func() {
				if x := recover(); x != nil {
					e = fmt.Errorf("panic %v", x)
				}
			}()
			return recovery.Fetch(rd, mtio.MagneticTapeIO{}, other.pipes, other.rcrypt,
				func(p string, m iofs.FileMode) (io.WriteCloser, error) { return nopWC{&buf}, nil },
				func(p string, m iofs.FileMode) error { return nil }, int(row.Record), int(row.Block), "x", false, nil)
		}()
		other.bc.CloseReader()
		if err == nil {
			leaks = append(leaks, row.Name)
		}
	}
	res["fetch_succeeded_for"] = leaks
	// the same through Operations.Restore and through the filesystem of an instance that shares the INDEX of the writer but
	// holds the foreign identity: no entry (directories and empty files included) may be restored or read
	restored := []string{}
	sub2, _ := os.MkdirTemp(dir, "other2")
	if other2, err := mk(h.Config, in.drive, in.meta, sub2, k2, &seams{}); err == nil {
		for _, row := range rows {
			if row.Deleted != 0 {
				continue
			}
			n := row.Name
			err := func() (e error) {
				defer func() {
					if x := recover(); x != nil {
						e = fmt.Errorf("panic %v", x)
					}
				}()
				var buf bytes.Buffer
				return other2.ro.Restore(
					func(p string, m iofs.FileMode) (io.WriteCloser, error) { return nopWC{&buf}, nil },
					func(p string, m iofs.FileMode) error { return nil }, n, "", true)
			}()
			if err == nil {
				restored = append(restored, "restore:"+n)
			}
			if row.Typeflag == int64(tar.TypeReg) {
				r2 := &runner{h: h, in: other2, ks: k2, dir: sub2}
				if _, rerr := r2.readAll(other2.s, n); rerr == nil {
					restored = append(restored, "read:"+n)
				}
			}
		}
	}
	res["restored_with_foreign_identity"] = restored
	emit(w, res)
}
