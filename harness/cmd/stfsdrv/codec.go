package main

import (
	"bufio"
	"bytes"
	"encoding/json"
	"fmt"
	"io"
	"os"
	"path/filepath"

	"github.com/pojntfx/stfs/pkg/compression"
	"github.com/pojntfx/stfs/pkg/config"
	"github.com/pojntfx/stfs/pkg/encryption"
	"github.com/pojntfx/stfs/pkg/signature"
)

func init() {
	extraCmds["codec"] = cmdCodec
}

type codecJob struct {
	Comps   []string `json:"comps"`
	Levels  []string `json:"levels"`
	Encs    []string `json:"encs"`
	Sigs    []string `json:"sigs"`
	RS      []int    `json:"rs"`
	Regular []bool   `json:"regular"`
	Blobs   []Blob   `json:"blobs"`
}

// C03 at the codec interfaces, with the drive-kind flag in both positions (the tape parameters cannot be reached
// through a file-backed drive): sign -> compress -> encrypt, then decrypt -> decompress -> verify, exactly the
// calls archive.go and fetch.go make.
func cmdCodec(args []string, w *bufio.Writer) {
	var job codecJob
	if err := json.NewDecoder(os.Stdin).Decode(&job); err != nil {
		os.Exit(2)
	}
	base := os.Getenv("VERIF_SCRATCH")
	if base == "" {
		base = os.TempDir()
	}
	keysDir := filepath.Join(base, "stfsdrv-keys")
	for _, enc := range job.Encs {
		for _, sig := range job.Sigs {
			ks, err := loadOrGenKeys(keysDir, enc, sig, "", "k1")
			if err != nil {
				emit(w, map[string]interface{}{"result": "harness:keys:" + err.Error()})
				continue
			}
			wc, rc, err := parseCrypto(Config{Enc: enc, Sig: sig}, ks)
			if err != nil {
				emit(w, map[string]interface{}{"result": "harness:parse:" + err.Error()})
				continue
			}
			for _, comp := range job.Comps {
				for _, level := range job.Levels {
					for _, rs := range job.RS {
						for _, regular := range job.Regular {
							for bi, b := range job.Blobs {
								res := "ok"
								if err := safely(func() error {
									data := pattern(b)
									var tape bytes.Buffer
									encryptor, err := encryption.Encrypt(&tape, enc, wc.Recipient)
									if err != nil {
										return fmt.Errorf("refused:encrypt:%v", err)
									}
									compressor, err := compression.Compress(encryptor, comp, level, regular, rs)
									if err != nil {
										return fmt.Errorf("refused:compress:%v", err)
									}
									signer, sign, err := signature.Sign(bytes.NewReader(data), regular, sig, wc.Identity)
									if err != nil {
										return fmt.Errorf("refused:sign:%v", err)
									}
									if regular {
										_, err = io.Copy(compressor, signer)
									} else {
										_, err = io.CopyBuffer(compressor, signer, make([]byte, config.MagneticTapeBlockSize*rs))
									}
									if err != nil {
										return fmt.Errorf("error:copy:%v", err)
									}
									if err := compressor.Flush(); err != nil {
										return fmt.Errorf("error:flush:%v", err)
									}
									if err := compressor.Close(); err != nil {
										return fmt.Errorf("error:close:%v", err)
									}
									if err := encryptor.Close(); err != nil {
										return fmt.Errorf("error:encclose:%v", err)
									}
									sg, err := sign()
									if err != nil {
										return fmt.Errorf("error:sign:%v", err)
									}
									decryptor, err := encryption.Decrypt(bytes.NewReader(tape.Bytes()), enc, rc.Identity)
									if err != nil {
										return fmt.Errorf("error:decrypt:%v", err)
									}
									decompressor, err := compression.Decompress(decryptor, comp)
									if err != nil {
										return fmt.Errorf("error:decompress:%v", err)
									}
									verifier, verify, err := signature.Verify(decompressor, regular, sig, rc.Recipient, sg)
									if err != nil {
										return fmt.Errorf("error:verifysetup:%v", err)
									}
									var out bytes.Buffer
									if _, err := io.Copy(&out, verifier); err != nil {
										return fmt.Errorf("error:read:%v", err)
									}
									if err := verify(); err != nil {
										return fmt.Errorf("error:verify:%v", err)
									}
									if !bytes.Equal(out.Bytes(), data) {
										return fmt.Errorf("mismatch:%d!=%d", out.Len(), len(data))
									}
									return nil
								}); err != nil {
									res = err.Error()
								}
								emit(w, map[string]interface{}{"comp": comp, "level": level, "enc": enc, "sig": sig, "rs": rs, "regular": regular, "blob": bi, "len": b.Len, "kind": b.Kind, "result": res})
							}
						}
					}
				}
			}
		}
	}
}
