package main

import (
	"archive/tar"
	"bufio"
	"bytes"
	"crypto/sha256"
	"encoding/base64"
	"encoding/hex"
	"encoding/json"
	"fmt"
	"io"
	iofs "io/fs"
	"os"
	"path/filepath"
	"sort"
	"strings"
	"sync"
	"time"

	"github.com/pojntfx/stfs/pkg/config"
	"github.com/pojntfx/stfs/pkg/encryption"
	"github.com/pojntfx/stfs/pkg/mtio"
	"github.com/pojntfx/stfs/pkg/recovery"
	"github.com/pojntfx/stfs/pkg/signature"
	"github.com/spf13/afero"
)

// C08: forged tapes against recovery.Index / recovery.Fetch with the real verifier

func init() { extraCmds["forge"] = cmdForge }

type forgeJob struct {
	History History `json:"history"`
	Flips   []int64 `json:"flips"`   // byte positions to alter; [-1] = every byte
	Struct  bool    `json:"struct"`  // structured forgeries
	MaxFlip int     `json:"maxflip"` // sample size when Flips is empty
	From    int64   `json:"from"`    // with Flips = [-1]: only byte positions in [From, To) (To = 0: to the end); a process
	To      int64   `json:"to"`      // keeps one index database open per evaluated tape, so long sweeps are cut into chunks
	Seed    int64   `json:"seed"`
}

type rawMember struct {
	hdr  *tar.Header
	data []byte
}

func hdrSig(h *config.Header) string {
	pax := map[string]string{}
	var m map[string]string
	json.Unmarshal([]byte(h.Paxrecords), &m)
	for k, v := range m {
		if strings.HasPrefix(k, "STFS.") && k != "STFS.EmbeddedHeader" {
			pax[k] = v
		}
	}
	b, _ := json.Marshal([]interface{}{h.Name, h.Linkname, h.Typeflag, h.Size, h.Mode, h.UID, h.Gid, h.Modtime.UnixNano(), pax})
	return string(b)
}

func readMembers(tape []byte) ([]rawMember, error) {
	out := []rawMember{}
	off := int64(0)
	for off < int64(len(tape)) {
		tr := tar.NewReader(bytes.NewReader(tape[off:]))
		h, err := tr.Next()
		if err == io.EOF {
			off += 1024
			continue
		}
		if err != nil {
			return out, err
		}
		d, _ := io.ReadAll(tr)
		out = append(out, rawMember{h, d})
		// position of the next member: header blocks + data blocks; recompute by writing the member alone
		var b bytes.Buffer
		tw := tar.NewWriter(&b)
		hh := *h
		tw.WriteHeader(&hh)
		tw.Write(d)
		tw.Flush()
		off += int64(b.Len())
	}
	return out, nil
}

func writeMembers(ms []rawMember, trailerEach bool) []byte {
	var b bytes.Buffer
	tw := tar.NewWriter(&b)
	for _, m := range ms {
		hh := *m.hdr
		hh.Format = tar.FormatPAX
		if err := tw.WriteHeader(&hh); err != nil {
			continue
		}
		tw.Write(m.data)
	}
	tw.Close()
	return b.Bytes()
}

type forgeEnv struct {
	h      History
	ks, k2 keyset
	in     *inst // legit instance (for crypto configs)
	in2cfg *inst
	dir    string
}

// evaluate one forged tape: what does the indexer accept, what does Fetch return
func (fe *forgeEnv) eval(tape []byte, legitHdr map[string]bool, legitContent map[string]map[string]bool) map[string]interface{} {
	sub, _ := os.MkdirTemp(fe.dir, "f")
	defer os.RemoveAll(sub)
	drive := filepath.Join(sub, "d.tar")
	os.WriteFile(drive, tape, 0o600)
	in2, err := mk(fe.h.Config, drive, filepath.Join(sub, "m.sqlite"), sub, fe.ks, &seams{})
	if err != nil {
		return map[string]interface{}{"fatal": err.Error()}
	}
	res := map[string]interface{}{}
	accepted := []string{}
	done := make(chan struct{})
	var ierr error
	pan := ""
	go func() {
		defer close(done)
		defer func() {
			if x := recover(); x != nil {
				pan = fmt.Sprint(x)
			}
		}()
		rd, err := in2.bc.GetReader()
		if err != nil {
			ierr = err
			return
		}
		ierr = recovery.Index(rd, mtio.MagneticTapeIO{}, in2.mc, in2.pipes, in2.rcrypt, 0, 0, true, false, 0,
			func(hh *tar.Header, k int) error {
				return encryption.DecryptHeader(hh, in2.pipes.Encryption, in2.rcrypt.Identity)
			},
			func(hh *tar.Header, reg bool) error {
				return signature.VerifyHeader(hh, reg, in2.pipes.Signature, in2.rcrypt.Recipient)
			},
			func(h *config.Header) { accepted = append(accepted, hdrSig(h)) })
		in2.bc.CloseReader()
	}()
	select {
	case <-done:
	case <-time.After(8 * time.Second):
		res["index"] = "HANG"
		return res
	}
	if pan != "" {
		res["index"] = "PANIC:" + pan
		return res
	}
	res["index"] = classify(ierr)
	if ierr != nil {
		res["index_err"] = ierr.Error()
	}
	res["accepted"] = len(accepted)
	bad := []string{}
	for _, a := range accepted {
		if !legitHdr[a] {
			bad = append(bad, a)
		}
	}
	if len(bad) > 0 {
		res["forged_headers_accepted"] = bad
	}
	// contents through Fetch at every live regular row
	rows, _ := dumpRows(filepath.Join(sub, "m.sqlite"))
	badc := []map[string]interface{}{}
	for _, row := range rows {
		if row.Deleted != 0 || row.Typeflag != int64(tar.TypeReg) {
			continue
		}
		var buf bytes.Buffer
		fd := make(chan error, 1)
		go func() {
			defer func() {
				if x := recover(); x != nil {
					fd <- fmt.Errorf("PANIC %v", x)
				}
			}()
			rd, err := in2.bc.GetReader()
			if err != nil {
				fd <- err
				return
			}
			err = recovery.Fetch(rd, mtio.MagneticTapeIO{}, in2.pipes, in2.rcrypt,
				func(p string, m iofs.FileMode) (io.WriteCloser, error) { return nopWC{&buf}, nil },
				func(p string, m iofs.FileMode) error { return nil },
				int(row.Record), int(row.Block), "x", false, nil)
			in2.bc.CloseReader()
			fd <- err
		}()
		var ferr error
		select {
		case ferr = <-fd:
		case <-time.After(8 * time.Second):
			badc = append(badc, map[string]interface{}{"name": row.Name, "fetch": "HANG"})
			continue
		}
		if ferr != nil {
			if strings.HasPrefix(ferr.Error(), "PANIC") {
				badc = append(badc, map[string]interface{}{"name": row.Name, "fetch": ferr.Error()})
			}
			continue // an error is an acceptable answer
		}
		sum := sha256.Sum256(buf.Bytes())
		sh := hex.EncodeToString(sum[:8])
		n := row.Name
		if !strings.HasPrefix(n, "/") {
			n = "/" + n
		}
		if !legitContent[n][sh] {
			badc = append(badc, map[string]interface{}{"name": row.Name, "len": buf.Len(), "sha": sh})
		}
	}
	// the same entries through the filesystem handle (Open + Read until EOF): the streaming read path has its own
	// way of reporting a failed verification to the reader
	for _, row := range rows {
		if row.Deleted != 0 || row.Typeflag != int64(tar.TypeReg) {
			continue
		}
		n := row.Name
		if !strings.HasPrefix(n, "/") {
			n = "/" + n
		}
		type rd struct {
			data []byte
			err  error
		}
		// three readers: a large buffer, a buffer of exactly the indexed size (the end is seen only by the next Read), half of it
		chunks := []int{32 * 1024}
		if row.Size > 0 && row.Size <= 1<<20 {
			chunks = append(chunks, int(row.Size))
			if row.Size%2 == 0 {
				chunks = append(chunks, int(row.Size/2))
			}
		}
		for _, chunk := range chunks {
			ch := make(chan rd, 1)
			go func(chunk int) {
				defer func() {
					if x := recover(); x != nil {
						ch <- rd{nil, fmt.Errorf("PANIC %v", x)}
					}
				}()
				r2 := &runner{h: fe.h, in: in2, ks: fe.ks, dir: sub}
				d, err := r2.readAllChunk(in2.s, n, chunk)
				ch <- rd{d, err}
			}(chunk)
			select {
			case x := <-ch:
				if x.err != nil {
					if strings.HasPrefix(x.err.Error(), "PANIC") {
						badc = append(badc, map[string]interface{}{"name": row.Name, "via": "fs", "chunk": chunk, "read": x.err.Error()})
					}
					continue
				}
				sum := sha256.Sum256(x.data)
				sh := hex.EncodeToString(sum[:8])
				if !legitContent[n][sh] {
					badc = append(badc, map[string]interface{}{"name": row.Name, "via": "fs", "chunk": chunk, "len": len(x.data), "sha": sh})
				}
			case <-time.After(8 * time.Second):
				badc = append(badc, map[string]interface{}{"name": row.Name, "via": "fs", "chunk": chunk, "read": "HANG"})
			}
		}
	}
	// the write path: a handle opened for reading and writing loads the existing content into its write buffer; when that
	// load fails verification nothing of it may reach the tape through a later write or the close of the same handle
	// (the writer holds the signing key: what it flushes is signed)
	if in2.wo != nil {
		for _, row := range rows {
			if row.Deleted != 0 || row.Typeflag != int64(tar.TypeReg) || row.Size == 0 {
				continue
			}
			n := row.Name
			if !strings.HasPrefix(n, "/") {
				n = "/" + n
			}
			done := make(chan map[string]interface{}, 1)
			go func() {
				defer func() {
					if x := recover(); x != nil {
						done <- map[string]interface{}{"name": row.Name, "via": "write", "read": fmt.Sprintf("PANIC %v", x)}
					}
				}()
				st0, _ := os.Stat(in2.drive)
				f, err := in2.s.OpenFile(n, os.O_RDWR, 0o644)
				if err != nil {
					done <- nil
					return
				}
				_, w1 := f.Write([]byte("x"))
				_, w2 := f.Write([]byte("y"))
				cerr := f.Close()
				st1, _ := os.Stat(in2.drive)
				if w1 != nil && st0 != nil && st1 != nil && st1.Size() != st0.Size() {
					done <- map[string]interface{}{"name": row.Name, "via": "write", "flushed_after_failed_load": st1.Size() - st0.Size(),
						"first_write": w1.Error(), "second_write": fmt.Sprint(w2), "close": fmt.Sprint(cerr)}
					return
				}
				done <- nil
			}()
			select {
			case x := <-done:
				if x != nil {
					badc = append(badc, x)
				}
			case <-time.After(8 * time.Second):
				badc = append(badc, map[string]interface{}{"name": row.Name, "via": "write", "read": "HANG"})
			}
		}
	}
	if len(badc) > 0 {
		res["forged_content_returned"] = badc
	}
	return res
}

func cmdForge(args []string, w *bufio.Writer) {
	var job forgeJob
	if err := json.NewDecoder(os.Stdin).Decode(&job); err != nil {
		os.Exit(2)
	}
	h := job.History
	base := os.Getenv("VERIF_SCRATCH")
	if base == "" {
		base = os.TempDir()
	}
	dir, _ := os.MkdirTemp(base, "stfsforge-")
	defer os.RemoveAll(dir)
	keysDir := filepath.Join(base, "stfsdrv-keys")
	ks, err := loadOrGenKeys(keysDir, h.Config.Enc, h.Config.Sig, h.Config.Password, "k1")
	if err != nil {
		emit(w, map[string]interface{}{"fatal": err.Error()})
		return
	}
	k2, err := loadOrGenKeys(keysDir, h.Config.Enc, h.Config.Sig, h.Config.Password, "k2")
	if err != nil {
		emit(w, map[string]interface{}{"fatal": err.Error()})
		return
	}
	r := &runner{h: h, ks: ks, dir: dir, files: map[string]afero.File{}, shaBlob: map[string]int{}}
	for _, b := range h.Blobs {
		r.blobs = append(r.blobs, pattern(b))
	}
	in, err := mk(h.Config, filepath.Join(dir, "drive.tar"), filepath.Join(dir, "meta.sqlite"), dir, ks, &seams{})
	if err != nil {
		emit(w, map[string]interface{}{"fatal": err.Error()})
		return
	}
	r.in = in
	// legit headers are collected while the history runs AND from a clean rebuild (every state a file went through)
	legitHdr := map[string]bool{}
	legitContent := map[string]map[string]bool{}
	addContent := func(name string, data []byte) {
		sum := sha256.Sum256(data)
		if legitContent[name] == nil {
			legitContent[name] = map[string]bool{}
		}
		legitContent[name][hex.EncodeToString(sum[:8])] = true
	}
	for _, c := range h.Calls {
		done := make(chan struct{})
		go func() { defer close(done); r.exec(c) }()
		select {
		case <-done:
		case <-time.After(20 * time.Second):
			emit(w, map[string]interface{}{"fatal": "history hung"})
			return
		}
		if c.Op == "createfile" || c.Op == "writefile" {
			addContent(filepath.Clean(c.Name), r.blob(c.Blob))
			addContent(filepath.Clean(c.Name), []byte{})
		}
		if c.Op == "rename" {
			for k, v := range legitContent[filepath.Clean(c.Name)] {
				if legitContent[filepath.Clean(c.Name2)] == nil {
					legitContent[filepath.Clean(c.Name2)] = map[string]bool{}
				}
				legitContent[filepath.Clean(c.Name2)][k] = v
			}
		}
	}
	tape, _ := os.ReadFile(in.drive)
	fe := &forgeEnv{h: h, ks: ks, k2: k2, in: in, dir: dir}
	// legit accepted headers: from the untouched tape (every record the writer signed)
	{
		sub, _ := os.MkdirTemp(dir, "legit")
		os.WriteFile(filepath.Join(sub, "d.tar"), tape, 0o600)
		in2, _ := mk(h.Config, filepath.Join(sub, "d.tar"), filepath.Join(sub, "m.sqlite"), sub, ks, &seams{})
		rd, _ := in2.bc.GetReader()
		err := recovery.Index(rd, mtio.MagneticTapeIO{}, in2.mc, in2.pipes, in2.rcrypt, 0, 0, true, false, 0,
			func(hh *tar.Header, k int) error {
				return encryption.DecryptHeader(hh, in2.pipes.Encryption, in2.rcrypt.Identity)
			},
			func(hh *tar.Header, reg bool) error {
				return signature.VerifyHeader(hh, reg, in2.pipes.Signature, in2.rcrypt.Recipient)
			},
			func(hd *config.Header) { legitHdr[hdrSig(hd)] = true })
		in2.bc.CloseReader()
		if err != nil {
			emit(w, map[string]interface{}{"fatal": "legit tape does not index: " + err.Error()})
			return
		}
	}
	emit(w, map[string]interface{}{"tape_len": len(tape), "legit_headers": len(legitHdr)})
	clean := fe.eval(tape, legitHdr, legitContent)
	clean["kind"] = "untouched"
	emit(w, clean)

	type forgery struct {
		kind string
		pos  int64
		tape []byte
	}
	var fs []forgery
	// (a) single-byte alterations
	flips := job.Flips
	if len(flips) == 1 && flips[0] == -1 {
		flips = nil
		for p := job.From; p < int64(len(tape)) && (job.To == 0 || p < job.To); p++ {
			flips = append(flips, p)
		}
	} else if len(flips) == 0 && job.MaxFlip > 0 {
		x := uint64(job.Seed)*6364136223846793005 + 1442695040888963407
		for i := 0; i < job.MaxFlip; i++ {
			x = x*6364136223846793005 + 1442695040888963407
			flips = append(flips, int64((x>>16)%uint64(len(tape))))
		}
	}
	for _, p := range flips {
		if p < 0 || p >= int64(len(tape)) {
			continue
		}
		t2 := append([]byte{}, tape...)
		t2[p] ^= 0x41
		fs = append(fs, forgery{"flip", p, t2})
	}
	// (b) structured forgeries
	if job.Struct {
		ms, err := readMembers(tape)
		if err != nil || len(ms) == 0 {
			emit(w, map[string]interface{}{"note": "structured forgeries skipped: " + fmt.Sprint(err)})
		} else {
			pipes, wc, rc := in.pipes, in.crypto, in.rcrypt
			peel := func(hh *tar.Header) (*tar.Header, error) { // the signed layer
				c := *hh
				c.PAXRecords = map[string]string{}
				for k, v := range hh.PAXRecords {
					c.PAXRecords[k] = v
				}
				if err := encryption.DecryptHeader(&c, pipes.Encryption, rc.Identity); err != nil {
					return nil, err
				}
				return &c, nil
			}
			wrap := func(signed *tar.Header) *tar.Header {
				c := *signed
				if err := encryption.EncryptHeader(&c, pipes.Encryption, wc.Recipient); err != nil {
					return signed
				}
				return &c
			}
			replace := func(i int, nh *tar.Header) []byte {
				cp := append([]rawMember{}, ms...)
				cp[i] = rawMember{nh, ms[i].data}
				return writeMembers(cp, false)
			}
			idxs := []int{}
			for i := range ms {
				idxs = append(idxs, i)
			}
			if len(idxs) > 4 {
				idxs = []int{0, 1, len(ms) / 2, len(ms) - 1}
			}
			for _, i := range idxs {
				signed, err := peel(ms[i].hdr)
				if err != nil || signed.PAXRecords == nil {
					continue
				}
				emb := signed.PAXRecords["STFS.EmbeddedHeader"]
				sig := signed.PAXRecords["STFS.Signature"]
				with := func(e, s string, dropSig bool) *tar.Header {
					c := *signed
					c.PAXRecords = map[string]string{"STFS.EmbeddedHeader": e}
					if !dropSig {
						c.PAXRecords["STFS.Signature"] = s
					}
					return wrap(&c)
				}
				edited := strings.Replace(emb, `"Mode":`, `"Mode":1`, 1)
				if edited == emb {
					edited = strings.Replace(emb, `"Name":"`, `"Name":"/forged`, 1)
				}
				fs = append(fs, forgery{"edit-keep-signature", int64(i), replace(i, with(edited, sig, false))})
				fs = append(fs, forgery{"edit-name-keep-signature", int64(i), replace(i, with(strings.Replace(emb, `"Name":"`, `"Name":"/forged`, 1), sig, false))})
				fs = append(fs, forgery{"remove-signature", int64(i), replace(i, with(edited, "", true))})
				fs = append(fs, forgery{"signature-not-base64", int64(i), replace(i, with(edited, "!!!not-base64!!!", false))})
				fs = append(fs, forgery{"signature-garbage", int64(i), replace(i, with(edited, base64.StdEncoding.EncodeToString([]byte("garbage garbage garbage")), false))})
				fs = append(fs, forgery{"signature-is-other-data", int64(i), replace(i, with(edited, base64.StdEncoding.EncodeToString([]byte(emb)), false))})
				fs = append(fs, forgery{"signature-empty", int64(i), replace(i, with(edited, "", false))})
				// the signed header and its signature untouched, extra unsigned records next to them on the envelope
				other := "/intruder"
				if oj, err := peel(ms[(i+1)%len(ms)].hdr); err == nil && oj.Name != "" {
					other = oj.Name
				}
				for _, extra := range [][2]string{{"STFS.ReplacesName", other}, {"STFS.Action", "DELETE"}, {"STFS.UncompressedSize", "1"}, {"STFS.ReplacesContent", "true"}, {"STFS.Version", "1"}} {
					c := *signed
					c.PAXRecords = map[string]string{"STFS.EmbeddedHeader": emb, "STFS.Signature": sig, extra[0]: extra[1]}
					fs = append(fs, forgery{"unsigned-record-on-envelope:" + extra[0], int64(i), replace(i, wrap(&c))})
				}
				// re-encoded but identical signature over the unedited header must still be fine (control)
				if raw, err := base64.StdEncoding.DecodeString(sig); err == nil {
					fs = append(fs, forgery{"control-reencoded-signature", int64(i), replace(i, with(emb, base64.StdEncoding.EncodeToString(raw), false))})
				}
				// signed by a second key
				if wc2, _, err := parseCrypto(h.Config, k2); err == nil {
					if s2, err := signature.SignString(edited, true, pipes.Signature, wc2.Identity); err == nil {
						fs = append(fs, forgery{"signed-by-another-key", int64(i), replace(i, with(edited, s2, false))})
					}
				}
				// swapped signatures
				j := (i + 1) % len(ms)
				if sj, err := peel(ms[j].hdr); err == nil && j != i && sj.PAXRecords != nil {
					fs = append(fs, forgery{"signature-of-another-record", int64(i), replace(i, with(emb, sj.PAXRecords["STFS.Signature"], false))})
				}
				// altered content under a kept header
				if len(ms[i].data) > 0 {
					cp := append([]rawMember{}, ms...)
					d2 := append([]byte{}, ms[i].data...)
					d2[len(d2)/2] ^= 0x55
					cp[i] = rawMember{ms[i].hdr, d2}
					fs = append(fs, forgery{"content-altered", int64(i), writeMembers(cp, false)})
				}
			}
			// unsigned record appended by a plain tar writer
			plain := append([]rawMember{}, ms...)
			plain = append(plain, rawMember{&tar.Header{Typeflag: tar.TypeReg, Name: "/intruder", Size: 4, Mode: 0o644, ModTime: time.Unix(1500000000, 0), Format: tar.FormatPAX}, []byte("evil")})
			fs = append(fs, forgery{"unsigned-record-appended", -1, writeMembers(plain, false)})
			fs = append(fs, forgery{"control-rewritten-unchanged", -1, writeMembers(ms, false)})
		}
	}
	out := make([]map[string]interface{}, len(fs))
	sem := make(chan struct{}, 10)
	var wg sync.WaitGroup
	for i, f := range fs {
		wg.Add(1)
		sem <- struct{}{}
		go func(i int, f forgery) {
			defer wg.Done()
			defer func() { <-sem }()
			res := fe.eval(f.tape, legitHdr, legitContent)
			res["kind"], res["pos"] = f.kind, f.pos
			out[i] = res
		}(i, f)
	}
	wg.Wait()
	sort.SliceStable(out, func(i, j int) bool { return false })
	for _, o := range out {
		emit(w, o)
	}
}
