package main

import (
	"context"
	"database/sql"
	"errors"
	"fmt"
	"io"
	"os"
	"path/filepath"
	"sync"
	"runtime"
	"sync/atomic"
	"time"

	"github.com/pojntfx/stfs/examples"
	"github.com/pojntfx/stfs/pkg/cache"
	"github.com/pojntfx/stfs/pkg/config"
	"github.com/pojntfx/stfs/pkg/fs"
	"github.com/pojntfx/stfs/pkg/keys"
	"github.com/pojntfx/stfs/pkg/mtio"
	"github.com/pojntfx/stfs/pkg/operations"
	"github.com/pojntfx/stfs/pkg/persisters"
	"github.com/pojntfx/stfs/pkg/tape"
	"github.com/pojntfx/stfs/pkg/utility"
	_ "modernc.org/sqlite"
)

// Config of one filesystem instance (mirrors examples/full/main.go).
type Config struct {
	RS        int    `json:"rs"`
	Comp      string `json:"comp"`
	Enc       string `json:"enc"`
	Sig       string `json:"sig"`
	Level     string `json:"level"`
	Cache     string `json:"cache"` // memory | file
	ReadOnly  bool   `json:"readonly"`
	NoWriteOp bool   `json:"nowriteops"` // read-only instance without a write backend (HTTP server)
	KeysDir   string `json:"keysdir"`
	Password  string `json:"password"`
	WPIR      bool   `json:"wpir"` // writePermImpliesReadPerm
	Root      string `json:"root"` // root proposal, default "/"
	Overwrite bool   `json:"overwrite"` // the drive manager is constructed with overwrite = true (its FIRST writer clears the drive)
}

var errInjected = errors.New("verif: injected fault")

// fault plan: fail the k-th (1-based) event at a seam while armed
type faultPlan struct {
	Seam string `json:"seam"` // drive-write | meta | src-read | open-read | open-write | close-write | close-read
	K    int    `json:"k"`
}

type seams struct {
	mu     sync.Mutex
	armed  *faultPlan
	counts map[string]int
	fired  bool
	yield  bool
	rng    uint64
}

func (s *seams) hit(seam string) bool {
	if s.yield {
		// concurrent runs: perturb the scheduler at every seam (derived from one seed)
		s.mu.Lock()
		s.rng = s.rng*6364136223846793005 + 1442695040888963407
		k := (s.rng >> 33) % 8
		nap := time.Duration(50+(s.rng>>40)%400) * time.Microsecond
		s.mu.Unlock()
		switch {
		case k < 3:
			runtime.Gosched()
		case k == 3:
			time.Sleep(nap)
		}
	}
	s.mu.Lock()
	defer s.mu.Unlock()
	if s.counts == nil {
		s.counts = map[string]int{}
	}
	s.counts[seam]++
	if s.armed != nil && !s.fired && s.armed.Seam == seam && s.counts[seam] == s.armed.K {
		s.fired = true
		return true
	}
	return false
}

func (s *seams) reset(p *faultPlan) {
	s.mu.Lock()
	defer s.mu.Unlock()
	s.armed = p
	s.counts = map[string]int{}
	s.fired = false
}

func (s *seams) snapshot() (map[string]int, bool) {
	s.mu.Lock()
	defer s.mu.Unlock()
	m := map[string]int{}
	for k, v := range s.counts {
		m[k] = v
	}
	return m, s.fired
}

type faultWriter struct {
	w  io.Writer
	sm *seams
}

func (f faultWriter) Write(p []byte) (int, error) {
	if f.sm.hit("drive-write") {
		return 0, errInjected
	}
	return f.w.Write(p)
}

// metadata persister decorator: counts calls and injects faults
type metaWrap struct {
	in config.MetadataPersister
	sm *seams
}

func (m metaWrap) f() error {
	if m.sm.hit("meta") {
		return errInjected
	}
	return nil
}
func (m metaWrap) UpsertHeader(ctx context.Context, h *config.Header, init bool) error {
	if err := m.f(); err != nil {
		return err
	}
	return m.in.UpsertHeader(ctx, h, init)
}
func (m metaWrap) UpdateHeaderMetadata(ctx context.Context, h *config.Header) error {
	if err := m.f(); err != nil {
		return err
	}
	return m.in.UpdateHeaderMetadata(ctx, h)
}
func (m metaWrap) MoveHeader(ctx context.Context, o, n string, r, b int64) error {
	if err := m.f(); err != nil {
		return err
	}
	return m.in.MoveHeader(ctx, o, n, r, b)
}
func (m metaWrap) GetHeaders(ctx context.Context) ([]*config.Header, error) {
	if err := m.f(); err != nil {
		return nil, err
	}
	return m.in.GetHeaders(ctx)
}
func (m metaWrap) GetHeader(ctx context.Context, n string) (*config.Header, error) {
	if err := m.f(); err != nil {
		return nil, err
	}
	return m.in.GetHeader(ctx, n)
}
func (m metaWrap) GetHeaderByLinkname(ctx context.Context, n string) (*config.Header, error) {
	if err := m.f(); err != nil {
		return nil, err
	}
	return m.in.GetHeaderByLinkname(ctx, n)
}
func (m metaWrap) GetHeaderChildren(ctx context.Context, n string) ([]*config.Header, error) {
	if err := m.f(); err != nil {
		return nil, err
	}
	return m.in.GetHeaderChildren(ctx, n)
}
func (m metaWrap) GetRootPath(ctx context.Context) (string, error) {
	if err := m.f(); err != nil {
		return "", err
	}
	return m.in.GetRootPath(ctx)
}
func (m metaWrap) GetHeaderDirectChildren(ctx context.Context, n string, l int) ([]*config.Header, error) {
	if err := m.f(); err != nil {
		return nil, err
	}
	return m.in.GetHeaderDirectChildren(ctx, n, l)
}
func (m metaWrap) DeleteHeader(ctx context.Context, n string, r, b int64) (*config.Header, error) {
	if err := m.f(); err != nil {
		return nil, err
	}
	return m.in.DeleteHeader(ctx, n, r, b)
}
func (m metaWrap) GetLastIndexedRecordAndBlock(ctx context.Context, rs int) (int64, int64, error) {
	if err := m.f(); err != nil {
		return 0, 0, err
	}
	return m.in.GetLastIndexedRecordAndBlock(ctx, rs)
}
func (m metaWrap) PurgeAllHeaders(ctx context.Context) error {
	if err := m.f(); err != nil {
		return err
	}
	return m.in.PurgeAllHeaders(ctx)
}

type inst struct {
	cfg    Config
	drive  string
	meta   string
	dir    string
	s      *fs.STFS
	mp     *persisters.MetadataPersister
	mc     config.MetadataConfig
	tm     *tape.TapeManager
	ro, wo *operations.Operations
	pipes  config.PipeConfig
	crypto config.CryptoConfig // write side: recipient = enc recipient, identity = signing identity
	rcrypt config.CryptoConfig // read side: recipient = signature recipient, identity = decryption identity
	bc     config.BackendConfig
	sm     *seams
	held   int32 // drive currently handed out (observed through the backend wrappers)
}

type keyset struct {
	encPub, encPriv, sigPub, sigPriv []byte
}

func loadOrGenKeys(dir, enc, sig, password, tag string) (keyset, error) {
	ks := keyset{}
	os.MkdirAll(dir, 0o755)
	get := func(kind, format string, gen func() ([]byte, []byte, error)) ([]byte, []byte, error) {
		base := filepath.Join(dir, fmt.Sprintf("%s-%s-%x-%s", kind, format, password, tag))
		priv, e1 := os.ReadFile(base + ".priv")
		pub, e2 := os.ReadFile(base + ".pub")
		if e1 == nil && e2 == nil {
			return priv, pub, nil
		}
		priv, pub, err := gen()
		if err != nil {
			return nil, nil, err
		}
		tmp := fmt.Sprintf("%s.%d", base, os.Getpid())
		os.WriteFile(tmp+".priv", priv, 0o600)
		os.WriteFile(tmp+".pub", pub, 0o600)
		os.Rename(tmp+".priv", base+".priv")
		os.Rename(tmp+".pub", base+".pub")
		return priv, pub, nil
	}
	var err error
	if enc != "" {
		ks.encPriv, ks.encPub, err = get("enc", enc, func() ([]byte, []byte, error) {
			return utility.Keygen(config.PipeConfig{Encryption: enc}, config.PasswordConfig{Password: password})
		})
		if err != nil {
			return ks, err
		}
	}
	if sig != "" {
		ks.sigPriv, ks.sigPub, err = get("sig", sig, func() ([]byte, []byte, error) {
			return utility.Keygen(config.PipeConfig{Signature: sig}, config.PasswordConfig{Password: password})
		})
		if err != nil {
			return ks, err
		}
	}
	return ks, nil
}

type cryptoPair struct {
	w, r config.CryptoConfig
}

var cryptoCache = map[string]cryptoPair{}
var cryptoMu sync.Mutex

// parsing identities is expensive (scrypt): once per process and key set
func parseCrypto(cfg Config, ks keyset) (w config.CryptoConfig, r config.CryptoConfig, err error) {
	key := fmt.Sprintf("%s|%s|%s|%x|%x", cfg.Enc, cfg.Sig, cfg.Password, ks.encPub, ks.sigPub)
	cryptoMu.Lock()
	if c, ok := cryptoCache[key]; ok {
		cryptoMu.Unlock()
		return c.w, c.r, nil
	}
	cryptoMu.Unlock()
	w, r, err = parseCryptoUncached(cfg, ks)
	if err == nil {
		cryptoMu.Lock()
		cryptoCache[key] = cryptoPair{w, r}
		cryptoMu.Unlock()
	}
	return
}

func parseCryptoUncached(cfg Config, ks keyset) (w config.CryptoConfig, r config.CryptoConfig, err error) {
	var encRecipient, encIdentity, sigRecipient, sigIdentity interface{}
	if cfg.Enc != "" {
		encRecipient, err = keys.ParseRecipient(cfg.Enc, ks.encPub)
		if err != nil {
			return
		}
		encIdentity, err = keys.ParseIdentity(cfg.Enc, ks.encPriv, cfg.Password)
		if err != nil {
			return
		}
	}
	if cfg.Sig != "" {
		sigRecipient, err = keys.ParseSignerRecipient(cfg.Sig, ks.sigPub)
		if err != nil {
			return
		}
		sigIdentity, err = keys.ParseSignerIdentity(cfg.Sig, ks.sigPriv, cfg.Password)
		if err != nil {
			return
		}
	}
	w = config.CryptoConfig{Recipient: encRecipient, Identity: sigIdentity, Password: cfg.Password}
	r = config.CryptoConfig{Recipient: sigRecipient, Identity: encIdentity, Password: cfg.Password}
	return
}

// mk builds one STFS instance over (drive, meta) exactly like examples/full/main.go, with the seams wrapped.
func mk(cfg Config, drive, meta, dir string, ks keyset, sm *seams) (*inst, error) {
	if cfg.RS == 0 {
		cfg.RS = 20
	}
	if cfg.Level == "" {
		cfg.Level = config.CompressionLevelFastestKey
	}
	if cfg.Cache == "" {
		cfg.Cache = config.WriteCacheTypeFile
	}
	if sm == nil {
		sm = &seams{}
	}
	in := &inst{cfg: cfg, drive: drive, meta: meta, dir: dir, sm: sm}
	mt := mtio.MagneticTapeIO{}
	in.tm = tape.NewTapeManager(drive, mt, cfg.RS, cfg.Overwrite)
	in.mp = persisters.NewMetadataPersister(meta)
	if err := in.mp.Open(); err != nil {
		return nil, err
	}
	in.mc = config.MetadataConfig{Metadata: metaWrap{in.mp, sm}}
	in.pipes = config.PipeConfig{Compression: cfg.Comp, Encryption: cfg.Enc, Signature: cfg.Sig, RecordSize: cfg.RS}
	var err error
	in.crypto, in.rcrypt, err = parseCrypto(cfg, ks)
	if err != nil {
		return nil, err
	}
	in.bc = config.BackendConfig{
		GetWriter: func() (config.DriveWriterConfig, error) {
			if sm.hit("open-write") {
				return config.DriveWriterConfig{}, errInjected
			}
			w, err := in.tm.GetWriter()
			if err != nil {
				return w, err
			}
			atomic.AddInt32(&in.held, 1)
			w.Drive = faultWriter{w.Drive, sm}
			return w, nil
		},
		CloseWriter: func() error {
			err := in.tm.Close()
			atomic.AddInt32(&in.held, -1)
			if sm.hit("close-write") {
				return errInjected
			}
			return err
		},
		GetReader: func() (config.DriveReaderConfig, error) {
			if sm.hit("open-read") {
				return config.DriveReaderConfig{}, errInjected
			}
			r, err := in.tm.GetReader()
			if err != nil {
				return r, err
			}
			atomic.AddInt32(&in.held, 1)
			return r, nil
		},
		CloseReader: func() error {
			err := in.tm.Close()
			atomic.AddInt32(&in.held, -1)
			if sm.hit("close-read") {
				return errInjected
			}
			return err
		},
		MagneticTapeIO: mt,
	}
	in.ro = operations.NewOperations(in.bc, in.mc, in.pipes, in.rcrypt, func(e *config.HeaderEvent) {})
	if !cfg.NoWriteOp {
		in.wo = operations.NewOperations(in.bc, in.mc, in.pipes, in.crypto, func(e *config.HeaderEvent) {})
	}
	in.s = fs.NewSTFS(in.ro, in.wo, in.mc, cfg.Level,
		func() (cache.WriteCache, func() error, error) {
			sm.hit("cache")
			return cache.NewCacheWrite(dir, cfg.Cache)
		},
		cfg.ReadOnly, cfg.WPIR, func(h *config.Header) {}, examples.Logger{})
	return in, nil
}

// all rows of the index including tombstones, read through a second connection
type Row struct {
	Name     string `json:"name"`
	Linkname string `json:"link"`
	Typeflag int64  `json:"tf"`
	Size     int64  `json:"size"`
	Mode     int64  `json:"mode"`
	UID      int64  `json:"uid"`
	Gid      int64  `json:"gid"`
	Uname    string `json:"uname"`
	Gname    string `json:"gname"`
	Mtime    int64  `json:"mtime"`
	Atime    int64  `json:"atime"`
	Ctime    int64  `json:"ctime"`
	Record   int64  `json:"rec"`
	Block    int64  `json:"blk"`
	LKRecord int64  `json:"lkrec"`
	LKBlock  int64  `json:"lkblk"`
	Deleted  int64  `json:"del"`
	Pax      string `json:"pax"`
	Format   int64  `json:"fmt"`
}

func dumpRows(meta string) ([]Row, error) {
	db, err := sql.Open("sqlite", meta)
	if err != nil {
		return nil, err
	}
	defer db.Close()
	rs, err := db.Query(`select name, linkname, typeflag, size, mode, uid, gid, uname, gname, modtime, accesstime, changetime, record, block, lastknownrecord, lastknownblock, deleted, paxrecords, format from headers order by rowid`)
	if err != nil {
		return nil, err
	}
	defer rs.Close()
	out := []Row{}
	for rs.Next() {
		var r Row
		var mt, at, ct interface{}
		if err := rs.Scan(&r.Name, &r.Linkname, &r.Typeflag, &r.Size, &r.Mode, &r.UID, &r.Gid, &r.Uname, &r.Gname, &mt, &at, &ct, &r.Record, &r.Block, &r.LKRecord, &r.LKBlock, &r.Deleted, &r.Pax, &r.Format); err != nil {
			return nil, err
		}
		r.Mtime, r.Atime, r.Ctime = toNs(mt), toNs(at), toNs(ct)
		out = append(out, r)
	}
	return out, rs.Err()
}
