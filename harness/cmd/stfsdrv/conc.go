package main

import (
	"bufio"
	"crypto/sha256"
	"encoding/hex"
	"encoding/json"
	"os"
	"path/filepath"
	"runtime"
	"sync"
	"sync/atomic"
	"time"

	"github.com/spf13/afero"
)

func init() {
	extraCmds["conc"] = cmdConc
}

type concJob struct {
	Config  Config   `json:"config"`
	Blobs   []Blob   `json:"blobs"`
	Setup   []Call   `json:"setup"`
	Threads [][]Call `json:"threads"`
	Seed    uint64   `json:"seed"`
	Tmo     int      `json:"tmo"` // ms for the whole concurrent phase
	Obs     []string `json:"obs"`
}

type concRec struct {
	Phase  string                 `json:"phase"`
	Thread int                    `json:"thread"`
	I      int                    `json:"i"`
	Op     string                 `json:"op"`
	Out    string                 `json:"out"`
	Err    string                 `json:"err,omitempty"`
	Ret    map[string]interface{} `json:"ret,omitempty"`
	T0     int64                  `json:"t0"` // logical clock at invocation
	T1     int64                  `json:"t1"` // logical clock at return (-1: never returned)
}

// C11: several goroutines drive ONE filesystem instance; every call is stamped with a logical clock at
// invocation and at return (the real-time order), the scheduler is perturbed at the drive, index-store and
// write-cache seams; afterwards the tree is read back and the index is rebuilt from the tape.
func cmdConc(args []string, w *bufio.Writer) {
	var job concJob
	if err := json.NewDecoder(os.Stdin).Decode(&job); err != nil {
		os.Exit(2)
	}
	base := os.Getenv("VERIF_SCRATCH")
	if base == "" {
		base = os.TempDir()
	}
	dir, err := os.MkdirTemp(base, "stfsconc-")
	if err != nil {
		emit(w, map[string]interface{}{"fatal": err.Error()})
		os.Exit(2)
	}
	defer os.RemoveAll(dir)
	ks, err := loadOrGenKeys(filepath.Join(base, "stfsdrv-keys"), job.Config.Enc, job.Config.Sig, job.Config.Password, "")
	if err != nil {
		emit(w, map[string]interface{}{"fatal": err.Error()})
		os.Exit(2)
	}
	h := History{Config: job.Config, Blobs: job.Blobs}
	r := &runner{h: h, ks: ks, dir: dir, files: map[string]afero.File{}, shaBlob: map[string]int{}}
	for i, b := range job.Blobs {
		d := pattern(b)
		r.blobs = append(r.blobs, d)
		s := sha256.Sum256(d)
		r.shaBlob[hex.EncodeToString(s[:8])] = i
	}
	sm := &seams{}
	in, err := mk(job.Config, filepath.Join(dir, "drive.tar"), filepath.Join(dir, "meta.sqlite"), dir, ks, sm)
	if err != nil {
		emit(w, map[string]interface{}{"fatal": "mk: " + err.Error()})
		os.Exit(2)
	}
	r.in = in
	var clock int64
	for i, c := range job.Setup {
		rec := concRec{Phase: "setup", Thread: -1, I: i, Op: c.Op, T0: atomic.AddInt64(&clock, 1)}
		ret, cerr := r.exec(c)
		rec.T1 = atomic.AddInt64(&clock, 1)
		rec.Out, rec.Ret = classify(cerr), ret
		if cerr != nil {
			rec.Err = cerr.Error()
		}
		emit(w, rec)
	}
	sm.mu.Lock()
	sm.yield, sm.rng = true, job.Seed*2654435761+1
	sm.mu.Unlock()
	var mu sync.Mutex
	recs := []concRec{}
	pending := map[[2]int]concRec{}
	var wg sync.WaitGroup
	start := make(chan struct{})
	for t, prog := range job.Threads {
		wg.Add(1)
		go func(t int, prog []Call) {
			defer wg.Done()
			<-start
			for i, c := range prog {
				rec := concRec{Phase: "conc", Thread: t, I: i, Op: c.Op, T1: -1}
				mu.Lock()
				rec.T0 = atomic.AddInt64(&clock, 1)
				pending[[2]int{t, i}] = rec
				mu.Unlock()
				var ret map[string]interface{}
				cerr := safely(func() error {
					var e error
					ret, e = r.exec(c)
					return e
				})
				mu.Lock()
				rec.T1 = atomic.AddInt64(&clock, 1)
				rec.Out, rec.Ret = classify(cerr), ret
				if cerr != nil {
					rec.Err = cerr.Error()
				}
				delete(pending, [2]int{t, i})
				recs = append(recs, rec)
				mu.Unlock()
				if (job.Seed+uint64(t*7+i))%3 == 0 {
					runtime.Gosched()
				}
			}
		}(t, prog)
	}
	done := make(chan struct{})
	go func() { wg.Wait(); close(done) }()
	close(start)
	tmo := job.Tmo
	if tmo == 0 {
		tmo = 20000
	}
	hang := false
	select {
	case <-done:
	case <-time.After(time.Duration(tmo) * time.Millisecond):
		hang = true
	}
	mu.Lock()
	for _, rec := range recs {
		emit(w, rec)
	}
	for _, rec := range pending {
		rec.Out = "HANG"
		emit(w, rec)
	}
	mu.Unlock()
	if hang {
		emit(w, map[string]interface{}{"phase": "final", "hang": true, "held": atomic.LoadInt32(&in.held)})
		if os.Getenv("VERIF_DUMP") != "" {
			buf := make([]byte, 1<<18)
			n := runtime.Stack(buf, true)
			os.Stderr.Write(buf[:n])
		}
		w.Flush()
		os.Exit(3)
	}
	sm.mu.Lock()
	sm.yield = false
	sm.mu.Unlock()
	for k := 0; k < 100 && atomic.LoadInt32(&in.held) != 0; k++ {
		time.Sleep(2 * time.Millisecond)
	}
	obs := job.Obs
	if len(obs) == 0 {
		obs = []string{"tree", "rebuild"}
	}
	od := make(chan map[string]interface{}, 1)
	go func() { od <- r.observe(obs) }()
	select {
	case o := <-od:
		emit(w, map[string]interface{}{"phase": "final", "hang": false, "held": atomic.LoadInt32(&in.held), "obs": o})
	case <-time.After(30 * time.Second):
		emit(w, map[string]interface{}{"phase": "final", "hang": true, "observe": "HANG", "held": atomic.LoadInt32(&in.held)})
		w.Flush()
		os.Exit(3)
	}
}
