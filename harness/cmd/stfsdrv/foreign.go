package main

import (
	"archive/tar"
	"bufio"
	"bytes"
	"encoding/json"
	"fmt"
	"os"
	"path"
	"path/filepath"
	"sort"
	"strings"
	"time"

	"github.com/pojntfx/stfs/pkg/cache"
	"github.com/spf13/afero"
)

// foreign tar archives written by archive/tar, opened through the documented composition (C17)

type foreignEntry struct {
	Path string `json:"path"` // path relative to the tree root, no leading slash, "" = the root itself
	Dir  bool   `json:"dir"`
	Blob int    `json:"blob"`
	Mode int64  `json:"mode"`
}

type foreignJob struct {
	Config  Config         `json:"config"`
	Blobs   []Blob         `json:"blobs"`
	Format  string         `json:"format"` // ustar | pax | gnu
	Style   string         `json:"style"`  // "./" | "/" | "top/" | ...
	Entries []foreignEntry `json:"entries"`
	Spell   []string       `json:"spell"` // paths (relative to the tree root) whose alternative spellings are stat-ed
	After   []Call         `json:"after"` // calls issued through the composed filesystem afterwards
}

func init() { extraCmds["foreign"] = cmdForeign }

func memberName(style, p string, dir bool) string {
	// style is the name of the top directory entry: "./", "/", "top/"
	n := style + p
	if p == "" {
		n = style
	}
	if dir && !strings.HasSuffix(n, "/") {
		n += "/"
	}
	return n
}

func walkAfero(s afero.Fs, r *runner, read bool) []Entry {
	out := []Entry{}
	var rec func(p string, depth int)
	rec = func(p string, depth int) {
		if depth > 12 {
			return
		}
		f, err := s.Open(p)
		if err != nil {
			out = append(out, Entry{Path: p, Kind: "?", Err: "open:" + classify(err) + ":" + err.Error(), Blob: -2})
			return
		}
		infos, err := f.Readdir(-1)
		f.Close()
		if err != nil {
			out = append(out, Entry{Path: p, Kind: "?", Err: "readdir:" + classify(err) + ":" + err.Error(), Blob: -2})
			return
		}
		sort.Slice(infos, func(i, j int) bool { return infos[i].Name() < infos[j].Name() })
		for _, fi := range infos {
			cp := path.Join(p, fi.Name())
			e := infoEntry(cp, fi)
			if st, err := s.Stat(cp); err != nil {
				e.Lstat = "stat:" + classify(err)
			} else if st.IsDir() != fi.IsDir() || st.Size() != fi.Size() {
				e.Lstat = fmt.Sprintf("stat-mismatch:dir=%v size=%d", st.IsDir(), st.Size())
			}
			if e.Kind == "f" && read {
				data, err := r.readAll(s, cp)
				r.content(&e, data, err)
			}
			out = append(out, e)
			if fi.IsDir() {
				rec(cp, depth+1)
			}
		}
	}
	rec("/", 0)
	return out
}

func cmdForeign(args []string, w *bufio.Writer) {
	var job foreignJob
	if err := json.NewDecoder(os.Stdin).Decode(&job); err != nil {
		fmt.Fprintln(os.Stderr, "bad job:", err)
		os.Exit(2)
	}
	base := os.Getenv("VERIF_SCRATCH")
	if base == "" {
		base = os.TempDir()
	}
	dir, err := os.MkdirTemp(base, "stfsforeign-")
	if err != nil {
		os.Exit(2)
	}
	defer os.RemoveAll(dir)
	h := History{Config: job.Config, Blobs: job.Blobs}
	r := &runner{h: h, dir: dir, files: map[string]afero.File{}, shaBlob: map[string]int{}}
	for _, b := range job.Blobs {
		r.blobs = append(r.blobs, pattern(b))
	}
	// 1. the foreign archive
	var buf bytes.Buffer
	tw := tar.NewWriter(&buf)
	format := map[string]tar.Format{"ustar": tar.FormatUSTAR, "pax": tar.FormatPAX, "gnu": tar.FormatGNU}[job.Format]
	mt := time.Unix(1500000000, 0)
	for _, e := range job.Entries {
		hd := &tar.Header{Name: memberName(job.Style, e.Path, e.Dir), Mode: e.Mode, ModTime: mt, Format: format, Uid: 1000, Gid: 1000, Uname: "u", Gname: "g"}
		var data []byte
		if e.Dir {
			hd.Typeflag = tar.TypeDir
		} else {
			hd.Typeflag = tar.TypeReg
			data = r.blob(e.Blob)
			hd.Size = int64(len(data))
		}
		if err := tw.WriteHeader(hd); err != nil {
			emit(w, map[string]interface{}{"fatal": "tar write: " + err.Error(), "name": hd.Name})
			return
		}
		if len(data) > 0 {
			tw.Write(data)
		}
	}
	tw.Close()
	drive := filepath.Join(dir, "drive.tar")
	os.WriteFile(drive, buf.Bytes(), 0o600)
	in, err := mk(job.Config, drive, filepath.Join(dir, "meta.sqlite"), dir, keyset{}, &seams{})
	if err != nil {
		emit(w, map[string]interface{}{"fatal": "mk: " + err.Error()})
		return
	}
	r.in = in
	for i, d := range r.blobs {
		_ = i
		_ = d
	}
	for i := range job.Blobs {
		e := Entry{}
		r.content(&e, r.blobs[i], nil)
		r.shaBlob[e.Sha] = i
	}
	step := func(name string, f func() map[string]interface{}) bool {
		done := make(chan map[string]interface{}, 1)
		go func() {
			defer func() {
				if x := recover(); x != nil {
					done <- map[string]interface{}{"panic": fmt.Sprint(x)}
				}
			}()
			done <- f()
		}()
		select {
		case res := <-done:
			res["step"] = name
			emit(w, res)
			_, p := res["panic"]
			return !p
		case <-time.After(15 * time.Second):
			emit(w, map[string]interface{}{"step": name, "hang": true})
			return false
		}
	}
	var composed afero.Fs
	var root string
	_ = root
	if !step("open", func() map[string]interface{} {
		before := int64(buf.Len())
		rt, err := in.s.Initialize("/", os.ModePerm)
		root = rt
		st, _ := os.Stat(drive)
		res := map[string]interface{}{"root": rt, "init": classify(err), "tape_before": before, "tape_after": st.Size()}
		if err != nil {
			res["err"] = err.Error()
			return res
		}
		composed, err = cache.NewCacheFilesystem(in.s, rt, "", 0, "")
		if err != nil {
			res["compose_err"] = err.Error()
		}
		rows, _ := dumpRows(in.meta)
		res["rows"] = rows
		ms, _, _ := r.scan(0)
		res["members"] = ms
		return res
	}) || composed == nil {
		return
	}
	if !step("walk", func() map[string]interface{} { return map[string]interface{}{"tree": walkAfero(composed, r, true)} }) {
		return
	}
	step("spell", func() map[string]interface{} {
		out := []map[string]interface{}{}
		for _, p := range job.Spell {
			for _, sp := range []string{"/" + p, p, "./" + p, "/" + p + "/", "//" + p} {
				fi, err := composed.Stat(sp)
				m := map[string]interface{}{"path": p, "spelling": sp, "out": classify(err)}
				if err == nil {
					m["dir"], m["size"] = fi.IsDir(), fi.Size()
				}
				out = append(out, m)
			}
		}
		return map[string]interface{}{"spell": out}
	})
	// 2. further calls through the composed filesystem, then a rebuild
	ok := step("after", func() map[string]interface{} {
		outs := []string{}
		for _, c := range job.After {
			var err error
			switch c.Op {
			case "mkdir":
				err = composed.Mkdir(c.Name, os.FileMode(c.Perm))
			case "mkdirall":
				err = composed.MkdirAll(c.Name, os.FileMode(c.Perm))
			case "createfile":
				var f afero.File
				f, err = composed.Create(c.Name)
				if err == nil {
					_, err = f.Write(r.blob(c.Blob))
					if e := f.Close(); err == nil {
						err = e
					}
				}
			case "remove":
				err = composed.Remove(c.Name)
			case "removeall":
				err = composed.RemoveAll(c.Name)
			case "rename":
				err = composed.Rename(c.Name, c.Name2)
			case "chmod":
				err = composed.Chmod(c.Name, os.FileMode(c.Perm))
			case "chown":
				err = composed.Chown(c.Name, c.UID, c.GID)
			case "chtimes":
				err = composed.Chtimes(c.Name, time.Unix(c.Atime, 0), time.Unix(c.Mtime, 0))
			default:
				err = fmt.Errorf("unknown op %q", c.Op)
			}
			o := classify(err)
			if err != nil {
				o += ":" + err.Error()
			}
			outs = append(outs, o)
		}
		rows, _ := dumpRows(in.meta)
		return map[string]interface{}{"outs": outs, "tree": walkAfero(composed, r, true), "rows": rows}
	})
	if !ok {
		return
	}
	step("rebuild", func() map[string]interface{} {
		in2, err := mk(job.Config, drive, filepath.Join(dir, "meta2.sqlite"), dir, keyset{}, &seams{})
		if err != nil {
			return map[string]interface{}{"err": err.Error()}
		}
		rt, err := in2.s.Initialize("/", os.ModePerm)
		res := map[string]interface{}{"root": rt, "init": classify(err)}
		if err != nil {
			res["err"] = err.Error()
			return res
		}
		c2, err := cache.NewCacheFilesystem(in2.s, rt, "", 0, "")
		if err != nil {
			res["err"] = err.Error()
			return res
		}
		res["tree"] = walkAfero(c2, r, true)
		return res
	})
}
