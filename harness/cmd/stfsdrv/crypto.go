package main

import (
	"bufio"
	"bytes"
	"encoding/json"
	"fmt"
	"io"
	"os"
	"strings"
	"time"

	"github.com/pojntfx/stfs/pkg/config"
	"github.com/pojntfx/stfs/pkg/encryption"
	"github.com/pojntfx/stfs/pkg/keys"
	"github.com/pojntfx/stfs/pkg/signature"
	"github.com/pojntfx/stfs/pkg/utility"
)

func init() {
	extraCmds["keys"] = cmdKeys
}

type keysJob struct {
	Enc       []string `json:"enc"`
	Sig       []string `json:"sig"`
	Passwords []string `json:"passwords"`
	Wrong     []string `json:"wrong"`
	Bulk      int      `json:"bulk"` // fresh pairs per format (empty password) that must parse: key bytes differ from pair to pair
}

type pair struct {
	priv, pub []byte
}

func safely(f func() error) (err error) {
	defer func() {
		if x := recover(); x != nil {
			err = fmt.Errorf("PANIC: %v", x)
		}
	}()
	return f()
}

// C18: generated keys work, and only with the right password
func cmdKeys(args []string, w *bufio.Writer) {
	var job keysJob
	if err := json.NewDecoder(os.Stdin).Decode(&job); err != nil {
		os.Exit(2)
	}
	msg := "the quick brown fox \x00\xff jumps"
	rep := func(kind, format, pw string, ok bool, detail string) {
		emit(w, map[string]interface{}{"kind": kind, "format": format, "password": pw, "ok": ok, "detail": detail})
	}
	// many fresh pairs: the serialised halves of every pair must parse back (the bytes of a key are different every time:
	// lengths, last bytes, line structure)
	for _, f := range job.Enc {
		bad := ""
		for i := 0; i < job.Bulk && bad == ""; i++ {
			priv, pub, err := utility.Keygen(config.PipeConfig{Encryption: f}, config.PasswordConfig{Password: ""})
			if err != nil {
				bad = "keygen: " + err.Error()
				break
			}
			if _, err := keys.ParseRecipient(f, pub); err != nil {
				bad = fmt.Sprintf("pair %d: public half (%d bytes, last byte %#x) does not parse: %v", i, len(pub), pub[len(pub)-1], err)
			} else if _, err := keys.ParseIdentity(f, priv, ""); err != nil {
				bad = fmt.Sprintf("pair %d: private half does not parse: %v", i, err)
			}
		}
		if job.Bulk > 0 {
			rep("enc-bulk", f, "", bad == "", bad)
		}
	}
	for _, f := range job.Sig {
		if f == "minisign" {
			continue // every minisign parse costs a 1 GiB scrypt; its keys are fixed-length text
		}
		bad := ""
		for i := 0; i < job.Bulk && bad == ""; i++ {
			priv, pub, err := utility.Keygen(config.PipeConfig{Signature: f}, config.PasswordConfig{Password: ""})
			if err != nil {
				bad = "keygen: " + err.Error()
				break
			}
			if _, err := keys.ParseSignerRecipient(f, pub); err != nil {
				bad = fmt.Sprintf("pair %d: public half (%d bytes, last byte %#x) does not parse: %v", i, len(pub), pub[len(pub)-1], err)
			} else if _, err := keys.ParseSignerIdentity(f, priv, ""); err != nil {
				bad = fmt.Sprintf("pair %d: private half does not parse: %v", i, err)
			}
		}
		if job.Bulk > 0 {
			rep("sig-bulk", f, "", bad == "", bad)
		}
	}
	for _, f := range job.Enc {
		for _, pw := range job.Passwords {
			var ps [2]pair
			genOK := true
			for i := range ps {
				t0 := time.Now()
				priv, pub, err := utility.Keygen(config.PipeConfig{Encryption: f}, config.PasswordConfig{Password: pw})
				if err != nil {
					rep("enc-keygen", f, pw, false, err.Error())
					genOK = false
					break
				}
				ps[i] = pair{priv, pub}
				_ = t0
			}
			if !genOK {
				continue
			}
			id0, err := keys.ParseIdentity(f, ps[0].priv, pw)
			rc0, err2 := keys.ParseRecipient(f, ps[0].pub)
			if err != nil || err2 != nil {
				rep("enc-parse", f, pw, false, fmt.Sprint(err, err2))
				continue
			}
			rep("enc-parse", f, pw, true, "")
			// string round trip
			ct, err := encryption.EncryptString(msg, f, rc0)
			var pt string
			if err == nil {
				err = safely(func() error { var e error; pt, e = encryption.DecryptString(ct, f, id0); return e })
			}
			rep("enc-string-roundtrip", f, pw, err == nil && pt == msg, fmt.Sprint(err))
			// stream round trip
			var buf bytes.Buffer
			err = safely(func() error {
				ew, e := encryption.Encrypt(&buf, f, rc0)
				if e != nil {
					return e
				}
				if _, e := io.WriteString(ew, strings.Repeat(msg, 50)); e != nil {
					return e
				}
				if e := ew.Close(); e != nil {
					return e
				}
				dr, e := encryption.Decrypt(&buf, f, id0)
				if e != nil {
					return e
				}
				out, e := io.ReadAll(dr)
				if e != nil {
					return e
				}
				if string(out) != strings.Repeat(msg, 50) {
					return fmt.Errorf("stream mismatch")
				}
				return nil
			})
			rep("enc-stream-roundtrip", f, pw, err == nil, fmt.Sprint(err))
			// wrong passwords
			for _, wp := range job.Wrong {
				if wp == pw {
					continue
				}
				var idw interface{}
				err := safely(func() error { var e error; idw, e = keys.ParseIdentity(f, ps[0].priv, wp); return e })
				usable := false
				if err == nil {
					// parsed: is the key at least unusable?
					e2 := safely(func() error { _, e := encryption.DecryptString(ct, f, idw); return e })
					usable = e2 == nil
				}
				rep("enc-wrong-password", f, pw, err != nil, fmt.Sprintf("wrong=%q parse_err=%v usable=%v", wp, err, usable))
			}
			// cross pair
			id1, err := keys.ParseIdentity(f, ps[1].priv, pw)
			if err == nil {
				e2 := safely(func() error { _, e := encryption.DecryptString(ct, f, id1); return e })
				rep("enc-cross-pair", f, pw, e2 != nil, fmt.Sprint(e2))
			}
		}
	}
	for _, f := range job.Sig {
		for _, pw := range job.Passwords {
			var ps [2]pair
			genOK := true
			for i := range ps {
				priv, pub, err := utility.Keygen(config.PipeConfig{Signature: f}, config.PasswordConfig{Password: pw})
				if err != nil {
					rep("sig-keygen", f, pw, false, err.Error())
					genOK = false
					break
				}
				ps[i] = pair{priv, pub}
			}
			if !genOK {
				continue
			}
			id0, err := keys.ParseSignerIdentity(f, ps[0].priv, pw)
			rc0, err2 := keys.ParseSignerRecipient(f, ps[0].pub)
			if err != nil || err2 != nil {
				rep("sig-parse", f, pw, false, fmt.Sprint(err, err2))
				continue
			}
			rep("sig-parse", f, pw, true, "")
			var sg string
			err = safely(func() error { var e error; sg, e = signature.SignString(msg, true, f, id0); return e })
			if err == nil {
				err = safely(func() error { return signature.VerifyString(msg, true, f, rc0, sg) })
			}
			rep("sig-string-roundtrip", f, pw, err == nil, fmt.Sprint(err))
			// messages of every shape: line feeds (bare, CRLF, trailing), empty, binary
			for _, m := range []string{"", "\n", "x\n", "two\nlines", "cr\r\nlf", "tab\tand \x00 nul", strings.Repeat("long line ", 200)} {
				m := m
				var sgm string
				e := safely(func() error { var e error; sgm, e = signature.SignString(m, true, f, id0); return e })
				if e == nil {
					e = safely(func() error { return signature.VerifyString(m, true, f, rc0, sgm) })
				}
				if e != nil {
					rep("sig-string-roundtrip", f, pw, false, fmt.Sprintf("message %q: %v", m, e))
					break
				}
			}
			// a different message must not verify
			err = safely(func() error { return signature.VerifyString(msg+"x", true, f, rc0, sg) })
			rep("sig-altered-message", f, pw, err != nil, fmt.Sprint(err))
			// stream
			err = safely(func() error {
				sr, fin, e := signature.Sign(strings.NewReader(strings.Repeat(msg, 40)), true, f, id0)
				if e != nil {
					return e
				}
				if _, e := io.Copy(io.Discard, sr); e != nil {
					return e
				}
				s2, e := fin()
				if e != nil {
					return e
				}
				vr, vfin, e := signature.Verify(strings.NewReader(strings.Repeat(msg, 40)), true, f, rc0, s2)
				if e != nil {
					return e
				}
				if _, e := io.Copy(io.Discard, vr); e != nil {
					return e
				}
				return vfin()
			})
			rep("sig-stream-roundtrip", f, pw, err == nil, fmt.Sprint(err))
			for _, wp := range job.Wrong {
				if wp == pw {
					continue
				}
				var idw interface{}
				err := safely(func() error { var e error; idw, e = keys.ParseSignerIdentity(f, ps[0].priv, wp); return e })
				usable := false
				if err == nil {
					e2 := safely(func() error { _, e := signature.SignString(msg, true, f, idw); return e })
					usable = e2 == nil
				}
				rep("sig-wrong-password", f, pw, err != nil, fmt.Sprintf("wrong=%q parse_err=%v usable=%v", wp, err, usable))
			}
			rc1, err := keys.ParseSignerRecipient(f, ps[1].pub)
			if err == nil {
				e2 := safely(func() error { return signature.VerifyString(msg, true, f, rc1, sg) })
				rep("sig-cross-pair", f, pw, e2 != nil, fmt.Sprint(e2))
			}
		}
	}
}
