package main

import (
	"archive/tar"
	"bufio"
	"bytes"
	"crypto/sha256"
	"encoding/base64"
	"encoding/hex"
	"encoding/json"
	"errors"
	"fmt"
	"io"
	iofs "io/fs"
	"os"
	"path"
	"path/filepath"
	"sort"
	"strings"
	"sync"
	"sync/atomic"
	"syscall"
	"time"

	"github.com/pojntfx/stfs/pkg/encryption"
	"github.com/pojntfx/stfs/pkg/mtio"
	"github.com/pojntfx/stfs/pkg/recovery"
	"github.com/pojntfx/stfs/pkg/signature"
	"github.com/spf13/afero"
)

// further subcommands are registered here
func extraCommand(name string, args []string, w *bufio.Writer) bool {
	switch name {
	case "ref":
		var h History
		var rd io.Reader = os.Stdin
		if len(args) > 0 {
			f, err := os.Open(args[0])
			if err != nil {
				fmt.Fprintln(os.Stderr, err)
				os.Exit(2)
			}
			defer f.Close()
			rd = f
		}
		if err := json.NewDecoder(rd).Decode(&h); err != nil {
			fmt.Fprintln(os.Stderr, "bad history:", err)
			os.Exit(2)
		}
		runRef(h, w)
		return true
	}
	if f, ok := extraCmds[name]; ok {
		f(args, w)
		return true
	}
	return false
}

func classifyRef(err error) string {
	if err == nil {
		return "ok"
	}
	var en syscall.Errno
	if errors.As(err, &en) {
		switch en {
		case syscall.ENOENT:
			return "notexist"
		case syscall.EEXIST:
			return "exist"
		case syscall.ENOTDIR:
			return "isfile"
		case syscall.EISDIR:
			return "isdir"
		case syscall.ENOTEMPTY:
			return "notempty"
		case syscall.EINVAL:
			return "invalid"
		case syscall.EACCES, syscall.EPERM, syscall.EBADF:
			return "perm"
		}
	}
	return classify(err)
}

// runRef executes the filesystem-level calls of a history on afero's OsFs (the oracle of the
// repository's own tests) below a scratch directory and reports outcome classes and trees.
func runRef(h History, w *bufio.Writer) {
	base := os.Getenv("VERIF_SCRATCH")
	if base == "" {
		base = os.TempDir()
	}
	dir, err := os.MkdirTemp(base, "stfsref-")
	if err != nil {
		emit(w, map[string]interface{}{"fatal": err.Error()})
		return
	}
	defer os.RemoveAll(dir)
	os.Chmod(dir, 0o777)
	s := afero.NewBasePathFs(afero.NewOsFs(), dir)
	r := &runner{h: h, shaBlob: map[string]int{}}
	for _, b := range h.Blobs {
		r.blobs = append(r.blobs, pattern(b))
	}
	old := syscall.Umask(0)
	defer syscall.Umask(old)
	files := map[string]afero.File{}
	for i, c := range h.Calls {
		res := Result{I: i, Op: c.Op}
		var cerr error
		data := r.blob(c.Blob)
		if c.Op != "createfile" && c.Op != "writefile" {
			data = nil
		}
		res.T0 = time.Now().UnixNano()
		switch c.Op {
		case "initialize", "reopen", "nop":
		case "mkdir":
			cerr = s.Mkdir(c.Name, os.FileMode(c.Perm))
		case "mkdirall":
			cerr = s.MkdirAll(c.Name, os.FileMode(c.Perm))
		case "remove":
			cerr = s.Remove(c.Name)
		case "removeall":
			cerr = s.RemoveAll(c.Name)
		case "rename":
			cerr = s.Rename(c.Name, c.Name2)
		case "chmod":
			cerr = s.Chmod(c.Name, os.FileMode(c.Perm))
		case "chown":
			cerr = s.Chown(c.Name, c.UID, c.GID)
		case "chtimes":
			cerr = s.Chtimes(c.Name, time.Unix(c.Atime, 0), time.Unix(c.Mtime, 0))
		case "createfile":
			var f afero.File
			f, cerr = s.Create(c.Name)
			if cerr == nil {
				if len(data) > 0 {
					_, cerr = f.Write(data)
				}
				if e := f.Close(); cerr == nil {
					cerr = e
				}
			}
		case "writefile":
			var f afero.File
			f, cerr = s.OpenFile(c.Name, c.Flags, os.FileMode(c.Perm))
			if cerr == nil {
				if len(data) > 0 || c.Bool {
					_, cerr = f.Write(data)
				}
				if e := f.Close(); cerr == nil {
					cerr = e
				}
			}
		case "open":
			var f afero.File
			f, cerr = s.OpenFile(c.Name, c.Flags, os.FileMode(c.Perm))
			if cerr == nil {
				files[c.H] = f
			}
		case "read", "readat", "seek", "write", "writeat", "writestring", "truncate", "sync", "close", "hstat":
			f := files[c.H]
			if f == nil {
				cerr = errors.New("no handle")
				break
			}
			hdata := []byte{}
			if c.Data != "" {
				hdata, _ = base64.StdEncoding.DecodeString(c.Data)
			}
			res.Ret = map[string]interface{}{}
			switch c.Op {
			case "read":
				buf := make([]byte, c.N)
				var n int
				n, cerr = f.Read(buf)
				res.Ret["n"] = n
				if n > 0 {
					res.Ret["data"] = base64.StdEncoding.EncodeToString(buf[:n])
				}
			case "readat":
				buf := make([]byte, c.N)
				var n int
				n, cerr = f.ReadAt(buf, c.Off)
				res.Ret["n"] = n
				if n > 0 {
					res.Ret["data"] = base64.StdEncoding.EncodeToString(buf[:n])
				}
			case "seek":
				var o int64
				o, cerr = f.Seek(c.Off, c.Whence)
				res.Ret["off"] = o
			case "write":
				var n int
				n, cerr = f.Write(hdata)
				res.Ret["n"] = n
			case "writeat":
				var n int
				n, cerr = f.WriteAt(hdata, c.Off)
				res.Ret["n"] = n
			case "writestring":
				var n int
				n, cerr = f.WriteString(string(hdata))
				res.Ret["n"] = n
			case "truncate":
				cerr = f.Truncate(c.Off)
			case "sync":
				cerr = f.Sync()
			case "close":
				cerr = f.Close()
				delete(files, c.H)
			case "hstat":
				var fi os.FileInfo
				fi, cerr = f.Stat()
				if cerr == nil {
					res.Ret["info"] = Entry{Path: c.Name, Size: fi.Size(), Mode: uint32(fi.Mode()), Blob: -2}
				}
			}
		case "readfile":
			var d []byte
			d, cerr = afero.ReadFile(s, c.Name)
			e := Entry{Blob: -2}
			r.content(&e, d, nil)
			res.Ret = map[string]interface{}{"len": e.Len, "sha": e.Sha}
		case "stat":
			var fi os.FileInfo
			fi, cerr = s.Stat(c.Name)
			if cerr == nil {
				res.Ret = map[string]interface{}{"info": Entry{Path: c.Name, Size: fi.Size(), Mode: uint32(fi.Mode()), Blob: -2}}
			}
		default:
			cerr = fmt.Errorf("unsupported in reference: %s", c.Op)
		}
		res.T1 = time.Now().UnixNano()
		res.Out = classifyRef(cerr)
		if cerr != nil {
			res.Err = cerr.Error()
		}
		if len(files) == 0 {
			res.Obs = map[string]interface{}{"tree": r.refWalk(s)}
		}
		emit(w, res)
	}
}

func (r *runner) refWalk(s afero.Fs) []Entry {
	out := []Entry{}
	var rec func(p string)
	rec = func(p string) {
		f, err := s.Open(p)
		if err != nil {
			return
		}
		infos, _ := f.Readdir(-1)
		f.Close()
		sort.Slice(infos, func(i, j int) bool { return infos[i].Name() < infos[j].Name() })
		for _, fi := range infos {
			cp := path.Join(p, fi.Name())
			e := Entry{Path: cp, Size: fi.Size(), Mode: uint32(fi.Mode()), Mtime: fi.ModTime().UnixNano(), Blob: -2}
			if st, ok := fi.Sys().(*syscall.Stat_t); ok {
				e.UID, e.GID = int64(st.Uid), int64(st.Gid)
			}
			if fi.IsDir() {
				e.Kind = "d"
				e.Size = 0
			} else {
				e.Kind = "f"
				g, err := s.Open(cp)
				if err == nil {
					var buf bytes.Buffer
					io.Copy(&buf, g)
					g.Close()
					e.Len = buf.Len()
					e.Pieces = r.decompose(buf.Bytes())
				}
			}
			out = append(out, e)
			if fi.IsDir() {
				rec(cp)
			}
		}
	}
	if fi, err := s.Stat("/"); err == nil {
		out = append(out, Entry{Path: "/", Kind: "d", Mode: uint32(fi.Mode()), Mtime: fi.ModTime().UnixNano(), Blob: -2})
	}
	rec("/")
	return out
}

// ---------------------------------------------------------------- prefix sweep (C06)

type prefixResult struct {
	N      int64  `json:"n"`
	Class  string `json:"class"` // ok | error class | HANG | PANIC
	Err    string `json:"err,omitempty"`
	RowSig string `json:"rowsig"` // hash of the projected rows
	Rows   []Row  `json:"rows,omitempty"`
	Fetch  []map[string]interface{} `json:"fetch,omitempty"`
}

type prefixJob struct {
	History History `json:"history"`
	Ns      []int64 `json:"ns"`     // explicit prefix lengths; empty: every byte
	Stride  int64   `json:"stride"` // with empty Ns: every Stride-th byte plus block boundaries +-1
	TmoMs   int     `json:"tmo_ms"` // watchdog per evaluated prefix (default 5000 ms)
	Par     int     `json:"par"`    // prefixes evaluated in parallel (default 12)
	From    int64   `json:"from"`   // with empty Ns: only prefix lengths in [From, To) (To = 0: no upper bound); every evaluated
	To      int64   `json:"to"`     // prefix leaves an index database open in this process, so long sweeps are cut into chunks
}

func init() {
	extraCmds["prefix"] = cmdPrefix
}

var extraCmds = map[string]func(args []string, w *bufio.Writer){}

func cmdPrefix(args []string, w *bufio.Writer) {
	var job prefixJob
	if err := json.NewDecoder(os.Stdin).Decode(&job); err != nil {
		fmt.Fprintln(os.Stderr, "bad job:", err)
		os.Exit(2)
	}
	h := job.History
	base := os.Getenv("VERIF_SCRATCH")
	if base == "" {
		base = os.TempDir()
	}
	dir, err := os.MkdirTemp(base, "stfspfx-")
	if err != nil {
		os.Exit(2)
	}
	defer os.RemoveAll(dir)
	keysDir := filepath.Join(base, "stfsdrv-keys")
	ks, err := loadOrGenKeys(keysDir, h.Config.Enc, h.Config.Sig, h.Config.Password, h.KeyTag)
	if err != nil {
		emit(w, map[string]interface{}{"fatal": err.Error()})
		return
	}
	r := &runner{h: h, ks: ks, dir: dir, files: map[string]afero.File{}, shaBlob: map[string]int{}}
	for i, b := range h.Blobs {
		d := pattern(b)
		r.blobs = append(r.blobs, d)
		sum := sha256.Sum256(d)
		r.shaBlob[hex.EncodeToString(sum[:8])] = i
	}
	in, err := mk(h.Config, filepath.Join(dir, "drive.tar"), filepath.Join(dir, "meta.sqlite"), dir, ks, &seams{})
	if err != nil {
		emit(w, map[string]interface{}{"fatal": err.Error()})
		return
	}
	r.in = in
	for _, c := range h.Calls {
		done := make(chan struct{})
		go func() { defer close(done); r.exec(c) }()
		select {
		case <-done:
		case <-time.After(10 * time.Second):
			emit(w, map[string]interface{}{"fatal": "history hung"})
			return
		}
	}
	full, _ := os.ReadFile(in.drive)
	members, _, _ := r.scan(0)
	emit(w, map[string]interface{}{"full_len": len(full), "members": members})
	ns := job.Ns
	if len(ns) == 0 {
		stride := job.Stride
		if stride <= 0 {
			stride = 1
		}
		seen := map[int64]bool{}
		add := func(n int64) {
			if n < job.From || (job.To > 0 && n >= job.To) {
				return
			}
			if n >= 0 && n <= int64(len(full)) && !seen[n] {
				seen[n] = true
				ns = append(ns, n)
			}
		}
		for n := int64(0); n <= int64(len(full)); n += stride {
			add(n)
		}
		for b := int64(0); b <= int64(len(full)); b += 512 {
			add(b - 1)
			add(b)
			add(b + 1)
		}
		for _, m := range members {
			add((m.Start+m.HB)*512 + m.Size)
			add((m.Start+m.HB)*512 + m.Size - 1)
		}
		add(int64(len(full)))
		sort.Slice(ns, func(i, j int) bool { return ns[i] < ns[j] })
	}
	type res struct {
		idx int
		pr  prefixResult
	}
	out := make([]prefixResult, len(ns))
	par, tmo := job.Par, time.Duration(job.TmoMs)*time.Millisecond
	if par <= 0 {
		par = 12
	}
	if tmo <= 0 {
		tmo = 5 * time.Second
	}
	sem := make(chan struct{}, par)
	var wg sync.WaitGroup
	var mu sync.Mutex
	sigSeen := map[string]bool{}
	var readHangs int32
	for i, n := range ns {
		wg.Add(1)
		sem <- struct{}{}
		go func(i int, n int64) {
			defer wg.Done()
			defer func() { <-sem }()
			sub, _ := os.MkdirTemp(dir, "p")
			defer os.RemoveAll(sub)
			drive := filepath.Join(sub, "d.tar")
			os.WriteFile(drive, full[:n], 0o600)
			pr := prefixResult{N: n}
			in2, err := mk(h.Config, drive, filepath.Join(sub, "m.sqlite"), sub, ks, &seams{})
			if err != nil {
				pr.Class = "mk:" + err.Error()
				out[i] = pr
				return
			}
			done := make(chan struct{})
			var ierr error
			panicked := ""
			go func() {
				defer close(done)
				defer func() {
					if x := recover(); x != nil {
						panicked = fmt.Sprint(x)
					}
				}()
				rd, err := in2.bc.GetReader()
				if err != nil {
					ierr = err
					return
				}
				ierr = recovery.Index(rd, mtio.MagneticTapeIO{}, in2.mc, in2.pipes, in2.rcrypt, 0, 0, true, false, 0,
					func(hh *tar.Header, k int) error {
						return encryption.DecryptHeader(hh, in2.pipes.Encryption, in2.rcrypt.Identity)
					},
					func(hh *tar.Header, reg bool) error {
						return signature.VerifyHeader(hh, reg, in2.pipes.Signature, in2.rcrypt.Recipient)
					}, nil)
				in2.bc.CloseReader()
			}()
			select {
			case <-done:
				if panicked != "" {
					pr.Class, pr.Err = "PANIC", panicked
				} else if ierr != nil {
					pr.Class, pr.Err = "error", ierr.Error()
				} else {
					pr.Class = "ok"
				}
			case <-time.After(tmo):
				pr.Class = "HANG"
				out[i] = pr
				return
			}
			rows, _ := dumpRows(filepath.Join(sub, "m.sqlite"))
			for k := range rows {
				rows[k].Mtime, rows[k].Atime, rows[k].Ctime = 0, 0, 0
				rows[k].Pax = ""
			}
			b, _ := json.Marshal(rows)
			sum := sha256.Sum256(b)
			pr.RowSig = hex.EncodeToString(sum[:8])
			mu.Lock()
			first := !sigSeen[pr.RowSig]
			sigSeen[pr.RowSig] = true
			mu.Unlock()
			if first {
				pr.Rows = rows
			}
			if atomic.LoadInt32(&readHangs) >= 6 {
				// enough evidence of hanging reads: do not spend the watchdog time on every further cut
				out[i] = pr
				return
			}
			r2 := &runner{h: h, in: in2, ks: ks, dir: sub, shaBlob: r.shaBlob, blobs: r.blobs}
			fd := make(chan struct{})
			go func() {
				defer close(fd)
				defer func() { recover() }()
				pr.Fetch = r2.fetchAll()
				// the same entries read through the filesystem (Open + Read until EOF) and through Operations.Restore
				for _, f := range pr.Fetch {
					name, _ := f["name"].(string)
					if name == "" || f["rec"] == nil {
						continue
					}
					p := name
					if !strings.HasPrefix(p, "/") {
						p = "/" + p
					}
					data, rerr := r2.readAll(in2.s, p)
					e := Entry{Blob: -2}
					r2.content(&e, data, rerr)
					f["fs_len"], f["fs_sha"], f["fs_err"] = e.Len, e.Sha, e.Err
					var buf bytes.Buffer
					oerr := in2.ro.Restore(
						func(path string, mode iofs.FileMode) (io.WriteCloser, error) { return nopWC{&buf}, nil },
						func(path string, mode iofs.FileMode) error { return nil }, p, "", true)
					e2 := Entry{Blob: -2}
					r2.content(&e2, buf.Bytes(), oerr)
					f["op_len"], f["op_sha"], f["op_err"] = e2.Len, e2.Sha, e2.Err
				}
				// the user-level route: a fresh instance over (a copy of) the same cut tape with an empty index is
				// initialised (STFS.Initialize rebuilds the index) and the entries are read through THAT instance
				drive3 := filepath.Join(sub, "d3.tar")
				os.WriteFile(drive3, full[:n], 0o600)
				in3, err3 := mk(h.Config, drive3, filepath.Join(sub, "m3.sqlite"), sub, ks, &seams{})
				if err3 != nil {
					return
				}
				if _, ierr3 := in3.s.Initialize(rootOf(h.Config), os.ModePerm); ierr3 != nil {
					return // judged by C16: nothing to read through an instance that did not open
				}
				r3 := &runner{h: h, in: in3, ks: ks, dir: sub, shaBlob: r.shaBlob, blobs: r.blobs}
				for _, f := range pr.Fetch {
					name, _ := f["name"].(string)
					if name == "" || f["rec"] == nil {
						continue
					}
					p := name
					if !strings.HasPrefix(p, "/") {
						p = "/" + p
					}
					data, rerr := r3.readAll(in3.s, p)
					e := Entry{Blob: -2}
					r3.content(&e, data, rerr)
					f["in_len"], f["in_sha"], f["in_err"] = e.Len, e.Sha, e.Err
				}
			}()
			select {
			case <-fd:
			case <-time.After(3 * tmo):
				atomic.AddInt32(&readHangs, 1)
				pr.Fetch = []map[string]interface{}{{"name": "*", "err": "HANG"}}
			}
			out[i] = pr
		}(i, n)
	}
	wg.Wait()
	for _, pr := range out {
		emit(w, pr)
	}
}
