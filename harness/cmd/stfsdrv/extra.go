package main

import "bufio"

// further subcommands (prefix sweeps, forgeries, ...) are registered here
func extraCommand(name string, args []string, w *bufio.Writer) bool {
	return false
}
