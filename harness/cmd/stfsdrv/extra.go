package main

import (
	"bufio"
	"bytes"
	"encoding/json"
	"errors"
	"fmt"
	"io"
	"os"
	"path"
	"sort"
	"syscall"
	"time"

	"github.com/spf13/afero"
)

// further subcommands are registered here
func extraCommand(name string, args []string, w *bufio.Writer) bool {
	switch name {
	case "ref":
		var h History
		var rd io.Reader = os.Stdin
		if len(args) > 0 {
			f, err := os.Open(args[0])
			if err != nil {
				fmt.Fprintln(os.Stderr, err)
				os.Exit(2)
			}
			defer f.Close()
			rd = f
		}
		if err := json.NewDecoder(rd).Decode(&h); err != nil {
			fmt.Fprintln(os.Stderr, "bad history:", err)
			os.Exit(2)
		}
		runRef(h, w)
		return true
	}
	return false
}

func classifyRef(err error) string {
	if err == nil {
		return "ok"
	}
	var en syscall.Errno
	if errors.As(err, &en) {
		switch en {
		case syscall.ENOENT:
			return "notexist"
		case syscall.EEXIST:
			return "exist"
		case syscall.ENOTDIR:
			return "isfile"
		case syscall.EISDIR:
			return "isdir"
		case syscall.ENOTEMPTY:
			return "notempty"
		case syscall.EINVAL:
			return "invalid"
		case syscall.EACCES, syscall.EPERM, syscall.EBADF:
			return "perm"
		}
	}
	return classify(err)
}

// runRef executes the filesystem-level calls of a history on afero's OsFs (the oracle of the
// repository's own tests) below a scratch directory and reports outcome classes and trees.
func runRef(h History, w *bufio.Writer) {
	base := os.Getenv("VERIF_SCRATCH")
	if base == "" {
		base = os.TempDir()
	}
	dir, err := os.MkdirTemp(base, "stfsref-")
	if err != nil {
		emit(w, map[string]interface{}{"fatal": err.Error()})
		return
	}
	defer os.RemoveAll(dir)
	os.Chmod(dir, 0o777)
	s := afero.NewBasePathFs(afero.NewOsFs(), dir)
	r := &runner{h: h, shaBlob: map[string]int{}}
	for _, b := range h.Blobs {
		r.blobs = append(r.blobs, pattern(b))
	}
	old := syscall.Umask(0)
	defer syscall.Umask(old)
	for i, c := range h.Calls {
		res := Result{I: i, Op: c.Op}
		var cerr error
		data := r.blob(c.Blob)
		if c.Op != "createfile" && c.Op != "writefile" {
			data = nil
		}
		res.T0 = time.Now().UnixNano()
		switch c.Op {
		case "initialize", "reopen", "nop":
		case "mkdir":
			cerr = s.Mkdir(c.Name, os.FileMode(c.Perm))
		case "mkdirall":
			cerr = s.MkdirAll(c.Name, os.FileMode(c.Perm))
		case "remove":
			cerr = s.Remove(c.Name)
		case "removeall":
			cerr = s.RemoveAll(c.Name)
		case "rename":
			cerr = s.Rename(c.Name, c.Name2)
		case "chmod":
			cerr = s.Chmod(c.Name, os.FileMode(c.Perm))
		case "chown":
			cerr = s.Chown(c.Name, c.UID, c.GID)
		case "chtimes":
			cerr = s.Chtimes(c.Name, time.Unix(c.Atime, 0), time.Unix(c.Mtime, 0))
		case "createfile":
			var f afero.File
			f, cerr = s.Create(c.Name)
			if cerr == nil {
				if len(data) > 0 {
					_, cerr = f.Write(data)
				}
				if e := f.Close(); cerr == nil {
					cerr = e
				}
			}
		case "writefile":
			var f afero.File
			f, cerr = s.OpenFile(c.Name, c.Flags, os.FileMode(c.Perm))
			if cerr == nil {
				if len(data) > 0 || c.Bool {
					_, cerr = f.Write(data)
				}
				if e := f.Close(); cerr == nil {
					cerr = e
				}
			}
		default:
			cerr = fmt.Errorf("unsupported in reference: %s", c.Op)
		}
		res.T1 = time.Now().UnixNano()
		res.Out = classifyRef(cerr)
		if cerr != nil {
			res.Err = cerr.Error()
		}
		res.Obs = map[string]interface{}{"tree": r.refWalk(s)}
		emit(w, res)
	}
}

func (r *runner) refWalk(s afero.Fs) []Entry {
	out := []Entry{}
	var rec func(p string)
	rec = func(p string) {
		f, err := s.Open(p)
		if err != nil {
			return
		}
		infos, _ := f.Readdir(-1)
		f.Close()
		sort.Slice(infos, func(i, j int) bool { return infos[i].Name() < infos[j].Name() })
		for _, fi := range infos {
			cp := path.Join(p, fi.Name())
			e := Entry{Path: cp, Size: fi.Size(), Mode: uint32(fi.Mode()), Mtime: fi.ModTime().UnixNano(), Blob: -2}
			if st, ok := fi.Sys().(*syscall.Stat_t); ok {
				e.UID, e.GID = int64(st.Uid), int64(st.Gid)
			}
			if fi.IsDir() {
				e.Kind = "d"
				e.Size = 0
			} else {
				e.Kind = "f"
				g, err := s.Open(cp)
				if err == nil {
					var buf bytes.Buffer
					io.Copy(&buf, g)
					g.Close()
					e.Len = buf.Len()
					e.Pieces = r.decompose(buf.Bytes())
				}
			}
			out = append(out, e)
			if fi.IsDir() {
				rec(cp)
			}
		}
	}
	if fi, err := s.Stat("/"); err == nil {
		out = append(out, Entry{Path: "/", Kind: "d", Mode: uint32(fi.Mode()), Mtime: fi.ModTime().UnixNano(), Blob: -2})
	}
	rec("/")
	return out
}
