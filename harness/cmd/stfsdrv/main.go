// stfsdrv: drives a real STFS instance built from /repo through a scripted history and
// reports what happened as JSON lines (DESIGN.md §2.3).
package main

import (
	"bufio"
	"crypto/sha256"
	"encoding/hex"
	"encoding/json"
	"fmt"
	"io"
	"os"
	"path/filepath"
	"runtime"
	"sync/atomic"
	"time"

	"github.com/spf13/afero"
)

func toNs(v interface{}) int64 {
	switch t := v.(type) {
	case time.Time:
		if t.IsZero() {
			return 0
		}
		return t.UnixNano()
	case string:
		for _, l := range []string{time.RFC3339Nano, "2006-01-02 15:04:05.999999999-07:00", "2006-01-02 15:04:05.999999999 -0700 MST", "2006-01-02 15:04:05"} {
			if x, err := time.Parse(l, t); err == nil {
				if x.IsZero() {
					return 0
				}
				return x.UnixNano()
			}
		}
	case []byte:
		return toNs(string(t))
	case int64:
		return t
	}
	return -1
}

func emit(w *bufio.Writer, v interface{}) {
	b, _ := json.Marshal(v)
	w.Write(b)
	w.WriteByte('\n')
	w.Flush()
}

func runHistory(h History, w *bufio.Writer) int {
	base := os.Getenv("VERIF_SCRATCH")
	if base == "" {
		base = os.TempDir()
	}
	dir, err := os.MkdirTemp(base, "stfsdrv-")
	if err != nil {
		emit(w, map[string]interface{}{"fatal": err.Error()})
		return 2
	}
	defer os.RemoveAll(dir)
	keysDir := h.Config.KeysDir
	if keysDir == "" {
		keysDir = filepath.Join(base, "stfsdrv-keys")
	}
	ks, err := loadOrGenKeys(keysDir, h.Config.Enc, h.Config.Sig, h.Config.Password, h.KeyTag)
	if err != nil {
		emit(w, map[string]interface{}{"fatal": "keys: " + err.Error()})
		return 2
	}
	r := &runner{h: h, ks: ks, dir: dir, files: map[string]afero.File{}, shaBlob: map[string]int{}}
	for i, b := range h.Blobs {
		d := pattern(b)
		r.blobs = append(r.blobs, d)
		s := sha256.Sum256(d)
		r.shaBlob[hex.EncodeToString(s[:8])] = i
	}
	in, err := mk(h.Config, filepath.Join(dir, "drive.tar"), filepath.Join(dir, "meta.sqlite"), dir, ks, &seams{})
	if err != nil {
		emit(w, map[string]interface{}{"fatal": "mk: " + err.Error()})
		return 2
	}
	r.in = in
	for i, c := range h.Calls {
		res := Result{I: i, Op: c.Op}
		tmo := c.Tmo
		if tmo == 0 {
			tmo = 8000
		}
		r.in.sm.reset(c.Fault)
		done := make(chan struct{})
		var ret map[string]interface{}
		var cerr error
		res.T0 = time.Now().UnixNano()
		go func() {
			defer close(done)
			ret, cerr = r.exec(c)
		}()
		select {
		case <-done:
		case <-time.After(time.Duration(tmo) * time.Millisecond):
			res.T1 = time.Now().UnixNano()
			res.Out = "HANG"
			res.Held = atomic.LoadInt32(&r.in.held)
			res.Seams, res.Fired = r.in.sm.snapshot()
			emit(w, res)
			if os.Getenv("VERIF_DUMP") != "" {
				buf := make([]byte, 1<<16)
				n := runtime.Stack(buf, true)
				os.Stderr.Write(buf[:n])
			}
			return 3
		}
		res.T1 = time.Now().UnixNano()
		res.Out = classify(cerr)
		if cerr != nil {
			res.Err = cerr.Error()
		}
		res.Ret = ret
		res.Seams, res.Fired = r.in.sm.snapshot()
		r.in.sm.reset(nil)
		// give a finished read goroutine the chance to release the drive before we look
		if atomic.LoadInt32(&r.in.held) != 0 {
			for k := 0; k < 50 && atomic.LoadInt32(&r.in.held) != 0; k++ {
				time.Sleep(2 * time.Millisecond)
			}
		}
		res.Held = atomic.LoadInt32(&r.in.held)
		obs := c.Obs
		if obs == nil {
			obs = h.Obs
		}
		if len(obs) > 0 && len(r.files) == 0 || containsStr(obs, "force") {
			od := make(chan struct{})
			go func() {
				defer close(od)
				res.Obs = r.observe(obs)
			}()
			select {
			case <-od:
			case <-time.After(20 * time.Second):
				res.Obs = map[string]interface{}{"observe": "HANG"}
				emit(w, res)
				if os.Getenv("VERIF_DUMP") != "" {
					buf := make([]byte, 1<<16)
					n := runtime.Stack(buf, true)
					os.Stderr.Write(buf[:n])
				}
				return 3
			}
		}
		emit(w, res)
	}
	return 0
}

func containsStr(l []string, s string) bool {
	for _, x := range l {
		if x == s {
			return true
		}
	}
	return false
}

func main() {
	if len(os.Args) < 2 {
		fmt.Fprintln(os.Stderr, "usage: stfsdrv run [history.json] | ...")
		os.Exit(2)
	}
	w := bufio.NewWriterSize(os.Stdout, 1<<20)
	defer w.Flush()
	switch os.Args[1] {
	case "run":
		var rd io.Reader = os.Stdin
		if len(os.Args) > 2 {
			f, err := os.Open(os.Args[2])
			if err != nil {
				fmt.Fprintln(os.Stderr, err)
				os.Exit(2)
			}
			defer f.Close()
			rd = f
		}
		var h History
		if err := json.NewDecoder(rd).Decode(&h); err != nil {
			fmt.Fprintln(os.Stderr, "bad history:", err)
			os.Exit(2)
		}
		rc := runHistory(h, w)
		w.Flush()
		os.Exit(rc)
	default:
		if !extraCommand(os.Args[1], os.Args[2:], w) {
			fmt.Fprintln(os.Stderr, "unknown command", os.Args[1])
			os.Exit(2)
		}
	}
}
