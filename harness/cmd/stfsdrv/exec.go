package main

import (
	"archive/tar"
	"bytes"
	"context"
	"crypto/sha256"
	"encoding/base64"
	"encoding/hex"
	"errors"
	"fmt"
	"io"
	iofs "io/fs"
	"os"
	"path"
	"path/filepath"
	"sort"
	"strings"
	"sync"
	"time"

	"database/sql"

	"github.com/pojntfx/stfs/pkg/config"
	"github.com/pojntfx/stfs/pkg/encryption"
	sfs "github.com/pojntfx/stfs/pkg/fs"
	"github.com/pojntfx/stfs/pkg/mtio"
	"github.com/pojntfx/stfs/pkg/recovery"
	"github.com/pojntfx/stfs/pkg/signature"
	"github.com/spf13/afero"
)

type Blob struct {
	Seed int    `json:"seed"`
	Len  int    `json:"len"`
	Kind string `json:"kind"` // "" pseudo-random (incompressible) | "zeros" | "text"
}

type FileSpec struct {
	Path string `json:"path"`
	Blob int    `json:"blob"` // index into blobs, -1 = directory
	Mode uint32 `json:"mode"`
}

type Call struct {
	Op     string     `json:"op"`
	Name   string     `json:"name"`
	Name2  string     `json:"name2"`
	H      string     `json:"h"`
	Flags  int        `json:"flags"`
	Perm   uint32     `json:"perm"`
	N      int        `json:"n"`
	Off    int64      `json:"off"`
	Whence int        `json:"whence"`
	Data   string     `json:"data"` // base64
	Blob   int        `json:"blob"`
	UID    int        `json:"uid"`
	GID    int        `json:"gid"`
	Atime  int64      `json:"atime"` // unix seconds
	Mtime  int64      `json:"mtime"`
	Files  []FileSpec `json:"files"`
	Bool   bool       `json:"flag"`
	Fault  *faultPlan `json:"fault"`
	Obs    []string   `json:"obs"`
	Tmo    int        `json:"tmo"` // watchdog in ms (default 5000)
}

type History struct {
	Config Config `json:"config"`
	Blobs  []Blob `json:"blobs"`
	Calls  []Call `json:"calls"`
	Obs    []string `json:"obs"` // default observations after every call
	KeyTag string `json:"keytag"`
}

func pattern(b Blob) []byte {
	out := make([]byte, b.Len)
	if b.Kind == "zeros" {
		return out
	}
	if b.Kind == "text" {
		line := []byte(fmt.Sprintf("line %d of the quick brown fox jumps over the lazy dog\n", b.Seed))
		for i := range out {
			out[i] = line[i%len(line)]
		}
		return out
	}
	x := uint32(b.Seed)*2654435761 + 12345
	for i := range out {
		x = x*1664525 + 1013904223
		out[i] = byte(x >> 24)
	}
	return out
}

func classify(err error) string {
	if err == nil {
		return "ok"
	}
	switch {
	case errors.Is(err, errInjected):
		return "injected"
	case errors.Is(err, os.ErrNotExist) || errors.Is(err, sql.ErrNoRows):
		return "notexist"
	case errors.Is(err, os.ErrExist):
		return "exist"
	case errors.Is(err, os.ErrPermission):
		return "perm"
	case errors.Is(err, os.ErrInvalid):
		return "invalid"
	case errors.Is(err, config.ErrIsDirectory):
		return "isdir"
	case errors.Is(err, config.ErrIsFile):
		return "isfile"
	case errors.Is(err, config.ErrDirectoryNotEmpty):
		return "notempty"
	case errors.Is(err, io.EOF):
		return "eof"
	case errors.Is(err, config.ErrNotImplemented):
		return "notimpl"
	}
	return "other"
}

type Entry struct {
	Path  string `json:"path"`
	Kind  string `json:"kind"` // d f l ?
	Size  int64  `json:"size"`
	Mode  uint32 `json:"mode"`
	UID   int64  `json:"uid"`
	GID   int64  `json:"gid"`
	Mtime int64  `json:"mtime"`
	Link  string `json:"link,omitempty"`
	Blob  int    `json:"blob"`           // -1 unknown content, -2 not read
	Sha   string `json:"sha,omitempty"`  // of content
	Len   int    `json:"len"`
	Err   string `json:"err,omitempty"`
	Lstat string `json:"lstat,omitempty"`
	Pieces [][3]int64 `json:"pieces,omitempty"` // content as slices (seed, offset, length) of the blob patterns
}

type Result struct {
	I      int                    `json:"i"`
	Op     string                 `json:"op"`
	Out    string                 `json:"out"`
	Err    string                 `json:"err,omitempty"`
	Ret    map[string]interface{} `json:"ret,omitempty"`
	T0     int64                  `json:"t0"`
	T1     int64                  `json:"t1"`
	Obs    map[string]interface{} `json:"obs,omitempty"`
	Seams  map[string]int         `json:"seams,omitempty"`
	Fired  bool                   `json:"fired,omitempty"`
	Held   int32                  `json:"held"`
}

type runner struct {
	h       History
	in      *inst
	ks      keyset
	dir     string
	files   map[string]afero.File
	shaBlob map[string]int
	blobs   [][]byte
	nextDB  int
	lastLen int64
	prevTape []byte
	saved    map[string][]byte
	fmu      sync.Mutex
}

// count-limited listings of every directory: Readdir(n) must return at most n entries, all of them
// members of the full listing; Readdirnames must agree with Readdir
func (r *runner) limits() []map[string]interface{} {
	out := []map[string]interface{}{}
	var rec func(p string, depth int)
	rec = func(p string, depth int) {
		if depth > 6 {
			return
		}
		f, err := r.in.s.Open(p)
		if err != nil {
			return
		}
		all, err := f.Readdir(-1)
		f.Close()
		if err != nil {
			return
		}
		full := map[string]bool{}
		for _, fi := range all {
			full[fi.Name()] = true
		}
		for _, n := range []int{0, 1, 2, 3, len(all), len(all) + 1} {
			g, err := r.in.s.Open(p)
			if err != nil {
				continue
			}
			got, err := g.Readdir(n)
			g.Close()
			names := []string{}
			bad := false
			for _, fi := range got {
				names = append(names, fi.Name())
				if !full[fi.Name()] {
					bad = true
				}
			}
			out = append(out, map[string]interface{}{"dir": p, "n": n, "got": len(got), "total": len(all), "foreign": bad, "err": classify(err)})
		}
		g, err := r.in.s.Open(p)
		if err == nil {
			names, err := g.Readdirnames(-1)
			g.Close()
			out = append(out, map[string]interface{}{"dir": p, "n": -2, "got": len(names), "total": len(all), "foreign": false, "err": classify(err)})
		}
		for _, fi := range all {
			if fi.IsDir() {
				rec(path.Join(p, fi.Name()), depth+1)
			}
		}
	}
	rec("/", 0)
	return out
}

func (r *runner) blob(i int) []byte {
	if i < 0 || i >= len(r.blobs) {
		return nil
	}
	return r.blobs[i]
}

func infoEntry(p string, fi os.FileInfo) Entry {
	e := Entry{Path: p, Size: fi.Size(), Mode: uint32(fi.Mode()), Mtime: fi.ModTime().UnixNano(), Blob: -2}
	switch {
	case fi.IsDir():
		e.Kind = "d"
	case fi.Mode()&os.ModeSymlink != 0:
		e.Kind = "l"
	case fi.Mode().IsRegular():
		e.Kind = "f"
	default:
		e.Kind = "?"
	}
	if st, ok := fi.Sys().(*sfs.Stat); ok && st != nil {
		e.UID, e.GID = int64(st.Uid), int64(st.Gid)
	}
	return e
}

func (r *runner) readAll(s afero.Fs, p string) (data []byte, err error) {
	return r.readAllChunk(s, p, 32*1024)
}

// readAllChunk reads a file to its end with a buffer of the given size (a reader whose last successful Read fills its
// buffer exactly at the end of the file sees the end only through the NEXT Read)
func (r *runner) readAllChunk(s afero.Fs, p string, chunk int) (data []byte, err error) {
	f, err := s.Open(p)
	if err != nil {
		return nil, err
	}
	defer f.Close()
	var buf bytes.Buffer
	if chunk <= 0 {
		chunk = 1
	}
	tmp := make([]byte, chunk)
	for {
		n, err := f.Read(tmp)
		if n > 0 {
			buf.Write(tmp[:n])
		}
		if err == io.EOF {
			break
		}
		if err != nil {
			return buf.Bytes(), err
		}
		if n == 0 {
			return buf.Bytes(), fmt.Errorf("read returned 0 bytes without EOF")
		}
	}
	return buf.Bytes(), nil
}

func (r *runner) content(e *Entry, data []byte, err error) {
	if err != nil {
		e.Err = "read:" + classify(err) + ":" + err.Error()
		return
	}
	sum := sha256.Sum256(data)
	e.Sha = hex.EncodeToString(sum[:8])
	e.Len = len(data)
	if b, ok := r.shaBlob[e.Sha]; ok {
		e.Blob = b
	} else {
		e.Blob = -1
	}
	e.Pieces = r.decompose(data)
}

// decompose content into slices of the known blob patterns (seed 0 = zero bytes); bytes that
// match nothing are reported as pieces with seed -1 and the byte value as offset
func (r *runner) decompose(data []byte) [][3]int64 {
	out := [][3]int64{}
	i := 0
	prevB, prevEnd := -1, 0
	for i < len(data) {
		bestLen, bestB, bestO := 0, -1, 0
		try := func(b, o int) {
			if b < 0 || b >= len(r.blobs) || o < 0 {
				return
			}
			p := r.blobs[b]
			n := 0
			for o+n < len(p) && i+n < len(data) && p[o+n] == data[i+n] {
				n++
			}
			if n > bestLen {
				bestLen, bestB, bestO = n, b, o
			}
		}
		if prevB >= 0 {
			try(prevB, prevEnd)
		}
		for b := range r.blobs {
			try(b, 0)
			try(b, i)
		}
		if bestLen < 8 && len(data)-i >= 8 {
			for b := range r.blobs {
				if k := bytes.Index(r.blobs[b], data[i:i+8]); k >= 0 {
					try(b, k)
				}
			}
		}
		z := 0
		for i+z < len(data) && data[i+z] == 0 {
			z++
		}
		if z >= bestLen && z > 0 {
			out = append(out, [3]int64{0, 0, int64(z)})
			i += z
			prevB = -1
			continue
		}
		if bestLen == 0 {
			out = append(out, [3]int64{-1, int64(data[i]), 1})
			i++
			prevB = -1
			continue
		}
		out = append(out, [3]int64{int64(r.h.Blobs[bestB].Seed), int64(bestO), int64(bestLen)})
		i += bestLen
		prevB, prevEnd = bestB, bestO+bestLen
	}
	return out
}

// walk the visible tree from the root: Readdir, Stat, Lstat, Readlink and full reads
func (r *runner) walk(in *inst, read bool) []Entry {
	out := []Entry{}
	rootInfo, err := in.s.Stat("/")
	if err != nil {
		return []Entry{{Path: "/", Kind: "?", Err: "stat:" + classify(err) + ":" + err.Error(), Blob: -2}}
	}
	out = append(out, infoEntry("/", rootInfo))
	seen := map[string]bool{"/": true}
	var rec func(p string, depth int)
	rec = func(p string, depth int) {
		if depth > 12 {
			return
		}
		f, err := in.s.Open(p)
		if err != nil {
			out = append(out, Entry{Path: p, Kind: "?", Err: "open:" + classify(err), Blob: -2})
			return
		}
		infos, err := f.Readdir(-1)
		f.Close()
		if err != nil {
			out = append(out, Entry{Path: p, Kind: "?", Err: "readdir:" + classify(err) + ":" + err.Error(), Blob: -2})
			return
		}
		sort.Slice(infos, func(i, j int) bool { return infos[i].Name() < infos[j].Name() })
		for _, fi := range infos {
			cp := path.Join(p, fi.Name())
			e := infoEntry(cp, fi)
			if seen[cp] {
				e.Err = "duplicate-listing"
				out = append(out, e)
				continue
			}
			seen[cp] = true
			// cross-check with Stat / Lstat
			if st, err := in.s.Stat(cp); err != nil {
				e.Lstat = "stat:" + classify(err)
			} else if st.IsDir() != fi.IsDir() || st.Size() != fi.Size() {
				e.Lstat = fmt.Sprintf("stat-mismatch:dir=%v size=%d", st.IsDir(), st.Size())
			}
			if li, ok, err := in.s.LstatIfPossible(cp); ok && err == nil && li.Mode()&os.ModeSymlink != 0 {
				e.Kind = "l"
				if t, err := in.s.ReadlinkIfPossible(cp); err == nil {
					e.Link = t
				}
			} else if t, err := in.s.ReadlinkIfPossible(cp); err == nil && t != "" {
				e.Link = t
			}
			if e.Kind == "f" && read {
				data, err := r.readAll(in.s, cp)
				r.content(&e, data, err)
			}
			out = append(out, e)
			if fi.IsDir() && e.Link == "" {
				rec(cp, depth+1)
			}
		}
	}
	if rootInfo.IsDir() {
		rec("/", 0)
	}
	return out
}

type Member struct {
	Start  int64             `json:"start"` // block index
	HB     int64             `json:"hb"`    // header blocks
	DB     int64             `json:"db"`    // data blocks
	Name   string            `json:"name"`
	Link   string            `json:"link"`
	TF     int               `json:"tf"`
	Size   int64             `json:"size"`
	Mode   int64             `json:"mode"`
	UID    int               `json:"uid"`
	GID    int               `json:"gid"`
	Mtime  int64             `json:"mtime"`
	Pax    map[string]string `json:"pax"`
	Sha    string            `json:"sha,omitempty"`
	Blob   int               `json:"blob"`
}

// independent scan of the drive with archive/tar restarted after each trailer
func (r *runner) scan(from int64) (members []Member, size int64, errs []string) {
	f, err := os.Open(r.in.drive)
	if err != nil {
		return nil, 0, []string{"open:" + err.Error()}
	}
	defer f.Close()
	st, _ := f.Stat()
	size = st.Size()
	off := from
	zeros := int64(0)
	for off < size {
		f.Seek(off, 0)
		tr := tar.NewReader(f)
		h, err := tr.Next()
		if err == io.EOF {
			// trailer (two zero blocks) or end
			cur, _ := f.Seek(0, 1)
			if cur <= off {
				break
			}
			zeros += (cur - off) / 512
			off = (cur + 511) / 512 * 512
			continue
		}
		if err != nil {
			errs = append(errs, fmt.Sprintf("@%d:%v", off/512, err))
			off += 512
			continue
		}
		dataStart, _ := f.Seek(0, 1)
		hs := sha256.New()
		n, err := io.Copy(hs, tr)
		if err != nil {
			errs = append(errs, fmt.Sprintf("@%d:data:%v", off/512, err))
		}
		m := Member{Start: off / 512, HB: (dataStart - off) / 512, DB: (n + 511) / 512, Name: h.Name, Link: h.Linkname, TF: int(h.Typeflag), Size: h.Size, Mode: h.Mode,
			UID: h.Uid, GID: h.Gid, Mtime: h.ModTime.UnixNano(), Pax: map[string]string{}, Blob: -2}
		for k, v := range h.PAXRecords {
			if strings.HasPrefix(k, "STFS.") {
				if len(v) > 64 {
					v = v[:64]
				}
				m.Pax[k] = v
			}
		}
		if n > 0 {
			sum := hs.Sum(nil)
			m.Sha = hex.EncodeToString(sum[:8])
			if b, ok := r.shaBlob[m.Sha]; ok {
				m.Blob = b
			} else {
				m.Blob = -1
			}
		}
		members = append(members, m)
		off = (dataStart + n + 511) / 512 * 512
	}
	return
}

func (r *runner) freshInstance(sameMeta bool) (*inst, string, error) {
	meta := r.in.meta
	if !sameMeta {
		r.nextDB++
		meta = filepath.Join(r.dir, fmt.Sprintf("meta-%d.sqlite", r.nextDB))
	}
	cfg := r.h.Config
	in2, err := mk(cfg, r.in.drive, meta, r.dir, r.ks, &seams{})
	if err != nil {
		return nil, meta, err
	}
	return in2, meta, nil
}

func rootOf(cfg Config) string {
	if cfg.Root == "" {
		return "/"
	}
	return cfg.Root
}

func (r *runner) observe(names []string) map[string]interface{} {
	o := map[string]interface{}{}
	for _, n := range names {
		switch n {
		case "rows":
			rows, err := dumpRows(r.in.meta)
			if err != nil {
				o["rows_err"] = err.Error()
			}
			o["rows"] = rows
		case "tree":
			o["tree"] = r.walk(r.in, true)
		case "tree-noread":
			o["tree"] = r.walk(r.in, false)
		case "tape":
			ms, size, errs := r.scan(0)
			o["tape_len"] = size
			o["members"] = ms
			if len(errs) > 0 {
				o["scan_errs"] = errs
			}
		case "tapelen":
			if st, err := os.Stat(r.in.drive); err == nil {
				o["tape_len"] = st.Size()
			} else {
				o["tape_len"] = int64(0)
			}
		case "tapesha":
			if b, err := os.ReadFile(r.in.drive); err == nil {
				s := sha256.Sum256(b)
				o["tape_sha"] = hex.EncodeToString(s[:])
				o["tape_len"] = int64(len(b))
			} else {
				o["tape_sha"] = "absent"
			}
		case "rebuild":
			in2, meta, err := r.freshInstance(false)
			if err != nil {
				o["rebuild_err"] = err.Error()
				break
			}
			before, _ := os.Stat(r.in.drive)
			root, err := in2.s.Initialize(rootOf(r.h.Config), os.ModePerm)
			after, _ := os.Stat(r.in.drive)
			rb := map[string]interface{}{"root": root, "init": classify(err)}
			if err != nil {
				rb["init_err"] = err.Error()
			}
			if before != nil && after != nil {
				rb["grew"] = after.Size() - before.Size()
			}
			rows, _ := dumpRows(meta)
			rb["rows"] = rows
			rb["tree"] = r.walk(in2, true)
			o["rebuild"] = rb
			os.Remove(meta)
		case "reopen":
			in2, _, err := r.freshInstance(true)
			if err != nil {
				o["reopen_err"] = err.Error()
				break
			}
			root, err := in2.s.Initialize(rootOf(r.h.Config), os.ModePerm)
			ro := map[string]interface{}{"root": root, "init": classify(err)}
			ro["tree"] = r.walk(in2, true)
			o["reopen"] = ro
		case "fetch":
			o["fetch"] = r.fetchAll()
		case "query":
			o["query"] = r.query()
		case "held":
			o["held"] = r.in.held
		case "prefix":
			// append-only: the previous tape content must be a prefix of the current one
			b, err := os.ReadFile(r.in.drive)
			if err != nil {
				b = nil
			}
			ok := len(b) >= len(r.prevTape) && bytes.Equal(b[:len(r.prevTape)], r.prevTape)
			o["prefix_ok"] = ok
			o["prev_len"] = len(r.prevTape)
			r.prevTape = b
		case "limits":
			o["limits"] = r.limits()
		}
	}
	return o
}

// recovery.Fetch at every live regular row's position
func (r *runner) fetchAll() []map[string]interface{} {
	out := []map[string]interface{}{}
	rows, err := dumpRows(r.in.meta)
	if err != nil {
		return out
	}
	for _, row := range rows {
		if row.Deleted != 0 || row.Typeflag != int64(tar.TypeReg) {
			continue
		}
		var buf bytes.Buffer
		rd, err := r.in.bc.GetReader()
		if err != nil {
			out = append(out, map[string]interface{}{"name": row.Name, "err": err.Error()})
			continue
		}
		var gotName string
		err = recovery.Fetch(rd, mtio.MagneticTapeIO{}, r.in.pipes, r.in.rcrypt,
			func(p string, m iofs.FileMode) (io.WriteCloser, error) { return nopWC{&buf}, nil },
			func(p string, m iofs.FileMode) error { return nil },
			int(row.Record), int(row.Block), "x", false, func(h *config.Header) { gotName = h.Name })
		r.in.bc.CloseReader()
		e := Entry{Path: row.Name, Blob: -2}
		r.content(&e, buf.Bytes(), err)
		out = append(out, map[string]interface{}{"name": row.Name, "rec": row.Record, "blk": row.Block, "blob": e.Blob, "len": e.Len, "sha": e.Sha, "err": e.Err, "hdrname": gotName})
	}
	return out
}

type nopWC struct{ w io.Writer }

func (n nopWC) Write(p []byte) (int, error) { return n.w.Write(p) }
func (n nopWC) Close() error                { return nil }

func (r *runner) query() map[string]interface{} {
	rd, err := r.in.bc.GetReader()
	if err != nil {
		return map[string]interface{}{"err": err.Error()}
	}
	defer r.in.bc.CloseReader()
	pos := []map[string]interface{}{}
	_, err = recovery.Query(rd, mtio.MagneticTapeIO{}, r.in.pipes, r.in.rcrypt, 0, 0, func(h *config.Header) {
		pos = append(pos, map[string]interface{}{"name": h.Name, "rec": h.Record, "blk": h.Block})
	})
	res := map[string]interface{}{"pos": pos}
	if err != nil {
		res["err"] = err.Error()
	}
	return res
}

func fileInfoSpec(name string, size int64, mode os.FileMode, dir bool, mt time.Time) os.FileInfo {
	return sfs.NewFileInfo(path.Base(name), size, mode, mt, mt, mt, os.Getgid(), os.Getuid(), dir, nil)
}

// source reader with a fault seam; deliberately no WriterTo so that every read passes through Read
type faultRSC struct {
	r  *bytes.Reader
	sm *seams
}

func (f *faultRSC) Read(p []byte) (int, error) {
	if f.sm.hit("src-read") {
		return 0, errInjected
	}
	return f.r.Read(p)
}
func (f *faultRSC) Seek(o int64, w int) (int64, error) { return f.r.Seek(o, w) }
func (f *faultRSC) Close() error                        { return nil }

func (r *runner) srcOf(files []FileSpec) func() (config.FileConfig, error) {
	i := 0
	return func() (config.FileConfig, error) {
		if i >= len(files) {
			return config.FileConfig{}, io.EOF
		}
		fsp := files[i]
		i++
		now := time.Now()
		if fsp.Blob < 0 {
			hdr := &tar.Header{Typeflag: tar.TypeDir, Name: fsp.Path, Mode: int64(fsp.Mode), ModTime: now, Uid: os.Getuid(), Gid: os.Getgid()}
			return config.FileConfig{GetFile: nil, Info: hdr.FileInfo(), Path: fsp.Path}, nil
		}
		data := r.blob(fsp.Blob)
		hdr := &tar.Header{Typeflag: tar.TypeReg, Name: fsp.Path, Mode: int64(fsp.Mode), Size: int64(len(data)), ModTime: now, Uid: os.Getuid(), Gid: os.Getgid()}
		return config.FileConfig{
			GetFile: func() (io.ReadSeekCloser, error) { return &faultRSC{bytes.NewReader(data), r.in.sm}, nil },
			Info:    hdr.FileInfo(), Path: fsp.Path}, nil
	}
}

func (r *runner) exec(c Call) (ret map[string]interface{}, err error) {
	s := r.in.s
	ret = map[string]interface{}{}
	data := []byte{}
	if c.Data != "" {
		data, _ = base64.StdEncoding.DecodeString(c.Data)
	} else if c.Blob > 0 || (c.Blob == 0 && (c.Op == "writefile" || c.Op == "createfile")) {
		data = r.blob(c.Blob)
	}
	fileRet := func(n int, e error) {
		ret["n"] = n
	}
	switch c.Op {
	case "mkdir":
		err = s.Mkdir(c.Name, os.FileMode(c.Perm))
	case "mkdirall":
		err = s.MkdirAll(c.Name, os.FileMode(c.Perm))
	case "remove":
		err = s.Remove(c.Name)
	case "removeall":
		err = s.RemoveAll(c.Name)
	case "rename":
		err = s.Rename(c.Name, c.Name2)
	case "chmod":
		err = s.Chmod(c.Name, os.FileMode(c.Perm))
	case "chown":
		err = s.Chown(c.Name, c.UID, c.GID)
	case "chtimes":
		err = s.Chtimes(c.Name, time.Unix(c.Atime, 0), time.Unix(c.Mtime, 0))
	case "symlink":
		err = s.SymlinkIfPossible(c.Name, c.Name2)
	case "stat":
		var fi os.FileInfo
		fi, err = s.Stat(c.Name)
		if err == nil {
			ret["info"] = infoEntry(c.Name, fi)
		}
	case "lstat":
		var fi os.FileInfo
		fi, _, err = s.LstatIfPossible(c.Name)
		if err == nil {
			ret["info"] = infoEntry(c.Name, fi)
		}
	case "readlink":
		var t string
		t, err = s.ReadlinkIfPossible(c.Name)
		ret["target"] = t
	case "createfile": // Create + Write + Close
		var f afero.File
		f, err = s.Create(c.Name)
		if err == nil {
			if len(data) > 0 {
				_, err = f.Write(data)
				ret["stage"] = "write"
			}
			if cerr := f.Close(); err == nil && cerr != nil {
				err = cerr
				ret["stage"] = "close"
			}
		} else {
			ret["stage"] = "open"
		}
	case "writefile": // OpenFile(flags) + Write + Close
		var f afero.File
		f, err = s.OpenFile(c.Name, c.Flags, os.FileMode(c.Perm))
		if err == nil {
			if len(data) > 0 || c.Bool {
				_, err = f.Write(data)
				ret["stage"] = "write"
			}
			if cerr := f.Close(); err == nil && cerr != nil {
				err = cerr
				ret["stage"] = "close"
			}
		} else {
			ret["stage"] = "open"
		}
	case "readfile":
		var d []byte
		d, err = r.readAll(s, c.Name)
		e := Entry{Blob: -2}
		r.content(&e, d, nil)
		ret["blob"], ret["len"], ret["sha"], ret["pieces"] = e.Blob, e.Len, e.Sha, e.Pieces
	case "readdir":
		var f afero.File
		f, err = s.Open(c.Name)
		if err == nil {
			var infos []os.FileInfo
			infos, err = f.Readdir(c.N)
			names := []string{}
			for _, fi := range infos {
				names = append(names, fi.Name())
			}
			ret["names"] = names
			f.Close()
		}
	case "open":
		var f afero.File
		f, err = s.OpenFile(c.Name, c.Flags, os.FileMode(c.Perm))
		if err == nil {
			r.setFile(c.H, f)
		}
	case "read":
		f := r.getFile(c.H)
		if f == nil {
			return ret, errors.New("no handle")
		}
		buf := make([]byte, c.N)
		var n int
		n, err = f.Read(buf)
		fileRet(n, err)
		if n > 0 {
			ret["data"] = base64.StdEncoding.EncodeToString(buf[:n])
			ret["pieces"] = r.decompose(buf[:n])
			sum := sha256.Sum256(buf[:n])
			if b, ok := r.shaBlob[hex.EncodeToString(sum[:8])]; ok {
				ret["blob"] = b
			} else {
				ret["blob"] = -1
			}
		}
	case "readat":
		f := r.getFile(c.H)
		if f == nil {
			return ret, errors.New("no handle")
		}
		buf := make([]byte, c.N)
		var n int
		n, err = f.ReadAt(buf, c.Off)
		fileRet(n, err)
		if n > 0 {
			ret["data"] = base64.StdEncoding.EncodeToString(buf[:n])
			ret["pieces"] = r.decompose(buf[:n])
		}
	case "seek":
		f := r.getFile(c.H)
		if f == nil {
			return ret, errors.New("no handle")
		}
		var o int64
		o, err = f.Seek(c.Off, c.Whence)
		ret["off"] = o
	case "write":
		f := r.getFile(c.H)
		if f == nil {
			return ret, errors.New("no handle")
		}
		var n int
		n, err = f.Write(data)
		fileRet(n, err)
	case "writeat":
		f := r.getFile(c.H)
		if f == nil {
			return ret, errors.New("no handle")
		}
		var n int
		n, err = f.WriteAt(data, c.Off)
		fileRet(n, err)
	case "writestring":
		f := r.getFile(c.H)
		if f == nil {
			return ret, errors.New("no handle")
		}
		var n int
		n, err = f.WriteString(string(data))
		fileRet(n, err)
	case "truncate":
		f := r.getFile(c.H)
		if f == nil {
			return ret, errors.New("no handle")
		}
		err = f.Truncate(c.Off)
	case "sync":
		f := r.getFile(c.H)
		if f == nil {
			return ret, errors.New("no handle")
		}
		err = f.Sync()
	case "close":
		f := r.getFile(c.H)
		if f == nil {
			return ret, errors.New("no handle")
		}
		err = f.Close()
		r.setFile(c.H, nil)
	case "hstat":
		f := r.getFile(c.H)
		if f == nil {
			return ret, errors.New("no handle")
		}
		var fi os.FileInfo
		fi, err = f.Stat()
		if err == nil {
			ret["info"] = infoEntry(f.Name(), fi)
		}
	case "hreaddir":
		f := r.getFile(c.H)
		if f == nil {
			return ret, errors.New("no handle")
		}
		var infos []os.FileInfo
		infos, err = f.Readdir(c.N)
		names := []string{}
		for _, fi := range infos {
			names = append(names, fi.Name())
		}
		ret["names"] = names
	case "hreaddirnames":
		f := r.getFile(c.H)
		if f == nil {
			return ret, errors.New("no handle")
		}
		var names []string
		names, err = f.Readdirnames(c.N)
		ret["names"] = names
	case "archive":
		var hs []*tar.Header
		hs, err = r.in.wo.Archive(r.srcOf(c.Files), r.in.cfg.Level, false, false)
		ret["n"] = len(hs)
	case "update":
		var hs []*tar.Header
		hs, err = r.in.wo.Update(r.srcOf(c.Files), r.in.cfg.Level, c.Bool, false)
		ret["n"] = len(hs)
	case "delete":
		err = r.in.wo.Delete(c.Name)
	case "move":
		err = r.in.wo.Move(c.Name, c.Name2)
	case "restore":
		var buf bytes.Buffer
		dirs := []string{}
		err = r.in.ro.Restore(
			func(p string, m iofs.FileMode) (io.WriteCloser, error) { return nopWC{&buf}, nil },
			func(p string, m iofs.FileMode) error { dirs = append(dirs, p); return nil },
			c.Name, c.Name2, c.Bool)
		e := Entry{Blob: -2}
		r.content(&e, buf.Bytes(), nil)
		ret["blob"], ret["len"], ret["sha"], ret["dirs"] = e.Blob, e.Len, e.Sha, dirs
	case "initialize":
		var root string
		root, err = s.Initialize(rootOf(r.h.Config), os.ModePerm)
		ret["root"] = root
	case "reopen":
		var in2 *inst
		in2, _, err = r.freshInstance(true)
		if err == nil {
			in2.sm = r.in.sm
			r.in = in2
			var root string
			root, err = in2.s.Initialize(rootOf(r.h.Config), os.ModePerm)
			ret["root"] = root
		}
	case "rebuild": // switch to a fresh index rebuilt from the tape
		var in2 *inst
		in2, _, err = r.freshInstance(false)
		if err == nil {
			r.in = in2
			var root string
			root, err = in2.s.Initialize(rootOf(r.h.Config), os.ModePerm)
			ret["root"] = root
		}
	case "reindex": // recovery.Index(0,0,overwrite=flag) into the current index
		var rd config.DriveReaderConfig
		rd, err = r.in.bc.GetReader()
		if err == nil {
			err = recovery.Index(rd, mtio.MagneticTapeIO{}, r.in.mc, r.in.pipes, r.in.rcrypt, 0, 0, c.Bool, false, 0,
				func(h *tar.Header, i int) error {
					return encryption.DecryptHeader(h, r.in.pipes.Encryption, r.in.rcrypt.Identity)
				},
				func(h *tar.Header, reg bool) error {
					return signature.VerifyHeader(h, reg, r.in.pipes.Signature, r.in.rcrypt.Recipient)
				}, nil)
			r.in.bc.CloseReader()
		}
	case "ro_switch": // continue with a read-only instance over the same drive and index (flag: without write backend)
		cfg := r.h.Config
		cfg.ReadOnly = true
		cfg.NoWriteOp = c.Bool
		var in2 *inst
		meta, ks := r.in.meta, r.ks
		if strings.HasSuffix(c.Data, "+ow") {
			// the read-only instance's drive manager is constructed with overwrite = true (only a writer may ever clear the drive)
			cfg.Overwrite = true
			c.Data = strings.TrimSuffix(c.Data, "+ow")
		}
		if c.Data == "fresh" || c.Data == "fresh-otherkey" {
			// with an EMPTY index (Initialize has to read the tape); with another identity nothing on the tape can be indexed
			r.nextDB++
			meta = filepath.Join(r.dir, fmt.Sprintf("meta-ro-%d.sqlite", r.nextDB))
			if c.Data == "fresh-otherkey" {
				keysDir := cfg.KeysDir
				if keysDir == "" {
					base := os.Getenv("VERIF_SCRATCH")
					if base == "" {
						base = os.TempDir()
					}
					keysDir = filepath.Join(base, "stfsdrv-keys")
				}
				var kerr error
				ks, kerr = loadOrGenKeys(keysDir, cfg.Enc, cfg.Sig, cfg.Password, "other")
				if kerr != nil {
					return ret, kerr
				}
			}
		}
		in2, err = mk(cfg, r.in.drive, meta, r.dir, ks, &seams{})
		if err == nil {
			r.in = in2
			var root string
			root, err = in2.s.Initialize(rootOf(r.h.Config), os.ModePerm)
			ret["root"] = root
		}
	case "savedrive": // remember the drive bytes under a key
		var b []byte
		b, err = os.ReadFile(r.in.drive)
		if r.saved == nil {
			r.saved = map[string][]byte{}
		}
		r.saved[c.Name] = b
		ret["len"] = len(b)
	case "loaddrive": // restore the first Off bytes (Off < 0: all) of a remembered drive image
		b := r.saved[c.Name]
		if c.Off >= 0 && int(c.Off) <= len(b) {
			b = b[:c.Off]
		}
		err = os.WriteFile(r.in.drive, b, 0o600)
		r.prevTape = nil
	case "newindex": // continue with an empty index over the same drive, without initialising
		var in2 *inst
		in2, _, err = r.freshInstance(false)
		if err == nil {
			r.in = in2
		}
	case "truncdrive": // cut the drive file to Off bytes (crash simulation)
		err = os.Truncate(r.in.drive, c.Off)
	case "nop":
	default:
		err = fmt.Errorf("unknown op %q", c.Op)
	}
	return ret, err
}

var _ = context.Background

func (r *runner) setFile(h string, f afero.File) {
	r.fmu.Lock()
	defer r.fmu.Unlock()
	if f == nil {
		delete(r.files, h)
		return
	}
	r.files[h] = f
}

func (r *runner) getFile(h string) afero.File {
	r.fmu.Lock()
	defer r.fmu.Unlock()
	return r.files[h]
}
