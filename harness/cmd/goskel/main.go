// goskel: Go source -> control skeleton (Coq term text), see DESIGN.md §2.1 (M2).
//
// Usage: goskel <repo-root> <out-dir> <pkgdir>...
// Writes <out-dir>/Skeleton.v.  Standard library only (go/parser, go/ast).
//
// The skeleton over-approximates control flow: conditions that are not
// recognised atoms become nondeterministic choices, loops may iterate any
// number of times, calls outside the translated packages may fail or succeed.
package main

import (
	"bytes"
	"crypto/sha256"
	"fmt"
	"go/ast"
	"go/parser"
	"go/printer"
	"go/token"
	"os"
	"path/filepath"
	"sort"
	"strings"
)

var fset = token.NewFileSet()

func rawtxt(n ast.Node) string {
	var b bytes.Buffer
	printer.Fprint(&b, fset, n)
	return strings.Join(strings.Fields(b.String()), " ")
}

func txt(n ast.Node) string {
	s := rawtxt(n)
	if len(s) > 70 {
		s = s[:70]
	}
	s = strings.ReplaceAll(s, "\"", "'")
	return s
}

func q(s string) string { return "\"" + s + "\"" }

// ---------------------------------------------------------------- tables

type fnInfo struct {
	name    string // qualified name
	pkg     string
	recv    string // receiver type ("" for plain functions)
	hasErr  bool   // last result is `error`
	nres    int
	decl    *ast.FuncDecl
	fparams map[string]bool // func-typed parameters
}

var funcs = map[string]*fnInfo{}       // qualified name -> info
var methods = map[string]bool{}        // "pkg.Type.Method"
var pkgFuncs = map[string]bool{}       // "pkg.Func"
var translatedPkgs = map[string]bool{} // package names

// packages whose receiver types get one copy per instance
var instanced = map[string][]string{"operations.Operations": {"@R", "@W"}}

var out = map[string]string{}
var order []string
var flagsAll []string
var callsites [][4]string
var digests = map[string]string{}
var unsupported []string
var exported []string

func emit(name, body string) {
	if _, ok := out[name]; !ok {
		order = append(order, name)
	}
	out[name] = body
}

// ---------------------------------------------------------------- translator

type tr struct {
	pkg      string
	fn       string // qualified function name incl. instance suffix (used for sites/flags/lits)
	recv     string
	recvType string // "pkg.Type"
	inst     string // "@R" / "@W" / ""
	hasErr   bool
	ord      *int
	litN     *int
	inErr    bool
	fparams  map[string]bool   // func-typed params in scope (incl. enclosing functions)
	closures map[string]string // local closure variable -> emitted function name
	flags    map[string]bool   // local bool flag variables in scope
	flagBase string
	ctx      string // context events prepended to nested literals (enclosing Case labels)
}

func (t *tr) site() string { *t.ord++; return fmt.Sprintf("%s#%d", t.fn, *t.ord) }

func (t *tr) sub(suffix string) *tr {
	o, l := 0, 0
	s := *t
	s.fn = t.fn + suffix
	s.ord = &o
	s.litN = &l
	s.inErr = false
	s.hasErr = false
	return &s
}

func seq(a, b string) string {
	if a == "" {
		a = "SK"
	}
	if b == "" {
		b = "SK"
	}
	if a == "SK" {
		return b
	}
	if b == "SK" {
		return a
	}
	return "(Seq " + a + " " + b + ")"
}

func ev(s string) string { return "(EV (" + s + "))" }

func choice(a, b string) string { return "(Choice " + a + " " + b + ")" }

var pureCallPrefixes = []string{"filepath.", "path.", "strings.", "strconv.", "len", "cap", "append", "make", "int", "int64", "int32", "uint32", "uint64", "float64", "byte", "string", "bool", "copy", "new", "delete", "min", "max",
	"converters.", "pathext.", "errors.", "fmt.", "os.FileMode", "time.", "math.", "tar.FileInfoHeader", "tar.Format", "map[", "[]", "bytes.NewBuffer", "bytes.NewBufferString", "context.", "checkName", "cleanName", "queries.Raw", "qm.", "models.Headers", "json.", "io.NopCloser", "io.TeeReader", "io.MultiWriter", "bufio.", "tar.NewReader", "tar.NewWriter", "packet.NewReader", "ioext.AddCloseNopToWriter", "minisign.NewReader", "NewFileInfoFromTarHeader", "NewFileInfo", "NewFile", "NewStat", "os.IsNotExist", "syscall."}

var pureMethodSuffixes = []string{".FileInfo", ".Mode", ".IsRegular", ".IsDir", ".Size", ".Error", ".Name", ".ModTime", ".Sys", ".Nano", ".UnixNano", ".GetPipes", ".GetCrypto", ".GetMetadata", ".GetBackend", ".Bytes", ".Fd", ".Hash.New", ".String", ".Perm", ".Trace", ".Debug", ".Info", ".Error", ".Unix"}

func isPure(n string) bool {
	for _, p := range pureCallPrefixes {
		if strings.HasSuffix(p, ".") || strings.HasSuffix(p, "[") || strings.HasSuffix(p, "]") {
			if strings.HasPrefix(n, p) || n == strings.TrimSuffix(p, ".") {
				return true
			}
		} else if n == p {
			return true
		}
	}
	for _, s := range pureMethodSuffixes {
		if strings.HasSuffix(n, s) {
			return true
		}
	}
	return strings.Contains(n, ".log.")
}

func lockName(r string) string {
	switch {
	case strings.HasSuffix(r, "ioLock"):
		return "ioLock"
	case strings.HasSuffix(r, "diskOperationLock"):
		return "opLock"
	case strings.HasSuffix(r, "physicalLock"):
		return "drive"
	case strings.HasSuffix(r, "readerLock"):
		return "readerLock"
	}
	return r
}

// kind: "lock" "unlock" "fn" "prim" "cb" "ext" "pure" "panic"
func (t *tr) callee(c *ast.CallExpr) (kind, name string) {
	switch f := c.Fun.(type) {
	case *ast.Ident:
		n := f.Name
		if n == "panic" {
			return "panic", n
		}
		if cl, ok := t.closures[n]; ok {
			return "fn", cl
		}
		if t.fparams[n] {
			return "cb", n
		}
		if pkgFuncs[t.pkg+"."+n] {
			return "fn", t.pkg + "." + n
		}
		if isPure(n) {
			return "pure", n
		}
		return "cb", n // local variable of function type (cleanup, sign, verify, ...)
	case *ast.SelectorExpr:
		m := f.Sel.Name
		r := rawtxt(f.X)
		switch m {
		case "Lock":
			l := lockName(r)
			if l == "opLock" {
				l += t.inst
			}
			return "lock", l
		case "Unlock":
			l := lockName(r)
			if l == "opLock" {
				l += t.inst
			}
			return "unlock", l
		}
		full := r + "." + m
		switch {
		case (strings.HasSuffix(r, ".backend") || strings.HasSuffix(r, "GetBackend()")) && (m == "GetWriter" || m == "GetReader"):
			return "prim", "prim." + m
		case (strings.HasSuffix(r, ".backend") || strings.HasSuffix(r, "GetBackend()")) && (m == "CloseWriter" || m == "CloseReader"):
			return "prim", "prim.Close"
		case strings.HasSuffix(r, "metadata.Metadata") || strings.HasSuffix(r, "GetMetadata().Metadata") || r == "metadataPersister":
			return "ext", "metadata." + m
		case r == t.recv && t.recv != "":
			if methods[t.recvType+"."+m] {
				return "fn", t.recvType + "." + m + t.inst
			}
			if isPure(full) {
				return "pure", full
			}
			// field of function type, or embedded interface method
			return "cb", t.recv + "." + m
		case strings.HasSuffix(r, ".writeOps"):
			return "fn", "operations.Operations." + m + "@W"
		case strings.HasSuffix(r, ".readOps"):
			if isPure("." + m) {
				return "pure", full
			}
			return "fn", "operations.Operations." + m + "@R"
		case translatedPkgs[r] && pkgFuncs[r+"."+m]:
			return "fn", r + "." + m
		}
		if isPure(full) {
			return "pure", full
		}
		return "ext", full
	case *ast.FuncLit:
		return "lit", ""
	case *ast.ArrayType, *ast.MapType, *ast.ParenExpr, *ast.InterfaceType, *ast.StarExpr:
		return "pure", "conv"
	}
	return "ext", rawtxt(c.Fun)
}

// calls inside an expression in evaluation order (not descending into func literals)
func (t *tr) callsIn(n ast.Node) []*ast.CallExpr {
	var cs []*ast.CallExpr
	if n == nil {
		return cs
	}
	ast.Inspect(n, func(x ast.Node) bool {
		switch v := x.(type) {
		case *ast.FuncLit:
			return false
		case *ast.CallExpr:
			for _, a := range v.Args {
				cs = append(cs, t.callsIn(a)...)
			}
			cs = append(cs, t.callsIn(v.Fun)...)
			cs = append(cs, v)
			return false
		}
		return true
	})
	return cs
}

// function literals passed as arguments: may run any number of times during the call
func (t *tr) litsOf(c *ast.CallExpr, calleeName string) string {
	s := "SK"
	for i, a := range c.Args {
		if fl, ok := a.(*ast.FuncLit); ok {
			name := t.lit(fl, "lit")
			callsites = append(callsites, [4]string{t.fn, calleeName, fmt.Sprint(i), name})
			s = seq(s, "(Loop (Choice BR (CL "+q(name)+")))")
		} else if id, ok := a.(*ast.Ident); ok {
			if cl, ok := t.closures[id.Name]; ok {
				callsites = append(callsites, [4]string{t.fn, calleeName, fmt.Sprint(i), cl})
				s = seq(s, "(Loop (Choice BR (CL "+q(cl)+")))")
			} else if calleeName != "" && (strings.HasPrefix(calleeName, "recovery.") || strings.HasPrefix(calleeName, "operations.")) {
				callsites = append(callsites, [4]string{t.fn, calleeName, fmt.Sprint(i), "var:" + id.Name})
			}
		} else if calleeName != "" && strings.HasPrefix(calleeName, "recovery.") {
			callsites = append(callsites, [4]string{t.fn, calleeName, fmt.Sprint(i), "expr:" + txt(a)})
		}
	}
	return s
}

func (t *tr) lit(fl *ast.FuncLit, kind string) string {
	*t.litN++
	suffix := fmt.Sprintf("$%s%d", kind, *t.litN)
	s := t.sub(suffix)
	s.hasErr, _ = resultInfo(fl.Type)
	s.fparams = copyAdd(t.fparams, funcParams(fl.Type))
	name := s.fn
	emit(name, "SK") // reserve order
	body := s.block(fl.Body.List)
	if t.ctx != "SK" && t.ctx != "" {
		body = seq(t.ctx, body)
	}
	emit(name, body)
	return name
}

func copyAdd(a, b map[string]bool) map[string]bool {
	m := map[string]bool{}
	for k := range a {
		m[k] = true
	}
	for k := range b {
		m[k] = true
	}
	return m
}

func resultInfo(ft *ast.FuncType) (hasErr bool, n int) {
	if ft.Results == nil {
		return false, 0
	}
	for _, f := range ft.Results.List {
		k := len(f.Names)
		if k == 0 {
			k = 1
		}
		n += k
	}
	last := ft.Results.List[len(ft.Results.List)-1]
	if id, ok := last.Type.(*ast.Ident); ok && id.Name == "error" {
		hasErr = true
	}
	return
}

func funcParams(ft *ast.FuncType) map[string]bool {
	m := map[string]bool{}
	if ft.Params == nil {
		return m
	}
	for _, f := range ft.Params.List {
		if _, ok := f.Type.(*ast.FuncType); ok {
			for _, n := range f.Names {
				m[n.Name] = true
			}
		}
	}
	return m
}

// one call whose result is ignored
func (t *tr) call1(c *ast.CallExpr) string {
	k, n := t.callee(c)
	switch k {
	case "lock":
		return ev("Lk " + q(n))
	case "unlock":
		return ev("Ul " + q(n))
	case "fn", "prim":
		return seq(t.litsOf(c, n), "(CL "+q(n)+")")
	case "cb":
		return seq(t.litsOf(c, ""), ev("Cb "+q(n)+" "+q(t.site())))
	case "pure":
		return t.litsOf(c, "")
	case "panic":
		return seq(ev("Panic "+q(t.site())), "(RT KErr)")
	case "lit":
		fl := c.Fun.(*ast.FuncLit)
		return "(CL " + q(t.lit(fl, "lit")) + ")"
	}
	return seq(t.litsOf(c, ""), ev("Ext "+q(n)+" "+q(t.site())))
}

func (t *tr) callsSeq(n ast.Node) string {
	s := "SK"
	for _, c := range t.callsIn(n) {
		s = seq(s, t.call1(c))
	}
	return s
}

func isErrCheck(e ast.Expr) bool {
	b, ok := e.(*ast.BinaryExpr)
	if !ok || b.Op != token.NEQ {
		return false
	}
	x, ok1 := b.X.(*ast.Ident)
	y, ok2 := b.Y.(*ast.Ident)
	return ok1 && ok2 && x.Name == "err" && y.Name == "nil"
}

func assignsErr(s ast.Stmt) (*ast.CallExpr, bool) {
	a, ok := s.(*ast.AssignStmt)
	if !ok || len(a.Rhs) != 1 {
		return nil, false
	}
	c, ok := a.Rhs[0].(*ast.CallExpr)
	if !ok {
		return nil, false
	}
	last, ok := a.Lhs[len(a.Lhs)-1].(*ast.Ident)
	if !ok || last.Name != "err" {
		return nil, false
	}
	return c, true
}

// call c whose error result is tested right away: serr runs if it failed, sok otherwise
func (t *tr) callChk(c *ast.CallExpr, serr, sok string) string {
	pre := "SK"
	for _, a := range c.Args {
		pre = seq(pre, t.callsSeq(a))
	}
	pre = seq(pre, t.callsSeq(c.Fun))
	k, n := t.callee(c)
	switch k {
	case "fn", "prim":
		return seq(pre, seq(t.litsOf(c, n), "(CallChk "+q(n)+" "+seq(ev("Res "+q(n)+" false"), serr)+" "+seq(ev("Res "+q(n)+" true"), sok)+")"))
	case "pure":
		return seq(pre, seq(t.litsOf(c, ""), choice(serr, sok)))
	case "cb":
		return seq(pre, seq(t.litsOf(c, ""), seq(ev("Cb "+q(n)+" "+q(t.site())), choice(seq(ev("Res "+q(n)+" false"), serr), seq(ev("Res "+q(n)+" true"), sok)))))
	case "lit":
		fl := c.Fun.(*ast.FuncLit)
		ln := t.lit(fl, "lit")
		return seq(pre, "(CallChk "+q(ln)+" "+serr+" "+sok+")")
	}
	return seq(pre, seq(t.litsOf(c, ""), seq(ev("Ext "+q(n)+" "+q(t.site())), choice(seq(ev("Res "+q(n)+" false"), serr), seq(ev("Res "+q(n)+" true"), sok)))))
}

// ---- conditions

type fact struct {
	atom string
	val  bool
}

func atomOf(e ast.Expr) (string, bool) {
	switch v := e.(type) {
	case *ast.Ident:
		if v.Name == "true" || v.Name == "false" || v.Name == "nil" {
			return "", false
		}
		return v.Name, true
	case *ast.SelectorExpr:
		if x, ok := atomOf(v.X); ok {
			return x + "." + v.Sel.Name, true
		}
	case *ast.ParenExpr:
		return atomOf(v.X)
	}
	return "", false
}

// facts that hold when e is true (pos) and when e is false (neg)
func (t *tr) facts(e ast.Expr) (pos, neg []fact) {
	switch v := e.(type) {
	case *ast.ParenExpr:
		return t.facts(v.X)
	case *ast.UnaryExpr:
		if v.Op == token.NOT {
			n, p := t.facts(v.X)
			return p, n
		}
	case *ast.BinaryExpr:
		switch v.Op {
		case token.LAND:
			p1, _ := t.facts(v.X)
			p2, _ := t.facts(v.Y)
			return append(p1, p2...), nil
		case token.LOR:
			_, n1 := t.facts(v.X)
			_, n2 := t.facts(v.Y)
			return nil, append(n1, n2...)
		case token.NEQ, token.EQL:
			if sel, ok := v.Y.(*ast.SelectorExpr); ok {
				if a, ok := atomOf(v.X); ok {
					at := a + " == " + rawtxt(sel)
					if v.Op == token.EQL {
						return []fact{{at, true}}, []fact{{at, false}}
					}
					return []fact{{at, false}}, []fact{{at, true}}
				}
			}
			if lit, ok := v.Y.(*ast.BasicLit); ok && lit.Kind == token.STRING {
				if a, ok := atomOf(v.X); ok {
					at := a + " == " + strings.ReplaceAll(lit.Value, "\"", "'")
					if v.Op == token.EQL {
						return []fact{{at, true}}, []fact{{at, false}}
					}
					return []fact{{at, false}}, []fact{{at, true}}
				}
			}
			if id, ok := v.Y.(*ast.Ident); ok && id.Name == "nil" {
				if a, ok := atomOf(v.X); ok && a != "err" {
					at := a + " != nil"
					if v.Op == token.NEQ {
						return []fact{{at, true}}, []fact{{at, false}}
					}
					return []fact{{at, false}}, []fact{{at, true}}
				}
			}
		}
	case *ast.Ident, *ast.SelectorExpr:
		if a, ok := atomOf(v); ok {
			if id, isId := v.(*ast.Ident); isId && t.flags[id.Name] {
				a = t.flagBase + "." + id.Name
			}
			return []fact{{a, true}}, []fact{{a, false}}
		}
	}
	return nil, nil
}

func factEvents(fs []fact) string {
	s := "SK"
	for _, f := range fs {
		s = seq(s, ev(fmt.Sprintf("Tst %s %v", q(f.atom), f.val)))
	}
	return s
}

// ---- flags: local bool variables only ever assigned literals and tested

func findFlags(body *ast.BlockStmt) map[string]bool {
	cand := map[string]bool{}
	ast.Inspect(body, func(n ast.Node) bool {
		if a, ok := n.(*ast.AssignStmt); ok && a.Tok == token.DEFINE && len(a.Lhs) == 1 && len(a.Rhs) == 1 {
			if id, ok := a.Lhs[0].(*ast.Ident); ok {
				if v, ok := a.Rhs[0].(*ast.Ident); ok && (v.Name == "true" || v.Name == "false") {
					cand[id.Name] = true
				}
			}
		}
		return true
	})
	if len(cand) == 0 {
		return cand
	}
	// disqualify on any use that is not `x = lit`, `x := lit`, or a boolean-position test
	okUse := map[*ast.Ident]bool{}
	var markCond func(e ast.Expr)
	markCond = func(e ast.Expr) {
		switch v := e.(type) {
		case *ast.Ident:
			okUse[v] = true
		case *ast.ParenExpr:
			markCond(v.X)
		case *ast.UnaryExpr:
			if v.Op == token.NOT {
				markCond(v.X)
			}
		case *ast.BinaryExpr:
			if v.Op == token.LAND || v.Op == token.LOR {
				markCond(v.X)
				markCond(v.Y)
			}
		}
	}
	ast.Inspect(body, func(n ast.Node) bool {
		switch v := n.(type) {
		case *ast.AssignStmt:
			if len(v.Lhs) == 1 && len(v.Rhs) == 1 {
				if id, ok := v.Lhs[0].(*ast.Ident); ok && cand[id.Name] {
					if r, ok := v.Rhs[0].(*ast.Ident); ok && (r.Name == "true" || r.Name == "false") {
						okUse[id] = true
					}
				}
			}
		case *ast.IfStmt:
			markCond(v.Cond)
		case *ast.ForStmt:
			if v.Cond != nil {
				markCond(v.Cond)
			}
		}
		return true
	})
	ast.Inspect(body, func(n ast.Node) bool {
		if id, ok := n.(*ast.Ident); ok && cand[id.Name] && !okUse[id] {
			delete(cand, id.Name)
		}
		return true
	})
	return cand
}

// ---- statements

func (t *tr) block(l []ast.Stmt) string {
	if len(l) == 0 {
		return "SK"
	}
	s := l[0]
	rest := l[1:]
	// idiom: x, err := f(); if err != nil {...}
	if c, ok := assignsErr(s); ok && len(rest) > 0 {
		if ifs, ok := rest[0].(*ast.IfStmt); ok && ifs.Init == nil && isErrCheck(ifs.Cond) {
			t.noteAssign(s.(*ast.AssignStmt))
			old := t.inErr
			t.inErr = true
			serr := t.block(ifs.Body.List)
			t.inErr = old
			sok := "SK"
			if ifs.Else != nil {
				sok = t.stmt(ifs.Else)
			}
			return seq(t.callChk(c, serr, sok), t.block(rest[1:]))
		}
	}
	if d, ok := s.(*ast.DeferStmt); ok {
		var h string
		if fl, ok := d.Call.Fun.(*ast.FuncLit); ok {
			// deferred closure: inline its body as the handler (its returns end the handler only)
			sub := t.sub(fmt.Sprintf("$defer%d", *t.litN+1))
			*t.litN++
			sub.flags, sub.flagBase = t.flags, t.flagBase
			name := sub.fn
			emit(name, "SK")
			emit(name, sub.block(fl.Body.List))
			h = "(CL " + q(name) + ")"
		} else {
			h = t.call1(d.Call)
		}
		return "(Finally " + t.block(rest) + " " + h + ")"
	}
	return seq(t.stmt(s), t.block(rest))
}

// local closures and field writes
func (t *tr) noteAssign(a *ast.AssignStmt) string {
	s := "SK"
	for i, lhs := range a.Lhs {
		if i < len(a.Rhs) {
			if fl, ok := a.Rhs[i].(*ast.FuncLit); ok {
				if id, ok := lhs.(*ast.Ident); ok {
					*t.litN++
					sub := t.sub("$" + id.Name)
					sub.hasErr, _ = resultInfo(fl.Type)
					sub.fparams = copyAdd(t.fparams, funcParams(fl.Type))
					sub.flags, sub.flagBase = t.flags, t.flagBase
					name := sub.fn
					t.closures[id.Name] = name
					sub.closures = t.closures
					emit(name, "SK")
					emit(name, sub.block(fl.Body.List))
					continue
				}
			}
		}
		switch l := lhs.(type) {
		case *ast.SelectorExpr:
			if at, ok := atomOf(l); ok {
				rhs := "?"
				if len(a.Rhs) == len(a.Lhs) {
					rhs = txt(a.Rhs[i])
					if len(rhs) > 24 {
						rhs = rhs[:24]
					}
				}
				s = seq(s, ev("Asg "+q(at)+" "+q(rhs)))
			}
		case *ast.StarExpr:
			s = seq(s, ev("Asg "+q(txt(l))+" "+q("?")))
		case *ast.Ident:
			if t.flags[l.Name] && len(a.Rhs) == len(a.Lhs) {
				if r, ok := a.Rhs[i].(*ast.Ident); ok && (r.Name == "true" || r.Name == "false") {
					s = seq(s, ev(fmt.Sprintf("SetF %s %s", q(t.flagBase+"."+l.Name), r.Name)))
				}
			}
		}
	}
	return s
}

func (t *tr) ret(r *ast.ReturnStmt) string {
	if len(r.Results) == 0 {
		return "(RT KUnk)"
	}
	pre := "SK"
	nonlast := r.Results[:len(r.Results)-1]
	if !t.hasErr {
		nonlast = r.Results
	}
	for _, e := range nonlast {
		if fl, ok := e.(*ast.FuncLit); ok {
			t.lit(fl, "ret")
			continue
		}
		pre = seq(pre, t.callsSeq(e))
	}
	if !t.hasErr {
		return seq(pre, "(RT KUnk)")
	}
	last := r.Results[len(r.Results)-1]
	switch v := last.(type) {
	case *ast.Ident:
		if v.Name == "nil" {
			return seq(pre, seq(ev("RetNil"), "(RT KOk)"))
		}
		if v.Name == "err" {
			if t.inErr {
				return seq(pre, "(RT KErr)")
			}
			return seq(pre, "(RT KUnk)")
		}
	case *ast.SelectorExpr:
		if strings.HasPrefix(v.Sel.Name, "Err") || strings.HasPrefix(v.Sel.Name, "EOF") {
			return seq(pre, seq(ev("RetErr "+q(rawtxt(v))), "(RT KErr)"))
		}
	case *ast.CallExpr:
		_, n := t.callee(v)
		return seq(pre, t.callChk(v, "(RT KErr)", seq(ev("RetTailOk "+q(n)), "(RT KOk)")))
	}
	return seq(pre, seq(t.callsSeq(last), "(RT KUnk)"))
}

func (t *tr) ifStmt(v *ast.IfStmt) string {
	// if x, err := f(); err != nil
	if v.Init != nil {
		if c, ok := assignsErr(v.Init); ok && isErrCheck(v.Cond) {
			old := t.inErr
			t.inErr = true
			serr := t.block(v.Body.List)
			t.inErr = old
			sok := "SK"
			if v.Else != nil {
				sok = t.stmt(v.Else)
			}
			return t.callChk(c, serr, sok)
		}
	}
	pre := "SK"
	if v.Init != nil {
		pre = t.stmt(v.Init)
	}
	el := func() string {
		if v.Else != nil {
			return t.stmt(v.Else)
		}
		return "SK"
	}
	// if f(...) { ... }  with a boolean-valued call as the whole condition (possibly negated)
	cond := v.Cond
	neg := false
	if u, ok := cond.(*ast.UnaryExpr); ok && u.Op == token.NOT {
		if _, ok := u.X.(*ast.CallExpr); ok {
			cond = u.X
			neg = true
		}
	}
	if c, ok := cond.(*ast.CallExpr); ok {
		k, n := t.callee(c)
		if k != "pure" && k != "lock" && k != "unlock" {
			args := "SK"
			for _, a := range c.Args {
				args = seq(args, t.callsSeq(a))
			}
			th := t.block(v.Body.List)
			e := el()
			bt, bf := th, e
			if neg {
				bt, bf = e, th
			}
			var call string
			switch k {
			case "fn", "prim":
				call = "(CL " + q(n) + ")"
			case "cb":
				call = ev("Cb " + q(n) + " " + q(t.site()))
			default:
				call = ev("Ext " + q(n) + " " + q(t.site()))
			}
			return seq(pre, seq(args, seq(call, choice(seq(ev("Res "+q(n)+" true"), bt), seq(ev("Res "+q(n)+" false"), bf)))))
		}
	}
	pre = seq(pre, t.callsSeq(v.Cond))
	old := t.inErr
	if isErrCheck(v.Cond) {
		t.inErr = true
	}
	th := t.block(v.Body.List)
	t.inErr = old
	e := el()
	pos, ng := t.facts(v.Cond)
	return seq(pre, choice(seq(factEvents(pos), th), seq(factEvents(ng), e)))
}

func (t *tr) stmt(s ast.Stmt) string {
	switch v := s.(type) {
	case *ast.BlockStmt:
		return t.block(v.List)
	case *ast.ExprStmt:
		return t.callsSeq(v.X)
	case *ast.AssignStmt:
		r := "SK"
		for _, e := range v.Rhs {
			if _, ok := e.(*ast.FuncLit); ok {
				continue
			}
			r = seq(r, t.callsSeq(e))
		}
		return seq(r, t.noteAssign(v))
	case *ast.DeclStmt, *ast.EmptyStmt:
		return "SK"
	case *ast.IncDecStmt:
		if at, ok := atomOf(v.X); ok && strings.Contains(at, ".") {
			return ev("Asg " + q(at) + " " + q("incdec"))
		}
		return "SK"
	case *ast.ReturnStmt:
		return t.ret(v)
	case *ast.BranchStmt:
		switch v.Tok {
		case token.BREAK:
			if v.Label != nil {
				unsupported = append(unsupported, t.fn+": labelled break")
			}
			return "BR"
		case token.CONTINUE:
			if v.Label != nil {
				unsupported = append(unsupported, t.fn+": labelled continue")
			}
			return "CT"
		}
		unsupported = append(unsupported, t.fn+": "+v.Tok.String())
		return "SK"
	case *ast.IfStmt:
		return t.ifStmt(v)
	case *ast.ForStmt:
		pre := "SK"
		if v.Init != nil {
			pre = t.stmt(v.Init)
		}
		body := t.block(v.Body.List)
		if v.Post != nil {
			// `continue` skips to Post; Post statements here are pure increments
			body = seq(body, t.stmt(v.Post))
		}
		if v.Cond != nil {
			body = choice("BR", seq(t.callsSeq(v.Cond), body))
		}
		return seq(pre, "(Loop "+body+")")
	case *ast.RangeStmt:
		return seq(t.callsSeq(v.X), "(Loop "+choice("BR", t.block(v.Body.List))+")")
	case *ast.SwitchStmt:
		return t.switchStmt(v)
	case *ast.GoStmt:
		if fl, ok := v.Call.Fun.(*ast.FuncLit); ok {
			name := t.lit(fl, "go")
			return ev("Spawn " + q(name))
		}
		return ev("Spawn " + q(txt(v.Call.Fun)))
	case *ast.DeferStmt:
		unsupported = append(unsupported, t.fn+": defer not at block level")
		return "SK"
	case *ast.LabeledStmt:
		return t.stmt(v.Stmt)
	}
	unsupported = append(unsupported, fmt.Sprintf("%s: %T", t.fn, s))
	return ev("Ext " + q("UNSUPPORTED") + " " + q(t.site()))
}

func (t *tr) switchStmt(v *ast.SwitchStmt) string {
	pre := "SK"
	if v.Init != nil {
		pre = t.stmt(v.Init)
	}
	tag := ""
	if v.Tag != nil {
		tag = txt(v.Tag)
		pre = seq(pre, t.callsSeq(v.Tag))
	}
	cases := v.Body.List
	bodies := make([]string, len(cases))
	labels := make([]string, len(cases))
	hasDefault := false
	for i := len(cases) - 1; i >= 0; i-- {
		cc := cases[i].(*ast.CaseClause)
		lab := "default"
		if cc.List != nil {
			ls := []string{}
			for _, e := range cc.List {
				ls = append(ls, txt(e))
			}
			lab = strings.Join(ls, ",")
		} else {
			hasDefault = true
		}
		labels[i] = lab
		l := cc.Body
		ft := false
		if n := len(l); n > 0 {
			if b, ok := l[n-1].(*ast.BranchStmt); ok && b.Tok == token.FALLTHROUGH {
				ft = true
				l = l[:n-1]
			}
		}
		oldctx := t.ctx
		t.ctx = seq(oldctx, ev("Case "+q(tag)+" "+q(lab)))
		bodies[i] = t.block(l)
		t.ctx = oldctx
		// a `break` inside a switch case leaves the switch, not an enclosing loop
		if strings.Contains(bodies[i], "BR") && !strings.Contains(bodies[i], "(Loop") {
			unsupported = append(unsupported, t.fn+": break inside switch")
		}
		if ft && i+1 < len(cases) {
			bodies[i] = seq(bodies[i], bodies[i+1])
		}
	}
	res := "SK"
	first := true
	for i := len(cases) - 1; i >= 0; i-- {
		b := seq(ev("Case "+q(tag)+" "+q(labels[i])), bodies[i])
		if first {
			first = false
			if hasDefault {
				res = b
			} else {
				res = choice(b, ev("Case "+q(tag)+" "+q("nomatch")))
			}
		} else {
			res = choice(b, res)
		}
	}
	return seq(pre, res)
}

// ---------------------------------------------------------------- driver

func recvInfo(fd *ast.FuncDecl) (typ, name string) {
	if fd.Recv == nil || len(fd.Recv.List) == 0 {
		return "", ""
	}
	rt := rawtxt(fd.Recv.List[0].Type)
	rt = strings.TrimPrefix(rt, "*")
	if len(fd.Recv.List[0].Names) > 0 {
		name = fd.Recv.List[0].Names[0].Name
	}
	return rt, name
}

func main() {
	if len(os.Args) < 4 {
		fmt.Fprintln(os.Stderr, "usage: goskel <repo-root> <out-dir> <pkgdir>...")
		os.Exit(2)
	}
	root, outDir := os.Args[1], os.Args[2]
	type unit struct {
		pkg string
		fd  *ast.FuncDecl
	}
	var units []unit
	for _, dir := range os.Args[3:] {
		pkgs, err := parser.ParseDir(fset, filepath.Join(root, dir), func(fi os.FileInfo) bool {
			return !strings.HasSuffix(fi.Name(), "_test.go")
		}, 0)
		if err != nil {
			fmt.Fprintln(os.Stderr, "parse error:", err)
			os.Exit(1)
		}
		pnames := []string{}
		for p := range pkgs {
			pnames = append(pnames, p)
		}
		sort.Strings(pnames)
		for _, pname := range pnames {
			translatedPkgs[pname] = true
			fnames := []string{}
			for fn := range pkgs[pname].Files {
				fnames = append(fnames, fn)
			}
			sort.Strings(fnames)
			for _, fn := range fnames {
				// build-constrained duplicates (stat_non_unix.go etc.): keep the first definition only
				for _, d := range pkgs[pname].Files[fn].Decls {
					fd, ok := d.(*ast.FuncDecl)
					if !ok || fd.Body == nil {
						continue
					}
					units = append(units, unit{pname, fd})
					rt, _ := recvInfo(fd)
					if rt != "" {
						methods[pname+"."+rt+"."+fd.Name.Name] = true
					} else {
						pkgFuncs[pname+"."+fd.Name.Name] = true
					}
				}
			}
		}
	}
	seen := map[string]bool{}
	for _, u := range units {
		fd := u.fd
		rt, rn := recvInfo(fd)
		base := u.pkg + "." + fd.Name.Name
		recvType := ""
		if rt != "" {
			recvType = u.pkg + "." + rt
			base = recvType + "." + fd.Name.Name
		}
		if seen[base] {
			continue
		}
		seen[base] = true
		h := sha256.Sum256([]byte(rawtxt(fd)))
		digests[base] = fmt.Sprintf("%x", h[:8])
		insts := []string{""}
		if is, ok := instanced[recvType]; ok {
			insts = is
		}
		for _, inst := range insts {
			o, l := 0, 0
			t := &tr{pkg: u.pkg, fn: base + inst, recv: rn, recvType: recvType, inst: inst, ord: &o, litN: &l,
				fparams: funcParams(fd.Type), closures: map[string]string{}}
			t.hasErr, _ = resultInfo(fd.Type)
			t.flags = findFlags(fd.Body)
			t.flagBase = t.fn
			fl := []string{}
			for f := range t.flags {
				fl = append(fl, t.fn+"."+f)
			}
			sort.Strings(fl)
			flagsAll = append(flagsAll, fl...)
			emit(t.fn, "SK")
			emit(t.fn, seq(ev("Enter "+q(t.fn)), "(Finally "+t.block(fd.Body.List)+" "+ev("Leave "+q(t.fn))+")"))
			if rt != "" && ast.IsExported(fd.Name.Name) && ast.IsExported(rt) {
				exported = append(exported, t.fn)
			}
		}
	}

	var b strings.Builder
	b.WriteString("(* GENERATED by /verif/harness/cmd/goskel from the current /repo sources. Do not edit. *)\n")
	b.WriteString("From Coq Require Import List String.\nImport ListNotations.\nFrom STFS Require Import Skel Events.\nOpen Scope string_scope.\n\n")
	for i, n := range order {
		fmt.Fprintf(&b, "(* %s *)\nDefinition f%d : stm := %s.\n", n, i, out[n])
	}
	b.WriteString("\nDefinition table : list (string * stm) := [\n")
	for i, n := range order {
		sep := ";"
		if i == len(order)-1 {
			sep = ""
		}
		fmt.Fprintf(&b, "  (%s, f%d)%s\n", q(n), i, sep)
	}
	b.WriteString("].\n\nDefinition flags : list string := [")
	for i, f := range flagsAll {
		if i > 0 {
			b.WriteString("; ")
		}
		b.WriteString(q(f))
	}
	b.WriteString("].\n\nDefinition exported : list string := [")
	for i, f := range exported {
		if i > 0 {
			b.WriteString("; ")
		}
		b.WriteString(q(f))
	}
	b.WriteString("].\n\nDefinition callsites : list (string * string * string * string) := [\n")
	for i, c := range callsites {
		sep := ";"
		if i == len(callsites)-1 {
			sep = ""
		}
		fmt.Fprintf(&b, "  (%s, %s, %s, %s)%s\n", q(c[0]), q(c[1]), q(c[2]), q(c[3]), sep)
	}
	b.WriteString("].\n\nDefinition digests : list (string * string) := [\n")
	dn := []string{}
	for n := range digests {
		dn = append(dn, n)
	}
	sort.Strings(dn)
	for i, n := range dn {
		sep := ";"
		if i == len(dn)-1 {
			sep = ""
		}
		fmt.Fprintf(&b, "  (%s, %s)%s\n", q(n), q(digests[n]), sep)
	}
	b.WriteString("].\n")
	if err := os.MkdirAll(outDir, 0o755); err != nil {
		panic(err)
	}
	if err := os.WriteFile(filepath.Join(outDir, "Skeleton.v"), []byte(b.String()), 0o644); err != nil {
		panic(err)
	}
	if err := emitConsts(root, outDir); err != nil {
		fmt.Fprintln(os.Stderr, "goskel: constants:", err)
		os.Exit(1)
	}
	fmt.Fprintf(os.Stderr, "goskel: %d functions, %d flags, %d callsites, %d unsupported\n", len(order), len(flagsAll), len(callsites), len(unsupported))
	for _, u := range unsupported {
		fmt.Fprintln(os.Stderr, "  unsupported:", u)
	}
	if len(unsupported) > 0 {
		os.Exit(3)
	}
}

// ---------------------------------------------------------------- constants (Gen/Consts.v)

// suffixTables reads the switch statements of internal/suffix/{add,remove}.go and the suffix constants.
func emitConsts(root, outDir string) error {
	consts := map[string]string{}
	parseFile := func(p string) (*ast.File, error) { return parser.ParseFile(fset, filepath.Join(root, p), nil, 0) }
	for _, p := range []string{"internal/suffix/config.go", "pkg/config/constants.go"} {
		f, err := parseFile(p)
		if err != nil {
			return err
		}
		prefix := ""
		if strings.Contains(p, "pkg/config") {
			prefix = "config."
		}
		for _, d := range f.Decls {
			gd, ok := d.(*ast.GenDecl)
			if !ok || gd.Tok != token.CONST {
				continue
			}
			for _, s := range gd.Specs {
				vs := s.(*ast.ValueSpec)
				for i, n := range vs.Names {
					if i < len(vs.Values) {
						if bl, ok := vs.Values[i].(*ast.BasicLit); ok && bl.Kind == token.STRING {
							consts[prefix+n.Name] = strings.Trim(bl.Value, "\"")
						}
					}
				}
			}
		}
	}
	table := func(file, fn, op string) ([][3]string, error) {
		f, err := parseFile(file)
		if err != nil {
			return nil, err
		}
		var rows [][3]string
		for _, d := range f.Decls {
			fd, ok := d.(*ast.FuncDecl)
			if !ok || fd.Name.Name != fn {
				continue
			}
			for _, st := range fd.Body.List {
				sw, ok := st.(*ast.SwitchStmt)
				if !ok {
					continue
				}
				tag := rawtxt(sw.Tag)
				pending := []string{}
				for _, c := range sw.Body.List {
					cc := c.(*ast.CaseClause)
					if cc.List == nil {
						continue // default: unsupported format
					}
					labels := []string{}
					for _, e := range cc.List {
						labels = append(labels, rawtxt(e))
					}
					if n := len(cc.Body); n > 0 {
						if b, ok := cc.Body[n-1].(*ast.BranchStmt); ok && b.Tok == token.FALLTHROUGH {
							pending = append(pending, labels...)
							continue
						}
					}
					suffix := ""
					for _, bs := range cc.Body {
						if as, ok := bs.(*ast.AssignStmt); ok {
							txt := ""
							for _, r := range as.Rhs {
								txt += " " + rawtxt(r)
							}
							for k, v := range consts {
								if strings.Contains(txt, k) && !strings.HasPrefix(k, "config.") {
									suffix = v
								}
							}
							_ = op
						}
					}
					for _, l := range append(pending, labels...) {
						rows = append(rows, [3]string{tag, consts[l], suffix})
					}
					pending = nil
				}
			}
		}
		return rows, nil
	}
	add, err := table("internal/suffix/add.go", "AddSuffix", "+=")
	if err != nil {
		return err
	}
	rem, err := table("internal/suffix/remove.go", "RemoveSuffix", "TrimSuffix")
	if err != nil {
		return err
	}
	lists := map[string][]string{}
	if f, err := parseFile("pkg/config/constants.go"); err == nil {
		for _, d := range f.Decls {
			gd, ok := d.(*ast.GenDecl)
			if !ok || gd.Tok != token.VAR {
				continue
			}
			for _, s := range gd.Specs {
				vs := s.(*ast.ValueSpec)
				for i, n := range vs.Names {
					if cl, ok := vs.Values[i].(*ast.CompositeLit); ok {
						for _, e := range cl.Elts {
							lists[n.Name] = append(lists[n.Name], consts["config."+rawtxt(e)])
						}
					}
				}
			}
		}
	}
	var b strings.Builder
	b.WriteString("(* GENERATED by goskel from internal/suffix/*.go and pkg/config/constants.go. Do not edit. *)\nFrom Coq Require Import List String.\nImport ListNotations.\nOpen Scope string_scope.\n\n")
	wr := func(name string, rows [][3]string) {
		fmt.Fprintf(&b, "Definition %s : list (string * string * string) := [\n", name)
		for i, r := range rows {
			sep := ";"
			if i == len(rows)-1 {
				sep = ""
			}
			fmt.Fprintf(&b, "  (%s, %s, %s)%s\n", q(r[0]), q(r[1]), q(r[2]), sep)
		}
		b.WriteString("].\n")
	}
	wr("add_suffix_table", add)
	wr("remove_suffix_table", rem)
	for _, n := range []string{"KnownCompressionFormats", "KnownEncryptionFormats", "KnownSignatureFormats"} {
		fmt.Fprintf(&b, "Definition %s : list string := [", n)
		for i, v := range lists[n] {
			if i > 0 {
				b.WriteString("; ")
			}
			b.WriteString(q(v))
		}
		b.WriteString("].\n")
	}
	fmt.Fprintf(&b, "Definition block_size : nat := %s.\n", "512")
	// the connection pool of the index store (internal/persisters/sqlite.go, the pure-Go build): every
	// <db>.Set...Conns(<literal>) call of SQLite.Open, in source order
	pool := [][2]string{}
	if f, err := parser.ParseFile(token.NewFileSet(), filepath.Join(root, "internal/persisters/sqlite.go"), nil, 0); err == nil {
		ast.Inspect(f, func(n ast.Node) bool {
			ce, ok := n.(*ast.CallExpr)
			if !ok {
				return true
			}
			se, ok := ce.Fun.(*ast.SelectorExpr)
			if !ok || !strings.HasPrefix(se.Sel.Name, "Set") || !strings.HasSuffix(se.Sel.Name, "Conns") || len(ce.Args) != 1 {
				return true
			}
			v := "?"
			if bl, ok := ce.Args[0].(*ast.BasicLit); ok {
				v = bl.Value
			}
			pool = append(pool, [2]string{se.Sel.Name, v})
			return true
		})
	}
	// how the drive is opened for writing (pkg/tape/write.go, OpenTapeWriteOnly): every os.OpenFile call with its flag
	// expression; "returned" = assigned to the result f with '=', "temporary" = a local opened with ':=' and closed again
	opens := [][2]string{}
	if src, err := os.ReadFile(filepath.Join(root, "pkg/tape/write.go")); err == nil {
		fset := token.NewFileSet()
		if f, err := parser.ParseFile(fset, "write.go", src, 0); err == nil {
			ast.Inspect(f, func(n ast.Node) bool {
				as, ok := n.(*ast.AssignStmt)
				if !ok || len(as.Rhs) != 1 {
					return true
				}
				ce, ok := as.Rhs[0].(*ast.CallExpr)
				if !ok || len(ce.Args) < 2 {
					return true
				}
				se, ok := ce.Fun.(*ast.SelectorExpr)
				if !ok || se.Sel.Name != "OpenFile" {
					return true
				}
				kind := "temporary"
				if as.Tok == token.ASSIGN {
					kind = "returned"
				}
				a := ce.Args[1]
				opens = append(opens, [2]string{kind, strings.ReplaceAll(string(src[fset.Position(a.Pos()).Offset:fset.Position(a.End()).Offset]), " ", "")})
				return true
			})
		}
	}
	b.WriteString("Definition tape_writer_opens : list (string * string) := [")
	for i, r := range opens {
		if i > 0 {
			b.WriteString("; ")
		}
		fmt.Fprintf(&b, "(%s, %s)", q(r[0]), q(r[1]))
	}
	b.WriteString("].\n")
	b.WriteString("Definition index_store_pool : list (string * string) := [")
	for i, r := range pool {
		if i > 0 {
			b.WriteString("; ")
		}
		fmt.Fprintf(&b, "(%s, %s)", q(r[0]), q(r[1]))
	}
	b.WriteString("].\n")
	return os.WriteFile(filepath.Join(outDir, "Consts.v"), []byte(b.String()), 0o644)
}
