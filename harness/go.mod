module verif/harness

go 1.21

require (
	github.com/cosnicolaou/pbzip2 v1.0.3
	github.com/pojntfx/stfs v0.0.0
	github.com/spf13/afero v1.11.0
	modernc.org/sqlite v1.31.1
)

require (
	aead.dev/minisign v0.3.0 // indirect
	filippo.io/age v1.2.0 // indirect
	github.com/ProtonMail/go-crypto v1.0.0 // indirect
	github.com/ProtonMail/go-mime v0.0.0-20230322103455-7d82a3887f2f // indirect
	github.com/ProtonMail/gopenpgp/v2 v2.7.5 // indirect
	github.com/andybalholm/brotli v1.1.0 // indirect
	github.com/cloudflare/circl v1.3.9 // indirect
	github.com/dsnet/compress v0.0.1 // indirect
	github.com/dustin/go-humanize v1.0.1 // indirect
	github.com/fclairamb/go-log v0.5.0 // indirect
	github.com/friendsofgo/errors v0.9.2 // indirect
	github.com/go-gorp/gorp/v3 v3.1.0 // indirect
	github.com/gofrs/uuid v4.4.0+incompatible // indirect
	github.com/google/uuid v1.6.0 // indirect
	github.com/klauspost/compress v1.17.9 // indirect
	github.com/klauspost/pgzip v1.2.6 // indirect
	github.com/mattetti/filebuffer v1.0.1 // indirect
	github.com/pierrec/lz4/v4 v4.1.21 // indirect
	github.com/pkg/errors v0.9.1 // indirect
	github.com/remyoudompheng/bigfft v0.0.0-20230129092748-24d4a6f8daec // indirect
	github.com/rubenv/sql-migrate v1.7.0 // indirect
	github.com/spf13/cast v1.6.0 // indirect
	github.com/volatiletech/inflect v0.0.1 // indirect
	github.com/volatiletech/null/v8 v8.1.2 // indirect
	github.com/volatiletech/randomize v0.0.1 // indirect
	github.com/volatiletech/sqlboiler/v4 v4.16.2 // indirect
	github.com/volatiletech/strmangle v0.0.6 // indirect
	golang.org/x/crypto v0.25.0 // indirect
	golang.org/x/sys v0.22.0 // indirect
	golang.org/x/text v0.16.0 // indirect
	modernc.org/libc v1.55.6 // indirect
	modernc.org/mathutil v1.6.0 // indirect
	modernc.org/memory v1.8.0 // indirect
)

replace github.com/pojntfx/stfs => /repo
