"""C06 / C16 streams: cut tapes."""
import json, random, subprocess, collections
import hist, streams
from vlib import *


def small_history(rng, rs, ncalls):
    g = hist.Gen(random.Random(rng.random()), rs, alpha=hist.SAFE_ALPHA + ["a_", "x.gz"], max_calls=ncalls, ops_level=True, malformed=0.05)
    # small contents so that tapes stay short: override the size classes
    sizes = [0, 1, 10, 511, 512, 513, 700, 1100]
    orig = g.blob
    g.blob = lambda n=None: orig(rng.choice(sizes))
    return g.history({"rs": rs, "cache": "file"}, [])


def run_prefix_chunk(job, timeout=1800):
    p = subprocess.run([hist.STFSDRV, "prefix"], input=json.dumps(job), stdout=subprocess.PIPE, stderr=subprocess.PIPE, text=True,
                       timeout=timeout, env=dict(ENV, VERIF_SCRATCH=hist.scratch_dir()))
    out = [json.loads(l) for l in p.stdout.splitlines() if l.startswith("{")]
    return out, p.returncode, p.stderr[-1000:]


CHUNK = 2500


def hung(r):
    return r.get("class") == "HANG" or any(f.get("name") == "*" for f in (r.get("fetch") or []))


def retry_hangs(job, out):
    """A watchdog verdict under load is not a verdict: every prefix reported as hanging is evaluated again, alone, one at a time,
    with a watchdog of 60 s; only what hangs then is reported."""
    ns = [r["n"] for r in out[1:] if hung(r)]
    if not ns:
        return out
    # the first two alone: if they all hang again the hang is systematic and the remaining verdicts stand as they are
    again, rc, err = run_prefix_chunk({"history": job["history"], "ns": ns[:2], "tmo_ms": 8000, "par": 1}, timeout=3600)
    byn = {r["n"]: r for r in again[1:]}
    if len(ns) > 2 and not all(hung(r) for r in again[1:]):
        more, rc, err = run_prefix_chunk({"history": job["history"], "ns": ns[2:], "tmo_ms": 20000, "par": 1}, timeout=3600)
        byn.update({r["n"]: r for r in more[1:]})
    return [out[0]] + [byn.get(r["n"], r) if hung(r) else r for r in out[1:]]


def run_prefix_job(job, timeout=1800):
    out, rc, err = run_prefix_job_(job, timeout)
    if out:
        out = retry_hangs(job, out)
    return out, rc, err


def run_prefix_job_(job, timeout=1800):
    """One sweep; dense sweeps (stride < 8) are cut into chunks of CHUNK prefix lengths per process (every evaluated prefix keeps an
    index database open in its process: STFS has no Close)."""
    if job.get("ns") or job.get("stride", 1) >= 8:
        return run_prefix_chunk(job, timeout)
    first, rc, err = run_prefix_chunk(dict(job, **{"from": 0, "to": CHUNK}), timeout)
    if rc != 0 or not first:
        return first, rc, err
    full = first[0].get("full_len", 0)
    rest = [dict(job, **{"from": k, "to": k + CHUNK}) for k in range(CHUNK, full + 1, CHUNK)]
    from concurrent.futures import ThreadPoolExecutor
    with ThreadPoolExecutor(max_workers=6) as ex:
        parts = list(ex.map(lambda j: run_prefix_chunk(j, timeout), rest))
    out = list(first)
    for o, rc2, err2 in parts:
        out += o[1:]            # the first record of every chunk repeats the layout
        if rc2 != 0:
            rc, err = rc2, err2
    out = [out[0]] + sorted(out[1:], key=lambda r: r.get("n", 0))
    return out, rc, err


def prefix_stream(ctx):
    data, p = streams.cache_get(ctx, "prefix")
    if data is not None:
        return data
    ok, out = hist.build_harness()
    if not ok:
        raise RuntimeError(out[-1500:])
    quick = ctx.tier == "quick"
    rng = random.Random(ctx.seed * 131 + 9)
    jobs = []
    for i in range(5 if quick else 14):
        rs = rng.choice([1, 3, 20])
        jobs.append({"history": small_history(rng, rs, 7 if quick else 10), "stride": 41 if quick else 1})
    # pipeline configurations: decoders that are set up from the first bytes of a content stream meet cuts right behind a header group
    for extra in ([{"comp": "gzip"}] if quick else [{"comp": "gzip"}, {"enc": "age"}, {"comp": "zstandard", "enc": "age"}, {"comp": "bzip2"}]):
        h = {"config": dict({"rs": rng.choice([3, 20]), "cache": "file"}, **extra), "blobs": [{"seed": 1, "len": 700}, {"seed": 2, "len": 10}, {"seed": 3, "len": 1500}], "obs": [],
             "calls": [{"op": "initialize"}, {"op": "mkdir", "name": "/d", "perm": 0o755}, {"op": "createfile", "name": "/d/f", "blob": 0}, {"op": "createfile", "name": "/g", "blob": 1},
                       {"op": "createfile", "name": "/d/f", "blob": 2}, {"op": "chmod", "name": "/g", "perm": 0o600}]}
        jobs.append({"history": h, "stride": 7 if quick else 1})
    data = []
    jobs = streams.replay_override(ctx, "history", jobs, lambda h: {"history": h, "stride": 1 if len(json.dumps(h)) < 4000 else 41})
    for j in jobs:
        out, rc, err = run_prefix_job(j)
        data.append(dict(job=j, out=out, rc=rc, err=err))
    streams.cache_put(p, data)
    return data


def layout(members):
    """[(start, hb, size, hdr_end, data_end)] in bytes"""
    return [(m["start"], m["hb"], m["size"], (m["start"] + m["hb"]) * 512, (m["start"] + m["hb"]) * 512 + m["size"]) for m in members]


def c06_oracle(d):
    """property stated on the sweep: termination, state = last complete record (+ torn header), untouched contents"""
    out = d["out"]
    fails = []
    if d["rc"] != 0 or not out or "members" not in out[0]:
        return [dict(n=-1, kind="sweep-failed", detail=d["err"][-300:])], 0
    lay = layout(out[0]["members"])
    res = out[1:]
    bysig = {}
    atn = {r["n"]: r for r in res}
    # state after j complete records = the sweep result at n = data_end of record j-1 (n = 0 for j = 0)
    S = [atn[0]["rowsig"]] if 0 in atn else [None]
    for (_, _, _, he, de) in lay:
        S.append(atn[de]["rowsig"] if de in atn else None)
    full = res[-1]
    ref_fetch = {(f.get("rec"), f.get("blk")): f for f in (full.get("fetch") or [])}
    for r in res:
        n = r["n"]
        if r["class"] not in ("ok", "error"):
            fails.append(dict(n=n, kind="indexer-did-not-terminate-normally", detail=[r["class"], r.get("err")]))
            continue
        j = sum(1 for l in lay if l[4] <= n)
        allowed = {S[j]} | ({S[j + 1]} if j + 1 < len(S) else set())
        if r["rowsig"] not in allowed:
            fails.append(dict(n=n, kind="state-is-not-last-complete-record", detail=[j, r["rowsig"], list(allowed)]))
        for f in r.get("fetch") or []:
            if f.get("name") == "*":
                fails.append(dict(n=n, kind="fetch-hung", detail=f))
                continue
            pos = (f.get("rec"), f.get("blk"))
            rs = d["job"]["history"]["config"]["rs"]
            if f.get("rec") is None:
                # the drive could not even be opened for this row: an error is an acceptable answer for a cut tape
                if not f.get("err"):
                    fails.append(dict(n=n, kind="fetch-without-position-and-without-error", detail=f))
                continue
            start = f["rec"] * rs + f["blk"]
            mem = next((l for l in lay if l[0] == start), None)
            if mem is None:
                fails.append(dict(n=n, kind="row-position-not-a-record", detail=f))
                continue
            if mem[4] <= n:
                rf = ref_fetch.get(pos)
                if f.get("err") or (rf is not None and (f.get("sha"), f.get("len")) != (rf.get("sha"), rf.get("len"))):
                    fails.append(dict(n=n, kind="untouched-entry-content-differs", detail=[f, rf]))
                for via in ("fs", "op", "in"):
                    if via + "_len" in f and (f.get(via + "_err") or (rf is not None and (f.get(via + "_sha"), f.get(via + "_len")) != (rf.get("sha"), rf.get("len")))):
                        fails.append(dict(n=n, kind="untouched-entry-content-differs-via-" + via, detail=[f, rf]))
            else:
                if not f.get("err"):
                    fails.append(dict(n=n, kind="torn-entry-returned-data-without-error", detail=f))
                for via in ("fs", "op", "in"):
                    if via + "_len" in f and not f.get(via + "_err"):
                        fails.append(dict(n=n, kind="torn-entry-returned-data-without-error-via-" + via, detail=f))
    return fails, len(res)


def cq_tape(members):
    items, end = [], 0
    for m in members:
        if m["start"] > end and end > 0 or (m["start"] > 0 and end == 0 and False):
            items.append("TT")
        elif m["start"] > end and end == 0 and m["start"] == 2:
            items.append("TT")
        items.append("TM (mkm %d %d)" % (m["hb"], m["size"]))
        end = m["start"] + m["hb"] + (m["size"] + 511) // 512
    items.append("TT")
    return "[" + "; ".join(items) + "]"


def c06_tie(ctx, data):
    """the sweep against Model/Prefix.v, evaluated in Coq"""
    cached, p = streams.cache_get(ctx, "prefixtie")
    if cached is not None:
        return cached
    d0 = os.path.join(COQ, "Cases")
    os.makedirs(d0, exist_ok=True)
    f = os.path.join(d0, "Prefix_%d.v" % ctx.seed)
    body, defs = [], []
    total = 0
    for k, d in enumerate(data):
        out = d["out"]
        if not out or "members" not in out[0]:
            continue
        lay = layout(out[0]["members"])
        res = out[1:]
        atn = {r["n"]: r for r in res}
        S = [atn[0]["rowsig"]] + [atn[l[4]]["rowsig"] for l in lay if l[4] in atn]
        obs = []
        for r in res:
            if r["class"] not in ("ok", "error"):
                continue
            cands = [i for i, s_ in enumerate(S) if s_ == r["rowsig"]]
            if not cands:
                kk = 9999
            else:
                exp = sum(1 for l in lay if l[3] <= r["n"])
                kk = exp if exp in cands else cands[0]
            obs.append("(%d, %s, %d%%nat)" % (r["n"], "true" if r["class"] == "error" else "false", kk))
            total += 1
        # one definition per 2000 cuts (a dense sweep has tens of thousands of cuts per tape: one literal list overflows coqc's stack)
        body.append("Definition t%d : tape := %s." % (k, cq_tape(out[0]["members"])))
        for a in range(0, max(len(obs), 1), 2000):
            nm = "%d_%d" % (k, a // 2000)
            defs.append(nm)
            body.append("Definition M%s := Eval vm_compute in prefix_mismatches t%d [%s].\nPrint M%s." % (nm, k, "; ".join(obs[a:a + 2000]), nm))
    open(f, "w").write("From Coq Require Import List NArith ZArith Bool.\nImport ListNotations.\nFrom STFS Require Import Str Db Tape Index Prefix.\nOpen Scope N_scope.\n"
                       "Definition dh : hdr := {| h_tf := 48; h_name := []; h_link := []; h_size := 0; h_mode := 0; h_uid := 0; h_gid := 0; h_uname := []; h_gname := []; h_mtime := 0%Z; h_atime := 0%Z; h_ctime := 0%Z; h_pax := [] |}.\n"
                       "Definition mkm (hb enc : N) : member := {| m_hdr := dh; m_hb := hb; m_data := None; m_enc := enc |}.\n" + "\n".join(body) + "\n")
    rc, out = sh("coqc -Q Skel STFS -Q Gen STFS -Q Mon STFS -Q Model STFS Cases/Prefix_%d.v" % ctx.seed, cwd=COQ, timeout=3600)
    for ext in (".vo", ".vok", ".vos", ".glob"):
        try:
            os.remove(f[:-2] + ext)
        except OSError:
            pass
    import re
    ms = re.findall(r"M(\d+)_\d+\s*=\s*(\[[^\]]*\])", out)
    bad = [(int(k), re.findall(r"\d+", v)[:5]) for k, v in ms if v.strip() != "[]"]
    cached = dict(ok=(rc == 0 and len(ms) == len(defs)), bad=bad, total=total, log=out[-1500:])
    streams.cache_put(p, cached)
    return cached
