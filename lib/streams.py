"""History streams shared between checks, with a cache keyed by the repository tree, the
verification sources, the seed and the tier (DESIGN.md §4)."""
import glob, hashlib, json, os, random
import hist
from vlib import V, REPO, sh, repo_tree_hash

CACHE = os.path.join(V, ".cache")


def lib_hash():
    h = hashlib.sha256()
    for p in sorted(glob.glob(os.path.join(V, "lib", "*.py")) + glob.glob(os.path.join(V, "harness", "cmd", "stfsdrv", "*.go"))
                    + glob.glob(os.path.join(V, "corpus", "*", "*.json"))):
        h.update(open(p, "rb").read())
    return h.hexdigest()[:12]


def replay_override(ctx, key, items, prepare=None):
    """Replay mode (./check <id> --replay <file>): the stream consists of the input recorded in the replay file (under
    `key`: "history" or "job", also inside the `unconfirmed` entries of an obligation file) instead of the generated
    inputs; a stream whose kind of input the file does not carry is empty."""
    rp = getattr(ctx, "replay", None)
    if not rp:
        return items
    d = json.load(open(rp))
    found = []
    for r in [d.get("replay") or {}] + [(u.get("replay") or {}) for u in d.get("unconfirmed", [])]:
        if isinstance(r, dict) and key in r and r[key]:
            x = json.loads(json.dumps(r[key]))
            if key == "history" and isinstance(r.get("fault"), dict) and "call" in r["fault"]:
                c = x["calls"][r["fault"]["call"]]
                c.setdefault("fault", {"seam": r["fault"]["seam"], "k": r["fault"]["k"]})
            found.append(prepare(x) if prepare else x)
    return found


def cache_get(ctx, name):
    if getattr(ctx, "replay", None):
        return None, os.path.join(CACHE, "replay-%s-%d.json" % (name, os.getpid()))
    key = "%s-%s-%s-%s-%s" % (name, repo_tree_hash(), lib_hash(), ctx.seed, ctx.tier)
    p = os.path.join(CACHE, key + ".json")
    if os.path.exists(p) and not os.environ.get("VERIF_NOCACHE"):
        try:
            return json.load(open(p)), p
        except Exception:
            pass
    return None, p


def cache_put(p, data):
    if os.path.basename(p).startswith("replay-"):
        return
    os.makedirs(CACHE, exist_ok=True)
    # keep the cache small: drop older entries of other trees
    files = sorted(glob.glob(os.path.join(CACHE, "*.json")), key=os.path.getmtime)
    for f in files[:-30]:
        try:
            os.remove(f)
        except OSError:
            pass
    tmp = p + ".tmp%d" % os.getpid()
    json.dump(data, open(tmp, "w"))
    os.replace(tmp, p)


def corpus(kind):
    out = []
    for p in sorted(glob.glob(os.path.join(V, "corpus", kind, "*.json"))):
        h = json.load(open(p))
        h["_corpus"] = os.path.basename(p)
        out.append(h)
    return out


FS_OBS = ["rows", "tree", "tape", "prefix", "rebuild", "reopen", "fetch", "query", "limits"]


def fs_histories(ctx, n, max_calls, ops_level=True, rs_choices=(1, 2, 3, 7, 20, 64), alpha=None, symlinks=False):
    rng = random.Random(ctx.seed * 7919 + 17)
    hs = []
    for i in range(n):
        rs = rng.choice(list(rs_choices))
        g = hist.Gen(random.Random(rng.random()), rs, alpha=alpha or hist.ALPHA, max_calls=max_calls, ops_level=ops_level)
        hs.append(g.history({"rs": rs, "cache": "file"}, FS_OBS))
    return hs


CONFUSABLE = [("a", "A"), ("a_", "ab"), ("a%", "abc"), ("a", "ab"), ("a b", "a"), ("x.gz", "x"), ("Data", "data"), ("é", "e"),
              ("a%", "a%b"), ("a_", "a_b"), ("a", "a%"), ("a%b", "a%"), ("a", "a/"), ("%", "x"), ("_", "x"), ("a%", "ab")]


def scenario_histories(ctx):
    """Directed scenarios: sibling directories whose names are confusable for SQL LIKE / prefix logic, each with
    descendants, then a recursive remove or rename of one of them (at the root and nested)."""
    hs = []
    rs_cycle = [20, 3, 1, 7]
    k = 0
    for base in ("", "/p"):
        for (x, y) in CONFUSABLE:
            for op in ("removeall", "rename", "rename-over", "removeall-other", "rename-into"):
                if "/" in x or "/" in y:
                    continue
                X, Y, Z = base + "/" + x, base + "/" + y, base + "/z"
                calls = [{"op": "initialize"}]
                if base:
                    calls.append({"op": "mkdir", "name": base, "perm": 0o755})
                if op == "rename-into":
                    # the DESTINATION of a rename is the confusable name (it does not exist yet; its sibling has descendants), and a
                    # rename whose destination was removed before (the index still holds tombstones below it)
                    calls += [{"op": "mkdir", "name": Y, "perm": 0o755}, {"op": "createfile", "name": Y + "/c", "blob": 0}, {"op": "mkdirall", "name": Y + "/d/e", "perm": 0o755},
                              {"op": "mkdir", "name": Z, "perm": 0o755}, {"op": "createfile", "name": Z + "/k", "blob": 1},
                              {"op": "rename", "name": Z, "name2": X}, {"op": "chmod", "name": Y + "/c", "perm": 0o600}, {"op": "removeall", "name": X},
                              {"op": "mkdir", "name": Z, "perm": 0o700}, {"op": "rename", "name": Z, "name2": X}, {"op": "remove", "name": Y + "/c"}]
                    rs = rs_cycle[k % len(rs_cycle)]
                    k += 1
                    hs.append({"config": {"rs": rs, "cache": "file"}, "blobs": [{"seed": 1, "len": 700}, {"seed": 2, "len": 10}], "obs": FS_OBS, "calls": calls, "_scenario": "%s:%s/%s" % (op, x, y)})
                    continue
                calls += [{"op": "mkdir", "name": X, "perm": 0o755}, {"op": "mkdir", "name": Y, "perm": 0o755},
                          {"op": "createfile", "name": Y + "/c", "blob": 0}, {"op": "mkdirall", "name": Y + "/d/e", "perm": 0o755},
                          {"op": "createfile", "name": X + "/k", "blob": 1}, {"op": "mkdir", "name": X + "/m", "perm": 0o700}]
                if op == "removeall":
                    calls.append({"op": "removeall", "name": X})
                elif op == "removeall-other":
                    calls.append({"op": "removeall", "name": Y})
                elif op == "rename":
                    calls.append({"op": "rename", "name": X, "name2": Z})
                else:
                    calls += [{"op": "mkdir", "name": Z, "perm": 0o755}, {"op": "rename", "name": Y, "name2": Z}]
                calls += [{"op": "chmod", "name": Y + "/c", "perm": 0o600}, {"op": "remove", "name": X + "/k"}]
                rs = rs_cycle[k % len(rs_cycle)]
                k += 1
                hs.append({"config": {"rs": rs, "cache": "file"}, "blobs": [{"seed": 1, "len": 700}, {"seed": 2, "len": 10}], "obs": FS_OBS, "calls": calls, "_scenario": "%s:%s/%s" % (op, x, y)})
    return hs


def subtree_histories():
    """Renames whose destination lies inside the source (existing or missing target, empty directory or file target, deeper
    levels, components that begin with dots), and directories whose descendants repeat the directory's own name."""
    hs = []
    k = 0
    base = [{"op": "initialize"}, {"op": "mkdir", "name": "/a", "perm": 0o755}, {"op": "mkdir", "name": "/a/b", "perm": 0o755}, {"op": "createfile", "name": "/a/f", "blob": 1},
            {"op": "mkdir", "name": "/a/sub", "perm": 0o755}, {"op": "createfile", "name": "/a/sub/g", "blob": 0}, {"op": "mkdir", "name": "/ab", "perm": 0o755}]
    for dst in ("/a/b", "/a/f", "/a/sub/new", "/a/new", "/a/...", "/a/..b", "/a/.b", "/a/sub/..b", "/a/b/c/d", "/a/sub"):
        calls = [dict(c) for c in base] + [{"op": "rename", "name": "/a", "name2": dst}, {"op": "chmod", "name": "/a/f", "perm": 0o600}, {"op": "mkdir", "name": "/after", "perm": 0o755}]
        hs.append({"config": {"rs": [20, 3, 1][k % 3], "cache": "file"}, "blobs": [{"seed": 1, "len": 700}, {"seed": 2, "len": 10}], "obs": FS_OBS, "calls": calls, "_scenario": "own-subtree:" + dst})
        k += 1
    for (d, e) in (("/d", "/e"), ("/p/d", "/p/e"), ("/d", "/dd")):
        calls = [{"op": "initialize"}, {"op": "mkdir", "name": "/p", "perm": 0o755}, {"op": "mkdir", "name": d, "perm": 0o755}, {"op": "mkdir", "name": d + "/d", "perm": 0o755},
                 {"op": "createfile", "name": d + "/data.txt", "blob": 1}, {"op": "createfile", "name": d + "/d/x.txt", "blob": 0}, {"op": "mkdirall", "name": d + d, "perm": 0o755},
                 {"op": "rename", "name": d, "name2": e}, {"op": "chmod", "name": e + "/data.txt", "perm": 0o600}, {"op": "removeall", "name": e + "/d"}]
        hs.append({"config": {"rs": [20, 3, 1][k % 3], "cache": "file"}, "blobs": [{"seed": 1, "len": 700}, {"seed": 2, "len": 10}], "obs": FS_OBS, "calls": calls, "_scenario": "repeated-name:" + d})
        k += 1
    # creating through OpenFile(O_CREATE) below a directory, then moving that directory (or an ancestor) away, then creating
    # below the old name again: must be refused (not-exist, or is-a-file when a file took the name)
    WC = 0o100 | 1
    for variant in range(3):
        calls = [{"op": "initialize"}, {"op": "mkdir", "name": "/d", "perm": 0o755}, {"op": "mkdir", "name": "/d/sub", "perm": 0o755},
                 {"op": "writefile", "name": "/d/sub/a", "flags": WC, "perm": 0o644, "blob": 1}]
        if variant == 0:
            calls += [{"op": "rename", "name": "/d/sub", "name2": "/d/moved"}]
        elif variant == 1:
            calls += [{"op": "rename", "name": "/d", "name2": "/e"}]
        else:
            calls += [{"op": "rename", "name": "/d/sub", "name2": "/d/moved"}, {"op": "createfile", "name": "/d/sub", "blob": 1}]
        calls += [{"op": "writefile", "name": "/d/sub/b", "flags": WC, "perm": 0o644, "blob": 0}, {"op": "writefile", "name": "/d/sub/a", "flags": WC, "perm": 0o644, "blob": 0},
                  {"op": "mkdir", "name": "/after", "perm": 0o755}]
        hs.append({"config": {"rs": [20, 3, 1][k % 3], "cache": "file"}, "blobs": [{"seed": 1, "len": 700}, {"seed": 2, "len": 10}], "obs": FS_OBS, "calls": calls, "_scenario": "create-below-moved-parent:%d" % variant})
        k += 1
    return hs


def roworder_histories():
    """Index rows older than the rows of their present ancestors: a subtree is filled somewhere else and then renamed to a
    place below a directory whose own name recurs in the new path, so that the SQL depth expression of the listing
    (replace(name, prefix, '')) selects the OLD deep rows before the directory's real children. Then every call that
    depends on 'does this directory have children' (Remove, Rename onto it) and the limited listings (observation 'limits')."""
    hs = []
    k = 0
    for base in ("", "/p"):
        for m in (1, 2, 3, 4):
            for kind in ("files", "dirs"):
                for tail in ("remove", "rename-over", "remove-mid", "list-only"):
                    A, Q = base + "/a", base + "/q"
                    calls = [{"op": "initialize"}]
                    if base:
                        calls.append({"op": "mkdir", "name": base, "perm": 0o755})
                    calls.append({"op": "mkdir", "name": Q, "perm": 0o755})
                    for i in range(m):
                        calls.append({"op": "createfile", "name": "%s/%d" % (Q, i), "blob": i % 2} if kind == "files" else {"op": "mkdir", "name": "%s/%d" % (Q, i), "perm": 0o755})
                    calls += [{"op": "mkdir", "name": A, "perm": 0o755}, {"op": "mkdir", "name": A + "/b", "perm": 0o755},
                              {"op": "rename", "name": Q, "name2": A + "/b/a"}]
                    if tail == "remove":
                        calls += [{"op": "remove", "name": A}, {"op": "remove", "name": A + "/b"}]
                    elif tail == "rename-over":
                        calls += [{"op": "mkdir", "name": base + "/z", "perm": 0o755}, {"op": "rename", "name": base + "/z", "name2": A},
                                  {"op": "rename", "name": base + "/z", "name2": A + "/b"}]
                    elif tail == "remove-mid":
                        calls += [{"op": "createfile", "name": A + "/late", "blob": 1}, {"op": "remove", "name": A + "/b"}, {"op": "remove", "name": A},
                                  {"op": "remove", "name": A + "/late"}, {"op": "remove", "name": A}]
                    calls += [{"op": "mkdir", "name": base + "/after", "perm": 0o755}]
                    hs.append({"config": {"rs": [20, 3, 1][k % 3], "cache": "file"}, "blobs": [{"seed": 1, "len": 700}, {"seed": 2, "len": 10}], "obs": FS_OBS, "calls": calls,
                               "_scenario": "row-order:%s:%d:%s:%s" % (base, m, kind, tail)})
                    k += 1
    return hs


def overwrite_histories():
    """The drive manager constructed with overwrite = true (as `operation initialize` and `archive --overwrite` do): only its FIRST
    writer may clear the drive; every later call of the same instance appends."""
    hs = []
    for k, rs in enumerate((20, 3, 1)):
        calls = [{"op": "initialize"}, {"op": "mkdir", "name": "/a", "perm": 0o755}, {"op": "createfile", "name": "/a/f", "blob": 0}, {"op": "mkdir", "name": "/b", "perm": 0o700},
                 {"op": "rename", "name": "/a/f", "name2": "/b/g"}, {"op": "chmod", "name": "/b/g", "perm": 0o600}, {"op": "createfile", "name": "/a/h", "blob": 1},
                 {"op": "remove", "name": "/a/h"}, {"op": "mkdirall", "name": "/c/d/e", "perm": 0o755}, {"op": "removeall", "name": "/c"}]
        hs.append({"config": {"rs": rs, "cache": "file", "overwrite": True}, "blobs": [{"seed": 1, "len": 700}, {"seed": 2, "len": 10}], "obs": ["rows", "tree", "tape", "prefix"],
                   "calls": calls, "_scenario": "overwrite-manager:%d" % rs})
    return hs


def multibyte_histories():
    """Directories whose names have more bytes than characters, with short-named subdirectories that hold entries: listings and
    depth computations that mix byte and character counts go wrong exactly there."""
    hs = []
    k = 0
    for d in ("\u65e5\u672c", "\u00e9\u00e9", "a\u20ac", "p/\u65e5"):
        D = "/" + d
        calls = [{"op": "initialize"}]
        if "/" in d:
            calls.append({"op": "mkdir", "name": "/p", "perm": 0o755})
        calls += [{"op": "mkdir", "name": D, "perm": 0o755}, {"op": "mkdir", "name": D + "/a", "perm": 0o755}, {"op": "createfile", "name": D + "/a/b", "blob": 1},
                  {"op": "mkdirall", "name": D + "/a/c/e", "perm": 0o755}, {"op": "createfile", "name": D + "/readme", "blob": 0}, {"op": "mkdir", "name": D + "/archive", "perm": 0o755},
                  {"op": "createfile", "name": D + "/archive/x", "blob": 1}, {"op": "remove", "name": D + "/a/b"}, {"op": "remove", "name": D + "/a"}, {"op": "rename", "name": D + "/a", "name2": D + "/z"},
                  {"op": "removeall", "name": D + "/z/c"}, {"op": "remove", "name": D + "/z"}, {"op": "remove", "name": D}]
        hs.append({"config": {"rs": [20, 3, 1][k % 3], "cache": "file"}, "blobs": [{"seed": 1, "len": 700}, {"seed": 2, "len": 10}], "obs": FS_OBS, "calls": calls, "_scenario": "multibyte:" + d})
        k += 1
    return hs


def blank_name_histories():
    """Entries whose names consist of white space only, addressed by their relative spelling: a name is never "no name"."""
    hs = []
    for k, nm in enumerate((" ", "  ", "\t")):
        calls = [{"op": "initialize"}, {"op": "mkdir", "name": "/a", "perm": 0o755}, {"op": "createfile", "name": "/a/f", "blob": 0}, {"op": "mkdir", "name": "/" + nm, "perm": 0o755},
                 {"op": "createfile", "name": "/" + nm + "/x", "blob": 1}, {"op": "chmod", "name": nm, "perm": 0o700}, {"op": "rename", "name": nm + "/x", "name2": nm + "/y"},
                 {"op": "removeall", "name": nm}, {"op": "mkdirall", "name": nm + "/" + nm, "perm": 0o755}, {"op": "remove", "name": nm + "/" + nm}, {"op": "remove", "name": nm},
                 {"op": "createfile", "name": "/a/g", "blob": 1}]
        hs.append({"config": {"rs": [20, 3, 1][k % 3], "cache": "file"}, "blobs": [{"seed": 1, "len": 700}, {"seed": 2, "len": 10}], "obs": FS_OBS, "calls": calls, "_scenario": "blank-name:%r" % nm})
    return hs


def symlink_histories():
    """Symbolic links (not part of model M1): judged by the rebuild / reopen oracle of C01 only, where their behaviour is a known finding."""
    hs = []
    bodies = [[{"op": "createfile", "name": "/a", "blob": 0}, {"op": "symlink", "name": "/a", "name2": "/l"}, {"op": "mkdir", "name": "/d", "perm": 0o755}],
              [{"op": "createfile", "name": "/a", "blob": 0}, {"op": "symlink", "name": "/a", "name2": "/l"}, {"op": "rename", "name": "/a", "name2": "/b"}, {"op": "createfile", "name": "/a", "blob": 1},
               {"op": "remove", "name": "/l"}, {"op": "mkdir", "name": "/d", "perm": 0o755}],
              [{"op": "mkdir", "name": "/d", "perm": 0o755}, {"op": "symlink", "name": "/missing", "name2": "/d/dangling"}, {"op": "createfile", "name": "/d/f", "blob": 1}, {"op": "remove", "name": "/d/dangling"}]]
    for k, b in enumerate(bodies):
        hs.append({"config": {"rs": [20, 3, 1][k % 3], "cache": "file"}, "blobs": [{"seed": 1, "len": 10}, {"seed": 2, "len": 700}], "obs": ["tree", "rebuild", "reopen", "tape", "prefix"],
                   "calls": [{"op": "initialize"}] + b, "_nomodel": True, "_symlinks": True, "_scenario": "symlinks:%d" % k})
    return hs


def interplay_histories():
    """A written handle kept open across calls that remove or move its entry, and relative spellings of names
    ('a/b', './a/b', '.', '') in every position.  The open-handle histories are not evaluated on M1 (handles are modelled separately, File.v):
    they are judged by the reference run and the tree oracles only."""
    W = 0o100 | 2   # O_CREATE|O_RDWR
    hs = []
    for k, mid in enumerate(([{"op": "removeall", "name": "/d"}], [{"op": "remove", "name": "/d/e/f"}], [{"op": "removeall", "name": "/d/e"}, {"op": "mkdir", "name": "/d/e", "perm": 0o700}],
                             [{"op": "remove", "name": "/d/e/f"}, {"op": "mkdir", "name": "/d/e/f", "perm": 0o755}],
                             [{"op": "remove", "name": "/d/e/f"}, {"op": "mkdir", "name": "/d/e/f", "perm": 0o755}, {"op": "createfile", "name": "/d/e/f/child", "blob": 0}, {"op": "mkdir", "name": "/d/e/f/sub", "perm": 0o755}])):
        for fin in ("close", "sync+close"):
            calls = [{"op": "initialize"}, {"op": "mkdirall", "name": "/d/e", "perm": 0o755}, {"op": "open", "h": "a", "name": "/d/e/f", "flags": W, "perm": 0o644},
                     {"op": "write", "h": "a", "blob": 0}] + [dict(c) for c in mid]
            if fin != "close":
                calls.append({"op": "sync", "h": "a"})
            calls += [{"op": "close", "h": "a"}, {"op": "mkdir", "name": "/after", "perm": 0o755}]
            hs.append({"config": {"rs": [20, 3][k % 2], "cache": "file"}, "blobs": [{"seed": 1, "len": 700}], "obs": FS_OBS, "calls": calls, "_nomodel": True, "_scenario": "open-handle:%d:%s" % (k, fin)})
    rel = [[{"op": "mkdir", "name": "a", "perm": 0o755}, {"op": "mkdir", "name": "./a/b", "perm": 0o755}, {"op": "createfile", "name": "a/b/f", "blob": 0}, {"op": "chmod", "name": "a/b/f", "perm": 0o600},
            {"op": "remove", "name": "."}, {"op": "rename", "name": "/a", "name2": "a/b/c"}, {"op": "rename", "name": "a", "name2": "./a"}, {"op": "rename", "name": ".", "name2": "/x"},
            {"op": "rename", "name": "", "name2": "/x"}, {"op": "removeall", "name": "./a/b"}, {"op": "mkdirall", "name": "x/y/z", "perm": 0o755}, {"op": "rename", "name": "x/y", "name2": "./a/y"}],
           [{"op": "mkdir", "name": "/.x", "perm": 0o755}, {"op": "rename", "name": "/.x", "name2": ".x/y"}, {"op": "rename", "name": ".x", "name2": "/y"}, {"op": "mkdir", "name": "y/b", "perm": 0o755},
            {"op": "rename", "name": "y", "name2": "./y/b/c"}, {"op": "rename", "name": "./y/b", "name2": "y"}, {"op": "chown", "name": "y", "uid": 7, "gid": 8}]]
    for k, body in enumerate(rel):
        hs.append({"config": {"rs": [20, 3][k % 2], "cache": "file"}, "blobs": [{"seed": 1, "len": 10}], "obs": FS_OBS, "calls": [{"op": "initialize"}] + body, "_scenario": "relative-spellings:%d" % k})
    return hs


def fs_stream(ctx):
    """The FS history stream (C01 C02 C04 C05 C12 C13): corpus first, then generated histories.
    Returns list of dicts {h, res, rc, err}."""
    data, p = cache_get(ctx, "fs")
    if data is not None:
        return data
    ok, out = hist.build_harness()
    if not ok:
        raise RuntimeError("harness build failed: " + out[-2000:])
    quick = ctx.tier == "quick"
    hs = []
    for h in corpus("fs"):
        h = dict(h)
        h.setdefault("obs", FS_OBS)
        hs.append(h)
    hs += scenario_histories(ctx)
    hs += interplay_histories()
    hs += subtree_histories()
    hs += roworder_histories()
    hs += multibyte_histories()
    hs += overwrite_histories()
    hs += symlink_histories()
    hs += blank_name_histories()
    hs += fs_histories(ctx, 40 if quick else 400, 16 if quick else 40, ops_level=True)
    hs += fs_histories(ctx, 30 if quick else 300, 14 if quick else 30, ops_level=False)
    hs = replay_override(ctx, "history", hs, lambda h: dict(h, obs=FS_OBS))
    res = hist.run_many(hs)
    data = [dict(h=h, res=r, rc=rc, err=err) for h, (r, rc, err) in zip(hs, res)]
    cache_put(p, data)
    return data


def ref_stream(ctx, fs_data):
    """Reference runs (afero OsFs) of the FS-only histories of the stream."""
    data, p = cache_get(ctx, "ref")
    if data is not None:
        return data
    import subprocess
    from concurrent.futures import ThreadPoolExecutor
    from vlib import ENV

    def one(d):
        h = d["h"]
        if any(c["op"] in ("archive", "update", "delete", "move") for c in h["calls"]):
            return None
        pr = subprocess.run([hist.STFSDRV, "ref"], input=json.dumps(h), stdout=subprocess.PIPE, stderr=subprocess.PIPE, text=True,
                            timeout=120, env=dict(ENV, VERIF_SCRATCH=hist.scratch_dir()))
        out = []
        for line in pr.stdout.splitlines():
            if line.startswith("{"):
                out.append(json.loads(line))
        return out
    with ThreadPoolExecutor(max_workers=12) as ex:
        data = list(ex.map(one, fs_data))
    cache_put(p, data)
    return data
