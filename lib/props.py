"""Per-property checks. Each function fills a Ctx (obligations, violations, coverage)."""
import hashlib, json, os, re
from vlib import *

M2_TRUST = [
    "translator goskel (harness/cmd/goskel, ~1000 lines of Go): the emitted skeleton over-approximates the control flow of the current source; unknown callees may fail or succeed; conditions that are not recognised atoms are nondeterministic",
    "hand-written primitives for the callers of pkg/tape/manager.go (GetWriter/GetReader lock the drive and release it on error, Close releases it); the manager's own regenerated skeleton is checked against exactly that contract (C10_drive_manager_get, C10_drive_manager_close) and the fault-enumeration and race-stress runs exercise it",
    "the theorem quantifies over complete paths of the skeleton; every loop has an exit (checked: C10_loops_exit)",
    "termination of library calls and of loops over external data is assumed",
]


def coq_props(ctx, module, theorems, findings_module=None, extra=()):
    ok_gen, _ = regen(ctx)
    targets = ["Props/%s.vo" % module] + ["Props/%s.vo" % m for m in extra]
    if findings_module:
        targets.append("Props/%s.vo" % findings_module)
    res = coq_targets(ctx, targets)
    ok, log = res["Props/%s.vo" % module]
    tail = ""
    if not ok:
        m = re.search(r'File "\./Props/%s\.v", line (\d+).*?\n(.*?)(?:\n\n|make)' % module, log, re.S)
        tail = (m.group(0) if m else log[-1500:])
    for t in theorems:
        ctx.oblige("theorem %s.%s (machine-checked over the regenerated/current model)" % (module, t), ok, tail)
    for m in extra:
        ctx.oblige("module Props/%s compiles" % m, res["Props/%s.vo" % m][0], "")
    if ok:
        closed, out = print_assumptions(ctx, module, theorems)
        ctx.oblige("Print Assumptions: closed under the global context for every theorem of %s" % module, closed, out[-1000:])
        if ctx.tier == "thorough":
            from vlib import coqchk_module
            coqchk_module(ctx, module)
    if findings_module and not res["Props/%s.vo" % findings_module][0] and ok:
        ctx.note("finding-not-reproduced: Props/%s.v no longer compiles on the current source (refutation witnesses of known findings)" % findings_module)
    grep_gate(ctx)
    return ok


def check_C10(ctx):
    ctx.trusted += M2_TRUST
    ok = coq_props(ctx, "C10", ["C10_all_paths", "C10_all_paths_sem", "C10_loops_exit", "C10_nonvacuous", "C10_drive_manager_get", "C10_drive_manager_close", "C10_drive_manager_get_sem", "C10_drive_manager_close_sem", "C10_drive_manager_nonvacuous"], "C10_findings")
    import drv
    drv.faults_C10(ctx, proof_ok=ok)


def check_C15(ctx):
    ctx.trusted += M2_TRUST
    ok = coq_props(ctx, "C15", ["C15_mutators_refuse", "C15_stfs_quiet", "C15_file_quiet", "C15_file_mutators_refuse",
                                "C15_openfile_grants_nothing", "C15_flags_only_in_openfile", "C15_sem", "C15_nonvacuous"])
    # the model half (M1, Props/C15Model.v): every state, every history
    ok = coq_props(ctx, "C15Model", ["C15_step_tape", "C15_step_tape_ro_call", "C15_step_rows", "C15_step_only_cache", "C15_step_frame", "C15_step_nothing_when_root_cached",
                                     "C15_mutators_perm", "C15_archive_refused", "C15_writefile_table", "C15_writefile_flags_irrelevant", "C15_writefile_never_ok", "C15_openfile_ro",
                                     "C15_initialize", "C15_has_root_iff", "C15_history", "C15_history_fs_calls", "C15_history_any", "C15_view_as_writable", "C15_read_path_as_writable",
                                     "C15_openfile_rdonly_as_writable", "C15_view_history", "C15_view_history_wr", "C15_reads_history", "C15_ro_handle_ops", "C15_rdonly_handle_as_writable",
                                     "C15_handle_write_refused", "C15_handle_close_nobuf", "C15_written_opened", "C15_ro_over_written", "C15_demo_history", "C15_demo_foreign", "C15_demo_written"]) and ok
    import drv
    ctx.trusted += M1_TRUST
    drv.readonly_C15(ctx, proof_ok=ok)
    drv.readonly_model_tie(ctx)
    drv.readonly_unindexable_C15(ctx)



# ---------------------------------------------------------------- FS-history properties

M1_TRUST = [
    "hand-written model M1 (coq/Model/*.v); tied to /repo by the correspondence run of this check: the same histories are executed on the real code (stfsdrv) and inside Coq (vm_compute of Diff.mismatches), compared on outcome class, every index row (all columns, tombstones included), the visible tree with contents, and the tape length",
    "environment oracle: header block counts, encoded sizes and clock readings observed on the implementation are inputs of the model run",
    "modelled, not verified: archive/tar byte encoding (parse(emit h) = h), SQLite/sqlboiler (row order of unindexed scans = rowid order, LIMIT 1 by primary-key order), the Go runtime",
    "the correspondence is differential testing: its reach is bounded by the generator (distribution recorded in coverage)",
]


def classify_C02(h, res, f):
    """known-finding signatures for C02 oracle failures"""
    if f["kind"] == "tree-differs-from-reference":
        d = f["detail"]
        op, diffs = d[0], d[1:]
        if op in ("createfile", "writefile") and len(diffs) == 1:
            p, a, b = diffs[0]
            if a is not None and b is not None and a[:4] == b[:4] and a[6:] == b[6:] and a[4:6] == [0, 0] and a[4:6] != b[4:6]:
                return "C02-owner-reset-on-flush"
            if a is not None and b is not None and tuple(a[:4]) == tuple(b[:4]) and tuple(a[6:]) == tuple(b[6:]) and tuple(a[4:6]) == (0, 0):
                return "C02-owner-reset-on-flush"
    return None


def classify_update_unindexed(h, res, f):
    """known finding C01-update-of-unindexed-name, decided from the inputs: an operation-level update of a path that is
    not a live entry of the tree observed before that call, at or before the deviating call"""
    import posixpath
    for i, c in enumerate(h["calls"][:f["i"] + 1]):
        if c["op"] != "update" or i == 0:
            continue
        prev = None
        for r in reversed(res[:i]):
            o = r.get("obs") or {}
            if "tree" in o:
                prev = set(e["path"] for e in o["tree"])
                break
        if prev is None:
            continue
        for fl in c.get("files", []):
            p = posixpath.normpath("/" + fl["path"].lstrip("/"))
            if p not in prev:
                return "C01-update-of-unindexed-name"
    return None


def fs_differential(ctx, data):
    """Correspondence M1 <-> implementation over the stream (cached per tree/seed/tier)."""
    import hist, streams
    cached, p = streams.cache_get(ctx, "fsdiff")
    if cached is None:
        terms, idx = [], []
        for i, d in enumerate(data):
            if d["h"].get("_nomodel"):
                continue
            t = hist.emit_case(d["h"], d["res"], hist.identity_of(d["res"]))
            if t:
                terms.append(t)
                idx.append(i)
        mm_all, okall, log = [], True, ""
        # shard: a few hundred cases per coqc call
        for k in range(0, len(terms), 120):
            ok, mm, lg = hist.coq_mismatches(terms[k:k + 120], "fs%d_%d" % (ctx.seed, k))
            okall = okall and ok
            log += lg
            mm_all += [(idx[k + ci], call, kind) for ci, call, kind in mm]
        cached = dict(ok=okall, mm=mm_all, log=log[-2000:], cases=len(terms),
                      calls=sum(min(len(data[i]["res"]), len(data[i]["h"]["calls"])) for i in idx))
        streams.cache_put(p, cached)
    return cached


KINDS = {1: "outcome", 2: "index rows", 3: "visible tree", 4: "tape length", 9: "length"}


def fs_property(ctx, pid, module, theorems, oracle, classify=None, needs_ref=False, findings_module=None):
    import collections, hist, streams, oracles
    ctx.trusted += M1_TRUST
    proof_ok = coq_props(ctx, module, theorems, findings_module)
    data = streams.fs_stream(ctx)
    ref = streams.ref_stream(ctx, data) if needs_ref else None
    # 1. tie: model vs implementation
    diff = fs_differential(ctx, data)
    ctx.oblige("correspondence: model M1 evaluates in Coq on the observed histories", diff["ok"], diff["log"])
    ctx.oblige("correspondence: M1 and the implementation agree on every compared call (%d histories, %d calls)" % (diff["cases"], diff["calls"]),
               diff["ok"] and not diff["mm"], json.dumps(diff["mm"][:5]))
    for (hi, call, kind) in diff["mm"][:3]:
        d = data[hi]
        ctx.violation("correspondence", "model and implementation disagree on %s at call %d" % (KINDS.get(kind, kind), call),
                      dict(history=d["h"], first_disagreeing_call=call, observable=KINDS.get(kind, kind),
                           implementation=[dict(i=r["i"], op=r["op"], out=r["out"], err=r.get("err")) for r in d["res"][:call + 1]]),
                      found_input=False)
    # 2. the property stated on the implementation
    ops, outs = collections.Counter(), collections.Counter()
    distinct = set()
    fails = 0
    for k, d in enumerate(data):
        h, res = d["h"], d["res"]
        for c, r in zip(h["calls"], res):
            ops[c["op"]] += 1
            outs[r["out"]] += 1
        sig = tuple((c["op"], r["out"]) for c, r in zip(h["calls"], res))
        if any(o == "ok" for (op, o) in sig[1:] if op not in ("reopen",)):
            distinct.add(hashlib.sha256(json.dumps([h["calls"], [r["out"] for r in res]], sort_keys=True).encode()).hexdigest())
        if d["rc"] != 0:
            last = res[-1] if res else {}
            ctx.violation("crash-or-hang", "history ended with exit code %s (%s)" % (d["rc"], last.get("out")),
                          dict(history=h, exit_code=d["rc"], stderr=d["err"][-500:], last=last.get("op")))
            fails += 1
            continue
        if h.get("_symlinks") and pid != "C01":
            continue          # symbolic links are outside M1 and outside every theorem: judged by C01's rebuild/reopen oracle only (known finding)
        fl = oracle(h, res, ref[k]) if needs_ref else oracle(h, res)
        for f in fl:
            fid = "C01-symlinks" if h.get("_symlinks") else (classify(h, res, f) if classify else None)
            if fid and any(x["id"] == fid for x in ctx.findings):
                ctx.known(fid, next(x["what"] for x in ctx.findings if x["id"] == fid))
                continue
            fails += 1
            if fails <= 5:
                ctx.violation(f["kind"], "%s at call %d (%s)" % (f["kind"], f["i"], h["calls"][f["i"]]["op"]),
                              dict(history=dict(config=h["config"], blobs=h["blobs"], calls=h["calls"][:f["i"] + 1], obs=h.get("obs")),
                                   failing_call=f["i"], detail=f["detail"], corpus=h.get("_corpus")))
    ctx.oblige("oracle: the property holds on the implementation for every explored history (known findings apart)", fails == 0, "%d failures" % fails)
    sample = data[min(len(data) - 1, 3)]
    ctx.coverage.update(
        evaluations=sum(len(d["res"]) for d in data), histories=len(data), distinct_nontrivial=len(distinct),
        rule="histories = corpus + PRNG(VERIF_SEED) generated call sequences over a hostile name alphabet, record sizes {1,2,3,7,20,64}, content size classes around block and record boundaries; distinct = different (calls, outcomes) sequence; non-trivial = at least one successful mutation after Initialize",
        op_histogram=dict(ops), outcome_histogram=dict(outs),
        traces_validated_against_impl=diff["cases"],
        samples=[dict(config=sample["h"]["config"], calls=sample["h"]["calls"][:8], outcomes=[r["out"] for r in sample["res"][:8]])])


def check_C01(ctx):
    import oracles
    fs_property(ctx, "C01", "C01", ["C01_rebuild_ignores_index", "C01_rebuild_prefix_stable", "C01_rows_rebuilt_are_live_rows", "C01_excluded_corners", "C01_demo", "C01_rows_rebuilt_are_live_rows_any_config", "C01_run_any_config", "C01_rebuild_any_config", "C01_rows_rebuilt_with_operations", "C01_rows_rebuilt_with_operations_any_config", "C01_operation_call_preserves_invariant", "C01_fs_histories_are_ok_hist", "C01_update_of_unindexed_name_refuted", "C01_with_operations_demo"], oracles.c01, classify=classify_update_unindexed)
    matrix_for(ctx, "C01", oracles.c01, "the visible tree of the running instance (names, attributes, contents) equals the tree of an index rebuilt from the tape")


def matrix_for(ctx, pid, oracle, what):
    """every pipeline configuration (the properties quantify over them): the property's oracle applied to the configuration-matrix
    histories (every codec, encryption and signature format, both write caches; names that end in codec suffixes; truncation to nothing)"""
    import crypto
    mdata = crypto.matrix_stream(ctx)
    nfail = 0
    for d in mdata:
        if d["rc"] != 0:
            continue          # judged by C03
        for f in oracle(d["h"], d["res"]):
            nfail += 1
            if nfail <= 3:
                ctx.violation(f["kind"], "%s at call %d (%s) under %s" % (f["kind"], f["i"], d["h"]["calls"][f["i"]]["op"], json.dumps(d["h"]["config"])),
                              dict(history=dict(config=d["h"]["config"], blobs=d["h"]["blobs"], calls=d["h"]["calls"][:f["i"] + 1], obs=d["h"].get("obs")),
                                   failing_call=f["i"], detail=f["detail"]))
    ctx.oblige("oracle: under every pipeline configuration of the matrix (%d configurations) %s" % (len(mdata), what), nfail == 0, "%d failures" % nfail)
    ctx.coverage.update(matrix_configs=len(mdata))


def check_C02(ctx):
    import oracles
    fs_property(ctx, "C02", "C02", ["C02_readonly_refuses", "C02_step", "C02_init_good", "C02_history", "C02_create_existing", "C02_create_existing_empty", "C02_create_pre_existing", "C02_write_file_exact", "C02_write_file", "C02_history_with_writes", "C02_rename", "C02_remove_all", "C02_step_any_config", "C02_history_any_config", "C02_create_existing_any_config"], oracles.c02, classify=classify_C02, needs_ref=True)


    # every pipeline configuration: the configuration-matrix histories carry their own reference (what each name was given is what a
    # reference filesystem holds): names, sizes, contents and the success of every create/chmod/rename/truncate under every codec
    import crypto
    mdata = crypto.matrix_stream(ctx)
    nfail = 0
    for d in mdata:
        if d["rc"] != 0:
            continue          # judged by C03
        for f in crypto.c03_oracle(d):
            nfail += 1
            if nfail <= 3:
                ctx.violation(f["kind"], "%s for %s under %s" % (f["kind"], f["name"], json.dumps(d["h"]["config"])), dict(history=d["h"], failing=f,
                              how="stfsdrv run < history.json; compare the tagged readfile/stat/restore results and the final tree with history.expect (the reference content of every name)"))
    ctx.oblige("oracle: under every pipeline configuration of the matrix (%d configurations) every call succeeds as on the reference and every name holds the size and content the reference holds" % len(mdata),
               nfail == 0, "%d failures" % nfail)
    ctx.coverage.update(matrix_configs=len(mdata))


def check_C04(ctx):
    import oracles
    fs_property(ctx, "C04", "C04", ["C04_pos_arith", "C04_pos_unique", "C04_branches_dead", "C04_positions_stable", "C04_positions_wf", "C04_lastknown_not_before_content", "C04_positions_designate_content", "C04_read_is_last_written", "C04_walk_shows_last_written", "C04_read_after_create", "C04_read_after_write_file", "C04_read_is_last_written_with_writes", "C04_reachable_any_config", "C04_walk_shows_last_written_any_config", "C04_step_any_config", "C04_read_after_create_any_config"], oracles.c04, classify=classify_update_unindexed)
    # every pipeline configuration (the property quantifies over them): in the configuration-matrix histories the position stored for
    # every entry, followed by Fetch / Restore / File.Read, must yield what was last written, and no write may fail to map its headers
    import crypto
    mdata = crypto.matrix_stream(ctx)
    nfail = 0
    for d in mdata:
        if d["rc"] != 0:
            continue          # judged by C03
        for f in crypto.c03_oracle(d):
            positional = f["kind"] in ("fetch-differs-from-written", "restore-differs-from-written", "readfile-differs-from-written") or \
                (f["kind"] in ("write-failed", "name-with-codec-suffix") and "tar header missing" in json.dumps(f["detail"]))
            if not positional:
                continue
            nfail += 1
            if nfail <= 3:
                ctx.violation(f["kind"], "%s for %s under %s" % (f["kind"], f["name"], json.dumps(d["h"]["config"])), dict(history=d["h"], failing=f,
                              how="stfsdrv run < history.json; compare the tagged readfile/restore results and the final fetch observation with history.expect"))
    ctx.oblige("oracle: under every pipeline configuration of the matrix (%d configurations) the indexed position of every entry yields what was last written (Fetch, Restore, File.Read) and every write maps its headers onto the tape" % len(mdata),
               nfail == 0, "%d failures" % nfail)
    ctx.coverage.update(matrix_configs=len(mdata))


def check_C05(ctx):
    import oracles
    fs_property(ctx, "C05", "C05", ["C05_step_appends", "C05_history_appends", "C05_records_stay", "C05_nonvacuous", "C05_tape_is_archives", "C05_step_appends_archives", "C05_archives_decidable", "C05_blocks_of_archives", "C05_bytes_on_the_grid", "C05_member_table", "C05_members_at_their_positions", "C05_refused_precondition_appends_nothing", "C05_failed_after_write_is_replay_failure", "C05_readonly_appends_nothing", "C05_failed_call_appends_nothing_sync", "C05_failed_call_appends_nothing", "C05_failed_call_appends_nothing_all_calls", "C05_history_failed_calls_append_nothing", "C05_writer_opens_in_append_mode"], oracles.c05)
    # every pipeline configuration: the configuration-matrix histories (codecs, encryption, signatures, both write caches) with the tape
    # observed after every call
    import crypto
    mdata = crypto.matrix_stream(ctx)
    nfail = 0
    for d in mdata:
        if d["rc"] != 0:
            continue          # judged by C03
        for f in oracles.c05(d["h"], d["res"]):
            nfail += 1
            if nfail <= 3:
                ctx.violation(f["kind"], "%s at call %d (%s) under %s" % (f["kind"], f["i"], d["h"]["calls"][f["i"]]["op"], json.dumps(d["h"]["config"])),
                              dict(history=dict(config=d["h"]["config"], blobs=d["h"]["blobs"], calls=d["h"]["calls"][:f["i"] + 1], obs=d["h"].get("obs")),
                                   failing_call=f["i"], detail=f["detail"]))
    ctx.oblige("oracle: under every pipeline configuration of the matrix (%d configurations) each call only appends, the tape stays on the 512-byte grid and a standard tar reader iterates it" % len(mdata),
               nfail == 0, "%d failures" % nfail)
    ctx.coverage.update(matrix_configs=len(mdata), matrix_calls=sum(len(d["res"]) for d in mdata))


def check_C12(ctx):
    import oracles
    fs_property(ctx, "C12", "C12", ["C12_children_exact", "C12_like_implied", "C12_like_alone_refuted", "C12_remove_all_touches_exactly_the_subtree", "C12_remove_all_leaves_nothing_of_the_subtree", "C12_remove_all_missing_is_noop", "C12_rename_is_the_reference_move", "C12_rename_into_own_subtree_refused", "C12_rename_of_missing_name_changes_nothing", "C12_rename_onto_itself_changes_nothing"], oracles.c12)


def check_C13(ctx):
    import oracles
    fs_property(ctx, "C13", "C13", ["C13_limit", "C13_tree_all_histories", "C13_listing_all_histories", "C13_walk_all_histories", "C13_tree_all_histories_any_config", "C13_listing_all_histories_any_config", "C13_walk_all_histories_any_config"], oracles.c13)


def check_C06(ctx):
    import prefix, collections
    ctx.trusted += M1_TRUST + ["Model/Prefix.v states what the indexer makes of a cut (header applied once the header group is complete, error iff the data is cut); tied by the sweep over every sampled cut length of every generated tape"]
    coq_props(ctx, "C06", ["C06_prefix", "C06_error_iff_torn", "C06_intact", "C06_fetch", "C06_nonvacuous"])
    data = prefix.prefix_stream(ctx)
    tie = prefix.c06_tie(ctx, data)
    ctx.oblige("correspondence: Model/Prefix.v evaluates in Coq on the swept cuts", tie["ok"], tie["log"])
    ctx.oblige("correspondence: model and implementation agree on (error reported, headers applied) for every swept cut (%d cuts)" % tie["total"], tie["ok"] and not tie["bad"], json.dumps(tie["bad"][:5]))
    for (k, ns) in tie["bad"][:3]:
        ctx.violation("correspondence", "indexing a tape cut at %s bytes differs from the model" % ns,
                      dict(history=data[k]["job"]["history"], cut_lengths=ns), found_input=False)
    nfail, ncuts = 0, 0
    classes = collections.Counter()
    for d in data:
        fails, n = prefix.c06_oracle(d)
        ncuts += n
        for r in d["out"][1:]:
            classes[r.get("class")] += 1
        for f in fails:
            nfail += 1
            if nfail <= 5:
                ctx.violation(f["kind"], "%s when the tape is cut after %s bytes" % (f["kind"], f["n"]),
                              dict(history=d["job"]["history"], cut_after_bytes=f["n"], detail=f["detail"],
                                   how="run the history, truncate the drive file to that length, recovery.Index(0,0,overwrite=true) into an empty index, Fetch every row"))
    ctx.oblige("oracle: for every swept cut the indexer terminates, the state is that of the last complete record (plus the torn header), untouched contents are exact, the torn entry reports an error", nfail == 0, "%d failures" % nfail)
    ctx.coverage.update(evaluations=ncuts, tapes=len(data), distinct_nontrivial=len([d for d in data if len(d["out"]) > 1 and len(d["out"][0].get("members", [])) > 2]),
                        result_classes=dict(classes), exhaustive=(ctx.tier == "thorough"),
                        rule="tapes from generated histories (<= ~80 blocks); cut lengths: every %s byte plus every block boundary +-1 and every end of data +-1; non-trivial tape = more than two records" % ("" if ctx.tier == "thorough" else "41st"),
                        samples=[dict(members=[(m["start"], m["hb"], m["size"], m["name"]) for m in data[0]["out"][0]["members"]][:6],
                                      cuts=[(r["n"], r["class"]) for r in data[0]["out"][1:8]])] if data and data[0]["out"] else [])


def check_C07(ctx):
    import replay, collections
    ctx.trusted += M1_TRUST
    coq_props(ctx, "C07", ["C07_replay_converges", "C07_replay_idempotent", "C07_rebuild_succeeds", "C07_forged_record_refuted", "C07_demo", "C07_demo_idempotent", "C07_replay_converges_any_config", "C07_replay_idempotent_any_config", "C07_rebuild_succeeds_any_config", "C07_replay_converges_with_operations", "C07_replay_idempotent_with_operations", "C07_rebuild_succeeds_with_operations", "C07_replay_converges_with_operations_any_config", "C07_replay_idempotent_with_operations_any_config", "C07_rebuild_succeeds_with_operations_any_config", "C07_with_operations_boundary"])
    data = replay.replay_stream(ctx)
    tie = replay.c07_tie(ctx, data)
    ctx.oblige("correspondence: Model/Replay.v evaluates in Coq on the observed replays", tie["ok"], tie["log"])
    ctx.oblige("correspondence: index rows after replaying the whole tape into a prefix index agree between model and implementation (%d replays of %d tapes)" % (tie["total"], tie["cases"]),
               tie["ok"] and not tie["bad"], json.dumps(tie["bad"][:3]))
    for (k, v) in tie["bad"][:3]:
        ctx.violation("correspondence", "rows after replay differ from the model (history %d, prefix lengths %s)" % (k, v),
                      dict(history=dict(config=data[k]["h"]["config"], blobs=data[k]["h"]["blobs"], calls=data[k]["h"]["calls"][:data[k]["h"]["nbase"]]), mismatching=v), found_input=False)
    nfail, nrep = 0, 0
    kinds = collections.Counter()
    for d in data:
        if d is None:
            continue
        nrep += sum(1 for c in d["h"]["calls"] if c.get("tag") in ("replay", "live"))
        for c in d["h"]["calls"][:d["h"]["nbase"]]:
            kinds[c["op"]] += 1
        for f in replay.c07_oracle(d):
            nfail += 1
            if nfail <= 5:
                ctx.violation(f["kind"], "%s (call %d of the replay experiment)" % (f["kind"], f["i"]),
                              dict(history=dict(config=d["h"]["config"], blobs=d["h"]["blobs"], calls=d["h"]["calls"][:f["i"] + 1]), detail=f["detail"],
                                   how="run the calls: the tape is saved, an index is rebuilt from its first j records, the whole tape is re-indexed with overwrite=false"))
    ctx.oblige("oracle: every replay (over the live index and over prefix indexes) reports no error, shows the tree of a rebuild from scratch, and a second replay changes nothing", nfail == 0, "%d failures" % nfail)
    ctx.coverage.update(evaluations=nrep, tapes=len([d for d in data if d]), distinct_nontrivial=len([d for d in data if d and any(c["op"] in ("rename", "move") for c in d["h"]["calls"])]),
                        op_histogram=dict(kinds),
                        rule="generated histories (moves, delete-then-recreate, rename onto used names); for each, prefix lengths j sampled incl. 0 and all; non-trivial = the history contains a rename/move",
                        samples=[dict(calls=[(c["op"], c.get("name"), c.get("name2")) for c in data[0]["h"]["calls"][:data[0]["h"]["nbase"]]])] if data and data[0] else [])


def check_C14(ctx):
    import handles, collections
    ctx.trusted += M1_TRUST + ["Model/File.v (handle state machine with the file-backed write cache) is tied by the correspondence run over handle-call sequences; the memory write cache (mattetti/filebuffer) is not modelled",
                               "reference = afero OsFs (os.File) run side by side; error kinds are not compared (any error = any error); EOF signalling is compared only when no byte is returned; WriteAt on O_APPEND handles and zero-length reads are outside the reference's domain"]
    coq_props(ctx, "C14", ["C14_spec_demo", "C14_handle_refines_bytearray_all", "C14_handle_refines_bytearray_all_eq", "C14_handle_refines_bytearray_eq", "C14_handle_refines_bytearray", "C14_handle_refines_bytearray_wide", "C14_agree_b_always", "C14_seek_beyond_end_agrees", "C14_seek_beyond_end_then_write_agrees", "C14_trunc_on_empty_agrees", "C14_readat_agrees", "C14_writeat_agrees", "C14_append_agrees"])
    data = handles.handle_stream(ctx)
    tie = handles.c14_tie(ctx, data)
    ctx.oblige("correspondence: Model/File.v evaluates in Coq on the observed handle sequences", tie["ok"], tie["log"])
    ctx.oblige("correspondence: results of every handle call and the content after close agree between model and implementation (%d file-cache sequences)" % tie["cases"],
               tie["ok"] and not tie["bad"], json.dumps(tie["bad"][:5]))
    for (k, j) in tie["bad"][:3]:
        ctx.violation("correspondence", "handle call %d differs from the model" % j, dict(history=data[k]["h"], first_disagreeing_handle_call=j), found_input=False)
    nfail, ncalls = 0, 0
    ops = collections.Counter()
    distinct = set()
    for d in data:
        for c in d["h"]["calls"]:
            ops[c["op"]] += 1
        ncalls += len(d["res"])
        distinct.add(json.dumps([(c["op"], c.get("off"), c.get("n"), c.get("whence")) for c in d["h"]["calls"]]))
        for f in handles.c14_oracle(d):
            if f["kind"] == "crash-or-hang":
                fid = "C14-memory-write-cache" if (d["h"]["config"].get("cache") == "memory" and ("filebuffer" in d["err"] or "bytes.(*Buffer)" in d["err"])) else None
            else:
                fid = handles.classify_c14(d, f)
            if fid and any(x["id"] == fid for x in ctx.findings):
                ctx.known(fid, next(x["what"] for x in ctx.findings if x["id"] == fid))
                continue
            nfail += 1
            if nfail <= 5:
                ctx.violation(f["kind"], "%s at call %d" % (f["kind"], f["i"]),
                              dict(history=dict(d["h"], calls=d["h"]["calls"][:f["i"] + 1]), detail=f["detail"], reference="afero OsFs on the same calls"))
    ctx.oblige("oracle: every handle call returns what an in-memory byte-array file returns, and the content after close is the reference's (known findings apart)", nfail == 0, "%d failures" % nfail)
    ctx.coverage.update(evaluations=ncalls, sequences=len(data), distinct_nontrivial=len(distinct), op_histogram=dict(ops),
                        rule="handle-call sequences (read, read-at, seek x3 whences, write, write-at, write-string, truncate, sync, stat) on a file of 0/10/600/1500 bytes opened with 11 flag combinations, both write caches, record sizes 1/3/20; distinct = different call sequence",
                        samples=[dict(flags=next(c["flags"] for c in data[0]["h"]["calls"] if c["op"] == "open"), calls=[(c["op"], c.get("off"), c.get("n")) for c in data[0]["h"]["calls"][:10]])] if data else [])


def check_C16(ctx):
    import opening, collections
    ctx.trusted += M1_TRUST + ["what the indexer makes of a cut tape is Model/Prefix.v (tied by the C06 sweep); Initialize is Model/Fs.v fs_initialize (tied by the FS correspondence run)"]
    coq_props(ctx, "C16", ["C16_never_rewrites", "C16_existing_index_untouched", "C16_rebuild_appends_nothing", "C16_appends_only_without_root", "C16_rebuildable_tape", "C16_absent_index", "C16_current_index", "C16_current_index_root_kept", "C16_rebuilt_index", "C16_continue_current", "C16_continue_rebuilt", "C16_reopened_shows_the_same_tree", "C16_rebuilt_instance_is_related", "C16_rebuilt_instance_step", "C16_related_instances_show_the_same_tree", "C16_rebuilt_instance_simulates_writer", "C16_written_after_opening_survive_rebuild", "C16_rebuilt_instance_step_any_config", "C16_rebuilt_instance_simulates_writer_any_config", "C16_written_after_opening_survive_rebuild_any_config"])
    coq_props(ctx, "C16Transfer", ["C16_reader_C13", "C16_reader_C02", "C16_conforms_rd_step", "C16_abs_rd_lookup", "C16_reader_C04", "C16_transfer_C13", "C16_transfer_C02", "C16_transfer_C04", "C16_transfer_stat"])
    # the FS correspondence run ties fs_initialize / reopen
    import streams
    data_fs = streams.fs_stream(ctx)
    diff = fs_differential(ctx, data_fs)
    ctx.oblige("correspondence: M1 (incl. Initialize and reopen) and the implementation agree on every compared call (%d histories)" % diff["cases"], diff["ok"] and not diff["mm"], json.dumps(diff["mm"][:5]))
    data = opening.opening_stream(ctx)
    nfail = 0
    kinds = collections.Counter()
    for d in data:
        kinds[(d["h"]["cutkind"], d["h"]["index"])] += 1
        for f in opening.c16_oracle(d):
            fid = opening.classify_c16(d, f)
            if fid and any(x["id"] == fid for x in ctx.findings):
                ctx.known(fid, next(x["what"] for x in ctx.findings if x["id"] == fid))
                continue
            nfail += 1
            if nfail <= 5:
                h = d["h"]
                ctx.violation(f["kind"], "%s (tape cut after %d of %d bytes, index %s)" % (f["kind"], h["cut"], h["full"], h["index"]),
                              dict(history=dict(config=h["config"], blobs=h["blobs"], calls=h["calls"]), cut_after_bytes=h["cut"], index=h["index"], detail=f["detail"]))
    ctx.oblige("oracle: opening never rewrites or shortens the tape, appends nothing when a root is on the tape, shows the rebuild's view, and entries written afterwards are retrievable and survive a rebuild (known findings apart)", nfail == 0, "%d failures" % nfail)
    ctx.coverage.update(evaluations=len(data), distinct_nontrivial=len(set((d["h"]["cut"], d["h"]["index"], json.dumps(d["h"]["calls"][:d["h"]["nbase"]])) for d in data)),
                        variants={"%s/%s" % k: v for k, v in kinds.items()},
                        rule="tapes of generated histories, cut at record/archive boundaries (aligned) and inside header groups / data (torn), combined with an absent, current or stale index; then Initialize, two writes, a read-back and a rebuild; distinct = different (tape, cut, index kind)",
                        samples=[dict(cut=data[0]["h"]["cut"], full=data[0]["h"]["full"], index=data[0]["h"]["index"], outcomes=[r["out"] for r in data[0]["res"]][-8:])] if data else [])
    # the continuation from a rebuilt index against its writer twin (statement of Proofs/T19 on the implementation + M1 tie of the reader)
    import twin
    twin.check_twin(ctx)


def check_C17(ctx):
    import foreign, collections
    ctx.trusted += M1_TRUST + ["afero.BasePathFs (prefixing and cleaning of caller spellings below a named root) and archive/tar as the foreign writer are trusted"]
    coq_props(ctx, "C17", ["C17_root_spellings", "C17_slash_spelling_empty_root", "C17_named_root_identity", "C17_demo", "C17_foreign_view", "C17_foreign_view_dotslash", "C17_foreign_view_slash", "C17_foreign_rows", "C17_foreign_listing", "C17_foreign_read", "C17_foreign_stat", "C17_foreign_walk", "C17_spellings_sanitize", "C17_spellings_resolve", "C17_root_spellings_resolve", "C17_named_base_path", "C17_mkdir_coexists", "C17_create_coexists", "C17_insert_view", "C17_foreign_simulates_twin", "C17_foreign_continuation", "C17_twin_is_the_tree", "C17_foreign_reference", "C17_twin_Good", "C17_named_top_simulates_twin", "C17_named_top_step", "C17_named_top_view", "C17_named_top_continuation", "C17_named_top_names", "C17_named_top_vs_foreign", "C17_named_top_reference"])
    coq_props(ctx, "C16Transfer", ["C17_foreign_C13", "C17_foreign_C02", "C17_foreign_C04", "C17_twin_Good4", "C17_twin_content", "C17_named_C13", "C17_named_C02", "C17_conforms_named_step", "C17_named_C04"])
    data = foreign.foreign_stream(ctx)
    tie = foreign.c17_tie(ctx, data)
    ctx.oblige("correspondence: the model's rebuild evaluates in Coq on the foreign archives", tie["ok"], tie["log"])
    ctx.oblige("correspondence: every row (stored names under each root style, positions, attributes) of the index rebuilt from a foreign archive agrees between model and implementation (%d archives)" % tie["cases"],
               tie["ok"] and not tie["bad"], json.dumps(tie["bad"][:5]))
    for k in tie["bad"][:3]:
        ctx.violation("correspondence", "index rebuilt from a foreign archive differs from the model", dict(job=data[k]["job"]), found_input=False)
    ctx.oblige("correspondence: the further calls on an opened foreign archive (styles ./ and /) evaluated on M1 from the rebuilt index leave the rows (names, kinds, sizes, modes, owners, tombstones) the implementation has (%d archives)" % tie.get("cases_after", 0),
               tie["ok"] and not tie.get("bad_after") and tie.get("cases_after", 0) > 0, json.dumps(tie.get("bad_after", [])[:5]))
    for k in tie.get("bad_after", [])[:3]:
        ctx.violation("correspondence", "index after further calls on a foreign archive differs from the model", dict(job=data[k]["job"]), found_input=False)
    nfail = 0
    combos = collections.Counter()
    for d in data:
        combos[(d["job"]["format"], d["job"]["style"])] += 1
        for f in foreign.c17_oracle(d):
            nfail += 1
            if nfail <= 5:
                ctx.violation(f["kind"], "%s (%s archive, members named below %r)" % (f["kind"], d["job"]["format"], d["job"]["style"]),
                              dict(job=d["job"], detail=f["detail"], how="stfsdrv foreign < job.json: writes the archive with archive/tar, opens it through cache.NewCacheFilesystem(stfs, root, none)"))
    ctx.oblige("oracle: every member is listed under its directory and reads back byte-identical, equivalent spellings resolve, later calls coexist with the original members and survive a rebuild", nfail == 0, "%d failures" % nfail)
    ctx.coverage.update(evaluations=len(data), distinct_nontrivial=len(set(json.dumps(d["job"], sort_keys=True) for d in data)),
                        format_style_histogram={"%s %s" % k: v for k, v in combos.items()},
                        rule="directory trees (depth <= 4, names incl. spaces, dots, non-ASCII, 60- and 120-byte components, contents 0..3000 bytes) written by archive/tar as ustar/PAX/GNU with the top entry ./, /, top/, 'a b/' or T/, record sizes 1/3/20; every format x style at least once",
                        samples=[dict(format=data[0]["job"]["format"], style=data[0]["job"]["style"], entries=[e["path"] for e in data[0]["job"]["entries"]][:8])] if data else [])


SYM_TRUST = ["primitive laws (wrap/unwrap, lock/unlock, sign/verify, enc/dec) are hypotheses of the theorems, visible in their statements; the real libraries (age, go-crypto/openpgp, gopenpgp, minisign) are tested against them by the sweep, not verified",
             "the symbolic glue model (Model/SymKeys.v) is tied to the source by the KeyGlue monitor over the regenerated skeleton"]


def check_C18(ctx):
    import crypto, collections
    ctx.trusted += M2_TRUST + SYM_TRUST
    coq_props(ctx, "C18", ["C18_age", "C18_pgp", "C18_minisign", "C18_pgp_old_refuted", "C18_glue_matches_source", "C18_glue_nonvacuous"])
    data = crypto.keys_stream(ctx)
    nfail, n = 0, 0
    kinds = collections.Counter()
    for r in data["results"]:
        if r["rc"] != 0:
            nfail += 1
            ctx.violation("key-sweep-crashed", "key sweep for %s exited with %s" % (r["job"], r["rc"]), dict(job=r["job"], stderr=r["err"]))
        for x in r["out"]:
            n += 1
            kinds[x["kind"]] += 1
            if not x["ok"]:
                nfail += 1
                if nfail <= 5:
                    ctx.violation(x["kind"], "%s fails for format %s with password %r (%s)" % (x["kind"], x["format"], x["password"], x["detail"][:120]),
                                  dict(format=x["format"], password=x["password"], detail=x["detail"], how="stfsdrv keys: utility.Keygen -> keys.Parse* -> Encrypt/Decrypt, Sign/Verify"))
    ctx.oblige("key sweep: every generated pair parses and round-trips (strings and streams), parsing with any other password fails, independent pairs never decrypt/verify each other", nfail == 0, "%d failures" % nfail)
    ctx.coverage.update(evaluations=n, distinct_nontrivial=len(kinds) * len(data["passwords"]), check_kinds=dict(kinds), passwords=[repr(p)[:30] for p in data["passwords"]],
                        rule="formats {age, pgp} x {minisign, pgp}; passwords incl. empty, ASCII, multi-byte (thorough: long, blank, NUL-containing, random); two independently generated pairs per (format, password); wrong passwords incl. the empty one",
                        samples=[x for r in data["results"] for x in r["out"][:2]][:6])


def check_C08(ctx):
    import crypto, collections
    ctx.trusted += M2_TRUST + ["unforgeability of minisign / OpenPGP signatures is an assumption; that the callbacks passed at run time are the functions named at the call sites is by the Go type system"]
    coq_props(ctx, "C08", ["C08_verify_string", "C08_verify_header", "C08_verify_content", "C08_index_after_verify", "C08_fetch_after_verify",
                           "C08_callers_pass_the_verifier", "C08_sem", "C08_nonvacuous"])
    data = crypto.forge_stream(ctx)
    nfail, n = 0, 0
    kinds = collections.Counter()
    for d in data:
        for r in d["out"]:
            if "kind" in r:
                n += 1
                kinds[(r["kind"], str(r.get("index")))] += 1
        for f in crypto.c08_oracle(d):
            nfail += 1
            if nfail <= 5:
                ctx.violation(f["kind"], "%s (%s at %s, config %s)" % (f["kind"], f["detail"][0], f["pos"], json.dumps(d["job"]["history"]["config"])),
                              dict(job=dict(d["job"], flips=[f["pos"]] if f["detail"][0] == "flip" else [], maxflip=0), forgery=f["detail"][0], position=f["pos"], detail=f["detail"],
                                   how="stfsdrv forge < job.json: writes the tape with the history, forges it, runs recovery.Index(overwrite) with the real verifier and Fetch per row"))
    ctx.oblige("forgery stream: every header the indexer accepts on a forged tape is one the writer signed, every content Fetch returns without error is one signed under that header; structured forgeries are rejected; untouched and re-encoded tapes are accepted", nfail == 0, "%d failures" % nfail)
    ctx.coverage.update(evaluations=n, configs=len(data), distinct_nontrivial=len(kinds), forgery_histogram={"%s -> %s" % k: v for k, v in kinds.items()},
                        exhaustive=(ctx.tier == "thorough"),
                        rule="tapes written under {minisign, pgp} x {none, age, pgp} (x {none, gzip} thorough); single-byte alterations (quick: 80 sampled positions per tape; thorough: every byte) and structured forgeries per record: edited embedded header with kept / removed / empty / non-base64 / garbage / other-data / other-record / second-key signature, altered content, appended unsigned record; controls: untouched, rewritten, re-encoded signature",
                        samples=[dict(config=data[0]["job"]["history"]["config"], results=[(r.get("kind"), r.get("pos"), r.get("index")) for r in data[0]["out"][2:8]])] if data else [])


def check_C09(ctx):
    import crypto, collections
    ctx.trusted += M2_TRUST + ["secrecy of age / OpenPGP ciphertexts is an assumption; the skeleton shows the order and presence of the wrapper calls, not that the encryptor's sink is the tar writer"]
    coq_props(ctx, "C09", ["C09_headers_wrapped", "C09_only_the_operations_write_headers", "C09_sem", "C09_nonvacuous"])
    data = crypto.markers_stream(ctx)
    nfail, n = 0, 0
    cfgs = collections.Counter()
    for d in data:
        c = d["job"]["history"]["config"]
        cfgs["%s/%s/%s" % (c["enc"], c["comp"] or "-", c["sig"] or "-")] += 1
        n += len([r for r in d["out"] if "i" in r])
        for f in crypto.c09_oracle(d):
            nfail += 1
            if nfail <= 5:
                ctx.violation(f["kind"], "%s after call %s under %s" % (f["kind"], f["i"], json.dumps(c)), dict(job=d["job"], failing_call=f["i"], detail=f["detail"],
                              how="stfsdrv markers < job.json: runs the calls, then searches the raw drive file for every marker (raw, base64 x3 alignments, hex) and the STFS record keys"))
    ctx.oblige("marker scan: after every call the raw tape contains no planted name/content marker (raw, base64, hex), no STFS record key and no owner name; neither rebuild nor fetch succeeds with an unrelated identity", nfail == 0, "%d failures" % nfail)
    ctx.coverage.update(evaluations=n, configs=len(data), distinct_nontrivial=len(cfgs), config_histogram=dict(cfgs),
                        rule="histories whose directory names, file names and contents embed fresh 15-character markers; {age, pgp} x compression x signature configurations (quick: 3 per cipher; thorough: all 36); raw tape scanned after every call",
                        samples=[dict(config=data[0]["job"]["history"]["config"], markers=data[0]["job"]["markers"], scans=[(r.get("op"), r.get("found")) for r in data[0]["out"][:5]])] if data else [])


def check_C03(ctx):
    import crypto, collections
    ctx.trusted += M2_TRUST + ["Section hypotheses of C03_content_roundtrip: each decompressor inverts its compressor at every level, each decryptor inverts its encryptor under the matching key (properties of klauspost/compress, pgzip, lz4, zstd, brotli, bzip2, age, go-crypto; validated, not proved, by running the real codecs over the configuration matrix)",
                            "the suffix tables of Gen/Consts.v are extracted by goskel from the switch statements of internal/suffix (one row per case label, fallthrough merged); strings.TrimSuffix is modelled by trim_suffix"]
    coq_props(ctx, "C03", ["C03_suffix_roundtrip", "C03_unknown_format_refused", "C03_unencoded_names_refuted", "C03_indexed_names", "C03_write_order", "C03_read_order",
                           "C03_write_order_sem", "C03_read_order_sem", "C03_order_nonvacuous", "C03_content_roundtrip"])
    data = crypto.matrix_stream(ctx)
    nfail, n = 0, 0
    cfgs, sizes, kinds = collections.Counter(), collections.Counter(), collections.Counter()
    for d in data:
        c = d["h"]["config"]
        cfgs["%s-%s/%s/%s rs=%s %s" % (c["comp"] or "none", c["level"], c["enc"] or "-", c["sig"] or "-", c["rs"], c["cache"])] += 1
        for b in d["h"]["blobs"]:
            sizes[b["len"]] += 1
            kinds[b.get("kind") or "random"] += 1
        n += len([x for x in d["h"]["calls"] if x.get("tag")])
        for f in crypto.c03_oracle(d):
            nfail += 1
            if nfail <= 5:
                ctx.violation(f["kind"], "%s for %s under %s" % (f["kind"], f["name"], json.dumps(c)), dict(history=d["h"], failing=f,
                              how="stfsdrv run < history.json (the history carries the configuration); compare the tagged readfile/stat/restore results and the final fetch/tree observation with history.expect"))
    ctx.oblige("configuration matrix: every file written (through the filesystem, a batched Archive, an Update) is read back byte-exactly through File.Read after reopen, Operations.Restore and Fetch by position; Stat size = content length; names that end in codec suffixes survive create/chmod/rename/rebuild", nfail == 0, "%d failures" % nfail)
    cdata = crypto.codec_stream(ctx)
    cres, cfail = collections.Counter(), 0
    for d in cdata:
        for r in d["out"]:
            res = r.get("result", "")
            cres["ok" if res == "ok" else res[:70]] += 1
        for f in crypto.codec_oracle(d):
            cfail += 1
            if cfail <= 5:
                ctx.violation(f["kind"], "codec pipeline %s: %s" % (f["name"], f["detail"][0][:200]), dict(job=d["job"], failing=f,
                              how="stfsdrv codec < job.json: sign -> compress -> encrypt into a buffer with the drive-kind flag as given, then decrypt -> decompress -> verify, compare"))
    ctx.oblige("codec interfaces with the drive-kind flag in both positions: every combination either is refused at set-up (regular-only formats, record size too small) or returns exactly what was written", cfail == 0, "%d failures" % cfail)
    n += sum(cres.values())
    ctx.coverage.update(codec_results=dict(cres))
    ctx.coverage.update(evaluations=n, configs=len(data), distinct_nontrivial=len(cfgs), config_histogram=dict(cfgs), size_histogram={str(k): v for k, v in sorted(sizes.items())}, kind_histogram=dict(kinds),
                        rule="quick: 16 configurations covering every compression format, level, encryption and signature format at least once; thorough: all 8x3x3x3 = 216; record size and write cache drawn per configuration; sizes {0,1,511,512,513,record+-1,3 records+5}, bytes {LCG random, zeros, text}",
                        samples=[dict(config=data[0]["h"]["config"], calls=len(data[0]["h"]["calls"]))] if data else [])


def check_C11(ctx):
    import conc, collections, hist, streams
    from vlib import load_findings
    ctx.trusted += M2_TRUST + M1_TRUST + ["the step from per-method atomicity (M2 monitor Atomic) to the abstract machine of Proofs/Conc.v -- that a method's critical section, given exclusive access to the shared state, acts as M1's step -- rests on the sequential M1 correspondence; it is re-checked on the linearizations the concurrent harness finds",
                                        "data-race freedom is tested with the Go race detector on the concurrent runs, not proved; the Go scheduler is perturbed by yields and sleeps at the drive, index-store and write-cache seams (a sample of schedules)",
                                        "the linearizability search uses the implementation run sequentially as the executable specification (tied to M1 by the differential runs of C01/C02) and is bounded to 120 candidate orders per run"]
    coq_props(ctx, "C11", ["C11_lock_order", "C11_lock_order_sem", "order_link", "C11_atomic", "C11_atomic_sem", "C11_prelock_reads_exact", "C11_single_section_exact", "C11_index_store_single_connection",
                           "C11_monitors_nonvacuous", "C11_no_deadlock_among_locks", "C11_m1_linearizable", "C11_m1_final_is_sequential", "C11_stream_refuted"])
    known = {f["id"]: f for f in load_findings("C11")}
    data = conc.conc_stream(ctx)
    st = collections.Counter()
    nthreads, ops = collections.Counter(), collections.Counter()
    nfail, ncalls, tried = 0, 0, collections.Counter()
    for d in data:
        j = d["job"]
        st["%s:%s" % (j["klass"], d["status"])] += 1
        nthreads[len(j["threads"])] += 1
        ncalls += d["ncalls"]
        for t in j["threads"]:
            for c in t:
                ops[c["op"]] += 1
        if d["status"] == "ok":
            tried[d["detail"]["tried"]] += 1
            continue
        if d["status"] == "inconclusive":
            # the bounded search did not find a matching order and could not try them all: no verdict (never an alarm)
            ctx.note("linearizability search inconclusive for a program of %d threads / %d calls after %d candidate orders" % (len(j["threads"]), d["ncalls"], d["detail"].get("tried", 0)))
            continue
        reader = any(c["op"] == "read" for t in j["threads"] for c in t)
        if d["status"] == "hang" and reader and "C10-read-goroutine" in known:
            # input-side signature: some thread reads through a handle while other threads are active
            ctx.known("C10-read-goroutine", known["C10-read-goroutine"]["what"])
            continue
        nfail += 1
        if nfail <= 5:
            ctx.violation("concurrent-" + d["status"], "%d threads, %d calls: %s" % (len(j["threads"]), d["ncalls"], d["status"]),
                          dict(job=j, status=d["status"], detail=d["detail"], records=d.get("recs"),
                               how="stfsdrv conc < job.json runs job.threads as goroutines on one instance after job.setup (scheduler perturbed from job.seed at the seams); every call is stamped at invocation and return; lib/conc.py check_linearizable replays candidate sequential orders with stfsdrv run"))
    # witness of the known finding, replayed on every run: a read handle is left mid-stream, two writers start
    wj = dict(config={"rs": 20, "cache": "file"}, blobs=[{"seed": 1, "len": 1500}], seed=1, tmo=3000, obs=["tree"], klass="reads",
              setup=[{"op": "initialize"}, {"op": "createfile", "name": "/f", "blob": 0}, {"op": "open", "h": "w", "name": "/f", "flags": 0, "perm": 0}, {"op": "read", "h": "w", "n": 2}],
              threads=[[{"op": "mkdir", "name": "/q0", "perm": 493}], [{"op": "mkdir", "name": "/q1", "perm": 493}, {"op": "close", "h": "w"}]])
    wst, wdetail = conc.check_linearizable(wj, conc.run_conc(wj))
    if wst == "hang":
        if "C10-read-goroutine" in known:
            ctx.known("C10-read-goroutine", known["C10-read-goroutine"]["what"])
        else:
            nfail += 1
            ctx.violation("concurrent-hang", "writers started while a read handle is mid-stream never return", dict(job=wj, detail=wdetail))
    elif "C10-read-goroutine" in known:
        ctx.note("finding-not-reproduced: C10-read-goroutine witness (two writers while a read handle is mid-stream) returned: %s" % wst)
    ctx.oblige("concurrent runs: every call returns (no hang, no panic), outcomes and final tree equal those of a sequential order that respects real-time order, and the final tree is reproduced by a rebuild from the tape (%d programs, %d calls)" % (len(data), ncalls), nfail == 0, "%d failures" % nfail)
    # M1 on the linearizations found (filesystem-level programs)
    tie, p = streams.cache_get(ctx, "conctie")
    if tie is None:
        hs = []
        for d in data:
            if d["status"] == "ok" and d["job"]["klass"] == "fs":
                h = dict(d["detail"]["seq"])
                h["obs"] = streams.FS_OBS
                # Stat changes nothing and is not a call of M1 (its answers are the visible tree M1 is compared on)
                h["calls"] = [dict(c) for c in h["calls"][:-1] if c["op"] != "stat"]
                for c in h["calls"]:
                    c.pop("obs", None)
                hs.append(h)
        res = hist.run_many(hs)
        terms = []
        for h, (r, rc, err) in zip(hs, res):
            t = hist.emit_case(h, r, hist.identity_of(r)) if rc == 0 else None
            if t:
                terms.append(t)
        ok, mm, lg = hist.coq_mismatches(terms, "conc%d" % ctx.seed) if terms else (True, [], "")
        tie = dict(ok=ok, mm=mm, log=lg[-1500:], cases=len(terms), wanted=len(hs))
        streams.cache_put(p, tie)
    ctx.oblige("correspondence: M1 evaluated in Coq on the linearizations found agrees with the sequential implementation run (%d of %d linearizations comparable)" % (tie["cases"], tie["wanted"]),
               tie["ok"] and not tie["mm"] and tie["cases"] >= tie["wanted"] * 0.8, json.dumps(tie["mm"][:3]) + tie["log"][-600:])
    # race detector
    race, p2 = streams.cache_get(ctx, "concrace")
    if race is None:
        from vlib import sh
        import os
        rc, out = sh("go build -race -tags verif -o %s-race ./cmd/stfsdrv" % hist.STFSDRV, cwd=os.path.join(V, "harness"), timeout=1500)
        race = dict(built=rc == 0, log=out[-800:], runs=0, races=0, text="")
        if rc == 0:
            jobs = [d["job"] for d in data if d["job"]["klass"] != "reads"]
            jobs = jobs[:10] if ctx.tier == "quick" else jobs
            from concurrent.futures import ThreadPoolExecutor
            with ThreadPoolExecutor(max_workers=6) as ex:
                rr = list(ex.map(lambda j: conc.run_conc(j, race=True, timeout=300), jobs))
            race.update(runs=len(rr), races=sum(r["races"] for r in rr), text=next((r["race_text"] for r in rr if r["races"]), ""),
                        job=next((j for j, r in zip(jobs, rr) if r["races"]), None))
        streams.cache_put(p2, race)
    ctx.oblige("race detector: the harness builds with -race and reports no data race on the concurrent programs (%d runs)" % race["runs"], race["built"] and race["races"] == 0, race["log"] + race["text"][:1500])
    if race.get("races"):
        ctx.violation("data-race", "the Go race detector reports %d data race(s)" % race["races"], dict(job=race.get("job"), report=race["text"][:4000], how="stfsdrv-race conc < job.json (go build -race)"))
    ctx.coverage.update(evaluations=ncalls, configs=len(data), distinct_nontrivial=sum(1 for d in data if d["status"] == "ok" and d["ncalls"] >= 4), status_histogram=dict(st),
                        threads_histogram={str(k): v for k, v in sorted(nthreads.items())}, op_histogram=dict(ops), orders_tried_until_match={str(k): v for k, v in sorted(tried.items())},
                        race_runs=race["runs"], m1_linearizations=tie["cases"],
                        rule="client programs of 2..8 goroutines over shared (/s, /s/x, /t, /u) and private paths: whole-filesystem calls; handle calls (open/write/close); handle reads (known finding); every random choice from seed %d" % ctx.seed,
                        samples=[dict(threads=data[0]["job"]["threads"], status=data[0]["status"])] if data else [])


REGISTRY = {"C11": check_C11, "C03": check_C03, "C09": check_C09, "C08": check_C08, "C18": check_C18, "C17": check_C17, "C16": check_C16, "C14": check_C14, "C07": check_C07, "C06": check_C06, "C10": check_C10, "C15": check_C15, "C01": check_C01, "C02": check_C02, "C04": check_C04, "C05": check_C05,
            "C12": check_C12, "C13": check_C13}
