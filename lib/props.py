"""Per-property checks. Each function fills a Ctx (obligations, violations, coverage)."""
import json, os, re
from vlib import *

M2_TRUST = [
    "translator goskel (harness/cmd/goskel, ~1000 lines of Go): the emitted skeleton over-approximates the control flow of the current source; unknown callees may fail or succeed; conditions that are not recognised atoms are nondeterministic",
    "hand-written primitives for pkg/tape/manager.go (GetWriter/GetReader lock the drive and release it on error, Close releases it); tied to the code by the fault-enumeration run",
    "the theorem quantifies over complete paths of the skeleton; every loop has an exit (checked: C10_loops_exit)",
    "termination of library calls and of loops over external data is assumed",
]


def coq_props(ctx, module, theorems, findings_module=None, extra=()):
    ok_gen, _ = regen(ctx)
    targets = ["Props/%s.vo" % module] + ["Props/%s.vo" % m for m in extra]
    if findings_module:
        targets.append("Props/%s.vo" % findings_module)
    res = coq_targets(ctx, targets)
    ok, log = res["Props/%s.vo" % module]
    tail = ""
    if not ok:
        m = re.search(r'File "\./Props/%s\.v", line (\d+).*?\n(.*?)(?:\n\n|make)' % module, log, re.S)
        tail = (m.group(0) if m else log[-1500:])
    for t in theorems:
        ctx.oblige("theorem %s.%s (machine-checked over the regenerated/current model)" % (module, t), ok, tail)
    for m in extra:
        ctx.oblige("module Props/%s compiles" % m, res["Props/%s.vo" % m][0], "")
    if ok:
        closed, out = print_assumptions(ctx, module, theorems)
        ctx.oblige("Print Assumptions: closed under the global context for every theorem of %s" % module, closed, out[-1000:])
    if findings_module and not res["Props/%s.vo" % findings_module][0] and ok:
        ctx.note("finding-not-reproduced: Props/%s.v no longer compiles on the current source (refutation witnesses of known findings)" % findings_module)
    grep_gate(ctx)
    return ok


def check_C10(ctx):
    ctx.trusted += M2_TRUST
    ok = coq_props(ctx, "C10", ["C10_all_paths", "C10_all_paths_sem", "C10_loops_exit", "C10_nonvacuous"], "C10_findings")
    import drv
    drv.faults_C10(ctx, proof_ok=ok)


def check_C15(ctx):
    ctx.trusted += M2_TRUST
    ok = coq_props(ctx, "C15", ["C15_mutators_refuse", "C15_stfs_quiet", "C15_file_quiet", "C15_file_mutators_refuse",
                                "C15_openfile_grants_nothing", "C15_flags_only_in_openfile", "C15_sem", "C15_nonvacuous"])
    import drv
    drv.readonly_C15(ctx, proof_ok=ok)


REGISTRY = {"C10": check_C10, "C15": check_C15}
