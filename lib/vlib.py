"""Shared machinery of ./check: regeneration, Coq build, gates, evidence, findings."""
import argparse, fcntl, hashlib, json, os, re, subprocess, sys, time

V = os.path.dirname(os.path.dirname(os.path.abspath(__file__)))
REPO = os.environ.get("REPO", "/repo")
COQ = os.path.join(V, "coq")
WORK = os.path.join(V, ".work")
ENV = dict(os.environ, GOFLAGS="-mod=mod", GOPROXY="off", GOSUMDB="off", GOTOOLCHAIN="local",
           CARGO_NET_OFFLINE="true", PIP_NO_INDEX="1")

TRUSTED_BASE_COMMON = [
    "Coq 8.16.1 kernel and coqc; vm_compute (no native_compute)",
    "Print Assumptions output recorded below (axioms: none unless listed)",
]


def sh(cmd, cwd=V, timeout=3600, env=None, inp=None):
    p = subprocess.run(cmd, cwd=cwd, shell=isinstance(cmd, str), stdout=subprocess.PIPE, stderr=subprocess.STDOUT,
                       timeout=timeout, env=env or ENV, input=inp, text=True)
    return p.returncode, p.stdout


class Ctx:
    def __init__(self, pid, tier, seed):
        self.pid, self.tier, self.seed = pid, tier, seed
        self.t0 = time.time()
        self.obligations = []       # (name, ok, detail)
        self.violations = []        # dicts written as replay files
        self.known_hits = {}        # finding id -> description
        self.notes = []
        self.coverage = {}
        self.assumptions = []
        self.trusted = list(TRUSTED_BASE_COMMON)
        self.findings = load_findings(pid)

    def oblige(self, name, ok, detail=""):
        self.obligations.append((name, bool(ok), detail))

    def note(self, s):
        self.notes.append(s)
        print("NOTE " + s, flush=True)

    def known(self, fid, what):
        if fid not in self.known_hits:
            self.known_hits[fid] = what

    def violation(self, kind, what, replay, found_input=True):
        self.violations.append(dict(kind=kind, what=what, replay=replay, found_input=found_input))


def load_findings(pid):
    p = os.path.join(V, "known_findings.json")
    if not os.path.exists(p):
        return []
    return [f for f in json.load(open(p))["findings"] if pid in f["properties"] and f.get("status", "open") == "open"]


# ---------------------------------------------------------------- build steps

_lock = None


def take_lock():
    global _lock
    os.makedirs(WORK, exist_ok=True)
    _lock = open(os.path.join(WORK, "lock"), "w")
    fcntl.flock(_lock, fcntl.LOCK_EX)


def regen(ctx):
    rc, out = sh([os.path.join(V, "tools", "gen.sh")], timeout=600)
    ctx.oblige("translator goskel ran on the current /repo sources (0 unsupported statements)", rc == 0, out[-2000:])
    return rc == 0, out


def coq_targets(ctx, targets, timeout=2400):
    """Build the given .vo targets (full build, never -vos). Returns {target: (ok, log)}."""
    res = {}
    rc, out = sh([os.path.join(V, "tools", "coqbuild.sh"), "-k"] + targets, timeout=timeout)
    for t in targets:
        # up to date with respect to every prerequisite (a stale .vo left by a failed rebuild does not count)
        qrc, _ = sh(["make", "-q", t], cwd=COQ, timeout=300)
        res[t] = (qrc == 0 and os.path.exists(os.path.join(COQ, t)), out)
    return res


def print_assumptions(ctx, module, theorems):
    os.makedirs(WORK, exist_ok=True)
    f = os.path.join(WORK, "PA_%s.v" % module)
    with open(f, "w") as h:
        h.write("From STFS Require Import %s.\n" % module)
        for t in theorems:
            h.write("Print Assumptions %s.\n" % t)
    rc, out = sh("coqc -Q Skel STFS -Q Gen STFS -Q Mon STFS -Q Model STFS -Q Proofs STFS -Q Props STFS %s" % f, cwd=COQ, timeout=600)
    for ext in (".vo", ".vok", ".vos", ".glob"):
        try:
            os.remove(f[:-2] + ext)
        except OSError:
            pass
    try:
        os.remove(os.path.join(WORK, ".PA_%s.aux" % module))
    except OSError:
        pass
    blocks = [b.strip() for b in re.split(r"(?=Closed under the global context|Axioms:)", out) if b.strip()]
    closed = rc == 0 and len(blocks) == len(theorems) and all(b.startswith("Closed under") for b in blocks)
    ctx.assumptions = ["%s: %s" % (t, " ".join(b.split())) for t, b in zip(theorems, blocks)] if rc == 0 else ["coqc failed: " + out[-500:]]
    return closed, out


def coqchk_module(ctx, module, timeout=2700):
    """Thorough tier: the independent checker re-checks the compiled property file and everything it depends on and
    lists the axioms they rely on."""
    rc, out = sh("timeout %d coqchk -silent -o -Q Skel STFS -Q Gen STFS -Q Mon STFS -Q Model STFS -Q Proofs STFS -Q Props STFS STFS.%s" % (timeout, module),
                 cwd=COQ, timeout=timeout + 60)
    if rc == 124:
        ctx.note("coqchk did not finish on STFS.%s within %d s (the kernel build and Print Assumptions stand)" % (module, timeout))
        return None
    ok = rc == 0 and re.search(r"Axioms:\s*<none>", out) is not None and "type-in-type: <none>" in out
    ctx.oblige("coqchk (independent checker) accepts STFS.%s and its dependencies: no axioms, no type-in-type, no unsafe fixpoints, no assumed positivity" % module, ok, out[-1500:])
    ctx.assumptions.append("coqchk -o STFS.%s: %s" % (module, " ".join(out[out.find("CONTEXT SUMMARY"):].split())[:400]))
    return ok


GATE = re.compile(r"\b(Admitted|admit|Axiom|Axioms|Parameter|Parameters|Conjecture|Admit Obligations)\b|Unset Guard Checking|bypass_check|-type-in-type|-impredicative-set|Unset Positivity|Unset Universe Checking")


def grep_gate(ctx):
    bad = []
    for root, _, files in os.walk(COQ):
        if os.path.basename(root) in ("Gen", "Cases"):
            continue
        for fn in files:
            if not fn.endswith(".v"):
                continue
            p = os.path.join(root, fn)
            txt = open(p).read()
            txt = re.sub(r"\(\*.*?\*\)", "", txt, flags=re.S)
            for m in GATE.finditer(txt):
                bad.append("%s: %s" % (os.path.relpath(p, V), m.group(0)))
    # top-level Variable/Hypothesis outside sections: every Variable must be inside a Section
    ctx.oblige("no Admitted/admit/Axiom/Parameter/Conjecture/guard switches in coq/ (grep gate)", not bad, "; ".join(bad[:10]))
    return not bad


def repo_tree_hash():
    rc, out = sh("git -C %s rev-parse HEAD; git -C %s diff HEAD | sha256sum" % (REPO, REPO))
    return hashlib.sha256(out.encode()).hexdigest()[:16]


# ---------------------------------------------------------------- reporting

def finish(ctx):
    os.makedirs(os.path.join(V, "evidence"), exist_ok=True)
    os.makedirs(os.path.join(V, "replays"), exist_ok=True)
    for fid, what in sorted(ctx.known_hits.items()):
        print("KNOWN-FINDING: property=%s %s: %s" % (ctx.pid, fid, what), flush=True)
    failed_obl = [o for o in ctx.obligations if not o[1]]
    concrete = [v for v in ctx.violations if v["found_input"]]
    rc = 0
    lines = []
    if concrete:
        for i, v in enumerate(concrete[:5]):
            path = os.path.join(V, "replays", "%s-%s-%d%s.json" % (ctx.pid, ctx.seed, i, "-replayed" if getattr(ctx, "replay", None) else ""))
            json.dump(dict(property=ctx.pid, kind=v["kind"], what=v["what"], replay=v["replay"],
                           broken_obligations=[o[0] for o in failed_obl]), open(path, "w"), indent=1)
            lines.append("VIOLATION property=%s replay=%s" % (ctx.pid, path))
        rc = 1
    elif failed_obl or ctx.violations:
        path = os.path.join(V, "replays", "%s-%s-obligation%s.json" % (ctx.pid, ctx.seed, "-replayed" if getattr(ctx, "replay", None) else ""))
        json.dump(dict(property=ctx.pid, kind="proof-or-correspondence-broken",
                       broken_obligations=[dict(name=o[0], detail=o[2][-3000:]) for o in failed_obl],
                       unconfirmed=[v for v in ctx.violations],
                       note="no concrete failing input was found on the implementation within this tier's budget"),
                  open(path, "w"), indent=1)
        lines.append("VIOLATION property=%s replay=%s no-failing-input-found" % (ctx.pid, path))
        rc = 1
    cov = dict(ctx.coverage)
    cov.update(
        obligations=len(ctx.obligations),
        discharged=len([o for o in ctx.obligations if o[1]]),
        checker_cmd="tools/gen.sh && tools/coqbuild.sh Props/%s.vo (coqc 8.16.1, full .vo build) + ./check %s --tier %s" % (ctx.pid, ctx.pid, ctx.tier),
        trusted_base=ctx.trusted,
        obligation_list=[dict(name=o[0], ok=o[1]) for o in ctx.obligations],
        print_assumptions=ctx.assumptions,
        known_findings_hit=sorted(ctx.known_hits.keys()),
        notes=ctx.notes,
    )
    ev = dict(property_id=ctx.pid, tier=ctx.tier, seed=ctx.seed, level="proof", coverage=cov,
              assumptions=ctx.trusted, wall_s=round(time.time() - ctx.t0, 2), violations=len(lines),
              repo_tree=repo_tree_hash())
    if getattr(ctx, "replay", None):
        # a replay re-runs the recorded input only: it neither replaces the evidence of the last full run nor claims coverage
        for l in lines:
            print(l, flush=True)
        print("REPLAY property=%s file=%s %s" % (ctx.pid, ctx.replay, "reproduced" if rc else "not reproduced on the current tree"))
        sys.exit(rc)
    json.dump(ev, open(os.path.join(V, "evidence", ctx.pid + ".json"), "w"), indent=1)
    for l in lines:
        print(l, flush=True)
    if rc == 0:
        print("OK property=%s tier=%s obligations=%d wall=%.1fs" % (ctx.pid, ctx.tier, len(ctx.obligations), time.time() - ctx.t0))
    sys.exit(rc)


def main():
    ap = argparse.ArgumentParser()
    ap.add_argument("pid")
    ap.add_argument("--tier", default=os.environ.get("VERIF_TIER", "quick"))
    ap.add_argument("--replay")
    ap.add_argument("--seed", type=int, default=None, help="PRNG seed of the generated streams (default: $VERIF_SEED or 1)")
    a = ap.parse_args()
    if a.tier not in ("quick", "thorough"):
        a.tier = "quick"
    seed = int(os.environ.get("VERIF_SEED", "1") or 1)
    if a.seed is not None:
        seed = a.seed
    import props
    if a.pid not in props.REGISTRY:
        print("unknown property " + a.pid)
        sys.exit(2)
    take_lock()
    ctx = Ctx(a.pid, a.tier, seed)
    ctx.replay = a.replay
    try:
        props.REGISTRY[a.pid](ctx)
    except subprocess.TimeoutExpired as e:
        ctx.oblige("check completed within its time limit", False, str(e))
    finish(ctx)
