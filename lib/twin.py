"""C16 twin stream: the statement of Proofs/T19 (an instance that continues from a REBUILT index behaves like the instance that wrote
the tape) checked on the implementation, and the reader's run tied to M1.

Every history h is split at a point k. The WRITER runs h on one instance. The READER runs h[:k], then switches to a fresh index that
STFS.Initialize rebuilds from the tape, then runs h[k:]. From k on, outcome, visible tree and tape length of every call must agree."""
import collections, json, random
import hist, streams, oracles
from vlib import *

OBS = ["rows", "tree", "tape"]


def twin_jobs(ctx):
    quick = ctx.tier == "quick"
    rng = random.Random(ctx.seed * 977 + 31)
    jobs = []
    for i in range(30 if quick else 300):
        rs = rng.choice([1, 3, 20])
        g = hist.Gen(random.Random(rng.random()), rs, alpha=hist.ALPHA[:10] + ["x.gz", "a_"], max_calls=12 if quick else 24, ops_level=False)
        h = g.history({"rs": rs, "cache": "file"}, OBS)
        if not g.blobs:
            g.blobs.append({"seed": 1, "len": 10})
            h["blobs"] = g.blobs
        calls = h["calls"]
        if len(calls) < 4:
            continue
        k = rng.randint(2, len(calls) - 1)
        tail = list(calls[k:])
        jobs.append(dict(h, calls=calls[:k] + tail, k=k))
    # directed: everything below the root removed through the rebuilt index, then the names used again (the root itself goes too:
    # outside the hypotheses of the theorems and of the model tie, judged against the writer twin only)
    for rs in (20, 3):
        jobs.append({"config": {"rs": rs, "cache": "file"}, "blobs": [{"seed": 1, "len": 10}, {"seed": 2, "len": 700}], "obs": OBS, "k": 4, "_nomodel": True,
                     "calls": [{"op": "initialize"}, {"op": "mkdir", "name": "/a", "perm": 0o755}, {"op": "createfile", "name": "/a/f", "blob": 0}, {"op": "createfile", "name": "/g", "blob": 1},
                               {"op": "removeall", "name": "/"}, {"op": "chmod", "name": "/a", "perm": 0o700}, {"op": "initialize"}, {"op": "mkdir", "name": "/a", "perm": 0o755},
                               {"op": "createfile", "name": "/a/f", "blob": 1}, {"op": "rename", "name": "/a", "name2": "/b"}]})
    return jobs


def twin_stream(ctx):
    data, p = streams.cache_get(ctx, "twin")
    if data is not None:
        return data
    ok, out = hist.build_harness()
    if not ok:
        raise RuntimeError(out[-1500:])
    jobs = streams.replay_override(ctx, "history", twin_jobs(ctx), lambda h: dict(h, obs=OBS, k=h.get("k", max(1, len(h["calls"]) // 2)),
                                                                                   calls=[c for c in h["calls"] if c["op"] != "rebuild"]))
    writers = [dict(j) for j in jobs]
    readers = [dict(j, calls=j["calls"][:j["k"]] + [{"op": "rebuild"}] + j["calls"][j["k"]:]) for j in jobs]
    rw = hist.run_many(writers)
    rr = hist.run_many(readers)
    data = [dict(h=j, w=dict(res=a, rc=arc, err=ae[-500:]), r=dict(res=b, rc=brc, err=be[-500:]), reader=rd)
            for j, rd, (a, arc, ae), (b, brc, be) in zip(jobs, readers, rw, rr)]
    streams.cache_put(p, data)
    return data


def strip_now(tree):
    """modification times stamped from the wall clock differ between two runs: only times set by the history (Chtimes) are compared"""
    out = []
    for e in tree:
        e = dict(e)
        if isinstance(e.get("mtime"), int) and e["mtime"] > 1600000000 * 10**9:
            e["mtime"] = 0
        out.append(e)
    return out


def twin_oracle(d):
    h, k = d["h"], d["h"]["k"]
    w, r = d["w"], d["r"]
    if w["rc"] != 0 or r["rc"] != 0:
        return [dict(i=-1, kind="crash-or-hang", detail=[w["rc"], r["rc"], (r["err"] or w["err"])[-300:]])]
    fails = []
    n = len(h["calls"])
    if len(w["res"]) < n or len(r["res"]) < n + 1:
        return [dict(i=-1, kind="incomplete-run", detail=[len(w["res"]), len(r["res"]), n])]
    sw = r["res"][k]
    if sw["out"] != "ok":
        return [dict(i=k, kind="opening-with-a-rebuilt-index-failed", detail=[sw["out"], sw.get("err")])]
    for i in range(k, n):
        a, b = w["res"][i], r["res"][i + 1]
        if a["out"] != b["out"]:
            fails.append(dict(i=i, kind="outcome-differs-from-the-writer", detail=[h["calls"][i]["op"], h["calls"][i].get("name"), a["out"], b["out"], b.get("err")]))
            break
        oa, ob = a.get("obs") or {}, b.get("obs") or {}
        if oa.get("tape_len") != ob.get("tape_len"):
            fails.append(dict(i=i, kind="tape-length-differs-from-the-writer", detail=[h["calls"][i]["op"], oa.get("tape_len"), ob.get("tape_len")]))
            break
        dd = oracles.tree_diff(strip_now(oa.get("tree") or []), strip_now(ob.get("tree") or []))
        if dd:
            fails.append(dict(i=i, kind="tree-differs-from-the-writer", detail=[h["calls"][i]["op"], h["calls"][i].get("name")] + dd[:3]))
            break
    return fails


def classify_twin(d, f):
    """known finding, decided from the inputs: the root is removed after the switch, at or before the deviating call"""
    h, k, i = d["h"], d["h"]["k"], f["i"]
    if i < 0:
        return None
    for c in h["calls"][k:i + 1]:
        if c["op"] in ("remove", "removeall") and oracles.absname(c.get("name")) == "/":
            return "C16-root-removal-on-rebuilt-index"
    return None


def emit_reader_tie(h, results, ident):
    """Coq term: the reader's calls after the switch evaluated on M1 from (tape of the model's writer run, empty index) through
    fs_initialize, compared with the implementation's observations"""
    calls = h["calls"]
    sw = next((i for i, c in enumerate(calls) if c["op"] == "rebuild"), None)
    if sw is None or len(results) < len(calls):
        return None
    eh = hist.emit_hist(h, results, sw, ident)
    if eh is None:
        return None
    ccfg, h1, cn = eh
    uid, gid = ident[0], ident[1]
    fix = lambda t: t.replace('"UID"', str(uid)).replace("UID", str(uid)).replace("GID", str(gid))
    h2, obs = [], []
    o0 = results[sw - 1].get("obs") or {}
    prev_blocks = o0.get("tape_len", 0) // 512
    for i in range(sw, len(calls)):
        r = results[i]
        o = r.get("obs") or {}
        if "tape_len" not in o or o["tape_len"] % 512 != 0 or "rows" not in o or "tree" not in o:
            return None
        if i > sw:
            newm = [m for m in (o.get("members") or []) if m["start"] >= prev_blocks]
            now = -(i + 1)
            h2.append("(%s, {| ev_hb := %s; ev_enc := %s; ev_now := %s |})" % (
                hist.cq_call(h, calls[i], now), hist.cq_list([str(m["hb"]) for m in newm]), hist.cq_list([str(m["size"]) for m in newm if m["size"] > 0]), hist.cq_Z(now)))
        prev_blocks = o["tape_len"] // 512
        out = hist.OUTC.get(r["out"], "OOther 0")
        rows = hist.cq_list([hist.cq_row(x, cn) for x in o.get("rows", [])])
        view = hist.cq_list([hist.cq_entry(e, cn) for e in sorted(o.get("tree", []), key=lambda e: e["path"].encode())])
        obs.append("{| ob_out := %s; ob_rows := %s; ob_view := %s; ob_blocks := %d |}" % (out, rows, view, o["tape_len"] // 512))
    root = hist.cq_str(h["config"].get("root") or "/")
    term = ("(let c := %s in let s1 := final c init_sys %s in\n"
            "  let s0 := {| tp := tp s1; db := p_empty; hbq := []; encq := []; clk := clk s1 |} in let r := fs_initialize c s0 %s in\n"
            "  first_diff 0 (observe c (fst r) (snd r) :: run c (fst r) %s) %s)" % (ccfg, h1, root, hist.cq_list(h2), hist.cq_list(obs)))
    return fix(term)


def twin_tie(ctx, data):
    cached, p = streams.cache_get(ctx, "twintie")
    if cached is not None:
        return cached
    defs, idx = [], []
    for k, d in enumerate(data):
        if d["r"]["rc"] != 0 or d["h"].get("_nomodel"):
            continue
        t = emit_reader_tie(d["reader"], d["r"]["res"], hist.identity_of(d["r"]["res"]))
        if t:
            defs.append(t)
            idx.append(k)
    bad, okall, log = [], True, ""
    for a in range(0, len(defs), 30):
        ok, resd, lg = hist.coq_eval_list("From STFS Require Import Str Db Tape Index Ops Fs Diff.", defs[a:a + 30], "Twin_%d_%d" % (ctx.seed, a))
        okall = okall and ok
        log += lg[-600:]
        bad += [(idx[a + i], v.strip()[:80]) for i, v in resd.items() if v.strip() != "None"]
    cached = dict(ok=okall, bad=bad, cases=len(defs), log=log[-1200:])
    streams.cache_put(p, cached)
    return cached


def check_twin(ctx):
    data = twin_stream(ctx)
    tie = twin_tie(ctx, data)
    ctx.oblige("correspondence (rebuilt index): M1 evaluates in Coq on the reader runs", tie["ok"] and tie["cases"] > 0, tie["log"])
    ctx.oblige("correspondence (rebuilt index): M1 started from (tape, empty index) through Initialize and the implementation continuing from a rebuilt index agree on outcome, index rows, visible tree and tape length of every later call (%d of %d runs comparable)" % (tie["cases"], len(data)),
               tie["ok"] and not tie["bad"], json.dumps(tie["bad"][:5]))
    for (k, v) in tie["bad"][:3]:
        ctx.violation("correspondence", "model and implementation disagree on the continuation from a rebuilt index: first difference %s (call index counted from the switch; kind 1 outcome 2 rows 3 tree 4 tape length)" % v,
                      dict(history=data[k]["reader"], first_difference=v), found_input=False)
    nfail = 0
    kinds, ops = collections.Counter(), collections.Counter()
    for d in data:
        for c in d["h"]["calls"][d["h"]["k"]:]:
            ops[c["op"]] += 1
        for f in twin_oracle(d):
            fid = classify_twin(d, f)
            if fid and any(x["id"] == fid for x in ctx.findings):
                ctx.known(fid, next(x["what"] for x in ctx.findings if x["id"] == fid))
                continue
            nfail += 1
            kinds[f["kind"]] += 1
            if nfail <= 3:
                ctx.violation(f["kind"], "%s at call %d: the instance continuing from a rebuilt index does not behave like the one that wrote the tape" % (f["kind"], f["i"]),
                              dict(history=dict(d["h"], calls=d["h"]["calls"][:max(f["i"], 0) + 1] if f["i"] >= 0 else d["h"]["calls"]), switch_before_call=d["h"]["k"], failing_call=f["i"], detail=f["detail"],
                                   how="run the history on one instance (writer); run it again with {\"op\": \"rebuild\"} inserted before call k (reader); compare from k on"))
    ctx.oblige("oracle (T19 on the implementation): after switching to an index rebuilt from the tape every later call has the outcome, visible tree and tape length it has on the instance that wrote the tape (%d twin runs)" % len(data),
               nfail == 0, json.dumps(dict(kinds)))
    ctx.coverage.update(twin_runs=len(data), twin_calls_after_switch=dict(ops))
