"""C07 stream: replay of the whole tape into an index that reflects a prefix of it (or all of it)."""
import copy, json, random, collections
import hist, streams, oracles, prefix
from vlib import *


def directed_replay_histories():
    """Name-changing and name-reusing records followed by later records that touch the same entry (or its old name):
    every replay position then meets rows that later records have already shaped."""
    W = hist.O_WRONLY | hist.O_TRUNC
    laters = [[{"op": "chmod", "name": "N", "perm": 0o600}], [{"op": "writefile", "name": "N", "flags": W, "perm": 0o644, "blob": 1}],
              [{"op": "remove", "name": "N"}], [{"op": "chtimes", "name": "N", "atime": 1000, "mtime": 2000}, {"op": "createfile", "name": "O", "blob": 1}],
              [{"op": "rename", "name": "N", "name2": "/c.txt"}, {"op": "chmod", "name": "/c.txt", "perm": 0o640}],
              [{"op": "createfile", "name": "O", "blob": 1}, {"op": "chmod", "name": "O", "perm": 0o600}, {"op": "remove", "name": "N"}]]
    hs = []
    k = 0
    # a rename's target name later reused by an entry of the other kind (file -> directory and directory -> file)
    for a_kind in ("file", "dir"):
        mk = (lambda n: {"op": "createfile", "name": n, "blob": 0}) if a_kind == "file" else (lambda n: {"op": "mkdir", "name": n, "perm": 0o755})
        mk2 = (lambda n: {"op": "mkdir", "name": n, "perm": 0o700}) if a_kind == "file" else (lambda n: {"op": "createfile", "name": n, "blob": 1})
        calls = [{"op": "initialize"}, mk("/a"), {"op": "rename", "name": "/a", "name2": "/x"}, {"op": "remove", "name": "/x"}, mk2("/x"), {"op": "chmod", "name": "/x", "perm": 0o750}]
        hs.append({"config": {"rs": [20, 3][k % 2], "cache": "file"}, "blobs": [{"seed": 1, "len": 700}, {"seed": 2, "len": 10}], "obs": [], "calls": calls, "_directed": True})
        k += 1
    for setup, N, O in (
            ([{"op": "createfile", "name": "/a.txt", "blob": 0}, {"op": "rename", "name": "/a.txt", "name2": "/b.txt"}], "/b.txt", "/a.txt"),
            ([{"op": "createfile", "name": "/a.txt", "blob": 0}, {"op": "createfile", "name": "/b.txt", "blob": 1}, {"op": "rename", "name": "/a.txt", "name2": "/b.txt"}], "/b.txt", "/a.txt"),
            ([{"op": "createfile", "name": "/b.txt", "blob": 1}, {"op": "remove", "name": "/b.txt"}, {"op": "createfile", "name": "/a.txt", "blob": 0}, {"op": "rename", "name": "/a.txt", "name2": "/b.txt"}], "/b.txt", "/a.txt"),
            ([{"op": "mkdir", "name": "/d", "perm": 0o755}, {"op": "createfile", "name": "/d/f", "blob": 0}, {"op": "rename", "name": "/d", "name2": "/e"}], "/e/f", "/d"),
            ([{"op": "mkdir", "name": "/d", "perm": 0o755}, {"op": "createfile", "name": "/d/f", "blob": 0}, {"op": "removeall", "name": "/d"}, {"op": "mkdir", "name": "/d", "perm": 0o700}, {"op": "createfile", "name": "/d/f", "blob": 1}], "/d/f", "/d/g")):
        for later in laters:
            calls = [{"op": "initialize"}] + [dict(c) for c in setup]
            for c in later:
                c = dict(c)
                for key in ("name", "name2"):
                    if c.get(key) == "N":
                        c[key] = N
                    elif c.get(key) == "O":
                        c[key] = O
                calls.append(c)
            hs.append({"config": {"rs": [20, 3, 1][k % 3], "cache": "file"}, "blobs": [{"seed": 1, "len": 700}, {"seed": 2, "len": 10}], "obs": [], "calls": calls, "_directed": True})
            k += 1
    # short-lived entries: created and removed again, never written, never re-created (their tombstone keeps the position of the
    # delete record, their create record lies in front of it, possibly in the same tape record), with and without records in between
    WC = hist.O_WRONLY | hist.O_CREATE
    for mk in ({"op": "mkdir", "name": "/t", "perm": 0o755}, {"op": "createfile", "name": "/t", "blob": 2}, {"op": "writefile", "name": "/t", "flags": WC, "perm": 0o644, "blob": 2, "flag": False}):
        for mid in ([], [{"op": "chmod", "name": "/t", "perm": 0o700}], [{"op": "mkdir", "name": "/other", "perm": 0o755}, {"op": "createfile", "name": "/other/f", "blob": 0}]):
            for rs in (20, 3, 1):
                calls = [{"op": "initialize"}, {"op": "mkdir", "name": "/d", "perm": 0o755}, dict(mk)] + [dict(c) for c in mid] + \
                        [{"op": "remove", "name": "/t"}, {"op": "createfile", "name": "/d/a", "blob": 1}, {"op": "mkdir", "name": "/d/b", "perm": 0o700}]
                hs.append({"config": {"rs": rs, "cache": "file"}, "blobs": [{"seed": 1, "len": 700}, {"seed": 2, "len": 10}, {"seed": 3, "len": 0}], "obs": [], "calls": calls, "_directed": True})
    return hs


def replay_stream(ctx):
    data, p = streams.cache_get(ctx, "replay")
    if data is not None:
        return data
    ok, out = hist.build_harness()
    if not ok:
        raise RuntimeError(out[-1500:])
    quick = ctx.tier == "quick"
    rng = random.Random(ctx.seed * 977 + 1)
    bases = []
    for h in streams.corpus("replay"):
        bases.append(h)
    bases += directed_replay_histories()
    for i in range(10 if quick else 120):
        rs = rng.choice([1, 3, 20])
        g = hist.Gen(random.Random(rng.random()), rs, alpha=hist.ALPHA[:9], max_calls=9 if quick else 18, ops_level=(i % 3 == 0), malformed=0.05)
        bases.append(g.history({"rs": rs, "cache": "file"}, []))
    bases = streams.replay_override(ctx, "history", bases, lambda h: dict(h, calls=[{k: v for k, v in c.items() if k not in ("obs", "tag", "j")} for c in h["calls"]], obs=[]))
    ph1 = hist.run_many([dict(h, calls=h["calls"] + [{"op": "nop", "obs": ["tape"]}]) for h in bases])
    comps = []
    for h, (res, rc, err) in zip(bases, ph1):
        if rc != 0 or not res or "obs" not in res[-1]:
            comps.append(None)
            continue
        mem = res[-1]["obs"]["members"]
        ends = [(m["start"] + m["hb"]) * 512 + m["size"] for m in mem]
        js = sorted(set([0, len(ends)] + rng.sample(range(len(ends) + 1), min(len(ends) + 1, 3 if quick else 6))))
        calls = [dict(c, obs=["tape", "rows"]) for c in h["calls"]] + [{"op": "reindex", "flag": False, "obs": ["rows", "tree"], "tag": "live"}, {"op": "savedrive", "name": "A"}]
        for j in js:
            nj = ends[j - 1] if j > 0 else 0
            calls += [{"op": "loaddrive", "name": "A", "off": nj}, {"op": "newindex"}, {"op": "reindex", "flag": True, "tag": "prefix", "j": j},
                      {"op": "loaddrive", "name": "A", "off": -1}, {"op": "reindex", "flag": False, "obs": ["rows", "tree"], "tag": "replay", "j": j},
                      {"op": "reindex", "flag": False, "obs": ["rows"], "tag": "again", "j": j}]
        calls += [{"op": "loaddrive", "name": "A", "off": -1}, {"op": "newindex"}, {"op": "reindex", "flag": True, "obs": ["rows", "tree"], "tag": "scratch"}]
        comps.append(dict(h, calls=calls, nbase=len(h["calls"])))
    runs = hist.run_many([c for c in comps if c is not None], timeout=180)
    it = iter(runs)
    data = []
    for c in comps:
        if c is None:
            data.append(None)
        else:
            r, rc, err = next(it)
            data.append(dict(h=c, res=r, rc=rc, err=err[-600:]))
    streams.cache_put(p, data)
    return data


def c07_oracle(d):
    fails = []
    h, res = d["h"], d["res"]
    if d["rc"] != 0:
        return [dict(i=len(res), kind="crash-or-hang", detail=d["err"][-300:])]
    calls = h["calls"]
    scratch = next((r for r, c in zip(res, calls) if c.get("tag") == "scratch"), None)
    if scratch is None or scratch["out"] != "ok":
        # the base history itself left a tape that does not rebuild: not this property's business
        return []
    st = scratch["obs"]["tree"]
    prev_rows = None
    live_before = None
    for r, c in zip(res, calls):
        tag = c.get("tag")
        if tag in ("live", "replay"):
            if r["out"] != "ok":
                fails.append(dict(i=r["i"], kind="replay-reported-error", detail=[tag, c.get("j"), r.get("err")]))
                continue
            dd = oracles.tree_diff(r["obs"]["tree"], st)
            if dd:
                fails.append(dict(i=r["i"], kind="replay-differs-from-rebuild", detail=[tag, c.get("j")] + dd[:3]))
            prev_rows = r["obs"]["rows"]
        elif tag == "again":
            if r["out"] != "ok":
                fails.append(dict(i=r["i"], kind="second-replay-reported-error", detail=[c.get("j"), r.get("err")]))
            elif prev_rows is not None and sorted(json.dumps(x, sort_keys=True) for x in r["obs"]["rows"]) != sorted(json.dumps(x, sort_keys=True) for x in prev_rows):
                fails.append(dict(i=r["i"], kind="second-replay-changed-the-index", detail=[c.get("j")]))
    return fails


def c07_tie(ctx, data):
    """impl rows after each replay vs Model/Replay.v, evaluated in Coq"""
    cached, p = streams.cache_get(ctx, "replaytie")
    if cached is not None:
        return cached
    defs, idx, total = [], [], 0
    for k, d in enumerate(data):
        if d is None or d["rc"] != 0 or d["h"].get("_nomodel"):
            continue
        h, res = d["h"], d["res"]
        eh = hist.emit_hist(h, res, h["nbase"], hist.identity_of(res))
        if eh is None:
            continue
        ccfg, hterm, cn = eh
        obs = []
        for r, c in zip(res, h["calls"]):
            if c.get("tag") == "replay":
                obs.append("{| ro_j := %d; ro_ok := %s; ro_rows := %s |}" % (c["j"], "true" if r["out"] == "ok" else "false",
                                                                              hist.cq_list([hist.cq_row(x, cn) for x in r["obs"]["rows"]])))
                total += 1
        defs.append("replay_mismatches [{| rc_cfg := %s; rc_hist := %s; rc_obs := %s |}]" % (ccfg, hterm, hist.cq_list(obs)))
        idx.append(k)
    okall, bad, log = True, [], ""
    for a in range(0, len(defs), 40):
        ok, resd, lg = hist.coq_eval_list("From STFS Require Import Str Db Tape Index Ops Fs Diff Prefix Replay.", defs[a:a + 40], "Replay_%d_%d" % (ctx.seed, a))
        okall = okall and ok
        log += lg[-800:]
        for i, v in resd.items():
            if v.strip() != "[]":
                bad.append((idx[a + i], v[:200]))
    cached = dict(ok=okall, bad=bad, total=total, cases=len(defs), log=log[-1500:])
    streams.cache_put(p, cached)
    return cached
