"""Debug driver: python3 lib/difftool.py <seed> <n> [maxcalls]  -- runs the M1 differential and prints mismatches."""
import sys, os, json, random
sys.path.insert(0, os.path.dirname(os.path.abspath(__file__)))
import hist
from vlib import *

def main():
    seed, n = int(sys.argv[1]), int(sys.argv[2])
    maxc = int(sys.argv[3]) if len(sys.argv) > 3 else 12
    alpha = hist.SAFE_ALPHA if os.environ.get("SAFE") else hist.ALPHA
    ok, out = hist.build_harness()
    if not ok:
        print(out); return
    rng = random.Random(seed)
    hs = []
    for i in range(n):
        rs = rng.choice([1, 2, 3, 7, 20, 64]) if not os.environ.get("RS") else int(os.environ["RS"])
        g = hist.Gen(random.Random(rng.random()), rs, alpha=alpha, max_calls=maxc, ops_level=not os.environ.get("NOOPS"))
        hs.append(g.history({"rs": rs, "cache": "file"}, ["rows", "tree", "tape"]))
    res = hist.run_many(hs)
    terms, idx = [], []
    for i, (h, (r, rc, err)) in enumerate(zip(hs, res)):
        if rc != 0:
            print("case", i, "rc", rc, err[-300:], [x["out"] for x in r][-3:])
        t = hist.emit_case(h, r, hist.identity_of(r))
        if t:
            terms.append(t); idx.append(i)
    ok, mm, log = hist.coq_mismatches(terms, "dbg%d" % seed)
    print("coq ok", ok, "cases", len(terms), "mismatches", mm[:20])
    if not ok:
        print(log)
    os.makedirs(WORK, exist_ok=True)
    for (ci, call, kind) in mm[:3]:
        h = hs[idx[ci]]; r = res[idx[ci]][0]
        json.dump({"h": h, "r": r}, open(os.path.join(WORK, "mm_%d_%d.json" % (seed, ci)), "w"))
        print("--- case", ci, "call", call, "kind", kind, "(1 outcome 2 rows 3 view 4 tape)")
        for j, c in enumerate(h["calls"][:call + 1]):
            print("   ", j, {k: v for k, v in c.items()}, "->", r[j]["out"], r[j].get("err", ""))
main()
