"""Implementation-side oracles: the properties stated directly on what the real code did
(DESIGN.md §2.4).  Each returns a list of failures {i, kind, detail}."""
import posixpath, json
from hist import unix_mode

PRECOND = ("notexist", "exist", "perm", "invalid", "isdir", "isfile", "notempty")
STFS_KEYS = ("STFS.Action", "STFS.ReplacesContent", "STFS.ReplacesName", "STFS.Version", "STFS.UncompressedSize")


def norm_pieces(p):
    out = []
    for sd, off, l in p or []:
        if l == 0:
            continue
        if sd == 0:
            off = 0
        if out and out[-1][0] == sd and (sd == 0 or out[-1][1] + out[-1][2] == off):
            out[-1] = (sd, out[-1][1], out[-1][2] + l)
        else:
            out.append((sd, off, l))
    return tuple(out)


def ekey(e, mtime=True, owner=True):
    """comparable projection of a tree entry"""
    k = [e["path"], e["kind"], e["size"] if e["kind"] == "f" else 0, unix_mode(e["mode"])]
    if owner:
        k += [e.get("uid", 0), e.get("gid", 0)]
    if mtime:
        k.append(e["mtime"])
    k.append(e.get("link", ""))
    if e["kind"] == "f":
        k.append(("err", e["err"].split(":")[0]) if e.get("err") else (e.get("len", 0), norm_pieces(e.get("pieces"))))
    return tuple(k)


def tree_map(tree, **kw):
    return {e["path"]: ekey(e, **kw) for e in tree}


def tree_diff(a, b, **kw):
    ma, mb = tree_map(a, **kw), tree_map(b, **kw)
    d = []
    for p in sorted(set(ma) | set(mb)):
        if ma.get(p) != mb.get(p):
            d.append((p, ma.get(p), mb.get(p)))
    return d


def obs_of(r):
    return r.get("obs") or {}


# ---------------------------------------------------------------- C01

def c01(h, res):
    out = []
    for r in res:
        o = obs_of(r)
        if "tree" not in o:
            continue
        rb = o.get("rebuild")
        if rb is not None:
            if rb.get("init") != "ok":
                out.append(dict(i=r["i"], kind="rebuild-init-failed", detail=rb.get("init_err", rb.get("init"))))
            else:
                d = tree_diff(o["tree"], rb.get("tree", []))
                if d:
                    out.append(dict(i=r["i"], kind="rebuild-differs", detail=d[:3]))
            if rb.get("grew", 0) != 0:
                out.append(dict(i=r["i"], kind="rebuild-appended", detail=rb.get("grew")))
        ro = o.get("reopen")
        if ro is not None:
            if ro.get("init") != "ok":
                out.append(dict(i=r["i"], kind="reopen-init-failed", detail=ro.get("init")))
            else:
                d = tree_diff(o["tree"], ro.get("tree", []))
                if d:
                    out.append(dict(i=r["i"], kind="reopen-differs", detail=d[:3]))
        for e in o["tree"]:
            if e.get("err"):
                out.append(dict(i=r["i"], kind="live-tree-error", detail=[e["path"], e["err"]]))
                break
    return out


# ---------------------------------------------------------------- C04

def c04(h, res):
    out = []
    rs = h["config"].get("rs", 20)
    for r in res:
        o = obs_of(r)
        if "rows" not in o or "members" not in o:
            continue
        starts = {m["start"]: m for m in o["members"]}
        rows = o["rows"]
        tree = {e["path"]: e for e in o.get("tree", [])}
        fetch = {f["name"]: f for f in o.get("fetch", [])}
        for x in rows:
            lk = x["lkrec"] * rs + x["lkblk"]
            if x["del"] == 0:
                pos = x["rec"] * rs + x["blk"]
                if not (0 <= x["blk"] < rs and 0 <= x["lkblk"] < rs):
                    out.append(dict(i=r["i"], kind="block-not-below-record-size", detail=[x["name"], x["blk"], x["lkblk"], rs]))
                m = starts.get(pos)
                if m is None:
                    out.append(dict(i=r["i"], kind="position-not-a-record-start", detail=[x["name"], pos]))
                    continue
                act = m["pax"].get("STFS.Action", "CREATE")
                if not (act == "CREATE" or (act == "UPDATE" and m["pax"].get("STFS.ReplacesContent") == "true")):
                    out.append(dict(i=r["i"], kind="position-at-non-content-record", detail=[x["name"], pos, m["pax"]]))
                if lk < pos:
                    out.append(dict(i=r["i"], kind="lastknown-before-content", detail=[x["name"], pos, lk]))
                if x["tf"] == 48:
                    p = x["name"] if x["name"].startswith("/") else "/" + x["name"]
                    e = tree.get(posixpath.normpath(p))
                    f = fetch.get(x["name"])
                    if e is not None and f is not None and not e.get("err"):
                        if f.get("err") or f.get("sha") != e.get("sha") or f.get("len") != e.get("len"):
                            out.append(dict(i=r["i"], kind="fetch-differs-from-read", detail=[x["name"], f.get("err"), f.get("len"), e.get("len")]))
                    if e is not None and not e.get("err") and not (h["config"].get("comp") or h["config"].get("enc")):
                        if (m.get("sha") or "") != (e.get("sha") if e.get("len") else "") and not (e.get("len", 0) == 0 and not m.get("sha")):
                            out.append(dict(i=r["i"], kind="record-data-differs-from-content", detail=[x["name"], pos]))
            if lk not in starts:
                out.append(dict(i=r["i"], kind="lastknown-not-a-record-start", detail=[x["name"], lk]))
        if rows and o["members"]:
            mx = max(x["lkrec"] * rs + x["lkblk"] for x in rows)
            if mx != o["members"][-1]["start"]:
                out.append(dict(i=r["i"], kind="last-indexed-is-not-last-record", detail=[mx, o["members"][-1]["start"]]))
        q = o.get("query")
        if q is not None:
            qp = [p["rec"] * rs + p["blk"] for p in q.get("pos", [])]
            if q.get("err") or qp != [m["start"] for m in o["members"]]:
                out.append(dict(i=r["i"], kind="query-positions-differ-from-scan", detail=[q.get("err"), qp[:6], [m["start"] for m in o["members"]][:6]]))
    return out


# ---------------------------------------------------------------- C05

def c05(h, res):
    out = []
    prev_len = 0
    for r in res:
        o = obs_of(r)
        if "tape_len" not in o:
            continue
        c = h["calls"][r["i"]]
        if o.get("prefix_ok") is False:
            out.append(dict(i=r["i"], kind="earlier-bytes-changed", detail=o.get("prev_len")))
        if o["tape_len"] % 512 != 0:
            out.append(dict(i=r["i"], kind="not-block-aligned", detail=o["tape_len"]))
        if o.get("scan_errs"):
            out.append(dict(i=r["i"], kind="standard-reader-error", detail=o["scan_errs"][:3]))
        grew = o["tape_len"] - prev_len
        if r["out"] in PRECOND and grew != 0 and c["op"] not in ("mkdirall",) and not (c["op"] in ("createfile", "writefile") and (r.get("ret") or {}).get("stage") != "open"):
            out.append(dict(i=r["i"], kind="rejected-call-appended", detail=[c["op"], r["out"], grew]))
        if grew < 0:
            out.append(dict(i=r["i"], kind="tape-shrank", detail=grew))
        prev_len = o["tape_len"]
    return out


# ---------------------------------------------------------------- C12

def under(p, d):
    return p == d or p.startswith(d.rstrip("/") + "/")


def fs_only(h):
    return not any(c["op"] in ("archive", "update", "delete", "move") for c in h["calls"])


def absname(n):
    """the one spelling of a name: 'a/b', './a/b' and '/a/b' are the same entry, '.' and '' the root"""
    if n is None:
        return ""
    return posixpath.normpath("/" + n.lstrip("/"))


def c12(h, res):
    out = []
    prev = None
    if not fs_only(h):
        return out
    for r in res:
        o = obs_of(r)
        if "tree" not in o:
            prev = None
            continue
        c = h["calls"][r["i"]]
        cur = tree_map(o["tree"])
        if prev is not None and c["op"] in ("removeall", "rename", "remove", "delete", "move"):
            a = absname(c["name"]) if c.get("name") is not None else ""
            if c["op"] in ("rename", "move"):
                b = absname(c["name2"]) if c.get("name2") is not None else ""
                if r["out"] == "ok" and a and b and a != b and under(b, a):
                    out.append(dict(i=r["i"], kind="rename-into-own-subtree-accepted", detail=[a, b]))
                if r["out"] == "ok" and a in prev and a != b and not under(b, a):
                    exp = {}
                    for p, k in prev.items():
                        if under(p, b):
                            continue            # replaced target
                        if under(p, a):
                            np = b + p[len(a):]
                            exp[np] = (np,) + k[1:]
                        else:
                            exp[p] = k
                    if exp != cur:
                        d = [(p, exp.get(p), cur.get(p)) for p in sorted(set(exp) | set(cur)) if exp.get(p) != cur.get(p)]
                        out.append(dict(i=r["i"], kind="rename-touched-wrong-entries", detail=d[:3]))
            else:
                if r["out"] == "ok":
                    exp = {p: k for p, k in prev.items() if not (a and under(p, a) and a != "/")}
                    if a == "/":
                        exp = None
                    if exp is not None and exp != cur:
                        d = [(p, exp.get(p), cur.get(p)) for p in sorted(set(exp) | set(cur)) if exp.get(p) != cur.get(p)]
                        out.append(dict(i=r["i"], kind="remove-touched-wrong-entries", detail=d[:3]))
            if r["out"] != "ok" and prev != cur:
                out.append(dict(i=r["i"], kind="failed-call-changed-tree", detail=[c["op"], r["out"]]))
        prev = cur
    return out


# ---------------------------------------------------------------- C13

def c13(h, res):
    out = []
    if not fs_only(h):
        return out
    for r in res:
        o = obs_of(r)
        if "tree" not in o:
            continue
        paths = set()
        kinds = {}
        for e in o["tree"]:
            if e.get("err") == "duplicate-listing":
                out.append(dict(i=r["i"], kind="listed-twice", detail=e["path"]))
            elif e.get("err") and not e["err"].startswith("read:"):
                out.append(dict(i=r["i"], kind="listed-but-not-openable", detail=[e["path"], e["err"]]))
            if e.get("lstat"):
                out.append(dict(i=r["i"], kind="listing-disagrees-with-stat", detail=[e["path"], e["lstat"]]))
            paths.add(e["path"])
            kinds[e["path"]] = e["kind"]
        for p in paths:
            if p != "/":
                par = posixpath.dirname(p)
                if kinds.get(par) != "d":
                    out.append(dict(i=r["i"], kind="parent-missing-or-not-directory", detail=p))
        if "rows" in o:
            live = set()
            for x in o["rows"]:
                if x["del"] == 0 and x["link"] == "":
                    n = x["name"]
                    n = "/" if n in ("", "/", ".", "./") else posixpath.normpath(n if n.startswith("/") else "/" + n)
                    live.add(n)
            links = set(posixpath.normpath(x["link"] if x["link"].startswith("/") else "/" + x["link"]) for x in o["rows"] if x["del"] == 0 and x["link"] != "")
            if live | links != paths:
                out.append(dict(i=r["i"], kind="walk-differs-from-live-entries", detail=[sorted((live | links) - paths)[:3], sorted(paths - (live | links))[:3]]))
        for l in o.get("limits", []):
            if l["n"] > 0 and (l["got"] > l["n"] or l["foreign"]):
                out.append(dict(i=r["i"], kind="limited-listing-too-long-or-foreign", detail=l))
            # (a limited listing shorter than min(n, total) is not demanded by the property: "at most that many";
            #  the SQL limit is applied before the exact post-filter, see Proofs/T13ListCounter.v limited_shorter_than_limit)
            if l["n"] <= 0 and l["got"] != l["total"]:
                out.append(dict(i=r["i"], kind="unlimited-listing-incomplete", detail=l))
    return out


# ---------------------------------------------------------------- C02 (against the reference run)

def c02(h, res, ref):
    out = []
    if ref is None:
        return out
    touched_mtime = {}
    for r, q in zip(res, ref):
        o, po = obs_of(r), obs_of(q)
        c = h["calls"][r["i"]]
        if c["op"] in ("initialize", "reopen"):
            continue
        if c["op"] == "rename" and q["out"] == "exist" and r["out"] in ("ok", "notempty", "exist"):
            # Go's os.Rename refuses every existing directory as destination; POSIX (and STFS) replace an
            # empty one and report not-empty otherwise: both accepted, the trees may differ from here on
            tgt = {e["path"]: e for e in po.get("tree", [])}.get(absname(c["name2"]))
            if tgt is not None and tgt["kind"] == "d":
                break
        if (r["out"] in ("ok", "eof")) != (q["out"] in ("ok", "eof")):
            # the property: a call succeeds or fails exactly when the reference does (which error a failing call reports
            # is not part of it: e.g. a rename into the own subtree below a missing directory is EINVAL here, ENOENT there)
            out.append(dict(i=r["i"], kind="outcome-differs", detail=[c["op"], r["out"], q["out"], r.get("err", "")[:80]]))
            # after an outcome difference the two trees legitimately diverge: stop comparing this history
            break
        if "tree" not in o:
            continue
        a = tree_map([e for e in o["tree"] if e["path"] != "/"], mtime=False)
        b = tree_map([e for e in po["tree"] if e["path"] != "/"], mtime=False)
        if a != b:
            d = [(p, a.get(p), b.get(p)) for p in sorted(set(a) | set(b)) if a.get(p) != b.get(p)]
            out.append(dict(i=r["i"], kind="tree-differs-from-reference", detail=[c["op"]] + d[:3]))
            break
        if c["op"] in ("createfile", "writefile") and r["out"] == "ok" and h["blobs"][c.get("blob", 0)]["len"] > 0:
            # content was written: the entry's modification time is the time of this call
            e = {x["path"]: x for x in o["tree"]}.get(absname(c["name"]))
            if e is not None and e["kind"] == "f" and not (r["t0"] - 10**9 <= e["mtime"] <= r["t1"] + 10**9):
                out.append(dict(i=r["i"], kind="mtime-not-stamped-by-write", detail=[c["name"], e["mtime"], r["t0"], r["t1"]]))
        if c["op"] == "chtimes" and r["out"] == "ok":
            p = absname(c["name"])
            e = {x["path"]: x for x in o["tree"]}.get(p)
            if e is not None and e["mtime"] != c["mtime"] * 10**9:
                out.append(dict(i=r["i"], kind="mtime-not-set", detail=[p, e["mtime"]]))
    return out
