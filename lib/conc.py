"""C11: concurrent client programs against one instance; linearizability search with the sequential
implementation as executable specification (itself tied to M1 by the differential runs), M1 evaluation of
the linearization found, hang detection, final tree vs. rebuild."""
import itertools, json, random, subprocess
from concurrent.futures import ThreadPoolExecutor
import hist, streams
from vlib import ENV

O_RDONLY, O_WRONLY, O_RDWR, O_CREATE, O_TRUNC, O_APPEND = 0, 1, 2, 0x40, 0x200, 0x400

SHARED = ["/s", "/s/x", "/t", "/u"]


def gen_job(rng, nthreads, klass):
    """klass: 'fs' (whole-filesystem calls only), 'handles' (also open/write/close on handles, no reads),
    'reads' (also handle reads: exposes the streaming-read finding)."""
    blobs = [{"seed": 1, "len": 700}, {"seed": 2, "len": 10}, {"seed": 3, "len": 3000}]
    setup = [{"op": "initialize"}, {"op": "mkdir", "name": "/s", "perm": 0o755}, {"op": "mkdir", "name": "/t", "perm": 0o755},
             {"op": "createfile", "name": "/s/x", "blob": 0}, {"op": "createfile", "name": "/u", "blob": 1}]
    for t in range(nthreads):
        if rng.random() < 0.5:
            setup.append({"op": "mkdir", "name": "/p%d" % t, "perm": 0o755})
    threads = []
    hseq = itertools.count()
    for t in range(nthreads):
        prog = []
        private = ["/p%d" % t, "/p%d/a" % t, "/q%d" % t]
        open_h = []
        for i in range(rng.randint(2, 4) if nthreads <= 4 else rng.randint(1, 3)):
            shared = rng.random() < (0.6 if nthreads <= 4 else 0.3)
            pool = SHARED if shared else private
            n = rng.choice(pool)
            k = rng.random()
            if klass != "fs" and open_h and k < 0.45:
                h = rng.choice(open_h)
                if h[1] == "r":
                    prog.append({"op": "read", "h": h[0], "n": rng.choice([1, 5, 4096])})
                    if rng.random() < 0.5:
                        prog.append({"op": "close", "h": h[0]})
                        open_h.remove(h)
                else:
                    j = rng.random()
                    if j < 0.6:
                        prog.append({"op": "write", "h": h[0], "blob": rng.randrange(3)})
                    else:
                        prog.append({"op": "close", "h": h[0]})
                        open_h.remove(h)
                continue
            if klass != "fs" and k < 0.3:
                hn = "t%dh%d" % (t, next(hseq))
                if klass == "reads" and rng.random() < 0.6:
                    prog.append({"op": "open", "name": rng.choice(["/s/x", "/u"]), "h": hn, "flags": O_RDONLY, "perm": 0})
                    open_h.append((hn, "r"))
                else:
                    prog.append({"op": "open", "name": n if not n.startswith("/p") else n + "f", "h": hn,
                                 "flags": O_CREATE | O_RDWR | rng.choice([0, O_TRUNC, O_APPEND]), "perm": 0o644})
                    open_h.append((hn, "w"))
                continue
            op = rng.choice(["mkdir", "mkdirall", "remove", "removeall", "rename", "chmod", "chown", "chtimes", "stat", "mkdir", "rename", "createfile", "createfile"])
            if op == "createfile":
                # STFS.Create (looks its parent up before taking the lock) + Write + Close: on a name only this thread uses,
                # so that the three calls cannot be separated by another thread's call on the same entry
                prog.append({"op": "createfile", "name": rng.choice(["/q%d" % t, "/q%d-b" % t, "/p%d/c" % t]), "blob": rng.randrange(3)})
            elif op == "mkdir":
                prog.append({"op": "mkdir", "name": n, "perm": rng.choice([0o755, 0o700])})
            elif op == "mkdirall":
                prog.append({"op": "mkdirall", "name": n + rng.choice(["", "/m", "/m/n"]), "perm": 0o755})
            elif op in ("remove", "removeall", "stat"):
                prog.append({"op": op, "name": n})
            elif op == "rename":
                prog.append({"op": "rename", "name": n, "name2": rng.choice(pool + ["/r%d" % t, "/t/z"])})
            elif op == "chmod":
                prog.append({"op": "chmod", "name": n, "perm": rng.choice([0o600, 0o644, 0o750])})
            elif op == "chown":
                prog.append({"op": "chown", "name": n, "uid": rng.choice([0, 1000]), "gid": rng.choice([0, 100])})
            else:
                prog.append({"op": "chtimes", "name": n, "atime": 1000 + t, "mtime": 2000 + 10 * t + i})
        for h in open_h:
            prog.append({"op": "close", "h": h[0]})
        threads.append(prog)
    return dict(config={"rs": rng.choice([1, 3, 20]), "cache": rng.choice(["file", "memory"])}, blobs=blobs, setup=setup, threads=threads,
                seed=rng.randrange(1 << 30), tmo=15000, obs=["tree", "rebuild"], klass=klass)


def run_conc(job, timeout=120, race=False):
    exe = hist.STFSDRV + ("-race" if race else "")
    try:
        p = subprocess.run([exe, "conc"], input=json.dumps(job), stdout=subprocess.PIPE, stderr=subprocess.PIPE, text=True, timeout=timeout,
                           env=dict(ENV, VERIF_SCRATCH=hist.scratch_dir(), GORACE="halt_on_error=0"))
        rc, out, err = p.returncode, p.stdout, p.stderr
    except subprocess.TimeoutExpired:
        rc, out, err = 124, "", "timeout"
    recs = [json.loads(l) for l in out.splitlines() if l.startswith("{")]
    races = err.count("WARNING: DATA RACE")
    return dict(recs=recs, rc=rc, err=err[-3000:], races=races, race_text=err[:4000] if races else "")


def strip_tree(tree):
    """observable part of a tree entry that does not depend on wall-clock time"""
    out = []
    for e in tree or []:
        out.append((e.get("path"), e.get("mode"), e.get("size"), e.get("dir"), e.get("uid"), e.get("gid"), e.get("sha"), e.get("err"), e.get("link")))
    return sorted(out, key=lambda x: str(x[0]))


def call_sig(rec):
    ret = rec.get("ret") or {}
    info = ret.get("info") or {}
    return (rec["out"], ret.get("n"), info.get("mode"), info.get("size"), info.get("dir"), ret.get("sha"))


def linear_extensions(calls, limit):
    """Candidate linearizations: linear extensions of the real-time order (a before b iff a returned before b was invoked).
    The return order comes first, then the orders reachable from it by 1, 2, ... adjacent transpositions of overlapping calls
    (a call that released the lock may be stamped after a later one). Returns (orders, exhaustive): exhaustive is True when
    EVERY linear extension is in the list (so that "none matches" is a definite answer)."""
    n = len(calls)
    before = {i: {j for j in range(n) if calls[j]["t1"] < calls[i]["t0"]} for i in range(n)}
    base = tuple(sorted(range(n), key=lambda i: calls[i]["t1"]))
    seen, out, frontier = {base}, [list(base)], [base]
    while frontier and len(out) < limit:
        nxt = []
        for o in frontier:
            for k in range(n - 1):
                a, b = o[k], o[k + 1]
                if a in before[b]:
                    continue            # a really precedes b
                p = o[:k] + (b, a) + o[k + 2:]
                if p not in seen:
                    seen.add(p)
                    out.append(list(p))
                    nxt.append(p)
                    if len(out) >= limit:
                        break
            if len(out) >= limit:
                break
        frontier = nxt
    # adjacent transpositions of incomparable elements connect all linear extensions: an empty frontier means all were listed
    return out, (not frontier and len(out) < limit)


def seq_history(job, calls, order):
    return {"config": job["config"], "blobs": job["blobs"], "obs": [],
            "calls": [dict(c) for c in job["setup"]] + [dict(calls[i]["call"]) for i in order] + [{"op": "nop", "obs": ["tree"]}]}


def check_linearizable(job, run, limit=120):
    """Returns (status, detail). status: ok | hang | crash | not-linearizable | rebuild-differs"""
    recs = run["recs"]
    final = [r for r in recs if r.get("phase") == "final"]
    conc = [r for r in recs if r.get("phase") == "conc"]
    if any("PANIC" in (r.get("err") or "") for r in recs):
        return "crash", [r for r in recs if "PANIC" in (r.get("err") or "")][:2]
    if run["rc"] != 0 or not final or final[-1].get("hang"):
        return "hang", [dict(thread=r["thread"], i=r["i"], op=r["op"]) for r in conc if r["out"] == "HANG"]
    obs = final[-1].get("obs") or {}
    tree = strip_tree(obs.get("tree"))
    rb = obs.get("rebuild") or {}
    if rb.get("err") or strip_tree(rb.get("tree")) != tree:
        return "rebuild-differs", [rb.get("err"), [x for x in tree if x not in strip_tree(rb.get("tree"))][:3], [x for x in strip_tree(rb.get("tree")) if x not in tree][:3]]
    calls = []
    for r in conc:
        calls.append(dict(t0=r["t0"], t1=r["t1"], call=job["threads"][r["thread"]][r["i"]], rec=r))
    exts, exhaustive = linear_extensions(calls, limit)
    nset = len(job["setup"])
    best = None
    for k in range(0, len(exts), 12):
        batch = exts[k:k + 12]
        hs = [seq_history(job, calls, o) for o in batch]
        res = hist.run_many(hs, workers=12, timeout=120)
        for o, (r, rc, err) in zip(batch, res):
            if rc != 0 or len(r) != nset + len(o) + 1:
                continue
            same = all(call_sig(r[nset + j]) == call_sig(calls[i]["rec"]) for j, i in enumerate(o))
            t2 = strip_tree((r[-1].get("obs") or {}).get("tree"))
            if same and t2 == tree:
                return "ok", dict(order=o, tried=k + batch.index(o) + 1, seq=hs[batch.index(o)])
            if best is None:
                bad = [(j, calls[i]["call"]["op"], call_sig(calls[i]["rec"]), call_sig(r[nset + j])) for j, i in enumerate(o) if call_sig(r[nset + j]) != call_sig(calls[i]["rec"])]
                best = dict(order=o, differing_calls=bad[:4], tree_only_concurrent=[x for x in tree if x not in t2][:4], tree_only_sequential=[x for x in t2 if x not in tree][:4])
    # none of the candidates matches: a definite answer only if every linear extension was tried
    return ("not-linearizable" if exhaustive else "inconclusive"), dict(tried=len(exts), exhaustive=exhaustive, closest=best)


def storm_job(rng, nthreads, ncalls):
    """Many clients creating entries with DISTINCT names below one directory (Create + Close, Mkdir): the calls commute, so the
    expected result is known without a search: every call succeeds and every name is listed, live and after a rebuild."""
    threads = []
    for t in range(nthreads):
        prog = []
        for i in range(ncalls):
            if t % 3 == 2:
                prog.append({"op": "mkdir", "name": "/work/d%d-%d" % (t, i), "perm": 0o755})
            else:
                prog.append({"op": "createfile", "name": "/work/f%d-%d" % (t, i), "blob": rng.randrange(3)})
        threads.append(prog)
    return dict(config={"rs": rng.choice([3, 20]), "cache": rng.choice(["file", "memory"])}, blobs=[{"seed": 1, "len": 700}, {"seed": 2, "len": 10}, {"seed": 3, "len": 0}],
                setup=[{"op": "initialize"}, {"op": "mkdir", "name": "/work", "perm": 0o755}], threads=threads, seed=rng.randrange(1 << 30), tmo=60000, obs=["tree", "rebuild"], klass="storm")


def check_storm(job, run):
    recs = run["recs"]
    final = [r for r in recs if r.get("phase") == "final"]
    conc = [r for r in recs if r.get("phase") == "conc"]
    if any("PANIC" in (r.get("err") or "") for r in recs):
        return "crash", [r for r in recs if "PANIC" in (r.get("err") or "")][:2]
    if run["rc"] != 0 or not final or final[-1].get("hang"):
        return "hang", [dict(thread=r["thread"], i=r["i"], op=r["op"]) for r in conc if r["out"] == "HANG"]
    bad = [dict(thread=r["thread"], i=r["i"], op=r["op"], out=r["out"], err=(r.get("err") or "")[:160]) for r in conc if r["out"] != "ok"]
    if bad:
        return "commuting-call-failed", bad[:4]
    obs = final[-1].get("obs") or {}
    want = sorted(c["name"] for t in job["threads"] for c in t)
    got = sorted(e["path"] for e in obs.get("tree") or [] if e["path"].startswith("/work/"))
    if got != want:
        return "entries-missing", [sorted(set(want) - set(got))[:5], sorted(set(got) - set(want))[:5]]
    rb = obs.get("rebuild") or {}
    if rb.get("err") or strip_tree(rb.get("tree")) != strip_tree(obs.get("tree")):
        return "rebuild-differs", [rb.get("err")]
    return "ok", dict(tried=0)


def conc_stream(ctx):
    data, p = streams.cache_get(ctx, "conc")
    if data is not None:
        return data
    ok, out = hist.build_harness()
    if not ok:
        raise RuntimeError(out[-1500:])
    quick = ctx.tier == "quick"
    rng = random.Random(ctx.seed * 131 + 9)
    jobs = []
    for klass, n in (("fs", 24 if quick else 200), ("handles", 12 if quick else 100), ("reads", 6 if quick else 40)):
        for i in range(n):
            nt = rng.choice([2, 2, 3, 3, 4, 5, 8]) if klass != "reads" else rng.choice([2, 3])
            jobs.append(gen_job(rng, nt, klass))
    for i in range(3 if quick else 20):
        jobs.append(storm_job(rng, rng.choice([4, 6, 8]), 12 if quick else 30))
    jobs = [j for j in streams.replay_override(ctx, "job", jobs) if "threads" in j]
    with ThreadPoolExecutor(max_workers=8) as ex:
        runs = list(ex.map(run_conc, jobs))
    # a hang under load is not a verdict: run again alone
    for i, r in enumerate(runs):
        if r["rc"] != 0:
            runs[i] = run_conc(jobs[i])
    data = []
    for j, r in zip(jobs, runs):
        st, detail = check_storm(j, r) if j.get("klass") == "storm" else check_linearizable(j, r)
        data.append(dict(job=j, status=st, detail=detail, rc=r["rc"], ncalls=sum(len(t) for t in j["threads"]), recs=r["recs"] if st != "ok" else None))
    streams.cache_put(p, data)
    return data
