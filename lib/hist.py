"""Histories: generation, execution on the implementation (stfsdrv), canonicalisation of
observations and emission of Coq case files for the correspondence check (DESIGN.md §2.3)."""
import base64, json, os, random, subprocess, tempfile
from concurrent.futures import ThreadPoolExecutor
from vlib import V, ENV, COQ, WORK, sh

STFSDRV = os.path.join(V, "bin", "stfsdrv")

O_RDONLY, O_WRONLY, O_RDWR, O_APPEND, O_CREATE, O_EXCL, O_TRUNC = 0, 1, 2, 0o2000, 0o100, 0o200, 0o1000

ALPHA = ["a", "ab", "a_", "a%", "A", "a b", ".x", "é", "x.gz", "b", "c", "L" * 120, "a%b", "a_b", "%", "_"]
SAFE_ALPHA = ["a", "b", "c", "d", "ab", "e1"]


def build_harness():
    os.makedirs(os.path.join(V, "bin"), exist_ok=True)
    gs = os.path.join(V, "harness", "go.sum")
    if not os.path.exists(gs):
        sh("cp /repo/go.sum %s" % gs)
    rc, out = sh("go build -tags verif -o %s ./cmd/stfsdrv" % STFSDRV, cwd=os.path.join(V, "harness"), timeout=1200)
    return rc == 0, out


def scratch_dir():
    d = os.environ.get("VERIF_SCRATCH") or tempfile.gettempdir()
    return d


def run_history(h, timeout=120):
    """Run one history in a child process. Returns (results, exit_code, stderr_tail)."""
    env = dict(ENV, VERIF_SCRATCH=scratch_dir())
    try:
        p = subprocess.run([STFSDRV, "run"], input=json.dumps(h), stdout=subprocess.PIPE, stderr=subprocess.PIPE,
                           text=True, timeout=timeout, env=env)
        rc, out, err = p.returncode, p.stdout, p.stderr
    except subprocess.TimeoutExpired as e:
        rc, out, err = 124, (e.stdout or b"").decode() if isinstance(e.stdout, bytes) else (e.stdout or ""), "timeout"
    res = []
    for line in out.splitlines():
        line = line.strip()
        if line.startswith("{"):
            try:
                res.append(json.loads(line))
            except Exception:
                pass
    return res, rc, err[-2000:]


def run_many(hs, workers=14, timeout=120):
    with ThreadPoolExecutor(max_workers=workers) as ex:
        res = list(ex.map(lambda h: run_history(h, timeout), hs))
    # a watchdog verdict under load is not a verdict: a history that ended in HANG (exit 3) or in the process timeout is run
    # again alone; only what hangs then is reported as hanging
    for i, (r, rc, err) in enumerate(res):
        if rc in (3, 124):
            res[i] = run_history(hs[i], timeout)
    return res


# ---------------------------------------------------------------- generation

class Gen:
    """Mostly-valid FS histories over a hostile name alphabet; a shadow tree steers choices only."""

    def __init__(self, rng, rs, alpha=ALPHA, max_calls=20, ops_level=True, malformed=0.08, symlinks=False):
        self.r, self.rs, self.alpha = rng, rs, alpha
        self.max_calls, self.ops_level, self.malformed = max_calls, ops_level, malformed
        self.dirs = {"/"}
        self.files = set()
        self.gone = set()
        self.blobs = []
        self.calls = []
        self.symlinks = symlinks

    def blob(self, n=None):
        rs = self.rs
        classes = [0, 1, 5, 511, 512, 513, rs * 512 - 1, rs * 512, rs * 512 + 1, 3 * rs * 512 + 7, 700, 1500]
        if n is None:
            n = self.r.choice(classes)
        n = min(n, 120000)
        self.blobs.append({"seed": len(self.blobs) + 1, "len": n})
        return len(self.blobs) - 1

    def join(self, d, c):
        return (d.rstrip("/") + "/" + c) if d != "/" else "/" + c

    def new_name(self):
        d = self.r.choice(sorted(self.dirs))
        if d.count("/") >= 3 and d != "/":
            d = "/"
        if self.gone and self.r.random() < 0.3:
            return self.r.choice(sorted(self.gone))
        return self.join(d, self.r.choice(self.alpha))

    def some(self, kind=None):
        pool = sorted(self.files) if kind == "f" else sorted(self.dirs - {"/"}) if kind == "d" else sorted(self.files | (self.dirs - {"/"}))
        if not pool or self.r.random() < self.malformed:
            return self.new_name()
        return self.r.choice(pool)

    def spell(self, p):
        """occasionally use an equivalent or odd spelling"""
        x = self.r.random()
        if x < 0.04:
            return p + "/"
        if x < 0.07:
            return p.replace("/", "//", 1)
        if x < 0.09:
            return "/./" + p.lstrip("/")
        return p

    def rm_tree(self, p):
        for s in (self.dirs, self.files):
            for q in [q for q in s if q == p or q.startswith(p + "/")]:
                s.discard(q)
                self.gone.add(q)

    def step(self):
        r = self.r
        kinds = ["mkdir"] * 4 + ["createfile"] * 5 + ["writefile"] * 4 + ["remove"] * 2 + ["removeall"] * 2 + ["rename"] * 4 + \
                ["chmod", "chown", "chtimes"] * 1 + ["mkdirall"] * 2 + ["reopen"]
        if self.ops_level:
            kinds += ["archive", "update", "delete", "move"]
        k = r.choice(kinds)
        c = {"op": k}
        if k == "mkdir":
            p = self.new_name()
            c.update(name=self.spell(p), perm=r.choice([0o755, 0o700, 0o777]))
            if p not in self.files and os.path.dirname(p) in self.dirs:
                self.dirs.add(p)
        elif k == "mkdirall":
            p = self.new_name()
            for _ in range(r.randint(0, 2)):
                p = self.join(p, r.choice(self.alpha))
            c.update(name=p, perm=0o755)
            q = p
            chain = []
            while q not in ("/", ""):
                chain.append(q)
                q = os.path.dirname(q)
            if not any(x in self.files for x in chain):
                self.dirs.update(chain)
        elif k == "createfile":
            p = self.new_name() if r.random() < 0.7 else self.some("f")
            c.update(name=self.spell(p), blob=self.blob())
            if os.path.dirname(p) in self.dirs and p not in self.dirs:
                self.files.add(p)
        elif k == "writefile":
            p = self.some("f") if r.random() < 0.7 else self.new_name()
            fl = r.choice([O_WRONLY | O_CREATE | O_TRUNC, O_RDWR | O_CREATE, O_WRONLY | O_APPEND, O_RDWR, O_WRONLY | O_CREATE | O_EXCL,
                           O_RDWR | O_TRUNC, O_WRONLY, O_RDONLY, O_WRONLY | O_CREATE | O_APPEND, O_WRONLY | O_APPEND | O_TRUNC])
            c.update(name=p, flags=fl, perm=r.choice([0o644, 0o600]), blob=self.blob(r.choice([0, 3, 100, 600, 513, 2000])), flag=r.random() < 0.2)
            if fl & O_CREATE and os.path.dirname(p) in self.dirs and p not in self.dirs:
                self.files.add(p)
        elif k == "remove":
            p = self.some()
            c.update(name=self.spell(p))
            if p in self.files or (p in self.dirs and not any(q.startswith(p + "/") for q in self.dirs | self.files)):
                self.rm_tree(p)
        elif k == "removeall":
            p = self.some("d") if r.random() < 0.7 else self.some()
            c.update(name=p)
            self.rm_tree(p)
        elif k == "rename":
            a = self.some()
            x = r.random()
            if x < 0.55:
                b = self.new_name()
            elif x < 0.8:
                b = self.some()
            else:
                b = self.join(a, r.choice(self.alpha)) if r.random() < 0.5 else a
            c.update(name=a, name2=b)
            if (a in self.files or a in self.dirs) and os.path.dirname(b) in self.dirs and b not in self.files and b not in self.dirs and not b.startswith(a + "/"):
                for s in (self.dirs, self.files):
                    for q in [q for q in s if q == a or q.startswith(a + "/")]:
                        s.discard(q)
                        self.gone.add(q)
                        s.add(b + q[len(a):])
        elif k == "chmod":
            c.update(name=self.some(), perm=r.choice([0o600, 0o644, 0o755, 0o400, 0o711]))
        elif k == "chown":
            c.update(name=self.some(), uid=r.choice([0, 1000, 65534]), gid=r.choice([0, 100, 1000]))
        elif k == "chtimes":
            c.update(name=self.some(), atime=1000000000 + r.randint(0, 999), mtime=1100000000 + r.randint(0, 999))
        elif k == "reopen":
            pass
        elif k == "archive":
            d = r.choice(sorted(self.dirs))
            files = []
            for _ in range(r.randint(1, 4)):
                p = self.join(d, r.choice(self.alpha))
                if p in self.dirs or any(f["path"] == p for f in files):
                    continue
                if r.random() < 0.25:
                    files.append({"path": p, "blob": -1, "mode": 0o755})
                    if p not in self.files:
                        self.dirs.add(p)
                else:
                    files.append({"path": p, "blob": self.blob(), "mode": 0o644})
                    self.files.add(p)
            if not files:
                return
            c.update(files=files)
        elif k == "update":
            fs = [f for f in sorted(self.files)]
            if not fs:
                return
            rep = r.random() < 0.6
            files = [{"path": p, "blob": self.blob(), "mode": r.choice([0o644, 0o600])} for p in r.sample(fs, min(len(fs), r.randint(1, 3)))]
            c.update(files=files, flag=rep)
        elif k == "delete":
            p = self.some()
            c.update(name=p)
            self.rm_tree(p)
        elif k == "move":
            a = self.some()
            b = self.new_name()
            c.update(name=a, name2=b)
            if (a in self.files or a in self.dirs) and b not in self.files and b not in self.dirs and not b.startswith(a + "/"):
                for s in (self.dirs, self.files):
                    for q in [q for q in s if q == a or q.startswith(a + "/")]:
                        s.discard(q)
                        self.gone.add(q)
                        s.add(b + q[len(a):])
        self.calls.append(c)

    def history(self, cfg, obs):
        self.calls = [{"op": "initialize"}]
        n = self.r.randint(3, self.max_calls)
        while len(self.calls) < n:
            self.step()
        return {"config": cfg, "blobs": self.blobs, "obs": obs, "calls": self.calls}


# ---------------------------------------------------------------- Coq emission

def cq_str(x):
    b = x.encode() if isinstance(x, str) else x
    if all(32 <= c < 127 and c != 34 for c in b):
        return '(s "%s")' % b.decode()
    return "[" + ";".join(str(c) for c in b) + "]"


def cq_Z(z):
    return "(%d)%%Z" % z


def cq_list(xs):
    return "[" + "; ".join(xs) + "]"


def cq_bool(b):
    return "true" if b else "false"


def cq_content(pieces):
    return cq_list(["(%d, %d, %d)" % ((p[0], p[1], p[2]) if p[0] >= 0 else (1000000 + p[1], 0, 1)) for p in pieces])


def blob_content(h, i):
    b = h["blobs"][i]
    return [] if b["len"] == 0 else [(b["seed"], 0, b["len"])]


def cq_pax(pj):
    try:
        d = json.loads(pj) if pj else None
    except Exception:
        d = None
    if not isinstance(d, dict):
        d = {}
    items = sorted((k.encode(), v.encode()) for k, v in d.items() if k.startswith("STFS.") and k not in ("STFS.Signature", "STFS.EmbeddedHeader"))
    return cq_list(["(%s, %s)" % (cq_str(k), cq_str(v)) for k, v in items])


class Canon:
    """maps observed timestamps to canonical values: explicit times (seconds) stay, a time inside
    call k's real-time window becomes -(k+1), the zero time 0."""

    def __init__(self, h, results):
        self.windows = [(r["t0"], r["t1"], r["i"]) for r in results if "t0" in r]
        self.explicit = set()
        for c in h["calls"]:
            if c["op"] == "chtimes":
                self.explicit.add(c["atime"])
                self.explicit.add(c["mtime"])

    def t(self, ns):
        if ns == 0:
            return 0
        if ns % 10**9 == 0 and ns // 10**9 in self.explicit:
            return ns // 10**9
        for t0, t1, i in reversed(self.windows):
            if t0 <= ns <= t1:
                return -(i + 1)
        return ns


def cq_hdr_file(h, f, now):
    """header an ops-level Archive/Update source presents (see stfsdrv srcOf)"""
    if f["blob"] < 0:
        return ("{| f_hdr := {| h_tf := TypeDir; h_name := %s; h_link := []; h_size := 0; h_mode := %d; h_uid := %s; h_gid := %s; "
                "h_uname := []; h_gname := []; h_mtime := %s; h_atime := 0%%Z; h_ctime := 0%%Z; h_pax := [] |}; f_data := [] |}"
                % (cq_str(f["path"]), f["mode"] & 0o7777, "UID", "GID", cq_Z(now)))
    b = h["blobs"][f["blob"]]
    return ("{| f_hdr := {| h_tf := TypeReg; h_name := %s; h_link := []; h_size := %d; h_mode := %d; h_uid := %s; h_gid := %s; "
            "h_uname := []; h_gname := []; h_mtime := %s; h_atime := 0%%Z; h_ctime := 0%%Z; h_pax := [] |}; f_data := %s |}"
            % (cq_str(f["path"]), b["len"], f["mode"] & 0o7777, "UID", "GID", cq_Z(now), cq_content(blob_content(h, f["blob"]))))


def cq_oflag(fl):
    return "{| o_acc := %d; o_append := %s; o_create := %s; o_excl := %s; o_trunc := %s |}" % (
        fl & 3, cq_bool(fl & O_APPEND), cq_bool(fl & O_CREATE), cq_bool(fl & O_EXCL), cq_bool(fl & O_TRUNC))


def cq_call(h, c, now):
    op = c["op"]
    n = cq_str(c.get("name", ""))
    if op == "mkdir":
        return "CMkdir %s %d" % (n, c["perm"])
    if op == "mkdirall":
        return "CMkdirAll %s %d" % (n, c["perm"])
    if op == "remove":
        return "CRemove %s" % n
    if op == "removeall":
        return "CRemoveAll %s" % n
    if op == "rename":
        return "CRename %s %s" % (n, cq_str(c["name2"]))
    if op == "chmod":
        return "CChmod %s %d" % (n, c["perm"])
    if op == "chown":
        return "CChown %s %d %d" % (n, c["uid"], c["gid"])
    if op == "chtimes":
        return "CChtimes %s %s %s" % (n, cq_Z(c["atime"]), cq_Z(c["mtime"]))
    if op == "createfile":
        return "CCreateFile %s %s" % (n, cq_content(blob_content(h, c["blob"])))
    if op == "writefile":
        return "CWriteFile %s %s %d %s %s" % (n, cq_oflag(c["flags"]), c["perm"], cq_content(blob_content(h, c["blob"])), cq_bool(c.get("flag", False)))
    if op == "archive":
        return "CArchive %s" % cq_list([cq_hdr_file(h, f, now) for f in c["files"]])
    if op == "update":
        return "CUpdate %s %s" % (cq_list([cq_hdr_file(h, f, now) for f in c["files"]]), cq_bool(c.get("flag", False)))
    if op == "delete":
        return "CDelete %s" % n
    if op == "move":
        return "CMove %s %s" % (n, cq_str(c["name2"]))
    if op == "initialize":
        return "CInitialize %s" % cq_str(h["config"].get("root") or "/")
    if op == "reopen":
        return "CReopen"
    return "CNop"


OUTC = {"ok": "OOk", "notexist": "ONotExist", "exist": "OExist", "perm": "OPerm", "invalid": "OInvalid", "isdir": "OIsDir",
        "isfile": "OIsFile", "notempty": "ONotEmpty"}


def cq_row(r, cn):
    return ("{| r_name := %s; r_link := %s; r_tf := %d; r_size := %d; r_mode := %d; r_uid := %d; r_gid := %d; r_uname := %s; r_gname := %s; "
            "r_mtime := %s; r_atime := %s; r_ctime := %s; r_rec := %d; r_blk := %d; r_lkrec := %d; r_lkblk := %d; r_del := %s; r_pax := %s |}"
            % (cq_str(r["name"]), cq_str(r["link"]), r["tf"], r["size"], r["mode"], r["uid"], r["gid"], cq_str(r["uname"]), cq_str(r["gname"]),
               cq_Z(cn.t(r["mtime"])), cq_Z(cn.t(r["atime"])), cq_Z(cn.t(r["ctime"])), r["rec"], r["blk"], r["lkrec"], r["lkblk"],
               cq_bool(r["del"] != 0), cq_pax(r["pax"])))


KIND_TF = {"d": 53, "f": 48, "l": 50}


def unix_mode(m):
    """os.FileMode -> unix permission bits incl. setuid/setgid/sticky"""
    return (m & 0o777) | (0o4000 if m & (1 << 23) else 0) | (0o2000 if m & (1 << 22) else 0) | (0o1000 if m & (1 << 20) else 0)


def cq_entry(e, cn):
    data = "None"
    if e["kind"] == "f":
        if e.get("err"):
            data = "None"
        else:
            data = "(Some %s)" % cq_content(e.get("pieces") or [])
    return ("{| e_path := %s; e_tf := %d; e_size := %d; e_mode := %d; e_uid := %d; e_gid := %d; e_mtime := %s; e_link := %s; e_data := %s |}"
            % (cq_str(e["path"]), KIND_TF.get(e["kind"], 0), e["size"], unix_mode(e["mode"]), e["uid"], e["gid"], cq_Z(cn.t(e["mtime"])),
               cq_str(e.get("link", "")), data))


def emit_case(h, results, ident):
    """One Coq `case` term from a history and the implementation's observations of it.
    Returns None if the run did not produce comparable observations for every call."""
    cn = Canon(h, results)
    calls = h["calls"]
    if len(results) < 1:
        return None
    n = len(results)
    # identity of the process, read off the root row
    uid, gid, uname, gname = ident
    hist, obs = [], []
    prev_blocks = 0
    for i in range(n):
        r = results[i]
        if r["out"] in ("HANG",) or "obs" not in r or "tape_len" not in r["obs"]:
            n = i
            break
        o = r["obs"]
        if o["tape_len"] % 512 != 0:
            n = i
            break
        blocks = o["tape_len"] // 512
        newm = [m for m in (o.get("members") or []) if m["start"] >= prev_blocks]
        hb = [str(m["hb"]) for m in newm]
        enc = [str(m["size"]) for m in newm if m["size"] > 0]
        now = -(i + 1)
        hist.append("(%s, {| ev_hb := %s; ev_enc := %s; ev_now := %s |})" % (cq_call(h, calls[i], now), cq_list(hb), cq_list(enc), cq_Z(now)))
        out = OUTC.get(r["out"], "OOther 0")
        rows = cq_list([cq_row(x, cn) for x in o.get("rows", [])])
        view = cq_list([cq_entry(e, cn) for e in sorted(o.get("tree", []), key=lambda e: e["path"].encode())])
        obs.append("{| ob_out := %s; ob_rows := %s; ob_view := %s; ob_blocks := %d |}" % (out, rows, view, blocks))
        prev_blocks = blocks
    if n == 0:
        return None
    cfg = h["config"]
    csuf = {"": "", "gzip": ".gz", "parallelgzip": ".gz", "lz4": ".lz4", "zstandard": ".zst", "brotli": ".br", "bzip2": ".bz2", "parallelbzip2": ".bz2"}[cfg.get("comp", "")]
    esuf = {"": "", "age": ".age", "pgp": ".pgp"}[cfg.get("enc", "")]
    ccfg = ("{| c_rs := %d; c_csuf := %s; c_esuf := %s; c_readonly := %s; c_uid := %d; c_gid := %d; c_uname := %s; c_gname := %s |}"
            % (cfg.get("rs", 20), cq_str(csuf), cq_str(esuf), cq_bool(cfg.get("readonly", False)), uid, gid, cq_str(uname), cq_str(gname)))
    txt = "{| cs_cfg := %s;\n   cs_hist := %s;\n   cs_obs := %s |}" % (ccfg, cq_list(hist), cq_list(obs))
    return txt.replace('"UID"', str(uid)).replace("UID", str(uid)).replace("GID", str(gid))


def emit_hist(h, results, upto, ident):
    """(cfg term, history term, Canon) for the first [upto] calls; needs obs 'tape' on every one of them"""
    cn = Canon(h, results)
    uid, gid, uname, gname = ident
    hist, prev_blocks = [], 0
    for i in range(upto):
        o = results[i].get("obs") or {}
        if "tape_len" not in o or o["tape_len"] % 512 != 0:
            return None
        newm = [m for m in (o.get("members") or []) if m["start"] >= prev_blocks]
        now = -(i + 1)
        hist.append("(%s, {| ev_hb := %s; ev_enc := %s; ev_now := %s |})" % (
            cq_call(h, h["calls"][i], now), cq_list([str(m["hb"]) for m in newm]), cq_list([str(m["size"]) for m in newm if m["size"] > 0]), cq_Z(now)))
        prev_blocks = o["tape_len"] // 512
    cfg = h["config"]
    csuf = {"": "", "gzip": ".gz", "parallelgzip": ".gz", "lz4": ".lz4", "zstandard": ".zst", "brotli": ".br", "bzip2": ".bz2", "parallelbzip2": ".bz2"}[cfg.get("comp", "")]
    esuf = {"": "", "age": ".age", "pgp": ".pgp"}[cfg.get("enc", "")]
    ccfg = ("{| c_rs := %d; c_csuf := %s; c_esuf := %s; c_readonly := %s; c_uid := %d; c_gid := %d; c_uname := %s; c_gname := %s |}"
            % (cfg.get("rs", 20), cq_str(csuf), cq_str(esuf), cq_bool(cfg.get("readonly", False)), uid, gid, cq_str(uname), cq_str(gname)))
    fix = lambda t: t.replace("UID", str(uid)).replace("GID", str(gid))
    return fix(ccfg), fix(cq_list(hist)), cn


def coq_eval_list(prelude, defs, tag, timeout=1200):
    """Compile a case file that Prints definitions M<k>; returns (ok, {k: text}, log)."""
    import re
    d = os.path.join(COQ, "Cases")
    os.makedirs(d, exist_ok=True)
    f = os.path.join(d, "%s.v" % tag)
    with open(f, "w") as hf:
        hf.write("From Coq Require Import String List NArith ZArith Bool.\nImport ListNotations.\n" + prelude + "\nOpen Scope N_scope.\nOpen Scope string_scope.\n")
        for k, body in enumerate(defs):
            hf.write("Definition M%d := Eval vm_compute in %s.\nPrint M%d.\n" % (k, body, k))
    rc, out = sh("coqc -Q Skel STFS -Q Gen STFS -Q Mon STFS -Q Model STFS -Q Proofs STFS -Q Props STFS Cases/%s.v" % tag, cwd=COQ, timeout=timeout)
    for ext in (".vo", ".vok", ".vos", ".glob"):
        try:
            os.remove(f[:-2] + ext)
        except OSError:
            pass
    res = {int(k): " ".join(v.split()) for k, v in re.findall(r"M(\d+)\s*=\s*(.*?)\s*:\s*(?:list|bool|nat|N|option)", out, re.S)}
    return rc == 0 and len(res) == len(defs), res, out[-2000:]


def identity_of(results):
    for r in results:
        for row in r.get("obs", {}).get("rows", []):
            if row["name"] in ("/", "") and row["tf"] == 53:
                return row["uid"], row["gid"], row["uname"], row["gname"]
    return os.getuid(), os.getgid(), "root", str(os.getgid())


def coq_mismatches(case_terms, tag, timeout=1200):
    """Evaluate `mismatches` over the cases inside Coq (vm_compute). Returns (ok, list[(case, call, kind)], log)."""
    d = os.path.join(COQ, "Cases")
    os.makedirs(d, exist_ok=True)
    f = os.path.join(d, "Cases_%s.v" % tag)
    with open(f, "w") as hfile:
        hfile.write("From Coq Require Import String List NArith ZArith Bool.\nImport ListNotations.\n"
                    "From STFS Require Import Str Db Tape Index Ops Fs Diff.\nOpen Scope N_scope.\nOpen Scope string_scope.\n")
        hfile.write("Definition cases : list case := [\n" + ";\n".join(case_terms) + "\n].\n")
        hfile.write("Definition M := Eval vm_compute in mismatches cases.\nPrint M.\n")
    rc, out = sh("coqc -Q Skel STFS -Q Gen STFS -Q Mon STFS -Q Model STFS -Q Proofs STFS -Q Props STFS Cases/Cases_%s.v" % tag, cwd=COQ, timeout=timeout)
    for ext in (".vo", ".vok", ".vos", ".glob"):
        try:
            os.remove(f[:-2] + ext)
        except OSError:
            pass
    if rc != 0:
        return False, [], out[-3000:]
    import re
    m = re.search(r"M\s*=\s*(\[.*?\])\s*:\s*list", out, re.S)
    if not m:
        return False, [], out[-3000:]
    body = m.group(1)
    tr = [tuple(int(x) for x in t) for t in re.findall(r"\((\d+)(?:%nat)?,\s*(\d+)(?:%nat)?,\s*(\d+)(?:%N)?\)", body)]
    return True, tr, out[-500:]


def emit_ro_tie(h, results, ident):
    """Coq term `first_diff ...` for a two-phase history: calls before the `ro_switch` call run under the writable configuration,
    the switch is Reopen + Initialize under the read-only configuration, the calls after it run under the read-only configuration.
    Needs obs rows/tree/tape on every call. Returns None when the run is not comparable."""
    calls = h["calls"]
    sw = next((i for i, c in enumerate(calls) if c["op"] == "ro_switch"), None)
    if sw is None or len(results) < len(calls):
        return None
    eh = emit_hist(h, results, sw, ident)
    if eh is None:
        return None
    ccfg, h1, cn = eh
    uid, gid = ident[0], ident[1]
    fix = lambda t: t.replace('"UID"', str(uid)).replace("UID", str(uid)).replace("GID", str(gid))
    cro = ccfg.replace("c_readonly := false", "c_readonly := true")
    if cro == ccfg:
        return None
    h2, obs = [], []
    for i in range(sw, len(calls)):
        r = results[i]
        o = r.get("obs") or {}
        if "tape_len" not in o or o["tape_len"] % 512 != 0 or "rows" not in o or "tree" not in o:
            return None
        if i > sw:
            h2.append("(%s, {| ev_hb := []; ev_enc := []; ev_now := %s |})" % (cq_call(h, calls[i], -(i + 1)), cq_Z(-(i + 1))))
        out = OUTC.get(r["out"], "OOther 0")
        rows = cq_list([cq_row(x, cn) for x in o.get("rows", [])])
        view = cq_list([cq_entry(e, cn) for e in sorted(o.get("tree", []), key=lambda e: e["path"].encode())])
        obs.append("{| ob_out := %s; ob_rows := %s; ob_view := %s; ob_blocks := %d |}" % (out, rows, view, o["tape_len"] // 512))
    root = cq_str(h["config"].get("root") or "/")
    term = ("(let cw := %s in let cro := %s in let s1 := final cw init_sys %s in\n"
            "  let s2 := fst (step cro s1 CReopen) in let r := step cro s2 (CInitialize %s) in\n"
            "  first_diff 0 (observe cro (fst r) (snd r) :: run cro (fst r) %s) %s)"
            % (ccfg, cro, h1, root, cq_list(h2), cq_list(obs)))
    return fix(term)
